/-
  C01, stage D — a direct call as a statement (`EXPRCALL`): the arguments are lowered in order, the `call`
  instruction enters the callee (a new frame on top of the caller's, on the caller's memory), the callee —
  by the hypothesis `FuncSim` on executions with less fuel — runs to a `ret` that binds the result in the
  caller's frame and gives the caller its memory back; then the cast to the type of the assigned variable
  and the store.
-/
import CprocVerif.Lemmas.Lower2Leaf
import CprocVerif.Lemmas.Lower2Func

set_option linter.unusedSimpArgs false

namespace CprocVerif.LowerMach2
open CprocVerif.Qbe CprocVerif.Lower CprocVerif.Lower2 CprocVerif.CSem CprocVerif.CSem2 CprocVerif.CInt
open CprocVerif.LowerArith CprocVerif.LowerMach CprocVerif.LowerMem

/-! ## Lists of argument values -/

/-- the registers `rs` represent the values `vs` at the types `ts` -/
def ArgReps : List CSem.Ty → List Int → List RVal → Prop
  | [], [], [] => True
  | t :: ts, v :: vs, r :: rs => Rep t v r ∧ ArgReps ts vs rs
  | _, _, _ => False

theorem ArgReps.get : ∀ {ts : List CSem.Ty} {vs : List Int} {rs : List RVal}, ArgReps ts vs rs →
    ∀ (k : Nat) (t : CSem.Ty) (v : Int), ts[k]? = some t → vs[k]? = some v →
      ∃ r, rs[k]? = some r ∧ Rep t v r := by
  intro ts
  induction ts with
  | nil => intro vs rs _ k t v ht; simp at ht
  | cons t0 ts ih =>
    intro vs rs h k t v ht hv
    cases vs with
    | nil => simp at hv
    | cons v0 vs =>
      cases rs with
      | nil => simp [ArgReps] at h
      | cons r0 rs =>
        simp only [ArgReps] at h
        cases k with
        | zero =>
          simp only [List.getElem?_cons_zero, Option.some.injEq] at ht hv
          subst ht; subst hv
          exact ⟨r0, rfl, h.1⟩
        | succ k =>
          simp only [List.getElem?_cons_succ] at ht hv ⊢
          exact ih h.2 k t v ht hv

theorem ArgReps.length : ∀ {ts : List CSem.Ty} {vs : List Int} {rs : List RVal}, ArgReps ts vs rs →
    vs.length = ts.length ∧ rs.length = ts.length := by
  intro ts
  induction ts with
  | nil =>
    intro vs rs h
    cases vs <;> cases rs <;> simp [ArgReps] at h ⊢
  | cons t0 ts ih =>
    intro vs rs h
    cases vs with
    | nil => cases rs <;> simp [ArgReps] at h
    | cons v0 vs =>
      cases rs with
      | nil => simp [ArgReps] at h
      | cons r0 rs =>
        simp only [ArgReps] at h
        have := ih h.2
        simp [this.1, this.2]

theorem readVals_cons {p : Prog} {env : Env} {v : Val} {vs : List Val} {r : RVal} {rs : List RVal}
    (h1 : readVal p env v = .ok r) (h2 : readVals p env vs = .ok rs) :
    readVals p env (v :: vs) = .ok (r :: rs) := by
  simp [readVals, h1, h2]

/-! ## The arguments -/

/-- `lowerArgs`: every argument is evaluated into a register that still holds it after the later ones. -/
theorem sim_args (T : Stat) (slots : List Nat) (vt : List CSem.Ty) (s : Store) (M : Mem)
    (hrange : ∀ (i : Nat) (t : CSem.Ty) (v' : Int), vt[i]? = some t → s[i]? = some (some v') →
      InRange (t.intTy T.S.cs) v')
    (es : List Expr) : ∀ (k : Ctx) (pre post : List Item) (env : Env) (vs : List Int),
    es.all (fun e => e.wt vt) = true → evalArgs T.S.cs s es = some vs →
    T.S.its = pre ++ (lowerArgs T.S.cs slots es k).1 ++ post →
    curOf T.S.o0 pre = k.cur → CurOK k →
    (∀ (i : Nat) (t : CSem.Ty), vt[i]? = some t → slots.getD i 0 ≤ k.lastid) →
    VarsIn (setM T.S M) slots vt s env →
    ∃ n env' rs, T.Reach n (T.at env M pre) (T.at env' M (pre ++ (lowerArgs T.S.cs slots es k).1)) ∧
      Frame k.lastid (lowerArgs T.S.cs slots es k).2.2.lastid env env' ∧
      readVals T.S.p env' ((lowerArgs T.S.cs slots es k).2.1.map (·.2)) = .ok rs ∧
      ArgReps (es.map (·.ty)) vs rs ∧
      (lowerArgs T.S.cs slots es k).2.1.map (·.1) = es.map (fun e => Qbe.Ty.base (cls e.ty)) := by
  induction es with
  | nil =>
    intro k pre post env vs _ hev _ _ _ _ _
    simp only [evalArgs, Option.some.injEq] at hev
    subst hev
    refine ⟨0, env, [], ?_, Frame.refl _ _ _, rfl, trivial, rfl⟩
    simp only [lowerArgs, List.append_nil]
    rfl
  | cons e es ih =>
    intro k pre post env vs hwt hev hits hcur hcok hn hvars
    simp only [List.all_cons, Bool.and_eq_true] at hwt
    simp only [evalArgs, Option.bind_eq_some_iff, Option.map_eq_some_iff] at hev
    obtain ⟨v, hv, vs', hvs', rfl⟩ := hev
    have gd := funcexpr2_good T.S.cs slots e k
    simp only [lowerArgs] at hits ⊢
    have hits1 : (setM T.S M).its = pre ++ (funcexpr2 T.S.cs slots e k).items ++
        ((lowerArgs T.S.cs slots es (funcexpr2 T.S.cs slots e k).ctx).1 ++ post) := by
      rw [setM_its, hits]; simp only [List.append_assoc]
    obtain ⟨n1, env1, hreach1, hfr1, r1, hval1, hrep1⟩ := sim_expr2 (setM T.S M) slots vt s hrange e k pre _
      env v hwt.1 hv hits1 hcur hcok hn hvars
    have hl := gd.lastid
    have hits2 : T.S.its = (pre ++ (funcexpr2 T.S.cs slots e k).items) ++
        (lowerArgs T.S.cs slots es (funcexpr2 T.S.cs slots e k).ctx).1 ++ post := by
      rw [hits]; simp only [List.append_assoc]
    obtain ⟨n2, env2, rs, hreach2, hfr2, hrd2, hreps2, htys2⟩ := ih (funcexpr2 T.S.cs slots e k).ctx
      (pre ++ (funcexpr2 T.S.cs slots e k).items) post env1 vs' hwt.2 hvs' hits2
      (gd.cur T.S.o0 pre hcur) (gd.curOK hcok)
      (fun i t ht => Nat.le_trans (hn i t ht) hl)
      (hvars.agree hfr1.agree hn)
    have hl2 := (lowerArgs_good T.S.cs slots es (funcexpr2 T.S.cs slots e k).ctx).1
    refine ⟨n1 + n2, env2, r1 :: rs, ?_, ?_, ?_, ⟨hrep1, hreps2⟩, ?_⟩
    · rw [← List.append_assoc]
      exact Reach.trans hreach1 hreach2
    · exact Frame.trans hfr1 hfr2 (Nat.le_refl _) hl hl2 (Nat.le_refl _)
    · simp only [List.map_cons]
      refine readVals_cons ?_ hrd2
      rw [readVal_agree gd.val hfr2.agree]
      exact hval1
    · simp only [List.map_cons, htys2]

/-! ## Entering the callee -/

theorem zipTys_length : ∀ (args : List (Qbe.Ty × Val)) (rs : List RVal), args.length = rs.length →
    (zipTys args rs).length = rs.length := by
  intro args
  induction args with
  | nil => intro rs h; cases rs <;> simp_all [zipTys]
  | cons a args ih =>
    intro rs h
    cases rs with
    | nil => simp at h
    | cons r rs =>
      obtain ⟨t, x⟩ := a
      simp only [List.length_cons, Nat.add_right_cancel_iff] at h
      simp [zipTys, ih rs h]

/-- `prepArgs` on registers that represent the arguments: they are coerced to the parameter classes -/
theorem prepArgs_rep (p : Prog) (mem : Mem) : ∀ (ts : List CSem.Ty) (i : Nat) (args : List (Qbe.Ty × Val))
    (vs : List Int) (rs : List RVal),
    args.map (·.1) = ts.map (fun t => Qbe.Ty.base (cls t)) → ArgReps ts vs rs →
    ∃ rs', prepArgs p (paramSig ts i) (zipTys args rs) mem = .ok (rs', mem) ∧ ArgReps ts vs rs' := by
  intro ts
  induction ts with
  | nil =>
    intro i args vs rs ha hr
    cases vs <;> cases rs <;> simp [ArgReps] at hr
    exact ⟨[], by simp [paramSig, prepArgs], trivial⟩
  | cons t ts ih =>
    intro i args vs rs ha hr
    cases args with
    | nil => simp at ha
    | cons a args =>
      cases vs with
      | nil => cases rs <;> simp [ArgReps] at hr
      | cons v vs =>
        cases rs with
        | nil => simp [ArgReps] at hr
        | cons r rs =>
          obtain ⟨ty, x⟩ := a
          simp only [List.map_cons, List.cons.injEq] at ha
          obtain ⟨hty, ha'⟩ := ha
          subst hty
          simp only [ArgReps] at hr
          obtain ⟨r', hco, hrep'⟩ := rep_coerce hr.1
          obtain ⟨rs', hp', hreps'⟩ := ih (i + 1) args vs rs ha' hr.2
          refine ⟨r' :: rs', ?_, hrep', hreps'⟩
          simp only [paramSig, zipTys, prepArgs]
          have hc : tyCompat (Qbe.Ty.base (cls t)) (Qbe.Ty.base (cls t)) = true := by
            simp [tyCompat, Ty.cls]
          simp only [hc, Bool.not_true, Bool.false_eq_true, if_false, Ty.cls, hco, hp',
            bind, Except.bind, pure, Except.pure]

/-- `enterFunc` of an emitted function on registers that represent in-range arguments -/
theorem enter_rep (p : Prog) (cs : Bool) (sid : Nat) (g : CSem2.Func) (M : Mem)
    (args : List (Qbe.Ty × Val)) (ρ : List Int) (rs : List RVal)
    (htys : args.map (·.1) = g.params.map (fun t => Qbe.Ty.base (cls t)))
    (hreps : ArgReps g.params ρ rs) (hsp : stackLimit + redZone + frameCost ≤ M.sp) :
    ∃ env0, enterFunc p (FuncInfo.of (Lower2.emitFunc cs sid g)) (zipTys args rs) none M =
        .ok ({ fi := FuncInfo.of (Lower2.emitFunc cs sid g), env := env0, bi := 0, ii := 0,
               stackMark := M.stack.size, spMark := M.sp, va := none },
             { M with sp := M.sp - frameCost }) ∧
      ∀ (k : Nat) (t : CSem.Ty) (v : Int), g.params[k]? = some t → ρ[k]? = some v →
        ∃ r, env0[tmpName (2 * k + 1)]? = some r ∧ StoreVal t v r := by
  obtain ⟨hlv, hlr⟩ := hreps.length
  have hla : args.length = g.params.length := by
    have := congrArg List.length htys
    simpa using this
  obtain ⟨rs', hprep, hreps'⟩ := prepArgs_rep p ⟨M.globals, M.stack, M.sp - frameCost⟩ g.params 0 args ρ rs
    htys hreps
  obtain ⟨_, hlr'⟩ := hreps'.length
  refine ⟨bindParams {} (paramSig g.params 0) rs', ?_, ?_⟩
  · have hnp : (Lower2.emitFunc cs sid g).params.length = g.params.length := paramSig_length _ _
    have hal : (zipTys args rs).length = g.params.length := by
      rw [zipTys_length args rs (by omega)]; exact hlr
    have hvar : (Lower2.emitFunc cs sid g).variadic = false := rfl
    have hsp' : ¬ M.sp < stackLimit + redZone + frameCost := by omega
    have hparams : (Lower2.emitFunc cs sid g).params = paramSig g.params 0 := rfl
    have hdrop : List.drop g.params.length (zipTys args rs) = [] := by
      rw [← hal]; exact List.drop_length
    simp only [enterFunc, FuncInfo.of, hvar, hparams, paramSig_length, hal, hsp', Nat.lt_irrefl,
      Bool.false_eq_true, if_false, bne_self_eq_false, Bool.and_false, markerBad, hdrop,
      vaArea, Bool.not_false, Bool.true_and, hprep, hlr']
  · intro k t v ht hv
    obtain ⟨r, hr, hrep⟩ := hreps'.get k t v ht hv
    have := (bindParams_spec g.params 0 rs' {} hlr').1 k r hr
    exact ⟨r, by simpa using this, storeVal_of_rep hrep⟩

/-! ## The `call` instruction and the return into the caller -/

theorem step_call_item (T : Stat) {pre post : List Item} {res : String} {k : Cls} {fn : String}
    {args : List (Qbe.Ty × Val)} {env : Env} {M M' : Mem} {rs : List RVal} {fi : FuncInfo}
    {nf : Qbe.Frame}
    (hits : T.S.its = pre ++ .ins (.call (some (res, .base k)) (.glob fn false) args none) :: post)
    (hr : readVals T.S.p env (args.map (·.2)) = .ok rs) (hf : T.S.p.funcs[fn]? = some fi)
    (he : enterFunc T.S.p fi (zipTys args rs) none M = .ok (nf, M')) :
    step T.S.p T.S.ext (T.at env M pre) =
      .next ⟨nf :: mkFr T.S.x env (posOf T.S.o0 pre).1 (posOf T.S.o0 pre).2 :: T.S.x.rest, M', T.S.x.tr⟩ := by
  obtain ⟨b, hb, hi⟩ := ins_at T.S.ft T.S.o0 pre post
    (.call (some (res, .base k)) (.glob fn false) args none)
  rw [← hits, ← T.S.block_get] at hb
  rw [Stat.at_def]
  simp only [step, mkSt, mkFr, hb, hi, stepIns, readVals, readVal, hr, calleeName, hf, he]

theorem retCont_call_item (T : Stat) {pre post : List Item} {res : String} {k : Cls} {fn : String}
    {args : List (Qbe.Ty × Val)} {env : Env} {M : Mem} {r r' : RVal}
    (hits : T.S.its = pre ++ .ins (.call (some (res, .base k)) (.glob fn false) args none) :: post)
    (hco : r.coerce k = .ok r') :
    retCont T.S.p (mkFr T.S.x env (posOf T.S.o0 pre).1 (posOf T.S.o0 pre).2 :: T.S.x.rest) M T.S.x.tr
        (.scalar r) =
      .next (T.at (env.insert res r') M
        (pre ++ [.ins (.call (some (res, .base k)) (.glob fn false) args none)])) := by
  obtain ⟨b, hb, hi⟩ := ins_at T.S.ft T.S.o0 pre post
    (.call (some (res, .base k)) (.glob fn false) args none)
  rw [← hits, ← T.S.block_get] at hb
  rw [Stat.at_def, posOf_ins]
  simp only [retCont, Qbe.Frame.curIns, mkFr, hb, hi, bindCallRes, Ty.cls, hco, mkSt]

/-! ## The call -/

/-- Executions of function bodies with fuel `n` are simulated as activations on top of any frames and any
    memory with room for `T.d` activations. -/
def FuncSim (T : Stat) (n : Nat) : Prop :=
  ∀ (fn : String) (g : CSem2.Func) (sid : Nat) (ρ : List Int) (ws : List (Option Int)) (v : Int) (M : Mem)
    (rest : List Qbe.Frame) (tr : Array String) (env0 : Env),
    lookup T.P fn = some g → EnvOK T.S.cs g.params ρ → MemInv M → Room T.K T.d M → M.sp ≤ stackTop →
    (∀ (k : Nat) (t : CSem.Ty) (v' : Int), g.pwin.length ≤ k → g.params[k]? = some t → ρ[k]? = some v' →
      ∃ r, env0[tmpName (2 * k + 1)]? = some r ∧ StoreVal t v' r) →
    WinOK T.S.cs g ws env0 M →
    exec T.S.cs T.P n (initStore g ρ ws) g.body = some (.ret v) →
    ∃ k st r, Reach T.S.p T.S.ext k
        (mkSt ⟨FuncInfo.of (Lower2.emitFunc T.S.cs sid g), M.stack.size, M.sp, rest, tr⟩ env0
          { M with sp := M.sp - frameCost } 0 0) st ∧
      step T.S.p T.S.ext st = retCont T.S.p rest M tr (.scalar r) ∧ RetRep g.ret v r ∧
      InRange (g.ret.intTy T.S.cs) v

/-- a function without array parameters -/
theorem FuncSim.plain {T : Stat} {n : Nat} (hf : FuncSim T n) (fn : String) (g : CSem2.Func) (sid : Nat)
    (ρ : List Int) (v : Int) (M : Mem) (rest : List Qbe.Frame) (tr : Array String) (env0 : Env)
    (hlk : lookup T.P fn = some g) (hpw : g.pwin = []) (henv : EnvOK T.S.cs g.params ρ) (hm : MemInv M)
    (hroom : Room T.K T.d M) (htop : M.sp ≤ stackTop)
    (hargs : ∀ (k : Nat) (t : CSem.Ty) (v' : Int), g.params[k]? = some t → ρ[k]? = some v' →
      ∃ r, env0[tmpName (2 * k + 1)]? = some r ∧ StoreVal t v' r)
    (hex : exec T.S.cs T.P n (initStore g ρ) g.body = some (.ret v)) :
    ∃ k st r, Reach T.S.p T.S.ext k
        (mkSt ⟨FuncInfo.of (Lower2.emitFunc T.S.cs sid g), M.stack.size, M.sp, rest, tr⟩ env0
          { M with sp := M.sp - frameCost } 0 0) st ∧
      step T.S.p T.S.ext st = retCont T.S.p rest M tr (.scalar r) ∧ RetRep g.ret v r ∧
      InRange (g.ret.intTy T.S.cs) v :=
  hf fn g sid ρ [] v M rest tr env0 hlk henv hm hroom htop (fun k t v' _ => hargs k t v')
    (by intro j t w h; rw [hpw] at h; simp at h) hex

/-- the arguments of a call are in the range of their types -/
theorem evalArgs_envOK (cs : Bool) (vt : List CSem.Ty) (s : Store)
    (hrange : ∀ (i : Nat) (t : CSem.Ty) (v' : Int), vt[i]? = some t → s[i]? = some (some v') →
      InRange (t.intTy cs) v') :
    ∀ (es : List Expr) (vs : List Int), es.all (fun e => e.wt vt) = true → evalArgs cs s es = some vs →
      EnvOK cs (es.map (·.ty)) vs := by
  intro es
  induction es with
  | nil =>
    intro vs _ h
    simp only [evalArgs, Option.some.injEq] at h
    subst h
    exact ⟨rfl, by intro i t v h; simp at h⟩
  | cons e es ih =>
    intro vs hwt h
    simp only [List.all_cons, Bool.and_eq_true] at hwt
    simp only [evalArgs, Option.bind_eq_some_iff, Option.map_eq_some_iff] at h
    obtain ⟨v, hv, vs', hvs', rfl⟩ := h
    obtain ⟨h1, h2⟩ := ih vs' hwt.2 hvs'
    refine ⟨by simp [h1], ?_⟩
    intro i t v' ht hv'
    cases i with
    | zero =>
      simp only [List.map_cons, List.getElem?_cons_zero, Option.some.injEq] at ht hv'
      subst ht; subst hv'
      exact evalE_inRange cs vt s hrange e v hwt.1 hv
    | succ i =>
      simp only [List.map_cons, List.getElem?_cons_succ] at ht hv'
      exact h2 i t v' ht hv'

/-- the memory while the body runs has room for the activations the caller was promised -/
theorem Stat.room_at (T : Stat) {s : Store} {env : Env} {M : Mem}
    (inv : SInv T.M0 T.S.cs T.cnts T.W T.σ T.vtys s env M) : Room T.K T.d M := by
  obtain ⟨h1, h2⟩ := T.hroom
  rw [Nat.succ_mul] at h1 h2
  have := inv.a.sp_lo
  have := inv.a.ssize
  have := T.hK
  have hm := xcount_mono T.cnts (a := T.vtys.length) (b := T.cnts.length) (by rw [inv.clen]; exact Nat.le_refl _)
  constructor <;> omega

theorem Room.sp_enter {K d : Nat} {M : Mem} (h : Room K d M) (hd : 0 < d) :
    stackLimit + redZone + frameCost ≤ M.sp := by
  obtain ⟨d', rfl⟩ : ∃ d', d = d' + 1 := ⟨d - 1, by omega⟩
  obtain ⟨h1, _⟩ := h
  rw [Nat.succ_mul] at h1
  have : redZone = 16 := rfl
  have : frameCost = 64 := rfl
  omega

/-- the cast of the call result to the type of the assigned variable (`mkassignexpr`: only between different
    types) -/
theorem sim_castOut (T : Stat) (c1 : Ctx) (t rt : CSem.Ty) (l : Val) {pos post : List Item} {env2 : Env}
    {M : Mem} {v : Int} {r' : RVal}
    (hits : T.S.its = pos ++ (if t = rt then (⟨[], l, c1⟩ : Out) else convert T.S.cs c1 t rt l).items ++ post)
    (hl : readVal T.S.p env2 l = .ok r') (hrep : Rep rt v r') (hrg : InRange (rt.intTy T.S.cs) v) :
    ∃ n env3 r3, T.Reach n (T.at env2 M pos)
        (T.at env3 M (pos ++ (if t = rt then (⟨[], l, c1⟩ : Out) else convert T.S.cs c1 t rt l).items)) ∧
      Frame c1.lastid (if t = rt then (⟨[], l, c1⟩ : Out) else convert T.S.cs c1 t rt l).ctx.lastid env2 env3 ∧
      readVal T.S.p env3 (if t = rt then (⟨[], l, c1⟩ : Out) else convert T.S.cs c1 t rt l).val = .ok r3 ∧
      Rep t (conv (rt.intTy T.S.cs) (t.intTy T.S.cs) v) r3 ∧
      c1.lastid ≤ (if t = rt then (⟨[], l, c1⟩ : Out) else convert T.S.cs c1 t rt l).ctx.lastid := by
  by_cases h : t = rt
  · subst h
    simp only [if_true, List.append_nil]
    refine ⟨0, env2, r', rfl, Frame.refl _ _ _, hl, ?_, Nat.le_refl _⟩
    show Rep t (wrap (t.intTy T.S.cs) v) r'
    rw [Eval.wrap_of_inRange (ty_valid T.S.cs t) hrg]
    exact hrep
  · simp only [if_neg h] at hits ⊢
    have hits' : (setM T.S M).its = pos ++ (convert T.S.cs c1 t rt l).items ++ post := by
      rw [setM_its]; exact hits
    obtain ⟨n, env3, hreach, hfr, r3, hval, hrep3, _⟩ := sim_convert2 (setM T.S M) c1 t rt l pos post env2 v r'
      hits' hl hrep hrg
    exact ⟨n, env3, r3, hreach, hfr, hval, hrep3, (convert_straight _ _ _ _ _).lastid⟩

section
variable (T : Stat) {s : Store} {lp : Bool × Bool} {brk cont : String} {c : SCtx}
  {nd : Nat} {pre post : List Item} {env : Env} {M : Mem}

/-- arguments, `call`, the callee's activation, the return into this frame -/
theorem sim_callcore (n : Nat) (hf : FuncSim T n) (hd : 0 < T.d) {rt : CSem.Ty} {fn : String}
    {args : List Expr} {g : CSem2.Func} {vs : List Int} {v : Int}
    (hlk : lookup T.P fn = some g) (hret : g.ret = rt) (hpar : args.map (·.ty) = g.params)
    (hpw : g.pwin = []) (hvs : evalArgs T.S.cs s args = some vs)
    (hbody : exec T.S.cs T.P n (initStore g vs) g.body = some (.ret v))
    (hwa : args.all (fun e => e.wt (T.vtys.take nd)) = true) (hp : Pos T c nd pre)
    (hpre : ∀ i, i < nd → T.σ.getD i 0 = c.slots.getD i 0)
    (hfut : ∀ k, nd ≤ k → k < T.vtys.length →
      (lowerArgs T.S.cs c.slots args c.ctx).2.2.lastid + 1 < T.σ.getD k 0)
    (hits : T.S.its = pre ++ (lowerArgs T.S.cs c.slots args c.ctx).1 ++
      .ins (.call (some (tmpName ((lowerArgs T.S.cs c.slots args c.ctx).2.2.lastid + 1), .base (cls rt)))
        (.glob fn false) (lowerArgs T.S.cs c.slots args c.ctx).2.1 none) :: post)
    (inv : SInv T.M0 T.S.cs T.cnts T.W T.σ T.vtys s env M) :
    ∃ k env2 r', T.Reach k (T.at env M pre) (T.at env2 M (pre ++ (lowerArgs T.S.cs c.slots args c.ctx).1 ++
        [.ins (.call (some (tmpName ((lowerArgs T.S.cs c.slots args c.ctx).2.2.lastid + 1), .base (cls rt)))
          (.glob fn false) (lowerArgs T.S.cs c.slots args c.ctx).2.1 none)])) ∧
      SInv T.M0 T.S.cs T.cnts T.W T.σ T.vtys s env2 M ∧
      Frame c.lastid ((lowerArgs T.S.cs c.slots args c.ctx).2.2.lastid + 1) env env2 ∧
      readVal T.S.p env2 (.tmp (tmpName ((lowerArgs T.S.cs c.slots args c.ctx).2.2.lastid + 1))) = .ok r' ∧
      Rep rt v r' ∧ InRange (rt.intTy T.S.cs) v := by
  generalize hla : lowerArgs T.S.cs c.slots args c.ctx = la at hfut hits ⊢
  have hvars : VarsIn (setM T.S M) c.slots (T.vtys.take nd) s env := by
    intro i t v' ht hv'
    obtain ⟨ht', hi⟩ := take_sub ht
    obtain ⟨a, r, h1, h2, h3⟩ := inv.varsIn i t v' ht' hv'
    exact ⟨a, r, by rw [← hpre i hi]; exact h1, h2, h3⟩
  have hrange : ∀ (i : Nat) (t : CSem.Ty) (v' : Int), (T.vtys.take nd)[i]? = some t →
      s[i]? = some (some v') → InRange (t.intTy T.S.cs) v' :=
    fun i t v' ht hv' => inv.range i t v' (take_sub ht).1 hv'
  have hits1 : T.S.its = pre ++ (lowerArgs T.S.cs c.slots args c.ctx).1 ++
      (.ins (.call (some (tmpName (la.2.2.lastid + 1), .base (cls rt))) (.glob fn false) la.2.1 none) ::
        post) := by rw [hla]; exact hits
  obtain ⟨n1, env1, rs, hreach1, hfr1, hrd1, hreps1, htys1⟩ := sim_args T c.slots (T.vtys.take nd) s M hrange
    args c.ctx pre _ env vs hwa hvs hits1 hp.cur hp.curOK (fun i t ht => hp.le i (take_sub ht).2) hvars
  rw [hla] at hreach1 hfr1 hrd1 htys1
  have hl1 : c.lastid ≤ la.2.2.lastid := by
    have := (lowerArgs_good T.S.cs c.slots args c.ctx).1
    rw [hla] at this; exact this
  have inv1 : SInv T.M0 T.S.cs T.cnts T.W T.σ T.vtys s env1 M :=
    inv.env (slots_kept hp hpre (fun k hk hkv => by have := hfut k hk hkv; omega) hfr1)
  -- the callee
  obtain ⟨sid, hfi⟩ := T.hfuncs fn g hlk
  have henvOK : EnvOK T.S.cs g.params vs := by
    rw [← hpar]; exact evalArgs_envOK T.S.cs _ s hrange args vs hwa hvs
  rw [hpar] at hreps1
  have htys : la.2.1.map (·.1) = g.params.map (fun t => Qbe.Ty.base (cls t)) := by
    rw [htys1, ← hpar, List.map_map]; rfl
  have hroomM := T.room_at inv1
  obtain ⟨env0, henter, hargs0⟩ := enter_rep T.S.p T.S.cs sid g M la.2.1 vs rs htys hreps1
    (hroomM.sp_enter hd)
  have hstep1 := step_call_item T hits hrd1 hfi henter
  have hsptop : M.sp ≤ stackTop := Nat.le_trans inv1.a.sp_hi inv1.a.top
  obtain ⟨k, st, r, hreachc, hstepc, hrr, hrg⟩ := hf.plain fn g sid vs v M
    (mkFr T.S.x env1 (posOf T.S.o0 (pre ++ la.1)).1 (posOf T.S.o0 (pre ++ la.1)).2 :: T.S.x.rest) T.S.x.tr env0
    hlk hpw henvOK inv1.a.mem hroomM hsptop hargs0 hbody
  -- back in the caller
  rw [hret] at hrr hrg
  obtain ⟨r', hco, hrep'⟩ := rep_coerce hrr.1
  have hstep2 := retCont_call_item T (env := env1) (M := M) hits hco
  rw [← hstepc] at hstep2
  refine ⟨n1 + 1 + k + 1, env1.insert (tmpName (la.2.2.lastid + 1)) r', r', ?_, ?_, ?_,
    readVal_insert_self _ _ _ _, hrep', hrg⟩
  · exact ((hreach1.trans (Reach.one hstep1)).trans hreachc).trans (Reach.one hstep2)
  · have hfr2 : Frame c.lastid (la.2.2.lastid + 1) env1 (env1.insert (tmpName (la.2.2.lastid + 1)) r') :=
      Frame.insert env1 r' (by omega) (Nat.le_refl _)
    exact inv1.env (slots_kept hp hpre hfut hfr2)
  · exact Frame.trans hfr1 (Frame.insert env1 r' (Nat.lt_succ_self _) (Nat.le_refl _)) (Nat.le_refl _) hl1
      (Nat.le_succ _) (Nat.le_refl _)

/-- `[x =] f(args);` -/
theorem sim_call (n : Nat) (hf : FuncSim T n) (hd : 0 < T.d) (dst : Option (Nat × CSem.Ty)) (rt : CSem.Ty)
    (fn : String) (args : List Expr) {out : CSem2.Outcome} {nd' : Nat}
    (hex : exec T.S.cs T.P (n + 1) s (.call dst rt fn args) = some out)
    (hfr : frag T.P T.cnts T.W (.call dst rt fn args) = true)
    (hwt : Stmt.wt T.vtys T.ret lp.1 lp.2 nd (.call dst rt fn args) = some nd') (hp : Pos T c nd pre)
    (hext : Ext T (funcstmt T.S.cs brk cont (.call dst rt fn args) c).ctx)
    (hits : T.S.its = pre ++ (funcstmt T.S.cs brk cont (.call dst rt fn args) c).items ++ post)
    (inv : SInv T.M0 T.S.cs T.cnts T.W T.σ T.vtys s env M) :
    Post T lp brk cont (T.at env M pre) (pre ++ (funcstmt T.S.cs brk cont (.call dst rt fn args) c).items)
      (funcstmt T.S.cs brk cont (.call dst rt fn args) c).ctx out := by
  simp only [exec] at hex
  cases hlk : lookup T.P fn with
  | none => simp only [hlk] at hex; cases hex
  | some g =>
    simp only [hlk, Option.bind_eq_some_iff] at hex
    obtain ⟨vs, hvs, hex⟩ := hex
    have hne : T.P.isEmpty = false := by
      cases hP : T.P with
      | nil => rw [hP] at hlk; simp [lookup] at hlk
      | cons _ _ => rfl
    simp only [frag, hne, Bool.false_or, callsOK, hlk, Bool.and_eq_true, beq_iff_eq,
      List.isEmpty_iff] at hfr
    obtain ⟨⟨hfr, hpw⟩, hdst⟩ := hfr
    simp only [Stmt.wt] at hwt
    split at hwt
    · rename_i hw
      cases hbody : exec T.S.cs T.P n (initStore g vs) g.body with
      | none => simp only [hbody] at hex; cases hex
      | some ob =>
        simp only [hbody] at hex
        cases ob with
        | normal _ => cases hex
        | brk _ => cases hex
        | cont _ => cases hex
        | ret v =>
          simp only [] at hex
          cases dst with
          | none =>
            simp only [Option.some.injEq] at hex
            subst hex
            simp only [funcstmt, funcopen_none hp.jump, List.nil_append] at hext hits ⊢
            have hpre : ∀ i, i < nd → T.σ.getD i 0 = c.slots.getD i 0 := fun i hi => hext.1 i (by
              show i < c.slots.length; rw [hp.nslots]; exact hi)
            have hfut : ∀ k, nd ≤ k → k < T.vtys.length →
                (lowerArgs T.S.cs c.slots args c.ctx).2.2.lastid + 1 < T.σ.getD k 0 := fun k hk hkv =>
              hext.2 k (by show c.slots.length ≤ k; rw [hp.nslots]; exact hk) hkv
            have hits' : T.S.its = pre ++ (lowerArgs T.S.cs c.slots args c.ctx).1 ++
                .ins (.call (some (tmpName ((lowerArgs T.S.cs c.slots args c.ctx).2.2.lastid + 1), .base (cls rt)))
                  (.glob fn false) (lowerArgs T.S.cs c.slots args c.ctx).2.1 none) :: post := by
              rw [hits]; simp only [List.append_assoc, List.singleton_append]
            obtain ⟨k, env2, r', hreach, inv2, _⟩ := sim_callcore T n hf hd hlk hfr.1 hfr.2 hpw hvs hbody hw.1 hp
              hpre hfut hits' inv
            refine ⟨hp.jump, k, env2, M, ?_, inv2⟩
            rw [← List.append_assoc]
            exact hreach
          | some d =>
            obtain ⟨i, t⟩ := d
            simp only [Option.some.injEq] at hex
            subst hex
            simp only [decide_eq_true_eq] at hdst
            simp only [dstOK, Bool.and_eq_true, decide_eq_true_eq, beq_iff_eq] at hw
            obtain ⟨hwa, hi, hkt⟩ := hw
            simp only [funcstmt, funcopen_none hp.jump, List.nil_append] at hext hits ⊢
            have hl1 : c.lastid ≤ (lowerArgs T.S.cs c.slots args c.ctx).2.2.lastid :=
              (lowerArgs_good T.S.cs c.slots args c.ctx).1
            have hits0 : T.S.its = (pre ++ (lowerArgs T.S.cs c.slots args c.ctx).1 ++
                [.ins (.call (some (tmpName ((lowerArgs T.S.cs c.slots args c.ctx).2.2.lastid + 1), .base (cls rt)))
                  (.glob fn false) (lowerArgs T.S.cs c.slots args c.ctx).2.1 none)]) ++
                (if t = rt then (⟨[], .tmp (tmpName ((lowerArgs T.S.cs c.slots args c.ctx).2.2.lastid + 1)),
                    ⟨(lowerArgs T.S.cs c.slots args c.ctx).2.2.lastid + 1,
                      (lowerArgs T.S.cs c.slots args c.ctx).2.2.blockid,
                      (lowerArgs T.S.cs c.slots args c.ctx).2.2.cur⟩⟩ : Out)
                  else convert T.S.cs ⟨(lowerArgs T.S.cs c.slots args c.ctx).2.2.lastid + 1,
                      (lowerArgs T.S.cs c.slots args c.ctx).2.2.blockid,
                      (lowerArgs T.S.cs c.slots args c.ctx).2.2.cur⟩ t rt
                    (.tmp (tmpName ((lowerArgs T.S.cs c.slots args c.ctx).2.2.lastid + 1)))).items ++
                (storeIns t (if t = rt then (⟨[], .tmp (tmpName ((lowerArgs T.S.cs c.slots args c.ctx).2.2.lastid + 1)),
                    ⟨(lowerArgs T.S.cs c.slots args c.ctx).2.2.lastid + 1,
                      (lowerArgs T.S.cs c.slots args c.ctx).2.2.blockid,
                      (lowerArgs T.S.cs c.slots args c.ctx).2.2.cur⟩⟩ : Out)
                  else convert T.S.cs ⟨(lowerArgs T.S.cs c.slots args c.ctx).2.2.lastid + 1,
                      (lowerArgs T.S.cs c.slots args c.ctx).2.2.blockid,
                      (lowerArgs T.S.cs c.slots args c.ctx).2.2.cur⟩ t rt
                    (.tmp (tmpName ((lowerArgs T.S.cs c.slots args c.ctx).2.2.lastid + 1)))).val
                  (c.slots.getD i 0) :: post) := by
              rw [hits]; simp only [List.append_assoc, List.singleton_append, List.cons_append, List.nil_append]
            have hcast := fun (env2 : Env) (r' : RVal) => sim_castOut T
              ⟨(lowerArgs T.S.cs c.slots args c.ctx).2.2.lastid + 1,
                (lowerArgs T.S.cs c.slots args c.ctx).2.2.blockid,
                (lowerArgs T.S.cs c.slots args c.ctx).2.2.cur⟩ t rt
              (.tmp (tmpName ((lowerArgs T.S.cs c.slots args c.ctx).2.2.lastid + 1)))
              (env2 := env2) (M := M) (v := v) (r' := r') hits0
            have hle : (lowerArgs T.S.cs c.slots args c.ctx).2.2.lastid + 1 ≤
                (if t = rt then (⟨[], .tmp (tmpName ((lowerArgs T.S.cs c.slots args c.ctx).2.2.lastid + 1)),
                    ⟨(lowerArgs T.S.cs c.slots args c.ctx).2.2.lastid + 1,
                      (lowerArgs T.S.cs c.slots args c.ctx).2.2.blockid,
                      (lowerArgs T.S.cs c.slots args c.ctx).2.2.cur⟩⟩ : Out)
                  else convert T.S.cs ⟨(lowerArgs T.S.cs c.slots args c.ctx).2.2.lastid + 1,
                      (lowerArgs T.S.cs c.slots args c.ctx).2.2.blockid,
                      (lowerArgs T.S.cs c.slots args c.ctx).2.2.cur⟩ t rt
                    (.tmp (tmpName ((lowerArgs T.S.cs c.slots args c.ctx).2.2.lastid + 1)))).ctx.lastid := by
              split
              · exact Nat.le_refl _
              · exact (convert_straight T.S.cs ⟨(lowerArgs T.S.cs c.slots args c.ctx).2.2.lastid + 1,
                  (lowerArgs T.S.cs c.slots args c.ctx).2.2.blockid,
                  (lowerArgs T.S.cs c.slots args c.ctx).2.2.cur⟩ t rt _).lastid
            generalize hov : (if t = rt then (⟨[], .tmp (tmpName ((lowerArgs T.S.cs c.slots args c.ctx).2.2.lastid + 1)),
                    ⟨(lowerArgs T.S.cs c.slots args c.ctx).2.2.lastid + 1,
                      (lowerArgs T.S.cs c.slots args c.ctx).2.2.blockid,
                      (lowerArgs T.S.cs c.slots args c.ctx).2.2.cur⟩⟩ : Out)
                  else convert T.S.cs ⟨(lowerArgs T.S.cs c.slots args c.ctx).2.2.lastid + 1,
                      (lowerArgs T.S.cs c.slots args c.ctx).2.2.blockid,
                      (lowerArgs T.S.cs c.slots args c.ctx).2.2.cur⟩ t rt
                    (.tmp (tmpName ((lowerArgs T.S.cs c.slots args c.ctx).2.2.lastid + 1)))) = ov
              at hext hits hits0 hcast hle ⊢
            have hpre : ∀ j, j < nd → T.σ.getD j 0 = c.slots.getD j 0 := fun j hj => hext.1 j (by
              show j < c.slots.length; rw [hp.nslots]; exact hj)
            have hfut3 : ∀ k, nd ≤ k → k < T.vtys.length → ov.ctx.lastid < T.σ.getD k 0 := fun k hk hkv =>
              hext.2 k (by show c.slots.length ≤ k; rw [hp.nslots]; exact hk) hkv
            have hits' : T.S.its = pre ++ (lowerArgs T.S.cs c.slots args c.ctx).1 ++
                .ins (.call (some (tmpName ((lowerArgs T.S.cs c.slots args c.ctx).2.2.lastid + 1), .base (cls rt)))
                  (.glob fn false) (lowerArgs T.S.cs c.slots args c.ctx).2.1 none) ::
                (ov.items ++ storeIns t ov.val (c.slots.getD i 0) :: post) := by
              rw [hits0]; simp only [List.append_assoc, List.singleton_append, List.cons_append, List.nil_append]
            obtain ⟨k, env2, r', hreach, inv2, hfr2, hval2, hrep2, hrg⟩ := sim_callcore T n hf hd hlk hfr.1 hfr.2 hpw hvs
              hbody hwa hp hpre (fun k hk hkv => by have := hfut3 k hk hkv; omega) hits' inv
            obtain ⟨n3, env3, r3, hreach3, hfr3, hval3, hrep3, _⟩ := hcast env2 r' hval2 hrep2 hrg
            have inv3 : SInv T.M0 T.S.cs T.cnts T.W T.σ T.vtys s env3 M :=
              inv2.env (slots_kept hp hpre hfut3 (Frame.mono hfr3
                (by show c.lastid ≤ (lowerArgs T.S.cs c.slots args c.ctx).2.2.lastid + 1; omega) (Nat.le_refl _)))
            have hv : InRange (t.intTy T.S.cs) (conv (rt.intTy T.S.cs) (t.intTy T.S.cs) v) :=
              Eval.wrap_inRange (ty_valid T.S.cs t) _
            obtain ⟨M', hr4, inv4⟩ := sim_store T i t ov.val (c.slots.getD i 0) hits0 (hpre i hi) hkt hdst hval3 hv
              hrep3 inv3
            refine ⟨hp.jump, k + n3 + 1, env3, M', ?_, inv4⟩
            have := (hreach.trans hreach3).trans hr4
            simp only [List.append_assoc, List.singleton_append, List.cons_append, List.nil_append] at this ⊢
            exact this
    · cases hwt

end

end CprocVerif.LowerMach2

/-
  C01 — the function wrapper: parameter passing, the spills of `mkfunc`, reading a parameter back.
-/
import CprocVerif.Lemmas.LowerSim2
import CprocVerif.Lemmas.LowerMem

set_option linter.unusedSimpArgs false

namespace CprocVerif.LowerMach
open CprocVerif.Qbe CprocVerif.Lower CprocVerif.CSem CprocVerif.CInt CprocVerif.LowerArith
open CprocVerif.LowerMem

/-! ## `alloc`, `store`, `load` -/

theorem exec_alloc {M M1 : Mem} (al size base : Nat) (hs : size < 2 ^ 64)
    (h : M.alloc size al = .ok (base, M1)) :
    execOp (.alloc al) (some .l) [⟨.c, UInt64.ofNat size⟩] M none =
      .ok (⟨.l, base.toUInt64⟩, M1) := by
  have hn : (UInt64.ofNat size).toNat = size := by
    rw [UInt64.toNat_ofNat']; exact Nat.mod_eq_of_lt hs
  simp only [execOp, asL_mk_c, bind, Except.bind, hn, h, pure, Except.pure]

theorem exec_store_w {M M2 : Mem} (st : StoreTy) (hst : st = .w ∨ st = .h ∨ st = .b) {v addr : RVal}
    {a x : UInt64} (ha : addr.asL = .ok a) (hx : v.asW = .ok x)
    (h : M.store a.toNat (storeSize st) x = .ok M2) :
    execOp (.store st) none [v, addr] M none = .ok (dummy, M2) := by
  rcases hst with rfl | rfl | rfl <;>
    simp only [execOp, ha, hx, bind, Except.bind, h, pure, Except.pure]

theorem exec_store_l {M M2 : Mem} {v addr : RVal}
    {a x : UInt64} (ha : addr.asL = .ok a) (hx : v.asL = .ok x)
    (h : M.store a.toNat (storeSize .l) x = .ok M2) :
    execOp (.store .l) none [v, addr] M none = .ok (dummy, M2) := by
  simp only [execOp, ha, hx, bind, Except.bind, h, pure, Except.pure]

theorem mod_mod_pow (v : Int) {m n : Nat} (h : m ≤ n) : v % 2 ^ n % 2 ^ m = v % 2 ^ m := by
  obtain ⟨d, rfl⟩ : ∃ d, n = m + d := ⟨n - m, by omega⟩
  exact Int.emod_emod_of_dvd _ ⟨2 ^ d, by rw [Int.pow_add]⟩

/-- reading a parameter slot back -/
theorem load_rep (cs : Bool) (t : CSem.Ty) (v : Int) (M : Mem) (a x : UInt64)
    (hload : M.load a.toNat t.size = .ok x) (hx : (x.toNat : Int) = v % 2 ^ (8 * t.size)) :
    ∃ r, execOp (.load (loadOf cs t)) (some (cls t)) [⟨.l, a⟩] M none = .ok (r, M) ∧ Rep t v r := by
  rcases size_cases t with hs | hs | hs | hs
  · -- one byte
    simp only [hs, Nat.reduceMul] at hx hload
    have hxl : x.toNat < 2 ^ 8 := by omega
    simp only [loadOf, hs, cls, Nat.reduceEqDiff, if_false]
    cases hsg : t.signed cs
    · refine ⟨⟨.w, x &&& mask32⟩, ?_, ?_⟩
      · simp [execOp, needRes, bind, Except.bind, loadInfo, hload, truncTo, pure, Except.pure, Cls.kind]
      · simp only [Rep, hs, Nat.reduceEqDiff, if_false, Nat.reduceMul]
        refine ⟨_, rfl, ?_⟩
        simp only [toNat_and_mask32]
        omega
    · refine ⟨⟨.w, sext 8 x &&& mask32⟩, ?_, ?_⟩
      · simp [execOp, needRes, bind, Except.bind, loadInfo, hload, truncTo, pure, Except.pure, Cls.kind]
      · simp only [Rep, hs, Nat.reduceEqDiff, if_false, Nat.reduceMul]
        refine ⟨_, rfl, ?_⟩
        have h8 := sext8 x
        simp only [toNat_and_mask32]
        split at h8 <;> omega
  · simp only [hs, Nat.reduceMul] at hx hload
    have hxl : x.toNat < 2 ^ 16 := by omega
    simp only [loadOf, hs, cls, Nat.reduceEqDiff, if_false]
    cases hsg : t.signed cs
    · refine ⟨⟨.w, x &&& mask32⟩, ?_, ?_⟩
      · simp [execOp, needRes, bind, Except.bind, loadInfo, hload, truncTo, pure, Except.pure, Cls.kind]
      · simp only [Rep, hs, Nat.reduceEqDiff, if_false, Nat.reduceMul]
        refine ⟨_, rfl, ?_⟩
        simp only [toNat_and_mask32]
        omega
    · refine ⟨⟨.w, sext 16 x &&& mask32⟩, ?_, ?_⟩
      · simp [execOp, needRes, bind, Except.bind, loadInfo, hload, truncTo, pure, Except.pure, Cls.kind]
      · simp only [Rep, hs, Nat.reduceEqDiff, if_false, Nat.reduceMul]
        refine ⟨_, rfl, ?_⟩
        have h8 := sext16 x
        simp only [toNat_and_mask32]
        split at h8 <;> omega
  · simp only [hs, Nat.reduceMul] at hx hload
    have hxl : x.toNat < 2 ^ 32 := by omega
    simp only [loadOf, hs, cls, Nat.reduceEqDiff, if_false]
    refine ⟨⟨.w, sext 32 x &&& mask32⟩, ?_, ?_⟩
    · simp [execOp, needRes, bind, Except.bind, loadInfo, hload, truncTo, pure, Except.pure, Cls.kind]
    · simp only [Rep, hs, Nat.reduceEqDiff, if_false, Nat.reduceMul]
      refine ⟨_, rfl, ?_⟩
      have h8 := sext32 x
      simp only [toNat_and_mask32]
      split at h8 <;> omega
  · simp only [hs, Nat.reduceMul] at hx hload
    simp only [loadOf, hs, cls, if_true]
    refine ⟨⟨.l, x⟩, ?_, ?_⟩
    · simp [execOp, needRes, bind, Except.bind, loadInfo, hload, pure, Except.pure]
    · simp only [Rep, hs, if_true]
      exact ⟨_, rfl, hx⟩

/-! ## The spills of `mkfunc` -/

theorem stackTop_val : stackTop = 0x7f0000000000 := rfl
theorem stackLimit_val : stackLimit = 0x7efffc000000 := rfl

/-- State after the first `i` parameters have been spilled. -/
structure PInv (cs : Bool) (ptys : List CSem.Ty) (ρ : List Int) (i : Nat) (env : Env) (M : Mem) :
    Prop where
  mem : MemInv M
  ssize : M.stack.size = i
  sp_lo : stackTop ≤ M.sp + 64 + 32 * i
  sp_hi : M.sp ≤ stackTop
  params : ∀ (k : Nat) (t : CSem.Ty) (v : Int), ptys[k]? = some t → ρ[k]? = some v →
    env[tmpName (2 * k + 1)]? = some (argOf t v).2
  slots : ∀ (k : Nat) (t : CSem.Ty) (v : Int), k < i → ptys[k]? = some t → ρ[k]? = some v →
    ∃ (a : UInt64) (al : Alloc), env[tmpName (2 * k + 2)]? = some ⟨.l, a⟩ ∧
      M.stack[k]? = some al ∧ al.base = a.toNat ∧ al.size = t.size ∧
      ((loadLE al.bytes 0 t.size).toNat : Int) = v % 2 ^ (8 * t.size)

theorem spills_allIns (ts : List CSem.Ty) (i : Nat) : ∀ it ∈ spills ts i, ∃ ins, it = .ins ins := by
  induction ts generalizing i with
  | nil => simp [spills]
  | cons t ts ih =>
    intro it hit
    simp only [spills, spill, List.cons_append, List.nil_append, List.mem_cons] at hit
    rcases hit with h | h | h
    · exact ⟨_, h⟩
    · exact ⟨_, h⟩
    · exact ih _ it h

/-- the value stored for a parameter -/
theorem arg_store (t : CSem.Ty) (v : Int) :
    ∃ x : UInt64, (if t.size = 8 then (argOf t v).2.asL else (argOf t v).2.asW) = .ok x ∧
      (x.toNat : Int) % 2 ^ (8 * t.size) = v % 2 ^ (8 * t.size) := by
  unfold argOf
  by_cases h8 : t.size = 8
  · simp only [h8, if_true, asL_mk_l]
    refine ⟨_, rfl, ?_⟩
    rw [UInt64.toNat_ofNat']
    have : (v % 2 ^ 64).toNat % 2 ^ 64 = (v % 2 ^ 64).toNat := Nat.mod_eq_of_lt (by omega)
    rw [this]
    omega
  · simp only [h8, if_false, asW_mk_w]
    refine ⟨_, rfl, ?_⟩
    rw [toNat_and_mask32, UInt64.toNat_ofNat']
    have h1 : (v % 2 ^ 32).toNat % 2 ^ 64 % 2 ^ 32 = (v % 2 ^ 32).toNat := by omega
    rw [h1]
    have h2 : (((v % 2 ^ 32).toNat : Nat) : Int) = v % 2 ^ 32 := by omega
    rw [h2]
    rcases size_cases t with hs | hs | hs | hs <;> simp only [hs, Nat.reduceMul]
    · exact mod_mod_pow v (by omega)
    · exact mod_mod_pow v (by omega)
    · exact mod_mod_pow v (by omega)
    · exact absurd hs h8

theorem storeSize_storeOf (t : CSem.Ty) : storeSize (storeOf t) = t.size := by
  rcases size_cases t with hs | hs | hs | hs <;> simp [storeOf, hs, storeSize]

section Prologue
variable (cs : Bool) (p : Prog) (ext : Ext) (x : Fix) (ft : Jump) (o0 : Open) (its : List Item)
  (hblocks : x.fi.f.blocks = (assemble ft o0 its).toArray) (ptys : List CSem.Ty) (ρ : List Int)
  (hlen : ρ.length = ptys.length) (hsmall : ptys.length ≤ 1000000)

include hblocks hlen hsmall in
/-- one parameter: `alloc`, `store` -/
theorem run_spill (t : CSem.Ty) (i : Nat) (hti : ptys[i]? = some t) (pre post : List Item)
    (env : Env) (M : Mem) (hits : its = pre ++ spill t i ++ post)
    (inv : PInv cs ptys ρ i env M) :
    ∃ env' M', Reach p ext 2 (mkSt x env M (posOf o0 pre).1 (posOf o0 pre).2)
        (mkSt x env' M' (posOf o0 (pre ++ spill t i)).1 (posOf o0 (pre ++ spill t i)).2) ∧
      PInv cs ptys ρ (i + 1) env' M' ∧ M'.globals = M.globals := by
  have hi : i < ptys.length := by
    rcases Nat.lt_or_ge i ptys.length with h | h
    · exact h
    · rw [List.getElem?_eq_none h] at hti; cases hti
  obtain ⟨v, hv⟩ : ∃ v, ρ[i]? = some v := ⟨ρ[i]'(by omega), List.getElem?_eq_getElem (by omega)⟩
  obtain ⟨xv, hxv, hxm⟩ := arg_store t v
  have hsz : 0 < t.size ∧ t.size ≤ 8 := by rcases size_cases t with h | h | h | h <;> omega
  have hal : (if t.size = 8 then 8 else 4) = 4 ∨ (if t.size = 8 then 8 else 4) = 8 := by
    split <;> simp
  have hroom : stackLimit + 64 ≤ M.sp := by
    have := inv.sp_lo; rw [stackTop_val] at this; rw [stackLimit_val]; omega
  obtain ⟨base, M1, M2, halloc, hstore, hinv2, hsp2, hb1, hb2, hss2, hg2, hold, hnew⟩ :=
    spill_mem inv.mem t.size (if t.size = 8 then 8 else 4) hsz hal hroom
      (by have := inv.ssize; omega) xv
  have hbase64 : base < 2 ^ 64 := by
    have := inv.sp_hi; rw [stackTop_val] at this; omega
  have hbn : base.toUInt64.toNat = base := by
    show (UInt64.ofNat base).toNat = base
    rw [UInt64.toNat_ofNat']; exact Nat.mod_eq_of_lt hbase64
  -- the two instructions
  simp only [spill, List.append_assoc, List.cons_append, List.nil_append] at hits
  obtain ⟨b1, hb1', hi1⟩ := ins_at ft o0 pre (_ :: post) (.op (some (tmpName (2 * i + 2), .l))
    (.alloc (if t.size = 8 then 8 else 4)) [.int (UInt64.ofNat t.size)])
  rw [← hits, ← List.getElem?_toArray, ← hblocks] at hb1'
  have hstep1 := step_op_res (p := p) (ext := ext) x (env := env) (M := M) hb1' hi1
    (readVals_one (readVal_int _ _ _)) (exec_alloc _ _ _ (by omega) halloc)
  have hits2 : its = (pre ++ [.ins (.op (some (tmpName (2 * i + 2), .l))
      (.alloc (if t.size = 8 then 8 else 4)) [.int (UInt64.ofNat t.size)])]) ++
      .ins (.op none (.store (storeOf t)) [.tmp (tmpName (2 * i + 1)), .tmp (tmpName (2 * i + 2))]) ::
      post := by rw [hits]; simp
  obtain ⟨b2, hb2', hi2⟩ := ins_at ft o0 (pre ++ [.ins (.op (some (tmpName (2 * i + 2), .l))
      (.alloc (if t.size = 8 then 8 else 4)) [.int (UInt64.ofNat t.size)])]) post
    (.op none (.store (storeOf t)) [.tmp (tmpName (2 * i + 1)), .tmp (tmpName (2 * i + 2))])
  rw [← hits2, ← List.getElem?_toArray, ← hblocks] at hb2'
  have hpar := inv.params i t v hti hv
  have henv1a : (env.insert (tmpName (2 * i + 2)) ⟨.l, base.toUInt64⟩)[tmpName (2 * i + 1)]? =
      some (argOf t v).2 := by
    rw [Std.HashMap.getElem?_insert]
    have : (tmpName (2 * i + 2) == tmpName (2 * i + 1)) = false := by
      rw [beq_eq_false_iff_ne]; exact tmpName_ne (by omega)
    simp [this, hpar]
  have henv1b : (env.insert (tmpName (2 * i + 2)) ⟨.l, base.toUInt64⟩)[tmpName (2 * i + 2)]? =
      some ⟨.l, base.toUInt64⟩ := by simp
  have hexst : execOp (.store (storeOf t)) none [(argOf t v).2, ⟨.l, base.toUInt64⟩] M1 none =
      .ok (dummy, M2) := by
    by_cases h8 : t.size = 8
    · have hso : storeOf t = .l := by simp [storeOf, h8]
      rw [hso]
      simp only [h8, if_true] at hxv
      refine exec_store_l (a := base.toUInt64) rfl hxv ?_
      rw [hbn]; show M1.store base 8 xv = _; rw [← h8]; exact hstore
    · simp only [h8, if_false] at hxv
      have hso : storeOf t = .w ∨ storeOf t = .h ∨ storeOf t = .b := by
        rcases size_cases t with hs | hs | hs | hs <;> simp [storeOf, hs] at h8 ⊢
      refine exec_store_w (storeOf t) hso (a := base.toUInt64) rfl hxv ?_
      rw [hbn, storeSize_storeOf]; exact hstore
  have hstep2 := step_op_nores (p := p) (ext := ext) x
    (env := env.insert (tmpName (2 * i + 2)) ⟨.l, base.toUInt64⟩) (M := M1) hb2' hi2
    (readVals_two (readVal_tmp henv1a) (readVal_tmp henv1b)) hexst
  refine ⟨env.insert (tmpName (2 * i + 2)) ⟨.l, base.toUInt64⟩, M2, ?_, ?_, hg2⟩
  · refine ⟨_, hstep1, _, ?_, rfl⟩
    rw [posOf_ins] at hstep2
    simp only [spill]
    have e : pre ++ [Item.ins (.op (some (tmpName (2 * i + 2), .l))
        (.alloc (if t.size = 8 then 8 else 4)) [.int (UInt64.ofNat t.size)]),
        Item.ins (.op none (.store (storeOf t)) [.tmp (tmpName (2 * i + 1)), .tmp (tmpName (2 * i + 2))])] =
        (pre ++ [Item.ins (.op (some (tmpName (2 * i + 2), .l))
        (.alloc (if t.size = 8 then 8 else 4)) [.int (UInt64.ofNat t.size)])]) ++
        [Item.ins (.op none (.store (storeOf t)) [.tmp (tmpName (2 * i + 1)), .tmp (tmpName (2 * i + 2))])] := by
      simp
    rw [e, posOf_ins, posOf_ins]
    exact hstep2
  · refine ⟨hinv2, by rw [hss2, inv.ssize], ?_, ?_, ?_, ?_⟩
    · have := inv.sp_lo; rw [hsp2]; omega
    · have := inv.sp_hi; rw [hsp2]; omega
    · intro k t' v' ht' hv'
      rw [Std.HashMap.getElem?_insert]
      have : (tmpName (2 * i + 2) == tmpName (2 * k + 1)) = false := by
        rw [beq_eq_false_iff_ne]; exact tmpName_ne (by omega)
      simp only [this, Bool.false_eq_true, if_false]
      exact inv.params k t' v' ht' hv'
    · intro k t' v' hk ht' hv'
      by_cases hki : k = i
      · subst hki
        rw [hti] at ht'; cases ht'
        rw [hv] at hv'; cases hv'
        refine ⟨base.toUInt64, ⟨base, t.size, storeLE (zeros t.size) 0 xv t.size⟩, henv1b, ?_,
          hbn.symm, rfl, ?_⟩
        · rw [← inv.ssize]; exact hnew
        · have := load_store t.size hsz.2 (zeros t.size) 0 xv (by rw [zeros_size]; omega)
          simp only
          rw [this]
          have h1 : ((xv.toNat % 2 ^ (8 * t.size) : Nat) : Int) = (xv.toNat : Int) % 2 ^ (8 * t.size) := by
            rw [Int.natCast_emod, Int.natCast_pow]; rfl
          rw [h1]; exact hxm
      · have hk' : k < i := by omega
        obtain ⟨a, al, h1, h2, h3, h4, h5⟩ := inv.slots k t' v' hk' ht' hv'
        refine ⟨a, al, ?_, ?_, h3, h4, h5⟩
        · rw [Std.HashMap.getElem?_insert]
          have : (tmpName (2 * i + 2) == tmpName (2 * k + 2)) = false := by
            rw [beq_eq_false_iff_ne]; exact tmpName_ne (by omega)
          simp only [this, Bool.false_eq_true, if_false]
          exact h1
        · rw [hold k (by rw [inv.ssize]; exact hk')]; exact h2

include hblocks hlen hsmall in
/-- all parameters -/
theorem run_spills (ts : List CSem.Ty) : ∀ (i : Nat) (pre post : List Item) (env : Env) (M : Mem),
    (∀ (k : Nat) (t : CSem.Ty), ts[k]? = some t → ptys[i + k]? = some t) →
    its = pre ++ spills ts i ++ post → PInv cs ptys ρ i env M →
    ∃ n env' M', Reach p ext n (mkSt x env M (posOf o0 pre).1 (posOf o0 pre).2)
        (mkSt x env' M' (posOf o0 (pre ++ spills ts i)).1 (posOf o0 (pre ++ spills ts i)).2) ∧
      PInv cs ptys ρ (i + ts.length) env' M' ∧ M'.globals = M.globals := by
  induction ts with
  | nil =>
    intro i pre post env M _ _ inv
    exact ⟨0, env, M, by simp [spills, Reach], by simpa using inv, rfl⟩
  | cons t ts ih =>
    intro i pre post env M hty hits inv
    simp only [spills] at hits ⊢
    obtain ⟨env1, M1, hr1, inv1, hg1⟩ := run_spill cs p ext x ft o0 its hblocks ptys ρ hlen hsmall t i
      (by simpa using hty 0 t rfl) pre (spills ts (i + 1) ++ post) env M
      (by rw [hits]; simp only [List.append_assoc]) inv
    obtain ⟨n, env2, M2, hr2, inv2, hg2⟩ := ih (i + 1) (pre ++ spill t i) post env1 M1
      (fun k t' h => by have := hty (k + 1) t' (by simpa using h); rwa [Nat.add_assoc, Nat.add_comm 1 k])
      (by rw [hits]; simp only [List.append_assoc]) inv1
    refine ⟨2 + n, env2, M2, ?_, ?_, hg2.trans hg1⟩
    · rw [← List.append_assoc]; exact hr1.trans hr2
    · have : i + (t :: ts).length = i + 1 + ts.length := by simp; omega
      rw [this]; exact inv2

end Prologue

/-! ## Entering the function -/

theorem argOf_fst (t : CSem.Ty) (v : Int) : (argOf t v).1 = .base (cls t) := by
  unfold argOf cls; split <;> rfl

theorem argOf_coerce (t : CSem.Ty) (v : Int) : (argOf t v).2.coerce (cls t) = .ok (argOf t v).2 := by
  unfold argOf cls
  split
  · rfl
  · simp only [RVal.coerce, RVal.asK, asW_mk_w, Cls.kind]
    congr 2
    apply UInt64.toNat_inj.1
    rw [toNat_and_mask32, UInt64.toNat_ofNat']
    omega

theorem prepArgs_ok (p : Prog) (mem : Mem) : ∀ (ts : List CSem.Ty) (i : Nat) (vs : List Int),
    vs.length = ts.length →
    prepArgs p (paramSig ts i) (argsOf ts vs) mem =
      .ok ((List.zipWith (fun t v => (argOf t v).2) ts vs), mem) := by
  intro ts
  induction ts with
  | nil => intro i vs h; cases vs <;> simp_all [paramSig, argsOf, prepArgs]
  | cons t ts ih =>
    intro i vs h
    cases vs with
    | nil => simp at h
    | cons v vs =>
      simp only [List.length_cons, Nat.add_right_cancel_iff] at h
      simp only [paramSig, argsOf, List.zipWith_cons_cons]
      have h1 : (argOf t v) = ((argOf t v).1, (argOf t v).2) := rfl
      rw [h1, prepArgs]
      have hc : tyCompat (argOf t v).1 (Qbe.Ty.base (cls t)) = true := by
        rw [argOf_fst]; simp [tyCompat, Ty.cls]
      simp only [hc, Bool.not_true, Bool.false_eq_true, if_false, Ty.cls, argOf_coerce, ih (i + 1) vs h,
        bind, Except.bind, pure, Except.pure]
      intro t1 h1; cases h1

theorem bindParams_spec : ∀ (ts : List CSem.Ty) (i : Nat) (vals : List RVal) (env : Env),
    vals.length = ts.length →
    (∀ (k : Nat) (v : RVal), vals[k]? = some v →
      (bindParams env (paramSig ts i) vals)[tmpName (2 * (i + k) + 1)]? = some v) ∧
    (∀ j, j < 2 * i + 1 → (bindParams env (paramSig ts i) vals)[tmpName j]? = env[tmpName j]?) := by
  intro ts
  induction ts with
  | nil =>
    intro i vals env h
    cases vals with
    | nil => exact ⟨fun k v h => by simp at h, fun j _ => rfl⟩
    | cons _ _ => simp at h
  | cons t ts ih =>
    intro i vals env h
    cases vals with
    | nil => simp at h
    | cons v vals =>
      simp only [List.length_cons, Nat.add_right_cancel_iff] at h
      simp only [paramSig, bindParams]
      obtain ⟨ih1, ih2⟩ := ih (i + 1) vals (env.insert (tmpName (2 * i + 1)) v) h
      constructor
      · intro k v' hk
        cases k with
        | zero =>
          simp only [List.getElem?_cons_zero, Option.some.injEq] at hk
          subst hk
          show (bindParams _ _ _)[tmpName (2 * i + 1)]? = some v
          rw [ih2 (2 * i + 1) (by omega)]
          simp
        | succ k =>
          simp only [List.getElem?_cons_succ] at hk
          have := ih1 k v' hk
          have e : 2 * (i + (k + 1)) + 1 = 2 * (i + 1 + k) + 1 := by omega
          rw [e]; exact this
      · intro j hj
        rw [ih2 j (by omega), Std.HashMap.getElem?_insert]
        have : (tmpName (2 * i + 1) == tmpName j) = false := by
          rw [beq_eq_false_iff_ne]; exact tmpName_ne (by omega)
        simp [this]

theorem paramSig_length (ts : List CSem.Ty) (i : Nat) : (paramSig ts i).length = ts.length := by
  induction ts generalizing i with
  | nil => rfl
  | cons t ts ih => simp [paramSig, ih]

theorem argsOf_length (ts : List CSem.Ty) (vs : List Int) (h : vs.length = ts.length) :
    (argsOf ts vs).length = ts.length := by
  induction ts generalizing vs with
  | nil => cases vs <;> simp_all [argsOf]
  | cons t ts ih =>
    cases vs with
    | nil => simp at h
    | cons v vs => simp [argsOf, ih vs (by simpa using h)]

end CprocVerif.LowerMach

import CprocVerif.Lemmas.ScanKind

/-! Termination side of the model: every loop only consumes input, every `scankind` call that does
not return `TEOF` consumes at least one character, and the fuel handed to the loops is never
exhausted. -/

namespace CprocVerif.Scan
open CprocVerif.Gen.TokenKinds

/-- number of characters the scanner still has (current one included) -/
def S.len (s : S) : Nat := s.inp.length

@[simp] theorem len_nextchar (s : S) : s.nextchar.len = s.len - 1 := by simp [S.len]

theorem len_pos_of_chr {s : S} {c : UInt8} (h : s.chr = some c) : 0 < s.len := by
  unfold S.len S.chr at *
  cases hi : s.inp with
  | nil => rw [hi] at h; simp at h
  | cons _ _ => simp

theorem len_pos_of_onChr {s : S} {p : UInt8 → Bool} (h : onChr p s.chr = true) : 0 < s.len := by
  cases hc : s.chr with
  | none => rw [hc] at h; simp [onChr] at h
  | some c => exact len_pos_of_chr hc

theorem identLoop_le : ∀ n s, (identLoop n s).len ≤ s.len := by
  intro n
  induction n with
  | zero => intro s; simp [identLoop]
  | succ n ih =>
    intro s
    unfold identLoop
    split
    · have := ih s.nextchar; simp at this; omega
    · exact Nat.le_refl _

theorem numberLoop_le : ∀ n a s, (numberLoop n a s).len ≤ s.len := by
  intro n
  induction n with
  | zero => intro a s; simp [numberLoop]
  | succ n ih =>
    intro a s
    have h1 := ih true s.nextchar
    have h2 := ih false s.nextchar
    have h3 := ih a s.nextchar
    simp only [len_nextchar] at h1 h2 h3
    unfold numberLoop
    simp only []
    repeat' split
    all_goals (first | omega | (simp only [len_nextchar]; omega))

theorem hexLoop_le : ∀ n s, (hexLoop n s).len ≤ s.len := by
  intro n
  induction n with
  | zero => intro s; simp [hexLoop]
  | succ n ih =>
    intro s
    unfold hexLoop
    simp only []
    have := ih s.nextchar
    simp only [len_nextchar] at this
    split
    · omega
    · simp only [len_nextchar]; omega

theorem lineLoop_le : ∀ n s, (lineLoop n s).len ≤ s.len := by
  intro n
  induction n with
  | zero => intro s; simp [lineLoop]
  | succ n ih =>
    intro s
    unfold lineLoop
    simp only []
    have := ih s.nextchar
    simp only [len_nextchar] at this
    split
    · omega
    · simp only [len_nextchar]; omega

/-- `escape` consumes at least the character after the backslash -/
theorem escape_lt (s s' : S) (h : escape s = .ok s') (hpos : 0 < s.len) : s'.len < s.len := by
  unfold escape at h
  simp only [] at h
  have := hexLoop_le s.nextchar.nextchar.inp.length s.nextchar.nextchar
  simp only [len_nextchar] at this
  repeat' split at h
  all_goals (first | (cases h; done) | (simp only [Except.ok.injEq] at h; subst h; (try simp only [len_nextchar]); omega))

theorem blockLoop_lt : ∀ n s s', blockLoop n s = .ok s' → s'.len < s.len := by
  intro n
  induction n with
  | zero => intro s s' h; simp [blockLoop] at h
  | succ n ih =>
    intro s s' h
    unfold blockLoop at h
    simp only [] at h
    split at h
    · cases h
    · rename_i hne
      have hp : 0 < s.nextchar.len := by
        cases hc : s.nextchar.chr with
        | none => exact absurd hc hne
        | some c => exact len_pos_of_chr hc
      simp only [len_nextchar] at hp
      split at h
      · have := ih _ _ h; simp only [len_nextchar] at this; omega
      · simp only [Except.ok.injEq] at h; subst h; simp only [len_nextchar]; omega

theorem litLoop_le (str : Bool) : ∀ n s k s', litLoop str n s = .ok (k, s') → s'.len ≤ s.len := by
  intro n
  induction n with
  | zero => intro s k s' h; simp [litLoop] at h
  | succ n ih =>
    intro s k s' h
    unfold litLoop at h
    cases hc : s.chr with
    | none => simp [hc] at h
    | some c =>
      have hp := len_pos_of_chr hc
      simp only [hc] at h
      split at h
      · cases he : escape s with
        | error e => simp [he] at h
        | ok s1 =>
          simp only [he] at h
          have := escape_lt s s1 he hp
          have := ih _ _ _ h
          omega
      · repeat' split at h
        all_goals first
          | (cases h; done)
          | (simp only [Except.ok.injEq, Prod.mk.injEq] at h; obtain ⟨_, h⟩ := h; subst h
             simp only [len_nextchar]; omega)
          | (have := ih _ _ _ h; simp only [len_nextchar] at this; omega)

theorem comment_le (s : S) (s' : S) (h : comment s = .ok (some s')) : s'.len ≤ s.len := by
  unfold comment at h
  split at h
  · simp only [Except.ok.injEq, Option.some.injEq] at h
    subst h
    exact lineLoop_le _ _
  · split at h
    · simp only [] at h
      split at h
      · cases h
      · rename_i s1 hb
        simp only [Except.ok.injEq, Option.some.injEq] at h
        subst h
        have := blockLoop_lt _ _ _ hb
        simp only [len_nextchar] at this
        show s1.nextchar.len ≤ _
        simp only [len_nextchar]; omega
    · cases h

theorem comment_none (s : S) (h : comment s = .ok none) : True := trivial

end CprocVerif.Scan

namespace CprocVerif.Scan
open CprocVerif.Gen.TokenKinds

theorem op2_le (s : S) (a b : Kind) : (op2 s a b).2.len ≤ s.len - 1 := by
  unfold op2; simp only []; split <;> simp only [len_nextchar] <;> omega

theorem op3_le (s : S) (a b c : Kind) : (op3 s a b c).2.len ≤ s.len - 1 := by
  unfold op3; simp only []; repeat' split
  all_goals (simp only [len_nextchar]; omega)

theorem op4_le (s : S) (a b c d : Kind) : (op4 s a b c d).2.len ≤ s.len - 1 := by
  unfold op4; simp only []; repeat' split
  all_goals (simp only [len_nextchar]; omega)

theorem ident_le (s : S) : (ident s).2.len ≤ s.len := identLoop_le _ _

theorem number_le (s : S) : (number s).2.len ≤ s.len := numberLoop_le _ _ _

theorem number_lt (s : S) (hp : 0 < s.len) : (number s).2.len < s.len := by
  unfold number
  simp only []
  have e : ({ s with usebuf := true } : S).inp.length = s.len := rfl
  unfold S.len at hp
  obtain ⟨n, hn⟩ : ∃ n, s.inp.length = n + 1 := ⟨s.inp.length - 1, by omega⟩
  rw [hn]
  unfold numberLoop
  simp only []
  have h1 := numberLoop_le n true ({ s with usebuf := true } : S).nextchar
  have h2 := numberLoop_le n false ({ s with usebuf := true } : S).nextchar
  have e1 : ({ s with usebuf := true } : S).nextchar.len = s.len - 1 := by simp; rfl
  rw [e1] at h1 h2
  unfold S.len at h1 h2 e1 ⊢
  repeat' split
  all_goals omega

theorem ident_lt (s : S) (c : UInt8) (hc : s.chr = some c) (hi : isidchar c = true) :
    (ident s).2.len < s.len := by
  have hp := len_pos_of_chr hc
  unfold ident
  simp only []
  unfold S.len at hp
  obtain ⟨n, hn⟩ : ∃ n, s.inp.length = n + 1 := ⟨s.inp.length - 1, by omega⟩
  rw [hn]
  unfold identLoop
  have hc' : ({ s with usebuf := true } : S).chr = some c := hc
  simp only [hc', onChr, hi, if_true]
  have h1 := identLoop_le n ({ s with usebuf := true } : S).nextchar
  have e1 : ({ s with usebuf := true } : S).nextchar.len = s.len - 1 := by simp; rfl
  rw [e1] at h1
  unfold S.len at h1 ⊢
  omega

theorem charconst_le (s : S) (k : Kind) (s' : S) (h : charconst s = .ok (k, s')) :
    s'.len ≤ s.len - 1 := by
  unfold charconst at h
  have := litLoop_le false _ _ _ _ h
  simp only [len_nextchar] at this
  exact this

theorem stringlit_le (s : S) (k : Kind) (s' : S) (h : stringlit s = .ok (k, s')) :
    s'.len ≤ s.len - 1 := by
  unfold stringlit at h
  have := litLoop_le true _ _ _ _ h
  simp only [len_nextchar] at this
  exact this

theorem pushbackDot_len (s : S) (l : Loc) : (pushbackDot s l).len = if s.len = 0 then 1 else s.len + 1 := by
  unfold pushbackDot S.len
  split <;> simp_all

/-! ### the fuel handed to the loops that can fail is never exhausted -/

theorem escape_nofuel (s : S) (e : Err) (h : escape s = .error e) : e.kind ≠ .fuel := by
  unfold escape at h
  simp only [] at h
  repeat' split at h
  all_goals first
    | (cases h; done)
    | (simp only [Except.error.injEq] at h; subst h; simp)

theorem litLoop_nofuel (str : Bool) : ∀ n s e, s.len < n → litLoop str n s = .error e →
    e.kind ≠ .fuel := by
  intro n
  induction n with
  | zero => intro s e h; omega
  | succ n ih =>
    intro s e hn h
    unfold litLoop at h
    cases hc : s.chr with
    | none =>
      simp only [hc, Except.error.injEq] at h
      subst h; cases str <;> simp
    | some c =>
      have hp := len_pos_of_chr hc
      simp only [hc] at h
      split at h
      · cases he : escape s with
        | error e1 =>
          simp only [he, Except.error.injEq] at h
          subst h; exact escape_nofuel s e1 he
        | ok s1 =>
          simp only [he] at h
          have := escape_lt s s1 he hp
          exact ih s1 e (by omega) h
      · repeat' split at h
        all_goals first
          | (cases h; done)
          | (simp only [Except.error.injEq] at h; subst h; cases str <;> simp; done)
          | (exact ih _ e (by simp only [len_nextchar]; omega) h)

theorem charconst_nofuel (s : S) (e : Err) (h : charconst s = .error e) : e.kind ≠ .fuel := by
  unfold charconst at h
  exact litLoop_nofuel false _ _ e (by simp [S.len]) h

theorem stringlit_nofuel (s : S) (e : Err) (h : stringlit s = .error e) : e.kind ≠ .fuel := by
  unfold stringlit at h
  exact litLoop_nofuel true _ _ e (by simp [S.len]) h

theorem blockLoop_nofuel : ∀ n s e, s.len < n → blockLoop n s = .error e → e.kind ≠ .fuel := by
  intro n
  induction n with
  | zero => intro s e h; omega
  | succ n ih =>
    intro s e hn h
    unfold blockLoop at h
    simp only [] at h
    split at h
    · simp only [Except.error.injEq] at h; subst h; simp
    · rename_i hne
      have hp : 0 < s.nextchar.len := by
        cases hc : s.nextchar.chr with
        | none => exact absurd hc hne
        | some c => exact len_pos_of_chr hc
      simp only [len_nextchar] at hp
      split at h
      · exact ih _ e (by simp only [len_nextchar]; omega) h
      · cases h

theorem comment_nofuel (s : S) (e : Err) (h : comment s = .error e) : e.kind ≠ .fuel := by
  unfold comment at h
  split at h
  · cases h
  · split at h
    · simp only [] at h
      split at h
      · rename_i e1 hb
        simp only [Except.error.injEq] at h
        subst h
        exact blockLoop_nofuel _ _ e1 (by simp [S.len]) hb
      · cases h
    · cases h

/-- what `scankind_progress` says about a result: a diagnostic is never the model's own "out of
fuel"; a token other than the final `TEOF` consumed at least one character -/
def Progress (s : S) : Except Err (Kind × Loc × Nat × S) → Prop
  | .error e => e.kind ≠ .fuel
  | .ok (k, _, _, s') => s'.len < s.len ∨ (k = .TEOF ∧ s'.len = 0)

theorem progress_ok (s : S) (k : Kind) (l : Loc) (p : Nat) (s' : S) (h : s'.len < s.len) :
    Progress s (.ok (k, l, p, s')) := Or.inl h


theorem progress_mono (s1 s : S) (r : Except Err (Kind × Loc × Nat × S)) (h : s1.len ≤ s.len)
    (hp : Progress s1 r) : Progress s r := by
  cases r with
  | error _ => exact hp
  | ok r =>
    obtain ⟨k, l, p, s'⟩ := r
    rcases hp with h1 | h1
    · left; omega
    · right; exact h1

set_option maxHeartbeats 1000000 in
theorem scankind_progress' : ∀ (fuel : Nat) (s : S), s.len < fuel →
    Progress s (scankind fuel s) := by
  intro fuel
  induction fuel with
  | zero => intro s h; omega
  | succ fuel ih =>
    intro s hfuel
    cases hc : s.chr with
    | none =>
      rw [scankind]
      simp only [hc]
      right
      refine ⟨rfl, ?_⟩
      have := (chr_none_iff s).mp hc
      unfold S.len
      rw [← length_stream, this]; rfl
    | some c =>
      have hp := len_pos_of_chr hc
      have o2 := fun a b => op2_le s a b
      have o3 := fun a b c => op3_le s a b c
      have o4 := fun a b c d => op4_le s a b c d
      have hid := fun t => ident_le t
      have hnu := fun t => number_le t
      have hblank : Progress s (scankind fuel ({ s with sawspace := true } : S).nextchar) := by
        have e : ({ s with sawspace := true } : S).nextchar.len = s.len - 1 := by simp; rfl
        have := ih ({ s with sawspace := true } : S).nextchar (by omega)
        generalize scankind fuel ({ s with sawspace := true } : S).nextchar = r at this
        cases r with
        | error _ => exact this
        | ok r =>
          obtain ⟨k, l, p, s'⟩ := r
          rcases this with h1 | h1
          · left; omega
          · right; exact h1
      by_cases hsp : isSpecial c = true
      · simp only [isSpecial, Bool.or_eq_true, decide_eq_true_eq] at hsp
        repeat' (rcases hsp with hsp | hsp)
        all_goals subst_vars
        all_goals rw [scankind]
        all_goals simp only [hc]
        all_goals first
          | (simp only [reduceIte, true_or, or_true]; exact hblank)
          | (simp
             split
             · rename_i e heq
               first | exact stringlit_nofuel s e heq | exact charconst_nofuel s e heq
             · rename_i r heq
               apply progress_ok
               first
                 | (have := stringlit_le s r.1 r.2 heq; omega)
                 | (have := charconst_le s r.1 r.2 heq; omega))
          | (simp
             have hle := o2 .TDIV .TDIVASSIGN
             split
             · cases hcm : comment (op2 s .TDIV .TDIVASSIGN).2 with
               | error e => exact comment_nofuel _ e hcm
               | ok o =>
                 cases o with
                 | none => exact progress_ok _ _ _ _ _ (by omega)
                 | some s1 =>
                   have := comment_le _ _ hcm
                   exact progress_mono s1 s _ (by omega) (ih s1 (by omega))
             · exact progress_ok _ _ _ _ _ (by omega))
          | (simp
             split
             · apply progress_ok
               refine Nat.lt_of_le_of_lt (number_le _) ?_
               simp [S.len]; unfold S.len at hp; omega
             · split
               · rename_i h46
                 have := len_pos_of_chr h46
                 simp only [len_nextchar] at this
                 split
                 · apply progress_ok; simp only [len_nextchar]; omega
                 · apply progress_ok; rw [pushbackDot_len]; simp only [len_nextchar]; split <;> omega
               · apply progress_ok; simp only [len_nextchar]; omega)
          | (simp
             repeat' split
             all_goals first
               | (apply progress_lift; intro k s' h; first
                   | (have := stringlit_le _ _ _ h; omega)
                   | (have := charconst_le _ _ _ h; omega))
               | (apply progress_ok; first
                   | (simp only [len_nextchar]; omega)
                   | (refine Nat.lt_of_le_of_lt (o2 _ _) (by omega))
                   | (refine Nat.lt_of_le_of_lt (o3 _ _ _) (by omega))
                   | (refine Nat.lt_of_le_of_lt (o4 _ _ _ _) (by omega))
                   | (simp only [len_nextchar]
                      refine Nat.lt_of_le_of_lt (Nat.sub_le _ _) ?_
                      refine Nat.lt_of_le_of_lt (o3 _ _ _) (by omega))))
      · have hns : isSpecial c = false := by simpa using hsp
        rw [scankind_tail fuel s c hc hns, scanTail]
        have e1 : ({ s with usebuf := true } : S).nextchar.len = s.len - 1 := by simp; rfl
        split
        · simp only []
          generalize ({ s with usebuf := true } : S).nextchar = s1 at e1
          have e2 : (if s1.buf.head? = some (c! 'u') ∧ s1.chr = some (c! '8') then s1.nextchar else s1).len
              ≤ s.len - 1 := by
            split
            · simp only [len_nextchar]; omega
            · omega
          generalize (if s1.buf.head? = some (c! 'u') ∧ s1.chr = some (c! '8') then s1.nextchar else s1) = s2 at e2
          split
          · unfold lift
            split
            · rename_i e heq; exact charconst_nofuel s2 e heq
            · rename_i r heq
              apply progress_ok
              have := charconst_le s2 r.1 r.2 heq; omega
          · split
            · unfold lift
              split
              · rename_i e heq; exact stringlit_nofuel s2 e heq
              · rename_i r heq
                apply progress_ok
                have := stringlit_le s2 r.1 r.2 heq; omega
            · apply progress_ok
              have := ident_le s2; omega
        · split
          · apply progress_ok
            exact number_lt s hp
          · split
            · rename_i ha
              apply progress_ok
              refine ident_lt s c hc ?_
              have key : ∀ c : UInt8, (isalpha c = true ∨ c = c! '_') → isidchar c = true := by
                apply Spec.Lex.forall_uint8; decide +kernel
              exact key c ha
            · apply progress_ok
              rw [e1]; omega

end CprocVerif.Scan

import CprocVerif.Lemmas.InitGeoInv2
import CprocVerif.Lemmas.InitRefTop

/-!
# The log of every successful `parseinit` is laminar and well formed (objects of known size)
-/

namespace CprocVerif.InitSim
open CprocVerif.Init CprocVerif.Image CprocVerif.InitRef

theorem root_geo {t : Ty} (hwf : tyWf t = true) (hlay : layOK t = true) :
    PlGeo (noUnion t) { ty := t, unb := false } :=
  ⟨pl0_wf hwf, hlay, bitsOK_zero hlay, fun h => h⟩

theorem st0_K (t : Ty) : K { ty := t, unb := false } (st0 t) :=
  ⟨rfl, rfl, ⟨fun _ => { ty := t, unb := false }, rfl, rfl, rfl, fun k hk => (by cases hk)⟩,
    fun e he => (by cases he), fun c hc => (by cases hc)⟩

/-- every event of the log is at a place of the object's tree; the size is the object's -/
theorem parseinit_placed {t : Ty} {i : Ini} {st : St} (hm : parseinit t false i = .ok st) (hwf : tyWf t = true)
    (hlay : layOK t = true) (hmode : desigsOK (subTys t) i = true) (hso : strsOK i = true) :
    (∀ e ∈ st.log, PlaceEv { ty := t, unb := false } e) ∧ st.top = t.size := by
  have hm' := parseinit_false hm
  rw [parseItem_eq, preStep_nocur (by rfl)] at hm'
  simp only [] at hm'
  have hg := root_geo hwf hlay
  have hk := itemBody_K hg ⟨rfl, rfl⟩ (tys := subTys t) (fun x hx => hx) i (st0 t) st (st0_K t) hso hmode hm'
  refine ⟨hk.log, ?_⟩
  rw [hk.top]
  obtain ⟨pl, hs⟩ := hk.stk
  rw [(hs.slot 0 (Nat.zero_le _)).1, hs.root]

/-- **laminarity**: the hypotheses of `emitdata_image_ev` hold for the log of `parseinit` -/
theorem parseinit_laminar {t : Ty} {i : Ini} {st : St} (hm : parseinit t false i = .ok st) (hwf : tyWf t = true)
    (hlay : layOK t = true) (hmode : desigsOK (subTys t) i = true) (hso : strsOK i = true)
    (hcv : constVals t false i = true) : EvsOK [] st.log ∧ ∀ x ∈ adds st.log, Wf st.top x := by
  obtain ⟨hpl, htop⟩ := parseinit_placed hm hwf hlay hmode hso
  have hg := root_geo hwf hlay
  unfold constVals at hcv
  rw [hm] at hcv
  simp only [List.all_eq_true] at hcv
  have hall : ∀ e ∈ st.log, PlaceEv { ty := t, unb := false } e ∧ evValOK e = true := fun e he => ⟨hpl e he, hcv e he⟩
  refine ⟨evsOK_placed hg rfl st.log [] (fun o ho => by cases ho) hall, ?_⟩
  intro x hx
  rw [htop]
  exact wf_placed hg rfl (adds_placed st.log hall x hx)

end CprocVerif.InitSim

import CprocVerif.Model.PP
import CprocVerif.Spec.MacroRef

/-! # `stringize` spells an argument as 6.10.3.2p2 prescribes -/

namespace CprocVerif.PP
open CprocVerif.Gen.TokenKinds
open CprocVerif.Spec

/-- the model's token as a preprocessing token of the reference -/
def toP (t : Tok) : MacroRef.PTok := ⟨t.kind, t.lit, t.space⟩

theorem spell_eq (t : Tok) : spell t = MacroRef.spellOf (toP t) := by
  unfold spell MacroRef.spellOf toP Scan.tokstr
  cases t.lit <;> rfl

theorem escLit_eq (l : List UInt8) : escLit l = MacroRef.escape l := by
  unfold MacroRef.escape
  induction l with
  | nil => rfl
  | cons c r ih =>
    unfold escLit
    simp only [List.flatMap_cons]
    by_cases h : c = c! '"' ∨ c = c! '\\'
    · have h' : c = c! '\\' ∨ c = c! '"' := h.symm
      simp only [h, h', ↓reduceIte, ih, List.cons_append, List.nil_append]
    · have h' : ¬ (c = c! '\\' ∨ c = c! '"') := fun x => h x.symm
      simp only [h, h', ↓reduceIte, ih, List.cons_append, List.nil_append]

/-- what `stringize` appends for a token, apart from the separating blank -/
def piece (t : Tok) : List UInt8 :=
  if t.kind = .TSTRINGLIT ∨ t.kind = .TCHARCONST then escLit (spell t) else spell t

theorem piece_eq (t : Tok) : piece t = MacroRef.spellArg (toP t) := by
  unfold piece MacroRef.spellArg MacroRef.isLiteral
  rw [escLit_eq, spell_eq]
  by_cases h : t.kind = .TSTRINGLIT ∨ t.kind = .TCHARCONST
  · have : (decide ((toP t).kind = Kind.TSTRINGLIT) || decide ((toP t).kind = Kind.TCHARCONST)) = true := by
      rcases h with h | h <;> simp [toP, h]
    simp [h, this]
  · have : (decide ((toP t).kind = Kind.TSTRINGLIT) || decide ((toP t).kind = Kind.TCHARCONST)) = false := by
      have ⟨a, b⟩ := not_or.mp h
      simp [toP, a, b]
    simp [h, this]

theorem escLit_ne_nil {l : List UInt8} (h : l ≠ []) : escLit l ≠ [] := by
  cases l with
  | nil => exact absurd rfl h
  | cons c r => unfold escLit; split <;> simp

theorem escLit_getLast? : ∀ l : List UInt8, (escLit l).getLast? = l.getLast?
  | [] => rfl
  | [c] => by unfold escLit; split <;> simp [escLit]
  | c :: d :: r => by
    have ih := escLit_getLast? (d :: r)
    have hne : escLit (d :: r) ≠ [] := escLit_ne_nil (by simp)
    unfold escLit
    split
    · rw [List.getLast?_cons_cons]
      cases hh : escLit (d :: r) with
      | nil => exact absurd hh hne
      | cons x y => rw [List.getLast?_cons_cons, ← hh, ih]; simp
    · cases hh : escLit (d :: r) with
      | nil => exact absurd hh hne
      | cons x y => rw [List.getLast?_cons_cons, ← hh, ih]; simp

/-- as the scanner delivers tokens: a non-empty spelling that does not end in a blank, and no
new-line token (`argnext` removes those) -/
def Spellable (t : Tok) : Prop :=
  spell t ≠ [] ∧ (spell t).getLast? ≠ some (c! ' ') ∧ t.kind ≠ .TNEWLINE

instance (t : Tok) : Decidable (Spellable t) := by unfold Spellable; infer_instance

theorem piece_ok {t : Tok} (h : Spellable t) : piece t ≠ [] ∧ (piece t).getLast? ≠ some (c! ' ') := by
  unfold piece
  split
  · exact ⟨escLit_ne_nil h.1, by rw [escLit_getLast?]; exact h.2.1⟩
  · exact ⟨h.1, h.2.1⟩

/-- one further token, when the buffer already holds a token -/
theorem stringize_next (buf : List UInt8) (t : Tok) (hl : buf.length > 1) (hb : buf.getLast? ≠ some (c! ' '))
    (ht : Spellable t) :
    stringize buf t = buf ++ ((if t.space then [c! ' '] else []) ++ piece t) := by
  unfold stringize piece
  have hk : (t.kind = Kind.TNEWLINE) = False := by simp [ht.2.2]
  have h1 : decide (buf.length > 1) = true := by simp [hl]
  have h2 : (buf.getLast? != some (c! ' ')) = true := by simp [bne, hb]
  simp only [hk, decide_false, Bool.or_false, h1, h2, Bool.and_true]
  cases t.space <;> split <;> simp

theorem getLast?_append_ne {a b : List UInt8} (hb : b ≠ []) : (a ++ b).getLast? = b.getLast? := by
  rw [List.getLast?_append]
  cases h : b.getLast? with
  | none => exact absurd (List.getLast?_eq_none_iff.mp h) hb
  | some x => simp

theorem foldl_stringize (ts : List Tok) : ∀ (buf : List UInt8), buf.length > 1 → buf.getLast? ≠ some (c! ' ') →
    (∀ t ∈ ts, Spellable t) →
    ts.foldl stringize buf = buf ++ ts.flatMap (fun u => (if u.space then [c! ' '] else []) ++ piece u) := by
  induction ts with
  | nil => intro buf _ _ _; simp
  | cons t r ih =>
    intro buf hl hb hs
    have ht := hs t (List.mem_cons_self ..)
    have hp := piece_ok ht
    rw [List.foldl_cons, stringize_next buf t hl hb ht]
    have hne : (if t.space then [c! ' '] else []) ++ piece t ≠ [] := by
      intro h; exact hp.1 (List.append_eq_nil_iff.mp h).2
    rw [ih _ (by simp only [List.length_append]; omega)
          (by rw [getLast?_append_ne hne, getLast?_append_ne hp.1]; exact hp.2)
          (fun x hx => hs x (List.mem_cons_of_mem _ hx))]
    simp [List.flatMap_cons]

/-- the string `expandfunc` builds for the tokens `ts` of an argument -/
def stringizeAll (ts : List Tok) : List UInt8 := ts.foldl stringize [c! '"'] ++ [c! '"']

/-- **6.10.3.2p2**: the string literal `expandfunc` builds from the invocation-level tokens of an
argument is the spelling of the argument: token spellings, one blank wherever white space
separated two tokens, nothing at the ends, `\` before every `"` and `\` of a string literal or
character constant. -/
theorem stringizeAll_eq (ts : List Tok) (hs : ∀ t ∈ ts, Spellable t) :
    some (stringizeAll ts) = (MacroRef.stringizeRef (ts.map toP)).lit := by
  unfold stringizeAll MacroRef.stringizeRef
  simp only [Option.some.injEq]
  cases ts with
  | nil => simp [MacroRef.spellAll]
  | cons t r =>
    have ht := hs t (List.mem_cons_self ..)
    have hp := piece_ok ht
    have first : stringize [c! '"'] t = [c! '"'] ++ piece t := by
      unfold stringize piece
      have : decide ([c! '"'].length > 1) = false := by decide
      simp only [this, Bool.and_false, Bool.false_and, Bool.false_eq_true, ↓reduceIte]
      split <;> rfl
    rw [List.foldl_cons, first,
      foldl_stringize r _ (by simp only [List.length_append, List.length_cons, List.length_nil]
                              have := List.length_pos_iff.mpr hp.1; omega)
        (by rw [getLast?_append_ne hp.1]; exact hp.2) (fun x hx => hs x (List.mem_cons_of_mem _ hx))]
    simp only [List.map_cons, MacroRef.spellAll, piece_eq, List.flatMap_map]
    simp only [toP, List.append_assoc, List.cons_append, List.nil_append]
    rfl

end CprocVerif.PP

import CprocVerif.Lemmas.InitGeo
import CprocVerif.Lemmas.InitRefMach2
import CprocVerif.Lemmas.InitEmit1

/-!
# Events at places of the tree are laminar and well formed

If every `add` of a log stores a value of the right shape at a place of the object's tree and
every `clear` clears a non-scalar place, the log satisfies the hypotheses of `emitdata_image_ev`.
-/

namespace CprocVerif.InitSim
open CprocVerif.Init CprocVerif.Image CprocVerif.InitRef

/-- shape of the value `parseinit` stores at a place -/
def Shape (q : Place) (v : Val) : Prop :=
  match q.ty with
  | .scalar s k => (∃ u, v = .int s u) ∨ (∃ b, v = .flt s b ∧ k = .flt) ∨ (∃ sy o, v = .addr sy o) ∨ v = .other
  | .array _ (.scalar es (.int _ _)) => (∃ cs, v = .str es cs ∧ (es = 1 ∨ es = 2 ∨ es = 4))
  | _ => v = .other

/-- the initialiser `i` stores a value at the place `q` -/
structure AddAt (q : Place) (i : Init) : Prop where
  start : i.start = q.off
  stop : i.stop = q.off + q.ty.size
  before : i.before = q.before
  after : i.after = q.after
  shape : Shape q i.val

def PlaceEv (root : Place) : Ev → Prop
  | .add i => ∃ ps q, walk root ps = some q ∧ AddAt q i
  | .clear a b => ∃ ps q, walk root ps = some q ∧ a = q.off ∧ b = q.off + q.ty.size ∧ isScalarTy q.ty = false

theorem AddAt.lo {q : Place} {i : Init} (h : AddAt q i) : i.lo = plo q := by
  unfold Init.lo plo; rw [h.start, h.before]; omega

theorem AddAt.hi {q : Place} {i : Init} (h : AddAt q i) : i.hi = phi q := by
  unfold Init.hi phi; rw [h.stop, h.after]; omega

theorem scalar_no_child {q : Place} (hs : isScalarTy q.ty = true) {r : List Nat} {d : Place} (h : walk q r = some d) :
    r = [] := by
  cases r with
  | nil => rfl
  | cons k r' =>
    exfalso
    simp only [walk] at h
    cases hty : q.ty with
    | scalar s k' => rw [childAt_scalar hty] at h; cases h
    | array n e => rw [hty] at hs; cases hs
    | agg u t s m => rw [hty] at hs; cases hs

theorem lay_size_le {t : Ty} {s : Nat} {k : SK} (h : layOK (.scalar s k) = true) : 0 < s ∧ s ≤ 8 := by
  cases k with
  | int c sg =>
    simp only [layOK, beq_iff_eq] at h
    have := csize_pos c; have := csize_le c; omega
  | flt => simp only [layOK, Bool.or_eq_true, beq_iff_eq] at h; omega
  | ptr => simp only [layOK, beq_iff_eq] at h; omega

theorem evValOK_other {i : Init} (h : i.val = .other) : evValOK (.add i) = false := by
  simp only [evValOK, h]

theorem evValOK_addr {i : Init} {sy : String} {o : Nat} (h : i.val = .addr sy o) (hv : evValOK (.add i) = true) :
    i.before = 0 ∧ i.after = 0 ∧ i.stop = i.start + 8 := by
  simp only [evValOK, h, Bool.and_eq_true, beq_iff_eq] at hv
  exact ⟨hv.1.1, hv.1.2, hv.2⟩

/-- a good `add`: placed, the value a constant that fits -/
def GoodAdd (root : Place) (i : Init) : Prop := PlaceEv root (.add i) ∧ evValOK (.add i) = true

theorem wf_placed {nu : Bool} {root : Place} (hg : PlGeo nu root) (h0 : root.off = 0) {i : Init}
    (h : GoodAdd root i) : Wf root.ty.size i := by
  obtain ⟨⟨ps, q, hw, ha⟩, hv⟩ := h
  obtain ⟨gq, c1, c2, _, _⟩ := walk_geo ps hg hw
  have hsh := ha.shape
  unfold Shape at hsh
  refine ⟨?_, by rw [ha.stop]; omega, ?_⟩
  · rw [ha.lo, ha.hi]
    unfold plo phi
    cases hty : q.ty with
    | scalar s k =>
      have hb := gq.bits
      have hl := gq.lay
      rw [hty] at hb hl
      obtain ⟨hs0, _⟩ := lay_size_le (t := q.ty) hl
      simp only [Ty.size]
      cases k with
      | int c sg => simp only [bitsOK, decide_eq_true_eq] at hb; omega
      | flt => simp only [bitsOK, Bool.and_eq_true, beq_iff_eq] at hb; omega
      | ptr => simp only [bitsOK, Bool.and_eq_true, beq_iff_eq] at hb; omega
    | array n e =>
      obtain ⟨hb, hb'⟩ := gq.nonscalar (by rw [hty]; rfl)
      obtain ⟨hn, hes⟩ := wf_array gq.wf hty
      simp only [Ty.size]
      have : 0 < n * e.size := Nat.mul_pos (by omega) hes
      omega
    | agg u t s m =>
      rw [hty] at hsh
      simp only [] at hsh
      rw [evValOK_other hsh] at hv
      cases hv
  · cases hty : q.ty with
    | scalar s k =>
      rw [hty] at hsh
      simp only [] at hsh
      have hl := gq.lay
      rw [hty] at hl
      obtain ⟨_, hs8⟩ := lay_size_le (t := q.ty) hl
      have hsz : i.stop - i.start = s := by rw [ha.stop, ha.start, hty]; simp [Ty.size]
      rcases hsh with ⟨u, hu⟩ | ⟨b, hu, hk⟩ | ⟨sy, o, hu⟩ | hu
      · rw [hu]; simp only []
        exact ⟨fun _ => hsz.symm, fun _ => by omega⟩
      · rw [hu]; simp only []
        have hb := gq.bits
        rw [hty, hk] at hb
        simp only [bitsOK, Bool.and_eq_true, beq_iff_eq] at hb
        exact ⟨by rw [ha.before]; exact hb.1, by rw [ha.after]; exact hb.2, hsz.symm⟩
      · obtain ⟨h1, h2, h3⟩ := evValOK_addr hu hv
        rw [hu]; simp only []
        exact ⟨h1, h2, by omega⟩
      · rw [evValOK_other hu] at hv; cases hv
    | array n e =>
      rw [hty] at hsh
      obtain ⟨hb, hb'⟩ := gq.nonscalar (by rw [hty]; rfl)
      cases e with
      | scalar es k =>
        cases k with
        | int c sg =>
          simp only [] at hsh
          obtain ⟨cs, hu, hw3⟩ := hsh
          rw [hu]; simp only []
          refine ⟨by rw [ha.before]; exact hb, by rw [ha.after]; exact hb', hw3, ?_⟩
          rw [ha.stop, ha.start, hty]
          simp [Ty.size]
        | flt => simp only [] at hsh; rw [evValOK_other hsh] at hv; cases hv
        | ptr => simp only [] at hsh; rw [evValOK_other hsh] at hv; cases hv
      | array n' e' => simp only [] at hsh; rw [evValOK_other hsh] at hv; cases hv
      | agg u t s m => simp only [] at hsh; rw [evValOK_other hsh] at hv; cases hv
    | agg u t s m =>
      rw [hty] at hsh
      simp only [] at hsh
      rw [evValOK_other hsh] at hv; cases hv

/-- an earlier and a later good `add` are laminar -/
theorem lam_placed {nu : Bool} {root : Place} (hg : PlGeo nu root) {o i : Init} (ho : GoodAdd root o)
    (hi : GoodAdd root i) : Lam o i := by
  obtain ⟨⟨p1, d1, hw1, ha1⟩, hv1⟩ := ho
  obtain ⟨⟨p2, d2, hw2, ha2⟩, hv2⟩ := hi
  rcases path_cases p1 p2 with ⟨r, hr⟩ | ⟨r, hr⟩ | ⟨pre, a, b, r1, r2, hab, h1, h2⟩
  · -- the later one at or below the earlier one
    subst hr
    rw [walk_append hw1] at hw2
    cases r with
    | nil =>
      cases hw2
      right; left
      unfold Inside
      rw [ha1.lo, ha1.hi, ha2.lo, ha2.hi]
      exact ⟨Nat.le_refl _, Nat.le_refl _⟩
    | cons k r' =>
      -- the earlier one is a string, the later one an element of it
      obtain ⟨g1, _⟩ := walk_geo p1 hg hw1
      have hsh := ha1.shape
      unfold Shape at hsh
      simp only [walk] at hw2
      cases hc : childAt d1 k true with
      | none => rw [hc] at hw2; cases hw2
      | some c =>
      rw [hc] at hw2
      simp only [] at hw2
      cases hty : d1.ty with
      | scalar s k' => rw [childAt_scalar hty] at hc; cases hc
      | agg u t s m =>
        rw [hty] at hsh; simp only [] at hsh
        rw [evValOK_other hsh] at hv1; cases hv1
      | array n e =>
        rw [hty] at hsh
        have hother : o.val = .other → False := by
          intro h; rw [evValOK_other h] at hv1; cases hv1
        cases e with
        | array n' e' => exact absurd hsh hother
        | agg u t s m => exact absurd hsh hother
        | scalar es ke =>
          cases ke with
          | flt => exact absurd hsh hother
          | ptr => exact absurd hsh hother
          | int cc sg =>
            simp only [] at hsh
            obtain ⟨cs, hov, hw3⟩ := hsh
            rw [childAt_array hty g1.wf.unb] at hc
            split at hc
            · rename_i hkn
              cases hc
              have hr' := scalar_no_child (q := { ty := .scalar es (.int cc sg), off := d1.off + k * es, depth := d1.depth + 1 })
                rfl hw2
              subst hr'
              cases hw2
              obtain ⟨hb, hb'⟩ := g1.nonscalar (by rw [hty]; rfl)
              have hish := ha2.shape
              unfold Shape at hish
              simp only [] at hish
              have hival : ∃ u, i.val = .int es u := by
                rcases hish with h | ⟨b, h, hk⟩ | ⟨sy, oo, h⟩ | h
                · exact h
                · cases hk
                · exfalso
                  obtain ⟨_, _, h3⟩ := evValOK_addr h hv2
                  have h1 := ha2.start; have h2 := ha2.stop
                  simp only [Ty.size] at h1 h2
                  omega
                · exfalso; rw [evValOK_other h] at hv2; cases hv2
              obtain ⟨u, hu⟩ := hival
              have s1 := ha1.start; have e1 := ha1.stop; have s2 := ha2.start; have e2 := ha2.stop
              rw [hty] at e1
              simp only [Ty.size] at e1 s2 e2
              have hle : (k + 1) * es ≤ n * es := Nat.mul_le_mul_right _ hkn
              rw [Nat.add_mul, Nat.one_mul] at hle
              right; right
              refine ⟨?_, es, by rw [hov]; rfl, hw3, ⟨es, u, hu⟩, by rw [ha1.before]; exact hb, by rw [ha1.after]; exact hb',
                by rw [ha2.before], by rw [ha2.after], by omega, by omega, by omega, ?_⟩
              · unfold Inside Init.lo Init.hi
                rw [ha1.before, ha1.after, ha2.before, ha2.after, hb, hb']
                simp only []
                omega
              · rw [s1, s2, Nat.add_sub_cancel_left]
                exact Nat.mul_mod_left k es
            · cases hc
  · -- the earlier one at or below the later one: covered
    subst hr
    rw [walk_append hw2] at hw1
    obtain ⟨g2, _⟩ := walk_geo p2 hg hw2
    obtain ⟨_, _, _, l, u⟩ := walk_geo r g2 hw1
    right; left
    unfold Inside
    rw [ha1.lo, ha1.hi, ha2.lo, ha2.hi]
    exact ⟨l, u⟩
  · subst h1; subst h2
    left
    unfold Disj
    rw [ha1.lo, ha1.hi, ha2.lo, ha2.hi]
    exact walk_disj hg hab hw1 hw2

/-- a good `add` is inside a later cleared place or bit-disjoint from it -/
theorem clear_placed {nu : Bool} {root : Place} (hg : PlGeo nu root) {o : Init} {a b : Nat} (ho : GoodAdd root o)
    (hc : PlaceEv root (.clear a b)) : ClearRel o a b := by
  obtain ⟨⟨p1, d1, hw1, ha1⟩, hv1⟩ := ho
  obtain ⟨p2, d2, hw2, rfl, rfl, hns⟩ := hc
  obtain ⟨g2, _⟩ := walk_geo p2 hg hw2
  obtain ⟨hb2, ha2⟩ := g2.nonscalar hns
  have hlo2 : plo d2 = 8 * d2.off := by unfold plo; rw [hb2]; omega
  have hhi2 : phi d2 = 8 * (d2.off + d2.ty.size) := by unfold phi; rw [ha2]; omega
  unfold ClearRel
  rcases path_cases p1 p2 with ⟨r, hr⟩ | ⟨r, hr⟩ | ⟨pre, a', b', r1, r2, hab, h1, h2⟩
  · subst hr
    rw [walk_append hw1] at hw2
    cases r with
    | nil =>
      cases hw2
      left
      unfold Init.within
      rw [ha1.start, ha1.stop]
      simp
    | cons k r' =>
      -- the cleared place would be an element of a string: it is a scalar
      exfalso
      obtain ⟨g1, _⟩ := walk_geo p1 hg hw1
      have hsh := ha1.shape
      unfold Shape at hsh
      simp only [walk] at hw2
      cases hc : childAt d1 k true with
      | none => rw [hc] at hw2; cases hw2
      | some c =>
      rw [hc] at hw2
      simp only [] at hw2
      have hother : o.val = .other → False := by
        intro h; rw [evValOK_other h] at hv1; cases hv1
      cases hty : d1.ty with
      | scalar s k' => rw [childAt_scalar hty] at hc; cases hc
      | agg u t s m => rw [hty] at hsh; exact hother hsh
      | array n e =>
        rw [hty] at hsh
        cases e with
        | array n' e' => exact hother hsh
        | agg u t s m => exact hother hsh
        | scalar es ke =>
          rw [childAt_array hty g1.wf.unb] at hc
          split at hc
          · cases hc
            have hr' := scalar_no_child (q := { ty := .scalar es ke, off := d1.off + k * es, depth := d1.depth + 1 }) rfl hw2
            subst hr'
            cases hw2
            cases hns
          · cases hc
  · subst hr
    rw [walk_append hw2] at hw1
    obtain ⟨_, c1, c2, _, _⟩ := walk_geo r g2 hw1
    left
    unfold Init.within
    rw [ha1.start, ha1.stop]
    simp only [Bool.and_eq_true, decide_eq_true_eq]
    exact ⟨c1, c2⟩
  · subst h1; subst h2
    right
    rw [ha1.lo, ha1.hi]
    have := walk_disj hg hab hw1 hw2
    omega

/-- a log of placed events satisfies the hypotheses of `emitdata_image_ev` -/
theorem evsOK_placed {nu : Bool} {root : Place} (hg : PlGeo nu root) (h0 : root.off = 0) :
    ∀ (evs : List Ev) (prev : List Init), (∀ o ∈ prev, GoodAdd root o) →
      (∀ e ∈ evs, PlaceEv root e ∧ evValOK e = true) → EvsOK prev evs := by
  intro evs
  induction evs with
  | nil => intro _ _ _; trivial
  | cons e es ih =>
    intro prev hp he
    have hee := he e List.mem_cons_self
    have hrest : ∀ x ∈ es, PlaceEv root x ∧ evValOK x = true := fun x hx => he x (List.mem_cons_of_mem _ hx)
    cases e with
    | add i =>
      have hgi : GoodAdd root i := hee
      have hwf := wf_placed hg h0 hgi
      refine ⟨fun o ho => lam_placed hg (hp o ho) hgi, hwf.nonEmpty, hwf.byteVal, ?_⟩
      apply ih _ _ hrest
      intro o ho
      rcases List.mem_append.1 ho with h | h
      · exact hp o h
      · rw [List.mem_singleton.1 h]; exact hgi
    | clear a b =>
      refine ⟨fun o ho => clear_placed hg (hp o ho) hee.1, ?_⟩
      apply ih _ _ hrest
      intro o ho
      exact hp o (List.mem_filter.1 ho).1

theorem adds_placed {root : Place} : ∀ (evs : List Ev), (∀ e ∈ evs, PlaceEv root e ∧ evValOK e = true) →
    ∀ x ∈ adds evs, GoodAdd root x := by
  intro evs
  induction evs with
  | nil => intro _ x hx; simp [adds] at hx
  | cons e es ih =>
    intro he x hx
    have hrest : ∀ y ∈ es, PlaceEv root y ∧ evValOK y = true := fun y hy => he y (List.mem_cons_of_mem _ hy)
    cases e with
    | add i =>
      simp only [adds, List.mem_cons] at hx
      rcases hx with rfl | hx
      · exact he _ List.mem_cons_self
      · exact ih hrest x hx
    | clear a b => exact ih hrest x hx

end CprocVerif.InitSim

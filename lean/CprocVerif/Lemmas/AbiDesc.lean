import CprocVerif.Spec.QbeLayout
import CprocVerif.Lemmas.Layout

/-!
# Lemmas for C08, part 1: the hypothesis `good`, and the member loop of `emittype` on member lists
whose storage units are shared or disjoint (`collapse`)
-/

namespace CprocVerif.AbiDesc
open CprocVerif.Layout CprocVerif.Abi CprocVerif.QbeLayout

/-! ## The types the descriptor theorems are proved for -/

/-- every member declaration has a `struct member`, no `_Alignas` beyond the natural alignment -/
def declOk (d : Decl) : Bool := (d.named || d.width.isNone) && decide (d.align ≤ d.ty.align)

mutual
  /-- accepted by the compiler (`Wf`: no `error(...)` of `addmember`, sizes below 2^62), every scalar
  has a QBE class, and none of the excluded classes (`QbeLayout.classes`) occurs at any depth:
  no packed struct, no `_Alignas` above the natural alignment, no unnamed bit-field, no flexible
  array member, no member-less `va_list` element, and in every struct two members either are
  bit-fields of one storage unit or the later one starts at or after the end of the earlier one
  (of its storage unit, for a bit-field) -/
  def good : AType → Bool
    | .sc s => decide (s.size = 1 ∨ s.size = 2 ∨ s.size = 4 ∨ s.size = 8)
    | .blob s a dark => dark && decide (0 < s) && decide (a = 8) && decide (s % 8 = 0) && decide (s < 2 ^ 61)
    | .array _ none => false
    | .array e (some n) =>
      good e && decide (0 < n) && decide ((Abi.tinfo x86_64 (erase e)).size * n < 2 ^ 62)
    | .su u p fs =>
      !p && goodF fs && decide (Wf u false (Abi.decls x86_64 (eraseF fs))) &&
        (Abi.decls x86_64 (eraseF fs)).all declOk &&
        (u || pairwiseB unitRel (Abi.layout x86_64 false false (Abi.decls x86_64 (eraseF fs))).members)
  def goodF : AFields → Bool
    | .nil => true
    | .cons _ ty _ _ rest => good ty && goodF rest
end

/-! ## `scan`, `skip`, `emitStructF` -/

/-- `b` describes the same storage unit as `a` (and prints the same) -/
def DMSame (a b : DM) : Prop :=
  b.offset = a.offset ∧ b.size = a.size ∧ b.item = a.item ∧ b.subSize = a.subSize

def DMRel (a b : DM) : Prop := DMSame a b ∨ a.offset + a.size ≤ b.offset

/-- one entry per run of members at one offset -/
def collapse : Option Nat → List DM → QFields
  | _, [] => .nil
  | last, m :: rest =>
    if last = some m.offset then collapse last rest
    else .cons m.item m.count (collapse (some m.offset) rest)

theorem DMSame.count {a b : DM} (h : DMSame a b) : b.count = a.count := by
  unfold DM.count; rw [h.2.1, h.2.2.2]

theorem scan_after (m : DM) (after : List DM) : ∀ (os : List DM), (∀ o ∈ os, m.offset < o.offset) →
    scan m after os = (m, after)
  | [], _ => rfl
  | o :: os, h => by
    have ho := h o (List.mem_cons_self ..)
    have ih := scan_after m after os (fun x hx => h x (List.mem_cons_of_mem _ hx))
    unfold scan
    split
    · rfl
    · rw [if_neg (by omega)]; exact ih

theorem window_gt {x : Nat} (h : x < 2 ^ 63) : x < alignUp (u64 (x + 1)) 8 := by
  have h1 : u64 (x + 1) = x + 1 := u64_of_lt (by unfold M64; omega)
  rw [h1, alignUp_eq (by decide) (by unfold M64; omega)]
  have := le_roundUp (x + 1) (a := 8) (by decide)
  omega

theorem skip_suffix (E : Nat) : ∀ (l : List DM), (skip E l).length ≤ l.length ∧ ∀ x ∈ skip E l, x ∈ l
  | [] => ⟨Nat.le_refl _, fun _ h => h⟩
  | o :: os => by
    obtain ⟨h1, h2⟩ := skip_suffix E os
    unfold skip
    split
    · exact ⟨by simp only [List.length_cons]; omega, fun x hx => List.mem_cons_of_mem _ (h2 x hx)⟩
    · exact ⟨Nat.le_refl _, fun _ h => h⟩

theorem skip_sublist (E : Nat) : ∀ (l : List DM), (skip E l).Sublist l
  | [] => List.Sublist.refl _
  | o :: os => by
    unfold skip
    split
    · exact (skip_sublist E os).cons _
    · exact List.Sublist.refl _

theorem scan_rel : ∀ (os : List DM) (m : DM), List.Pairwise DMRel (m :: os) →
    (∀ x ∈ m :: os, 0 < x.size ∧ x.offset + x.size < 2 ^ 63) →
    DMSame m (scan m os os).1 ∧
      skip (m.offset + m.size) (scan m os os).2 = skip (m.offset + m.size) os
  | [], m, _, _ => ⟨⟨rfl, rfl, rfl, rfl⟩, rfl⟩
  | o :: os, m, hp, hb => by
    have hm := hb m (List.mem_cons_self ..)
    have ho := hb o (List.mem_cons_of_mem _ (List.mem_cons_self ..))
    have hmo : DMRel m o := (List.pairwise_cons.1 hp).1 o (List.mem_cons_self ..)
    have hp' : List.Pairwise DMRel (o :: os) := (List.pairwise_cons.1 hp).2
    have hw := window_gt (x := m.offset) (by omega)
    unfold scan
    split
    · exact ⟨⟨rfl, rfl, rfl, rfl⟩, rfl⟩
    · split
      · rename_i hle
        have hs : DMSame m o := by
          rcases hmo with hs | ha
          · exact hs
          · omega
        obtain ⟨i1, i2⟩ := scan_rel os o hp' (fun x hx => hb x (List.mem_cons_of_mem _ hx))
        refine ⟨⟨i1.1.trans hs.1, i1.2.1.trans hs.2.1, i1.2.2.1.trans hs.2.2.1, i1.2.2.2.trans hs.2.2.2⟩, ?_⟩
        rw [hs.1, hs.2.1] at i2
        rw [i2]
        conv => rhs; unfold skip
        rw [if_pos (by rw [hs.1]; omega)]
      · rename_i hgt
        have ha : m.offset + m.size ≤ o.offset := by
          rcases hmo with hs | ha
          · have := hs.1; omega
          · exact ha
        have hall : ∀ x ∈ os, m.offset < x.offset := by
          intro x hx
          have hox : DMRel o x := (List.pairwise_cons.1 hp').1 x hx
          rcases hox with hs | h2
          · have := hs.1; omega
          · omega
        rw [scan_after m (o :: os) os hall]
        exact ⟨⟨rfl, rfl, rfl, rfl⟩, rfl⟩

theorem collapse_skip : ∀ (rest : List DM) (m : DM), List.Pairwise DMRel (m :: rest) → 0 < m.size →
    collapse (some m.offset) rest = collapse none (skip (m.offset + m.size) rest)
  | [], _, _, _ => rfl
  | o :: os, m, hp, hs => by
    have hmo : DMRel m o := (List.pairwise_cons.1 hp).1 o (List.mem_cons_self ..)
    have hp2 : List.Pairwise DMRel (m :: os) := by
      refine List.pairwise_cons.2 ⟨fun x hx => (List.pairwise_cons.1 hp).1 x (List.mem_cons_of_mem _ hx), ?_⟩
      exact (List.pairwise_cons.1 (List.pairwise_cons.1 hp).2).2
    rcases hmo with hsame | hafter
    · have e : o.offset = m.offset := hsame.1
      conv => lhs; unfold collapse
      rw [if_pos (by rw [e])]
      conv => rhs; unfold skip
      rw [if_pos (by omega)]
      exact collapse_skip os m hp2 hs
    · conv => lhs; unfold collapse
      rw [if_neg (by intro h; have := Option.some.inj h; omega)]
      conv => rhs; unfold skip
      rw [if_neg (by omega)]
      conv => rhs; unfold collapse
      rw [if_neg (by simp)]

theorem emitStructF_collapse : ∀ (f : Nat) (ms : List DM), ms.length ≤ f → List.Pairwise DMRel ms →
    (∀ x ∈ ms, 0 < x.size ∧ x.offset + x.size < 2 ^ 63) → emitStructF f ms = collapse none ms
  | 0, [], _, _, _ => rfl
  | 0, _ :: _, h, _, _ => by simp at h
  | f + 1, [], _, _, _ => rfl
  | f + 1, m :: rest, hl, hp, hb => by
    obtain ⟨s1, s2⟩ := scan_rel rest m hp hb
    have hm := hb m (List.mem_cons_self ..)
    have hu : u64 ((scan m rest rest).1.offset + (scan m rest rest).1.size) = m.offset + m.size := by
      rw [s1.1, s1.2.1]; exact u64_of_lt (by unfold M64; omega)
    have hsub := skip_sublist (m.offset + m.size) rest
    have hlen := (skip_suffix (m.offset + m.size) rest).1
    have hmem := (skip_suffix (m.offset + m.size) rest).2
    have ih := emitStructF_collapse f (skip (m.offset + m.size) rest)
      (by simp only [List.length_cons] at hl; omega)
      ((List.pairwise_cons.1 hp).2.sublist hsub)
      (fun x hx => hb x (List.mem_cons_of_mem _ (hmem x hx)))
    simp only [emitStructF]
    rw [hu, s2, ih, s1.2.2.1, s1.count]
    conv => rhs; unfold collapse
    rw [if_neg (by simp)]
    rw [collapse_skip rest m hp hm.1]

end CprocVerif.AbiDesc

import CprocVerif.Model.Types
import CprocVerif.Spec.Conv

/-! Helper lemmas for property C05 (`Props/C05.lean`). -/

namespace CprocVerif.Types.Lemmas
open CprocVerif.Types CprocVerif.Spec
set_option linter.unusedSimpArgs false
set_option linter.unusedVariables false

/-! ### powers of two on `Int` -/

theorem two_pow_le_iff (a b : Nat) : (2 : Int) ^ a ≤ 2 ^ b ↔ a ≤ b := by
  have h : (2 : Int) ^ a = ((2 ^ a : Nat) : Int) := by simp
  have h' : (2 : Int) ^ b = ((2 ^ b : Nat) : Int) := by simp
  rw [h, h', Int.ofNat_le]
  exact Nat.pow_le_pow_iff_right (by decide)

theorem two_pow_pos (a : Nat) : (0 : Int) < 2 ^ a := by
  have h : (2 : Int) ^ a = ((2 ^ a : Nat) : Int) := by simp
  rw [h]; exact Int.ofNat_lt.mpr (Nat.two_pow_pos a)

/-- `int` can represent a signed `n`-bit range iff `n ≤ 32` -/
theorem canRep_int_signed (cs : Bool) (n : Nat) (h : 1 ≤ n) :
    canRepresentAll cs .int (rangeBits true n) = decide (n ≤ 32) := by
  have e : (2:Int) ^ (32 - 1) = 2 ^ 31 := rfl
  have h1 := two_pow_le_iff (n - 1) 31
  simp only [canRepresentAll, rangeB, isSigned, bits, rangeBits, if_true]
  by_cases hn : n ≤ 32
  · have : (2:Int) ^ (n - 1) ≤ 2 ^ 31 := h1.mpr (by omega)
    simp [hn]; omega
  · have : ¬ (2:Int) ^ (n - 1) ≤ 2 ^ 31 := fun hh => hn (by have := h1.mp hh; omega)
    simp [hn]; omega

/-- `int` can represent an unsigned `n`-bit range iff `n ≤ 31` -/
theorem canRep_int_unsigned (cs : Bool) (n : Nat) :
    canRepresentAll cs .int (rangeBits false n) = decide (n ≤ 31) := by
  have h1 := two_pow_le_iff n 31
  simp only [canRepresentAll, rangeB, isSigned, bits, rangeBits]
  by_cases hn : n ≤ 31
  · have : (2:Int) ^ n ≤ 2 ^ 31 := h1.mpr hn
    simp [hn]; omega
  · have : ¬ (2:Int) ^ n ≤ 2 ^ 31 := fun hh => hn (h1.mp hh)
    simp [hn]; omega

/-- `unsigned int` can represent an unsigned `n`-bit range iff `n ≤ 32` -/
theorem canRep_uint_unsigned (cs : Bool) (n : Nat) :
    canRepresentAll cs .uint (rangeBits false n) = decide (n ≤ 32) := by
  have h1 := two_pow_le_iff n 32
  simp only [canRepresentAll, rangeB, isSigned, bits, rangeBits]
  by_cases hn : n ≤ 32
  · have : (2:Int) ^ n ≤ 2 ^ 32 := h1.mpr hn
    simp [hn]; omega
  · have : ¬ (2:Int) ^ n ≤ 2 ^ 32 := fun hh => hn (h1.mp hh)
    simp [hn]; omega

/-- `unsigned int` cannot represent the negative values of a signed range -/
theorem canRep_uint_signed (cs : Bool) (n : Nat) :
    canRepresentAll cs .uint (rangeBits true n) = false := by
  have := two_pow_pos (n - 1)
  simp only [canRepresentAll, rangeB, isSigned, bits, rangeBits, if_true]
  simp; omega


/-! ### `typepromote` -/

theorem wrapsub (w b : Nat) (hw : w < 2 ^ 32) (hb : b ≤ 1) (h0 : b ≤ w) :
    (w + 2 ^ 32 - b) % 2 ^ 32 = w - b := by
  omega
theorem wU_some (n : Nat) (h : n ≤ 64) : wU (some n) = n := by
  unfold wU; show n % 2 ^ 32 = n; omega
theorem canRep_01_int (cs : Bool) : canRepresentAll cs .int (0, 1) = true := by cases cs <;> decide

/-- one (type, char-signedness) case of `promote_correct` for a bit-field of width `n` -/
macro "promote_case" n:ident h1:ident : tactic => `(tactic| (
  have hw := wU_some $n (by omega)
  have hs1 := wrapsub $n 1 (by omega) (by omega) $h1
  have hs0 := wrapsub $n 0 (by omega) (by omega) (by omega)
  have hne : ¬ $n = 2 ^ 32 - 1 := by omega
  unfold typepromote
  rw [hw]
  simp only [ATy.isInt, Basic.isInt, ATy.rank, Basic.kind, Kind.rank, ATy.size, Basic.size,
        ATy.issigned, Basic.issigned, Basic.issignedInit, b2n, hne, if_false, if_true, hs1, hs0,
        Bool.false_eq_true]
  simp only [promote, intPromote, rangeW, intTypeOf, isIntegerTy, isInteger, isSigned]
  simp [canRep_01_int, canRep_int_signed _ _ $h1, canRep_int_unsigned, canRep_uint_signed, canRep_uint_unsigned]
  clear hs1 hs0 hw hne
  (repeat' split) <;> first | rfl | omega | (exfalso; omega)))

theorem promote_basic (sc : Bool) (b : Basic) (w : Option Nat) (hw : validWidth (.basic b) w) :
    typepromote sc (.basic b) w = promote sc (.basic b) w := by
  cases w with
  | none => cases b <;> cases sc <;> rfl
  | some n =>
    obtain ⟨h1, h2, h3⟩ := hw
    cases b <;> cases sc <;>
      simp [isIntegerTy, intTypeOf, isInteger] at h3 <;>
      simp [ATy.size, Basic.size] at h2 <;>
      promote_case n h1

theorem promote_enum (sc : Bool) (id : Nat) (b : Basic) (w : Option Nat) (hb : b.isInt = true)
    (hw : validWidth (.enum id b) w) :
    typepromote sc (.enum id b) w = promote sc (.enum id b) w := by
  cases w with
  | none =>
    cases b <;> cases sc <;> (first | (simp [Basic.isInt] at hb; done) |
      (simp [typepromote, wU, promote, intPromote, range, rangeB, rangeBits, canRepresentAll, Spec.rank, rankB,
        intTypeOf, isIntegerTy, isInteger, isSigned, bits,
        ATy.isInt, ATy.rank, Basic.kind, Kind.rank, ATy.size, Basic.size,
        ATy.issigned, Basic.issigned, Basic.issignedInit, b2n]))
  | some n =>
    obtain ⟨h1, h2, h3⟩ := hw
    cases b <;> cases sc <;>
      simp [Basic.isInt] at hb <;>
      simp [ATy.size, Basic.size] at h2 <;>
      promote_case n h1

/-! ### `typehasint` -/

macro "hasint_case" v:ident : tactic => `(tactic| (
  simp only [typehasint, ATy.stripEnum, ATy.basic.injEq, reduceCtorEq, if_false, shl64, shr64, allOnes64, ATy.size, Basic.size, ATy.issigned, Basic.issigned,
    Basic.issignedInit, b2n, range, rangeB, rangeBits, intTypeOf, isSigned, bits, decode, inRange]
  (try simp)
  first
    | omega
    | (by_cases h : 9223372036854775808 ≤ $v <;> (try simp [h, ← Bool.decide_and, decide_eq_decide]) <;> omega)))

theorem hasint_basic (sc : Bool) (b : Basic) (hb : b.isInt = true) (hnb : b ≠ .bool) (v : Nat) (hv : v < 2 ^ 64)
    (sign : Bool) :
    typehasint sc (.basic b) v sign = decide (inRange (range sc (.basic b)) (decode v sign)) := by
  cases b <;> cases sc <;> cases sign <;> (first | (simp [Basic.isInt] at hb; done) | (exact absurd rfl hnb) | hasint_case v)

theorem hasint_enum (sc : Bool) (id : Nat) (b : Basic) (hb : b.isInt = true) (hnb : b ≠ .bool) (v : Nat)
    (hv : v < 2 ^ 64) (sign : Bool) :
    typehasint sc (.enum id b) v sign = decide (inRange (range sc (.enum id b)) (decode v sign)) := by
  cases b <;> cases sc <;> cases sign <;> (first | (simp [Basic.isInt] at hb; done) | (exact absurd rfl hnb) | hasint_case v)

/-- `_Bool` (and an enumerated type over it): exactly 0 and 1 (fix 08f8fa4) -/
theorem hasint_bool (sc : Bool) (t : ATy) (ht : t = .basic .bool ∨ ∃ id, t = .enum id .bool) (v : Nat) (hv : v < 2 ^ 64)
    (sign : Bool) : typehasint sc t v sign = decide (inRange (range sc t) (decode v sign)) := by
  have h1 : t.stripEnum = .basic .bool := by rcases ht with rfl | ⟨id, rfl⟩ <;> rfl
  have h2 : range sc t = (0, 1) := by
    rcases ht with rfl | ⟨id, rfl⟩ <;> cases sc <;> simp [range, rangeB, rangeBits, intTypeOf, isSigned, bits]
  simp only [typehasint, h1, if_true, h2, inRange, decode]
  by_cases hs : sign = true ∧ v ≥ 2 ^ 63
  · simp only [hs, and_self, if_true]
    have : ¬ v ≤ 1 := by omega
    simp [this]; omega
  · simp only [hs, if_false]
    by_cases h : v ≤ 1 <;> simp [h] <;> omega

/-! ### `inttype` -/

theorem mem_of_lookup {α β : Type} [BEq α] [LawfulBEq α] :
    ∀ (l : List (α × β)) (a : α) (b : β), l.lookup a = some b → (a, b) ∈ l
  | [], _, _, h => by simp [List.lookup] at h
  | (k, x) :: rest, a, b, h => by
    simp only [List.lookup] at h
    split at h
    · rename_i heq
      have : a = k := by simpa using heq
      simp at h; subst h; subst this; simp
    · exact List.mem_cons_of_mem _ (mem_of_lookup rest a b h)

theorem hasint_lit (sc : Bool) (b : Basic) (hb : b.isInt = true) (hnb : b ≠ .bool) (v : Nat) (hv : v < 2 ^ 64) :
    typehasint sc (.basic b) v false = decide (inRange (rangeB sc b) (v : Int)) := by
  have := hasint_basic sc b hb hnb v hv false
  simpa [decode, range, intTypeOf] using this

def litResult : Option Basic → LitResult
  | some b => .ty b
  | none => .noType

/-- row of `limits[]` for a suffix (unsigned ⇒ odd rows) -/
def rowOf : Suffix → Nat
  | ⟨false, .none⟩ => 0 | ⟨true, .none⟩ => 1 | ⟨false, .l⟩ => 2 | ⟨true, .l⟩ => 3
  | ⟨false, .ll⟩ => 4 | ⟨true, .ll⟩ => 5

theorem suffixIndex_of_parse (s : String) (sfx : Suffix) (hs : parseSuffix s = some sfx) :
    suffixIndex s = some (rowOf sfx) := by
  have hm := mem_of_lookup _ _ _ hs
  simp only [suffixGrammar, List.mem_cons, Prod.mk.injEq, List.mem_nil_iff, or_false] at hm
  rcases hm with ⟨rfl, rfl⟩ | ⟨rfl, rfl⟩ | ⟨rfl, rfl⟩ | ⟨rfl, rfl⟩ | ⟨rfl, rfl⟩ | ⟨rfl, rfl⟩ | ⟨rfl, rfl⟩ | ⟨rfl, rfl⟩ |
    ⟨rfl, rfl⟩ | ⟨rfl, rfl⟩ | ⟨rfl, rfl⟩ | ⟨rfl, rfl⟩ | ⟨rfl, rfl⟩ | ⟨rfl, rfl⟩ | ⟨rfl, rfl⟩ | ⟨rfl, rfl⟩ | ⟨rfl, rfl⟩ |
    ⟨rfl, rfl⟩ | ⟨rfl, rfl⟩ | ⟨rfl, rfl⟩ | ⟨rfl, rfl⟩ | ⟨rfl, rfl⟩ | ⟨rfl, rfl⟩ <;> decide

theorem inttype_ok (sc : Bool) (v : Nat) (hv : v < 2 ^ 64) (decimal : Bool) (s : String) (sfx : Suffix)
    (hs : parseSuffix s = some sfx) :
    inttype sc v decimal s = litResult (literalType sc v decimal sfx) := by
  have H : ∀ b : Basic, b.isInt = true → b ≠ .bool →
      typehasint sc (.basic b) v false = decide (inRange (rangeB sc b) (v : Int)) :=
    fun b h1 h2 => hasint_lit sc b h1 h2 v hv
  have h1 := H .int rfl (by decide)
  have h2 := H .uint rfl (by decide)
  have h3 := H .long rfl (by decide)
  have h4 := H .ulong rfl (by decide)
  have h5 := H .llong rfl (by decide)
  have h6 := H .ullong rfl (by decide)
  simp only [inttype, suffixIndex_of_parse s sfx hs]
  obtain ⟨u, len⟩ := sfx
  cases u <;> cases len <;> cases decimal <;>
    simp [rowOf, scanLimits, limits, literalType, literalList, h1, h2, h3, h4, h5, h6, litResult, List.find?] <;>
    (repeat' split) <;> simp_all [litResult]

/-! ### `typecommonreal` -/

/-- the part of `typecommonreal` after the promotions -/
def crTail (sc : Bool) (p1 p2 : ATy) : Option ATy :=
  if p1 = p2 then some p1
  else
    let p1 := p1.stripEnum
    let p2 := p2.stripEnum
    if p1.issigned sc = p2.issigned sc then
      some (if p1.rank > p2.rank then p1 else p2)
    else
      let u := if p1.issigned sc then p2 else p1
      let s := if p1.issigned sc then p1 else p2
      if u.rank ≥ s.rank then some u
      else if u.size < s.size then some s
      else if s = tLong then some tULong
      else if s = tLLong then some tULLong
      else none

/-- the part of `commonReal` after the promotions -/
def uaTail (cs : Bool) (p1 p2 : ATy) : ATy :=
  if p1 = p2 then p1 else .basic (commonRealB cs (intTypeOf p1) (intTypeOf p2))

def NotFloat (t : ATy) : Prop := t ≠ .basic .float ∧ t ≠ .basic .double ∧ t ≠ .basic .ldouble

theorem typecommonreal_tail (sc : Bool) (t1 t2 : ATy) (w1 w2 : Option Nat) (h1 : NotFloat t1) (h2 : NotFloat t2) :
    typecommonreal sc t1 w1 t2 w2 = crTail sc (typepromote sc t1 w1) (typepromote sc t2 w2) := by
  obtain ⟨a1, a2, a3⟩ := h1
  obtain ⟨b1, b2, b3⟩ := h2
  simp only [typecommonreal, crTail, a1, a2, a3, b1, b2, b3, or_self, if_false]

theorem commonReal_tail (cs : Bool) (t1 t2 : ATy) (w1 w2 : Option Nat) (h1 : NotFloat t1) (h2 : NotFloat t2) :
    commonReal cs t1 w1 t2 w2 = uaTail cs (intPromote cs t1 w1) (intPromote cs t2 w2) := by
  obtain ⟨a1, a2, a3⟩ := h1
  obtain ⟨b1, b2, b3⟩ := h2
  simp only [commonReal, uaTail, a1, a2, a3, b1, b2, b3, or_self, if_false]

/-- what the integer promotions can produce -/
inductive Promoted : ATy → Prop
  | int : Promoted tInt
  | uint : Promoted tUInt
  | long : Promoted tLong
  | ulong : Promoted tULong
  | llong : Promoted tLLong
  | ullong : Promoted tULLong
  | elong (i : Nat) : Promoted (.enum i .long)
  | eulong (i : Nat) : Promoted (.enum i .ulong)
  | ellong (i : Nat) : Promoted (.enum i .llong)
  | eullong (i : Nat) : Promoted (.enum i .ullong)

theorem intPromote_promoted (cs : Bool) (t : ATy) (w : Option Nat) (hi : isIntegerTy t = true)
    (hw : validWidth t w) : Promoted (intPromote cs t w) := by
  cases w with
  | none =>
    cases t with
    | basic b => cases b <;> cases cs <;> first | (simp [isIntegerTy, intTypeOf, isInteger] at hi; done) | (simp [intPromote, Spec.rank, rankB, intTypeOf, canRepresentAll, range, rangeB, rangeBits, isSigned, bits]; constructor)
    | enum i b => cases b <;> cases cs <;> first | (simp [isIntegerTy, intTypeOf, isInteger] at hi; done) | (simp [intPromote, Spec.rank, rankB, intTypeOf, canRepresentAll, range, rangeB, rangeBits, isSigned, bits]; constructor)
  | some n =>
    obtain ⟨h1, h2, _⟩ := hw
    cases t with
    | basic b =>
      cases b <;> cases cs <;> first
        | (simp [isIntegerTy, intTypeOf, isInteger] at hi; done)
        | (simp [ATy.size, Basic.size] at h2
           simp only [intPromote, rangeW, intTypeOf, isSigned]
           simp [canRep_01_int, canRep_int_signed _ _ h1, canRep_int_unsigned, canRep_uint_signed, canRep_uint_unsigned]
           (repeat' split) <;> first | constructor | (exfalso; omega))
    | enum i b =>
      cases b <;> cases cs <;> first
        | (simp [isIntegerTy, intTypeOf, isInteger] at hi; done)
        | (simp [ATy.size, Basic.size] at h2
           simp only [intPromote, rangeW, intTypeOf, isSigned]
           simp [canRep_01_int, canRep_int_signed _ _ h1, canRep_int_unsigned, canRep_uint_signed, canRep_uint_unsigned]
           (repeat' split) <;> first | constructor | (exfalso; omega))

macro "tail_simp" : tactic => `(tactic| simp [crTail, uaTail, commonRealB, ATy.stripEnum, ATy.issigned, Basic.issigned,
    Basic.issignedInit, ATy.rank, Basic.kind, Kind.rank, ATy.size, Basic.size, isSigned, intTypeOf, rankB,
    canRepresentAll, rangeB, rangeBits, bits, unsignedOf])

theorem tail_ok (sc : Bool) {p1 p2 : ATy} (h1 : Promoted p1) (h2 : Promoted p2) :
    crTail sc p1 p2 = some (uaTail sc p1 p2) := by
  cases h1 <;> cases h2 <;> cases sc <;>
    first
    | (tail_simp; done)
    | (rename_i i j
       by_cases hij : i = j
       · subst hij; repeat tail_simp
       · have hji : ¬ j = i := fun h => hij h.symm
         repeat (first | tail_simp | simp [hij, hji]))

theorem promote_ok (sc : Bool) (t : ATy) (w : Option Nat) (hwf : t.wf = true) (hw : validWidth t w) :
    typepromote sc t w = promote sc t w := by
  cases t with
  | basic b => exact promote_basic sc b w hw
  | enum i b => exact promote_enum sc i b w hwf hw

theorem isIntegerTy_of_notFloat (t : ATy) (hwf : t.wf = true) (h : NotFloat t) : isIntegerTy t = true := by
  obtain ⟨a1, a2, a3⟩ := h
  cases t with
  | basic b => cases b <;> simp_all [isIntegerTy, intTypeOf, isInteger]
  | enum i b => cases b <;> simp_all [isIntegerTy, intTypeOf, isInteger, ATy.wf, Basic.isInt]

theorem promote_int (cs : Bool) (t : ATy) (w : Option Nat) (h : NotFloat t) (hi : isIntegerTy t = true) :
    promote cs t w = intPromote cs t w := by
  simp [promote, h.1, hi]

theorem commonreal_ok (sc : Bool) (t1 t2 : ATy) (w1 w2 : Option Nat) (f1 : t1.wf = true) (f2 : t2.wf = true)
    (hw1 : validWidth t1 w1) (hw2 : validWidth t2 w2) :
    typecommonreal sc t1 w1 t2 w2 = some (commonReal sc t1 w1 t2 w2) := by
  by_cases hl : t1 = .basic .ldouble ∨ t2 = .basic .ldouble
  · simp [typecommonreal, commonReal, hl]
  by_cases hd : t1 = .basic .double ∨ t2 = .basic .double
  · simp [typecommonreal, commonReal, hl, hd]
  by_cases hf : t1 = .basic .float ∨ t2 = .basic .float
  · simp [typecommonreal, commonReal, hl, hd, hf]
  have nf1 : NotFloat t1 := ⟨fun h => hf (Or.inl h), fun h => hd (Or.inl h), fun h => hl (Or.inl h)⟩
  have nf2 : NotFloat t2 := ⟨fun h => hf (Or.inr h), fun h => hd (Or.inr h), fun h => hl (Or.inr h)⟩
  have i1 := isIntegerTy_of_notFloat t1 f1 nf1
  have i2 := isIntegerTy_of_notFloat t2 f2 nf2
  rw [typecommonreal_tail sc t1 t2 w1 w2 nf1 nf2, promote_ok sc t1 w1 f1 hw1, promote_ok sc t2 w2 f2 hw2,
    promote_int sc t1 w1 nf1 i1, promote_int sc t2 w2 nf2 i2, commonReal_tail sc t1 t2 w1 w2 nf1 nf2]
  exact tail_ok sc (intPromote_promoted sc t1 w1 i1 hw1) (intPromote_promoted sc t2 w2 i2 hw2)

/-! ### `typecompatible` -/

theorem beq_swap {α : Type} [BEq α] [LawfulBEq α] (a b : α) : (a == b) = (b == a) := by
  rw [Bool.eq_iff_iff]; simp only [beq_iff_eq]; exact ⟨Eq.symm, Eq.symm⟩

theorem bne_swap {α : Type} [BEq α] [LawfulBEq α] (a b : α) : (a != b) = (b != a) := by
  simp only [bne, beq_swap a b]

theorem ATy.compat_refl (a : ATy) : a.compat a = true := by simp [ATy.compat]

theorem ATy.compat_symm (a b : ATy) : a.compat b = b.compat a := by
  simp only [ATy.compat]
  rw [Bool.or_comm (a.enumOver b), beq_swap a b, bne_swap a.kind b.kind]

theorem ArrLen.ok_symm (a b : ArrLen) : a.ok b = b.ok a := by
  cases a <;> cases b <;> simp [ArrLen.ok, beq_swap]

theorem ArrLen.ok_refl (a : ArrLen) : a.ok a = true := by cases a <;> simp [ArrLen.ok]

mutual
theorem compat_refl' : ∀ t : Ty, typecompatible t t = true
  | .void => by simp [typecompatible]
  | .nullptr => by simp [typecompatible]
  | .arith a => by simp [typecompatible, ATy.compat_refl]
  | .struct _ => by simp [typecompatible]
  | .union _ => by simp [typecompatible]
  | .ptr q b => by simp [typecompatible, compat_refl' b]
  | .arr q l p b => by simp [typecompatible, compat_refl' b, ArrLen.ok_refl]
  | .func q r ps v => by simp [typecompatible, compat_refl' r, paramscompat_refl ps]
theorem paramscompat_refl : ∀ l : List Ty, paramscompatible l l = true
  | [] => by simp [paramscompatible]
  | a :: as => by simp [paramscompatible, compat_refl' a, paramscompat_refl as]
end

mutual
theorem compat_symm' : ∀ a b : Ty, typecompatible a b = typecompatible b a
  | .void, b => by cases b <;> simp [typecompatible]
  | .nullptr, b => by cases b <;> simp [typecompatible]
  | .arith a, b => by cases b <;> simp [typecompatible]; exact ATy.compat_symm _ _
  | .struct _, b => by cases b <;> simp [typecompatible]; exact beq_swap _ _
  | .union _, b => by cases b <;> simp [typecompatible]; exact beq_swap _ _
  | .ptr q x, b => by
    cases b <;> simp [typecompatible]
    rename_i q' y
    rw [compat_symm' x y, beq_swap q q']
  | .arr q l p x, b => by
    cases b <;> simp [typecompatible]
    rename_i q' l' p' y
    rw [compat_symm' x y, ArrLen.ok_symm, beq_swap q q']
  | .func q r ps v, b => by
    cases b <;> simp [typecompatible]
    rename_i q' r' ps' v'
    rw [compat_symm' r r', paramscompat_symm ps ps', beq_swap q q', beq_swap v v']
theorem paramscompat_symm : ∀ a b : List Ty, paramscompatible a b = paramscompatible b a
  | [], b => by cases b <;> simp [paramscompatible]
  | x :: xs, b => by
    cases b <;> simp [paramscompatible]
    rename_i y ys
    rw [compat_symm' x y, paramscompat_symm xs ys]
end

theorem ATy.compat_cases {a b : ATy} (h : a.compat b = true) :
    a = b ∨ (∃ i x, a = .enum i x ∧ b = .basic x) ∨ (∃ i x, a = .basic x ∧ b = .enum i x) := by
  simp only [ATy.compat, Bool.or_eq_true, beq_iff_eq, Bool.and_eq_true] at h
  rcases h with h | ⟨_, h | h⟩
  · exact Or.inl h
  · cases a <;> cases b <;> simp [ATy.enumOver] at h
    subst h; exact Or.inr (Or.inl ⟨_, _, rfl, rfl⟩)
  · cases a <;> cases b <;> simp [ATy.enumOver] at h
    subst h; exact Or.inr (Or.inr ⟨_, _, rfl, rfl⟩)

theorem ArrLen.ok_sizesAgree {a b : ArrLen} (h : a.ok b = true) : sizesAgree a b := by
  cases a <;> cases b <;> simp_all [ArrLen.ok, sizesAgree]

theorem ArrLen.sizesAgree_ok {a b : ArrLen} (h : sizesAgree a b) : a.ok b = true := by
  cases a <;> cases b <;> simp_all [ArrLen.ok, sizesAgree]

mutual
theorem compat_sound' : ∀ a b : Ty, typecompatible a b = true → Compat a b
  | .void, b, h => by cases b <;> simp [typecompatible] at h; exact .void
  | .nullptr, b, h => by cases b <;> simp [typecompatible] at h; exact .nullptr
  | .arith x, b, h => by
    cases b <;> simp [typecompatible] at h
    rcases ATy.compat_cases h with rfl | ⟨i, y, rfl, rfl⟩ | ⟨i, y, rfl, rfl⟩
    · exact .arith _
    · exact .enumL _ _
    · exact .enumR _ _
  | .struct _, b, h => by cases b <;> simp [typecompatible] at h; subst h; exact .struct _
  | .union _, b, h => by cases b <;> simp [typecompatible] at h; subst h; exact .union _
  | .ptr q x, b, h => by
    cases b <;> simp [typecompatible] at h
    obtain ⟨rfl, h2⟩ := h
    exact .ptr _ (compat_sound' _ _ h2)
  | .arr q l p x, b, h => by
    cases b <;> simp [typecompatible] at h
    obtain ⟨h1, rfl, h3⟩ := h
    exact .arr _ _ _ (ArrLen.ok_sizesAgree h1) (compat_sound' _ _ h3)
  | .func q r ps v, b, h => by
    cases b <;> simp [typecompatible] at h
    obtain ⟨⟨rfl, h2⟩, rfl, h4⟩ := h
    exact .func _ _ (compat_sound' _ _ h4) (paramscompat_sound _ _ h2)
theorem paramscompat_sound : ∀ a b : List Ty, paramscompatible a b = true → CompatL a b
  | [], b, h => by cases b <;> simp [paramscompatible] at h; exact .nil
  | x :: xs, b, h => by
    cases b <;> simp [paramscompatible] at h
    exact .cons (compat_sound' _ _ h.1) (paramscompat_sound _ _ h.2)
end

mutual
theorem compat_complete' : ∀ {a b : Ty}, Compat a b → typecompatible a b = true
  | _, _, .void => by simp [typecompatible]
  | _, _, .nullptr => by simp [typecompatible]
  | _, _, .arith a => by simp [typecompatible, ATy.compat_refl]
  | _, _, .struct _ => by simp [typecompatible]
  | _, _, .union _ => by simp [typecompatible]
  | _, _, .enumL i b => by simp [typecompatible, ATy.compat, ATy.enumOver, ATy.kind]; cases b <;> simp [Basic.kind]
  | _, _, .enumR i b => by simp [typecompatible, ATy.compat, ATy.enumOver, ATy.kind]; cases b <;> simp [Basic.kind]
  | _, _, .ptr q h => by simp [typecompatible, compat_complete' h]
  | _, _, .arr q pa pb hs h => by simp [typecompatible, compat_complete' h, ArrLen.sizesAgree_ok hs]
  | _, _, .func q v hr hp => by simp [typecompatible, compat_complete' hr, compatL_complete hp]
theorem compatL_complete : ∀ {a b : List Ty}, CompatL a b → paramscompatible a b = true
  | _, _, .nil => by simp [paramscompatible]
  | _, _, .cons h hs => by simp [paramscompatible, compat_complete' h, compatL_complete hs]
end

theorem beq_dec {α : Type} [BEq α] [LawfulBEq α] [DecidableEq α] (a b : α) : (a == b) = decide (a = b) := by
  by_cases h : a = b <;> simp [h]

theorem lenAgree_eq (a b : ArrLen) : lenAgree a b = a.ok b := by
  cases a <;> cases b <;> simp [lenAgree, ArrLen.ok]

theorem ATy.spec_compat_eq (a b : ATy) :
    (decide (a = b) ||
      (match a, b with
       | .enum _ x, .basic y => decide (x = y)
       | .basic x, .enum _ y => decide (x = y)
       | _, _ => false)) = a.compat b := by
  cases a with
  | basic x =>
    cases b with
    | basic y => simp [ATy.compat, ATy.enumOver, ATy.kind, beq_dec]
    | enum j y => cases x <;> cases y <;> simp [ATy.compat, ATy.enumOver, ATy.kind, beq_dec, Basic.kind]
  | enum i x =>
    cases b with
    | basic y => cases x <;> cases y <;> simp [ATy.compat, ATy.enumOver, ATy.kind, beq_dec, Basic.kind]
    | enum j y => simp [ATy.compat, ATy.enumOver, ATy.kind, beq_dec, Bool.decide_and]

mutual
theorem spec_compatible_eq : ∀ a b : Ty, compatible a b = typecompatible a b
  | .void, b => by cases b <;> simp [compatible, typecompatible]
  | .nullptr, b => by cases b <;> simp [compatible, typecompatible]
  | .arith x, b => by
    cases b <;> simp only [compatible, typecompatible]
    exact ATy.spec_compat_eq _ _
  | .struct _, b => by cases b <;> simp [compatible, typecompatible, beq_dec]
  | .union _, b => by cases b <;> simp [compatible, typecompatible, beq_dec]
  | .ptr q x, b => by
    cases b <;> simp only [compatible, typecompatible]
    rw [spec_compatible_eq x _, beq_dec]
  | .arr q l p x, b => by
    cases b <;> simp only [compatible, typecompatible]
    rw [spec_compatible_eq x _, lenAgree_eq, beq_dec]; simp only [Bool.and_comm, Bool.and_left_comm, Bool.and_assoc]
  | .func q r ps v, b => by
    cases b <;> simp only [compatible, typecompatible]
    rw [spec_compatible_eq r _, spec_compatibleL_eq ps _, beq_dec, beq_dec]; simp only [Bool.and_comm, Bool.and_left_comm, Bool.and_assoc]
theorem spec_compatibleL_eq : ∀ a b : List Ty, compatibleL a b = paramscompatible a b
  | [], b => by cases b <;> simp [compatibleL, paramscompatible]
  | x :: xs, b => by
    cases b <;> simp only [compatibleL, paramscompatible]
    rw [spec_compatible_eq x _, spec_compatibleL_eq xs _]
end

theorem compatible_iff (a b : Ty) : compatible a b = true ↔ Compat a b := by
  rw [spec_compatible_eq]
  exact ⟨compat_sound' a b, compat_complete'⟩

/-! ### operator result types -/

/-- operands the typing theorems talk about -/
def OperandOk (o : Operand) : Prop :=
  match o.ty with
  | .arith a => a.wf = true ∧ validWidth a o.width
  | _ => True

def okOptT : Option Ty → (Ty → Bool) → Bool
  | some r, f => f r
  | none, _ => false

theorem commonreal_some (sc : Bool) (l r : Operand) (a b : ATy) (hl : l.ty = .arith a) (hr : r.ty = .arith b)
    (ol : OperandOk l) (or' : OperandOk r) :
    ∃ c, commonreal sc l r = some (.arith c, exprconvert l (.arith c), exprconvert r (.arith c)) ∧
      usualArith sc a l.width b r.width c = true := by
  simp only [OperandOk, hl] at ol
  simp only [OperandOk, hr] at or'
  have h := commonreal_ok sc a b l.width r.width ol.1 or'.1 ol.2 or'.2
  exact ⟨commonReal sc a l.width b r.width, by simp [commonreal, hl, hr, h], by simp [usualArith]⟩

theorem binop_arith (sc : Bool) (op : BinOp) (l r : Operand) (ol : OperandOk l) (or' : OperandOk r)
    (t : Ty) (h : arithOk sc l r t = true) :
    ∃ c, commonreal sc l r = some (.arith c, exprconvert l (.arith c), exprconvert r (.arith c)) ∧
      arithOk sc l r (.arith c) = true := by
  unfold arithOk at h
  split at h
  · rename_i _ _ _ a b c hl hr
    obtain ⟨c', h1, h2⟩ := commonreal_some sc l r a b hl hr ol or'
    exact ⟨c', h1, by simp [arithOk, hl, hr, h2]⟩
  · simp at h

theorem isInt_of_isIntegerT (t : Ty) (h : isIntegerT t = true) : t.isInt = true := by
  cases t <;> simp [isIntegerT] at h
  rename_i a
  cases a with
  | basic b => cases b <;> simp_all [isIntegerTy, intTypeOf, isInteger, Ty.isInt, ATy.isInt, Basic.isInt]
  | enum i b => simp [Ty.isInt, ATy.isInt]

theorem isArith_of_isIntegerT (t : Ty) (h : isIntegerT t = true) : ∃ a, t = .arith a ∧ isIntegerTy a = true := by
  cases t <;> simp [isIntegerT] at h
  exact ⟨_, rfl, h⟩

macro "ty_simp" : tactic => `(tactic| simp [binopOk, binopType, okOptT, arithOk, bothInteger, isIntegerT, ptrToCompleteObject,
    Ty.isScalar, Ty.isArith, Ty.isPtr, Ty.isInt, Ty.isVoid, Ty.isFunc, Ty.int, Ty.long, ptrdiffT] at *)

theorem binop_logical (sc : Bool) (l r : Operand) (t : Ty) (op : BinOp) (hop : op = .lor ∨ op = .land)
    (h : binopOk sc op l r t = true) : okOptT (binopType sc op l r) (binopOk sc op l r) = true := by
  rcases hop with rfl | rfl <;> (simp [binopOk] at h; simp [binopType, binopOk, okOptT, h.1.1, h.1.2])

theorem binop_intarith (sc : Bool) (l r : Operand) (ol : OperandOk l) (or' : OperandOk r) (t : Ty) (op : BinOp)
    (hop : op = .bor ∨ op = .xor ∨ op = .band ∨ op = .mod ∨ op = .mul ∨ op = .div)
    (h : binopOk sc op l r t = true) : okOptT (binopType sc op l r) (binopOk sc op l r) = true := by
  have ha : arithOk sc l r t = true := by
    rcases hop with rfl | rfl | rfl | rfl | rfl | rfl <;> simp [binopOk] at h <;> first | exact h.2 | exact h
  obtain ⟨c, h1, h2⟩ := binop_arith sc op l r ol or' t ha
  have hl : l.ty.isArith = true ∧ r.ty.isArith = true := by
    unfold arithOk at ha; split at ha
    · rename_i _ _ _ a b c hl hr; simp [hl, hr, Ty.isArith]
    · simp at ha
  rcases hop with rfl | rfl | rfl | rfl | rfl | rfl <;>
  first
  | (simp [binopOk, bothInteger] at h
     have i1 := isInt_of_isIntegerT _ h.1.1
     have i2 := isInt_of_isIntegerT _ h.1.2
     simp [binopType, binopOk, okOptT, h1, h2, i1, i2, bothInteger, h.1.1, h.1.2]
     done)
  | (simp [binopOk] at h
     simp [binopType, binopOk, okOptT, h1, h2, hl.1, hl.2, h])

theorem exprconvert_ty_arith (l : Operand) (a p : ATy) (hl : l.ty = .arith a) :
    (exprconvert l (.arith p)).ty = .arith p := by
  unfold exprconvert
  split
  · rename_i h
    simp only [hl, typecompatible, Ty.isEnum, Bool.and_eq_true, beq_iff_eq] at h
    rcases ATy.compat_cases h.1 with rfl | ⟨i, x, rfl, rfl⟩ | ⟨i, x, rfl, rfl⟩
    · exact hl
    · simp [ATy.isEnum] at h
    · simp [ATy.isEnum] at h
  · rfl

theorem typepromote_int (sc : Bool) (a : ATy) (w : Option Nat) (hwf : a.wf = true) (hw : validWidth a w)
    (hi : isIntegerTy a = true) : typepromote sc a w = intPromote sc a w := by
  rw [promote_ok sc a w hwf hw]
  have nf : a ≠ .basic .float := by
    intro h; subst h; simp [isIntegerTy, intTypeOf, isInteger] at hi
  simp [promote, nf, hi]

theorem binop_shift (sc : Bool) (l r : Operand) (ol : OperandOk l) (t : Ty) (op : BinOp)
    (hop : op = .shl ∨ op = .shr)
    (h : binopOk sc op l r t = true) : okOptT (binopType sc op l r) (binopOk sc op l r) = true := by
  have hb : bothInteger l r = true ∧ ∃ a, l.ty = .arith a ∧ t = .arith (intPromote sc a l.width) := by
    rcases hop with rfl | rfl <;>
    · simp only [binopOk, Bool.and_eq_true] at h
      refine ⟨h.1, ?_⟩
      have h2 := h.2
      split at h2
      · rename_i a hl; exact ⟨a, hl, by simpa using h2⟩
      · simp at h2
  obtain ⟨hbi, a, hl, rfl⟩ := hb
  simp only [bothInteger, Bool.and_eq_true] at hbi
  have i1 := isInt_of_isIntegerT _ hbi.1
  have i2 := isInt_of_isIntegerT _ hbi.2
  have hia : isIntegerTy a = true := by simpa [isIntegerT, hl] using hbi.1
  simp only [OperandOk, hl] at ol
  have hp := typepromote_int sc a l.width ol.1 ol.2 hia
  have i1' : (Ty.arith a).isInt = true := hl ▸ i1
  rcases hop with rfl | rfl <;>
    simp [binopType, i1, i1', i2, exprpromote, hl, okOptT, exprconvert_ty_arith l a _ hl, hp, h]

theorem arithOk_shapes {sc : Bool} {l r : Operand} {t : Ty} (h : arithOk sc l r t = true) :
    l.ty.isArith = true ∧ r.ty.isArith = true := by
  unfold arithOk at h; split at h
  · rename_i _ _ _ a b c hl hr; simp [hl, hr, Ty.isArith]
  · simp at h

theorem arithOk_false_of_ptr {sc : Bool} {l r : Operand} {t : Ty} (h : l.ty.isArith = false ∨ r.ty.isArith = false) :
    arithOk sc l r t = false := by
  cases hh : arithOk sc l r t
  · rfl
  · have := arithOk_shapes hh; rcases h with h | h <;> simp_all

theorem binop_add (sc : Bool) (l r : Operand) (ol : OperandOk l) (or' : OperandOk r) (t : Ty)
    (h : binopOk sc .add l r t = true) : okOptT (binopType sc .add l r) (binopOk sc .add l r) = true := by
  by_cases ha : arithOk sc l r t = true
  · obtain ⟨c, h1, h2⟩ := binop_arith sc .add l r ol or' t ha
    have hs := arithOk_shapes ha
    simp [binopType, binopOk, okOptT, h1, h2, hs.1, hs.2]
  · simp only [binopOk, ha, Bool.false_or, Bool.or_eq_true, Bool.and_eq_true] at h
    rcases h with ⟨⟨h1, h2⟩, h3⟩ | ⟨⟨h1, h2⟩, h3⟩
    · -- pointer + integer
      obtain ⟨b, hr, _⟩ := isArith_of_isIntegerT _ h2
      have i2 := isInt_of_isIntegerT _ h2
      cases hl : l.ty <;> simp [ptrToCompleteObject, hl] at h1
      rename_i q base
      have i2' : b.isInt = true := by simpa [hr, Ty.isInt] using i2
      have h2' : isIntegerTy b = true := by simpa [hr, isIntegerT] using h2
      have hm : binopType sc .add l r = some (.ptr q base) := by
        simp [binopType, hl, hr, Ty.isArith, Ty.isPtr, Ty.isInt, i2', h1.1, h1.2]
      have hk : binopOk sc .add l r (.ptr q base) = true := by
        simp [binopOk, hl, hr, ptrToCompleteObject, h1.1, h1.2, isIntegerT, h2']
      simp [okOptT, hm, hk]
    · -- integer + pointer
      obtain ⟨b, hl, _⟩ := isArith_of_isIntegerT _ h2
      have i2 := isInt_of_isIntegerT _ h2
      cases hr : r.ty <;> simp [ptrToCompleteObject, hr] at h1
      rename_i q base
      have i2' : b.isInt = true := by simpa [hl, Ty.isInt] using i2
      have h2' : isIntegerTy b = true := by simpa [hl, isIntegerT] using h2
      have hm : binopType sc .add l r = some (.ptr q base) := by
        simp [binopType, hl, hr, Ty.isArith, Ty.isPtr, Ty.isInt, i2', h1.1, h1.2]
      have hk : binopOk sc .add l r (.ptr q base) = true := by
        simp [binopOk, hl, hr, ptrToCompleteObject, h1.1, h1.2, isIntegerT, h2']
      simp [okOptT, hm, hk]

theorem binop_sub (sc : Bool) (l r : Operand) (ol : OperandOk l) (or' : OperandOk r) (t : Ty)
    (h : binopOk sc .sub l r t = true) : okOptT (binopType sc .sub l r) (binopOk sc .sub l r) = true := by
  by_cases ha : arithOk sc l r t = true
  · obtain ⟨c, h1, h2⟩ := binop_arith sc .sub l r ol or' t ha
    have hs := arithOk_shapes ha
    simp [binopType, binopOk, okOptT, h1, h2, hs.1, hs.2]
  · simp only [binopOk, ha, Bool.false_or, Bool.or_eq_true, Bool.and_eq_true] at h
    rcases h with ⟨⟨h1, h2⟩, h3⟩ | h
    · -- pointer - integer
      obtain ⟨b, hr, _⟩ := isArith_of_isIntegerT _ h2
      have i2 := isInt_of_isIntegerT _ h2
      cases hl : l.ty <;> simp [ptrToCompleteObject, hl] at h1
      rename_i q base
      have i2' : b.isInt = true := by simpa [hr, Ty.isInt] using i2
      have h2' : isIntegerTy b = true := by simpa [hr, isIntegerT] using h2
      have hm : binopType sc .sub l r = some (.ptr q base) := by
        simp [binopType, hl, hr, Ty.isArith, Ty.isPtr, Ty.isInt, i2', h1.1, h1.2]
      have hk : binopOk sc .sub l r (.ptr q base) = true := by
        simp [binopOk, hl, hr, ptrToCompleteObject, h1.1, h1.2, isIntegerT, h2']
      simp [okOptT, hm, hk]
    · -- pointer - pointer
      cases hl : l.ty <;> cases hr : r.ty <;> simp [hl, hr] at h
      rename_i ql lb qr rb
      obtain ⟨⟨h1, h2⟩, h3⟩ := h
      simp [ptrToCompleteObject] at h1
      have hc : typecompatible lb rb = true := by rw [← spec_compatible_eq]; exact h2
      have hm : binopType sc .sub l r = some Ty.long := by
        simp [binopType, hl, hr, Ty.isArith, Ty.isPtr, Ty.isInt, h1.1, h1.2, hc]
      have hk : binopOk sc .sub l r Ty.long = true := by
        simp [binopOk, hl, hr, ptrToCompleteObject, h1.1, h1.2, h2, Ty.long, ptrdiffT, tLong]
      simp [okOptT, hm, hk]

theorem commonreal_isSome (sc : Bool) (l r : Operand) (ol : OperandOk l) (or' : OperandOk r)
    (h1 : l.ty.isArith = true) (h2 : r.ty.isArith = true) : ∃ x, commonreal sc l r = some x := by
  cases hl : l.ty <;> simp [hl, Ty.isArith] at h1
  cases hr : r.ty <;> simp [hr, Ty.isArith] at h2
  obtain ⟨c, hc, _⟩ := commonreal_some sc l r _ _ hl hr ol or'
  exact ⟨_, hc⟩

theorem binop_rel (sc : Bool) (l r : Operand) (ol : OperandOk l) (or' : OperandOk r) (t : Ty) (op : BinOp)
    (hop : op = .less ∨ op = .greater ∨ op = .leq ∨ op = .geq)
    (h : binopOk sc op l r t = true) : okOptT (binopType sc op l r) (binopOk sc op l r) = true := by
  have h' : (l.ty.isArith = true ∧ r.ty.isArith = true) ∨
      (∃ ql lb qr rb, l.ty = .ptr ql lb ∧ r.ty = .ptr qr rb ∧ compatible lb rb = true ∧ lb.isFunc = false) := by
    rcases hop with rfl | rfl | rfl | rfl <;>
    · simp only [binopOk, Bool.and_eq_true, Bool.or_eq_true] at h
      rcases h.2 with hh | hh
      · exact Or.inl hh
      · right
        cases hl : l.ty <;> cases hr : r.ty <;> simp [hl, hr] at hh
        exact ⟨_, _, _, _, rfl, rfl, hh.1, hh.2⟩
  rcases h' with ⟨a1, a2⟩ | ⟨ql, lb, qr, rb, hl, hr, hc, hf⟩
  · obtain ⟨x, hx⟩ := commonreal_isSome sc l r ol or' a1 a2
    rcases hop with rfl | rfl | rfl | rfl <;> simp [binopType, binopOk, okOptT, a1, a2, hx]
  · have hc' : typecompatible lb rb = true := by rw [← spec_compatible_eq]; exact hc
    rcases hop with rfl | rfl | rfl | rfl <;>
      simp [binopType, binopOk, okOptT, hl, hr, Ty.isArith, hc, hc', hf]

theorem ptrEqOk_of (lb rb : Ty)
    (h : typecompatible lb rb = true ∨ (rb = .void ∧ lb.isFunc = false) ∨ (lb = .void ∧ rb.isFunc = false)) :
    ptrEqOk lb rb = true := by
  rcases h with hc | ⟨rfl, hf⟩ | ⟨rfl, hf⟩
  · cases lb <;> cases rb <;> simp_all [ptrEqOk, Ty.isVoid, Ty.isFunc, typecompatible]
  · cases lb <;> simp_all [ptrEqOk, Ty.isVoid, Ty.isFunc, typecompatible]
  · cases rb <;> simp_all [ptrEqOk, Ty.isVoid, Ty.isFunc, typecompatible]

theorem binop_eq (sc : Bool) (l r : Operand) (ol : OperandOk l) (or' : OperandOk r) (t : Ty) (op : BinOp)
    (hop : op = .eql ∨ op = .neq)
    (h : binopOk sc op l r t = true) : okOptT (binopType sc op l r) (binopOk sc op l r) = true := by
  have h' : (l.ty.isArith = true ∧ r.ty.isArith = true) ∨
      (∃ ql lb qr rb, l.ty = .ptr ql lb ∧ r.ty = .ptr qr rb ∧
        (compatible lb rb = true ∨ (rb = .void ∧ lb.isFunc = false) ∨ (lb = .void ∧ rb.isFunc = false))) ∨
      (l.ty.isPtr = true ∧ r.nullconst = true) ∨ (r.ty.isPtr = true ∧ l.nullconst = true) := by
    rcases hop with rfl | rfl <;>
    · simp only [binopOk, Bool.and_eq_true, Bool.or_eq_true] at h
      rcases h.2 with ((hh | hh) | hh) | hh
      · exact Or.inl hh
      · right; left
        cases hl : l.ty <;> cases hr : r.ty <;> simp [hl, hr] at hh
        exact ⟨_, _, _, _, rfl, rfl, by simpa [or_assoc] using hh⟩
      · exact Or.inr (Or.inr (Or.inl hh))
      · exact Or.inr (Or.inr (Or.inr hh))
  have hk : ∀ op, (op = BinOp.eql ∨ op = BinOp.neq) → binopOk sc op l r Ty.int = true := by
    intro op' hop'
    rcases hop with rfl | rfl <;> rcases hop' with rfl | rfl <;>
    · simp only [binopOk, Bool.and_eq_true] at h ⊢
      exact ⟨by simp, h.2⟩
  suffices hm : binopType sc op l r = some Ty.int by
    rw [hm]; exact hk op hop
  rcases h' with ⟨a1, a2⟩ | ⟨ql, lb, qr, rb, hl, hr, hc⟩ | ⟨hp, hn⟩ | ⟨hp, hn⟩
  · obtain ⟨x, hx⟩ := commonreal_isSome sc l r ol or' a1 a2
    rcases hop with rfl | rfl <;> simp [binopType, a1, a2, hx]
  · rw [spec_compatible_eq] at hc
    have hq := ptrEqOk_of lb rb hc
    rcases hop with rfl | rfl <;>
    · cases hn1 : r.nullconst <;> cases hn2 : l.nullconst <;>
        simp [binopType, hl, hr, Ty.isArith, Ty.isPtr, hn1, hn2, hq]
  · cases hl : l.ty <;> simp [hl, Ty.isPtr] at hp
    rcases hop with rfl | rfl <;> simp [binopType, hl, Ty.isArith, Ty.isPtr, hn]
  · cases hr : r.ty <;> simp [hr, Ty.isPtr] at hp
    rcases hop with rfl | rfl <;>
    · cases hl : l.ty <;> simp [binopType, hl, hr, Ty.isArith, Ty.isPtr, hn]

theorem binop_ok (sc : Bool) (op : BinOp) (l r : Operand) (ol : OperandOk l) (or' : OperandOk r) (t : Ty)
    (h : binopOk sc op l r t = true) : okOptT (binopType sc op l r) (binopOk sc op l r) = true := by
  cases op
  case lor => exact binop_logical sc l r t _ (Or.inl rfl) h
  case land => exact binop_logical sc l r t _ (Or.inr rfl) h
  case eql => exact binop_eq sc l r ol or' t _ (Or.inl rfl) h
  case neq => exact binop_eq sc l r ol or' t _ (Or.inr rfl) h
  case less => exact binop_rel sc l r ol or' t _ (Or.inl rfl) h
  case greater => exact binop_rel sc l r ol or' t _ (Or.inr (Or.inl rfl)) h
  case leq => exact binop_rel sc l r ol or' t _ (Or.inr (Or.inr (Or.inl rfl))) h
  case geq => exact binop_rel sc l r ol or' t _ (Or.inr (Or.inr (Or.inr rfl))) h
  case bor => exact binop_intarith sc l r ol or' t _ (Or.inl rfl) h
  case xor => exact binop_intarith sc l r ol or' t _ (Or.inr (Or.inl rfl)) h
  case band => exact binop_intarith sc l r ol or' t _ (Or.inr (Or.inr (Or.inl rfl))) h
  case mod => exact binop_intarith sc l r ol or' t _ (Or.inr (Or.inr (Or.inr (Or.inl rfl)))) h
  case mul => exact binop_intarith sc l r ol or' t _ (Or.inr (Or.inr (Or.inr (Or.inr (Or.inl rfl))))) h
  case div => exact binop_intarith sc l r ol or' t _ (Or.inr (Or.inr (Or.inr (Or.inr (Or.inr rfl))))) h
  case add => exact binop_add sc l r ol or' t h
  case sub => exact binop_sub sc l r ol or' t h
  case shl => exact binop_shift sc l r ol t _ (Or.inl rfl) h
  case shr => exact binop_shift sc l r ol t _ (Or.inr rfl) h

theorem Qual.union_self (q : Qual) : q.union q = q := by
  cases q; simp [Qual.union]

theorem cond_ok (sc : Bool) (c l r : Operand) (hsc : c.ty.isScalar = true) (hc : c.constval = none) (ol : OperandOk l) (or' : OperandOk r)
    (t : Ty) (h : condOk sc l r t = true) : okOptT (condType sc c l r) (condOk sc l r) = true := by
  by_cases ha : arithOk sc l r t = true
  · obtain ⟨x, h1, h2⟩ := binop_arith sc .add l r ol or' t ha
    have hs := arithOk_shapes ha
    simp [condType, hsc, condRes, hs.1, hs.2, h1, hc, okOptT, condOk, h2]
  · simp only [condOk, ha, Bool.false_or] at h
    have hna : ∀ t', l.ty.isArith = false ∨ r.ty.isArith = false → arithOk sc l r t' = false :=
      fun t' hh => arithOk_false_of_ptr hh
    cases hl : l.ty <;> cases hr : r.ty <;>
      simp [hl, hr, Ty.isStructUnion, Ty.isPtr] at h <;>
      (try (simp [condType, hsc, condRes, hl, hr, hc, Ty.isArith, Ty.isPtr, okOptT, condOk, Ty.isStructUnion, h]; done))
    rename_i ql lb qr rb
    have hA : ∀ t', arithOk sc l r t' = false := fun t' => hna t' (Or.inl (by simp [hl, Ty.isArith]))
    have hrefl : compatible lb lb = true := by rw [spec_compatible_eq]; exact compat_refl' lb
    by_cases heq : ql = qr ∧ lb = rb
    · obtain ⟨rfl, rfl⟩ := heq
      simp [condType, hsc, condRes, hl, hr, hc, Ty.isArith, Ty.isPtr, okOptT]
      cases hn1 : l.nullconst <;> cases hn2 : r.nullconst <;>
        simp [condOk, hl, hr, hn1, hn2, hA, Ty.isStructUnion, Ty.isPtr, Qual.union_self, composite, hrefl]
      simp [hn1, hn2] at h
      by_cases hv : lb = .void
      · subst hv; simp [Ty.isFunc]
      · simp [hv]
    · cases hn1 : l.nullconst <;> cases hn2 : r.nullconst <;>
        simp [hn1, hn2] at h <;>
        simp [condType, hsc, condRes, hl, hr, hc, Ty.isArith, Ty.isPtr, okOptT, heq, hn1, hn2] <;>
        (try (simp [condOk, hl, hr, hn1, hn2, hA, Ty.isStructUnion, Ty.isPtr]; done))
      rcases h with ⟨⟨⟨hv1, hv2⟩, hcmp⟩, _⟩ | ⟨⟨⟨hv, hf1⟩, hf2⟩, _⟩
      · have hcmp' : typecompatible lb rb = true := by rw [← spec_compatible_eq]; exact hcmp
        simp [hv1, hv2, hcmp', condOk, hl, hr, hn1, hn2, hA, Ty.isStructUnion, Ty.isPtr, hcmp, composite, typecomposite]
      · simp [hv, condOk, hl, hr, hn1, hn2, hA, Ty.isStructUnion, Ty.isPtr, hf1, hf2]

/-- with a constant controlling expression `condexpr` returns `exprconvert(c ? l : r, t)`; for
arithmetic operands that has the same type as the general case -/
theorem cond_const_arith (sc : Bool) (c l r : Operand) (ol : OperandOk l) (or' : OperandOk r)
    (h1 : l.ty.isArith = true) (h2 : r.ty.isArith = true) :
    condType sc c l r = condType sc { c with constval := none } l r := by
  cases hl : l.ty <;> simp [hl, Ty.isArith] at h1
  cases hr : r.ty <;> simp [hr, Ty.isArith] at h2
  rename_i a b
  obtain ⟨x, hx, _⟩ := commonreal_some sc l r a b hl hr ol or'
  cases hs : c.ty.isScalar
  · simp [condType, hs]
  cases hc : c.constval with
  | none => simp [condType, hs, condRes, hc]
  | some v =>
    have e1 := exprconvert_ty_arith l a x hl
    have e2 := exprconvert_ty_arith r b x hr
    cases v <;> simp [condType, hs, condRes, hl, hr, Ty.isArith, hx, hc, exprconvert_ty_arith _ x x e1, exprconvert_ty_arith _ x x e2]

/-! ### uniqueness of the operator result type -/

theorem arithOk_unique {sc : Bool} {l r : Operand} {t t' : Ty} (h : arithOk sc l r t = true)
    (h' : arithOk sc l r t' = true) : t = t' := by
  unfold arithOk at h h'
  split at h
  · rename_i _ _ _ a b c hl hr
    split at h'
    · rename_i _ _ _ a' b' c' hl' hr'
      rw [hl] at hl'; rw [hr] at hr'
      cases hl'; cases hr'
      simp only [usualArith, beq_iff_eq] at h h'
      rw [h, h']
    · simp at h'
  · simp at h

theorem binopOk_unique (sc : Bool) (op : BinOp) (l r : Operand) (t t' : Ty)
    (h : binopOk sc op l r t = true) (h' : binopOk sc op l r t' = true) : t = t' := by
  cases op <;> simp only [binopOk, Bool.and_eq_true, Bool.or_eq_true, beq_iff_eq] at h h'
  case lor => rw [h.2, h'.2]
  case land => rw [h.2, h'.2]
  case eql => rw [h.1, h'.1]
  case neq => rw [h.1, h'.1]
  case less => rw [h.1, h'.1]
  case greater => rw [h.1, h'.1]
  case leq => rw [h.1, h'.1]
  case geq => rw [h.1, h'.1]
  case bor => exact arithOk_unique h.2 h'.2
  case xor => exact arithOk_unique h.2 h'.2
  case band => exact arithOk_unique h.2 h'.2
  case mod => exact arithOk_unique h.2 h'.2
  case mul => exact arithOk_unique h h'
  case div => exact arithOk_unique h h'
  case shl =>
    cases hl : l.ty <;> simp [hl] at h h'
    rw [h.2, h'.2]
  case shr =>
    cases hl : l.ty <;> simp [hl] at h h'
    rw [h.2, h'.2]
  case add =>
    rcases h with (h | h) | h <;> rcases h' with (h' | h') | h'
    · exact arithOk_unique h h'
    · have := arithOk_shapes h; cases hl : l.ty <;> simp_all [ptrToCompleteObject, Ty.isArith]
    · have := arithOk_shapes h; cases hr : r.ty <;> simp_all [ptrToCompleteObject, Ty.isArith]
    · have := arithOk_shapes h'; cases hl : l.ty <;> simp_all [ptrToCompleteObject, Ty.isArith]
    · rw [h.2, h'.2]
    · cases hl : l.ty <;> simp_all [ptrToCompleteObject, isIntegerT]
    · have := arithOk_shapes h'; cases hr : r.ty <;> simp_all [ptrToCompleteObject, Ty.isArith]
    · cases hl : l.ty <;> simp_all [ptrToCompleteObject, isIntegerT]
    · rw [h.2, h'.2]
  case sub =>
    rcases h with (h | h) | h <;> rcases h' with (h' | h') | h'
    · exact arithOk_unique h h'
    · have := arithOk_shapes h; cases hl : l.ty <;> simp_all [ptrToCompleteObject, Ty.isArith]
    · have := arithOk_shapes h; cases hl : l.ty <;> cases hr : r.ty <;> simp_all [ptrToCompleteObject, Ty.isArith]
    · have := arithOk_shapes h'; cases hl : l.ty <;> simp_all [ptrToCompleteObject, Ty.isArith]
    · rw [h.2, h'.2]
    · cases hl : l.ty <;> cases hr : r.ty <;> simp_all [ptrToCompleteObject, isIntegerT]
    · have := arithOk_shapes h'; cases hl : l.ty <;> cases hr : r.ty <;> simp_all [ptrToCompleteObject, Ty.isArith]
    · cases hl : l.ty <;> cases hr : r.ty <;> simp_all [ptrToCompleteObject, isIntegerT]
    · cases hl : l.ty <;> cases hr : r.ty <;> simp_all [ptrToCompleteObject, isIntegerT]

/-! ### misc -/

theorem decay_id (x : Operand) (hna : ∀ q l p b, x.ty ≠ .arr q l p b) (hnf : x.ty.isFunc = false) :
    decay x = x := by
  unfold decay
  cases h : x.ty <;> first
    | rfl
    | (exact absurd h (hna _ _ _ _))
    | (simp [h, Ty.isFunc] at hnf)


theorem isInt_eq_isIntegerT (t : Ty) (hwf : ∀ a, t = .arith a → a.wf = true) : t.isInt = isIntegerT t := by
  cases t <;> simp [Ty.isInt, isIntegerT]
  rename_i a
  have := hwf a rfl
  cases a with
  | basic b => cases b <;> rfl
  | enum i b => simpa [ATy.isInt, isIntegerTy, intTypeOf, ATy.wf] using (by cases b <;> simp_all [ATy.wf, Basic.isInt, isInteger])


end CprocVerif.Types.Lemmas

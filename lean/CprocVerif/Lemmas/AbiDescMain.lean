import CprocVerif.Lemmas.AbiDescFields

/-!
# Lemmas for C08, part 6: the descriptor of every `good` type is faithful (induction over the type)
-/

namespace CprocVerif.AbiDesc
open CprocVerif.Layout CprocVerif.Abi CprocVerif.QbeLayout

structure PT (t : AType) : Prop where
  wf : WfType (erase t)
  spos : 0 < (ti (stripArr t)).size
  complete : (ti (stripArr t)).incomplete = false
  noflex : (ti t).flexible = false
  desc : ∃ q, emittype t = some q ∧
    info q = ⟨(ti (stripArr t)).size, (ti (stripArr t)).align, flattenC x86_64 true (stripArr t)⟩ ∧
    (∀ s, t = .sc s → s.isFloat = false → q = .base (intBase s.size))

structure PF (fs : AFields) : Prop where
  wf : WfFields (eraseF fs)
  its : ∃ l, its fs = some l ∧ FOk fs l

theorem wf_strip : ∀ (t : AType), WfType (erase t) → WfType (erase (stripArr t))
  | .array e none, h => by simp only [erase, WfType] at h; exact wf_strip e h.1
  | .array e (some n), h => by simp only [erase, WfType] at h; exact wf_strip e h.1
  | .sc _, h => h
  | .su .., h => h
  | .blob .., h => h

theorem pairwiseB_pairwise {α : Type} (r : α → α → Bool) : ∀ (l : List α), pairwiseB r l = true →
    List.Pairwise (fun a b => r a b = true) l
  | [], _ => List.Pairwise.nil
  | a :: as, h => by
    simp only [pairwiseB, Bool.and_eq_true, List.all_eq_true] at h
    exact List.pairwise_cons.2 ⟨h.1, pairwiseB_pairwise r as h.2⟩

theorem wfDecls_mem {u p : Bool} : ∀ {ds : List Decl}, WfDecls u p ds → ∀ d ∈ ds, WfDecl u p d
  | [], _, d, hd => by simp at hd
  | x :: xs, h, d, hd => by
    rcases List.mem_cons.1 hd with rfl | hd
    · exact h.1
    · exact wfDecls_mem h.2.2 d hd

theorem lastEnd_le {S : Nat} : ∀ (ms : List Member) (q : Nat), (∀ m ∈ ms, m.offset + m.tsize ≤ S) → q ≤ S →
    lastEnd q ms ≤ S
  | [], _, _, h => h
  | m :: ms, _, h, _ =>
    lastEnd_le ms _ (fun x hx => h x (List.mem_cons_of_mem _ hx)) (h m (List.mem_cons_self ..))

theorem alignOf_le {x : Nat} : ∀ (ms : List Member), 1 ≤ x → (∀ m ∈ ms, m.talign ≤ x) → alignOf ms ≤ x
  | [], h, _ => h
  | m :: ms, h1, h => by
    have := alignOf_le ms h1 (fun y hy => h y (List.mem_cons_of_mem _ hy))
    have := h m (List.mem_cons_self ..)
    simp only [alignOf]; omega

/-- the `DM`s of members related by `unitRel` are related by `DMRel`, and stay in bounds -/
theorem mkDMs_rel {S : Nat} : ∀ (ms : List Member) (its : List It) (ims : List (Option (List Fld))),
    All3 ItOk ms its ims → List.Pairwise (fun a b => unitRel a b = true) ms →
    (∀ m ∈ ms, m.offset + m.tsize ≤ S) →
    List.Pairwise DMRel (mkDMs ms its) ∧ (mkDMs ms its).length = ms.length ∧
    (∀ x ∈ mkDMs ms its, 0 < x.size ∧ x.offset + x.size ≤ S) ∧
    ∀ m0 : Member, ∀ it0 : It, (m0.width.isSome → it0.item = .base (intBase m0.tsize) ∧ it0.subSize = m0.tsize) →
      it0.size = m0.tsize → (∀ b ∈ ms, unitRel m0 b = true) →
      ∀ x ∈ mkDMs ms its, DMRel ⟨m0.offset, it0.size, it0.item, it0.subSize⟩ x
  | _, _, _, All3.nil, _, _ => by simp [mkDMs]
  | m :: ms, it :: its, _ :: ims, All3.cons hit hrest, hp, hb => by
    obtain ⟨i1, i2, i3, i4⟩ := mkDMs_rel ms its ims hrest (List.pairwise_cons.1 hp).2
      (fun x hx => hb x (List.mem_cons_of_mem _ hx))
    have hm := hb m (List.mem_cons_self ..)
    rw [mkDMs_cons]
    refine ⟨List.pairwise_cons.2 ⟨?_, i1⟩, by simp only [List.length_cons, i2], ?_, ?_⟩
    · exact i4 m it hit.bfitem hit.size (List.pairwise_cons.1 hp).1
    · intro x hx
      rcases List.mem_cons.1 hx with rfl | hx
      · exact ⟨by rw [hit.size]; exact hit.pos, by rw [hit.size]; exact hm⟩
      · exact i3 x hx
    · intro m0 it0 h0 hs0 hrel x hx
      rcases List.mem_cons.1 hx with rfl | hx
      · have hr := hrel m (List.mem_cons_self ..)
        simp only [unitRel, sameUnit, Bool.or_eq_true, Bool.and_eq_true, beq_iff_eq, decide_eq_true_eq] at hr
        rcases hr with ⟨⟨⟨w0, w1⟩, ho⟩, hz⟩ | h
        · left
          obtain ⟨a1, a2⟩ := h0 w0
          obtain ⟨b1, b2⟩ := hit.bfitem w1
          refine ⟨ho.symm, by rw [hit.size, hs0, hz], by rw [a1, b1, hz], by rw [a2, b2, hz]⟩
        · right; rw [hs0]; exact h
      · exact i4 m0 it0 h0 hs0 (fun b hb' => hrel b (List.mem_cons_of_mem _ hb')) x hx

theorem all3_pos {ms : List Member} {its : List It} {ims : List (Option (List Fld))}
    (h : All3 ItOk ms its ims) : ∀ m ∈ ms, 0 < m.tsize := by
  induction h with
  | nil => intro m hm; simp at hm
  | cons hit _ ih =>
    intro m hm
    rcases List.mem_cons.1 hm with rfl | hm
    · exact hit.pos
    · exact ih m hm

theorem qbetype_good {s : Sc} (h : s.size = 1 ∨ s.size = 2 ∨ s.size = 4 ∨ s.size = 8) :
    ∃ c, (qbetype s).map (·.2) = some c ∧ baseSize c = s.size ∧ baseKind c = scKind s ∧
      (s.isFloat = false → c = intBase s.size) := by
  have hf : s.isFloat = true → s.size = 4 ∨ s.size = 8 := by
    intro hfl
    cases s with
    | ptr => cases hfl
    | arith a =>
      cases a with
      | enum i b => cases hfl
      | basic b => cases b <;> simp_all [Sc.isFloat, Sc.size, Types.ATy.isFloat, Types.ATy.size, Types.Basic.isInt, Types.Basic.size]
  cases hfl : s.isFloat with
  | false =>
    rcases h with h | h | h | h <;>
      simp [qbetype, h, hfl, baseSize, baseKind, scKind, intBase]
  | true =>
    rcases hf hfl with h | h <;>
      simp [qbetype, h, hfl, baseSize, baseKind, scKind]

def mkTi (L : Layout) : MTy := { size := L.size, align := L.align, flexible := L.flexible }

theorem pow2_sc {n : Nat} (h : n = 1 ∨ n = 2 ∨ n = 4 ∨ n = 8) : Pow2 n := by
  rcases h with h | h | h | h <;> subst h <;> decide

mutual
  theorem pt : ∀ (t : AType), good t = true → PT t
    | .sc s, h => by
      simp only [good, decide_eq_true_eq] at h
      obtain ⟨c, hc, hs, hk, hi⟩ := qbetype_good h
      have hpos : 0 < s.size := by omega
      refine ⟨by simp only [erase, WfType]; exact pow2_sc h, by simpa [ti, erase, Abi.tinfo, stripArr] using hpos,
        by simp [ti, erase, Abi.tinfo, stripArr], by simp [ti, erase, Abi.tinfo], c |> QTy.base, ?_, ?_, ?_⟩
      · simp only [emittype]
        have : (qbetype s).map (fun q => QTy.base q.2) = ((qbetype s).map (·.2)).map QTy.base := by
          cases qbetype s <;> rfl
        rw [this, hc]; rfl
      · simp only [info, stripArr, ti, erase, Abi.tinfo, flattenC, hs, hk]
      · intro s' hs' hf
        cases hs'
        rw [hi hf]
    | .blob s a dark, h => by
      simp only [good, Bool.and_eq_true, decide_eq_true_eq] at h
      obtain ⟨⟨⟨⟨hd, hs⟩, ha⟩, _⟩, _⟩ := h
      subst ha
      refine ⟨by simp only [erase, WfType]; decide, by simpa [ti, erase, Abi.tinfo, stripArr] using hs,
        by simp [ti, erase, Abi.tinfo, stripArr], by simp [ti, erase, Abi.tinfo], .opaque 8 s, ?_, ?_, ?_⟩
      · simp only [emittype, hd, ↓reduceIte]
      · simp only [info, stripArr, ti, erase, Abi.tinfo, flattenC]
      · intro s' hs'; cases hs'
    | .array e none, h => by simp [good] at h
    | .array e (some n), h => by
      have hg := h
      simp only [good, Bool.and_eq_true, decide_eq_true_eq] at h
      obtain ⟨⟨he, hn⟩, hb⟩ := h
      have ih := pt e he
      have af := arrFacts e he ih.complete
      obtain ⟨q, q1, q2, _⟩ := ih.desc
      refine ⟨?_, by simpa only [stripArr] using ih.spos, by simpa only [stripArr] using ih.complete,
        by simp [ti, erase, Abi.tinfo], q, ?_, ?_, ?_⟩
      · simp only [erase, WfType]
        refine ⟨ih.wf, af.complete, ?_, hb⟩
        have := af.size; have := Nat.mul_pos af.cpos ih.spos
        show (ti e).size ≠ 0
        omega
      · rw [emittype]; exact q1
      · simpa only [stripArr] using q2
      · intro s' hs'; cases hs'
    | .su u p fs, h => by
      simp only [good, Bool.and_eq_true, Bool.not_eq_true', decide_eq_true_eq, Bool.or_eq_true] at h
      obtain ⟨⟨⟨⟨hp, hgf⟩, hwf⟩, hok⟩, hchain⟩ := h
      subst hp
      have pfs := pf fs hgf
      obtain ⟨l, hl, hfo⟩ := pfs.its
      have hdecls := decls_ok (eraseF fs) pfs.wf
      have hint : ∀ d ∈ Abi.decls x86_64 (eraseF fs), d.width.isSome → d.ty.isInt = true := by
        intro d hd hw
        have := (wfDecls_mem hwf.1 d hd).2.2.2
        obtain ⟨w, hw'⟩ := Option.isSome_iff_exists.1 hw
        rw [hw'] at this
        exact this.1
      have hwft : WfType (erase (.su u false fs)) := by
        simp only [erase, WfType]
        exact ⟨pfs.wf, hwf⟩
      obtain ⟨_, a2, a3⟩ := aggAlign_props (T := x86_64) hwf.1
      have hpal := a3 hwf.2.1
      have hal1 : max (aggAlign x86_64 false (Abi.decls x86_64 (eraseF fs))) 1 =
          aggAlign x86_64 false (Abi.decls x86_64 (eraseF fs)) := by have := hpal.pos; omega
      have hstrip : stripArr (.su u false fs) = .su u false fs := rfl
      have hflex := fok_noflex fs l hfo hok
      cases u with
      | false =>
        have hch : pairwiseB unitRel (Abi.layout x86_64 false false (Abi.decls x86_64 (eraseF fs))).members = true := by
          rcases hchain with h | h
          · cases h
          · exact h
        have hlay := layout_struct hwf
        obtain ⟨sf1, _, _, _⟩ := struct_facts hwf
        -- size bound
        obtain ⟨st', _, inv, hs, _, _⟩ := run_struct (Abi.decls x86_64 (eraseF fs)) {} 0 hwf.1 ⟨rfl, by decide⟩ rfl
          (by simpa using hwf.2.2)
        have hLm : (Abi.layout x86_64 false false (Abi.decls x86_64 (eraseF fs))).members =
            (structGo false 0 (Abi.decls x86_64 (eraseF fs))).2 := by
          simp only [Abi.layout, Bool.false_eq_true, ↓reduceIte]
        have hLs : (Abi.layout x86_64 false false (Abi.decls x86_64 (eraseF fs))).size =
            roundUp (((structGo false 0 (Abi.decls x86_64 (eraseF fs))).1 + 7) / 8)
              (aggAlign x86_64 false (Abi.decls x86_64 (eraseF fs))) := by
          simp only [Abi.layout, Bool.false_eq_true, ↓reduceIte]
        have hLa : (Abi.layout x86_64 false false (Abi.decls x86_64 (eraseF fs))).align =
            aggAlign x86_64 false (Abi.decls x86_64 (eraseF fs)) := by
          simp only [Abi.layout, Bool.false_eq_true, ↓reduceIte]
        rw [hLm] at hch
        obtain ⟨t1, t2, t3⟩ := structGo_tight (Abi.decls x86_64 (eraseF fs)) 0 hwf.1 hok
        have mfs := memfacts_of_tight (c := 0) hwf.1 hok
        have hpw := pairwiseB_pairwise unitRel _ hch
        have hall3 := fields_itok fs l _ hfo t1 hok hint
        generalize hds : Abi.decls x86_64 (eraseF fs) = ds at *
        generalize hms : (structGo false 0 ds).2 = ms at *
        have hsz62 : ((structGo false 0 ds).1 + 7) / 8 ≤ st'.size := by
          have := inv.cur; have := inv.bits; omega
        have hLlt : (Abi.layout x86_64 false false ds).size < 2 ^ 63 := by
          rw [hLs]
          have := roundUp_lt (((structGo false 0 ds).1 + 7) / 8) hpal.pos
          have := hwf.2.2
          simp only [Nat.zero_add] at hs
          omega
        have hmb : ∀ m ∈ ms, m.offset + m.tsize ≤ (Abi.layout x86_64 false false ds).size := by
          intro m hm
          have pl := sf1 m (by rw [hLm]; exact hm)
          cases hw : m.width with
          | none =>
            have := ((t3 m hm).1 hw).2
            have := pl.inside
            omega
          | some w => exact (pl.unit w hw).2.1
        obtain ⟨d1, d2, d3, _⟩ := mkDMs_rel ms l (imgsOf fs) hall3 hpw hmb
        have hcol : emitStruct (mkDMs ms l) = collapse none (mkDMs ms l) :=
          emitStructF_collapse _ _ (Nat.le_refl _) d1 (fun x hx => ⟨(d3 x hx).1, by have := (d3 x hx).2; omega⟩)
        obtain ⟨r1, r2, r3, r4, r5⟩ := struct_place ms l (imgsOf fs) none none 0 0 hall3 t2 mfs hpw (Nat.le_refl _)
          (fun m _ => ⟨Nat.zero_le _, by simp⟩)
        have hfin := structGo_fin ds 0 0 hwf.1 hok (Nat.le_refl _)
        rw [hms] at hfin
        have hle : lastEnd 0 ms ≤ (Abi.layout x86_64 false false ds).size :=
          lastEnd_le ms 0 hmb (Nat.zero_le _)
        have hra : (place (collapse none (mkDMs ms l)) 0).align = aggAlign x86_64 false ds := by
          have h1 := alignOf_agg ds ms t1 hok
          have h2 : alignOf ms ≤ (place (collapse none (mkDMs ms l)) 0).align :=
            alignOf_le ms r4 (fun m hm => by
              rcases r5 m hm with ⟨_, _, h, _⟩ | h
              · cases h
              · exact h)
          omega
        have hrs : roundUp (lastEnd 0 ms) (aggAlign x86_64 false ds) = (Abi.layout x86_64 false false ds).size := by
          rw [hLs]
          apply roundUp_between hpal.pos
          · omega
          · rw [← hLs]; exact hle
        have hne := structGo_nonempty (c := 0) hwf.1 hwf.2.1
        rw [hms] at hne
        have hpos : 0 < (Abi.layout x86_64 false false ds).size := by
          cases ms with
          | nil => simp at hne
          | cons m ms' =>
            have := hmb m (List.mem_cons_self ..)
            have := all3_pos hall3 m (List.mem_cons_self ..)
            omega
        have hti : ti (.su false false fs) = mkTi (Abi.layout x86_64 false false ds) := by
          simp only [ti, erase, Abi.tinfo, hds, mkTi]
        have hnf : (ti (.su false false fs)).flexible = false := by
          rw [hti]; simp only [mkTi, Abi.layout, Bool.false_eq_true, ↓reduceIte]; exact hflex
        refine ⟨hwft, by rw [hstrip, hti]; exact hpos, by rw [hstrip, hti]; rfl, hnf, .struct (emitStruct (mkDMs ms l)), ?_, ?_, ?_⟩
        · simp only [emittype, hdecls, hl, hds, hlay, hLm, hms, Bool.false_eq_true, ↓reduceIte]
        · rw [hcol]
          simp only [info, hstrip, hti, mkTi, r1, r2, hra, hrs, hLa, flattenC, hds, Bool.not_false, Bool.and_self, hLm, hms]
          rw [flattenFields_flatL true fs ms none (by rw [hds]; exact hok)]
        · intro s' hs'; cases hs'
      | true =>
        have hlay := layout_union hwf
        obtain ⟨L', uL, um, ua, us, _, _, _⟩ := union_facts hwf
        rw [hlay] at uL
        have uL' : Abi.layout x86_64 true false (Abi.decls x86_64 (eraseF fs)) = L' := by
          injection uL
        subst uL'
        obtain ⟨m1, m2⟩ := unionMembers_declmem (Abi.decls x86_64 (eraseF fs)) hwf.1 hok
        rw [← um] at m1 m2
        have hall3 := fields_itok fs l _ hfo m1 hok hint
        generalize hds : Abi.decls x86_64 (eraseF fs) = ds at *
        generalize hms : (Abi.layout x86_64 true false ds).members = ms at *
        obtain ⟨r1, r2, r3⟩ := union_place ms l (imgsOf fs) none hall3 m2
        have h1 := alignOf_agg ds ms m1 hok
        have h2 := maxSize_union ds ms m1 hok
        have hne : ms.isEmpty = false := by
          rw [um]; exact unionMembers_nonempty hwf.1 hwf.2.1
        have hpos : 0 < (Abi.layout x86_64 true false ds).size := by
          cases ms with
          | nil => simp at hne
          | cons m ms' =>
            rw [us, ← h2]
            have h5 := le_roundUp (maxSize (m :: ms')) (a := (Abi.layout x86_64 true false ds).align) (by rw [ua]; exact hpal.pos)
            have h6 := all3_pos hall3 m (List.mem_cons_self ..)
            simp only [maxSize] at h5 ⊢
            omega
        have hti : ti (.su true false fs) = mkTi (Abi.layout x86_64 true false ds) := by
          simp only [ti, erase, Abi.tinfo, hds, mkTi]
        have hnf : (ti (.su true false fs)).flexible = false := by
          rw [hti]; simp only [mkTi, Abi.layout, ↓reduceIte]; exact hflex
        refine ⟨hwft, by rw [hstrip, hti]; exact hpos, by rw [hstrip, hti]; rfl, hnf, .union (emitUnion (mkDMs ms l)), ?_, ?_, ?_⟩
        · simp only [emittype, hdecls, hl, hds, hlay, hms, ↓reduceIte]
        · simp only [info, hstrip, hti, mkTi, r1, r2, r3, h1, h2, hal1, flattenC, hds, hms, Bool.not_true, Bool.and_false]
          rw [flattenFields_flatL false fs ms none (by rw [hds]; exact hok), us, ua]
        · intro s' hs'; cases hs'
  theorem pf : ∀ (fs : AFields), goodF fs = true → PF fs
    | .nil, _ => ⟨by simp only [eraseF, WfFields], [], by simp only [its], by simp only [FOk]⟩
    | .cons name ty al w rest, h => by
      simp only [goodF, Bool.and_eq_true] at h
      have pty := pt ty h.1
      have pr := pf rest h.2
      obtain ⟨l, hl, hfo⟩ := pr.its
      obtain ⟨q, q1, q2, q3⟩ := pty.desc
      refine ⟨by simp only [eraseF, WfFields]; exact ⟨pty.wf, pr.wf⟩, ?_⟩
      by_cases hprod : producesMember name w = true
      · refine ⟨⟨q, (ti (stripArr ty)).size, (ti ty).size⟩ :: l, ?_, ?_⟩
        · have e1 := tinfo_ok (erase ty) pty.wf
          have e2 := tinfo_ok (erase (stripArr ty)) (wf_strip ty pty.wf)
          simp only [its, hl, hprod, ↓reduceIte, q1, e1, e2, ti]
        · simp only [FOk, hprod, ↓reduceIte]
          exact ⟨_, _, rfl, ⟨rfl, rfl, pty.spos, q2, arrFacts ty h.1 pty.complete, pty.noflex, q3⟩, hfo⟩
      · refine ⟨l, ?_, ?_⟩
        · simp only [its, hl, hprod, Bool.false_eq_true, ↓reduceIte]
        · simp only [FOk, hprod, Bool.false_eq_true, ↓reduceIte]; exact hfo
end

end CprocVerif.AbiDesc

/-
  C01 — per-operator lemmas, continued: unary minus, constants, `convert`.
-/
import CprocVerif.Lemmas.LowerRep2

set_option linter.unusedSimpArgs false

namespace CprocVerif.LowerArith
open CprocVerif.Qbe CprocVerif.CSem CprocVerif.CInt CprocVerif.Lower

/-! ## Unary minus -/

theorem neg_w (sg : Bool) {a v : Int} {ra : RVal} (M : Mem) (va : Option ByteArray)
    (hra : WRep 32 a ra) (hv : un .neg ⟨32, sg⟩ a = some v) :
    ∃ r, execOp .neg (some .w) [ra] M va = .ok (r, M) ∧ WRep 32 v r := by
  obtain ⟨x, hx, hxa⟩ := hra
  have hxl := asW_lt hx
  have hv' := arith_mod32 sg hv
  refine ⟨_, exec_neg_w M va hx, _, rfl, ?_⟩
  show (((0 - x.toUInt32).toUInt64 &&& mask32).toNat : Int) % 2 ^ 32 = _
  have h0 : (0 : UInt32).toNat = 0 := by decide
  simp only [toNat_and_mask32, UInt32.toNat_toUInt64, UInt32.toNat_sub, UInt64.toNat_toUInt32, h0]
  omega

theorem neg_l (sg : Bool) {a v : Int} {ra : RVal} (M : Mem) (va : Option ByteArray)
    (hra : LRep a ra) (hv : un .neg ⟨64, sg⟩ a = some v) :
    ∃ r, execOp .neg (some .l) [ra] M va = .ok (r, M) ∧ LRep v r := by
  obtain ⟨x, hx, hxa⟩ := hra
  have hxl := x.toNat_lt
  have hv' := arith_mod64 sg hv
  refine ⟨_, exec_neg_l M va hx, _, rfl, ?_⟩
  have h0 : (0 : UInt64).toNat = 0 := by decide
  simp only [UInt64.toNat_sub, h0]
  omega

/-! ## Types -/

theorem size_cases (t : CSem.Ty) : t.size = 1 ∨ t.size = 2 ∨ t.size = 4 ∨ t.size = 8 := by
  cases t <;> simp [Ty.size]

theorem promoted_cases (cs : Bool) {t : CSem.Ty} (h : t.promoted = true) :
    (t.size = 4 ∧ t.intTy cs = ⟨32, t.signed cs⟩) ∨ (t.size = 8 ∧ t.intTy cs = ⟨64, t.signed cs⟩) := by
  cases t <;> simp [Ty.promoted] at h <;> simp [Ty.size, Ty.intTy]

theorem wrap_mod_ty (cs : Bool) {t : CSem.Ty} (h : t ≠ .bool) (z : Int) :
    wrap (t.intTy cs) z % 2 ^ (8 * t.size) = z % 2 ^ (8 * t.size) := by
  cases t <;> first | exact absurd rfl h | skip
  all_goals simp only [Ty.intTy, Ty.size, reduceCtorEq, if_false, Nat.reduceMul]
  all_goals first | exact wrap_mod8 _ _ | exact wrap_mod16 _ _ | exact wrap_mod32 _ _ | exact wrap_mod64 _ _

/-- The range of a type, by size and signedness. -/
theorem range_ty (cs : Bool) (t : CSem.Ty) {v : Int} (h : InRange (t.intTy cs) v) :
    (t = .bool → 0 ≤ v ∧ v ≤ 1) ∧
    (if t.signed cs then -2 ^ (8 * t.size - 1) ≤ v ∧ v < 2 ^ (8 * t.size - 1)
     else 0 ≤ v ∧ v < 2 ^ (8 * t.size)) := by
  cases t <;> try cases cs
  all_goals simp [Ty.intTy, Ty.size, Ty.signed, InRange, minVal, maxVal] at h ⊢
  all_goals omega

/-! ## Constants -/

theorem const_rep (cs : Bool) (t : CSem.Ty) (u : Nat) (hu : u < 2 ^ 64) (hb : t = .bool → u ≤ 1) :
    Rep t (wrap (t.intTy cs) (u : Int)) ⟨.c, UInt64.ofNat u⟩ := by
  have hn : (UInt64.ofNat u).toNat = u := by
    rw [UInt64.toNat_ofNat']; exact Nat.mod_eq_of_lt hu
  by_cases htb : t = .bool
  · subst htb
    have := hb rfl
    simp only [Rep, Ty.size, Nat.reduceEqDiff, if_false, Nat.reduceMul, WRep]
    refine ⟨_, rfl, ?_⟩
    rw [toNat_and_mask32, hn]
    simp only [Ty.intTy, wrap, if_true]
    split <;> omega
  · have hw := wrap_mod_ty cs htb (u : Int)
    rcases size_cases t with hs | hs | hs | hs <;> simp only [hs, Nat.reduceMul] at hw <;>
      simp only [Rep, hs, Nat.reduceEqDiff, if_false, if_true, Nat.reduceMul, WRep, LRep]
    · exact ⟨_, rfl, by rw [toNat_and_mask32, hn]; omega⟩
    · exact ⟨_, rfl, by rw [toNat_and_mask32, hn]; omega⟩
    · exact ⟨_, rfl, by rw [toNat_and_mask32, hn]; omega⟩
    · exact ⟨_, rfl, by rw [hn]; omega⟩

/-! ## `convert` -/

/-- narrowing (or same-size) conversion to a non-`_Bool` type: no instruction -/
theorem rep_narrow (cs : Bool) {src dst : CSem.Ty} {v : Int} {r : RVal} (hd : dst ≠ .bool)
    (hle : dst.size ≤ src.size) (h : Rep src v r) : Rep dst (wrap (dst.intTy cs) v) r := by
  have hw := wrap_mod_ty cs hd v
  rcases size_cases src with hs | hs | hs | hs <;> rcases size_cases dst with hd' | hd' | hd' | hd' <;>
    simp only [hs, hd', Nat.reduceLeDiff, Nat.le_refl] at hle <;>
    simp only [hd', Nat.reduceMul] at hw <;>
    simp only [Rep, hs, hd', Nat.reduceEqDiff, if_false, if_true, Nat.reduceMul, WRep, LRep] at h ⊢
  all_goals obtain ⟨x, hx, hxv⟩ := h
  -- src w
  any_goals (first | exact ⟨x, hx, by omega⟩ | skip)
  -- src l, dst w
  all_goals
    refine ⟨_, asW_of_asL hx, ?_⟩
    rw [toNat_and_mask32]
    omega

/-- `cnew v, 0` -/
theorem tobool_w {v : Int} {r0 : RVal} (M : Mem) (va : Option ByteArray) (hr : WRep 32 v r0)
    (hv : -2 ^ 31 ≤ v ∧ v < 2 ^ 32) :
    ∃ r, execOp (.cmpw .ne) (some .w) [r0, ⟨.c, 0⟩] M va = .ok (r, M) ∧
      BoolRes (decide (v ≠ 0)) r := by
  obtain ⟨x, hx, hxv⟩ := hr
  have hxl := asW_lt hx
  refine cmp_finish_w .ne M va hx (y := 0) rfl ?_
  simp only [icmp32, bne]
  have : (x.toUInt32 == (0 : UInt64).toUInt32) = decide (v = 0) := by
    rw [u32_beq]
    apply decide_eq_decide.2
    have h0 : (0 : UInt64).toNat = 0 := by decide
    rw [h0]
    omega
  rw [this]
  simp

/-- `cnel v, 0` -/
theorem tobool_l {v : Int} {r0 : RVal} (M : Mem) (va : Option ByteArray) (hr : LRep v r0)
    (hv : -2 ^ 63 ≤ v ∧ v < 2 ^ 64) :
    ∃ r, execOp (.cmpl .ne) (some .w) [r0, ⟨.c, 0⟩] M va = .ok (r, M) ∧
      BoolRes (decide (v ≠ 0)) r := by
  obtain ⟨x, hx, hxv⟩ := hr
  have hxl := x.toNat_lt
  refine cmp_finish_l .ne M va hx (y := 0) rfl ?_
  simp only [icmp64, bne]
  have : (x == (0 : UInt64)) = decide (v = 0) := by
    rw [u64_beq]
    apply decide_eq_decide.2
    have h0 : (0 : UInt64).toNat = 0 := by decide
    rw [h0]
    omega
  rw [this]
  simp

theorem mask32_toNat : mask32.toNat = 2 ^ 32 - 1 := by decide
theorem ff_toNat : (0xff : UInt64).toNat = 2 ^ 8 - 1 := by decide
theorem ffff_toNat : (0xffff : UInt64).toNat = 2 ^ 16 - 1 := by decide

/-- zero extension of the low byte / half-word (`extub`, `extuh`), result at class `w` -/
theorem zext8_w {v : Int} {r0 : RVal} (M : Mem) (va : Option ByteArray) (hr : WRep 8 v r0) :
    ∃ r, execOp .extub (some .w) [r0] M va = .ok (r, M) ∧ WRep 32 (v % 2 ^ 8) r := by
  obtain ⟨x, hx, hxv⟩ := hr
  refine ⟨_, exec_ext (o := .extub) rfl .w (Or.inl rfl) M va hx, _, rfl, ?_⟩
  simp only [if_true, UInt64.toNat_and, ff_toNat, mask32_toNat, Nat.and_two_pow_sub_one_eq_mod]
  omega

theorem zext16_w {v : Int} {r0 : RVal} (M : Mem) (va : Option ByteArray) (hr : WRep 16 v r0) :
    ∃ r, execOp .extuh (some .w) [r0] M va = .ok (r, M) ∧ WRep 32 (v % 2 ^ 16) r := by
  obtain ⟨x, hx, hxv⟩ := hr
  refine ⟨_, exec_ext (o := .extuh) rfl .w (Or.inl rfl) M va hx, _, rfl, ?_⟩
  simp only [if_true, UInt64.toNat_and, ffff_toNat, mask32_toNat,
    Nat.and_two_pow_sub_one_eq_mod]
  omega

/-- What a widening `ext*` instruction delivers: a representation of `v` at the full width of the
    result class. -/
def ExtRes (k : Cls) (v : Int) (r : RVal) : Prop :=
  (k = .l → LRep v r) ∧ (k = .w → WRep 32 v r)

theorem ext8 (sg : Bool) (k : Cls) (hk : k = .w ∨ k = .l) {v : Int} {r0 : RVal} (M : Mem)
    (va : Option ByteArray) (hr : WRep 8 v r0)
    (hv : if sg then -2 ^ 7 ≤ v ∧ v < 2 ^ 7 else 0 ≤ v ∧ v < 2 ^ 8) :
    ∃ r, execOp (if sg then .extsb else .extub) (some k) [r0] M va = .ok (r, M) ∧ ExtRes k v r := by
  obtain ⟨x, hx, hxv⟩ := hr
  have hxl := asW_lt hx
  cases sg <;> simp only [Bool.false_eq_true, if_false, if_true] at hv ⊢
  · refine ⟨_, exec_ext (o := .extub) rfl k hk M va hx, ?_⟩
    rcases hk with rfl | rfl
    · refine ⟨(fun h => by cases h), fun _ => ⟨_, rfl, ?_⟩⟩
      simp only [if_true, UInt64.toNat_and, ff_toNat, mask32_toNat,
        Nat.and_two_pow_sub_one_eq_mod]
      omega
    · refine ⟨fun _ => ⟨_, rfl, ?_⟩, fun h => by cases h⟩
      simp only [reduceCtorEq, if_false, UInt64.toNat_and, ff_toNat,
        Nat.and_two_pow_sub_one_eq_mod]
      omega
  · refine ⟨_, exec_ext (o := .extsb) rfl k hk M va hx, ?_⟩
    have hs := sext8 x
    rcases hk with rfl | rfl
    · refine ⟨(fun h => by cases h), fun _ => ⟨_, rfl, ?_⟩⟩
      simp only [if_true, UInt64.toNat_and, mask32_toNat, Nat.and_two_pow_sub_one_eq_mod]
      split at hs <;> omega
    · refine ⟨fun _ => ⟨_, rfl, ?_⟩, fun h => by cases h⟩
      simp only [reduceCtorEq, if_false]
      split at hs <;> omega

theorem ext16 (sg : Bool) (k : Cls) (hk : k = .w ∨ k = .l) {v : Int} {r0 : RVal} (M : Mem)
    (va : Option ByteArray) (hr : WRep 16 v r0)
    (hv : if sg then -2 ^ 15 ≤ v ∧ v < 2 ^ 15 else 0 ≤ v ∧ v < 2 ^ 16) :
    ∃ r, execOp (if sg then .extsh else .extuh) (some k) [r0] M va = .ok (r, M) ∧ ExtRes k v r := by
  obtain ⟨x, hx, hxv⟩ := hr
  have hxl := asW_lt hx
  cases sg <;> simp only [Bool.false_eq_true, if_false, if_true] at hv ⊢
  · refine ⟨_, exec_ext (o := .extuh) rfl k hk M va hx, ?_⟩
    rcases hk with rfl | rfl
    · refine ⟨(fun h => by cases h), fun _ => ⟨_, rfl, ?_⟩⟩
      simp only [if_true, UInt64.toNat_and, ffff_toNat, mask32_toNat,
        Nat.and_two_pow_sub_one_eq_mod]
      omega
    · refine ⟨fun _ => ⟨_, rfl, ?_⟩, fun h => by cases h⟩
      simp only [reduceCtorEq, if_false, UInt64.toNat_and, ffff_toNat,
        Nat.and_two_pow_sub_one_eq_mod]
      omega
  · refine ⟨_, exec_ext (o := .extsh) rfl k hk M va hx, ?_⟩
    have hs := sext16 x
    rcases hk with rfl | rfl
    · refine ⟨(fun h => by cases h), fun _ => ⟨_, rfl, ?_⟩⟩
      simp only [if_true, UInt64.toNat_and, mask32_toNat, Nat.and_two_pow_sub_one_eq_mod]
      split at hs <;> omega
    · refine ⟨fun _ => ⟨_, rfl, ?_⟩, fun h => by cases h⟩
      simp only [reduceCtorEq, if_false]
      split at hs <;> omega

theorem ext32 (sg : Bool) {v : Int} {r0 : RVal} (M : Mem)
    (va : Option ByteArray) (hr : WRep 32 v r0)
    (hv : if sg then -2 ^ 31 ≤ v ∧ v < 2 ^ 31 else 0 ≤ v ∧ v < 2 ^ 32) :
    ∃ r, execOp (if sg then .extsw else .extuw) (some .l) [r0] M va = .ok (r, M) ∧ LRep v r := by
  obtain ⟨x, hx, hxv⟩ := hr
  have hxl := asW_lt hx
  cases sg <;> simp only [Bool.false_eq_true, if_false, if_true] at hv ⊢
  · refine ⟨_, exec_ext (o := .extuw) rfl .l (Or.inr rfl) M va hx, _, rfl, ?_⟩
    simp only [reduceCtorEq, if_false, id]
    omega
  · refine ⟨_, exec_ext (o := .extsw) rfl .l (Or.inr rfl) M va hx, _, rfl, ?_⟩
    have hs := sext32 x
    simp only [reduceCtorEq, if_false]
    split at hs <;> omega

/-- a full-width representation is a representation at every type of that class -/
theorem rep_of_ext (cs : Bool) {dst : CSem.Ty} (hd : dst ≠ .bool) {v : Int} {r : RVal}
    (h : ExtRes (cls dst) v r) : Rep dst (wrap (dst.intTy cs) v) r := by
  have hw := wrap_mod_ty cs hd v
  rcases size_cases dst with hs | hs | hs | hs <;>
    simp only [hs, Nat.reduceMul] at hw <;>
    simp only [ExtRes, cls, hs, Nat.reduceEqDiff, if_false, if_true, reduceCtorEq, false_imp_iff,
      true_and, and_true, forall_const] at h <;>
    simp only [Rep, hs, Nat.reduceEqDiff, if_false, if_true, Nat.reduceMul]
  · obtain ⟨x, hx, hxv⟩ := h; exact ⟨x, hx, by omega⟩
  · obtain ⟨x, hx, hxv⟩ := h; exact ⟨x, hx, by omega⟩
  · obtain ⟨x, hx, hxv⟩ := h; exact ⟨x, hx, by omega⟩
  · obtain ⟨x, hx, hxv⟩ := h; exact ⟨x, hx, by omega⟩

end CprocVerif.LowerArith

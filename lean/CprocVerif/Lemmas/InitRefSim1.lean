import CprocVerif.Lemmas.InitRefMach3

/-!
# Vocabulary of the simulation `parseinit ⊑ InitRef.ref`
-/

namespace CprocVerif.InitSim
open CprocVerif.Init CprocVerif.Image CprocVerif.InitRef

/-- `a` is a final segment of `b` -/
inductive Suff : Items → Items → Prop
  | refl (a : Items) : Suff a a
  | tail {a rest : Items} (ds : List Desig) (i : Ini) : Suff a rest → Suff a (.cons ds i rest)

theorem Suff.trans {a b c : Items} (h1 : Suff a b) (h2 : Suff b c) : Suff a c := by
  induction h2 with
  | refl => exact h1
  | tail ds i _ ih => exact .tail ds i ih

theorem noDesigs_suff {a b : Items} (h : Suff a b) (hb : noDesigs b = true) : noDesigs a = true := by
  induction h with
  | refl => exact hb
  | tail ds i _ ih =>
    simp only [noDesigs, Bool.and_eq_true] at hb
    exact ih hb.2

/-- the reference returns a final segment of the items it was given -/
theorem suff_all (fuel : Nat) :
    (∀ pl ini rest st r, initOne fuel pl ini rest st = .ok r → Suff r.1 (.cons [] ini rest)) ∧
    (∀ pl pos its st r, contAgg fuel pl pos its st = .ok r → Suff r.1 its) ∧
    (∀ pl ps ds i rest st r, desigPath fuel pl ps ds i rest st = .ok r → Suff r.1 (.cons [] i rest)) := by
  induction fuel with
  | zero =>
    refine ⟨?_, ?_, ?_⟩
    · intro pl ini rest st r h; simp [initOne] at h
    · intro pl pos its st r h; simp [contAgg] at h
    · intro pl ps ds i rest st r h; simp [desigPath] at h
  | succ fuel ih =>
    obtain ⟨ih1, ih2, ih5⟩ := ih
    refine ⟨?_, ?_, ?_⟩
    · intro pl ini rest st r h
      cases ini with
      | list its =>
        rw [initOne.eq_2] at h
        split at h
        · cases h; exact .tail _ _ (.refl _)
        · cases h
      | expr e =>
        rcases expr_cases pl.ty e with ⟨size, k, hty⟩ | ⟨n, es, cls, sg, w, scls, cs, hty, rfl⟩ |
            ⟨isU, tag, size, ms, hty, rfl⟩ | he
        · rw [initOne.eq_3 _ _ _ _ _ _ _ hty] at h
          split at h
          · cases h; exact .tail _ _ (.refl _)
          · cases h
        · rw [initOne.eq_4 _ _ _ _ _ _ _ _ _ _ _ hty] at h
          split at h
          · cases h
          · cases h; exact .tail _ _ (.refl _)
        · rw [initOne.eq_5 _ _ _ _ _ _ _ _ _ hty, if_pos rfl] at h
          cases h; exact .tail _ _ (.refl _)
        · rw [initOne_elide he] at h
          exact ih2 _ _ _ _ _ h
    · intro pl pos its st r h
      cases its with
      | nil => rw [contAgg.eq_2] at h; cases h; exact .refl _
      | cons ds i rest =>
        cases ds with
        | cons d ds => rw [contAgg.eq_3] at h; cases h; exact .refl _
        | nil =>
          rw [contAgg.eq_4] at h
          split at h
          · cases h; exact .refl _
          · split at h
            · rename_i rest' st' h1
              exact (ih2 _ _ _ _ _ h).trans (ih1 _ _ _ _ _ h1)
            · cases h
    · intro pl ps ds i rest st r h
      cases ps with
      | nil =>
        cases ds with
        | nil => rw [desigPath.eq_2] at h; exact ih1 _ _ _ _ _ h
        | cons d ds =>
          rw [desigPath.eq_3] at h
          split at h
          · cases h
          · split at h
            · cases h
            · exact ih5 _ _ _ _ _ _ _ h
      | cons p ps =>
        rw [desigPath.eq_4] at h
        split at h
        · cases h
        · split at h
          · rename_i rest' st' h1
            exact (ih2 _ _ _ _ _ h).trans (ih5 _ _ _ _ _ _ _ h1)
          · cases h

end CprocVerif.InitSim

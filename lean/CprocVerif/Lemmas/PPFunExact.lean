import CprocVerif.Lemmas.PPFunStep

/-! # Exact (white space included) agreement of lazy substitution with the reference's `subst`,
when no argument is empty and the replacement list has no `#` -/

namespace CprocVerif.PP
open CprocVerif.Gen.TokenKinds
open CprocVerif.Spec.MacroRef (HTok Item PTok MacroDef RErr Flag Elem expandH hsadd union pendItems lookup
  matchParen splitTop subst elems paramIndex)
open CprocVerif.Spec

theorem map_mkH_respace (h : List Name) (l : List Tok) (sp : Bool) :
    (respace l sp).map (mkH h) = (MacroRef.respace (l.map (mkH h)) sp).1 := by
  cases l <;> simp [respace, MacroRef.respace, mkH, toP]

theorem respace_snd_of_ne_nil {l : List HTok} (sp : Bool) (h : l ≠ []) : (MacroRef.respace l sp).2 = false := by
  cases l with
  | nil => exact absurd rfl h
  | cons a r => rfl

theorem substBody_exact (m : Macro) (md : MacroDef) (hf : md.func = true)
    (hidx : ∀ t : Tok, paramIndex md (toP t) = macroparam m.params t)
    (raw full : Nat → List HTok) :
    ∀ (body : List Tok), ((∀ t ∈ body, t.kind ≠ .THASH) ∧
        (∀ t ∈ body, ∀ i, macroparam m.params t = some i →
          ((m.args.getD i default).toks).map (mkH []) = full i ∧ (m.args.getD i default).toks ≠ [])) →
      (substBody m body).map (mkH []) = subst raw full (elems md (body.map toP)) false := by
  intro body
  have hone : ∀ (t : Tok), (∀ i, macroparam m.params t = some i →
          ((m.args.getD i default).toks).map (mkH []) = full i ∧ (m.args.getD i default).toks ≠ []) →
      ∀ rest : List Elem, ∀ R : List Tok, R.map (mkH []) = subst raw full rest false →
      ((if t.kind = .TIDENT then
          match macroparam m.params t with
          | some i => respace (m.args.getD i default).toks t.space
          | none => [t]
        else [t]) ++ R).map (mkH []) =
      subst raw full (MacroRef.elemOf md (toP t) :: rest) false := by
    intro t hargs rest R hR
    unfold MacroRef.elemOf
    simp only [hf, ↓reduceIte, hidx]
    have hkey : mkH [] t = ⟨{ toP t with space := (toP t).space || false }, [], false⟩ := by
      simp [mkH, toP]
    by_cases hk : t.kind = .TIDENT
    · simp only [hk, ↓reduceIte]
      cases hp : macroparam m.params t with
      | none =>
        simp only [subst, List.cons_append, List.nil_append, List.map_cons]
        rw [hR, hkey]
      | some i =>
        obtain ⟨h1, h2⟩ := hargs i hp
        have hne : full i ≠ [] := by
          rw [← h1]; intro hh; exact h2 (List.map_eq_nil_iff.mp hh)
        simp only [subst, List.map_append, map_mkH_respace, h1, Bool.or_false]
        rw [respace_snd_of_ne_nil _ hne, hR]
        rfl
    · have : macroparam m.params t = none := by unfold macroparam; simp [hk]
      simp only [hk, ↓reduceIte, this, subst, List.cons_append, List.nil_append, List.map_cons]
      rw [hR, hkey]
  fun_induction substBody m body
  · intro _; simp [elems, subst]
  case case2 t hk i hp =>
    intro hb
    have := hone t (hb.2 t (List.mem_cons_self ..)) [] [] (by rfl)
    simp only [hk, ↓reduceIte, hp, List.append_nil] at this
    simpa [elems] using this
  case case3 t hk hp =>
    intro hb
    have := hone t (hb.2 t (List.mem_cons_self ..)) [] [] (by rfl)
    simp only [hk, ↓reduceIte, hp, List.append_nil] at this
    simpa [elems] using this
  case case4 t hk =>
    intro hb
    have := hone t (hb.2 t (List.mem_cons_self ..)) [] [] (by rfl)
    simp only [hk, ↓reduceIte, List.append_nil] at this
    simpa [elems] using this
  case case5 t u r hh i hp ih =>
    intro hb
    exact absurd hh (hb.1 t (List.mem_cons_self ..))
  case case6 t u r hh hp ih =>
    intro hb
    exact absurd hh (hb.1 t (List.mem_cons_self ..))
  case case7 t u r hh hk i hp ih =>
    intro hb
    have hr := ih ⟨fun x hx => hb.1 x (List.mem_cons_of_mem _ hx), fun x hx => hb.2 x (List.mem_cons_of_mem _ hx)⟩
    have he : elems md (List.map toP (t :: u :: r)) = MacroRef.elemOf md (toP t) :: elems md (List.map toP (u :: r)) := by
      simp only [List.map_cons]
      rw [elems]
      have : (toP t).kind ≠ .THASH := hh
      simp only [this, and_false, ↓reduceIte]
    rw [he]
    have := hone t (hb.2 t (List.mem_cons_self ..)) _ _ hr
    simp only [hk, ↓reduceIte, hp] at this
    exact this
  case case8 t u r hh hk hp ih =>
    intro hb
    have hr := ih ⟨fun x hx => hb.1 x (List.mem_cons_of_mem _ hx), fun x hx => hb.2 x (List.mem_cons_of_mem _ hx)⟩
    have he : elems md (List.map toP (t :: u :: r)) = MacroRef.elemOf md (toP t) :: elems md (List.map toP (u :: r)) := by
      simp only [List.map_cons]
      rw [elems]
      have : (toP t).kind ≠ .THASH := hh
      simp only [this, and_false, ↓reduceIte]
    rw [he]
    have := hone t (hb.2 t (List.mem_cons_self ..)) _ _ hr
    simp only [hk, ↓reduceIte, hp, List.cons_append, List.nil_append] at this
    exact this
  case case9 t u r hh hk ih =>
    intro hb
    have hr := ih ⟨fun x hx => hb.1 x (List.mem_cons_of_mem _ hx), fun x hx => hb.2 x (List.mem_cons_of_mem _ hx)⟩
    have he : elems md (List.map toP (t :: u :: r)) = MacroRef.elemOf md (toP t) :: elems md (List.map toP (u :: r)) := by
      simp only [List.map_cons]
      rw [elems]
      have : (toP t).kind ≠ .THASH := hh
      simp only [this, and_false, ↓reduceIte]
    rw [he]
    have := hone t (hb.2 t (List.mem_cons_self ..)) _ _ hr
    simp only [hk, ↓reduceIte, List.cons_append, List.nil_append] at this
    exact this


theorem pendItems_false (l : List Item) : pendItems false l = l := by
  unfold pendItems
  split
  · simp [MacroRef.pend]
  · rfl

theorem hsadd_mkH (h : List Name) (l : List Tok) : hsadd h (l.map (mkH [])) = l.map (mkH h) := by
  unfold hsadd
  simp only [List.map_map]
  apply List.map_congr_left
  intro t _
  simp [mkH, union]

theorem substBody_ne_nil (m : Macro) (body : List Tok) (hb : body ≠ []) (hnh : ∀ t ∈ body, t.kind ≠ .THASH)
    (hne : ∀ t ∈ body, ∀ i, macroparam m.params t = some i → (m.args.getD i default).toks ≠ []) :
    substBody m body ≠ [] := by
  cases body with
  | nil => exact absurd rfl hb
  | cons t more =>
    have hh := hnh t (List.mem_cons_self ..)
    by_cases hk : t.kind = .TIDENT
    · cases hp : macroparam m.params t with
      | none => rw [substBody_plain m t more hh (fun _ => hp)]; simp
      | some i =>
        rw [substBody_param m t more i hk hp]
        have := hne t (List.mem_cons_self ..) i hp
        cases ha : (m.args.getD i default).toks with
        | nil => exact absurd ha this
        | cons a as => simp [respace]
    · rw [substBody_plain m t more hh (fun h => absurd h hk)]; simp

theorem substBody_respace_exact (m : Macro) (body : List Tok) (sp : Bool) (hnh : ∀ t ∈ body, t.kind ≠ .THASH)
    (hne : ∀ t ∈ body, ∀ i, macroparam m.params t = some i → (m.args.getD i default).toks ≠ []) :
    substBody m (respace body sp) = respace (substBody m body) sp := by
  cases body with
  | nil => rfl
  | cons t more =>
    have hh := hnh t (List.mem_cons_self ..)
    simp only [respace]
    generalize ht' : ({ t with space := sp } : Tok) = t'
    have hk' : t'.kind = t.kind := by rw [← ht']
    have hl' : t'.lit = t.lit := by rw [← ht']
    have hsp' : t'.space = sp := by rw [← ht']
    have hmp : macroparam m.params t' = macroparam m.params t := by unfold macroparam; rw [hk', hl']
    have hh' : t'.kind ≠ .THASH := by rw [hk']; exact hh
    by_cases hk : t.kind = .TIDENT
    · have hkt : t'.kind = .TIDENT := by rw [hk']; exact hk
      cases hp : macroparam m.params t with
      | none =>
        rw [substBody_plain m t' more hh' (fun _ => by rw [hmp]; exact hp), substBody_plain m t more hh (fun _ => hp)]
        simp [respace, ← ht']
      | some i =>
        rw [substBody_param m t' more i hkt (by rw [hmp]; exact hp), substBody_param m t more i hk hp]
        have := hne t (List.mem_cons_self ..) i hp
        cases ha : (m.args.getD i default).toks with
        | nil => exact absurd ha this
        | cons a as => simp [respace, hsp']
    · have hkt : t'.kind ≠ .TIDENT := by rw [hk']; exact hk
      rw [substBody_plain m t' more hh' (fun h => absurd h hkt), substBody_plain m t more hh (fun h => absurd h hk)]
      simp [respace, ← ht']

theorem funclike_step_exact (F : Macro) (T lp : Tok) (r : List Tok) (st : St) (args : List (List Tok)) (rest : List Tok)
    (hsf : SimpleFun F) (hbne : F.body ≠ []) (hane : ∀ a ∈ args, a ≠ [])
    (hctx : st.ctx = []) (hprag : st.prag = false) (hTk : T.kind = .TIDENT) (hTh : T.hide = false)
    (hget : macroget st.macros (T.lit.getD []) = some F) (hFh : F.hide = false)
    (hraw : st.raw = lp :: r) (hlp : lp.kind = .TLPAREN)
    (hcol : collect F.params 0 0 [] [] r = .ok (args, rest))
    (hpl : PlainFor st.macros r (collect F.params 0 0 [] [] r)) :
    ∃ seg rp, r = seg ++ rp :: rest ∧ rp.kind = .TRPAREN ∧ (∀ x ∈ seg ++ [rp], PlainTok st.macros x) ∧
    ∃ n s2, exec n (.expand T) st = .ok s2 ∧ s2.rb = true ∧ s2.raw = rest ∧
      s2.ctx = [⟨respace F.body T.space, some F.name⟩] ∧
      s2.macros = setHide (setArgs st.macros F.name (List.zipWith mkArg F.params args)) F.name true ∧
      s2.depth = st.depth + 1 ∧ s2.ppnl = st.ppnl ∧ s2.prag = st.prag ∧
      (flat s2.macros s2.ctx).map (mkH [F.name]) =
        (MacroRef.respace (hsadd [F.name]
          (subst (fun i => (splitTop (seg.length + 1) 0 (seg.map hT) []).getD i [])
                 (fun i => (splitTop (seg.length + 1) 0 (seg.map hT) []).getD i [])
                 (elems (toDefF F) (toDefF F).body) false)) T.space).1 ∧
      (MacroRef.respace (hsadd [F.name]
          (subst (fun i => (splitTop (seg.length + 1) 0 (seg.map hT) []).getD i [])
                 (fun i => (splitTop (seg.length + 1) 0 (seg.map hT) []).getD i [])
                 (elems (toDefF F) (toDefF F).body) false)) T.space).2 = false ∧
      ∀ (K : Nat) (X : List Item), seg.length < K →
        outKeys (expandH false (K + 1) (tblF st.macros)
            (.tok (mkH [] T) :: .tok (mkH [] lp) :: (seg.map iT ++ iT rp :: X))) =
          outKeys (expandH false K (tblF st.macros)
            ((MacroRef.respace (hsadd [F.name]
                (subst (fun i => (splitTop (seg.length + 1) 0 (seg.map hT) []).getD i [])
                       (fun i => (splitTop (seg.length + 1) 0 (seg.map hT) []).getD i [])
                       (elems (toDefF F) (toDefF F).body) false)) T.space).1.map Item.tok ++ X)) := by
  have hvl : VarLast F.params := fun j _ => getD_novar hsf.novar j
  obtain ⟨seg, rp, hr, hrp, hmp, hsplit⟩ := collect_specX F.params hvl r 0 0 [] [] args rest hsf.nonempty hcol
  have hlen := collect_length F.params r 0 0 [] [] args rest rfl hsf.nonempty hcol
  have hsl : splitsLeft F.params 0 seg = seg.length + 1 := by
    unfold splitsLeft; rw [getD_novar hsf.novar]; simp
  simp only [List.reverse_nil, List.map_nil, List.nil_append, hsl] at hsplit
  have hA : splitTop (seg.length + 1) 0 (seg.map hT) [] = args.map (·.map hT) := hsplit.symm
  have hplseg : ∀ x ∈ seg ++ [rp], PlainTok st.macros x := by
    intro x hx
    rw [hcol] at hpl
    apply hpl
    have h1 : r.length - rest.length = (seg ++ [rp]).length := by rw [hr]; simp; omega
    have h2 : r = (seg ++ [rp]) ++ rest := by rw [hr]; simp
    rw [h1, h2, List.take_left' rfl]
    exact hx
  refine ⟨seg, rp, hr, hrp, hplseg, ?_⟩
  obtain ⟨n, s2, hex, hrb, hraw2, hctx2, hmac2, hdep2, hpp2, hpg2⟩ :=
    expand_funclike F T lp r st args rest hctx hprag hTk hTh hget hFh hsf.func hsf.nonempty hraw hlp hcol hpl
  -- the substituted replacement list, exactly
  have hexact : (flat s2.macros s2.ctx).map (mkH [F.name]) =
      (MacroRef.respace (hsadd [F.name]
        (subst (fun i => (splitTop (seg.length + 1) 0 (seg.map hT) []).getD i [])
               (fun i => (splitTop (seg.length + 1) 0 (seg.map hT) []).getD i [])
               (elems (toDefF F) (toDefF F).body) false)) T.space).1 ∧
      (subst (fun i => (splitTop (seg.length + 1) 0 (seg.map hT) []).getD i [])
               (fun i => (splitTop (seg.length + 1) 0 (seg.map hT) []).getD i [])
               (elems (toDefF F) (toDefF F).body) false) ≠ [] := by
    have hname := (macroget_mem hget).2
    have hF' : macroget s2.macros F.name = some { F with args := List.zipWith mkArg F.params args, hide := true } := by
      rw [hmac2, macroget_setHide, macroget_setArgs, hname, hget]
      simp [hname]
    rw [hctx2]
    have hfr : frameToks s2.macros ⟨respace F.body T.space, some F.name⟩ =
        substBody { F with args := List.zipWith mkArg F.params args, hide := true } (respace F.body T.space) := by
      unfold frameToks
      simp only [Option.bind_some, hF']
      exact if_pos hsf.func
    simp only [flat, hfr, List.append_nil]
    have hcond : ∀ t ∈ F.body, ∀ i, macroparam F.params t = some i →
        (((List.zipWith mkArg F.params args).getD i default).toks).map (mkH []) =
          (splitTop (seg.length + 1) 0 (seg.map hT) []).getD i [] ∧
        ((List.zipWith mkArg F.params args).getD i default).toks ≠ [] := by
      intro t ht i hi
      have hilt : i < F.params.length := macroparam_lt hi
      have hftok := hsf.ftok t ht i hi
      have hila : i < args.length := by omega
      have hzip : (List.zipWith mkArg F.params args).getD i default = mkArg (F.params.getD i default) (args.getD i []) := by
        simp [List.getD_eq_getElem?_getD, List.getElem?_zipWith, hilt, hila]
      have hmemA : args.getD i [] ∈ args := by
        have : args.getD i [] = args[i] := by simp [List.getD_eq_getElem?_getD, hila]
        rw [this]; exact List.getElem_mem hila
      rw [hzip, hA]
      simp only [mkArg, hftok, ↓reduceIte]
      have : (args.map (·.map hT)).getD i [] = (args.getD i []).map hT := by
        simp [List.getD_eq_getElem?_getD, hila]
      rw [this]
      refine ⟨?_, ?_⟩
      · simp only [List.map_map]
        apply List.map_congr_left
        intro x _
        simp only [Function.comp, hT, mkH, toP]
        unfold paint
        split <;> rfl
      · intro hh
        exact hane _ hmemA (List.map_eq_nil_iff.mp hh)
    have hb : (toDefF F).body = F.body.map toP := rfl
    have hsub := substBody_exact { F with args := List.zipWith mkArg F.params args, hide := true } (toDefF F) hsf.func
      (fun t => paramIndex_toDefF F t)
      (fun i => (splitTop (seg.length + 1) 0 (seg.map hT) []).getD i [])
      (fun i => (splitTop (seg.length + 1) 0 (seg.map hT) []).getD i []) F.body ⟨hsf.nohash, hcond⟩
    have hne : substBody { F with args := List.zipWith mkArg F.params args, hide := true } F.body ≠ [] :=
      substBody_ne_nil { F with args := List.zipWith mkArg F.params args, hide := true } F.body hbne hsf.nohash (fun t ht i hi => (hcond t ht i hi).2)
    rw [substBody_respace_exact { F with args := List.zipWith mkArg F.params args, hide := true } F.body T.space hsf.nohash (fun t ht i hi => (hcond t ht i hi).2), map_mkH_respace,
      ← hsadd_mkH, hsub]
    refine ⟨by rw [hb], ?_⟩
    rw [hb, ← hsub]
    intro hh
    exact hne (List.map_eq_nil_iff.mp hh)
  refine ⟨n, s2, hex, hrb, hraw2, hctx2, hmac2, hdep2, hpp2, hpg2, hexact.1, ?_, ?_⟩
  · apply respace_snd_of_ne_nil
    intro hh
    apply hexact.2
    unfold hsadd at hh
    exact List.map_eq_nil_iff.mp hh
  · intro K X hK
    have hseglen : (seg.map hT).length = seg.length := List.length_map ..
    have hkeyl : (seg.map hT).map Item.tok = seg.map iT := by rw [List.map_map]; rfl
    have hl : lookup (tblF st.macros) ((mkH [] T).tok.lit.getD []) = some (toDefF F) := by
      rw [lookup_tblF]; show (macroget st.macros (T.lit.getD [])).map toDefF = _; rw [hget]; rfl
    have hplseg : ∀ x ∈ seg, PlainTok st.macros x := by
      intro x hx
      rw [hcol] at hpl
      apply hpl
      have h1 : r.length - rest.length = (seg ++ [rp]).length := by rw [hr]; simp; omega
      have h2 : r = (seg ++ [rp]) ++ rest := by rw [hr]; simp
      rw [h1, h2, List.take_left' rfl]
      exact List.mem_append_left _ hx
    have := expandH_func_step (tblF st.macros) (toDefF F) (mkH [] T) (mkH [] lp) (hT rp) (seg.map hT) X K
      hTk rfl rfl hl hsf.func rfl (by simp [toDefF]; exact hsf.nonempty) hlp rfl
      (by have := hmp X; rw [hkeyl]; exact this)
      (by rw [hseglen, hA]; simp [toDefF, hlen])
      (by
        intro t ht
        obtain ⟨x, hx, rfl⟩ := List.mem_map.mp ht
        refine ⟨?_, rfl⟩
        by_cases hk : x.kind = .TIDENT
        · right
          show lookup (tblF st.macros) (x.lit.getD []) = none
          rw [lookup_tblF, (hplseg x hx).2.2.2.2 hk]; rfl
        · left; exact hk)
      (by rw [hseglen]; exact hK)
    rw [hseglen, hkeyl] at this
    refine Eq.trans this ?_
    have hb2 : (MacroRef.respace (hsadd [F.name]
                (subst (fun i => (splitTop (seg.length + 1) 0 (seg.map hT) []).getD i [])
                       (fun i => (splitTop (seg.length + 1) 0 (seg.map hT) []).getD i [])
                       (elems (toDefF F) (toDefF F).body) false)) T.space).2 = false := by
      apply respace_snd_of_ne_nil
      intro hh
      apply hexact.2
      unfold hsadd at hh
      exact List.map_eq_nil_iff.mp hh
    show outKeys (expandH false K (tblF st.macros) (_ ++ pendItems (MacroRef.respace _ (mkH [] T).tok.space).2 X)) = _
    have hsp : (mkH [] T).tok.space = T.space := rfl
    have hnm : (toDefF F).name = F.name := rfl
    rw [hsp, hnm, hb2, pendItems_false]


end CprocVerif.PP

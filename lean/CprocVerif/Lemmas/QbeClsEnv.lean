/-
  C03, classes — the run-time typing invariant of environments, and the typing of the pieces of
  the machine that read and bind temporaries: operands, phis, parameters, call results, returns.
-/
import CprocVerif.Lemmas.QbeClsWf
import CprocVerif.Lemmas.QbeClsOp

namespace CprocVerif.C03.Cls
open CprocVerif.Qbe

/-! ## Ends that are not class mismatches -/

theorem not_classStuck_of_not_clsErr {e : OpErr} (h : ¬ ClsErr e) : ¬ ClassStuck e.toEnd :=
  fun hc => h (classStuck_toEnd hc)

theorem not_classStuck_stuck {r : StuckReason} (h : ∀ s, r ≠ .other s) :
    ¬ ClassStuck (.stuck r) := by
  rintro ⟨w, _, he⟩
  simp only [OpErr.toEnd, End.stuck.injEq] at he
  exact h _ he

theorem not_classStuck_ret (v : RetVal) : ¬ ClassStuck (.ret v) := by
  rintro ⟨w, _, he⟩; simp [OpErr.toEnd] at he
theorem not_classStuck_trap (v : String) : ¬ ClassStuck (.trap v) := by
  rintro ⟨w, _, he⟩; simp [OpErr.toEnd] at he
theorem not_classStuck_unknownExtern (v : String) : ¬ ClassStuck (.unknownExtern v) := by
  rintro ⟨w, _, he⟩; simp [OpErr.toEnd] at he
theorem not_classStuck_fuel : ¬ ClassStuck .fuel := by
  rintro ⟨w, _, he⟩; simp [OpErr.toEnd] at he

theorem not_classStuck_noFunc (name : String) :
    ¬ ClassStuck (.stuck (.other ("no such function: " ++ name))) := by
  rintro ⟨w, _, he⟩
  simp only [OpErr.toEnd, End.stuck.injEq, StuckReason.other.injEq] at he
  have := congrArg String.toList he
  simp [String.toList_append] at this

/-- `"unknown aggregate type :" ++ t` is not a class message. -/
theorem not_cls_unknownAgg (t : String) :
    ¬ ClsErr (.mismatch ("unknown aggregate type :" ++ t)) := by
  rintro ⟨w, hw, he⟩
  simp only [OpErr.mismatch.injEq] at he
  have h2 : (w.toList.take 2) = ['u', 'n'] := by
    rw [← he]
    simp [String.toList_append]
  have hall : ∀ w ∈ classMsgs, w.toList.take 2 ≠ ['u', 'n'] := by decide
  exact hall w hw h2

/-! ## Typed environments -/

/-- **The typing invariant.**  Every bound temporary holds a value whose kind is that of the
    temporary's class in the static class map `tc` — or the undefined result of a call whose callee
    returned no value. -/
def EnvTyped (tc : ClsMap) (env : Env) : Prop :=
  ∀ (t : String) (v : RVal) (c : Cls), env[t]? = some v → tc[t]? = some c →
    v.kind = c.kind ∨ v.kind = Kind.u

theorem envTyped_empty (tc : ClsMap) : EnvTyped tc {} := by
  intro t v c h
  simp at h

theorem envTyped_insert {tc : ClsMap} {env : Env} (h : EnvTyped tc env) {x : String} {v : RVal}
    (hv : ∀ c, tc[x]? = some c → v.kind = c.kind ∨ v.kind = .u) :
    EnvTyped tc (env.insert x v) := by
  intro t v' c ht hc
  rw [Std.HashMap.getElem?_insert] at ht
  split at ht
  · rename_i hx
    have : x = t := by simpa using hx
    subst this
    cases ht
    exact hv c hc
  · exact h t v' c ht hc

/-- Kind of a class determines the class. -/
theorem Cls.kind_inj {a b : Cls} (h : a.kind = b.kind) : a = b := by
  cases a <;> cases b <;> first | rfl | cases h

theorem kindOk_self (k : Cls) : kindOk k k.kind = true := by cases k <;> rfl
theorem kindOk_u (k : Cls) : kindOk k .u = true := by cases k <;> rfl

/-- An operand that `argOk` accepts at class `k` evaluates to a value readable at class `k`. -/
theorem readVal_kind {p : Prog} {tc : ClsMap} {env : Env} (h : EnvTyped tc env) {k : Cls}
    {v : Val} {r : RVal} (ha : argOk tc k v = true) (hr : readVal p env v = .ok r) :
    kindOk k r.kind = true := by
  cases v with
  | tmp t =>
    simp only [readVal] at hr
    split at hr
    · rename_i v' hv'
      cases hr
      simp only [argOk] at ha
      split at ha
      · rename_i c hc
        rcases h t r c hv' hc with hk | hk
        · rw [hk]
          simp only [Bool.or_eq_true, beq_iff_eq, Bool.and_eq_true] at ha
          rcases ha with ha | ⟨ha1, ha2⟩
          · subst ha; exact kindOk_self _
          · subst ha1; subst ha2; rfl
        · rw [hk]; exact kindOk_u _
      · cases ha
    · cases hr
  | glob n th =>
    simp only [readVal] at hr
    cases hr
    simp only [argOk, beq_iff_eq] at ha
    subst ha; rfl
  | int n =>
    simp only [readVal] at hr
    cases hr
    simp only [argOk, Bool.or_eq_true, beq_iff_eq] at ha
    rcases ha with ha | ha <;> subst ha <;> rfl
  | fs b =>
    simp only [readVal] at hr
    cases hr
    simp only [argOk, beq_iff_eq] at ha
    subst ha; rfl
  | fd b =>
    simp only [readVal] at hr
    cases hr
    simp only [argOk, beq_iff_eq] at ha
    subst ha; rfl

theorem readVals_kinds {p : Prog} {tc : ClsMap} {env : Env} (h : EnvTyped tc env) {ks : List Cls}
    {vs : List Val} {rs : List RVal} (ha : argsOk tc ks vs = true)
    (hr : readVals p env vs = .ok rs) : kindsOk ks rs = true := by
  induction vs generalizing ks rs with
  | nil =>
    cases ks with
    | nil => simp only [readVals] at hr; cases hr; rfl
    | cons k ks => simp [argsOk] at ha
  | cons v vs ih =>
    cases ks with
    | nil => simp [argsOk] at ha
    | cons k ks =>
      simp only [argsOk, Bool.and_eq_true] at ha
      simp only [readVals] at hr
      split at hr
      · cases hr
      · rename_i r hrv
        split at hr
        · cases hr
        · rename_i rs' hrs
          cases hr
          simp only [kindsOk, Bool.and_eq_true]
          exact ⟨readVal_kind h ha.1 hrv, ih ha.2 hrs⟩

/-- Typed call arguments: the evaluated arguments paired with the types the call site names. -/
theorem zipTys_typed {p : Prog} {tc : ClsMap} {env : Env} (h : EnvTyped tc env)
    {args : List (Ty × Val)} {avs : List RVal} (ha : ∀ a ∈ args, argOk tc a.1.cls a.2 = true)
    (hr : readVals p env (args.map (·.2)) = .ok avs) :
    avs.length = args.length ∧ (zipTys args avs).map (·.1) = args.map (·.1) ∧
    ∀ a ∈ zipTys args avs, kindOk a.1.cls a.2.kind = true := by
  induction args generalizing avs with
  | nil =>
    simp only [List.map_nil, readVals] at hr
    cases hr
    simp [zipTys]
  | cons a args ih =>
    obtain ⟨t, v⟩ := a
    simp only [List.map_cons, readVals] at hr
    split at hr
    · cases hr
    · rename_i r hrv
      split at hr
      · cases hr
      · rename_i rs' hrs
        cases hr
        obtain ⟨h1, h2, h3⟩ := ih (fun a ha' => ha a (by simp [ha'])) hrs
        refine ⟨by simp [h1], by simp [zipTys, h2], ?_⟩
        intro a ha'
        simp only [zipTys, List.mem_cons] at ha'
        rcases ha' with rfl | ha'
        · exact readVal_kind h (ha (t, v) (by simp)) hrv
        · exact h3 a ha'

end CprocVerif.C03.Cls

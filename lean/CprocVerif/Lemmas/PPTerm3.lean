import CprocVerif.Lemmas.PPTerm2

/-! # Termination for tables with function-like macros, part 3: `next()` and the whole run complete -/

namespace CprocVerif.PP
open CprocVerif.Gen.TokenKinds
open CprocVerif.Spec.MacroRef (HTok Item PTok MacroDef lookup)
open CprocVerif.Spec

/-- the run from `st` completes with some amount of fuel -/
def RunTot (st : St) : Prop := ∃ n, (run n st).2 = none

/-- `next()` completes from `st`, and so does the run from the state it leaves (unless it delivered
the end of the input) -/
def NextTot (st : St) : Prop := ∃ n st', exec n .next st = .ok st' ∧ (st'.tok.kind = .TEOF ∨ RunTot st')

theorem runTot_of_nextTot {st : St} (h : NextTot st) : RunTot st := by
  obtain ⟨n1, st', h1, h2⟩ := h
  rcases h2 with he | ⟨n2, h2⟩
  · refine ⟨n1 + 1, ?_⟩
    unfold run
    rw [h1]
    simp [he]
  · refine ⟨max n1 n2 + 1, ?_⟩
    unfold run
    rw [liftOk h1 (Nat.le_max_left ..)]
    simp only
    split
    · rfl
    · have : run (max n1 n2) st' = run n2 st' := by
        obtain ⟨d, hd⟩ := Nat.exists_eq_add_of_le (Nat.le_max_right n1 n2)
        rw [hd]
        exact run_mono n2 d st' (by rw [h2]; intro hh; cases hh)
      rw [this]; exact h2

theorem nextTot_again {st s1 s2 : St} {k1 k2 : Nat} (hr : exec k1 .rawnext st = .ok s1)
    (he : exec k2 (.expand s1.rt) s1 = .ok s2) (ha : s2.rb = true ∨ (s2.rt.kind = .TNEWLINE ∧ s2.ppnl = false))
    (h : NextTot s2) : NextTot st := by
  obtain ⟨n, st', hn, hrest⟩ := h
  refine ⟨max (max k1 k2) n + 1, st', ?_, hrest⟩
  show nextBody (exec (max (max k1 k2) n)) st = .ok st'
  unfold nextBody
  rw [liftOk hr (by omega)]
  simp only
  rw [liftOk he (by omega)]
  simp only [ha, ↓reduceIte]
  exact liftOk hn (by omega)

theorem nextTot_out {st s1 s2 : St} {k1 k2 : Nat} (hr : exec k1 .rawnext st = .ok s1)
    (he : exec k2 (.expand s1.rt) s1 = .ok s2) (hrb : s2.rb = false) (hnl : s2.rt.kind ≠ .TNEWLINE)
    (h : s2.rt.kind = .TEOF ∨ RunTot { s2 with tok := toKeyword s2.rt }) : NextTot st := by
  refine ⟨max k1 k2 + 1, { s2 with tok := toKeyword s2.rt }, ?_, ?_⟩
  · show nextBody (exec (max k1 k2)) st = .ok _
    unfold nextBody
    rw [liftOk hr (by omega)]
    simp only
    rw [liftOk he (by omega)]
    have : ¬ (s2.rb = true ∨ (s2.rt.kind = .TNEWLINE ∧ s2.ppnl = false)) := by
      rw [hrb]; intro hh; rcases hh with hh | hh
      · cases hh
      · exact hnl hh.1
    simp only [this, ↓reduceIte]
  · rcases h with h | h
    · left; exact (toKeyword_eof _).mpr h
    · right; exact h

theorem goodP_settok {ms0 : List Macro} {st : St} (g : GoodP ms0 st) (t : Tok) : GoodP ms0 { st with tok := t } :=
  ⟨g.stat, g.inv, g.wf, g.flatOk, g.live, g.prag, g.ppnl⟩

/-- the token `rawnext` took from the context stack: handled by `expand`, the potential goes down -/
theorem nextTot_ctx (ms0 : List Macro) (hTb : TblOKS ms0) (st s1 : St) (k : Nat) (hr : exec k .rawnext st = .ok s1)
    (g1 : GoodP ms0 s1)
    (c1 : flatG (annHp ms0) st.macros st.ctx = annHp ms0 (liveNames s1.ctx) s1.rt :: flatG (annHp ms0) s1.macros s1.ctx)
    (c2 : FlatP ms0 s1.rt) (c3 : s1.raw = st.raw)
    (IH : ∀ st2, GoodP ms0 st2 → st2.raw = st.raw → potW ms0 st2 < potW ms0 st → NextTot st2) : NextTot st := by
  have hsplit : potW ms0 st = W (tblF ms0) (liveNames s1.ctx) s1.rt + potW ms0 s1 := by
    rw [potW_eq, c1, List.map_cons, List.sum_cons, wH_annHp, ← potW_eq]
  have hwp := W_pos (tblF ms0) (liveNames s1.ctx) s1.rt
  obtain ⟨sx, hx⟩ := expand_total ms0 s1 s1.rt g1 c2
  obtain ⟨gx, hrawx, hcase⟩ := expand_simP ms0 hTb 1 s1 sx s1.rt [] g1 c2 hx
  have hpot := expand_potP ms0 hTb 1 s1 sx s1.rt g1 c2 hx
  rcases hcase with ⟨hrb, _⟩ | ⟨hrb, _, _, _, hkind, _, _⟩
  · -- replaced
    have hp : potW ms0 sx < potW ms0 st := by
      rcases hpot with ⟨h0, _⟩ | ⟨_, h2⟩
      · rw [hrb] at h0; cases h0
      · omega
    exact nextTot_again hr hx (.inl hrb) (IH sx gx (by rw [hrawx, c3]) hp)
  · -- delivered
    have hp : potW ms0 sx < potW ms0 st := by
      rcases hpot with ⟨_, h2⟩ | ⟨h0, _⟩
      · omega
      · rw [hrb] at h0; cases h0
    refine nextTot_out hr hx hrb (by rw [hkind]; exact c2.1) (.inr ?_)
    apply runTot_of_nextTot
    exact IH _ (goodP_settok gx _) (by show sx.raw = _; rw [hrawx, c3]) (by show potW ms0 sx < _; exact hp)

/-- **`next()` completes, and so does the run after it**, on every good state over a text of the class -/
theorem nextTot_all (ms0 : List Macro) (hTb : TblOKS ms0) {raw : List Tok} (ht : TextP ms0 raw) :
    ∀ (p : Nat) (st : St), GoodP ms0 st → st.raw = raw → potW ms0 st ≤ p → NextTot st := by
  induction ht with
  | nil =>
    intro p
    induction p using Nat.strongRecOn with
    | _ p ihp =>
      intro st g hraw hp
      obtain ⟨k, s1, hr⟩ := rawnext_total ms0 st g (fun t r hh => by rw [hraw] at hh; cases hh)
      obtain ⟨g1, hR⟩ := rawnextP ms0 k st s1 g (fun t r hh => by rw [hraw] at hh; cases hh) hr
      cases hR with
      | ctx c1 c2 c3 c4 =>
        have hpos : 0 < potW ms0 st := by
          have := W_pos (tblF ms0) (liveNames s1.ctx) s1.rt
          rw [potW_eq, c1, List.map_cons, List.sum_cons, wH_annHp]; omega
        exact nextTot_ctx ms0 hTb st s1 k hr g1 c1 c2 c3
          (fun st2 g2 h2 hlt => ihp (potW ms0 st2) (by omega) st2 g2 (by rw [h2, hraw]) (Nat.le_refl _))
      | raw c1 c2 c3 => rw [hraw] at c1; cases c1
      | eof c1 c2 c3 c4 c5 =>
        have hx := expand_nonident 0 s1.rt s1 (by rw [c1]; decide)
        exact nextTot_out hr hx rfl (by show s1.rt.kind ≠ _; rw [c1]; decide) (.inl (by show s1.rt.kind = _; rw [c1]; rfl))
  | eof t hk =>
    intro p
    induction p using Nat.strongRecOn with
    | _ p ihp =>
      intro st g hraw hp
      have hhd : ∀ t' r, st.raw = t' :: r → t'.kind ≠ .TNONE ∧ t'.kind ≠ .THASH := by
        intro t' r hh; rw [hraw] at hh; cases hh; rw [hk]; exact ⟨by decide, by decide⟩
      obtain ⟨k, s1, hr⟩ := rawnext_total ms0 st g hhd
      obtain ⟨g1, hR⟩ := rawnextP ms0 k st s1 g hhd hr
      cases hR with
      | ctx c1 c2 c3 c4 =>
        exact nextTot_ctx ms0 hTb st s1 k hr g1 c1 c2 c3
          (fun st2 g2 h2 hlt => ihp (potW ms0 st2) (by omega) st2 g2 (by rw [h2, hraw]) (Nat.le_refl _))
      | raw c1 c2 c3 =>
        rw [hraw] at c1
        have hrt : s1.rt = t := (List.cons.inj c1).1.symm
        have hx := expand_nonident 0 s1.rt s1 (by rw [hrt, hk]; decide)
        exact nextTot_out hr hx rfl (by show s1.rt.kind ≠ _; rw [hrt, hk]; decide) (.inl (by show s1.rt.kind = _; rw [hrt, hk]))
      | eof c1 c2 c3 c4 c5 => rw [hraw] at c2; cases c2
  | plain t r h1 h2 h3 h4 h5 h6 ih =>
    intro p
    induction p using Nat.strongRecOn with
    | _ p ihp =>
      intro st g hraw hp
      have hhd : ∀ t' r', st.raw = t' :: r' → t'.kind ≠ .TNONE ∧ t'.kind ≠ .THASH := by
        intro t' r' hh; rw [hraw] at hh; cases hh; exact ⟨h3, h2⟩
      obtain ⟨k, s1, hr⟩ := rawnext_total ms0 st g hhd
      obtain ⟨g1, hR⟩ := rawnextP ms0 k st s1 g hhd hr
      cases hR with
      | ctx c1 c2 c3 c4 =>
        exact nextTot_ctx ms0 hTb st s1 k hr g1 c1 c2 c3
          (fun st2 g2 h2 hlt => ihp (potW ms0 st2) (by omega) st2 g2 (by rw [h2, hraw]) (Nat.le_refl _))
      | raw c1 c2 c3 =>
        rw [hraw] at c1
        have hrt : s1.rt = t := (List.cons.inj c1).1.symm
        have hrr : s1.raw = r := (List.cons.inj c1).2.symm
        by_cases hnl : t.kind = .TNEWLINE
        · have hx := expand_nonident 0 s1.rt s1 (by rw [hrt, hnl]; decide)
          refine nextTot_again hr hx (.inr ⟨by show s1.rt.kind = _; rw [hrt]; exact hnl, g1.ppnl⟩) ?_
          exact ih _ _ (goodP_setrt g1 _ _) hrr (Nat.le_refl _)
        · have hf : FlatP ms0 s1.rt := by rw [hrt]; exact ⟨hnl, h4, h1⟩
          obtain ⟨sx, hx⟩ := expand_total ms0 s1 s1.rt g1 hf
          obtain ⟨gx, hrawx, hcase⟩ := expand_simP ms0 hTb 1 s1 sx s1.rt [] g1 hf hx
          rcases hcase with ⟨hrb, _⟩ | ⟨hrb, _, _, _, hkind, _, _⟩
          · exact nextTot_again hr hx (.inl hrb) (ih _ sx gx (by rw [hrawx, hrr]) (Nat.le_refl _))
          · refine nextTot_out hr hx hrb (by rw [hkind]; exact hf.1) (.inr ?_)
            apply runTot_of_nextTot
            exact ih _ _ (goodP_settok gx _) (by show sx.raw = _; rw [hrawx, hrr]) (Nat.le_refl _)
      | eof c1 c2 c3 c4 c5 => rw [hraw] at c2; cases c2
  | call T lp r' F args rest h1 h2 h3 h4 h5 h5' h6 h7 h8 h9 ih =>
    intro p
    induction p using Nat.strongRecOn with
    | _ p ihp =>
      intro st g hraw hp
      have hhd : ∀ t' r'', st.raw = t' :: r'' → t'.kind ≠ .TNONE ∧ t'.kind ≠ .THASH := by
        intro t' r'' hh; rw [hraw] at hh; cases hh; rw [h1]; exact ⟨by decide, by decide⟩
      obtain ⟨k, s1, hr⟩ := rawnext_total ms0 st g hhd
      obtain ⟨g1, hR⟩ := rawnextP ms0 k st s1 g hhd hr
      cases hR with
      | ctx c1 c2 c3 c4 =>
        exact nextTot_ctx ms0 hTb st s1 k hr g1 c1 c2 c3
          (fun st2 g2 h2 hlt => ihp (potW ms0 st2) (by omega) st2 g2 (by rw [h2, hraw]) (Nat.le_refl _))
      | raw c1 c2 c3 =>
        rw [hraw] at c1
        have hrt : s1.rt = T := (List.cons.inj c1).1.symm
        have hrr : s1.raw = lp :: r' := (List.cons.inj c1).2.symm
        obtain ⟨n1, s2, hx⟩ := call_total ms0 hTb s1 s1.rt lp r' F args rest g1 c2 hrr (by rw [hrt]; exact h1)
          (by rw [hrt]; exact h2) (by rw [hrt]; exact h3) h4 h5 h6 h7 (loopTot_of_argsOK ms0 hTb h7)
        obtain ⟨g2, hraw2, hrb, _⟩ := callSpec_all ms0 hTb n1 s1 s2 s1.rt lp r' F args rest g1 c2 hrr (by rw [hrt]; exact h1)
          (by rw [hrt]; exact h2) (by rw [hrt]; exact h3) h4 h5 h5' h6 h7 h8 hx
        exact nextTot_again hr hx (.inl hrb) (ih _ s2 g2 hraw2 (Nat.le_refl _))
      | eof c1 c2 c3 c4 c5 => rw [hraw] at c2; cases c2

/-- **Termination**: on a good state over a text of the class the run completes -/
theorem run_totalP (ms0 : List Macro) (hTb : TblOKS ms0) (st : St) (g : GoodP ms0 st) (ht : TextP ms0 st.raw) :
    ∃ N, ∀ n, N ≤ n → (run n st).2 = none := by
  obtain ⟨N, hN⟩ := runTot_of_nextTot (nextTot_all ms0 hTb ht _ st g rfl (Nat.le_refl _))
  refine ⟨N, fun n hn => ?_⟩
  obtain ⟨d, hd⟩ := Nat.exists_eq_add_of_le hn
  rw [hd, run_mono N d st (by rw [hN]; intro hh; cases hh)]
  exact hN

end CprocVerif.PP

import CprocVerif.Lemmas.PPArgsExec
import CprocVerif.Lemmas.PPObjSim
import CprocVerif.Lemmas.PPDefine

/-! # Lazy parameter substitution: what the frame of a function-like macro delivers

`ctxnext` replaces a parameter only when it reaches it (pushing a frame with the argument's
tokens, or the one-token frame of its string for `# parameter`).  `substBody` is the eager
description: the replacement list with every parameter replaced by its stored argument, the first
token of each replacement taking the white-space flag of the parameter's place.  `flat` extends
it to the whole context stack.  `ctxnext_flat`: each call of `ctxnext` delivers the next token of
`flat`, and reports "nothing" exactly when `flat` is empty. -/

namespace CprocVerif.PP
open CprocVerif.Gen.TokenKinds

/-- in a function-like replacement list every `#` is followed by a parameter (forward form of what
`define` guarantees, `RevOk`) -/
def HashFollowed (ps : List Param) : List Tok → Prop
  | [] => True
  | [t] => t.kind ≠ .THASH
  | t :: u :: r =>
    if t.kind = .THASH then (macroparam ps u).isSome ∧ HashFollowed ps r else HashFollowed ps (u :: r)

/-- the replacement list `body` of `m` after parameter replacement, as the frame will deliver it -/
def substBody (m : Macro) : List Tok → List Tok
  | [] => []
  | [t] =>
    if t.kind = .TIDENT then
      match macroparam m.params t with
      | some i => respace (m.args.getD i default).toks t.space
      | none => [t]
    else [t]
  | t :: u :: r =>
    if t.kind = .THASH then
      match macroparam m.params u with
      | some i => { (m.args.getD i default).str with space := t.space } :: substBody m r
      | none => t :: substBody m (u :: r)
    else if t.kind = .TIDENT then
      match macroparam m.params t with
      | some i => respace (m.args.getD i default).toks t.space ++ substBody m (u :: r)
      | none => t :: substBody m (u :: r)
    else t :: substBody m (u :: r)

/-- the tokens a frame still holds, parameters replaced -/
def frameToks (ms : List Macro) (f : Frame) : List Tok :=
  match f.mac.bind (macroget ms) with
  | some m => if m.func then substBody m f.toks else f.toks
  | none => f.toks

/-- everything the context stack will deliver, in order -/
def flat (ms : List Macro) : List Frame → List Tok
  | [] => []
  | f :: rest => frameToks ms f ++ flat ms rest


/-! ## one-step facts about `substBody` -/

theorem substBody_plain (m : Macro) (t : Tok) (more : List Tok) (hh : t.kind ≠ .THASH)
    (hp : t.kind = .TIDENT → macroparam m.params t = none) : substBody m (t :: more) = t :: substBody m more := by
  cases more with
  | nil =>
    unfold substBody
    by_cases hk : t.kind = .TIDENT
    · simp [hk, hp hk, substBody]
    · simp [hk, substBody]
  | cons u r =>
    rw [substBody]
    by_cases hk : t.kind = .TIDENT
    · simp [hh, hk, hp hk]
    · simp [hh, hk]

theorem substBody_param (m : Macro) (t : Tok) (more : List Tok) (i : Nat) (hk : t.kind = .TIDENT)
    (hp : macroparam m.params t = some i) :
    substBody m (t :: more) = respace (m.args.getD i default).toks t.space ++ substBody m more := by
  have hh : t.kind ≠ .THASH := by rw [hk]; decide
  cases more with
  | nil => unfold substBody; simp [hk, hp, substBody]
  | cons u r => rw [substBody]; simp [hh, hk, hp]

theorem substBody_hash (m : Macro) (t u : Tok) (r : List Tok) (i : Nat) (hh : t.kind = .THASH)
    (hp : macroparam m.params u = some i) :
    substBody m (t :: u :: r) = { (m.args.getD i default).str with space := t.space } :: substBody m r := by
  rw [substBody]; simp [hh, hp]

theorem hashFollowed_tail {ps : List Param} {t : Tok} {more : List Tok} (h : HashFollowed ps (t :: more))
    (hh : t.kind ≠ .THASH) : HashFollowed ps more := by
  cases more with
  | nil => trivial
  | cons u r => unfold HashFollowed at h; simpa [hh] using h

/-! ## the stack -/

def ctxSize (ctx : List Frame) : Nat := (ctx.map (·.toks.length)).sum

/-- every frame of a function-like macro satisfies `HashFollowed` -/
def CtxWF (ms : List Macro) (ctx : List Frame) : Prop :=
  ∀ f ∈ ctx, ∀ m, f.mac.bind (macroget ms) = some m → m.func = true → HashFollowed m.params f.toks

theorem macroget_setHide (ms : List Macro) (n : Name) (b : Bool) (k : Name) :
    macroget (setHide ms n b) k = (macroget ms k).map fun m => if m.name = n then { m with hide := b } else m := by
  unfold macroget setHide
  induction ms with
  | nil => rfl
  | cons m r ih =>
    simp only [List.map_cons, List.find?_cons]
    have hn : (if m.name = n then { m with hide := b } else m).name = m.name := by split <;> rfl
    rw [hn]
    by_cases h : m.name = k
    · simp [h]
    · simp [h, ih]

theorem substBody_hide (m : Macro) (b : Bool) (l : List Tok) : substBody { m with hide := b } l = substBody m l := by
  fun_induction substBody m l <;> simp_all [substBody]

theorem frameToks_setHide (ms : List Macro) (n : Name) (b : Bool) (f : Frame) :
    frameToks (setHide ms n b) f = frameToks ms f := by
  unfold frameToks
  cases hf : f.mac with
  | none => rfl
  | some k =>
    simp only [Option.bind_some, macroget_setHide]
    cases macroget ms k with
    | none => rfl
    | some m =>
      simp only [Option.map_some]
      split
      · simp only [substBody_hide]
      · rfl

theorem flat_setHide (ms : List Macro) (n : Name) (b : Bool) (ctx : List Frame) :
    flat (setHide ms n b) ctx = flat ms ctx := by
  induction ctx with
  | nil => rfl
  | cons f r ih => simp only [flat, frameToks_setHide, ih]


theorem ctxWF_setHide {ms : List Macro} {ctx : List Frame} (n : Name) (b : Bool) (h : CtxWF ms ctx) :
    CtxWF (setHide ms n b) ctx := by
  intro f hf m hm hfun
  cases hfm : f.mac with
  | none => rw [hfm] at hm; cases hm
  | some k =>
    rw [hfm] at hm
    simp only [Option.bind_some, macroget_setHide] at hm
    cases hg : macroget ms k with
    | none => rw [hg] at hm; cases hm
    | some m0 =>
      rw [hg] at hm
      simp only [Option.map_some, Option.some.injEq] at hm
      have h0 := h f hf m0 (by rw [hfm]; exact hg)
      subst hm
      split at hfun <;> split <;> exact h0 hfun

theorem frameToks_nil (ms : List Macro) (f : Frame) (h : f.toks = []) : frameToks ms f = [] := by
  unfold frameToks
  rw [h]
  cases f.mac.bind (macroget ms) with
  | none => rfl
  | some m => simp only; split <;> simp [substBody]

theorem popDone_flat : ∀ (ctx : List Frame) (ms : List Macro) (d : Nat),
    flat (popDone ctx ms d).2.1 (popDone ctx ms d).1 = flat ms ctx ∧
    ctxSize (popDone ctx ms d).1 = ctxSize ctx ∧
    (CtxWF ms ctx → CtxWF (popDone ctx ms d).2.1 (popDone ctx ms d).1)
  | [], ms, d => by unfold popDone; exact ⟨rfl, rfl, id⟩
  | f :: rest, ms, d => by
    unfold popDone
    split
    · rename_i hemp
      have hnil : f.toks = [] := by simpa using hemp
      have hsz : ctxSize (f :: rest) = ctxSize rest := by simp [ctxSize, hnil]
      split
      · rename_i n hn
        have ih := popDone_flat rest (setHide ms n false) (d - 1)
        refine ⟨?_, by rw [ih.2.1, hsz], ?_⟩
        · rw [ih.1, flat_setHide]; simp [flat, frameToks_nil ms f hnil]
        · intro hw
          exact ih.2.2 (ctxWF_setHide n false (fun g hg => hw g (List.mem_cons_of_mem _ hg)))
      · have ih := popDone_flat rest ms d
        refine ⟨?_, by rw [ih.2.1, hsz], ?_⟩
        · rw [ih.1]; simp [flat, frameToks_nil ms f hnil]
        · intro hw
          exact ih.2.2 (fun g hg => hw g (List.mem_cons_of_mem _ hg))
    · exact ⟨rfl, rfl, id⟩

/-- what one pass of `ctxnext` (from the label `again:`) does to `flat` -/
inductive StepSpec (st : St) : CtxStep → Prop where
  | none (s : St) (h1 : s.rb = false) (h2 : s.ctx = []) (h3 : flat st.macros st.ctx = []) (h4 : s.raw = st.raw) :
      StepSpec st (.done (.ok s))
  | some (s : St) (h1 : s.rb = true) (h2 : flat st.macros st.ctx = s.rt :: flat s.macros s.ctx)
      (h3 : CtxWF s.macros s.ctx) (h4 : s.raw = st.raw) : StepSpec st (.done (.ok s))
  | again (s : St) (h1 : flat st.macros st.ctx = flat s.macros s.ctx) (h2 : ctxSize s.ctx < ctxSize st.ctx)
      (h3 : CtxWF s.macros s.ctx) (h4 : s.raw = st.raw) : StepSpec st (.again s)


theorem frameToks_none (ms : List Macro) (toks : List Tok) : frameToks ms ⟨toks, none⟩ = toks := rfl

theorem ctxSize_cons (f : Frame) (rest : List Frame) : ctxSize (f :: rest) = f.toks.length + ctxSize rest := by
  simp [ctxSize]

theorem ctxnextStep_spec (st : St) (hW : CtxWF st.macros st.ctx) : StepSpec st (ctxnextStep st) := by
  have hpf := popDone_flat st.ctx st.macros st.depth
  have hW' := hpf.2.2 hW
  have hne := popDone_top st.ctx st.macros st.depth
  unfold ctxnextStep
  simp only
  cases hctx : (popDone st.ctx st.macros st.depth).1 with
  | nil =>
    refine .none _ rfl rfl ?_ rfl
    rw [← hpf.1, hctx]; rfl
  | cons f rest =>
    have hfne := hne f rest hctx
    rw [hctx] at hW'
    have hflat : flat st.macros st.ctx = frameToks (popDone st.ctx st.macros st.depth).2.1 f ++
        flat (popDone st.ctx st.macros st.depth).2.1 rest := by rw [← hpf.1, hctx]; rfl
    have hsize : ctxSize st.ctx = f.toks.length + ctxSize rest := by rw [← hpf.2.1, hctx, ctxSize_cons]
    have hWrest : ∀ g ∈ rest, ∀ m, g.mac.bind (macroget (popDone st.ctx st.macros st.depth).2.1) = some m →
        m.func = true → HashFollowed m.params g.toks := fun g hg => hW' g (List.mem_cons_of_mem _ hg)
    simp only
    cases htoks : f.toks with
    | nil => exact absurd htoks hfne
    | cons t more =>
      simp only
      -- the frame after `framenext`
      have hWmore : ∀ (toks' : List Tok), (∀ m, f.mac.bind (macroget (popDone st.ctx st.macros st.depth).2.1) = some m →
          m.func = true → HashFollowed m.params toks') →
          CtxWF (popDone st.ctx st.macros st.depth).2.1 ({ f with toks := toks' } :: rest) := by
        intro toks' h g hg
        rcases List.mem_cons.mp hg with rfl | hg
        · exact h
        · exact hWrest g hg
      cases hm : f.mac.bind (macroget (popDone st.ctx st.macros st.depth).2.1) with
      | none =>
        refine .some _ rfl ?_ (hWmore more (by intro m hh; rw [hm] at hh; cases hh)) rfl
        rw [hflat]
        simp only [flat, frameToks, hm, htoks, List.cons_append]
      | some m =>
        have hWf := hW' f (List.mem_cons_self ..) m hm
        by_cases hfun : m.func = true
        · have hHF : HashFollowed m.params (t :: more) := by rw [← htoks]; exact hWf hfun
          have hft : frameToks (popDone st.ctx st.macros st.depth).2.1 f = substBody m (t :: more) := by
            simp only [frameToks, hm, hfun, ↓reduceIte, htoks]
          have hft' : ∀ toks', frameToks (popDone st.ctx st.macros st.depth).2.1 { f with toks := toks' } = substBody m toks' := by
            intro toks'; simp only [frameToks, hm, hfun, ↓reduceIte]
          simp only [hfun, not_true_eq_false, ↓reduceIte]
          by_cases hh : t.kind = .THASH
          · simp only [hh, ↓reduceIte]
            cases more with
            | nil => unfold HashFollowed at hHF; exact absurd hh hHF
            | cons t2 more2 =>
              unfold HashFollowed at hHF
              simp only [hh, ↓reduceIte] at hHF
              simp only
              cases hp : macroparam m.params t2 with
              | none => rw [hp] at hHF; cases hHF.1
              | some i =>
                simp only
                refine .some _ rfl ?_ ?_ rfl
                · rw [hflat, hft, substBody_hash m t t2 more2 i hh hp]
                  simp only [flat, frameToks_none, hft', List.nil_append, List.cons_append]
                · intro g hg
                  rcases List.mem_cons.mp hg with rfl | hg
                  · intro m' hm'; cases hm'
                  · exact hWmore more2 (fun m' hm' hf' => by rw [hm] at hm'; cases hm'; exact hHF.2) g hg
          · simp only [hh, ↓reduceIte]
            have hHFm : HashFollowed m.params more := hashFollowed_tail hHF hh
            by_cases hk : t.kind = .TIDENT
            · simp only [hk, ↓reduceIte]
              cases hp : macroparam m.params t with
              | none =>
                simp only
                refine .some _ rfl ?_ (hWmore more (fun m' hm' _ => by rw [hm] at hm'; cases hm'; exact hHFm)) rfl
                rw [hflat, hft, substBody_plain m t more hh (fun _ => hp)]
                simp only [flat, hft', List.cons_append]
              | some i =>
                simp only
                cases ha : (m.args.getD i default).toks with
                | nil =>
                  simp only
                  have hfl : flat st.macros st.ctx = flat (popDone st.ctx st.macros st.depth).2.1 ({ f with toks := more } :: rest) := by
                    rw [hflat, hft, substBody_param m t more i hk hp, ha]
                    simp only [respace, List.nil_append, flat, hft']
                  have hsz : ctxSize ({ f with toks := more } :: rest) < ctxSize st.ctx := by
                    rw [hsize, ctxSize_cons, htoks]; simp
                  have hwf := hWmore more (fun m' hm' _ => by rw [hm] at hm'; cases hm'; exact hHFm)
                  split
                  · exact .again _ hfl hsz hwf rfl
                  · exact .again _ hfl hsz hwf rfl
                | cons a as =>
                  simp only
                  refine .some _ rfl ?_ ?_ rfl
                  · rw [hflat, hft, substBody_param m t more i hk hp, ha]
                    simp only [respace, flat, frameToks_none, hft', List.cons_append, List.append_assoc]
                  · intro g hg
                    rcases List.mem_cons.mp hg with rfl | hg
                    · intro m' hm'; cases hm'
                    · exact hWmore more (fun m' hm' _ => by rw [hm] at hm'; cases hm'; exact hHFm) g hg
            · simp only [hk, ↓reduceIte]
              refine .some _ rfl ?_ (hWmore more (fun m' hm' _ => by rw [hm] at hm'; cases hm'; exact hHFm)) rfl
              rw [hflat, hft, substBody_plain m t more hh (fun h => absurd h hk)]
              simp only [flat, hft', List.cons_append]
        · have hfun' : m.func = false := by cases h : m.func <;> simp_all
          simp only [hfun', Bool.false_eq_true, not_false_eq_true, ↓reduceIte]
          refine .some _ rfl ?_ (hWmore more (fun m' hm' hf' => by rw [hm] at hm'; cases hm'; rw [hfun'] at hf'; cases hf')) rfl
          rw [hflat]
          simp only [flat, frameToks, hm, hfun', Bool.false_eq_true, ↓reduceIte, htoks, List.cons_append]


/-- **`ctxnext` delivers the next token of `flat`** (fuel: one unit more than there are tokens on the
stack), or reports that the stack holds nothing. -/
theorem ctxnext_flat : ∀ (k : Nat) (st : St), ctxSize st.ctx ≤ k → CtxWF st.macros st.ctx →
    ∃ s, exec (k + 1) .ctxnext st = .ok s ∧ s.raw = st.raw ∧ CtxWF s.macros s.ctx ∧
      ((s.rb = false ∧ s.ctx = [] ∧ flat st.macros st.ctx = []) ∨
       (s.rb = true ∧ flat st.macros st.ctx = s.rt :: flat s.macros s.ctx)) := by
  intro k
  induction k with
  | zero =>
    intro st hk hW
    have hs := ctxnextStep_spec st hW
    show ∃ s, ctxnextBody (exec 0) st = .ok s ∧ _
    unfold ctxnextBody
    generalize ctxnextStep st = cs at hs
    cases hs with
    | none s h1 h2 h3 h4 => exact ⟨s, rfl, h4, (by rw [h2]; intro f hf; cases hf), .inl ⟨h1, h2, h3⟩⟩
    | some s h1 h2 h3 h4 => exact ⟨s, rfl, h4, h3, .inr ⟨h1, h2⟩⟩
    | again s h1 h2 h3 h4 => omega
  | succ k ih =>
    intro st hk hW
    have hs := ctxnextStep_spec st hW
    show ∃ s, ctxnextBody (exec (k + 1)) st = .ok s ∧ _
    unfold ctxnextBody
    generalize ctxnextStep st = cs at hs
    cases hs with
    | none s h1 h2 h3 h4 => exact ⟨s, rfl, h4, (by rw [h2]; intro f hf; cases hf), .inl ⟨h1, h2, h3⟩⟩
    | some s h1 h2 h3 h4 => exact ⟨s, rfl, h4, h3, .inr ⟨h1, h2⟩⟩
    | again s h1 h2 h3 h4 =>
      obtain ⟨s', he, hr, hw, hc⟩ := ih s (by omega) h3
      refine ⟨s', he, by rw [hr, h4], hw, ?_⟩
      rw [h1]; exact hc


/-! ## `substBody` is the reference's `subst` -/

open CprocVerif.Spec in
/-- class, spelling and the "never replace" mark of a model token / of a reference token -/
def kh (t : Tok) : Kind × Option Name × Bool := (t.kind, t.lit, t.hide)
open CprocVerif.Spec in
def kh' (h : MacroRef.HTok) : Kind × Option Name × Bool := (h.tok.kind, h.tok.lit, h.painted)

theorem kh_respace (l : List Tok) (sp : Bool) : (respace l sp).map kh = l.map kh := by
  cases l <;> simp [respace, kh]

open CprocVerif.Spec in
theorem kh'_respace (l : List MacroRef.HTok) (sp : Bool) : (MacroRef.respace l sp).1.map kh' = l.map kh' := by
  cases l <;> simp [MacroRef.respace, kh']

open CprocVerif.Spec in
/-- **Lazy substitution = the reference's substitution** (6.10.3.1, 6.10.3.2): if the stored
arguments are the reference's completely replaced arguments and the stored strings are the
reference's spellings, the tokens the frame delivers are the reference's substituted replacement
list — by class, spelling and "never replace" mark. -/
theorem substBody_spec (m : Macro) (md : MacroRef.MacroDef) (hf : md.func = true)
    (hidx : ∀ t : Tok, MacroRef.paramIndex md (toP t) = macroparam m.params t)
    (raw full : Nat → List MacroRef.HTok)
    (hargs : ∀ i, ((m.args.getD i default).toks).map kh = (full i).map kh')
    (hstr : ∀ i, kh (m.args.getD i default).str =
      ((MacroRef.stringizeRef ((raw i).map (·.tok))).kind, (MacroRef.stringizeRef ((raw i).map (·.tok))).lit, false)) :
    ∀ (body : List Tok), (∀ t ∈ body, t.hide = false) → ∀ pend : Bool,
      (substBody m body).map kh =
        (MacroRef.subst raw full (MacroRef.elems md (body.map toP)) pend).map kh' := by
  intro body
  have hone : ∀ (t : Tok), t.hide = false → ∀ pend, ∀ rest : List MacroRef.Elem, ∀ R : List Tok,
      (∀ pd, R.map kh = (MacroRef.subst raw full rest pd).map kh') →
      ((if t.kind = .TIDENT then
          match macroparam m.params t with
          | some i => respace (m.args.getD i default).toks t.space
          | none => [t]
        else [t]) ++ R).map kh =
      (MacroRef.subst raw full (MacroRef.elemOf md (toP t) :: rest) pend).map kh' := by
    intro t ht pend rest R hR
    unfold MacroRef.elemOf
    simp only [hf, ↓reduceIte, hidx]
    have hkey : kh t = kh' ⟨{ toP t with space := (toP t).space || pend }, [], false⟩ := by
      simp [kh, kh', toP, ht]
    by_cases hk : t.kind = .TIDENT
    · simp only [hk, ↓reduceIte]
      cases hp : macroparam m.params t with
      | none =>
        simp only [MacroRef.subst, List.cons_append, List.nil_append, List.map_cons]
        rw [hR false, hkey]
      | some i =>
        simp only [MacroRef.subst, List.map_append, kh_respace, kh'_respace, hargs]
        rw [hR]
    · have : macroparam m.params t = none := by unfold macroparam; simp [hk]
      simp only [hk, ↓reduceIte, this, MacroRef.subst, List.cons_append, List.nil_append, List.map_cons]
      rw [hR false, hkey]
  have hkey : ∀ (t : Tok) (pend : Bool), t.hide = false →
      kh t = kh' ⟨{ toP t with space := (toP t).space || pend }, [], false⟩ := by
    intro t pend ht; simp [kh, kh', toP, ht]
  fun_induction substBody m body
  · intro _ pend; simp [MacroRef.elems, MacroRef.subst]
  case case2 t hk i hp =>
    intro hb pend
    have := hone t (hb t (List.mem_cons_self ..)) pend [] [] (by intro; rfl)
    simp only [hk, ↓reduceIte, hp, List.append_nil] at this
    simpa [MacroRef.elems] using this
  case case3 t hk hp =>
    intro hb pend
    have := hone t (hb t (List.mem_cons_self ..)) pend [] [] (by intro; rfl)
    simp only [hk, ↓reduceIte, hp, List.append_nil] at this
    simpa [MacroRef.elems] using this
  case case4 t hk =>
    intro hb pend
    have := hone t (hb t (List.mem_cons_self ..)) pend [] [] (by intro; rfl)
    simp only [hk, ↓reduceIte, List.append_nil] at this
    simpa [MacroRef.elems] using this
  case case5 t u r hh i hp ih =>
    intro hb pend
    have hr := ih (fun x hx => hb x (List.mem_cons_of_mem _ (List.mem_cons_of_mem _ hx)))
    have he : MacroRef.elems md (List.map toP (t :: u :: r)) = .str i t.space :: MacroRef.elems md (List.map toP r) := by
      simp only [List.map_cons]
      rw [MacroRef.elems]
      have : (toP t).kind = .THASH := hh
      simp only [hf, this, and_self, ↓reduceIte, hidx, hp]
      rfl
    rw [he]
    simp only [MacroRef.subst, List.map_cons, hr false]
    congr 1
    have := hstr i
    simp only [kh, kh'] at this ⊢
    simp only [Prod.mk.injEq] at this ⊢
    exact ⟨this.1, this.2.1, this.2.2⟩
  case case6 t u r hh hp ih =>
    intro hb pend
    have hr := ih (fun x hx => hb x (List.mem_cons_of_mem _ hx))
    have he : MacroRef.elems md (List.map toP (t :: u :: r)) = .tok (toP t) :: MacroRef.elems md (List.map toP (u :: r)) := by
      simp only [List.map_cons]
      rw [MacroRef.elems]
      have : (toP t).kind = .THASH := hh
      simp only [hf, this, and_self, ↓reduceIte, hidx, hp]
    rw [he]
    simp only [MacroRef.subst, List.map_cons, hr false, hkey t pend (hb t (List.mem_cons_self ..))]
  case case7 t u r hh hk i hp ih =>
    intro hb pend
    have hr := ih (fun x hx => hb x (List.mem_cons_of_mem _ hx))
    have he : MacroRef.elems md (List.map toP (t :: u :: r)) = MacroRef.elemOf md (toP t) :: MacroRef.elems md (List.map toP (u :: r)) := by
      simp only [List.map_cons]
      rw [MacroRef.elems]
      have : (toP t).kind ≠ .THASH := hh
      simp only [this, and_false, ↓reduceIte]
    rw [he]
    have := hone t (hb t (List.mem_cons_self ..)) pend _ _ hr
    simp only [hk, ↓reduceIte, hp] at this
    exact this
  case case8 t u r hh hk hp ih =>
    intro hb pend
    have hr := ih (fun x hx => hb x (List.mem_cons_of_mem _ hx))
    have he : MacroRef.elems md (List.map toP (t :: u :: r)) = MacroRef.elemOf md (toP t) :: MacroRef.elems md (List.map toP (u :: r)) := by
      simp only [List.map_cons]
      rw [MacroRef.elems]
      have : (toP t).kind ≠ .THASH := hh
      simp only [this, and_false, ↓reduceIte]
    rw [he]
    have := hone t (hb t (List.mem_cons_self ..)) pend _ _ hr
    simp only [hk, ↓reduceIte, hp, List.cons_append, List.nil_append] at this
    exact this
  case case9 t u r hh hk ih =>
    intro hb pend
    have hr := ih (fun x hx => hb x (List.mem_cons_of_mem _ hx))
    have he : MacroRef.elems md (List.map toP (t :: u :: r)) = MacroRef.elemOf md (toP t) :: MacroRef.elems md (List.map toP (u :: r)) := by
      simp only [List.map_cons]
      rw [MacroRef.elems]
      have : (toP t).kind ≠ .THASH := hh
      simp only [this, and_false, ↓reduceIte]
    rw [he]
    have := hone t (hb t (List.mem_cons_self ..)) pend _ _ hr
    simp only [hk, ↓reduceIte, List.cons_append, List.nil_append] at this
    exact this


/-! ## from what `define` guarantees (`RevOk`) to `HashFollowed` -/

/-- adjacent pairs, front to back: a `#` is followed by a parameter -/
def FwdOk (ns : List Name) : List Tok → Prop
  | [] => True
  | [_] => True
  | a :: b :: r => (a.kind = .THASH → IsParamTok ns b) ∧ FwdOk ns (b :: r)

theorem fwdOk_snoc (ns : List Name) : ∀ (l : List Tok) (a b : Tok), FwdOk ns (l ++ [a]) →
    (a.kind = .THASH → IsParamTok ns b) → FwdOk ns (l ++ [a, b])
  | [], a, b, _, h => ⟨h, trivial⟩
  | [x], a, b, h1, h => by
    simp only [List.cons_append, List.nil_append] at h1 ⊢
    exact ⟨h1.1, h, trivial⟩
  | x :: y :: r, a, b, h1, h => by
    simp only [List.cons_append] at h1 ⊢
    exact ⟨h1.1, fwdOk_snoc ns (y :: r) a b h1.2 h⟩

theorem revOk_fwd (ns : List Name) : ∀ (l : List Tok), RevOk ns l → FwdOk ns l.reverse
  | [], _ => trivial
  | [_], _ => trivial
  | b :: a :: r, h => by
    have ih := revOk_fwd ns (a :: r) h.2
    simp only [List.reverse_cons, List.append_assoc, List.cons_append, List.nil_append] at ih ⊢
    exact fwdOk_snoc ns r.reverse a b ih h.1

theorem isParam_macroparam {ps : List Param} {u : Tok} (h : IsParamTok (pnames ps) u) : (macroparam ps u).isSome := by
  obtain ⟨hk, n, hn, hl⟩ := h
  unfold macroparam
  simp only [hk, ↓reduceIte]
  have : List.findIdx (fun p => some p.name = u.lit) ps < ps.length := by
    apply List.findIdx_lt_length_of_exists
    obtain ⟨p, hp, rfl⟩ := List.mem_map.mp hn
    exact ⟨p, hp, by simp [hl]⟩
  simp [this]

theorem fwdOk_hashFollowed (ps : List Param) (e : Tok) (he : e.kind ≠ .TIDENT) :
    ∀ (body : List Tok), FwdOk (pnames ps) (body ++ [e]) → HashFollowed ps body
  | [], _ => trivial
  | [t], h => by
    show t.kind ≠ .THASH
    intro hh
    exact he (h.1 hh).1
  | t :: u :: r, h => by
    unfold HashFollowed
    simp only [List.cons_append] at h
    split
    · rename_i hh
      refine ⟨isParam_macroparam (h.1 hh), ?_⟩
      cases r with
      | nil => trivial
      | cons v w => exact fwdOk_hashFollowed ps e he (v :: w) h.2.2
    · exact fwdOk_hashFollowed ps e he (u :: r) h.2

/-- every function-like macro `define` accepts satisfies `HashFollowed` -/
theorem wf_hashFollowed {m : Macro} (h : m.WF) (hf : m.func = true) : HashFollowed m.params m.body := by
  obtain ⟨e, he, hr⟩ := h.hashParam hf
  have := revOk_fwd _ _ hr
  simp only [List.reverse_cons, List.reverse_reverse] at this
  exact fwdOk_hashFollowed m.params e (by rcases he with he | he <;> rw [he] <;> decide) m.body this

end CprocVerif.PP

import CprocVerif.Model.Eval

/-!
# Lemmas/Eval — helper lemmas for property C04

Part 1: the 64-bit carrier (`repr64`, `toI`, `ofI`, `castInt`) against `Spec/CInt` (`wrap`, `InRange`);
Part 2: every case of `binaryRaw` computes the mathematical result modulo `2^64`;
Part 3: the invariant `Canon`, the C-semantics evaluator `evalC` and the induction over `eval`;
Part 4: literals.
-/

namespace CprocVerif.Eval
open CprocVerif.CInt

/-! ## Part 1 -/

theorem W_eq : W = 18446744073709551616 := by decide

theorem xor_pow_lt {x k : Nat} (h : x < 2 ^ k) : x ^^^ 2 ^ k = 2 ^ k + x := by
  apply Nat.eq_of_testBit_eq
  intro i
  rw [Nat.testBit_xor, Nat.testBit_two_pow]
  rcases Nat.lt_trichotomy i k with hi | hi | hi
  · rw [Nat.testBit_two_pow_add_gt hi]
    have : ¬ k = i := by omega
    simp [this]
  · subst hi
    rw [Nat.testBit_two_pow_add_eq]
    simp
  · have h1 : x < 2 ^ i := Nat.lt_of_lt_of_le h (Nat.pow_le_pow_right (by omega) (by omega))
    have h2 : 2 ^ k + x < 2 ^ i := by
      have : 2 ^ (k + 1) ≤ 2 ^ i := Nat.pow_le_pow_right (by omega) (by omega)
      rw [Nat.pow_succ] at this
      omega
    rw [Nat.testBit_lt_two_pow h1, Nat.testBit_lt_two_pow h2]
    have : ¬ k = i := by omega
    simp [this]

theorem xor_pow_ge {x k : Nat} (h1 : 2 ^ k ≤ x) (h2 : x < 2 ^ (k + 1)) : x ^^^ 2 ^ k = x - 2 ^ k := by
  have hy : x - 2 ^ k < 2 ^ k := by rw [Nat.pow_succ] at h2; omega
  have := xor_pow_lt hy
  have e : 2 ^ k + (x - 2 ^ k) = x := by omega
  rw [e] at this
  calc x ^^^ 2 ^ k = ((x - 2 ^ k) ^^^ 2 ^ k) ^^^ 2 ^ k := by rw [this]
    _ = x - 2 ^ k := by rw [Nat.xor_assoc, Nat.xor_self, Nat.xor_zero]

theorem mask_eq {size : Nat} (h : size = 1 ∨ size = 2 ∨ size = 4 ∨ size = 8) :
    mask size = 2 ^ (size * 8) - 1 := by
  rcases h with h | h | h | h <;> subst h <;> decide

theorem castInt_unsigned {size : Nat} (h : size = 1 ∨ size = 2 ∨ size = 4 ∨ size = 8) (x : Nat) :
    castInt size false x = x % 2 ^ (size * 8) := by
  simp only [castInt, mask_eq h, Nat.and_two_pow_sub_one_eq_mod]
  simp

theorem castInt_signed {size : Nat} (h : size = 1 ∨ size = 2 ∨ size = 4 ∨ size = 8) (x : Nat) :
    castInt size true x =
      if x % 2 ^ (size * 8) < 2 ^ (size * 8 - 1) then x % 2 ^ (size * 8)
      else x % 2 ^ (size * 8) + W - 2 ^ (size * 8) := by
  have hk : size * 8 = (size * 8 - 1) + 1 := by omega
  have hlt : x % 2 ^ (size * 8) < 2 ^ ((size * 8 - 1) + 1) := by
    rw [← hk]; exact Nat.mod_lt _ (Nat.two_pow_pos _)
  simp only [castInt, mask_eq h, Nat.and_two_pow_sub_one_eq_mod, Nat.one_shiftLeft, if_true]
  split
  · rename_i hc
    rw [xor_pow_lt hc]
    rcases h with h | h | h | h <;> subst h <;> simp [W] at * <;> omega
  · rename_i hc
    rw [xor_pow_ge (Nat.le_of_not_lt hc) hlt]
    rcases h with h | h | h | h <;> subst h <;> simp [W] at * <;> omega

theorem arith_cases {t : IntTy} (h : t.Arith) :
    t = ⟨8, true⟩ ∨ t = ⟨8, false⟩ ∨ t = ⟨16, true⟩ ∨ t = ⟨16, false⟩ ∨
    t = ⟨32, true⟩ ∨ t = ⟨32, false⟩ ∨ t = ⟨64, true⟩ ∨ t = ⟨64, false⟩ := by
  obtain ⟨b, s⟩ := t
  simp only [IntTy.Arith] at h
  rcases h with h | h | h | h <;> subst h <;> cases s <;> simp

theorem castInt_nat {t : IntTy} (h : t.Arith) (x : Nat) :
    castInt (t.bits / 8) t.signed x = repr64 t (wrap t (x : Int)) := by
  rcases arith_cases h with h | h | h | h | h | h | h | h <;> subst h <;> dsimp only
  all_goals first
    | (rw [castInt_signed (by decide), W_eq]; simp only [wrap, repr64]; simp; (try split) <;> omega)
    | (rw [castInt_unsigned (by decide)]; simp only [wrap, repr64]; simp; omega)
/-- case split + normalisation used everywhere: the eight arithmetic types. -/
macro "arith_split " h:ident : tactic =>
  `(tactic| (rcases arith_cases $h with h | h | h | h | h | h | h | h <;> subst h))

theorem repr64_lt (t : IntTy) (v : Int) : repr64 t v < W := by
  rw [W_eq]; simp only [repr64]; omega

theorem ofI_lt (z : Int) : ofI z < W := by
  rw [W_eq]; simp only [ofI]; omega

theorem ofI_eq_repr64 (t : IntTy) (z : Int) : ofI z = repr64 t z := rfl

theorem ofI_natCast {x : Nat} (h : x < W) : ofI (x : Int) = x := by
  rw [W_eq] at h; simp only [ofI]; omega

theorem valid_cases {t : IntTy} (h : t.Valid) : t = IntTy.bool ∨ t.Arith := h

theorem wrap_inRange {t : IntTy} (h : t.Valid) (v : Int) : InRange t (wrap t v) := by
  rcases h with h | h
  · subst h; simp only [wrap, InRange, minVal, maxVal, IntTy.bool]; simp; split <;> omega
  · arith_split h <;> simp only [wrap, InRange, minVal, maxVal] <;> simp <;> omega

theorem wrap_of_inRange {t : IntTy} (h : t.Valid) {v : Int} (hv : InRange t v) : wrap t v = v := by
  rcases h with h | h
  · subst h; simp only [wrap, InRange, minVal, maxVal, IntTy.bool] at *; simp at *; split <;> omega
  · arith_split h <;> simp only [wrap, InRange, minVal, maxVal] at * <;> simp at * <;> omega

theorem wrap_wrap {t : IntTy} (h : t.Valid) (v : Int) : wrap t (wrap t v) = wrap t v :=
  wrap_of_inRange h (wrap_inRange h v)

/-- `wrap` only depends on the value modulo `2^64`. -/
theorem wrap_emod_W {t : IntTy} (h : t.Arith) (z : Int) : wrap t (z % 2 ^ 64) = wrap t z := by
  arith_split h <;> simp only [wrap] <;> simp <;> omega

theorem cast_ofI {t : IntTy} (h : t.Arith) (z : Int) :
    castInt (t.bits / 8) t.signed (ofI z) = repr64 t (wrap t z) := by
  rw [castInt_nat h]
  have : ((ofI z : Nat) : Int) = z % 2 ^ 64 := by simp only [ofI]; omega
  rw [this, wrap_emod_W h]

theorem toI_repr64 {t : IntTy} (h : t.Arith) {v : Int} (hv : InRange t v) (hs : t.signed = true) :
    toI (repr64 t v) = v := by
  arith_split h <;> simp only [toI, repr64, InRange, minVal, maxVal] at * <;> simp at * <;>
    split <;> omega

theorem repr64_unsigned {t : IntTy} (h : t.Arith) {v : Int} (hv : InRange t v)
    (hs : t.signed = false) : ((repr64 t v : Nat) : Int) = v := by
  arith_split h <;> simp only [repr64, InRange, minVal, maxVal] at * <;> simp at * <;> omega

theorem repr64_inj {t : IntTy} (h : t.Arith) {a b : Int} (ha : InRange t a) (hb : InRange t b) :
    repr64 t a = repr64 t b ↔ a = b := by
  arith_split h <;> simp only [repr64, InRange, minVal, maxVal] at * <;> simp at * <;> omega

theorem tyOf_arith {t : IntTy} (h : t.Arith) : tyOf t = .int (t.bits / 8) t.signed := by
  arith_split h <;> rfl


/-! ## Part 2 -/

section Part2
variable {F : Type} (ops : FloatOps F)

theorem natCast_ofI (z : Int) : ((ofI z : Nat) : Int) = z % 2 ^ 64 := by
  simp only [ofI]; omega

theorem ofI_emod (z : Int) : ofI (z % 2 ^ 64) = ofI z := by
  simp only [ofI]; omega

/-- a natural number below `2^64` whose integer value is `z mod 2^64` is `ofI z`. -/
theorem eq_ofI {n : Nat} {z : Int} (h : (n : Int) = z % 2 ^ 64) : n = ofI z := by
  simp only [ofI]; omega

theorem raw_add (sz : Nat) (sg : Bool) (a b : Int) :
    binaryRaw ops .add (.int sz sg) (ofI a) (ofI b) = some (ofI (a + b)) := by
  simp only [binaryRaw, ofI, W_eq]; congr 1; omega

theorem raw_sub (sz : Nat) (sg : Bool) (a b : Int) :
    binaryRaw ops .sub (.int sz sg) (ofI a) (ofI b) = some (ofI (a - b)) := by
  simp only [binaryRaw, ofI, W_eq]; congr 1; omega

theorem raw_mul (sz : Nat) (sg : Bool) (a b : Int) :
    binaryRaw ops .mul (.int sz sg) (ofI a) (ofI b) = some (ofI (a * b)) := by
  simp only [binaryRaw]; congr 1
  apply eq_ofI
  rw [W_eq]
  have : ((ofI a * ofI b % 18446744073709551616 : Nat) : Int)
      = ((ofI a : Nat) : Int) * ((ofI b : Nat) : Int) % 18446744073709551616 := rfl
  rw [this, natCast_ofI, natCast_ofI]
  exact (Int.mul_emod a b (2 ^ 64)).symm

theorem binary_of_raw {op : BinOp} {lty : Ty} {l r : Nat} {t' : IntTy} (h' : t'.Arith) {z : Int}
    (hraw : binaryRaw ops op lty l r = some (ofI z)) :
    binary ops op lty l r (tyOf t') = some (repr64 t' (wrap t' z)) := by
  simp only [binary, hraw, Option.map_some, tyOf_arith h', cast, cast_ofI h']

theorem repr64_zero (t : IntTy) : repr64 t 0 = 0 := by simp [repr64]

theorem inRange_zero {t : IntTy} (h : t.Valid) : InRange t 0 := by
  rcases h with h | h
  · subst h; simp [InRange, minVal, maxVal, IntTy.bool]
  · arith_split h <;> simp [InRange, minVal, maxVal]

theorem repr64_eq_zero {t : IntTy} (h : t.Arith) {b : Int} (hb : InRange t b) :
    repr64 t b = 0 ↔ b = 0 := by
  rw [← repr64_zero t]; exact repr64_inj h hb (inRange_zero (Or.inr h))

theorem raw_div_signed {t : IntTy} (h : t.Arith) (hs : t.signed = true) (sz : Nat) {a b : Int}
    (ha : InRange t a) (hb : InRange t b) (hb0 : b ≠ 0) (hov : ¬ (a = -(2 ^ 63) ∧ b = -1)) :
    binaryRaw ops .div (.int sz true) (repr64 t a) (repr64 t b) = some (ofI (Int.tdiv a b)) := by
  have hr0 : ¬ repr64 t b = 0 := fun e => hb0 ((repr64_eq_zero h hb).1 e)
  simp only [binaryRaw, Ty.isSigned, toI_repr64 h ha hs, toI_repr64 h hb hs, if_true]
  rw [if_neg]
  rintro (h1 | h1)
  · exact hr0 h1
  · exact hov h1

theorem raw_mod_signed {t : IntTy} (h : t.Arith) (hs : t.signed = true) (sz : Nat) {a b : Int}
    (ha : InRange t a) (hb : InRange t b) (hb0 : b ≠ 0) (hov : ¬ (a = -(2 ^ 63) ∧ b = -1)) :
    binaryRaw ops .mod (.int sz true) (repr64 t a) (repr64 t b) = some (ofI (Int.tmod a b)) := by
  have hr0 : ¬ repr64 t b = 0 := fun e => hb0 ((repr64_eq_zero h hb).1 e)
  simp only [binaryRaw, Ty.isSigned, toI_repr64 h ha hs, toI_repr64 h hb hs, if_true]
  rw [if_neg]
  rintro (h1 | h1)
  · exact hr0 h1
  · exact hov h1

theorem raw_div_unsigned {t : IntTy} (h : t.Arith) (hs : t.signed = false) (sz : Nat) {a b : Int}
    (ha : InRange t a) (hb : InRange t b) (hb0 : b ≠ 0) :
    binaryRaw ops .div (.int sz false) (repr64 t a) (repr64 t b) = some (ofI (Int.tdiv a b)) := by
  have hr0 : ¬ repr64 t b = 0 := fun e => hb0 ((repr64_eq_zero h hb).1 e)
  simp only [binaryRaw, Ty.isSigned, if_neg hr0, Bool.false_eq_true, if_false]
  congr 1
  have hla := repr64_unsigned h ha hs
  have hlb := repr64_unsigned h hb hs
  have hlt := repr64_lt t a
  generalize repr64 t a = l at *
  generalize repr64 t b = r at *
  rw [← hla, ← hlb, ← Int.ofNat_tdiv]
  refine (ofI_natCast ?_).symm
  exact Nat.lt_of_le_of_lt (Nat.div_le_self _ _) hlt

theorem raw_mod_unsigned {t : IntTy} (h : t.Arith) (hs : t.signed = false) (sz : Nat) {a b : Int}
    (ha : InRange t a) (hb : InRange t b) (hb0 : b ≠ 0) :
    binaryRaw ops .mod (.int sz false) (repr64 t a) (repr64 t b) = some (ofI (Int.tmod a b)) := by
  have hr0 : ¬ repr64 t b = 0 := fun e => hb0 ((repr64_eq_zero h hb).1 e)
  simp only [binaryRaw, Ty.isSigned, if_neg hr0, Bool.false_eq_true, if_false]
  congr 1
  have hla := repr64_unsigned h ha hs
  have hlb := repr64_unsigned h hb hs
  have hlt := repr64_lt t a
  generalize repr64 t a = l at *
  generalize repr64 t b = r at *
  rw [← hla, ← hlb, ← Int.ofNat_tmod]
  refine (ofI_natCast ?_).symm
  exact Nat.lt_of_le_of_lt (Nat.mod_le _ _) hlt

theorem and63 {n : Nat} (h : n < 64) : n &&& 63 = n := by
  have := Nat.and_two_pow_sub_one_eq_mod n 6
  simp only [Nat.reducePow, Nat.reduceSub] at this
  rw [this]; omega

theorem raw_shl (sz : Nat) (sg : Bool) (a : Int) {n : Nat} (hn : n < 64) :
    binaryRaw ops .shl (.int sz sg) (ofI a) n = some (ofI (a * 2 ^ n)) := by
  simp only [binaryRaw, and63 hn, Nat.shiftLeft_eq]
  congr 1
  apply eq_ofI
  rw [W_eq]
  have : ((ofI a * 2 ^ n % 18446744073709551616 : Nat) : Int)
      = ((ofI a : Nat) : Int) * ((2 ^ n : Nat) : Int) % 18446744073709551616 := rfl
  rw [this, natCast_ofI, Int.natCast_pow]
  have e1 := Int.mul_emod (a % 2 ^ 64) (((2 : Nat) : Int) ^ n) (2 ^ 64)
  have e2 := Int.mul_emod a (((2 : Nat) : Int) ^ n) (2 ^ 64)
  rw [Int.emod_emod] at e1
  exact e1.trans e2.symm

theorem raw_shr_unsigned {t : IntTy} (h : t.Arith) (hs : t.signed = false) (sz : Nat) {a : Int}
    (ha : InRange t a) {n : Nat} (hn : n < 64) :
    binaryRaw ops .shr (.int sz false) (repr64 t a) n = some (ofI (Int.fdiv a (2 ^ n))) := by
  simp only [binaryRaw, Ty.isSigned, and63 hn, Bool.false_eq_true, if_false, Nat.shiftRight_eq_div_pow]
  congr 1
  have hp : (0 : Int) ≤ 2 ^ n := Int.le_of_lt (Int.pow_pos (by decide))
  have hla := repr64_unsigned h ha hs
  have hlt := repr64_lt t a
  generalize repr64 t a = l at *
  rw [Int.fdiv_eq_ediv_of_nonneg _ hp, ← hla]
  have : (l : Int) / 2 ^ n = ((l / 2 ^ n : Nat) : Int) := by
    rw [Int.natCast_ediv, Int.natCast_pow]; rfl
  rw [this]
  refine (ofI_natCast ?_).symm
  exact Nat.lt_of_le_of_lt (Nat.div_le_self _ _) hlt

theorem raw_shr_signed {t : IntTy} (h : t.Arith) (hs : t.signed = true) (sz : Nat) {a : Int}
    (ha : InRange t a) {n : Nat} (hn : n < 64) :
    binaryRaw ops .shr (.int sz true) (repr64 t a) n = some (ofI (Int.fdiv a (2 ^ n))) := by
  simp only [binaryRaw, Ty.isSigned, and63 hn, if_true, toI_repr64 h ha hs]
  congr 2
  have hp : (0 : Int) ≤ 2 ^ n := Int.le_of_lt (Int.pow_pos (by decide))
  rw [Int.fdiv_eq_ediv_of_nonneg _ hp, Int.shiftRight_eq_div_pow, Int.natCast_pow]
  rfl

end Part2

section Part2b
variable {F : Type} (ops : FloatOps F)

theorem arith_wrap {t : IntTy} (h : t.Valid) {z v : Int} (hv : arith t z = some v) :
    wrap t v = wrap t z := by
  simp only [arith] at hv
  split at hv
  · split at hv
    · cases hv; rfl
    · cases hv
  · cases hv; exact wrap_wrap h z

theorem arith_signed {t : IntTy} (hs : t.signed = true) {z v : Int} (hv : arith t z = some v) :
    v = z ∧ InRange t z := by
  simp only [arith, hs, if_true] at hv
  split at hv
  · cases hv; exact ⟨rfl, by assumption⟩
  · cases hv

theorem repr64_small {t : IntTy} {b : Int} (h0 : 0 ≤ b) (h1 : b < 2 ^ 63) :
    repr64 t b = b.toNat := by
  simp only [repr64]; omega

theorem bits_le {t : IntTy} (h : t.Arith) : t.bits ≤ 64 := by
  rcases h with h | h | h | h <;> omega

theorem wrap_natCast_mod {t : IntTy} (h : t.Arith) (n : Nat) :
    wrap t ((n % 2 ^ t.bits : Nat) : Int) = wrap t (n : Int) := by
  arith_split h <;> simp only [wrap] <;> simp <;> omega

theorem repr64_mod_bits {t : IntTy} (h : t.Arith) (a : Int) :
    repr64 t a % 2 ^ t.bits = toBits t a := by
  arith_split h <;> simp only [repr64, toBits] <;> simp <;> omega

theorem b2n_eq (c : Bool) : b2n c = ofI (b2i c) := by cases c <;> decide

theorem int_arith : IntTy.int.Arith := by decide

theorem binResTy_cmp {op : BinOp} (h : op.isCmp = true) (t : IntTy) : binResTy op t = IntTy.int := by
  simp [binResTy, h]

theorem binResTy_ncmp {op : BinOp} (h : op.isCmp = false) (t : IntTy) : binResTy op t = t := by
  simp [binResTy, h]

/-- comparison operators: the raw result is the truth value of `c` -/
theorem binary_cmp {op : BinOp} {lty : Ty} {l r : Nat} {c : Bool}
    (hraw : binaryRaw ops op lty l r = some (b2n c)) :
    binary ops op lty l r (tyOf IntTy.int) = some (repr64 IntTy.int (wrap IntTy.int (b2i c))) := by
  rw [b2n_eq] at hraw
  exact binary_of_raw ops int_arith hraw

theorem lt_iff_signed {t : IntTy} (h : t.Arith) (hs : t.signed = true) {a b : Int}
    (ha : InRange t a) (hb : InRange t b) : toI (repr64 t a) < toI (repr64 t b) ↔ a < b := by
  rw [toI_repr64 h ha hs, toI_repr64 h hb hs]

theorem lt_iff_unsigned {t : IntTy} (h : t.Arith) (hs : t.signed = false) {a b : Int}
    (ha : InRange t a) (hb : InRange t b) : repr64 t a < repr64 t b ↔ a < b := by
  rw [← repr64_unsigned h ha hs, ← repr64_unsigned h hb hs]
  simp only [repr64]; omega

theorem le_iff_signed {t : IntTy} (h : t.Arith) (hs : t.signed = true) {a b : Int}
    (ha : InRange t a) (hb : InRange t b) : toI (repr64 t a) ≤ toI (repr64 t b) ↔ a ≤ b := by
  rw [toI_repr64 h ha hs, toI_repr64 h hb hs]

theorem le_iff_unsigned {t : IntTy} (h : t.Arith) (hs : t.signed = false) {a b : Int}
    (ha : InRange t a) (hb : InRange t b) : repr64 t a ≤ repr64 t b ↔ a ≤ b := by
  rw [← repr64_unsigned h ha hs, ← repr64_unsigned h hb hs]
  simp only [repr64]; omega

theorem no_overflow_of_inRange {t : IntTy} (h : t.Arith) {a b : Int}
    (hr : InRange t (Int.tdiv a b)) (hs : t.signed = true) : ¬ (a = -(2 ^ 63) ∧ b = -1) := by
  rintro ⟨rfl, rfl⟩
  have e : Int.tdiv (-(2 ^ 63)) (-1) = 2 ^ 63 := by decide
  rw [e] at hr
  arith_split h <;> simp [InRange, minVal, maxVal] at hr hs

theorem bitop_wrap {t : IntTy} (h : t.Arith) (f : Nat → Nat → Nat)
    (hf : ∀ x y, f x y % 2 ^ t.bits = f (x % 2 ^ t.bits) (y % 2 ^ t.bits)) (a b : Int) :
    wrap t ((f (repr64 t a) (repr64 t b) : Nat) : Int) = wrap t (ofBits t (f (toBits t a) (toBits t b))) := by
  simp only [ofBits]
  rw [wrap_wrap (Or.inr h), ← wrap_natCast_mod h, hf, repr64_mod_bits h, repr64_mod_bits h]

theorem binary_bitop {op : BinOp} {t : IntTy} (h : t.Arith) (f : Nat → Nat → Nat)
    (hf : ∀ x y, f x y % 2 ^ t.bits = f (x % 2 ^ t.bits) (y % 2 ^ t.bits))
    (hlt : ∀ x y, x < W → y < W → f x y < W) (a b : Int)
    (hraw : binaryRaw ops op (tyOf t) (repr64 t a) (repr64 t b) = some (f (repr64 t a) (repr64 t b))) :
    binary ops op (tyOf t) (repr64 t a) (repr64 t b) (tyOf t)
      = some (repr64 t (wrap t (ofBits t (f (toBits t a) (toBits t b))))) := by
  rw [← ofI_natCast (hlt _ _ (repr64_lt t a) (repr64_lt t b))] at hraw
  rw [binary_of_raw ops h hraw, bitop_wrap h f hf]

theorem binary_correct {t tr : IntTy} (ht : t.Arith) (htr : tr.Arith) (op : BinOp)
    (hop : op ≠ .lor ∧ op ≠ .land) (hty : op.isShift = false → tr = t)
    {a b v : Int} (ha : InRange t a) (hb : InRange tr b) (h : bin op t a b = some v) :
    binary ops op (tyOf t) (repr64 t a) (repr64 tr b) (tyOf (binResTy op t))
      = some (repr64 (binResTy op t) (wrap (binResTy op t) v)) := by
  have hv := Or.inr ht (a := t = IntTy.bool)
  cases op
  case lor => exact absurd rfl hop.1
  case land => exact absurd rfl hop.2
  case add =>
    cases hty rfl
    rw [binResTy_ncmp rfl, arith_wrap hv h]
    have := binary_of_raw ops ht (raw_add ops (t.bits / 8) t.signed a b)
    rw [← tyOf_arith ht] at this
    exact this
  case sub =>
    cases hty rfl
    rw [binResTy_ncmp rfl, arith_wrap hv h]
    have := binary_of_raw ops ht (raw_sub ops (t.bits / 8) t.signed a b)
    rw [← tyOf_arith ht] at this
    exact this
  case mul =>
    cases hty rfl
    rw [binResTy_ncmp rfl, arith_wrap hv h]
    have := binary_of_raw ops ht (raw_mul ops (t.bits / 8) t.signed a b)
    rw [← tyOf_arith ht] at this
    exact this
  case div =>
    cases hty rfl
    rw [binResTy_ncmp rfl]
    simp only [bin] at h
    split at h
    · cases h
    · rename_i hb0
      rw [arith_wrap hv h]
      cases hs : t.signed
      · have := binary_of_raw ops ht (raw_div_unsigned ops ht hs (t.bits / 8) ha hb hb0)
        rw [← hs, ← tyOf_arith ht] at this
        exact this
      · have hov := no_overflow_of_inRange ht (arith_signed hs h).2 hs
        have := binary_of_raw ops ht (raw_div_signed ops ht hs (t.bits / 8) ha hb hb0 hov)
        rw [← hs, ← tyOf_arith ht] at this
        exact this
  case mod =>
    cases hty rfl
    rw [binResTy_ncmp rfl]
    simp only [bin] at h
    split at h
    · cases h
    · rename_i hb0
      split at h
      · cases h
      · rename_i hnov
        cases h
        cases hs : t.signed
        · have := binary_of_raw ops ht (raw_mod_unsigned ops ht hs (t.bits / 8) ha hb hb0)
          rw [← hs, ← tyOf_arith ht] at this
          exact this
        · have hr : InRange t (Int.tdiv a b) := by
            apply Classical.byContradiction
            intro hn; exact hnov ⟨hs, hn⟩
          have hov := no_overflow_of_inRange ht hr hs
          have := binary_of_raw ops ht (raw_mod_signed ops ht hs (t.bits / 8) ha hb hb0 hov)
          rw [← hs, ← tyOf_arith ht] at this
          exact this
  case shl =>
    rw [binResTy_ncmp rfl]
    simp only [bin] at h
    split at h
    · cases h
    · rename_i hcnt
      have hbits := bits_le ht
      have h0 : 0 ≤ b := by omega
      have h1 : b < 64 := by omega
      have hn : b.toNat < 64 := by omega
      rw [repr64_small h0 (by omega)]
      have hraw := raw_shl ops (t.bits / 8) t.signed a hn
      have := binary_of_raw ops ht hraw
      rw [← tyOf_arith ht] at this
      have hw : wrap t v = wrap t (a * 2 ^ b.toNat) := by
        split at h
        · split at h
          · cases h
          · split at h
            · cases h; rfl
            · cases h
        · cases h; exact wrap_wrap hv _
      rw [hw]; exact this
  case shr =>
    rw [binResTy_ncmp rfl]
    simp only [bin] at h
    split at h
    · cases h
    · rename_i hcnt
      cases h
      have hbits := bits_le ht
      have h0 : 0 ≤ b := by omega
      have h1 : b < 64 := by omega
      have hn : b.toNat < 64 := by omega
      rw [repr64_small h0 (by omega)]
      cases hs : t.signed
      · have := binary_of_raw ops ht (raw_shr_unsigned ops ht hs (t.bits / 8) ha hn)
        rw [← hs, ← tyOf_arith ht] at this
        exact this
      · have := binary_of_raw ops ht (raw_shr_signed ops ht hs (t.bits / 8) ha hn)
        rw [← hs, ← tyOf_arith ht] at this
        exact this
  case band =>
    cases hty rfl
    rw [binResTy_ncmp rfl]
    simp only [bin] at h; cases h
    refine binary_bitop ops ht (· &&& ·) (fun x y => Nat.and_mod_two_pow) ?_ a b ?_
    · intro x y hx _; exact Nat.lt_of_le_of_lt Nat.and_le_left hx
    · rw [tyOf_arith ht]; rfl
  case bor =>
    cases hty rfl
    rw [binResTy_ncmp rfl]
    simp only [bin] at h; cases h
    refine binary_bitop ops ht (· ||| ·) (fun x y => Nat.or_mod_two_pow) ?_ a b ?_
    · intro x y hx hy; exact Nat.or_lt_two_pow hx hy
    · rw [tyOf_arith ht]; rfl
  case bxor =>
    cases hty rfl
    rw [binResTy_ncmp rfl]
    simp only [bin] at h; cases h
    refine binary_bitop ops ht (· ^^^ ·) (fun x y => Nat.xor_mod_two_pow) ?_ a b ?_
    · intro x y hx hy; exact Nat.xor_lt_two_pow hx hy
    · rw [tyOf_arith ht]; rfl
  case lt =>
    cases hty rfl
    rw [binResTy_cmp rfl]
    simp only [bin] at h; cases h
    apply binary_cmp
    rw [tyOf_arith ht]
    simp only [binaryRaw, Ty.isSigned]
    congr 2
    cases hs : t.signed
    · simp only [Bool.false_eq_true, if_false, decide_eq_decide]; exact lt_iff_unsigned ht hs ha hb
    · simp only [if_true, decide_eq_decide]; exact lt_iff_signed ht hs ha hb
  case gt =>
    cases hty rfl
    rw [binResTy_cmp rfl]
    simp only [bin] at h; cases h
    apply binary_cmp
    rw [tyOf_arith ht]
    simp only [binaryRaw, Ty.isSigned]
    congr 2
    cases hs : t.signed
    · simp only [Bool.false_eq_true, if_false, decide_eq_decide]; exact lt_iff_unsigned ht hs hb ha
    · simp only [if_true, decide_eq_decide]; exact lt_iff_signed ht hs hb ha
  case le =>
    cases hty rfl
    rw [binResTy_cmp rfl]
    simp only [bin] at h; cases h
    apply binary_cmp
    rw [tyOf_arith ht]
    simp only [binaryRaw, Ty.isSigned]
    congr 2
    cases hs : t.signed
    · simp only [Bool.false_eq_true, if_false, decide_eq_decide]; exact le_iff_unsigned ht hs ha hb
    · simp only [if_true, decide_eq_decide]; exact le_iff_signed ht hs ha hb
  case ge =>
    cases hty rfl
    rw [binResTy_cmp rfl]
    simp only [bin] at h; cases h
    apply binary_cmp
    rw [tyOf_arith ht]
    simp only [binaryRaw, Ty.isSigned]
    congr 2
    cases hs : t.signed
    · simp only [Bool.false_eq_true, if_false, decide_eq_decide]; exact le_iff_unsigned ht hs hb ha
    · simp only [if_true, decide_eq_decide]; exact le_iff_signed ht hs hb ha
  case eq =>
    cases hty rfl
    rw [binResTy_cmp rfl]
    simp only [bin] at h; cases h
    apply binary_cmp
    rw [tyOf_arith ht]
    simp only [binaryRaw]
    congr 2
    simp only [decide_eq_decide]; exact repr64_inj ht ha hb
  case ne =>
    cases hty rfl
    rw [binResTy_cmp rfl]
    simp only [bin] at h; cases h
    apply binary_cmp
    rw [tyOf_arith ht]
    simp only [binaryRaw]
    congr 2
    simp only [decide_eq_decide, ne_eq, (repr64_inj ht ha hb)]

end Part2b

theorem arith_inRange {t : IntTy} (h : t.Valid) {z v : Int} (hv : arith t z = some v) : InRange t v := by
  simp only [arith] at hv
  split at hv
  · split at hv
    · cases hv; assumption
    · cases hv
  · cases hv; exact wrap_inRange h z

theorem b2i_inRange (c : Bool) : InRange IntTy.int (b2i c) := by
  cases c <;> simp [InRange, minVal, maxVal, b2i, IntTy.int]

theorem ediv_pow_bounds (a : Int) (n : Nat) :
    (0 ≤ a → 0 ≤ a / 2 ^ n ∧ a / 2 ^ n ≤ a) ∧ (a < 0 → a ≤ a / 2 ^ n ∧ a / 2 ^ n < 0) := by
  have hp : (0 : Int) < 2 ^ n := Int.pow_pos (by decide)
  refine ⟨fun h => ⟨Int.ediv_nonneg h (Int.le_of_lt hp), Int.ediv_le_self _ h⟩, fun h => ⟨?_, ?_⟩⟩
  · apply Int.le_ediv_of_mul_le hp
    have := Int.mul_le_mul_of_nonpos_left (a := a) (b := 2 ^ n) (c := 1) (Int.le_of_lt h) (by omega)
    omega
  · exact Int.ediv_neg_of_neg_of_pos h hp

theorem tmod_bounds (a : Int) {b : Int} (_hb : b ≠ 0) :
    (0 < b → -b < Int.tmod a b ∧ Int.tmod a b < b) ∧ (b < 0 → b < Int.tmod a b ∧ Int.tmod a b < -b) := by
  refine ⟨fun h => ⟨Int.lt_tmod_of_pos a h, Int.tmod_lt_of_pos a h⟩, fun h => ?_⟩
  have h' : 0 < -b := by omega
  have e : Int.tmod a b = Int.tmod a (-b) := (Int.tmod_neg a b).symm
  rw [e]
  have := Int.lt_tmod_of_pos a h'
  exact ⟨by omega, Int.tmod_lt_of_pos a h'⟩

theorem bin_inRange {t : IntTy} (ht : t.Arith) (op : BinOp) {a b v : Int}
    (ha : InRange t a) (hb : op.isShift = false → InRange t b) (h : bin op t a b = some v) :
    InRange (binResTy op t) v := by
  have hv := Or.inr ht (a := t = IntTy.bool)
  cases op <;> simp only [bin] at h
  case add => exact arith_inRange hv h
  case sub => exact arith_inRange hv h
  case mul => exact arith_inRange hv h
  case div =>
    split at h
    · cases h
    · exact arith_inRange hv h
  case mod =>
    have hb := hb rfl
    rw [binResTy_ncmp rfl]
    split at h
    · cases h
    · rename_i hb0
      split at h
      · cases h
      · cases h
        have hbd := tmod_bounds a hb0
        have hnn : 0 ≤ a → 0 ≤ Int.tmod a b := fun h => Int.tmod_nonneg b h
        arith_split ht <;> simp [InRange, minVal, maxVal] at * <;> omega
  case shl =>
    rw [binResTy_ncmp rfl]
    split at h
    · cases h
    · split at h
      · split at h
        · cases h
        · split at h
          · cases h; assumption
          · cases h
      · cases h; exact wrap_inRange hv _
  case shr =>
    rw [binResTy_ncmp rfl]
    split at h
    · cases h
    · cases h
      have hp : (0 : Int) ≤ 2 ^ b.toNat := Int.le_of_lt (Int.pow_pos (by decide))
      rw [Int.fdiv_eq_ediv_of_nonneg _ hp]
      have := ediv_pow_bounds a b.toNat
      arith_split ht <;> simp [InRange, minVal, maxVal] at * <;> omega
  case band => cases h; exact wrap_inRange hv _
  case bor => cases h; exact wrap_inRange hv _
  case bxor => cases h; exact wrap_inRange hv _
  all_goals (cases h; exact b2i_inRange _)


section Part2c
variable {F : Type} (ops : FloatOps F)

/-! unary operators, as `unaryexpr` builds them -/

theorem unaryNeg_correct {t : IntTy} (ht : t.Arith) {a v : Int} (h : un .neg t a = some v) :
    unaryNeg ops (tyOf t) (tyOf t) (repr64 t a) = repr64 t (wrap t v) := by
  simp only [un] at h
  rw [arith_wrap (Or.inr ht) h]
  have e : (W - repr64 t a) % W = ofI (-a) := by
    rw [W_eq]; simp only [repr64, ofI]; omega
  simp only [unaryNeg, tyOf_arith ht, Ty.isFlt, Bool.false_eq_true, if_false, cast, e, cast_ofI ht]

/-- `~e` is compiled as `e ^ mkconstexpr(e->type, -1)`: the right operand carries 64 one bits
whatever the type is (not canonical for `unsigned int`); the final `cast` repairs it. -/
theorem bnot_correct {t : IntTy} (ht : t.Arith) {a v : Int} (h : un .bnot t a = some v) :
    foldBin ops .bxor (tyOf t) (repr64 t a) (W - 1) (tyOf t) = .folded (repr64 t (wrap t v)) := by
  simp only [un] at h; cases h
  have hx : repr64 t a ^^^ (W - 1) < W := Nat.xor_lt_two_pow (repr64_lt t a) (by decide)
  have hraw : binaryRaw ops .bxor (tyOf t) (repr64 t a) (W - 1) = some (ofI ((repr64 t a ^^^ (W - 1) : Nat) : Int)) := by
    rw [ofI_natCast hx, tyOf_arith ht]; rfl
  have hb := binary_of_raw ops ht hraw
  have hw : wrap t ((repr64 t a ^^^ (W - 1) : Nat) : Int)
      = wrap t (ofBits t (2 ^ t.bits - 1 - toBits t a)) := by
    simp only [ofBits]
    rw [wrap_wrap (Or.inr ht), ← wrap_natCast_mod ht, Nat.xor_mod_two_pow, repr64_mod_bits ht]
    congr 2
    have hlt : toBits t a < 2 ^ t.bits := by
      simp only [toBits]
      have : (0:Int) < 2 ^ t.bits := Int.pow_pos (by decide)
      have := Int.emod_lt_of_pos a this
      have h2 := Int.emod_nonneg a (Int.ne_of_gt ‹(0:Int) < 2 ^ t.bits›)
      have e : ((2 ^ t.bits : Nat) : Int) = (2 : Int) ^ t.bits := by rw [Int.natCast_pow]; rfl
      omega
    have hm : (W - 1) % 2 ^ t.bits = 2 ^ t.bits - 1 := by arith_split ht <;> decide
    rw [hm]
    -- x ^^^ (2^k - 1) = 2^k - 1 - x for x < 2^k
    apply Nat.eq_of_testBit_eq
    intro i
    rw [Nat.sub_sub, Nat.add_comm 1, Nat.testBit_xor, Nat.testBit_two_pow_sub_one,
      Nat.testBit_two_pow_sub_succ hlt]
    by_cases hi : i < t.bits
    · simp [hi]
    · have : toBits t a < 2 ^ i := Nat.lt_of_lt_of_le hlt (Nat.pow_le_pow_right (by omega) (by omega))
      simp [hi, Nat.testBit_lt_two_pow this]
  simp only [foldBin]
  rw [if_neg (by rintro ⟨h | h, _⟩ <;> cases h), hb, hw]

theorem lnot_correct {t : IntTy} (ht : t.Arith) {a v : Int} (ha : InRange t a)
    (h : un .lnot t a = some v) :
    foldBin ops .eq (tyOf t) (repr64 t a) 0 (tyOf IntTy.int)
      = .folded (repr64 IntTy.int (wrap IntTy.int v)) := by
  simp only [un] at h; cases h
  have hb : bin .eq t a 0 = some (b2i (decide (a = 0))) := rfl
  have := binary_correct ops ht ht .eq (by simp) (fun _ => rfl) ha (inRange_zero (Or.inr ht)) hb
  rw [repr64_zero, binResTy_cmp rfl] at this
  simp only [foldBin]
  rw [if_neg (by rintro ⟨h | h, _⟩ <;> cases h), this]

end Part2c

end CprocVerif.Eval

import CprocVerif.Model.Eval

/-!
# Lemmas/Eval — helper lemmas for property C04

Part 1: the 64-bit carrier (`repr64`, `toI`, `ofI`, `castInt`) against `Spec/CInt` (`wrap`, `InRange`);
Part 2: every case of `binaryRaw` computes the mathematical result modulo `2^64`;
Part 3: the invariant `Canon`, the C-semantics evaluator `evalC` and the induction over `eval`;
Part 4: literals.
-/

namespace CprocVerif.Eval
open CprocVerif.CInt

/-! ## Part 1 -/

theorem W_eq : W = 18446744073709551616 := by decide

theorem xor_pow_lt {x k : Nat} (h : x < 2 ^ k) : x ^^^ 2 ^ k = 2 ^ k + x := by
  apply Nat.eq_of_testBit_eq
  intro i
  rw [Nat.testBit_xor, Nat.testBit_two_pow]
  rcases Nat.lt_trichotomy i k with hi | hi | hi
  · rw [Nat.testBit_two_pow_add_gt hi]
    have : ¬ k = i := by omega
    simp [this]
  · subst hi
    rw [Nat.testBit_two_pow_add_eq]
    simp
  · have h1 : x < 2 ^ i := Nat.lt_of_lt_of_le h (Nat.pow_le_pow_right (by omega) (by omega))
    have h2 : 2 ^ k + x < 2 ^ i := by
      have : 2 ^ (k + 1) ≤ 2 ^ i := Nat.pow_le_pow_right (by omega) (by omega)
      rw [Nat.pow_succ] at this
      omega
    rw [Nat.testBit_lt_two_pow h1, Nat.testBit_lt_two_pow h2]
    have : ¬ k = i := by omega
    simp [this]

theorem xor_pow_ge {x k : Nat} (h1 : 2 ^ k ≤ x) (h2 : x < 2 ^ (k + 1)) : x ^^^ 2 ^ k = x - 2 ^ k := by
  have hy : x - 2 ^ k < 2 ^ k := by rw [Nat.pow_succ] at h2; omega
  have := xor_pow_lt hy
  have e : 2 ^ k + (x - 2 ^ k) = x := by omega
  rw [e] at this
  calc x ^^^ 2 ^ k = ((x - 2 ^ k) ^^^ 2 ^ k) ^^^ 2 ^ k := by rw [this]
    _ = x - 2 ^ k := by rw [Nat.xor_assoc, Nat.xor_self, Nat.xor_zero]

theorem mask_eq {size : Nat} (h : size = 1 ∨ size = 2 ∨ size = 4 ∨ size = 8) :
    mask size = 2 ^ (size * 8) - 1 := by
  rcases h with h | h | h | h <;> subst h <;> decide

theorem castInt_unsigned {size : Nat} (h : size = 1 ∨ size = 2 ∨ size = 4 ∨ size = 8) (x : Nat) :
    castInt size false x = x % 2 ^ (size * 8) := by
  simp only [castInt, mask_eq h, Nat.and_two_pow_sub_one_eq_mod]
  simp

theorem castInt_signed {size : Nat} (h : size = 1 ∨ size = 2 ∨ size = 4 ∨ size = 8) (x : Nat) :
    castInt size true x =
      if x % 2 ^ (size * 8) < 2 ^ (size * 8 - 1) then x % 2 ^ (size * 8)
      else x % 2 ^ (size * 8) + W - 2 ^ (size * 8) := by
  have hk : size * 8 = (size * 8 - 1) + 1 := by omega
  have hlt : x % 2 ^ (size * 8) < 2 ^ ((size * 8 - 1) + 1) := by
    rw [← hk]; exact Nat.mod_lt _ (Nat.two_pow_pos _)
  simp only [castInt, mask_eq h, Nat.and_two_pow_sub_one_eq_mod, Nat.one_shiftLeft, if_true]
  split
  · rename_i hc
    rw [xor_pow_lt hc]
    rcases h with h | h | h | h <;> subst h <;> simp [W] at * <;> omega
  · rename_i hc
    rw [xor_pow_ge (Nat.le_of_not_lt hc) hlt]
    rcases h with h | h | h | h <;> subst h <;> simp [W] at * <;> omega

theorem arith_cases {t : IntTy} (h : t.Arith) :
    t = ⟨8, true⟩ ∨ t = ⟨8, false⟩ ∨ t = ⟨16, true⟩ ∨ t = ⟨16, false⟩ ∨
    t = ⟨32, true⟩ ∨ t = ⟨32, false⟩ ∨ t = ⟨64, true⟩ ∨ t = ⟨64, false⟩ := by
  obtain ⟨b, s⟩ := t
  simp only [IntTy.Arith] at h
  rcases h with h | h | h | h <;> subst h <;> cases s <;> simp

theorem castInt_nat {t : IntTy} (h : t.Arith) (x : Nat) :
    castInt (t.bits / 8) t.signed x = repr64 t (wrap t (x : Int)) := by
  rcases arith_cases h with h | h | h | h | h | h | h | h <;> subst h <;> dsimp only
  all_goals first
    | (rw [castInt_signed (by decide), W_eq]; simp only [wrap, repr64]; simp; (try split) <;> omega)
    | (rw [castInt_unsigned (by decide)]; simp only [wrap, repr64]; simp; omega)
/-- case split + normalisation used everywhere: the eight arithmetic types. -/
macro "arith_split " h:ident : tactic =>
  `(tactic| (rcases arith_cases $h with h | h | h | h | h | h | h | h <;> subst h))

theorem repr64_lt (t : IntTy) (v : Int) : repr64 t v < W := by
  rw [W_eq]; simp only [repr64]; omega

theorem ofI_lt (z : Int) : ofI z < W := by
  rw [W_eq]; simp only [ofI]; omega

theorem ofI_eq_repr64 (t : IntTy) (z : Int) : ofI z = repr64 t z := rfl

theorem ofI_natCast {x : Nat} (h : x < W) : ofI (x : Int) = x := by
  rw [W_eq] at h; simp only [ofI]; omega

theorem valid_cases {t : IntTy} (h : t.Valid) : t = IntTy.bool ∨ t.Arith := h

theorem wrap_inRange {t : IntTy} (h : t.Valid) (v : Int) : InRange t (wrap t v) := by
  rcases h with h | h
  · subst h; simp only [wrap, InRange, minVal, maxVal, IntTy.bool]; simp; split <;> omega
  · arith_split h <;> simp only [wrap, InRange, minVal, maxVal] <;> simp <;> omega

theorem wrap_of_inRange {t : IntTy} (h : t.Valid) {v : Int} (hv : InRange t v) : wrap t v = v := by
  rcases h with h | h
  · subst h; simp only [wrap, InRange, minVal, maxVal, IntTy.bool] at *; simp at *; split <;> omega
  · arith_split h <;> simp only [wrap, InRange, minVal, maxVal] at * <;> simp at * <;> omega

theorem wrap_wrap {t : IntTy} (h : t.Valid) (v : Int) : wrap t (wrap t v) = wrap t v :=
  wrap_of_inRange h (wrap_inRange h v)

/-- `wrap` only depends on the value modulo `2^64`. -/
theorem wrap_emod_W {t : IntTy} (h : t.Arith) (z : Int) : wrap t (z % 2 ^ 64) = wrap t z := by
  arith_split h <;> simp only [wrap] <;> simp <;> omega

theorem cast_ofI {t : IntTy} (h : t.Arith) (z : Int) :
    castInt (t.bits / 8) t.signed (ofI z) = repr64 t (wrap t z) := by
  rw [castInt_nat h]
  have : ((ofI z : Nat) : Int) = z % 2 ^ 64 := by simp only [ofI]; omega
  rw [this, wrap_emod_W h]

theorem toI_repr64 {t : IntTy} (h : t.Arith) {v : Int} (hv : InRange t v) (hs : t.signed = true) :
    toI (repr64 t v) = v := by
  arith_split h <;> simp only [toI, repr64, InRange, minVal, maxVal] at * <;> simp at * <;>
    split <;> omega

theorem repr64_unsigned {t : IntTy} (h : t.Arith) {v : Int} (hv : InRange t v)
    (hs : t.signed = false) : ((repr64 t v : Nat) : Int) = v := by
  arith_split h <;> simp only [repr64, InRange, minVal, maxVal] at * <;> simp at * <;> omega

theorem repr64_inj {t : IntTy} (h : t.Arith) {a b : Int} (ha : InRange t a) (hb : InRange t b) :
    repr64 t a = repr64 t b ↔ a = b := by
  arith_split h <;> simp only [repr64, InRange, minVal, maxVal] at * <;> simp at * <;> omega

theorem tyOf_arith {t : IntTy} (h : t.Arith) : tyOf t = .int (t.bits / 8) t.signed := by
  arith_split h <;> rfl


/-! ## Part 2 -/

section Part2
variable {F : Type} (ops : FloatOps F)

theorem natCast_ofI (z : Int) : ((ofI z : Nat) : Int) = z % 2 ^ 64 := by
  simp only [ofI]; omega

theorem ofI_emod (z : Int) : ofI (z % 2 ^ 64) = ofI z := by
  simp only [ofI]; omega

/-- a natural number below `2^64` whose integer value is `z mod 2^64` is `ofI z`. -/
theorem eq_ofI {n : Nat} {z : Int} (h : (n : Int) = z % 2 ^ 64) : n = ofI z := by
  simp only [ofI]; omega

theorem raw_add (sz : Nat) (sg : Bool) (a b : Int) :
    binaryRaw ops .add (.int sz sg) (ofI a) (ofI b) = some (ofI (a + b)) := by
  simp only [binaryRaw, ofI, W_eq]; congr 1; omega

theorem raw_sub (sz : Nat) (sg : Bool) (a b : Int) :
    binaryRaw ops .sub (.int sz sg) (ofI a) (ofI b) = some (ofI (a - b)) := by
  simp only [binaryRaw, ofI, W_eq]; congr 1; omega

theorem raw_mul (sz : Nat) (sg : Bool) (a b : Int) :
    binaryRaw ops .mul (.int sz sg) (ofI a) (ofI b) = some (ofI (a * b)) := by
  simp only [binaryRaw]; congr 1
  apply eq_ofI
  rw [W_eq]
  have : ((ofI a * ofI b % 18446744073709551616 : Nat) : Int)
      = ((ofI a : Nat) : Int) * ((ofI b : Nat) : Int) % 18446744073709551616 := rfl
  rw [this, natCast_ofI, natCast_ofI]
  exact (Int.mul_emod a b (2 ^ 64)).symm

theorem binary_of_raw {op : BinOp} {lty : Ty} {l r : Nat} {t' : IntTy} (h' : t'.Arith) {z : Int}
    (hraw : binaryRaw ops op lty l r = some (ofI z)) :
    binary ops op lty l r (tyOf t') = some (repr64 t' (wrap t' z)) := by
  simp only [binary, hraw, Option.map_some, tyOf_arith h', cast, cast_ofI h']

theorem repr64_zero (t : IntTy) : repr64 t 0 = 0 := by simp [repr64]

theorem inRange_zero {t : IntTy} (h : t.Valid) : InRange t 0 := by
  rcases h with h | h
  · subst h; simp [InRange, minVal, maxVal, IntTy.bool]
  · arith_split h <;> simp [InRange, minVal, maxVal]

theorem repr64_eq_zero {t : IntTy} (h : t.Arith) {b : Int} (hb : InRange t b) :
    repr64 t b = 0 ↔ b = 0 := by
  rw [← repr64_zero t]; exact repr64_inj h hb (inRange_zero (Or.inr h))

theorem raw_div_signed {t : IntTy} (h : t.Arith) (hs : t.signed = true) (sz : Nat) {a b : Int}
    (ha : InRange t a) (hb : InRange t b) (hb0 : b ≠ 0) (hov : ¬ (a = -(2 ^ 63) ∧ b = -1)) :
    binaryRaw ops .div (.int sz true) (repr64 t a) (repr64 t b) = some (ofI (Int.tdiv a b)) := by
  have hr0 : ¬ repr64 t b = 0 := fun e => hb0 ((repr64_eq_zero h hb).1 e)
  simp only [binaryRaw, Ty.isSigned, toI_repr64 h ha hs, toI_repr64 h hb hs, if_true]
  rw [if_neg]
  rintro (h1 | h1)
  · exact hr0 h1
  · exact hov h1

theorem raw_mod_signed {t : IntTy} (h : t.Arith) (hs : t.signed = true) (sz : Nat) {a b : Int}
    (ha : InRange t a) (hb : InRange t b) (hb0 : b ≠ 0) (hov : ¬ (a = -(2 ^ 63) ∧ b = -1)) :
    binaryRaw ops .mod (.int sz true) (repr64 t a) (repr64 t b) = some (ofI (Int.tmod a b)) := by
  have hr0 : ¬ repr64 t b = 0 := fun e => hb0 ((repr64_eq_zero h hb).1 e)
  simp only [binaryRaw, Ty.isSigned, toI_repr64 h ha hs, toI_repr64 h hb hs, if_true]
  rw [if_neg]
  rintro (h1 | h1)
  · exact hr0 h1
  · exact hov h1

theorem raw_div_unsigned {t : IntTy} (h : t.Arith) (hs : t.signed = false) (sz : Nat) {a b : Int}
    (ha : InRange t a) (hb : InRange t b) (hb0 : b ≠ 0) :
    binaryRaw ops .div (.int sz false) (repr64 t a) (repr64 t b) = some (ofI (Int.tdiv a b)) := by
  have hr0 : ¬ repr64 t b = 0 := fun e => hb0 ((repr64_eq_zero h hb).1 e)
  simp only [binaryRaw, Ty.isSigned, if_neg hr0, Bool.false_eq_true, if_false]
  congr 1
  have hla := repr64_unsigned h ha hs
  have hlb := repr64_unsigned h hb hs
  have hlt := repr64_lt t a
  generalize repr64 t a = l at *
  generalize repr64 t b = r at *
  rw [← hla, ← hlb, ← Int.ofNat_tdiv]
  refine (ofI_natCast ?_).symm
  exact Nat.lt_of_le_of_lt (Nat.div_le_self _ _) hlt

theorem raw_mod_unsigned {t : IntTy} (h : t.Arith) (hs : t.signed = false) (sz : Nat) {a b : Int}
    (ha : InRange t a) (hb : InRange t b) (hb0 : b ≠ 0) :
    binaryRaw ops .mod (.int sz false) (repr64 t a) (repr64 t b) = some (ofI (Int.tmod a b)) := by
  have hr0 : ¬ repr64 t b = 0 := fun e => hb0 ((repr64_eq_zero h hb).1 e)
  simp only [binaryRaw, Ty.isSigned, if_neg hr0, Bool.false_eq_true, if_false]
  congr 1
  have hla := repr64_unsigned h ha hs
  have hlb := repr64_unsigned h hb hs
  have hlt := repr64_lt t a
  generalize repr64 t a = l at *
  generalize repr64 t b = r at *
  rw [← hla, ← hlb, ← Int.ofNat_tmod]
  refine (ofI_natCast ?_).symm
  exact Nat.lt_of_le_of_lt (Nat.mod_le _ _) hlt

theorem and63 {n : Nat} (h : n < 64) : n &&& 63 = n := by
  have := Nat.and_two_pow_sub_one_eq_mod n 6
  simp only [Nat.reducePow, Nat.reduceSub] at this
  rw [this]; omega

theorem raw_shl (sz : Nat) (sg : Bool) (a : Int) {n : Nat} (hn : n < 64) :
    binaryRaw ops .shl (.int sz sg) (ofI a) n = some (ofI (a * 2 ^ n)) := by
  simp only [binaryRaw, and63 hn, Nat.shiftLeft_eq]
  congr 1
  apply eq_ofI
  rw [W_eq]
  have : ((ofI a * 2 ^ n % 18446744073709551616 : Nat) : Int)
      = ((ofI a : Nat) : Int) * ((2 ^ n : Nat) : Int) % 18446744073709551616 := rfl
  rw [this, natCast_ofI, Int.natCast_pow]
  have e1 := Int.mul_emod (a % 2 ^ 64) (((2 : Nat) : Int) ^ n) (2 ^ 64)
  have e2 := Int.mul_emod a (((2 : Nat) : Int) ^ n) (2 ^ 64)
  rw [Int.emod_emod] at e1
  exact e1.trans e2.symm

theorem raw_shr_unsigned {t : IntTy} (h : t.Arith) (hs : t.signed = false) (sz : Nat) {a : Int}
    (ha : InRange t a) {n : Nat} (hn : n < 64) :
    binaryRaw ops .shr (.int sz false) (repr64 t a) n = some (ofI (Int.fdiv a (2 ^ n))) := by
  simp only [binaryRaw, Ty.isSigned, and63 hn, Bool.false_eq_true, if_false, Nat.shiftRight_eq_div_pow]
  congr 1
  have hp : (0 : Int) ≤ 2 ^ n := Int.le_of_lt (Int.pow_pos (by decide))
  have hla := repr64_unsigned h ha hs
  have hlt := repr64_lt t a
  generalize repr64 t a = l at *
  rw [Int.fdiv_eq_ediv_of_nonneg _ hp, ← hla]
  have : (l : Int) / 2 ^ n = ((l / 2 ^ n : Nat) : Int) := by
    rw [Int.natCast_ediv, Int.natCast_pow]; rfl
  rw [this]
  refine (ofI_natCast ?_).symm
  exact Nat.lt_of_le_of_lt (Nat.div_le_self _ _) hlt

theorem raw_shr_signed {t : IntTy} (h : t.Arith) (hs : t.signed = true) (sz : Nat) {a : Int}
    (ha : InRange t a) {n : Nat} (hn : n < 64) :
    binaryRaw ops .shr (.int sz true) (repr64 t a) n = some (ofI (Int.fdiv a (2 ^ n))) := by
  simp only [binaryRaw, Ty.isSigned, and63 hn, if_true, toI_repr64 h ha hs]
  congr 2
  have hp : (0 : Int) ≤ 2 ^ n := Int.le_of_lt (Int.pow_pos (by decide))
  rw [Int.fdiv_eq_ediv_of_nonneg _ hp, Int.shiftRight_eq_div_pow, Int.natCast_pow]
  rfl

end Part2

section Part2b
variable {F : Type} (ops : FloatOps F)

theorem arith_wrap {t : IntTy} (h : t.Valid) {z v : Int} (hv : arith t z = some v) :
    wrap t v = wrap t z := by
  simp only [arith] at hv
  split at hv
  · split at hv
    · cases hv; rfl
    · cases hv
  · cases hv; exact wrap_wrap h z

theorem arith_signed {t : IntTy} (hs : t.signed = true) {z v : Int} (hv : arith t z = some v) :
    v = z ∧ InRange t z := by
  simp only [arith, hs, if_true] at hv
  split at hv
  · cases hv; exact ⟨rfl, by assumption⟩
  · cases hv

theorem repr64_small {t : IntTy} {b : Int} (h0 : 0 ≤ b) (h1 : b < 2 ^ 63) :
    repr64 t b = b.toNat := by
  simp only [repr64]; omega

theorem bits_le {t : IntTy} (h : t.Arith) : t.bits ≤ 64 := by
  rcases h with h | h | h | h <;> omega

theorem wrap_natCast_mod {t : IntTy} (h : t.Arith) (n : Nat) :
    wrap t ((n % 2 ^ t.bits : Nat) : Int) = wrap t (n : Int) := by
  arith_split h <;> simp only [wrap] <;> simp <;> omega

theorem repr64_mod_bits {t : IntTy} (h : t.Arith) (a : Int) :
    repr64 t a % 2 ^ t.bits = toBits t a := by
  arith_split h <;> simp only [repr64, toBits] <;> simp <;> omega

theorem b2n_eq (c : Bool) : b2n c = ofI (b2i c) := by cases c <;> decide

theorem int_arith : IntTy.int.Arith := by decide

theorem binResTy_cmp {op : BinOp} (h : op.isCmp = true) (t : IntTy) : binResTy op t = IntTy.int := by
  simp [binResTy, h]

theorem binResTy_ncmp {op : BinOp} (h : op.isCmp = false) (t : IntTy) : binResTy op t = t := by
  simp [binResTy, h]

/-- comparison operators: the raw result is the truth value of `c` -/
theorem binary_cmp {op : BinOp} {lty : Ty} {l r : Nat} {c : Bool}
    (hraw : binaryRaw ops op lty l r = some (b2n c)) :
    binary ops op lty l r (tyOf IntTy.int) = some (repr64 IntTy.int (wrap IntTy.int (b2i c))) := by
  rw [b2n_eq] at hraw
  exact binary_of_raw ops int_arith hraw

theorem lt_iff_signed {t : IntTy} (h : t.Arith) (hs : t.signed = true) {a b : Int}
    (ha : InRange t a) (hb : InRange t b) : toI (repr64 t a) < toI (repr64 t b) ↔ a < b := by
  rw [toI_repr64 h ha hs, toI_repr64 h hb hs]

theorem lt_iff_unsigned {t : IntTy} (h : t.Arith) (hs : t.signed = false) {a b : Int}
    (ha : InRange t a) (hb : InRange t b) : repr64 t a < repr64 t b ↔ a < b := by
  rw [← repr64_unsigned h ha hs, ← repr64_unsigned h hb hs]
  simp only [repr64]; omega

theorem le_iff_signed {t : IntTy} (h : t.Arith) (hs : t.signed = true) {a b : Int}
    (ha : InRange t a) (hb : InRange t b) : toI (repr64 t a) ≤ toI (repr64 t b) ↔ a ≤ b := by
  rw [toI_repr64 h ha hs, toI_repr64 h hb hs]

theorem le_iff_unsigned {t : IntTy} (h : t.Arith) (hs : t.signed = false) {a b : Int}
    (ha : InRange t a) (hb : InRange t b) : repr64 t a ≤ repr64 t b ↔ a ≤ b := by
  rw [← repr64_unsigned h ha hs, ← repr64_unsigned h hb hs]
  simp only [repr64]; omega

theorem no_overflow_of_inRange {t : IntTy} (h : t.Arith) {a b : Int}
    (hr : InRange t (Int.tdiv a b)) (hs : t.signed = true) : ¬ (a = -(2 ^ 63) ∧ b = -1) := by
  rintro ⟨rfl, rfl⟩
  have e : Int.tdiv (-(2 ^ 63)) (-1) = 2 ^ 63 := by decide
  rw [e] at hr
  arith_split h <;> simp [InRange, minVal, maxVal] at hr hs

theorem bitop_wrap {t : IntTy} (h : t.Arith) (f : Nat → Nat → Nat)
    (hf : ∀ x y, f x y % 2 ^ t.bits = f (x % 2 ^ t.bits) (y % 2 ^ t.bits)) (a b : Int) :
    wrap t ((f (repr64 t a) (repr64 t b) : Nat) : Int) = wrap t (ofBits t (f (toBits t a) (toBits t b))) := by
  simp only [ofBits]
  rw [wrap_wrap (Or.inr h), ← wrap_natCast_mod h, hf, repr64_mod_bits h, repr64_mod_bits h]

theorem binary_bitop {op : BinOp} {t : IntTy} (h : t.Arith) (f : Nat → Nat → Nat)
    (hf : ∀ x y, f x y % 2 ^ t.bits = f (x % 2 ^ t.bits) (y % 2 ^ t.bits))
    (hlt : ∀ x y, x < W → y < W → f x y < W) (a b : Int)
    (hraw : binaryRaw ops op (tyOf t) (repr64 t a) (repr64 t b) = some (f (repr64 t a) (repr64 t b))) :
    binary ops op (tyOf t) (repr64 t a) (repr64 t b) (tyOf t)
      = some (repr64 t (wrap t (ofBits t (f (toBits t a) (toBits t b))))) := by
  rw [← ofI_natCast (hlt _ _ (repr64_lt t a) (repr64_lt t b))] at hraw
  rw [binary_of_raw ops h hraw, bitop_wrap h f hf]

theorem binary_correct {t tr : IntTy} (ht : t.Arith) (htr : tr.Arith) (op : BinOp)
    (hop : op ≠ .lor ∧ op ≠ .land) (hty : op.isShift = false → tr = t)
    {a b v : Int} (ha : InRange t a) (hb : InRange tr b) (h : bin op t a b = some v) :
    binary ops op (tyOf t) (repr64 t a) (repr64 tr b) (tyOf (binResTy op t))
      = some (repr64 (binResTy op t) (wrap (binResTy op t) v)) := by
  have hv := Or.inr ht (a := t = IntTy.bool)
  cases op
  case lor => exact absurd rfl hop.1
  case land => exact absurd rfl hop.2
  case add =>
    cases hty rfl
    rw [binResTy_ncmp rfl, arith_wrap hv h]
    have := binary_of_raw ops ht (raw_add ops (t.bits / 8) t.signed a b)
    rw [← tyOf_arith ht] at this
    exact this
  case sub =>
    cases hty rfl
    rw [binResTy_ncmp rfl, arith_wrap hv h]
    have := binary_of_raw ops ht (raw_sub ops (t.bits / 8) t.signed a b)
    rw [← tyOf_arith ht] at this
    exact this
  case mul =>
    cases hty rfl
    rw [binResTy_ncmp rfl, arith_wrap hv h]
    have := binary_of_raw ops ht (raw_mul ops (t.bits / 8) t.signed a b)
    rw [← tyOf_arith ht] at this
    exact this
  case div =>
    cases hty rfl
    rw [binResTy_ncmp rfl]
    simp only [bin] at h
    split at h
    · cases h
    · rename_i hb0
      rw [arith_wrap hv h]
      cases hs : t.signed
      · have := binary_of_raw ops ht (raw_div_unsigned ops ht hs (t.bits / 8) ha hb hb0)
        rw [← hs, ← tyOf_arith ht] at this
        exact this
      · have hov := no_overflow_of_inRange ht (arith_signed hs h).2 hs
        have := binary_of_raw ops ht (raw_div_signed ops ht hs (t.bits / 8) ha hb hb0 hov)
        rw [← hs, ← tyOf_arith ht] at this
        exact this
  case mod =>
    cases hty rfl
    rw [binResTy_ncmp rfl]
    simp only [bin] at h
    split at h
    · cases h
    · rename_i hb0
      split at h
      · cases h
      · rename_i hnov
        cases h
        cases hs : t.signed
        · have := binary_of_raw ops ht (raw_mod_unsigned ops ht hs (t.bits / 8) ha hb hb0)
          rw [← hs, ← tyOf_arith ht] at this
          exact this
        · have hr : InRange t (Int.tdiv a b) := by
            apply Classical.byContradiction
            intro hn; exact hnov ⟨hs, hn⟩
          have hov := no_overflow_of_inRange ht hr hs
          have := binary_of_raw ops ht (raw_mod_signed ops ht hs (t.bits / 8) ha hb hb0 hov)
          rw [← hs, ← tyOf_arith ht] at this
          exact this
  case shl =>
    rw [binResTy_ncmp rfl]
    simp only [bin] at h
    split at h
    · cases h
    · rename_i hcnt
      have hbits := bits_le ht
      have h0 : 0 ≤ b := by omega
      have h1 : b < 64 := by omega
      have hn : b.toNat < 64 := by omega
      rw [repr64_small h0 (by omega)]
      have hraw := raw_shl ops (t.bits / 8) t.signed a hn
      have := binary_of_raw ops ht hraw
      rw [← tyOf_arith ht] at this
      have hw : wrap t v = wrap t (a * 2 ^ b.toNat) := by
        split at h
        · split at h
          · cases h
          · split at h
            · cases h; rfl
            · cases h
        · cases h; exact wrap_wrap hv _
      rw [hw]; exact this
  case shr =>
    rw [binResTy_ncmp rfl]
    simp only [bin] at h
    split at h
    · cases h
    · rename_i hcnt
      cases h
      have hbits := bits_le ht
      have h0 : 0 ≤ b := by omega
      have h1 : b < 64 := by omega
      have hn : b.toNat < 64 := by omega
      rw [repr64_small h0 (by omega)]
      cases hs : t.signed
      · have := binary_of_raw ops ht (raw_shr_unsigned ops ht hs (t.bits / 8) ha hn)
        rw [← hs, ← tyOf_arith ht] at this
        exact this
      · have := binary_of_raw ops ht (raw_shr_signed ops ht hs (t.bits / 8) ha hn)
        rw [← hs, ← tyOf_arith ht] at this
        exact this
  case band =>
    cases hty rfl
    rw [binResTy_ncmp rfl]
    simp only [bin] at h; cases h
    refine binary_bitop ops ht (· &&& ·) (fun x y => Nat.and_mod_two_pow) ?_ a b ?_
    · intro x y hx _; exact Nat.lt_of_le_of_lt Nat.and_le_left hx
    · rw [tyOf_arith ht]; rfl
  case bor =>
    cases hty rfl
    rw [binResTy_ncmp rfl]
    simp only [bin] at h; cases h
    refine binary_bitop ops ht (· ||| ·) (fun x y => Nat.or_mod_two_pow) ?_ a b ?_
    · intro x y hx hy; exact Nat.or_lt_two_pow hx hy
    · rw [tyOf_arith ht]; rfl
  case bxor =>
    cases hty rfl
    rw [binResTy_ncmp rfl]
    simp only [bin] at h; cases h
    refine binary_bitop ops ht (· ^^^ ·) (fun x y => Nat.xor_mod_two_pow) ?_ a b ?_
    · intro x y hx hy; exact Nat.xor_lt_two_pow hx hy
    · rw [tyOf_arith ht]; rfl
  case lt =>
    cases hty rfl
    rw [binResTy_cmp rfl]
    simp only [bin] at h; cases h
    apply binary_cmp
    rw [tyOf_arith ht]
    simp only [binaryRaw, Ty.isSigned]
    congr 2
    cases hs : t.signed
    · simp only [Bool.false_eq_true, if_false, decide_eq_decide]; exact lt_iff_unsigned ht hs ha hb
    · simp only [if_true, decide_eq_decide]; exact lt_iff_signed ht hs ha hb
  case gt =>
    cases hty rfl
    rw [binResTy_cmp rfl]
    simp only [bin] at h; cases h
    apply binary_cmp
    rw [tyOf_arith ht]
    simp only [binaryRaw, Ty.isSigned]
    congr 2
    cases hs : t.signed
    · simp only [Bool.false_eq_true, if_false, decide_eq_decide]; exact lt_iff_unsigned ht hs hb ha
    · simp only [if_true, decide_eq_decide]; exact lt_iff_signed ht hs hb ha
  case le =>
    cases hty rfl
    rw [binResTy_cmp rfl]
    simp only [bin] at h; cases h
    apply binary_cmp
    rw [tyOf_arith ht]
    simp only [binaryRaw, Ty.isSigned]
    congr 2
    cases hs : t.signed
    · simp only [Bool.false_eq_true, if_false, decide_eq_decide]; exact le_iff_unsigned ht hs ha hb
    · simp only [if_true, decide_eq_decide]; exact le_iff_signed ht hs ha hb
  case ge =>
    cases hty rfl
    rw [binResTy_cmp rfl]
    simp only [bin] at h; cases h
    apply binary_cmp
    rw [tyOf_arith ht]
    simp only [binaryRaw, Ty.isSigned]
    congr 2
    cases hs : t.signed
    · simp only [Bool.false_eq_true, if_false, decide_eq_decide]; exact le_iff_unsigned ht hs hb ha
    · simp only [if_true, decide_eq_decide]; exact le_iff_signed ht hs hb ha
  case eq =>
    cases hty rfl
    rw [binResTy_cmp rfl]
    simp only [bin] at h; cases h
    apply binary_cmp
    rw [tyOf_arith ht]
    simp only [binaryRaw]
    congr 2
    simp only [decide_eq_decide]; exact repr64_inj ht ha hb
  case ne =>
    cases hty rfl
    rw [binResTy_cmp rfl]
    simp only [bin] at h; cases h
    apply binary_cmp
    rw [tyOf_arith ht]
    simp only [binaryRaw]
    congr 2
    simp only [decide_eq_decide, ne_eq, (repr64_inj ht ha hb)]

end Part2b

theorem arith_inRange {t : IntTy} (h : t.Valid) {z v : Int} (hv : arith t z = some v) : InRange t v := by
  simp only [arith] at hv
  split at hv
  · split at hv
    · cases hv; assumption
    · cases hv
  · cases hv; exact wrap_inRange h z

theorem b2i_inRange (c : Bool) : InRange IntTy.int (b2i c) := by
  cases c <;> simp [InRange, minVal, maxVal, b2i, IntTy.int]

theorem ediv_pow_bounds (a : Int) (n : Nat) :
    (0 ≤ a → 0 ≤ a / 2 ^ n ∧ a / 2 ^ n ≤ a) ∧ (a < 0 → a ≤ a / 2 ^ n ∧ a / 2 ^ n < 0) := by
  have hp : (0 : Int) < 2 ^ n := Int.pow_pos (by decide)
  refine ⟨fun h => ⟨Int.ediv_nonneg h (Int.le_of_lt hp), Int.ediv_le_self _ h⟩, fun h => ⟨?_, ?_⟩⟩
  · apply Int.le_ediv_of_mul_le hp
    have := Int.mul_le_mul_of_nonpos_left (a := a) (b := 2 ^ n) (c := 1) (Int.le_of_lt h) (by omega)
    omega
  · exact Int.ediv_neg_of_neg_of_pos h hp

theorem tmod_bounds (a : Int) {b : Int} (_hb : b ≠ 0) :
    (0 < b → -b < Int.tmod a b ∧ Int.tmod a b < b) ∧ (b < 0 → b < Int.tmod a b ∧ Int.tmod a b < -b) := by
  refine ⟨fun h => ⟨Int.lt_tmod_of_pos a h, Int.tmod_lt_of_pos a h⟩, fun h => ?_⟩
  have h' : 0 < -b := by omega
  have e : Int.tmod a b = Int.tmod a (-b) := (Int.tmod_neg a b).symm
  rw [e]
  have := Int.lt_tmod_of_pos a h'
  exact ⟨by omega, Int.tmod_lt_of_pos a h'⟩

theorem bin_inRange {t : IntTy} (ht : t.Arith) (op : BinOp) {a b v : Int}
    (ha : InRange t a) (hb : op.isShift = false → InRange t b) (h : bin op t a b = some v) :
    InRange (binResTy op t) v := by
  have hv := Or.inr ht (a := t = IntTy.bool)
  cases op <;> simp only [bin] at h
  case add => exact arith_inRange hv h
  case sub => exact arith_inRange hv h
  case mul => exact arith_inRange hv h
  case div =>
    split at h
    · cases h
    · exact arith_inRange hv h
  case mod =>
    have hb := hb rfl
    rw [binResTy_ncmp rfl]
    split at h
    · cases h
    · rename_i hb0
      split at h
      · cases h
      · cases h
        have hbd := tmod_bounds a hb0
        have hnn : 0 ≤ a → 0 ≤ Int.tmod a b := fun h => Int.tmod_nonneg b h
        arith_split ht <;> simp [InRange, minVal, maxVal] at * <;> omega
  case shl =>
    rw [binResTy_ncmp rfl]
    split at h
    · cases h
    · split at h
      · split at h
        · cases h
        · split at h
          · cases h; assumption
          · cases h
      · cases h; exact wrap_inRange hv _
  case shr =>
    rw [binResTy_ncmp rfl]
    split at h
    · cases h
    · cases h
      have hp : (0 : Int) ≤ 2 ^ b.toNat := Int.le_of_lt (Int.pow_pos (by decide))
      rw [Int.fdiv_eq_ediv_of_nonneg _ hp]
      have := ediv_pow_bounds a b.toNat
      arith_split ht <;> simp [InRange, minVal, maxVal] at * <;> omega
  case band => cases h; exact wrap_inRange hv _
  case bor => cases h; exact wrap_inRange hv _
  case bxor => cases h; exact wrap_inRange hv _
  all_goals (cases h; exact b2i_inRange _)


section Part2c
variable {F : Type} (ops : FloatOps F)

/-! unary operators, as `unaryexpr` builds them -/

theorem unaryNeg_correct {t : IntTy} (ht : t.Arith) {a v : Int} (h : un .neg t a = some v) :
    unaryNeg ops (tyOf t) (tyOf t) (repr64 t a) = repr64 t (wrap t v) := by
  simp only [un] at h
  rw [arith_wrap (Or.inr ht) h]
  have e : (W - repr64 t a) % W = ofI (-a) := by
    rw [W_eq]; simp only [repr64, ofI]; omega
  simp only [unaryNeg, tyOf_arith ht, Ty.isFlt, Bool.false_eq_true, if_false, cast, e, cast_ofI ht]

/-- `~e` is compiled as `e ^ mkconstexpr(e->type, -1)`: the right operand carries 64 one bits
whatever the type is (not canonical for `unsigned int`); the final `cast` repairs it. -/
theorem bnot_correct {t : IntTy} (ht : t.Arith) {a v : Int} (h : un .bnot t a = some v) :
    foldBin ops .bxor (tyOf t) (repr64 t a) (W - 1) (tyOf t) = .folded (repr64 t (wrap t v)) := by
  simp only [un] at h; cases h
  have hx : repr64 t a ^^^ (W - 1) < W := Nat.xor_lt_two_pow (repr64_lt t a) (by decide)
  have hraw : binaryRaw ops .bxor (tyOf t) (repr64 t a) (W - 1) = some (ofI ((repr64 t a ^^^ (W - 1) : Nat) : Int)) := by
    rw [ofI_natCast hx, tyOf_arith ht]; rfl
  have hb := binary_of_raw ops ht hraw
  have hw : wrap t ((repr64 t a ^^^ (W - 1) : Nat) : Int)
      = wrap t (ofBits t (2 ^ t.bits - 1 - toBits t a)) := by
    simp only [ofBits]
    rw [wrap_wrap (Or.inr ht), ← wrap_natCast_mod ht, Nat.xor_mod_two_pow, repr64_mod_bits ht]
    congr 2
    have hlt : toBits t a < 2 ^ t.bits := by
      simp only [toBits]
      have : (0:Int) < 2 ^ t.bits := Int.pow_pos (by decide)
      have := Int.emod_lt_of_pos a this
      have h2 := Int.emod_nonneg a (Int.ne_of_gt ‹(0:Int) < 2 ^ t.bits›)
      have e : ((2 ^ t.bits : Nat) : Int) = (2 : Int) ^ t.bits := by rw [Int.natCast_pow]; rfl
      omega
    have hm : (W - 1) % 2 ^ t.bits = 2 ^ t.bits - 1 := by arith_split ht <;> decide
    rw [hm]
    -- x ^^^ (2^k - 1) = 2^k - 1 - x for x < 2^k
    apply Nat.eq_of_testBit_eq
    intro i
    rw [Nat.sub_sub, Nat.add_comm 1, Nat.testBit_xor, Nat.testBit_two_pow_sub_one,
      Nat.testBit_two_pow_sub_succ hlt]
    by_cases hi : i < t.bits
    · simp [hi]
    · have : toBits t a < 2 ^ i := Nat.lt_of_lt_of_le hlt (Nat.pow_le_pow_right (by omega) (by omega))
      simp [hi, Nat.testBit_lt_two_pow this]
  simp only [foldBin]
  rw [if_neg (by rintro ⟨h | h, _⟩ <;> cases h), hb, hw]

theorem lnot_correct {t : IntTy} (ht : t.Arith) {a v : Int} (ha : InRange t a)
    (h : un .lnot t a = some v) :
    foldBin ops .eq (tyOf t) (repr64 t a) 0 (tyOf IntTy.int)
      = .folded (repr64 IntTy.int (wrap IntTy.int v)) := by
  simp only [un] at h; cases h
  have hb : bin .eq t a 0 = some (b2i (decide (a = 0))) := rfl
  have := binary_correct ops ht ht .eq (by simp) (fun _ => rfl) ha (inRange_zero (Or.inr ht)) hb
  rw [repr64_zero, binResTy_cmp rfl] at this
  simp only [foldBin]
  rw [if_neg (by rintro ⟨h | h, _⟩ <;> cases h), this]

end Part2c

section Part2d
variable {F : Type} (ops : FloatOps F)

theorem castInt_ofI_bool (z : Int) : castInt 1 false (ofI z) = repr64 IntTy.uchar (wrap IntTy.uchar z) :=
  cast_ofI (t := IntTy.uchar) (by decide) z

theorem castConst_int_int (lsz : Nat) (ls : Bool) (tsz : Nat) (ts : Bool) (l : Nat) :
    castConst ops (.int lsz ls) (.int tsz ts) l = .const (.int tsz ts) (castInt tsz ts l) := rfl

theorem cast_correct_arith {f t : IntTy} (ht : t.Arith) (v : Int) :
    castConst ops (tyOf f) (tyOf t) (repr64 f v) = .const (tyOf t) (repr64 t (wrap t v)) := by
  show castConst ops (.int _ _) (tyOf t) _ = _
  rw [tyOf_arith ht, castConst_int_int, ← cast_ofI ht v]; rfl

/-- what the code does for a conversion to `_Bool`: it keeps the low 8 bits. -/
theorem cast_to_bool_model {f : IntTy} (v : Int) :
    castConst ops (tyOf f) (tyOf IntTy.bool) (repr64 f v)
      = .const (tyOf IntTy.bool) (repr64 IntTy.uchar (wrap IntTy.uchar v)) := by
  simp only [tyOf, castConst_int_int]
  rw [← castInt_ofI_bool v]; rfl

theorem repr64_eq_zero' {t : IntTy} (h : t.Valid) {b : Int} (hb : InRange t b) :
    repr64 t b = 0 ↔ b = 0 := by
  rcases h with h | h
  · subst h; simp [InRange, minVal, maxVal, IntTy.bool] at hb; simp only [repr64]; omega
  · exact repr64_eq_zero h hb

theorem istrue_int {t : IntTy} (h : t.Valid) {a : Int} (ha : InRange t a) :
    istrue ops (tyOf t) (repr64 t a) = decide (a ≠ 0) := by
  simp only [istrue, tyOf, Ty.isFlt, Bool.false_eq_true, if_false, ne_eq, repr64_eq_zero' h ha]

theorem b2n_le_one (c : Bool) : b2n c = 0 ∨ b2n c = 1 := by cases c <;> simp [b2n]

theorem repr64_b2i (c : Bool) : repr64 IntTy.int (b2i c) = b2n c := by cases c <;> decide

/-- the guard of `eval` covers every case in which `binary` would execute an undefined host
operation: integer operands are never folded into host UB, for any operands and any sizes. -/
theorem foldBin_no_hostUB (op : BinOp) (hop : op ≠ .lor ∧ op ≠ .land) (sz : Nat) (sg : Bool)
    (l r : Nat) (ty : Ty) : foldBin ops op (.int sz sg) l r ty ≠ .hostUB := by
  simp only [foldBin]
  split
  · simp
  · rename_i hg
    cases op <;> simp only [binary, binaryRaw, Ty.isSigned, Option.map_some] <;> try simp
    case lor => exact hop.1 rfl
    case land => exact hop.2 rfl
    case div =>
      simp only [divGuard, Ty.isInt, Ty.isSigned] at hg
      cases sg <;> simp at hg ⊢
      · rw [if_neg hg]; simp
      · rw [if_neg]
        · simp
        · rintro (h | ⟨h1, h2⟩)
          · exact hg.1 h
          · exact hg.2 h2 h1
    case mod =>
      simp only [divGuard, Ty.isInt, Ty.isSigned] at hg
      cases sg <;> simp at hg ⊢
      · rw [if_neg hg]; simp
      · rw [if_neg]
        · simp
        · rintro (h | ⟨h1, h2⟩)
          · exact hg.1 h
          · exact hg.2 h2 h1
    case shr => cases sg <;> simp

theorem foldBin_div_zero (op : BinOp) (hop : op = .div ∨ op = .mod) (sz : Nat) (sg : Bool) (l : Nat)
    (ty : Ty) : foldBin ops op (.int sz sg) l 0 ty = .unfolded := by
  simp only [foldBin, divGuard, Ty.isInt]
  rw [if_pos]; exact ⟨hop, by simp⟩

theorem foldBin_min_neg_one (op : BinOp) (hop : op = .div ∨ op = .mod) (sz : Nat) (ty : Ty) :
    foldBin ops op (.int sz true) (2 ^ 63) (W - 1) ty = .unfolded := by
  simp only [foldBin]
  rw [if_pos]
  refine ⟨hop, ?_⟩
  simp only [divGuard, Ty.isInt, Ty.isSigned]
  decide

theorem foldBin_shift_total (op : BinOp) (hop : op = .shl ∨ op = .shr) (sz : Nat) (sg : Bool)
    (l r : Nat) (ty : Ty) : ∃ u, foldBin ops op (.int sz sg) l r ty = .folded u := by
  rcases hop with rfl | rfl
  · simp [foldBin, binary, binaryRaw]
  · cases sg <;> simp [foldBin, binary, binaryRaw, Ty.isSigned]

end Part2d

/-! ## Part 3: the invariant and the induction over `eval` -/

def Ty.Wf : Ty → Prop
  | .int sz _ => sz = 1 ∨ sz = 2 ∨ sz = 4 ∨ sz = 8
  | _ => True

/-- the C type behind a model type `(size, signed)` (a 1-byte unsigned type is read as
`unsigned char`; eval.c cannot tell `_Bool` from it). -/
def ityOf (sz : Nat) (sg : Bool) : IntTy := ⟨sz * 8, sg⟩

/-- "the constant `u` of type `ty` is `repr64 t v` for some `v ∈ range t`". -/
def IsCanon : Ty → Nat → Prop
  | .int sz sg, u => ∃ v, InRange (ityOf sz sg) v ∧ u = repr64 (ityOf sz sg) v
  | _, _ => True

/-- the all-ones constant that `unaryexpr` creates for `~e` (`mkconstexpr(e->type, -1)`). -/
def MaskLeaf (e : Expr) : Prop := ∃ t, e = .const t (W - 1)

/-- Every integer constant node of type `t` carries `repr64 t v` for some `v ∈ range t` (and every
integer type has a real size).  Only exception: the right operand of `^` may be the all-ones
mask of `~`.  `Expr.bad` (host UB) never satisfies the invariant. -/
def Canon : Expr → Prop
  | .const t u => t.Wf ∧ IsCanon t u
  | .enumc t u => t.Wf ∧ IsCanon t u
  | .obj _ _ | .str _ _ | .compound _ _ _ | .opaque _ _ => True
  | .unary _ t b => t.Wf ∧ Canon b
  | .cast t b => t.Wf ∧ Canon b
  | .binary op t l r => t.Wf ∧ Canon l ∧ (Canon r ∨ (op = .bxor ∧ MaskLeaf r))
  | .cond t c a b => t.Wf ∧ Canon c ∧ Canon a ∧ Canon b
  | .error => True
  | .bad => False

theorem ityOf_arith {sz : Nat} {sg : Bool} (h : (Ty.int sz sg).Wf) : (ityOf sz sg).Arith := by
  simp only [Ty.Wf] at h
  rcases h with h | h | h | h <;> subst h <;> simp [ityOf, IntTy.Arith]

theorem tyOf_ityOf {sz : Nat} {sg : Bool} (h : (Ty.int sz sg).Wf) : tyOf (ityOf sz sg) = .int sz sg := by
  simp only [Ty.Wf] at h
  rcases h with h | h | h | h <;> subst h <;> simp [tyOf, ityOf]

theorem ityOf_bits_div {sz : Nat} {sg : Bool} : (ityOf sz sg).bits / 8 = sz := by
  simp [ityOf]

section
variable {F : Type} (ops : FloatOps F)

theorem cast_isCanon {t : Ty} (h : t.Wf) (x : Nat) : IsCanon t (cast ops t x) := by
  cases t with
  | int sz sg =>
    have ha := ityOf_arith h
    refine ⟨wrap (ityOf sz sg) (x : Int), wrap_inRange (Or.inr ha) _, ?_⟩
    have := castInt_nat ha x
    rw [ityOf_bits_div] at this
    exact this
  | _ => trivial

theorem isCanon_b2n {t : Ty} (h : t.Wf) (c : Bool) : IsCanon t (b2n c) := by
  cases t with
  | int sz sg =>
    refine ⟨b2i c, ?_, ?_⟩
    · simp only [Ty.Wf] at h
      rcases h with h | h | h | h <;> subst h <;> cases sg <;> cases c <;>
        simp [InRange, minVal, maxVal, ityOf, b2i]
    · cases c <;> simp [b2n, b2i, repr64]
  | _ => trivial

theorem castConst_canon {lty t : Ty} (h : t.Wf) (l : Nat) : Canon (castConst ops lty t l) := by
  unfold castConst
  split
  · exact ⟨h, cast_isCanon ops h _⟩
  · dsimp only
    split
    · split
      · exact ⟨h, cast_isCanon ops h _⟩
      · trivial
    · split
      · exact ⟨h, cast_isCanon ops h _⟩
      · trivial
  · exact ⟨h, cast_isCanon ops h _⟩

theorem binary_isCanon {op : BinOp} {lty ty : Ty} {l r u : Nat} (h : ty.Wf)
    (hb : binary ops op lty l r ty = some u) : IsCanon ty u := by
  simp only [binary] at hb
  cases hr : binaryRaw ops op lty l r with
  | none => rw [hr] at hb; cases hb
  | some x => rw [hr] at hb; cases hb; exact cast_isCanon ops h x

theorem evalAddSub_canon {op : BinOp} {ty : Ty} {l r : Expr}
    (ht : ty.Wf) (hl : Canon l) (hr : Canon r) :
    evalAddSub ops op ty l r = .bad ∨ Canon (evalAddSub ops op ty l r) := by
  have hdef : Canon (.binary op ty l r) := ⟨ht, hl, Or.inl hr⟩
  unfold evalAddSub
  simp only
  split
  · rename_i rty ru hr1
    split
    · rename_i lty lu hl1
      split
      · rename_i u hb; exact Or.inr ⟨ht, binary_isCanon ops ht hb⟩
      · exact Or.inl rfl
    · rename_i ll c1ty c1 hl1
      split
      · exact Or.inl rfl
      · rename_i hsw
        have hr1c : Canon (Expr.const rty ru) := by
          rw [← hr1]; split <;> assumption
        have hl1c : Canon (Expr.binary .add .ptr ll (.const c1ty c1)) := by
          rw [← hl1]; split <;> assumption
        split
        · rename_i u hb
          exact Or.inr ⟨ht, hl1c.2.1, Or.inl ⟨hr1c.1, binary_isCanon ops hr1c.1 hb⟩⟩
        · exact Or.inl rfl
    · exact Or.inr hdef
  · exact Or.inr hdef

theorem foldBin_isCanon {op : BinOp} {lty ty : Ty} {l r u : Nat} (h : ty.Wf)
    (hb : foldBin ops op lty l r ty = .folded u) : IsCanon ty u := by
  simp only [foldBin] at hb
  split at hb
  · cases hb
  · split at hb
    · rename_i u' hbin; cases hb; exact binary_isCanon ops h hbin
    · cases hb

theorem canon_of_isFail {e : Expr} (h : e.isFail = true) : e = .bad ∨ Canon e := by
  cases e <;> simp [Expr.isFail] at h
  · exact Or.inr trivial
  · exact Or.inl rfl

theorem eval_maskLeaf {e : Expr} (h : MaskLeaf e) : eval ops e = e := by
  obtain ⟨t, rfl⟩ := h; simp [eval]

theorem eval_canon (e : Expr) : Canon e → eval ops e = .bad ∨ Canon (eval ops e) := by
  induction e with
  | const t u => intro h; exact Or.inr (by simpa [eval] using h)
  | enumc t u => intro h; exact Or.inr (by simpa [eval, Canon] using h)
  | obj t n => intro _; exact Or.inr (by simp [eval, Canon])
  | str t i => intro _; exact Or.inr (by simp [eval, Canon])
  | compound t st i => intro _; refine Or.inr ?_; simp only [eval]; split <;> trivial
  | «opaque» t i => intro _; exact Or.inr (by simp [eval, Canon])
  | cond t c a b _ _ _ => intro h; exact Or.inr (by simpa [eval] using h)
  | error => intro _; exact Or.inr (by simp [eval, Canon])
  | bad => intro h; exact absurd h (by simp [Canon])
  | unary op t base ih =>
    intro h
    obtain ⟨ht, hb⟩ := h
    have ihb := ih hb
    simp only [eval]
    split
    · rename_i hf; exact canon_of_isFail hf
    · rename_i hf
      rcases ihb with ihb | ihb
      · rw [ihb] at hf; simp [Expr.isFail] at hf
      · cases op
        · -- addr
          dsimp only
          split
          · rename_i b hl; rw [hl] at ihb; exact Or.inr ihb.2
          · exact Or.inr ⟨ht, trivial⟩
          · exact Or.inr ⟨ht, ihb⟩
        · exact Or.inr ⟨ht, ihb⟩
        · dsimp only
          split
          · exact Or.inr ⟨ht, cast_isCanon ops ht _⟩
          · exact Or.inr ⟨ht, ihb⟩
  | cast t base ih =>
    intro h
    obtain ⟨ht, hb⟩ := h
    have ihb := ih hb
    simp only [eval]
    split
    · rename_i hf; exact canon_of_isFail hf
    · rename_i hf
      rcases ihb with ihb | ihb
      · rw [ihb] at hf; simp [Expr.isFail] at hf
      · split
        · exact Or.inr (castConst_canon ops ht _)
        · split
          · exact Or.inr ihb
          · exact Or.inr ⟨ht, ihb⟩
  | binary op t a b iha ihb =>
    intro h
    obtain ⟨ht, ha, hb⟩ := h
    have iha' := iha ha
    -- the evaluated right operand is canonical, or still the mask of `~`
    have ihb' : eval ops b = .bad ∨ Canon (eval ops b) ∨ (op = .bxor ∧ MaskLeaf (eval ops b)) := by
      rcases hb with hb | ⟨ho, hm⟩
      · rcases ihb hb with h | h
        · exact Or.inl h
        · exact Or.inr (Or.inl h)
      · rw [eval_maskLeaf ops hm]; exact Or.inr (Or.inr ⟨ho, hm⟩)
    simp only [eval]
    split
    · rename_i hf; exact canon_of_isFail hf
    · rename_i hfl
      split
      · rename_i hf; exact canon_of_isFail hf
      · rename_i hfr
        rcases iha' with iha' | iha'
        · rw [iha'] at hfl; simp [Expr.isFail] at hfl
        · rcases ihb' with ihb' | ihb'
          · rw [ihb'] at hfr; simp [Expr.isFail] at hfr
          · have hdef : Canon (.binary op t (eval ops a) (eval ops b)) := ⟨ht, iha', ihb'⟩
            split
            · -- add
              rcases ihb' with ihb' | ⟨ho, _⟩
              · exact evalAddSub_canon ops ht iha' ihb'
              · cases ho
            · rcases ihb' with ihb' | ⟨ho, _⟩
              · exact evalAddSub_canon ops ht iha' ihb'
              · cases ho
            · -- lor / land
              split
              · split
                · split
                  · exact Or.inr ⟨ht, isCanon_b2n ht _⟩
                  · exact Or.inr hdef
                · exact Or.inr ⟨ht, isCanon_b2n ht _⟩
              · exact Or.inr hdef
            · split
              · split
                · split
                  · exact Or.inr ⟨ht, isCanon_b2n ht _⟩
                  · exact Or.inr hdef
                · exact Or.inr ⟨ht, isCanon_b2n ht _⟩
              · exact Or.inr hdef
            · split
              · split
                · rename_i u hf; exact Or.inr ⟨ht, foldBin_isCanon ops ht hf⟩
                · exact Or.inr hdef
                · exact Or.inl rfl
              · exact Or.inr hdef

end

/-- value denoted by the 64-bit pattern `u` of a constant whose type is signed / unsigned. -/
def valOf (sg : Bool) (u : Nat) : Int := if sg then toI u else (u : Int)

/-- The integer fragment: constants, enum constants, unary minus, casts and binary operators,
every node of integer type. -/
def IntFrag : Expr → Prop
  | .const t _ => t.isInt = true
  | .enumc t _ => t.isInt = true
  | .unary op t b => op = .neg ∧ t.isInt = true ∧ IntFrag b
  | .cast t b => t.isInt = true ∧ IntFrag b
  | .binary _ t l r => t.isInt = true ∧ IntFrag l ∧ IntFrag r
  | _ => False

/-- C11 value of an expression of the integer fragment (`none`: undefined behaviour, or not
typed the way `mkbinaryexpr`/`unaryexpr` type their nodes: both operands of an arithmetic or
comparison operator have the common type, the result of a comparison or logical operator is
`int`, the result of a shift has the type of the promoted left operand). -/
def evalC : Expr → Option Int
  | .const (.int _ sg) u => some (valOf sg u)
  | .enumc (.int _ sg) u => some (valOf sg u)
  | .unary .neg (.int sz sg) b =>
    if b.ty = .int sz sg then (evalC b).bind (un .neg (ityOf sz sg)) else none
  | .cast (.int sz sg) b => (evalC b).map (wrap (ityOf sz sg))
  | .binary op (.int sz sg) l r =>
    match l.ty, r.ty with
    | .int lsz lsg, .int rsz rsg =>
      if op = .lor ∨ op = .land then
        (if sz = 4 ∧ sg = true then
          (evalC l).bind fun a => if op = .lor then lorSC a (evalC r) else landSC a (evalC r)
         else none)
      else if (op.isShift = true ∨ (rsz = lsz ∧ rsg = lsg)) ∧
          Ty.int sz sg = tyOf (binResTy op (ityOf lsz lsg)) then
        (if op = .bxor ∧ r = .const (.int rsz rsg) (W - 1) then
          (evalC l).bind (un .bnot (ityOf lsz lsg))        -- `~l`, as `unaryexpr` builds it
         else (evalC l).bind fun a => (evalC r).bind fun b => bin op (ityOf lsz lsg) a b)
      else none
    | _, _ => none
  | _ => none

theorem valOf_repr64 {sz : Nat} {sg : Bool} (h : (Ty.int sz sg).Wf) {v : Int}
    (hv : InRange (ityOf sz sg) v) : valOf sg (repr64 (ityOf sz sg) v) = v := by
  have ha := ityOf_arith h
  cases sg
  · simp only [valOf, Bool.false_eq_true, if_false]; exact repr64_unsigned ha hv rfl
  · simp only [valOf, if_true]; exact toI_repr64 ha hv rfl

theorem canon_ty_wf {e : Expr} (hc : Canon e) (hi : IntFrag e) : e.ty.Wf := by
  cases e <;> simp only [IntFrag] at hi <;> first | exact hc.1 | exact hi.elim

section
variable {F : Type} (ops : FloatOps F)

theorem isInt_iff {t : Ty} : t.isInt = true ↔ ∃ sz sg, t = .int sz sg := by
  cases t <;> simp [Ty.isInt]

theorem evalAddSub_intFrag {op : BinOp} {ty : Ty} {l r : Expr} (hop : op = .add ∨ op = .sub)
    (ht : ty.isInt = true) (hl : IntFrag l) (hr : IntFrag r) :
    IntFrag (evalAddSub ops op ty l r) ∧ (evalAddSub ops op ty l r).ty = ty := by
  have hdef : IntFrag (.binary op ty l r) ∧ (Expr.binary op ty l r).ty = ty := ⟨⟨ht, hl, hr⟩, rfl⟩
  unfold evalAddSub
  simp only
  split
  · rename_i rty ru hr1
    split
    · rename_i lty lu hl1
      have hlty : lty.isInt = true := by
        have : IntFrag (Expr.const lty lu) := by rw [← hl1]; split <;> assumption
        exact this
      obtain ⟨lsz, lsg, rfl⟩ := isInt_iff.1 hlty
      have : ∃ u, binary ops op (.int lsz lsg) lu ru ty = some u := by
        rcases hop with rfl | rfl <;> simp [binary, binaryRaw]
      obtain ⟨u, hu⟩ := this
      rw [hu]; exact ⟨ht, rfl⟩
    · rename_i ll c1ty c1 hl1
      have : IntFrag (Expr.binary .add .ptr ll (.const c1ty c1)) := by rw [← hl1]; split <;> assumption
      simp [IntFrag, Ty.isInt] at this
    · exact hdef
  · exact hdef

theorem castConst_intFrag {lsz : Nat} {lsg : Bool} {t : Ty} (ht : t.isInt = true) (l : Nat) :
    IntFrag (castConst ops (.int lsz lsg) t l) ∧ (castConst ops (.int lsz lsg) t l).ty = t := by
  obtain ⟨sz, sg, rfl⟩ := isInt_iff.1 ht
  exact ⟨ht, rfl⟩

theorem eval_intFrag (e : Expr) : IntFrag e → IntFrag (eval ops e) ∧ (eval ops e).ty = e.ty := by
  induction e with
  | const t u => intro h; exact ⟨by simpa [eval] using h, by simp [eval, Expr.ty]⟩
  | enumc t u => intro h; exact ⟨by simpa [eval, IntFrag] using h, by simp [eval, Expr.ty]⟩
  | obj t n => intro h; exact h.elim
  | str t i => intro h; exact h.elim
  | compound t st i => intro h; exact h.elim
  | «opaque» t i => intro h; exact h.elim
  | cond t c a b _ _ _ => intro h; exact h.elim
  | error => intro h; exact h.elim
  | bad => intro h; exact h.elim
  | unary op t base ih =>
    rintro ⟨rfl, ht, hb⟩
    obtain ⟨ih1, ih2⟩ := ih hb
    have hnf : (eval ops base).isFail = false := by
      cases h : eval ops base <;> simp [Expr.isFail] <;> (rw [h] at ih1; exact ih1.elim)
    simp only [eval, hnf, Bool.false_eq_true, if_false]
    split
    · exact ⟨ht, rfl⟩
    · exact ⟨⟨rfl, ht, ih1⟩, rfl⟩
  | cast t base ih =>
    rintro ⟨ht, hb⟩
    obtain ⟨ih1, ih2⟩ := ih hb
    have hnf : (eval ops base).isFail = false := by
      cases h : eval ops base <;> simp [Expr.isFail] <;> (rw [h] at ih1; exact ih1.elim)
    simp only [eval, hnf, Bool.false_eq_true, if_false]
    split
    · rename_i lty u hl
      rw [hl] at ih1
      obtain ⟨lsz, lsg, rfl⟩ := isInt_iff.1 ih1
      exact castConst_intFrag ops ht u
    · split
      · rename_i hp
        obtain ⟨sz, sg, hty⟩ := isInt_iff.1 (show (eval ops base).ty.isInt = true by
          cases h : eval ops base <;> rw [h] at ih1 <;> simp only [IntFrag] at ih1 <;>
            first | exact ih1.elim | exact ih1 | exact ih1.1 | exact ih1.2.1)
        rw [hty] at hp; simp at hp
      · exact ⟨⟨ht, ih1⟩, rfl⟩
  | binary op t a b iha ihb =>
    rintro ⟨ht, ha, hb⟩
    obtain ⟨iha1, iha2⟩ := iha ha
    obtain ⟨ihb1, ihb2⟩ := ihb hb
    have hnfa : (eval ops a).isFail = false := by
      cases h : eval ops a <;> simp [Expr.isFail] <;> (rw [h] at iha1; exact iha1.elim)
    have hnfb : (eval ops b).isFail = false := by
      cases h : eval ops b <;> simp [Expr.isFail] <;> (rw [h] at ihb1; exact ihb1.elim)
    have hdef : IntFrag (.binary op t (eval ops a) (eval ops b)) ∧
        (Expr.binary op t (eval ops a) (eval ops b)).ty = (Expr.binary op t a b).ty :=
      ⟨⟨ht, iha1, ihb1⟩, rfl⟩
    simp only [eval, hnfa, hnfb, Bool.false_eq_true, if_false]
    split
    · exact evalAddSub_intFrag ops (Or.inl rfl) ht iha1 ihb1
    · exact evalAddSub_intFrag ops (Or.inr rfl) ht iha1 ihb1
    · split
      · split
        · split
          · exact ⟨ht, rfl⟩
          · exact hdef
        · exact ⟨ht, rfl⟩
      · exact hdef
    · split
      · split
        · split
          · exact ⟨ht, rfl⟩
          · exact hdef
        · exact ⟨ht, rfl⟩
      · exact hdef
    · rename_i hop1 hop2 hop3 hop4
      split
      · rename_i lty lu rty ru hl hr
        rw [hl] at iha1
        obtain ⟨lsz, lsg, rfl⟩ := isInt_iff.1 iha1
        split
        · exact ⟨ht, rfl⟩
        · exact hdef
        · rename_i hf
          exact absurd hf (foldBin_no_hostUB ops op ⟨fun h => hop3 h, fun h => hop4 h⟩ lsz lsg lu ru t)
      · exact hdef

end

section
variable {F : Type} (ops : FloatOps F)

/-- shape of the conclusion of `eval_correct`. -/
def FoldsTo (e : Expr) (v : Int) : Prop :=
  ∃ sz sg, e.ty = .int sz sg ∧ InRange (ityOf sz sg) v ∧
    eval ops e = .const (.int sz sg) (repr64 (ityOf sz sg) v)

theorem divGuard_false_of_defined {t : IntTy} (ht : t.Arith) {op : BinOp} (hop : op = .div ∨ op = .mod)
    {a b v : Int} (ha : InRange t a) (hb : InRange t b) (h : bin op t a b = some v) :
    divGuard (tyOf t) (repr64 t a) (repr64 t b) = false := by
  have hb0 : b ≠ 0 := by
    rcases hop with rfl | rfl <;> simp only [bin] at h <;> (intro e; simp [e] at h)
  have hr0 : ¬ repr64 t b = 0 := fun e => hb0 ((repr64_eq_zero ht hb).1 e)
  rw [tyOf_arith ht]
  simp only [divGuard, Ty.isInt, Ty.isSigned, Bool.true_and, decide_eq_false hr0, Bool.false_or]
  cases hs : t.signed
  · simp
  · simp only [Bool.true_and, toI_repr64 ht ha hs, toI_repr64 ht hb hs]
    have hr : InRange t (Int.tdiv a b) := by
      rcases hop with rfl | rfl <;> simp only [bin, if_neg hb0] at h
      · exact (arith_signed hs h).2
      · apply Classical.byContradiction
        intro hn; rw [if_pos ⟨hs, hn⟩] at h; cases h
    have := no_overflow_of_inRange ht hr hs
    by_cases h1 : b = -1 <;> by_cases h2 : a = -(2 ^ 63) <;> simp [h1, h2]
    · exact this ⟨h2, h1⟩
    · omega

theorem foldBin_correct {t tr : IntTy} (ht : t.Arith) (htr : tr.Arith) (op : BinOp)
    (hop : op ≠ .lor ∧ op ≠ .land) (hty : op.isShift = false → tr = t)
    {a b v : Int} (ha : InRange t a) (hb : InRange tr b) (h : bin op t a b = some v) :
    foldBin ops op (tyOf t) (repr64 t a) (repr64 tr b) (tyOf (binResTy op t))
      = .folded (repr64 (binResTy op t) v) := by
  have hbin := binary_correct ops ht htr op hop hty ha hb h
  have hres : (binResTy op t).Valid := by
    simp only [binResTy]; split
    · exact Or.inr int_arith
    · exact Or.inr ht
  have hvr : InRange (binResTy op t) v := by
    refine bin_inRange ht op ha (fun hs => ?_) h
    cases hty hs; exact hb
  rw [wrap_of_inRange hres hvr] at hbin
  simp only [foldBin]
  split
  · rename_i hg
    obtain ⟨ho, hg⟩ := hg
    have hs : op.isShift = false := by rcases ho with rfl | rfl <;> rfl
    cases hty hs
    rw [divGuard_false_of_defined ht ho ha hb h] at hg
    cases hg
  · rw [hbin]

theorem not_isFail_of_const {e : Expr} {t : Ty} {u : Nat} (h : e = .const t u) : e.isFail = false := by
  subst h; rfl

theorem tyOf_binResTy {op : BinOp} {lsz : Nat} {lsg : Bool} (h : (Ty.int lsz lsg).Wf) :
    tyOf (binResTy op (ityOf lsz lsg)) = if op.isCmp then .int 4 true else .int lsz lsg := by
  simp only [binResTy]
  split
  · rfl
  · exact tyOf_ityOf h

theorem ityOf_int : ityOf 4 true = IntTy.int := rfl

theorem eval_correct (e : Expr) : IntFrag e → Canon e → ∀ v, evalC e = some v → FoldsTo ops e v := by
  induction e with
  | obj t n => intro h; exact h.elim
  | str t i => intro h; exact h.elim
  | compound t st i => intro h; exact h.elim
  | «opaque» t i => intro h; exact h.elim
  | cond t c a b _ _ _ => intro h; exact h.elim
  | error => intro h; exact h.elim
  | bad => intro h; exact h.elim
  | const t u =>
    intro hi hc v hv
    obtain ⟨sz, sg, rfl⟩ := isInt_iff.1 hi
    obtain ⟨hw, v', hr, rfl⟩ := hc
    simp only [evalC, valOf_repr64 hw hr, Option.some.injEq] at hv
    subst hv
    exact ⟨sz, sg, rfl, hr, by simp [eval]⟩
  | enumc t u =>
    intro hi hc v hv
    obtain ⟨sz, sg, rfl⟩ := isInt_iff.1 hi
    obtain ⟨hw, v', hr, rfl⟩ := hc
    simp only [evalC, valOf_repr64 hw hr, Option.some.injEq] at hv
    subst hv
    exact ⟨sz, sg, rfl, hr, by simp [eval]⟩
  | unary op t base ih =>
    rintro ⟨rfl, hi, hb⟩ ⟨hw, hcb⟩ v hv
    obtain ⟨sz, sg, rfl⟩ := isInt_iff.1 hi
    simp only [evalC] at hv
    split at hv
    · rename_i hty
      cases hev : evalC base with
      | none => rw [hev] at hv; cases hv
      | some a =>
        rw [hev, Option.bind_some] at hv
        obtain ⟨sz', sg', hty', hra, he⟩ := ih hb hcb a hev
        rw [hty] at hty'; cases hty'
        have har := ityOf_arith hw
        refine ⟨sz, sg, rfl, ?_, ?_⟩
        · simp only [un] at hv; exact arith_inRange (Or.inr har) hv
        · have := unaryNeg_correct ops har hv
          rw [tyOf_ityOf hw] at this
          have hwv : wrap (ityOf sz sg) v = v := by
            simp only [un] at hv
            exact wrap_of_inRange (Or.inr har) (arith_inRange (Or.inr har) hv)
          rw [hwv] at this
          simp only [eval, he, Expr.isFail, Bool.false_eq_true, if_false, this]
    · cases hv
  | cast t base ih =>
    rintro ⟨hi, hb⟩ ⟨hw, hcb⟩ v hv
    obtain ⟨sz, sg, rfl⟩ := isInt_iff.1 hi
    simp only [evalC] at hv
    cases hev : evalC base with
    | none => rw [hev] at hv; cases hv
    | some a =>
      rw [hev, Option.map_some] at hv; cases hv
      obtain ⟨sz', sg', hty', hra, he⟩ := ih hb hcb a hev
      have har := ityOf_arith hw
      refine ⟨sz, sg, rfl, wrap_inRange (Or.inr har) a, ?_⟩
      simp only [eval, he, Expr.isFail, Bool.false_eq_true, if_false, castConst_int_int]
      have := cast_ofI har a
      rw [ityOf_bits_div] at this
      rw [← this]; rfl
  | binary op t l r ihl ihr =>
    rintro ⟨hi, hil, hir⟩ ⟨hw, hcl, hcr⟩ v hv
    obtain ⟨sz, sg, rfl⟩ := isInt_iff.1 hi
    simp only [evalC] at hv
    split at hv
    case h_2 => cases hv
    rename_i lsz lsg rsz rsg hlty hrty
    have hlw : (Ty.int lsz lsg).Wf := by rw [← hlty]; exact canon_ty_wf hcl hil
    have hla := ityOf_arith hlw
    have hnfr : (eval ops r).isFail = false := by
      have := (eval_intFrag ops r hir).1
      cases h : eval ops r <;> simp [Expr.isFail] <;> (rw [h] at this; exact this.elim)
    split at hv
    · -- `||`, `&&`
      rename_i hop
      split at hv
      case isFalse => cases hv
      rename_i hty
      obtain ⟨rfl, rfl⟩ := hty
      cases hel : evalC l with
      | none => rw [hel] at hv; cases hv
      | some a =>
        rw [hel, Option.bind_some] at hv
        obtain ⟨sz', sg', hty', hra, he⟩ := ihl hil hcl a hel
        rw [hlty] at hty'; cases hty'
        have hist : istrue ops (.int lsz lsg) (repr64 (ityOf lsz lsg) a) = decide (a ≠ 0) := by
          have := istrue_int ops (Or.inr hla) hra
          rwa [tyOf_ityOf hlw] at this
        -- the right operand, when it is needed
        have hright : ∀ b, evalC r = some b → ∃ rty ru, eval ops r = .const rty ru ∧
            istrue ops rty ru = decide (b ≠ 0) := by
          intro b hb
          have hcr' : Canon r := by
            rcases hcr with h | ⟨ho, _⟩
            · exact h
            · rcases hop with h | h <;> rw [h] at ho <;> cases ho
          obtain ⟨rsz', rsg', hrt', hrb, her⟩ := ihr hir hcr' b hb
          rw [hrty] at hrt'; cases hrt'
          have hrw : (Ty.int rsz rsg).Wf := by rw [← hrty]; exact canon_ty_wf hcr' hir
          refine ⟨_, _, her, ?_⟩
          have := istrue_int ops (Or.inr (ityOf_arith hrw)) hrb
          rwa [tyOf_ityOf hrw] at this
        refine ⟨4, true, rfl, ?_, ?_⟩
        · split at hv
          · simp only [lorSC] at hv
            split at hv
            · cases hv; decide
            · cases her : evalC r with
              | none => rw [her] at hv; cases hv
              | some b => rw [her] at hv; cases hv; exact b2i_inRange _
          · simp only [landSC] at hv
            split at hv
            · cases hv; decide
            · cases her : evalC r with
              | none => rw [her] at hv; cases hv
              | some b => rw [her] at hv; cases hv; exact b2i_inRange _
        · rcases hop with rfl | rfl
          · simp only [if_true, lorSC] at hv
            simp only [eval, not_isFail_of_const he, hnfr, Bool.false_eq_true, if_false]
            simp only [he, hist]
            by_cases ha0 : a = 0
            · subst ha0
              simp only [ne_eq, not_true, if_false] at hv
              cases her : evalC r with
              | none => rw [her] at hv; cases hv
              | some b =>
                rw [her] at hv; cases hv
                obtain ⟨rty, ru, her', hist'⟩ := hright b her
                simp [her', hist', ityOf_int, repr64_b2i]
            · simp only [ne_eq, ha0, not_false_eq_true, if_true] at hv
              cases hv
              simp [ha0, ityOf_int]; decide
          · simp only [landSC] at hv
            simp only [eval, not_isFail_of_const he, hnfr, Bool.false_eq_true, if_false]
            simp only [he, hist]
            by_cases ha0 : a = 0
            · subst ha0
              simp at hv; cases hv
              simp [ityOf_int]; decide
            · simp only [ha0, if_false] at hv
              cases her : evalC r with
              | none => rw [her] at hv; simp at hv
              | some b =>
                rw [her] at hv; simp at hv; cases hv
                obtain ⟨rty, ru, her', hist'⟩ := hright b her
                simp [ha0, her', hist', ityOf_int, repr64_b2i]
    · rename_i hop
      have hop' : op ≠ .lor ∧ op ≠ .land := ⟨fun h => hop (Or.inl h), fun h => hop (Or.inr h)⟩
      split at hv
      case isFalse => cases hv
      rename_i htyp
      obtain ⟨hshape, hres⟩ := htyp
      split at hv
      · -- `~l`
        rename_i hmask
        obtain ⟨rfl, rfl⟩ := hmask
        have hres' : Ty.int sz sg = Ty.int lsz lsg := by rw [hres, tyOf_binResTy hlw]; rfl
        cases hres'
        cases hel : evalC l with
        | none => rw [hel] at hv; cases hv
        | some a =>
          rw [hel, Option.bind_some] at hv
          obtain ⟨sz', sg', hty', hra, he⟩ := ihl hil hcl a hel
          rw [hlty] at hty'; cases hty'
          have hvr : InRange (ityOf sz sg) v := by
            simp only [un] at hv; cases hv; exact wrap_inRange (Or.inr hla) _
          have := bnot_correct ops hla hv
          rw [tyOf_ityOf hlw, wrap_of_inRange (Or.inr hla) hvr] at this
          refine ⟨sz, sg, rfl, hvr, ?_⟩
          simp only [eval, not_isFail_of_const he, Bool.false_eq_true, if_false]
          simp [he, this, Expr.isFail]
      · rename_i hnmask
        have hcr' : Canon r := by
          rcases hcr with h | ⟨ho, t', hr'⟩
          · exact h
          · exfalso; apply hnmask
            subst hr'
            simp only [Expr.ty] at hrty
            subst hrty
            exact ⟨ho, rfl⟩
        have hrw : (Ty.int rsz rsg).Wf := by rw [← hrty]; exact canon_ty_wf hcr' hir
        have hra' := ityOf_arith hrw
        cases hel : evalC l with
        | none => rw [hel] at hv; cases hv
        | some a =>
          rw [hel, Option.bind_some] at hv
          cases her : evalC r with
          | none => rw [her] at hv; cases hv
          | some b =>
            rw [her, Option.bind_some] at hv
            obtain ⟨sz', sg', hty', hra, he⟩ := ihl hil hcl a hel
            rw [hlty] at hty'; cases hty'
            obtain ⟨rsz', rsg', hrt', hrb, her'⟩ := ihr hir hcr' b her
            rw [hrty] at hrt'; cases hrt'
            have hty : op.isShift = false → ityOf rsz rsg = ityOf lsz lsg := by
              intro hs
              rcases hshape with h | ⟨h1, h2⟩
              · rw [hs] at h; cases h
              · rw [h1, h2]
            have hf := foldBin_correct ops hla hra' op hop' hty hra hrb hv
            rw [tyOf_ityOf hlw, ← hres] at hf
            have hvr : InRange (binResTy op (ityOf lsz lsg)) v := by
              refine bin_inRange hla op hra (fun hs => ?_) hv
              rw [← hty hs]; exact hrb
            -- the result type, as an `IntTy`
            have hrt : binResTy op (ityOf lsz lsg) = ityOf sz sg := by
              rw [tyOf_binResTy hlw] at hres
              simp only [binResTy]
              split at hres <;> rename_i hc <;> simp only [hc, if_true, Bool.false_eq_true, if_false] <;>
                cases hres <;> rfl
            rw [hrt] at hf hvr
            refine ⟨sz, sg, rfl, hvr, ?_⟩
            have hb2 : binary ops op (.int lsz lsg) (repr64 (ityOf lsz lsg) a) (repr64 (ityOf rsz rsg) b)
                (.int sz sg) = some (repr64 (ityOf sz sg) v) := by
              simp only [foldBin] at hf
              split at hf
              · cases hf
              · split at hf
                · rename_i u hu; cases hf; exact hu
                · cases hf
            simp only [eval, not_isFail_of_const he, not_isFail_of_const her', Bool.false_eq_true, if_false]
            simp only [he, her']
            cases op <;> simp only [hf] <;> first
              | exact absurd rfl hop'.1
              | exact absurd rfl hop'.2
              | simp [evalAddSub, Expr.isBinary, hb2]

end

end CprocVerif.Eval

/-
  C01, fragment 𝔽₂ — the initialiser of one element of a local array (`T a[n] = {…};`, `funcinit`): the address
  of the element by a constant offset, the value, the store.
-/
import CprocVerif.Lemmas.Lower2Leaf3

set_option linter.unusedSimpArgs false

namespace CprocVerif.LowerMach2
open CprocVerif.Qbe CprocVerif.Lower CprocVerif.Lower2 CprocVerif.CSem CprocVerif.CSem2 CprocVerif.CInt
open CprocVerif.LowerArith CprocVerif.LowerMach CprocVerif.LowerMem

theorem readVal_tmp_inv' {p : Prog} {env : Env} {n : String} {v : RVal}
    (h : readVal p env (.tmp n) = .ok v) : env[n]? = some v := by
  simp only [readVal] at h
  split at h
  · rename_i x hx
    simp only [Except.ok.injEq] at h
    rw [hx, h]
  · cases h

/-- `initAddr`: a temporary below the new `lastid` holds the slot address plus the constant offset -/
theorem sim_initAddr (T : Stat) (k : Ctx) (slot : Nat) (t : CSem.Ty) (j : Nat) (a : UInt64)
    {pre post : List Item} {env : Env} {M : Mem}
    (hslot : env[tmpName slot]? = some ⟨.l, a⟩) (hsl : slot ≤ k.lastid)
    (hb : a.toNat + j * t.size < 2 ^ 64)
    (hits : T.S.its = pre ++ (initAddr k slot t j).items ++ post) :
    ∃ n0 env0 ra q, T.Reach n0 (T.at env M pre) (T.at env0 M (pre ++ (initAddr k slot t j).items)) ∧
      Frame k.lastid (initAddr k slot t j).ctx.lastid env env0 ∧
      (initAddr k slot t j).val = .tmp (tmpName q) ∧ q ≤ (initAddr k slot t j).ctx.lastid ∧
      env0[tmpName q]? = some ⟨.l, ra⟩ ∧ ra.toNat = a.toNat + j * t.size := by
  unfold initAddr at hits ⊢
  by_cases hj : j = 0
  · simp only [hj, if_true, List.append_nil] at hits ⊢
    exact ⟨0, env, a, slot, rfl, Frame.refl _ _ _, rfl, hsl, hslot, by omega⟩
  · simp only [hj, if_false] at hits ⊢
    have hits' : (setM T.S M).its = pre ++ (funcinst k .add .l
        [.tmp (tmpName slot), .int (UInt64.ofNat (j * t.size))]).items ++ post := by
      rw [setM_its]; exact hits
    have hjn : (UInt64.ofNat (j * t.size)).toNat = j * t.size := by
      rw [UInt64.toNat_ofNat']; exact Nat.mod_eq_of_lt (by omega)
    obtain ⟨n0, env0, hreach, hfr, r, hval, hr⟩ := run_funcinst2 (setM T.S M) k .add .l
      [.tmp (tmpName slot), .int (UInt64.ofNat (j * t.size))]
      (P := fun r => r = ⟨.l, a + UInt64.ofNat (j * t.size)⟩) hits'
      (readVals_two (readVal_tmp hslot) (readVal_int _ _ _))
      (exec_arith (Or.inl rfl) _ none (x := a) (y := UInt64.ofNat (j * t.size))
        (z := a + UInt64.ofNat (j * t.size)) rfl rfl rfl) rfl
    subst hr
    refine ⟨n0, env0, a + UInt64.ofNat (j * t.size), k.lastid + 1, hreach, hfr, rfl, Nat.le_refl _, ?_, ?_⟩
    · exact readVal_tmp_inv' hval
    · rw [UInt64.toNat_add, hjn]; exact Nat.mod_eq_of_lt hb

section
variable (T : Stat) {s : Store} {out : CSem2.Outcome} {lp : Bool × Bool} {brk cont : String} {c : SCtx}
  {nd nd' : Nat} {pre post : List Item} {env : Env} {M : Mem}

/-- element `j` of `T a[n] = {…};` -/
theorem sim_ainit (n : Nat) (hc : CallOK T n) (arr : Nat) (t : CSem.Ty) (cnt xb j : Nat) (e : Expr3)
    (hex : exec T.S.cs T.P (n + 1) s (.ainit arr t cnt xb j e) = some out)
    (hfr : frag T.P T.cnts T.W (.ainit arr t cnt xb j e) = true)
    (hwt : Stmt.wt T.vtys T.ret lp.1 lp.2 nd (.ainit arr t cnt xb j e) = some nd') (hp : Pos T c nd pre)
    (hext : Ext T (funcstmt T.S.cs brk cont (.ainit arr t cnt xb j e) c).ctx)
    (hits : T.S.its = pre ++ (funcstmt T.S.cs brk cont (.ainit arr t cnt xb j e) c).items ++ post)
    (inv : SInv T.M0 T.S.cs T.cnts T.W T.σ T.vtys s env M) :
    Post T lp brk cont (T.at env M pre)
      (pre ++ (funcstmt T.S.cs brk cont (.ainit arr t cnt xb j e) c).items)
      (funcstmt T.S.cs brk cont (.ainit arr t cnt xb j e) c).ctx out := by
  simp only [exec] at hex
  split at hex
  · rename_i hjn
    simp only [Option.map_eq_some_iff] at hex
    obtain ⟨v, hevv, rfl⟩ := hex
    simp only [frag, Bool.and_eq_true, decide_eq_true_eq] at hfr
    have hfe : efrag T e := by simp only [efrag, Bool.and_eq_true]; exact hfr.1.2
    obtain ⟨⟨⟨⟨_, hcn⟩, hxb⟩, _⟩, hWa⟩ := hfr
    subst hxb
    simp only [Stmt.wt] at hwt
    split at hwt
    · rename_i hw
      obtain ⟨harr, hkt, hty, hwe⟩ := hw
      have hcd : T.cnts.getD arr 1 = cnt := by simp [List.getD, hcn]
      have he : j < T.cnts.getD arr 1 := by rw [hcd]; exact hjn
      simp only [funcstmt, funcopen_none hp.jump, List.nil_append] at hext hits ⊢
      have s1 := initAddr_straight c.ctx (c.slots.getD arr 0) t j
      have hpre : ∀ i, i < nd → T.σ.getD i 0 = c.slots.getD i 0 := fun i hi => hext.1 i (by
        show i < c.slots.length; rw [hp.nslots]; exact hi)
      -- the address
      obtain ⟨a, al, h1, h2, h3, h4, h5, h5b, h5c, h7⟩ := inv.a.slots arr t (lt_of_get hkt) hkt
      have hb : a.toNat + j * t.size < 2 ^ 64 := by
        have h9 : (j + 1) * t.size ≤ T.cnts.getD arr 1 * t.size := Nat.mul_le_mul_right _ he
        rw [Nat.add_mul, Nat.one_mul, Nat.mul_comm (T.cnts.getD arr 1)] at h9
        have := inv.a.top
        rw [stackTop_val] at this
        omega
      have hslot : env[tmpName (c.slots.getD arr 0)]? = some ⟨.l, a⟩ := by rw [← hpre arr harr]; exact h1
      have hits0 : T.S.its = pre ++ (initAddr c.ctx (c.slots.getD arr 0) t j).items ++
          ((funcexpr3 T.S.cs c.slots e (initAddr c.ctx (c.slots.getD arr 0) t j).ctx).items ++
            [.ins (.op none (.store (storeOf t))
              [(funcexpr3 T.S.cs c.slots e (initAddr c.ctx (c.slots.getD arr 0) t j).ctx).val,
                (initAddr c.ctx (c.slots.getD arr 0) t j).val])] ++ post) := by
        rw [hits]; simp only [List.append_assoc]
      obtain ⟨n0, env0, ra, q, hreach0, hfr0, hqv, hql, hq, hra⟩ := sim_initAddr T c.ctx (c.slots.getD arr 0) t j a
        (M := M) hslot (hp.le arr harr) hb hits0
      generalize hoa : initAddr c.ctx (c.slots.getD arr 0) t j = oa at hext hits hits0 s1 hreach0 hfr0 hqv hql ⊢
      have l1 := s1.lastid
      -- the position after the address
      have hp1 : Pos T (c.upd oa.ctx) nd (pre ++ oa.items) := by
        refine ⟨hp.jump, ?_, ?_, hp.nslots, ?_⟩
        · show curOf T.S.o0 (pre ++ oa.items) = oa.ctx.cur
          rw [curOf_append_allIns _ _ _ s1.allIns, s1.cur]; exact hp.cur
        · obtain ⟨name, i, g1, g2⟩ := hp.curOK
          exact ⟨name, i, by show oa.ctx.cur = _; rw [s1.cur]; exact g1,
            by show i ≤ oa.ctx.blockid; rw [s1.blockid]; exact g2⟩
        · intro i hi
          exact Nat.le_trans (hp.le i hi) l1
      have ge := exprOut3_good T.S.cs (c.upd oa.ctx) e
      have hl2 := ge.lastid
      have hfut : ∀ k, nd ≤ k → k < T.vtys.length →
          (exprOut3 T.S.cs (c.upd oa.ctx) e).ctx.lastid < T.σ.getD k 0 := fun k hk hkv =>
        hext.2 k (by show c.slots.length ≤ k; rw [hp.nslots]; exact hk) hkv
      have hext1 : Ext T ((c.upd oa.ctx).upd (exprOut3 T.S.cs (c.upd oa.ctx) e).ctx) := hext
      have hfut0 : ∀ k, nd ≤ k → k < T.vtys.length → oa.ctx.lastid < T.σ.getD k 0 := fun k hk hkv =>
        Nat.lt_of_le_of_lt hl2 (hfut k hk hkv)
      have inv0 : SInv T.M0 T.S.cs T.cnts T.W T.σ T.vtys s env0 M := inv.env (slots_kept hp hpre hfut0 hfr0)
      have hits1 : T.S.its = (pre ++ oa.items) ++ (exprOut3 T.S.cs (c.upd oa.ctx) e).items ++
          (.ins (.op none (.store (storeOf t)) [(exprOut3 T.S.cs (c.upd oa.ctx) e).val, oa.val]) :: post) := by
        rw [hits]; simp only [List.append_assoc, List.singleton_append]; rfl
      obtain ⟨n1, env1, r, hreach1, inv1, hfr1, hval1, hrep1, hrgv⟩ := sim_exprOut3 T n hc hp1 e hext1 hwe hfe hevv
        hits1 inv0
      rw [hty] at hrep1 hrgv
      -- the store
      obtain ⟨a', M', ha1, hst, _, inv2⟩ := inv1.storeAt hkt hWa he hrgv (storeVal_of_rep hrep1)
      have haa : a' = a := by
        obtain ⟨a2, _, g1, _⟩ := inv0.a.slots arr t (lt_of_get hkt) hkt
        have e0 : env0[tmpName (T.σ.getD arr 0)]? = env[tmpName (T.σ.getD arr 0)]? :=
          slots_kept hp hpre hfut0 hfr0 arr (lt_of_get hkt)
        have e1 : env1[tmpName (T.σ.getD arr 0)]? = env0[tmpName (T.σ.getD arr 0)]? :=
          slots_kept hp1 hpre hfut hfr1 arr (lt_of_get hkt)
        rw [e1, e0, h1] at ha1
        simp only [Option.some.injEq, RVal.mk.injEq, true_and] at ha1
        exact ha1.symm
      subst haa
      have hq1 : env1[tmpName q]? = some ⟨.l, ra⟩ := by
        rw [hfr1 q (Or.inl hql)]; exact hq
      have hraeq : (⟨.l, ra⟩ : RVal).asL = .ok (UInt64.ofNat (a'.toNat + j * t.size)) := by
        rw [← hra]; simp
      have hx := hst ⟨.l, ra⟩ hraeq
      have hr3 := run_nores T hits1 (readVals_two hval1 (by rw [hqv]; exact readVal_tmp hq1)) hx
      have hfrall : Frame c.lastid (exprOut3 T.S.cs (c.upd oa.ctx) e).ctx.lastid env env1 :=
        Frame.trans hfr0 hfr1 (Nat.le_refl _) l1 hl2 (Nat.le_refl _)
      have hfutc : ∀ k, nd ≤ k → k < T.vtys.length →
          (exprOut3 T.S.cs (c.upd oa.ctx) e).ctx.lastid < T.σ.getD k 0 := hfut
      have inv3 : SInv T.M0 T.S.cs T.cnts T.W T.σ T.vtys
          (s.set (ecell arr (xbase T.cnts arr) j) (some v)) env1 M' := inv2
      refine ⟨hp.jump, n0 + n1 + 1, env1, M', ?_, inv3⟩
      have := (hreach0.trans hreach1).trans hr3
      simp only [List.append_assoc, List.singleton_append, List.cons_append, List.nil_append] at this ⊢
      exact this
    · cases hwt
  · cases hex

end

end CprocVerif.LowerMach2

import CprocVerif.Spec.DriverDoc

/-! String lemmas for C17: `splitComma ∘ joinComma`, and the model's `strrchr`-style functions
(`lastDotSuffix`, `changeext`, written with `reverse`/`takeWhile`) against the specification's
`splitAtLast`. -/

namespace CprocVerif.DriverLemmas
open CprocVerif.Driver CprocVerif.DriverDoc

/-! ## comma lists -/

theorem splitComma_ne_nil (s : Str) : splitComma s ≠ [] := by
  induction s with
  | nil => simp [splitComma]
  | cons c cs ih =>
    unfold splitComma
    split
    · simp
    · split <;> simp

theorem splitComma_noComma (a : Str) (h : ',' ∉ a) : splitComma a = [a] := by
  induction a with
  | nil => rfl
  | cons c cs ih =>
    have hc : c ≠ ',' := by intro e; exact h (by simp [e])
    have hcs : ',' ∉ cs := by intro e; exact h (by simp [e])
    unfold splitComma
    simp [hc, ih hcs]

theorem splitComma_append (a t : Str) (h : ',' ∉ a) : splitComma (a ++ ',' :: t) = a :: splitComma t := by
  induction a with
  | nil =>
    show splitComma (',' :: t) = _
    rw [splitComma]; simp
  | cons c cs ih =>
    have hc : c ≠ ',' := by intro e; exact h (by simp [e])
    have hcs : ',' ∉ cs := by intro e; exact h (by simp [e])
    show splitComma (c :: (cs ++ ',' :: t)) = (c :: cs) :: splitComma t
    rw [splitComma, if_neg hc, ih hcs]

theorem splitComma_joinComma (args : List Str) (hne : args ≠ []) (h : ∀ a ∈ args, ',' ∉ a) :
    splitComma (joinComma args) = args := by
  induction args with
  | nil => exact absurd rfl hne
  | cons a r ih =>
    cases r with
    | nil => simpa [joinComma] using splitComma_noComma a (h a (by simp))
    | cons b r' =>
      have : splitComma (joinComma (b :: r')) = b :: r' :=
        ih (by simp) (fun x hx => h x (by simp [hx]))
      simp only [joinComma]
      rw [splitComma_append a _ (h a (by simp)), this]

/-! ## last occurrence of a character -/

theorem splitAtLast_some {c : Char} {s b a : Str} (h : splitAtLast c s = some (b, a)) :
    s = b ++ c :: a ∧ c ∉ a := by
  induction s generalizing b a with
  | nil => simp [splitAtLast] at h
  | cons x xs ih =>
    unfold splitAtLast at h
    split at h
    · rename_i b' a' heq
      simp only [Option.some.injEq, Prod.mk.injEq] at h
      obtain ⟨rfl, rfl⟩ := h
      obtain ⟨h1, h2⟩ := ih heq
      exact ⟨by simp [h1], h2⟩
    · rename_i hnone
      split at h
      · rename_i hx
        simp only [Option.some.injEq, Prod.mk.injEq] at h
        obtain ⟨rfl, rfl⟩ := h
        refine ⟨by simp [hx], ?_⟩
        intro hm
        -- c ∈ xs contradicts splitAtLast c xs = none
        clear ih
        revert hnone
        induction xs with
        | nil => simp at hm
        | cons y ys ihy =>
          intro hn
          unfold splitAtLast at hn
          split at hn
          · simp at hn
          · rename_i hn'
            split at hn
            · simp at hn
            · rename_i hy
              rcases List.mem_cons.1 hm with e | e
              · exact hy e.symm
              · exact ihy e hn'
      · simp at h

theorem splitAtLast_none {c : Char} {s : Str} : splitAtLast c s = none ↔ c ∉ s := by
  induction s with
  | nil => simp [splitAtLast]
  | cons x xs ih =>
    unfold splitAtLast
    constructor
    · intro h
      split at h
      · simp at h
      · rename_i hn
        split at h
        · simp at h
        · rename_i hx
          intro hm
          rcases List.mem_cons.1 hm with e | e
          · exact hx e.symm
          · exact (ih.1 hn) e
    · intro h
      have hx : x ≠ c := by intro e; exact h (by simp [e])
      have hxs : c ∉ xs := by intro e; exact h (by simp [e])
      rw [ih.2 hxs]
      simp [hx]

/-- a decomposition around the last occurrence is unique -/
theorem lastOcc_unique {c : Char} {b a b' a' : Str} (h : b ++ c :: a = b' ++ c :: a')
    (ha : c ∉ a) (ha' : c ∉ a') : b = b' ∧ a = a' := by
  induction b generalizing b' with
  | nil =>
    cases b' with
    | nil => simpa using h
    | cons y ys =>
      simp only [List.nil_append, List.cons_append, List.cons.injEq] at h
      exact absurd (by rw [h.2]; simp) ha
  | cons x xs ih =>
    cases b' with
    | nil =>
      simp only [List.nil_append, List.cons_append, List.cons.injEq] at h
      exact absurd (by rw [← h.2]; simp) ha'
    | cons y ys =>
      simp only [List.cons_append, List.cons.injEq] at h
      obtain ⟨rfl, h2⟩ := h
      obtain ⟨e1, e2⟩ := ih h2
      exact ⟨by rw [e1], e2⟩

theorem takeWhile_all {α} {p : α → Bool} {l : List α} (h : ∀ a ∈ l, p a = true) : l.takeWhile p = l := by
  induction l with
  | nil => rfl
  | cons x xs ih =>
    rw [List.takeWhile_cons_of_pos (h x (by simp)), ih (fun a ha => h a (by simp [ha]))]

/-- the `reverse`/`takeWhile` formulation used by the model -/
theorem rev_decomp (c : Char) (s : Str) :
    let tw := s.reverse.takeWhile (· != c)
    (c ∈ s → tw.length < s.length ∧
      s = (s.reverse.drop (tw.length + 1)).reverse ++ c :: tw.reverse ∧ c ∉ tw.reverse) ∧
    (c ∉ s → tw.length = s.length) := by
  intro tw
  have hsplit : s.reverse = tw ++ s.reverse.dropWhile (· != c) := (List.takeWhile_append_dropWhile).symm
  have hnot : c ∉ tw := by
    intro hm
    have hall := List.all_takeWhile (l := s.reverse) (p := (· != c))
    have := List.all_eq_true.1 hall c hm
    simp at this
  constructor
  · intro hc
    have hdw : s.reverse.dropWhile (· != c) ≠ [] := by
      intro e
      rw [e, List.append_nil] at hsplit
      exact hnot (by rw [← hsplit]; simpa using hc)
    obtain ⟨y, ys, hy⟩ := List.exists_cons_of_ne_nil hdw
    have hyc : y = c := by
      have := List.head_dropWhile_not (· != c) (l := s.reverse) hdw
      simp only [hy, List.head_cons] at this
      simpa using this
    subst hyc
    have hlen : s.length = tw.length + (ys.length + 1) := by
      have := congrArg List.length hsplit
      simpa [hy] using this
    refine ⟨by omega, ?_, by simpa using hnot⟩
    have hdrop : s.reverse.drop (tw.length + 1) = ys := by
      rw [hsplit, hy]
      simp [List.drop_append]
    rw [hdrop]
    have : s = (tw ++ y :: ys).reverse := by rw [← hy, ← hsplit]; simp
    rw [this]; simp
  · intro hc
    have hall : ∀ x ∈ s.reverse, (x != c) = true := by
      intro x hx; simp; intro e; exact hc (by simpa [e] using hx)
    have : tw = s.reverse := takeWhile_all hall
    rw [this]; simp

theorem lastDotSuffix_eq (n : Str) : lastDotSuffix n = (splitAtLast '.' n).map (·.2) := by
  unfold lastDotSuffix
  have hd := rev_decomp '.' n
  simp only at hd
  by_cases hc : '.' ∈ n
  · obtain ⟨hlt, hs, hn⟩ := hd.1 hc
    cases hsp : splitAtLast '.' n with
    | none => exact absurd hc (splitAtLast_none.1 hsp)
    | some p =>
      obtain ⟨b, a⟩ := p
      obtain ⟨h1, h2⟩ := splitAtLast_some hsp
      have := lastOcc_unique (h1.symm.trans hs) h2 hn
      simp [hlt, this.2]
  · have := hd.2 hc
    rw [splitAtLast_none.2 hc]
    simp [this]

theorem detectFileType_eq (n : Str) : detectFileType n = typeBySuffix n := by
  unfold detectFileType typeBySuffix
  rw [lastDotSuffix_eq]
  cases splitAtLast '.' n with
  | none => rfl
  | some p => rfl

theorem afterLastSlash_eq (n : Str) : afterLastSlash n = fileOf n := by
  unfold afterLastSlash fileOf
  have hd := rev_decomp '/' n
  simp only at hd
  by_cases hc : '/' ∈ n
  · obtain ⟨_, hs, hn⟩ := hd.1 hc
    cases hsp : splitAtLast '/' n with
    | none => exact absurd hc (splitAtLast_none.1 hsp)
    | some p =>
      obtain ⟨b, a⟩ := p
      obtain ⟨h1, h2⟩ := splitAtLast_some hsp
      have := lastOcc_unique (h1.symm.trans hs) h2 hn
      simp [this.2]
  · have hlen := hd.2 hc
    rw [splitAtLast_none.2 hc]
    have hall : ∀ x ∈ n.reverse, (x != '/') = true := by
      intro x hx; simp; intro e; exact hc (by simpa [e] using hx)
    simp [takeWhile_all hall]

theorem changeext_eq (n ext : Str) : changeext n ext = replaceExt n ext := by
  unfold changeext replaceExt
  rw [afterLastSlash_eq]
  generalize fileOf n = f
  unfold stemOf
  have hd := rev_decomp '.' f
  simp only at hd
  by_cases hc : '.' ∈ f
  · obtain ⟨hlt, hs, hn⟩ := hd.1 hc
    cases hsp : splitAtLast '.' f with
    | none => exact absurd hc (splitAtLast_none.1 hsp)
    | some p =>
      obtain ⟨b, a⟩ := p
      obtain ⟨h1, h2⟩ := splitAtLast_some hsp
      have := lastOcc_unique (h1.symm.trans hs) h2 hn
      simp [hlt, ← this.1]
  · have hlen := hd.2 hc
    rw [splitAtLast_none.2 hc]
    simp [hlen]

end CprocVerif.DriverLemmas

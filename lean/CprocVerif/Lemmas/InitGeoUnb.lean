import CprocVerif.Lemmas.InitGeoTop
import CprocVerif.Lemmas.InitRefTopU

/-!
# Laminarity for arrays of unknown size with scalar elements and a flat initialiser list

`T a[] = { e, [k] = e, e, … }` with a scalar `T`: every logged initialiser is one element of the
array; the size only grows.
-/

namespace CprocVerif.InitSim
open CprocVerif.Init CprocVerif.Image CprocVerif.InitRef

/-- an initialiser for element `pos` of an array of scalars of size `s` -/
def ElemAdd (s : Nat) (k : SK) (top : Nat) (ev : Ev) : Prop :=
  ∃ pos v, ev = .add ⟨pos * s, pos * s + s, 0, 0, v⟩ ∧ (pos + 1) * s ≤ top ∧
    ((∃ u, v = .int s u) ∨ (∃ b, v = .flt s b ∧ k = .flt) ∨ (∃ sy o, v = .addr sy o) ∨ v = .other)

theorem ElemAdd.mono {s : Nat} {k : SK} {top top' : Nat} {ev : Ev} (h : ElemAdd s k top ev) (ht : top ≤ top') :
    ElemAdd s k top' ev := by
  obtain ⟨pos, v, h1, h2, h3⟩ := h
  exact ⟨pos, v, h1, by omega, h3⟩

/-- the loop invariant of the outermost list -/
structure IU (s : Nat) (k : SK) (root : Place) (st : St) : Prop where
  inc : st.inc = true
  cur : st.cur = some 0
  ty : (st.obj 0).ty = root.ty
  off : (st.obj 0).offset = root.off
  mult : ∃ q, st.top = q * s ∧ (st.sub = 0 ∧ st.log = [] ∧ q = 0 ∨
      st.sub = 1 ∧ ∃ pos, Lvl st 0 root pos (chU root (.scalar s k) pos) ∧ pos < q ∧ SP st 1 (chU root (.scalar s k) pos))
  log : ∀ e ∈ st.log, ElemAdd s k st.top e

theorem desigStep_scalar {st st' : St} {d : Desig} {s : Nat} {k : SK} (hty : (st.obj st.sub).ty = .scalar s k)
    (e : desigStep st d = .ok st') : False := by
  unfold desigStep at e
  dsimp only [] at e
  rw [hty] at e
  cases d <;> simp at e

theorem itemsU {s : Nat} {k : SK} {n : Nat} {root : Place} (hU : PlWfU root n (.scalar s k)) (h0 : root.off = 0) :
    ∀ (its : Items) (st st' : St), IU s k root st → flatItems k its = true → parseItems st its = .ok st' →
      IU s k root st'
  | .nil, st, st', h, _, e => by rw [parseItems] at e; cases e; exact h
  | .cons ds i rest, st, st', h, hfl, e => by
    obtain ⟨stp, sta, hpre, hbody, hrun⟩ := run_cons (show Run st (.cons ds i rest) st' from e)
    cases i with
    | list l => simp [flatItems] at hfl
    | expr ex =>
    simp only [flatItems, Bool.and_eq_true] at hfl
    refine itemsU hU h0 rest sta st' ?_ hfl.2 hrun
    have hes : 0 < s := hU.elpos
    obtain ⟨q, hq, hmode⟩ := h.mult
    -- after `preStep` and (for the first item) `focus`: the machine stands at some element
    have atElem : ∀ (st1 : St) (pf : Nat), st1.sub = 1 → st1.inc = true → st1.cur = some 0 →
        (st1.obj 0).ty = root.ty → (st1.obj 0).offset = root.off → st1.log = st.log →
        (∃ q', st1.top = q' * s ∧ q * s ≤ q' * s ∧ ∃ pos, Lvl st1 0 root pos (chU root (.scalar s k) pos) ∧ pos < q' ∧
          SP st1 1 (chU root (.scalar s k) pos)) →
        exprBody pf st1 ex = .ok sta → IU s k root sta := by
      intro st1 pf hs1 hi1 hc1 ht1 ho1 hl1 ⟨q', hq', hqq, pos, hl, hpq, hsp⟩ hb
      have hty1 : (st1.obj st1.sub).ty = .scalar s k := by rw [hs1]; exact hsp.ty
      cases hcv : convScalar s k ex with
      | none =>
        cases pf with
        | zero => exact absurd hb (exprBody_zero _ _ _)
        | succ pf => rw [exprBody_err pf (by rw [hit_scalar hty1, hcv])] at hb; cases hb
      | some v =>
        cases pf with
        | zero => exact absurd hb (exprBody_zero _ _ _)
        | succ pf =>
        have hbits : curBits st1 = .ok (0, 0) := by
          have := hsp.bits
          have e1 : ({ st1 with sub := 1 } : St) = st1 := by rw [← hs1]
          rw [e1] at this
          exact this
        have hfl1 : Flat st1 st1.sub := flat_pos st1 (by omega)
        rw [exprBody_add pf (by rw [hit_scalar hty1, hcv]) hbits hfl1] at hb
        cases hb
        have hoff : (st1.obj st1.sub).offset = pos * s := by
          rw [hs1, hsp.off]; simp [chU, h0, Ty.size]
        have hts : st1.tsize st1.sub = s := by rw [hfl1.tsize, hty1]; rfl
        refine ⟨hi1, hc1, ht1, ho1, ⟨q', hq', .inr ⟨hs1, pos, ⟨hl.ty, hl.off, hl.child, hl.u⟩, hpq, ⟨hsp.ty, hsp.off, ?_⟩⟩⟩, ?_⟩
        · rw [← hsp.bits]
          exact curBits_congr rfl (fun _ => rfl)
        · intro ev hev
          have hev' : ev ∈ st1.log ++ [Ev.add ⟨(st1.obj st1.sub).offset, (st1.obj st1.sub).offset + st1.tsize st1.sub, 0, 0, v⟩] := hev
          rcases List.mem_append.1 hev' with hm | hm
          · rw [hl1] at hm
            have := h.log ev hm
            exact this.mono (by show st.top ≤ st1.top; rw [hq, hq']; exact hqq)
          · rw [List.mem_singleton.1 hm, hoff, hts]
            refine ⟨pos, v, rfl, ?_, conv_shape hcv⟩
            show (pos + 1) * s ≤ st1.top
            rw [hq']
            exact Nat.mul_le_mul_right _ hpq
    have hb : exprBody 34 stp ex = .ok sta := hbody
    cases ds with
    | cons d ds' =>
      -- `[k] = e`
      have hpre' : designator st (d :: ds') = .ok stp := by
        unfold preStep at hpre
        rw [h.cur] at hpre
        simpa using hpre
      unfold designator at hpre'
      have hg : st.cur.getD 0 = 0 := by rw [h.cur]; rfl
      rw [hg, List.foldlM_cons] at hpre'
      cases hd1 : desigStep { st with il := st.il.reset, sub := 0 } d with
      | error er => rw [hd1] at hpre'; cases hpre'
      | ok st1 =>
      rw [hd1] at hpre'
      obtain ⟨kk, _, a1, a2, a3, a4, a5, a6⟩ := desigStepU (st := { st with il := st.il.reset, sub := 0 }) hU rfl h.inc h.ty h.off hd1
      cases ds' with
      | cons d2 ds2 =>
        exfalso
        have hpre2 : (d2 :: ds2).foldlM desigStep st1 = .ok stp := hpre'
        rw [List.foldlM_cons] at hpre2
        cases hd2 : desigStep st1 d2 with
        | error er => rw [hd2] at hpre2; cases hpre2
        | ok st2 => exact desigStep_scalar (by rw [a1]; exact a3.ty) hd2
      | nil =>
        have : st1 = stp := by
          have hpre2 : ([] : List Desig).foldlM desigStep st1 = .ok stp := hpre'
          cases hpre2; rfl
        subst this
        obtain ⟨t1, q', t2, t3⟩ := top_desig (q := q) (k := kk) hes
        have htop1 : st1.top = if kk * s ≥ q * s then kk * s + s else q * s := by
          rw [a6]; show (if kk * s ≥ st.top then _ else st.top) = _; rw [hq]; rfl
        refine atElem st1 34 a1 (by rw [a4.inc]; exact h.inc) (by rw [a4.cur]; exact h.cur) (by rw [a4.ty]; exact h.ty)
          (by rw [a4.off]; exact h.off) a4.log ⟨q', by rw [htop1, t2], ?_, kk, a2, t3, a3⟩ hb
        rw [← t2, t1]
        exact Nat.le_max_left _ _
    | nil =>
      rcases hmode with ⟨hs0, hlog0, hq0⟩ | ⟨hs1, pos, hl, hpq, hsp⟩
      · -- the first item: `focus` to element 0
        rw [preStep_nil_array h.cur hs0 (h.ty.trans hU.ty)] at hpre
        cases hpre
        have hel : elides (st.obj st.sub).ty ex = true := by
          rw [hs0, h.ty, hU.ty]
          have := hfl.1
          cases k with
          | int c sg => cases ex <;> first | rfl | simp at this
          | flt => cases ex <;> rfl
          | ptr => cases ex <;> rfl
        rw [exprBody_down 33 (hit_elide hel)] at hb
        cases hfo : focus st with
        | error er => rw [hfo] at hb; cases hb
        | ok st2 =>
          rw [hfo] at hb
          obtain ⟨b1, b2, b3, b4, b5, b6⟩ := focusU hU hs0 h.inc h.ty h.off hfo
          refine atElem st2 33 b1 (by rw [b4.inc]; exact h.inc) (by rw [b4.cur]; exact h.cur) (by rw [b4.ty]; exact h.ty)
            (by rw [b4.off]; exact h.off) b4.log ⟨1, by rw [b6]; simp [Ty.size], by rw [hq0]; simp, 0, b2, by omega, b3⟩ hb
      · -- a later item: `advance` to the next element
        rw [preStep_nil_adv h.cur (by omega)] at hpre
        obtain ⟨b1, b2, b3, b4, b5, b6⟩ := advanceU (f := 32) hU hs1 h.inc hl hpre
        obtain ⟨t1, q', t2, t3⟩ := top_adv (q := q) (p := pos) hes hpq
        have htop1 : stp.top = if (pos + 1) * s = q * s then q * s + s else q * s := by
          rw [b6, hq]; rfl
        refine atElem stp 34 b1 (by rw [b4.inc]; exact h.inc) (by rw [b4.cur]; exact h.cur) (by rw [b4.ty]; exact h.ty)
          (by rw [b4.off]; exact h.off) b4.log ⟨q', by rw [htop1, t2], ?_, pos + 1, b2, t3, b3⟩ hb
        rw [← t2, t1]
        exact Nat.le_max_left _ _

/-- element initialisers are laminar -/
theorem evsOK_elems {s : Nat} {k : SK} {top : Nat} (hs : 0 < s) :
    ∀ (evs : List Ev) (prev : List Init), (∀ o ∈ prev, ElemAdd s k top (.add o) ∧ Wf top o) →
      (∀ e ∈ evs, ElemAdd s k top e ∧ ∀ i, e = .add i → Wf top i) → EvsOK prev evs := by
  intro evs
  induction evs with
  | nil => intro _ _ _; trivial
  | cons e es ih =>
    intro prev hp he
    obtain ⟨hee, hwf⟩ := he e List.mem_cons_self
    obtain ⟨pos, v, rfl, hb, _⟩ := hee
    have hw := hwf _ rfl
    refine ⟨?_, hw.nonEmpty, hw.byteVal, ?_⟩
    · intro o ho
      obtain ⟨⟨pos', v', ho', _, _⟩, _⟩ := hp o ho
      cases ho'
      rcases Nat.lt_trichotomy pos' pos with hlt | heq | hgt
      · left
        unfold Disj Init.lo Init.hi
        simp only []
        have : (pos' + 1) * s ≤ pos * s := Nat.mul_le_mul_right _ hlt
        rw [Nat.add_mul, Nat.one_mul] at this
        omega
      · right; left
        subst heq
        unfold Inside Init.lo Init.hi
        simp only []
        omega
      · left
        unfold Disj Init.lo Init.hi
        simp only []
        have : (pos + 1) * s ≤ pos' * s := Nat.mul_le_mul_right _ hgt
        rw [Nat.add_mul, Nat.one_mul] at this
        omega
    · apply ih _ _ (fun x hx => he x (List.mem_cons_of_mem _ hx))
      intro o ho
      rcases List.mem_append.1 ho with h | h
      · exact hp o h
      · rw [List.mem_singleton.1 h]
        exact ⟨⟨pos, v, rfl, hb, by assumption⟩, hw⟩

/-- **laminarity** for `T a[] = { … }`, `T` scalar, the items plain expressions -/
theorem parseinit_laminar_unb {s : Nat} {k : SK} {its : Items} {st : St}
    (hm : parseinit (.array 0 (.scalar s k)) true (.list its) = .ok st) (hlay : layOK (.scalar s k) = true)
    (hfl : flatItems k its = true) (hcv : constVals (.array 0 (.scalar s k)) true (.list its) = true) :
    EvsOK [] st.log ∧ ∀ x ∈ adds st.log, Wf st.top x := by
  obtain ⟨hs0, hs8⟩ := lay_size_le (t := .scalar s k) hlay
  have hU : PlWfU { ty := .array 0 (.scalar s k), unb := true } 0 (.scalar s k) := ⟨rfl, rfl, hs0, rfl⟩
  have hm' := parseinit_true hm
  rw [parseItem_eq, preStep_nocur (by rfl)] at hm'
  simp only [] at hm'
  cases its with
  | nil =>
    exfalso
    have hb : (match enteredE (braceClear (st0u (.array 0 (.scalar s k)))) with
        | .error er => (.error er : Except Err St)
        | .ok st2 =>
          if st2.tinc st2.sub then .error (.diag "array of unknown size has empty initializer") else .ok st2)
        = .ok st := hm'
    rw [braceClear_nocur (by rfl)] at hb
    have hent : enteredE (st0u (.array 0 (.scalar s k))) = .ok (st0u (.array 0 (.scalar s k))) := by
      unfold enteredE
      rw [if_neg (by intro h; cases h)]
    rw [hent] at hb
    simp only [] at hb
    rw [tinc_zero (st := st0u (.array 0 (.scalar s k))) rfl rfl] at hb
    cases hb
  | cons ds1 i1 r1 =>
    have hb : (match entered (braceClear (st0u (.array 0 (.scalar s k)))) with
        | .error er => (.error er : Except Err St)
        | .ok st2 => listBody st2 (.cons ds1 i1 r1)) = .ok st := hm'
    rw [braceClear_nocur (by rfl)] at hb
    have hent : entered (st0u (.array 0 (.scalar s k))) = .ok (st0u (.array 0 (.scalar s k))) := by
      unfold entered
      rw [if_neg (by intro h; cases h)]
    rw [hent] at hb
    simp only [] at hb
    rw [listBody_eq] at hb
    cases hpi : parseItems (openSt (st0u (.array 0 (.scalar s k)))) (.cons ds1 i1 r1) with
    | error er => rw [hpi] at hb; cases hb
    | ok st4 =>
    rw [hpi] at hb
    cases hb
    obtain ⟨hcl, hct⟩ := closeBrace_log_top st4
    have h0 : IU s k { ty := .array 0 (.scalar s k), unb := true } (openSt (st0u (.array 0 (.scalar s k)))) :=
      ⟨rfl, rfl, congrArg Slot.ty (openSt_top (st0u _)), congrArg Slot.offset (openSt_top (st0u _)),
        ⟨0, by show (Ty.array 0 (.scalar s k)).size = _; simp [Ty.size], .inl ⟨rfl, rfl, rfl⟩⟩, fun e he => (by cases he)⟩
    have h4 := itemsU hU rfl _ _ _ h0 hfl hpi
    unfold constVals at hcv
    rw [hm] at hcv
    simp only [List.all_eq_true] at hcv
    rw [hcl] at hcv ⊢
    rw [hct]
    -- every add is well formed
    have hwf : ∀ e ∈ st4.log, ElemAdd s k st4.top e ∧ ∀ i, e = .add i → Wf st4.top i := by
      intro e he
      have hel := h4.log e he
      refine ⟨hel, ?_⟩
      intro i hi
      subst hi
      obtain ⟨pos, v, hev, hbd, hsh⟩ := hel
      cases hev
      have hv := hcv _ he
      have hsz : pos * s + s ≤ st4.top := by rw [Nat.add_mul, Nat.one_mul] at hbd; exact hbd
      refine ⟨by unfold Init.lo Init.hi; simp only []; omega, hsz, ?_⟩
      simp only []
      rcases hsh with ⟨u, rfl⟩ | ⟨b, rfl, _⟩ | ⟨sy, o, rfl⟩ | rfl
      · simp only []
        exact ⟨fun _ => by omega, fun h => by omega⟩
      · simp only []
        exact ⟨trivial, trivial, by omega⟩
      · obtain ⟨_, _, h3⟩ := evValOK_addr (i := ⟨pos * s, pos * s + s, 0, 0, .addr sy o⟩) rfl hv
        simp only [] at h3 ⊢
        exact ⟨trivial, trivial, by omega⟩
      · rw [evValOK_other (i := ⟨pos * s, pos * s + s, 0, 0, .other⟩) rfl] at hv
        cases hv
    refine ⟨evsOK_elems hs0 st4.log [] (fun o ho => by cases ho) hwf, ?_⟩
    intro x hx
    have : ∀ (evs : List Ev), (∀ e ∈ evs, ∀ i, e = .add i → Wf st4.top i) → ∀ x ∈ adds evs, Wf st4.top x := by
      intro evs
      induction evs with
      | nil => intro _ x hx; simp [adds] at hx
      | cons e es ih =>
        intro he x hx
        cases e with
        | add i =>
          simp only [adds, List.mem_cons] at hx
          rcases hx with rfl | hx
          · exact he _ List.mem_cons_self _ rfl
          · exact ih (fun y hy => he y (List.mem_cons_of_mem _ hy)) x hx
        | clear a b => exact ih (fun y hy => he y (List.mem_cons_of_mem _ hy)) x hx
    exact this st4.log (fun e he => (hwf e he).2) x hx

end CprocVerif.InitSim

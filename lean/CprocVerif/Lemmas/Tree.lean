import CprocVerif.Model.Tree

/-! Helper lemmas for the AVL tree model (`Model/Tree.lean`). -/

namespace CprocVerif.Tree
open T

/-! ## Invariants -/

/-- Stored height = real height at every node, and the two subtrees differ by at most 1. -/
def Avl : T → Prop
  | nil => True
  | node _ h l r => Avl l ∧ Avl r ∧ h = max (rh l) (rh r) + 1 ∧ rh l ≤ rh r + 1 ∧ rh r ≤ rh l + 1

/-- Strict search-tree ordering. -/
def Bst : T → Prop
  | nil => True
  | node k _ l r => Bst l ∧ Bst r ∧ (∀ x ∈ toList l, x < k) ∧ (∀ x ∈ toList r, k < x)

/-! ## Closed forms of `rot` -/

theorem ht_eq_rh : ∀ t : T, Avl t → ht t = rh t
  | nil, _ => rfl
  | node _ h l r, ⟨_, _, hh, _, _⟩ => by simp [ht, rh, hh]

theorem rot_true_double (kx hx a ky hyv kz hzv b c d) (h : ht d < hzv) :
    rot (node kx hx a (node ky hyv (node kz hzv b c) d)) true
      = node kz (hzv+1) (node kx hzv a b) (node ky hzv c d) := by
  have h' : ht d < ht (node kz hzv b c) := h
  simp [rot, child, mk, h']
  rfl

theorem rot_true_single (kx hx a ky hyv z d) (h : ¬ (ht d < ht z)) :
    rot (node kx hx a (node ky hyv z d)) true
      = node ky (ht z+2) (node kx (ht z+1) a z) d := by
  simp [rot, child, mk, h]

theorem rot_false_double (kx hx a ky hyv kz hzv b c d) (h : ht d < hzv) :
    rot (node kx hx (node ky hyv d (node kz hzv c b)) a) false
      = node kz (hzv+1) (node ky hzv d c) (node kx hzv b a) := by
  have h' : ht d < ht (node kz hzv c b) := h
  simp [rot, child, mk, h']
  rfl

theorem rot_false_single (kx hx a ky hyv z d) (h : ¬ (ht d < ht z)) :
    rot (node kx hx (node ky hyv d z) a) false
      = node ky (ht z+2) d (node kx (ht z+1) z a) := by
  simp [rot, child, mk, h]


/-! ## `rot`, `balance`, `up` keep the in-order key sequence -/

theorem toList_rot (x : T) (dir : Bool) : toList (rot x dir) = toList x := by
  cases x with
  | nil => rfl
  | node kx hx l r =>
    cases dir
    · cases l with
      | nil => simp [rot, child]
      | node ky hy d z =>
        by_cases hgt : ht d < ht z
        · cases z with
          | nil => simp [ht] at hgt
          | node kz hzv c b =>
            have hgt' : ht d < hzv := by simpa [ht] using hgt
            rw [rot_false_double _ _ _ _ _ _ _ _ _ _ hgt']
            simp [toList]
        · rw [rot_false_single _ _ _ _ _ _ _ hgt]
          simp [toList]
    · cases r with
      | nil => simp [rot, child]
      | node ky hy z d =>
        by_cases hgt : ht d < ht z
        · cases z with
          | nil => simp [ht] at hgt
          | node kz hzv b c =>
            have hgt' : ht d < hzv := by simpa [ht] using hgt
            rw [rot_true_double _ _ _ _ _ _ _ _ _ _ hgt']
            simp [toList]
        · rw [rot_true_single _ _ _ _ _ _ _ hgt]
          simp [toList]

theorem toList_balance (n : T) : toList (balance n).1 = toList n := by
  cases n with
  | nil => rfl
  | node k h l r =>
    simp only [balance]
    split
    · rfl
    · simp only [toList_rot]

theorem toList_up (n : T) (g nw : Bool) : toList (up n g nw).1 = toList n := by
  cases g <;> simp [up, toList_balance]

theorem up_new (n : T) (g nw : Bool) : (up n g nw).2.2 = nw := by
  cases g <;> simp [up]

theorem up_false (n : T) (nw : Bool) : up n false nw = (n, false, nw) := by
  simp [up]

/-! ## Search-tree ordering -/

theorem bst_iff_sorted : ∀ t : T, Bst t ↔ (toList t).Pairwise (· < ·)
  | nil => by simp [Bst, toList]
  | node k h l r => by
    simp only [Bst, toList, List.pairwise_append, List.pairwise_cons, bst_iff_sorted l,
      bst_iff_sorted r, List.mem_cons]
    constructor
    · rintro ⟨hl, hr, h1, h2⟩
      refine ⟨hl, ⟨h2, hr⟩, ?_⟩
      intro a ha b hb
      rcases hb with rfl | hb
      · exact h1 a ha
      · exact Nat.lt_trans (h1 a ha) (h2 b hb)
    · rintro ⟨hl, ⟨h2, hr⟩, h3⟩
      exact ⟨hl, hr, fun a ha => h3 a ha k (Or.inl rfl), h2⟩

theorem bst_of_toList_eq {s t : T} (h : toList s = toList t) : Bst s ↔ Bst t := by
  rw [bst_iff_sorted, bst_iff_sorted, h]

theorem bst_up (n : T) (g nw : Bool) : Bst (up n g nw).1 ↔ Bst n :=
  bst_of_toList_eq (toList_up n g nw)

/-! ## `ins`: membership, ordering, `new` flag, duplicates -/

theorem mem_ins (key x : Nat) : ∀ t : T, x ∈ toList (ins t key).1 ↔ x = key ∨ x ∈ toList t
  | nil => by simp [ins, toList]
  | node k h l r => by
    unfold ins
    by_cases hk : key = k
    · simp only [hk, if_true, toList, List.mem_append, List.mem_cons]
      constructor
      · exact Or.inr
      · rintro (rfl | h) <;> simp_all
    · simp only [hk, if_false]
      by_cases hgt : key > k
      · simp only [hgt, if_true, toList_up, toList, List.mem_append, List.mem_cons, mem_ins key x r]
        constructor
        · rintro (h | h | h | h) <;> simp [h]
        · rintro (h | h | h | h) <;> simp [h]
      · simp only [hgt, if_false, toList_up, toList, List.mem_append, List.mem_cons, mem_ins key x l]
        constructor
        · rintro ((h | h) | h | h) <;> simp [h]
        · rintro (h | h | h | h) <;> simp [h]

theorem ins_bst (key : Nat) : ∀ t : T, Bst t → Bst (ins t key).1
  | nil, _ => by simp [ins, Bst, toList]
  | node k h l r, ⟨hl, hr, h1, h2⟩ => by
    unfold ins
    by_cases hk : key = k
    · simp only [hk, if_true]; exact ⟨hl, hr, h1, h2⟩
    · simp only [hk, if_false]
      by_cases hgt : key > k
      · simp only [hgt, if_true, bst_up]
        refine ⟨hl, ins_bst key r hr, h1, ?_⟩
        intro x hx
        rcases (mem_ins key x r).1 hx with rfl | hx
        · exact hgt
        · exact h2 x hx
      · simp only [hgt, if_false, bst_up]
        refine ⟨ins_bst key l hl, hr, ?_, h2⟩
        intro x hx
        rcases (mem_ins key x l).1 hx with rfl | hx
        · omega
        · exact h1 x hx

theorem ins_new (key : Nat) : ∀ t : T, Bst t → ((ins t key).2.2 = true ↔ key ∉ toList t)
  | nil, _ => by simp [ins, toList]
  | node k h l r, ⟨hl, hr, h1, h2⟩ => by
    unfold ins
    by_cases hk : key = k
    · simp [hk, toList]
    · simp only [hk, if_false]
      by_cases hgt : key > k
      · simp only [hgt, if_true, up_new, ins_new key r hr, toList, List.mem_append, List.mem_cons]
        have : key ∉ toList l := fun hm => by have := h1 key hm; omega
        simp [this, hk]
      · simp only [hgt, if_false, up_new, ins_new key l hl, toList, List.mem_append, List.mem_cons]
        have : key ∉ toList r := fun hm => by have := h2 key hm; omega
        simp [this, hk]

theorem ins_dup (key : Nat) : ∀ t : T, Bst t → key ∈ toList t → ins t key = (t, false, false)
  | nil, _, hm => by simp [toList] at hm
  | node k h l r, ⟨hl, hr, h1, h2⟩, hm => by
    unfold ins
    by_cases hk : key = k
    · simp [hk]
    · simp only [hk, if_false]
      simp only [toList, List.mem_append, List.mem_cons, hk, false_or] at hm
      by_cases hgt : key > k
      · have hnl : key ∉ toList l := fun hm => by have := h1 key hm; omega
        have hr' : key ∈ toList r := by simpa [hnl] using hm
        simp only [hgt, if_true, ins_dup key r hr hr', up_false]
      · have hnr : key ∉ toList r := fun hm => by have := h2 key hm; omega
        have hl' : key ∈ toList l := by simpa [hnr] using hm
        simp only [hgt, if_false, ins_dup key l hl hl', up_false]


/-! ## AVL shape: `insert` keeps stored = real heights and balance -/

theorem rot_true_avl (kx hx : Nat) (a y : T) (ha : Avl a) (hy : Avl y) (himb : rh y = rh a + 2) :
    let t := rot (node kx hx a y) true
    Avl t ∧ rh y ≤ rh t ∧ rh t ≤ rh y + 1 := by
  match y, hy with
  | nil, _ => simp [rh] at himb
  | node ky hyv z d, ⟨hz, hd, hyh, hb1, hb2⟩ =>
    have ez := ht_eq_rh z hz
    have ed := ht_eq_rh d hd
    by_cases hgt : ht d < ht z
    · match z, hz with
      | nil, _ => simp [ht] at hgt
      | node kz hzv b c, ⟨hb, hc, hzh, hc1, hc2⟩ =>
        have hgt' : ht d < hzv := by simpa [ht] using hgt
        simp only [rot_true_double _ _ _ _ _ _ _ _ _ _ hgt']
        simp only [rh, ht] at *
        refine ⟨⟨⟨ha, hb, ?_, ?_, ?_⟩, ⟨hc, hd, ?_, ?_, ?_⟩, ?_, ?_, ?_⟩, ?_, ?_⟩ <;>
          (try simp only [rh]) <;> omega
    · simp only [rot_true_single _ _ _ _ _ _ _ hgt]
      simp only [rh] at *
      refine ⟨⟨⟨ha, hz, ?_, ?_, ?_⟩, hd, ?_, ?_, ?_⟩, ?_, ?_⟩ <;> (try simp only [rh]) <;> omega

theorem rot_false_avl (kx hx : Nat) (a y : T) (ha : Avl a) (hy : Avl y) (himb : rh y = rh a + 2) :
    let t := rot (node kx hx y a) false
    Avl t ∧ rh y ≤ rh t ∧ rh t ≤ rh y + 1 := by
  match y, hy with
  | nil, _ => simp [rh] at himb
  | node ky hyv d z, ⟨hd, hz, hyh, hb1, hb2⟩ =>
    have ez := ht_eq_rh z hz
    have ed := ht_eq_rh d hd
    by_cases hgt : ht d < ht z
    · match z, hz with
      | nil, _ => simp [ht] at hgt
      | node kz hzv c b, ⟨hc, hb, hzh, hc1, hc2⟩ =>
        have hgt' : ht d < hzv := by simpa [ht] using hgt
        simp only [rot_false_double _ _ _ _ _ _ _ _ _ _ hgt']
        simp only [rh, ht] at *
        refine ⟨⟨⟨hd, hc, ?_, ?_, ?_⟩, ⟨hb, ha, ?_, ?_, ?_⟩, ?_, ?_, ?_⟩, ?_, ?_⟩ <;>
          (try simp only [rh]) <;> omega
    · simp only [rot_false_single _ _ _ _ _ _ _ hgt]
      simp only [rh] at *
      refine ⟨⟨hd, ⟨hz, ha, ?_, ?_, ?_⟩, ?_, ?_, ?_⟩, ?_, ?_⟩ <;> (try simp only [rh]) <;> omega

theorem balance_spec (k h : Nat) (l r : T) (hl : Avl l) (hr : Avl r)
    (h2 : rh l ≤ rh r + 2 ∧ rh r ≤ rh l + 2) :
    let p := balance (node k h l r)
    Avl p.1 ∧ (p.2 = true ↔ rh p.1 ≠ h) ∧
    ((rh l ≤ rh r + 1 ∧ rh r ≤ rh l + 1) → rh p.1 = max (rh l) (rh r) + 1) ∧
    (¬ (rh l ≤ rh r + 1 ∧ rh r ≤ rh l + 1) →
      max (rh l) (rh r) ≤ rh p.1 ∧ rh p.1 ≤ max (rh l) (rh r) + 1) := by
  have el := ht_eq_rh l hl
  have er := ht_eq_rh r hr
  by_cases hb : ht l ≤ ht r + 1 ∧ ht r ≤ ht l + 1
  · simp only [balance, hb, and_self, if_true]
    rw [el, er] at hb
    refine ⟨⟨hl, hr, ?_, hb.1, hb.2⟩, ?_, ?_, ?_⟩
    · rw [el, er]; split <;> omega
    · simp only [rh, el, er, bne_iff_ne]; split <;> omega
    · intro _; simp only [rh]
    · intro hn; exact (hn hb).elim
  · simp only [balance, hb, if_false]
    rw [el, er] at hb
    by_cases hlt : rh l < rh r
    · have := rot_true_avl k h l r hl hr (by omega)
      simp only [el, er, hlt, decide_true]
      obtain ⟨h1, h2', h3⟩ := this
      refine ⟨h1, ?_, ?_, ?_⟩
      · rw [ht_eq_rh _ h1]; simp
      · intro hh; exact (hb hh).elim
      · intro _; omega
    · have := rot_false_avl k h r l hr hl (by omega)
      have hlt' : ¬ (rh l < rh r) := hlt
      simp only [el, er, hlt', decide_false]
      obtain ⟨h1, h2', h3⟩ := this
      refine ⟨h1, ?_, ?_, ?_⟩
      · rw [ht_eq_rh _ h1]; simp
      · intro hh; exact (hb hh).elim
      · intro _; omega

theorem up_spec (k h : Nat) (l r c : T) (g nw : Bool) (side : Bool)
    (hl : Avl l) (hr : Avl r) (hh : h = max (rh l) (rh r) + 1)
    (hb1 : rh l ≤ rh r + 1) (hb2 : rh r ≤ rh l + 1) (hc : Avl c)
    (hg1 : g = true → rh c = (if side then rh r else rh l) + 1)
    (hg0 : g = false → rh c = (if side then rh r else rh l)) :
    let n' := if side then node k h l c else node k h c r
    Avl (up n' g nw).1 ∧ ((up n' g nw).2.1 = true → rh (up n' g nw).1 = h + 1) ∧
      ((up n' g nw).2.1 = false → rh (up n' g nw).1 = h) := by
  cases side <;> cases g <;> simp only [up, if_true, if_false, Bool.false_eq_true] at *
  · have e := hg0 trivial
    refine ⟨⟨hc, hr, ?_, ?_, ?_⟩, ?_, ?_⟩ <;> simp [rh, e] <;> omega
  · have e := hg1 trivial
    obtain ⟨b1, b2, b3, b4⟩ := balance_spec k h c r hc hr (by omega)
    refine ⟨b1, ?_, ?_⟩
    · intro hgrow
      have := b2.1 hgrow
      by_cases hbal : (rh c ≤ rh r + 1 ∧ rh r ≤ rh c + 1)
      · have := b3 hbal; omega
      · have := b4 hbal; omega
    · intro hgrow
      have hne := mt b2.2 (by simp [hgrow])
      by_cases hbal : (rh c ≤ rh r + 1 ∧ rh r ≤ rh c + 1)
      · have := b3 hbal; omega
      · have := b4 hbal; omega
  · have e := hg0 trivial
    refine ⟨⟨hl, hc, ?_, ?_, ?_⟩, ?_, ?_⟩ <;> simp [rh, e] <;> omega
  · have e := hg1 trivial
    obtain ⟨b1, b2, b3, b4⟩ := balance_spec k h l c hl hc (by omega)
    refine ⟨b1, ?_, ?_⟩
    · intro hgrow
      have := b2.1 hgrow
      by_cases hbal : (rh l ≤ rh c + 1 ∧ rh c ≤ rh l + 1)
      · have := b3 hbal; omega
      · have := b4 hbal; omega
    · intro hgrow
      have hne := mt b2.2 (by simp [hgrow])
      by_cases hbal : (rh l ≤ rh c + 1 ∧ rh c ≤ rh l + 1)
      · have := b3 hbal; omega
      · have := b4 hbal; omega

/-- The running flag of `ins` says exactly whether the real height grew (by one). -/
theorem ins_spec (key : Nat) : ∀ t : T, Avl t →
    Avl (ins t key).1 ∧ ((ins t key).2.1 = true → rh (ins t key).1 = rh t + 1) ∧
      ((ins t key).2.1 = false → rh (ins t key).1 = rh t)
  | nil, _ => by simp [ins, Avl, rh]
  | node k h l r, ⟨hl, hr, hh, hb1, hb2⟩ => by
    have hrh : rh (node k h l r) = h := by simp [rh, hh]
    rw [hrh]
    unfold ins
    by_cases hk : key = k
    · simp [hk, Avl, hl, hr, hb1, hb2, rh, ← hh]
    · simp only [hk, if_false]
      by_cases hgt : key > k
      · simp only [hgt, if_true]
        obtain ⟨ia, ig, inn⟩ := ins_spec key r hr
        exact up_spec k h l r (ins r key).1 (ins r key).2.1 (ins r key).2.2 true hl hr hh hb1 hb2 ia
          (by simpa using ig) (by simpa using inn)
      · simp only [hgt, if_false]
        obtain ⟨ia, ig, inn⟩ := ins_spec key l hl
        exact up_spec k h l r (ins l key).1 (ins l key).2.1 (ins l key).2.2 false hl hr hh hb1 hb2 ia
          (by simpa using ig) (by simpa using inn)


/-! ## Reachable trees (built from the empty tree by `insert`) -/

theorem foldl_inv (ks : List Nat) : ∀ t : T, Avl t → Bst t →
    Avl (ks.foldl insert t) ∧ Bst (ks.foldl insert t) := by
  induction ks with
  | nil => intro t ha hb; exact ⟨ha, hb⟩
  | cons k ks ih =>
    intro t ha hb
    exact ih (insert t k) (ins_spec k t ha).1 (ins_bst k t hb)

theorem foldl_mem (x : Nat) (ks : List Nat) : ∀ t : T,
    x ∈ toList (ks.foldl insert t) ↔ x ∈ ks ∨ x ∈ toList t := by
  induction ks with
  | nil => intro t; simp
  | cons k ks ih =>
    intro t
    simp only [List.foldl_cons, ih, insert, mem_ins, List.mem_cons]
    constructor
    · rintro (h | h | h) <;> simp [h]
    · rintro ((h | h) | h) <;> simp [h]

/-! ## Executable checkers decide the invariants -/

theorem checkAvl_iff : ∀ t : T, checkAvl t = true ↔ Avl t
  | nil => by simp [checkAvl, Avl]
  | node k h l r => by
    simp only [checkAvl, Avl, Bool.and_eq_true, beq_iff_eq, decide_eq_true_eq, checkAvl_iff l,
      checkAvl_iff r, and_assoc]

theorem checkBst_iff : ∀ t : T, checkBst t = true ↔ Bst t
  | nil => by simp [checkBst, Bst]
  | node k h l r => by
    simp only [checkBst, Bst, Bool.and_eq_true, List.all_eq_true, decide_eq_true_eq, checkBst_iff l,
      checkBst_iff r, and_assoc]

instance (t : T) : Decidable (Avl t) := decidable_of_iff _ (checkAvl_iff t)
instance (t : T) : Decidable (Bst t) := decidable_of_iff _ (checkBst_iff t)

/-! ## Fibonacci lower bound on the size of an AVL tree -/

/-- `(fib n, fib (n+1))`, linear-time so that `fib 94` evaluates in the kernel. -/
def fibPair : Nat → Nat × Nat
  | 0 => (0, 1)
  | n + 1 => ((fibPair n).2, (fibPair n).1 + (fibPair n).2)

/-- Fibonacci numbers: `fib 0 = 0`, `fib 1 = 1`, `fib (n+2) = fib n + fib (n+1)`. -/
def fib (n : Nat) : Nat := (fibPair n).1

@[simp] theorem fib_zero : fib 0 = 0 := rfl
@[simp] theorem fib_one : fib 1 = 1 := rfl
theorem fib_add_two (n : Nat) : fib (n + 2) = fib n + fib (n + 1) := by
  simp [fib, fibPair]

theorem fib_le_succ : ∀ n, fib n ≤ fib (n + 1)
  | 0 => by simp
  | n + 1 => by rw [fib_add_two]; omega

theorem fib_mono {m n : Nat} (h : m ≤ n) : fib m ≤ fib n := by
  induction h with
  | refl => exact Nat.le_refl _
  | step _ ih => exact Nat.le_trans ih (fib_le_succ _)

theorem avl_fib_aux : ∀ t : T, Avl t → fib (rh t + 2) ≤ size t + 1
  | nil, _ => by simp [rh, size, fib_add_two]
  | node k h l r, ⟨hl, hr, _, hb1, hb2⟩ => by
    have il := avl_fib_aux l hl
    have ir := avl_fib_aux r hr
    simp only [rh, size]
    by_cases hle : rh l ≤ rh r
    · have e : max (rh l) (rh r) = rh r := by omega
      rw [e, show rh r + 1 + 2 = (rh r + 1) + 2 from rfl, fib_add_two]
      have : fib (rh r + 1) ≤ fib (rh l + 2) := fib_mono (by omega)
      have e2 : rh r + 1 + 1 = rh r + 2 := rfl
      rw [e2]; omega
    · have e : max (rh l) (rh r) = rh l := by omega
      rw [e, show rh l + 1 + 2 = (rh l + 1) + 2 from rfl, fib_add_two]
      have : fib (rh l + 1) ≤ fib (rh r + 2) := fib_mono (by omega)
      have e2 : rh l + 1 + 1 = rh l + 2 := rfl
      rw [e2]; omega

theorem two_pow_le_fib : ∀ n, 2 ^ (n / 2) ≤ fib (n + 2)
  | 0 => by simp [fib_add_two]
  | 1 => by simp [fib_add_two]
  | n + 2 => by
    have ih := two_pow_le_fib n
    have e : (n + 2) / 2 = n / 2 + 1 := by omega
    rw [e, Nat.pow_succ, fib_add_two (n + 2)]
    have : fib (n + 2) ≤ fib (n + 2 + 1) := fib_le_succ _
    omega

theorem fib_94 : 2 ^ 64 < fib 94 := by decide
theorem fib_93 : fib 93 ≤ 2 ^ 64 := by decide

theorem rh_le_91 (t : T) (ha : Avl t) (hs : size t < 2 ^ 64) : rh t ≤ 91 := by
  have h1 := avl_fib_aux t ha
  have h2 := fib_94
  by_cases h : rh t ≤ 91
  · exact h
  · have : fib 94 ≤ fib (rh t + 2) := fib_mono (by omega)
    omega

/-! ## The comparison ladder -/

/-- On the keys of `t`, unsigned order of the low bits (mod `m`) agrees with the tree order. -/
def MonoMod (m : Nat) (t : T) : Prop :=
  ∀ a ∈ toList t, ∀ b ∈ toList t, (a < b ↔ a % m < b % m)

/-- "Canonical keys" for a class-`w` ladder: comparing the low 32 bits orders the keys like the
tree does.  Holds when all keys are zero-extensions, or all are sign-extensions, of 32-bit
values. -/
def MonoLow (t : T) : Prop :=
  ∀ a ∈ toList t, ∀ b ∈ toList t, (a < b ↔ a % 2 ^ 32 < b % 2 ^ 32)

theorem monoMod_inj {m : Nat} {t : T} (h : MonoMod m t) {a b : Nat} (ha : a ∈ toList t)
    (hb : b ∈ toList t) (e : a % m = b % m) : a = b := by
  have h1 := h a ha b hb
  have h2 := h b hb a ha
  omega

theorem search_find (w : Bool) (v : Nat) : ∀ t : T, Bst t → MonoMod (modulus w) t →
    search w t v = (toList t).find? (fun k => k % modulus w == v % modulus w)
  | nil, _, _ => by simp [search, toList]
  | node k h l r, ⟨hl, hr, h1, h2⟩, hm => by
    have hml : MonoMod (modulus w) l := fun a ha b hb =>
      hm a (by simp [toList, ha]) b (by simp [toList, hb])
    have hmr : MonoMod (modulus w) r := fun a ha b hb =>
      hm a (by simp [toList, ha]) b (by simp [toList, hb])
    have kmem : k ∈ toList (node k h l r) := by simp [toList]
    have lk : ∀ a ∈ toList l, a % modulus w < k % modulus w := fun a ha =>
      (hm a (by simp [toList, ha]) k kmem).1 (h1 a ha)
    have kr : ∀ b ∈ toList r, k % modulus w < b % modulus w := fun b hb =>
      (hm k kmem b (by simp [toList, hb])).1 (h2 b hb)
    have il := search_find w v l hl hml
    have ir := search_find w v r hr hmr
    simp only [search, toList, List.find?_append, List.find?_cons]
    by_cases heq : v % modulus w = k % modulus w
    · have hln : (toList l).find? (fun k => k % modulus w == v % modulus w) = none := by
        rw [List.find?_eq_none]
        intro a ha; have := lk a ha; simp; omega
      rw [heq] at hln
      simp [heq, hln]
    · by_cases hlt : v % modulus w < k % modulus w
      · have hrn : (toList r).find? (fun k => k % modulus w == v % modulus w) = none := by
          rw [List.find?_eq_none]
          intro b hb; have := kr b hb; simp; omega
        have hne : (k % modulus w == v % modulus w) = false := by
          simp only [beq_eq_false_iff_ne]; exact fun e => heq e.symm
        simp [heq, hlt, hne, hrn, il]
      · have hln : (toList l).find? (fun k => k % modulus w == v % modulus w) = none := by
          rw [List.find?_eq_none]
          intro a ha; have := lk a ha; simp; omega
        have hne : (k % modulus w == v % modulus w) = false := by
          simp only [beq_eq_false_iff_ne]; exact fun e => heq e.symm
        simp [heq, hlt, hne, hln, ir]

theorem find?_mod_eq_ite (m x : Nat) : ∀ L : List Nat, (∀ k ∈ L, k < m) →
    L.find? (fun k => k % m == x) = if x ∈ L then some x else none
  | [], _ => by simp
  | a :: L, h => by
    have ha : a % m = a := Nat.mod_eq_of_lt (h a (by simp))
    have ih := find?_mod_eq_ite m x L (fun k hk => h k (by simp [hk]))
    simp only [List.find?_cons, ha, ih, List.mem_cons]
    by_cases e : a = x
    · simp [e]
    · have e' : ¬ x = a := fun h => e h.symm
      have e'' : (a == x) = false := by simp only [beq_eq_false_iff_ne]; exact e
      simp [e', e'']

theorem monoMod_of_lt {m : Nat} {t : T} (h : ∀ k ∈ toList t, k < m) : MonoMod m t := by
  intro a ha b hb
  rw [Nat.mod_eq_of_lt (h a ha), Nat.mod_eq_of_lt (h b hb)]

theorem find?_some_iff_of_inj (p : Nat → Bool) (L : List Nat) (k : Nat)
    (inj : ∀ a ∈ L, ∀ b ∈ L, p a = true → p b = true → a = b) :
    L.find? p = some k ↔ k ∈ L ∧ p k = true := by
  constructor
  · intro h; exact ⟨List.mem_of_find?_eq_some h, List.find?_some h⟩
  · rintro ⟨hk, hp⟩
    cases hf : L.find? p with
    | none => rw [List.find?_eq_none] at hf; exact absurd hp (hf k hk)
    | some k' =>
      rw [inj k' (List.mem_of_find?_eq_some hf) k hk (List.find?_some hf) hp]


instance (t : T) : Decidable (MonoLow t) := by unfold MonoLow; exact inferInstance

theorem monoLow_iff_monoMod (t : T) : MonoLow t ↔ MonoMod (modulus true) t := Iff.rfl

/-! ## `switchcase`'s conversion of case constants -/

theorem caseKey_four (s : Bool) (i : Nat) : caseKey 4 s i =
    if s && decide (2 ^ 31 ≤ i % 2 ^ 32) then i % 2 ^ 32 + (2 ^ 64 - 2 ^ 32) else i % 2 ^ 32 := rfl

theorem caseKey_eight (s : Bool) (i : Nat) : caseKey 8 s i = i % 2 ^ 64 := rfl

theorem caseKey_four_low (s : Bool) (i : Nat) : caseKey 4 s i % 2 ^ 32 = i % 2 ^ 32 := by
  rw [caseKey_four]; split <;> omega

theorem caseKey_four_eq_iff (s : Bool) (a b : Nat) :
    caseKey 4 s a = caseKey 4 s b ↔ a % 2 ^ 32 = b % 2 ^ 32 := by
  constructor
  · intro h
    have := congrArg (· % 2 ^ 32) h
    simpa only [caseKey_four_low] using this
  · intro h; simp only [caseKey_four, h]

theorem caseKey_four_unsigned (i : Nat) : caseKey 4 false i < 2 ^ 32 := by
  simp only [caseKey_four, Bool.false_and, Bool.false_eq_true, if_false]; omega

theorem caseKey_four_signed (i : Nat) :
    caseKey 4 true i < 2 ^ 31 ∨ (2 ^ 64 - 2 ^ 31 ≤ caseKey 4 true i ∧ caseKey 4 true i < 2 ^ 64) := by
  simp only [caseKey_four, Bool.true_and, decide_eq_true_eq]; split <;> omega

/-- Every tree `switchcase` can build for a 4-byte controlling type has canonical keys. -/
theorem monoLow_caseKey (s : Bool) (cs : List Nat) :
    MonoLow ((cs.map (caseKey 4 s)).foldl insert nil) := by
  have hmem : ∀ k ∈ toList ((cs.map (caseKey 4 s)).foldl insert nil), ∃ c, k = caseKey 4 s c := by
    intro k hk
    rw [foldl_mem] at hk
    simp only [toList, List.not_mem_nil, or_false, List.mem_map] at hk
    obtain ⟨c, _, rfl⟩ := hk
    exact ⟨c, rfl⟩
  intro a ha b hb
  obtain ⟨ca, rfl⟩ := hmem a ha
  obtain ⟨cb, rfl⟩ := hmem b hb
  cases s
  · have h1 := caseKey_four_unsigned ca
    have h2 := caseKey_four_unsigned cb
    omega
  · have h1 := caseKey_four_signed ca
    have h2 := caseKey_four_signed cb
    omega

/-! ## Example trees (non-vacuity witnesses for `Props/C15.lean`) -/

/-- 7 keys; `10,20,30` forces a single rotation, `25` a double rotation. -/
def exTree : T := [10, 20, 30, 40, 50, 25, 5].foldl insert nil

/-- Keys of an `int` switch: sign-extended 32-bit values (`-1`, `INT_MIN`, `-7`, `INT_MAX`, …). -/
def exTreeSext : T :=
  [0, 1, 2 ^ 64 - 1, 2 ^ 64 - 2 ^ 31, 2 ^ 31 - 1, 5, 2 ^ 64 - 7].foldl insert nil

/-- Keys of an `unsigned` switch: zero-extended 32-bit values. -/
def exTreeZext : T :=
  [0, 0x90000000, 0xFFFFFFFF, 1, 2, 3, 0x80000000].foldl insert nil

/-- Keys of an `unsigned long long` switch. -/
def exTreeL : T :=
  [2 ^ 64 - 1, 0, 2 ^ 63, 0x100000000, 7, 2 ^ 32 - 1, 2 ^ 63 + 1].foldl insert nil

end CprocVerif.Tree

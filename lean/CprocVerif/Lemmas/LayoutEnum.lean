import CprocVerif.Lemmas.Layout

/-! Helper lemmas for property C06, enumerations: `tagspec`'s choice of the underlying type
(`Model/Layout.lean: enumUnderlying`) against the C23/GCC rule (`Spec/Abi.lean`). -/

namespace CprocVerif.Layout
open CprocVerif.Abi

/-- the integer types of the targets -/
def ValidTy (t : IntTy) : Prop := t.size = 1 ∨ t.size = 2 ∨ t.size = 4 ∨ t.size = 8
instance (t : IntTy) : Decidable (ValidTy t) := by unfold ValidTy; infer_instance

/-- the value denoted by the 64-bit pattern `i` read as signed (`sign`) or unsigned -/
def val64 (i : Nat) (sign : Bool) : Int :=
  if sign && i ≥ 2 ^ 63 then (i : Int) - 2 ^ 64 else (i : Int)

theorem typehasint_iff {t : IntTy} (ht : ValidTy t) {i : Nat} (hi64 : i < 2 ^ 64) (sign : Bool) :
    typehasint t i sign = true ↔ Represents t (val64 i sign) := by
  obtain ⟨sz, sg⟩ := t
  unfold ValidTy at ht
  simp only at ht
  unfold typehasint Represents lo Abi.hi val64 u64 M64
  by_cases hneg : 9223372036854775808 ≤ i
  · rcases ht with h | h | h | h <;> subst h <;> cases sg <;> cases sign <;>
      simp [hneg] <;> omega
  · rcases ht with h | h | h | h <;> subst h <;> cases sg <;> cases sign <;>
      simp [hneg] <;> omega

def ItemWf : EnumItem → Prop
  | .implicit => True
  | .explicit u ty => u < 2 ^ 64 ∧ ValidTy ty ∧ Represents ty (constValue u ty)

instance : (it : EnumItem) → Decidable (ItemWf it)
  | .implicit => isTrue trivial
  | .explicit u ty => by unfold ItemWf; infer_instance

theorem constValue_eq {u : Nat} (ty : IntTy) (hu : u < 2 ^ 64) : constValue u ty = val64 u ty.signed := by
  have e : u % M64 = u := Nat.mod_eq_of_lt (by unfold M64; omega)
  have e2 : ((u : Int) % (M64 : Int)) = u := by unfold M64; omega
  unfold constValue val64
  simp only [e, e2]

theorem lo_hi_bounds {t : IntTy} (ht : ValidTy t) :
    (t.signed = true → -(2 ^ 63) ≤ lo t ∧ lo t ≤ -128 ∧ 127 ≤ hi t ∧ hi t ≤ 2 ^ 63 - 1) ∧
    (t.signed = false → lo t = 0 ∧ 255 ≤ hi t ∧ hi t ≤ 2 ^ 64 - 1) := by
  obtain ⟨sz, sg⟩ := t
  unfold ValidTy at ht
  simp only at ht
  unfold lo hi
  rcases ht with h | h | h | h <;> subst h <;> cases sg <;> simp

/-- ghost state of the enumerator loop (no fixed underlying type) -/
structure EJ (s : EnumSt) (next : Int) (sgn : Bool) (vs : List Int) : Prop where
  value : (s.value : Int) = next % 2 ^ 64
  sg : s.et.signed = sgn
  valid : ValidTy s.et
  range : lo s.et + 1 ≤ next ∧ next ≤ hi s.et + 1
  uns : sgn = false → next > 2 ^ 31
  maxub : ∀ v ∈ vs, v ≤ (s.max : Int)
  maxat : s.max = 0 ∨ (s.max : Int) ∈ vs
  minlb : ∀ v ∈ vs, -(s.min : Int) ≤ v
  minat : s.min = 0 ∨ -(s.min : Int) ∈ vs
  maxlt : s.max < 2 ^ 64
  minle : s.min ≤ 2 ^ 63
  /-- before the first enumerator is recorded (`enumconsts == NULL`) the loop is in its initial state -/
  seen : s.seen = true ∨ (next = 0 ∧ sgn = true)

theorem max_track {vs : List Int} {M M' : Nat} {v : Int} (hub : ∀ x ∈ vs, x ≤ (M : Int))
    (hat : M = 0 ∨ (M : Int) ∈ vs) (hM : (M' = M ∧ v ≤ M) ∨ ((M' : Int) = v ∧ (M : Int) ≤ v)) :
    (∀ x ∈ vs ++ [v], x ≤ (M' : Int)) ∧ (M' = 0 ∨ (M' : Int) ∈ vs ++ [v]) := by
  constructor
  · intro x hx
    rcases List.mem_append.1 hx with hx | hx
    · have := hub x hx; omega
    · simp only [List.mem_singleton] at hx; subst hx; omega
  · rcases hM with ⟨h1, _⟩ | ⟨h1, _⟩
    · subst h1
      rcases hat with h | h
      · exact Or.inl h
      · exact Or.inr (List.mem_append_left _ h)
    · right; rw [h1]; simp

theorem min_track {vs : List Int} {m m' : Nat} {v : Int} (hlb : ∀ x ∈ vs, -(m : Int) ≤ x)
    (hat : m = 0 ∨ -(m : Int) ∈ vs) (hm : (m' = m ∧ -(m : Int) ≤ v) ∨ (-(m' : Int) = v ∧ v ≤ -(m : Int))) :
    (∀ x ∈ vs ++ [v], -(m' : Int) ≤ x) ∧ (m' = 0 ∨ -(m' : Int) ∈ vs ++ [v]) := by
  constructor
  · intro x hx
    rcases List.mem_append.1 hx with hx | hx
    · have := hlb x hx; omega
    · simp only [List.mem_singleton] at hx; subst hx; omega
  · rcases hm with ⟨h1, _⟩ | ⟨h1, _⟩
    · subst h1
      rcases hat with h | h
      · exact Or.inl h
      · exact Or.inr (List.mem_append_left _ h)
    · right; rw [h1]; simp

theorem ite_max (a b : Nat) : (if decide (b > a) = true then b else a) = max a b := by
  simp only [decide_eq_true_eq, Nat.max_def]; split <;> split <;> omega

/-- the `min`/`max` bookkeeping at the end of the loop body -/
theorem record_ok {s : EnumSt} {next : Int} {sgn : Bool} {vs : List Int} (h : EJ s next sgn vs)
    {value : Nat} {et : IntTy} {v : Int} (hv : v = val64 value et.signed) (hvl : value < 2 ^ 64)
    (hr : Represents et v) (het : ValidTy et) (hsg : et.signed = false → v > 2 ^ 31 - 1)
    {s' : EnumSt} (h1 : s'.value = u64 (value + 1)) (h2 : s'.et = et)
    (h3 : s'.max = if !(et.signed && decide (value ≥ 9223372036854775808)) && decide (value > s.max) then value else s.max)
    (h4 : s'.min = if (et.signed && decide (value ≥ 9223372036854775808)) && decide (sub64 0 value > s.min) then sub64 0 value else s.min)
    (h5 : s'.seen = true) :
    EJ s' (v + 1) et.signed (vs ++ [v]) := by
  obtain ⟨b1, b2⟩ := lo_hi_bounds het
  have hmax := h.maxub; have hmaxat := h.maxat; have hminlb := h.minlb; have hminat := h.minat
  have hmaxlt := h.maxlt; have hminle := h.minle
  unfold Represents at hr
  -- three cases: unsigned type / signed with the sign bit set / signed non-negative
  have key : ((s'.max = max s.max value ∧ s'.min = s.min ∧ v = (value : Int)) ∨
      (s'.max = s.max ∧ s'.min = max s.min (2 ^ 64 - value) ∧ v = (value : Int) - 2 ^ 64 ∧ value ≥ 2 ^ 63)) := by
    cases hs : et.signed with
    | false =>
      left
      simp only [hs, Bool.false_and, Bool.not_false, Bool.true_and, Bool.false_eq_true, ↓reduceIte, ite_max] at h3 h4
      exact ⟨h3, h4, by simp [hv, val64, hs]⟩
    | true =>
      by_cases hneg : value ≥ 9223372036854775808
      · right
        have hsub : sub64 0 value = 2 ^ 64 - value := by unfold sub64 u64 M64; omega
        simp only [hs, hneg, decide_true, Bool.and_self, Bool.not_true, Bool.false_and, Bool.false_eq_true,
          ↓reduceIte, Bool.true_and, hsub, ite_max] at h3 h4
        exact ⟨h3, h4, by simp [hv, val64, hs, hneg], hneg⟩
      · left
        have hd : decide (value ≥ 9223372036854775808) = false := by simpa using hneg
        simp only [hs, hd, Bool.and_false, Bool.not_false, Bool.true_and, Bool.false_and, Bool.false_eq_true,
          ↓reduceIte, ite_max] at h3 h4
        exact ⟨h3, h4, by simp [hv, val64, hs, hneg]⟩
  have hrange : lo et + 1 ≤ v + 1 ∧ v + 1 ≤ hi et + 1 := by omega
  have huns : et.signed = false → v + 1 > 2 ^ 31 := fun hs => by have := hsg hs; omega
  have hvalue : (s'.value : Int) = (v + 1) % 2 ^ 64 := by
    rw [h1]; simp only [u64, M64]
    rcases key with ⟨_, _, k⟩ | ⟨_, _, k, _⟩ <;> omega
  rcases key with ⟨k1, k2, k3⟩ | ⟨k1, k2, k3, k4⟩
  · have hsgn : 0 ≤ v := by omega
    obtain ⟨m1, m2⟩ := max_track (M' := s'.max) (v := v) hmax hmaxat (by omega)
    obtain ⟨n1, n2⟩ := min_track (m' := s'.min) (v := v) hminlb hminat (by omega)
    exact ⟨hvalue, by rw [h2], h2 ▸ het, by rw [h2]; exact hrange, huns, m1, m2, n1, n2, by omega, by omega, Or.inl h5⟩
  · obtain ⟨m1, m2⟩ := max_track (M' := s'.max) (v := v) hmax hmaxat (by omega)
    obtain ⟨n1, n2⟩ := min_track (m' := s'.min) (v := v) hminlb hminat (by omega)
    exact ⟨hvalue, by rw [h2], h2 ▸ het, by rw [h2]; exact hrange, huns, m1, m2, n1, n2, by omega, by omega, Or.inl h5⟩

theorem record_ok' {s : EnumSt} {next : Int} {sgn : Bool} {vs : List Int} (h : EJ s next sgn vs)
    {value : Nat} {et : IntTy} {v : Int} (hv : v = val64 value et.signed) (hvl : value < 2 ^ 64)
    (hr : Represents et v) (het : ValidTy et) (hsg : et.signed = false → v > 2 ^ 31 - 1) :
    EJ (enumRecord s value et) (v + 1) et.signed (vs ++ [v]) :=
  record_ok h hv hvl hr het hsg rfl rfl rfl rfl rfl

theorem find_inttypes (sg : Bool) (p : IntTy → Bool) (h8 : p ⟨8, sg⟩ = true) :
    ∃ t, (inttypes sg).find? p = some t ∧ ValidTy t ∧ t.signed = sg ∧ p t = true := by
  unfold inttypes
  by_cases h4 : p ⟨4, sg⟩ = true
  · exact ⟨⟨4, sg⟩, by simp [List.find?, h4], Or.inr (Or.inr (Or.inl rfl)), rfl, h4⟩
  · exact ⟨⟨8, sg⟩, by simp [List.find?, h4, h8], Or.inr (Or.inr (Or.inr rfl)), rfl, h8⟩

theorem inInt_iff (v : Int) : inInt v = true ↔ Represents tInt v := by
  unfold inInt Represents lo hi tInt; simp

theorem enumPick_nofix {s : EnumSt} {next : Int} {sgn : Bool} {vs : List Int} {it : EnumItem}
    {value : Nat} {et : IntTy} (h : EJ s next sgn vs) (hw : ItemWf it)
    (hs : enumPick false s it = .ok (value, et)) :
    ∃ v : Int, (∀ its, enumValues next sgn (it :: its) =
        (enumValues (v + 1) et.signed its).map (v :: ·)) ∧
      v = val64 value et.signed ∧ value < 2 ^ 64 ∧ Represents et v ∧ ValidTy et ∧
      (et.signed = false → v > 2 ^ 31 - 1) := by
  obtain ⟨b1, b2⟩ := lo_hi_bounds h.valid
  have hval := h.value; have hrange := h.range; have huns := h.uns; have hsg := h.sg
  cases it with
  | explicit u ty =>
    obtain ⟨hu, hty, hrep⟩ := hw
    have hu64 : u64 u = u := u64_of_lt (by unfold M64; omega)
    have hcv := constValue_eq ty hu
    have hti := typehasint_iff (t := tInt) (by decide) hu ty.signed
    simp only [enumPick, Bool.not_false, ↓reduceIte, hu64, Except.ok.injEq, Prod.mk.injEq] at hs
    obtain ⟨hs1, hs2⟩ := hs
    subst hs1
    rw [← hcv] at hti
    by_cases hfit : typehasint tInt u ty.signed = true
    · simp only [hfit, ↓reduceIte] at hs2
      subst hs2
      have hr := hti.1 hfit
      refine ⟨constValue u ty, ?_, ?_, hu, hr, by decide, fun h => by simp [tInt] at h⟩
      · intro its
        simp only [enumValues, (inInt_iff _).2 hr, Bool.true_or, tInt]
      · rw [hcv]
        have : Represents tInt (val64 u ty.signed) := hcv ▸ hr
        unfold Represents lo hi tInt at this
        unfold val64 tInt at *
        simp only [Bool.true_and] at *
        split <;> split <;> simp_all <;> omega
    · simp only [hfit, Bool.false_eq_true, ↓reduceIte] at hs2
      subst hs2
      have hnr : ¬ Represents tInt (constValue u ty) := fun hr => hfit (hti.2 hr)
      have hni : inInt (constValue u ty) = false := by
        cases hi : inInt (constValue u ty)
        · rfl
        · exact absurd ((inInt_iff _).1 hi) hnr
      refine ⟨constValue u ty, ?_, hcv, hu, hrep, hty, ?_⟩
      · intro its
        simp only [enumValues, hni, Bool.false_or]
      · intro hsf
        unfold Represents lo hi tInt at hnr
        rw [hcv] at hnr ⊢
        unfold val64 at *
        simp only [hsf, Bool.false_and, Bool.false_eq_true, ↓reduceIte] at *
        omega
  | implicit =>
    simp only [enumPick] at hs
    by_cases c0 : (s.seen && ((s.value == 0 && !s.et.signed) || (s.value == 9223372036854775808 && s.et.signed))) = true
    · simp [c0] at hs
    simp only [c0, Bool.false_eq_true, ↓reduceIte] at hs
    -- the value is `next`, in range for the signedness of `et`
    have hvl : s.value < 2 ^ 64 := by omega
    -- the wrap-around test is false also on the first enumerator (`int`, value 0), where it is not evaluated
    have c1 : ¬ ((s.value == 0 && !s.et.signed) || (s.value == 9223372036854775808 && s.et.signed)) = true := by
      rcases h.seen with hsn | ⟨hn0, hs0⟩
      · simpa [hsn] using c0
      · have hv0 : s.value = 0 := by omega
        simp [hv0, hsg, hs0]
    have hnext : next = val64 s.value s.et.signed ∧
        ¬ ((sgn && decide (next > 2 ^ 63 - 1) || !sgn && decide (next > 2 ^ 64 - 1)) = true) := by
      unfold val64
      cases hsig : s.et.signed with
      | true =>
        obtain ⟨d1, d2, d3, d4⟩ := b1 hsig
        rw [hsig] at hsg; subst hsg
        simp only [hsig, Bool.not_true, Bool.and_false, Bool.and_true, Bool.false_or, beq_iff_eq] at c1
        simp only [Bool.true_and, decide_eq_true_eq, Bool.not_true, Bool.false_and, Bool.or_false]
        constructor
        · split <;> omega
        · omega
      | false =>
        obtain ⟨d1, d2, d3⟩ := b2 hsig
        rw [hsig] at hsg; subst hsg
        simp only [hsig, Bool.not_false, Bool.and_true, Bool.and_false, Bool.or_false, beq_iff_eq] at c1
        simp only [Bool.false_and, Bool.false_eq_true, ↓reduceIte, Bool.not_false, Bool.true_and,
          Bool.false_or, decide_eq_true_eq]
        constructor <;> omega
    obtain ⟨hn1, hn2⟩ := hnext
    have h64 : Represents ⟨8, s.et.signed⟩ next := by
      unfold Represents lo hi
      cases hsig : s.et.signed with
      | true => obtain ⟨d1, d2, d3, d4⟩ := b1 hsig; simp only [↓reduceIte]; rw [hsig] at hn1; unfold val64 at hn1; simp at hn1; split at hn1 <;> omega
      | false => obtain ⟨d1, d2, d3⟩ := b2 hsig; simp only [Bool.false_eq_true, ↓reduceIte]; rw [hsig] at hn1; unfold val64 at hn1; simp at hn1; omega
    have hspec : ∀ (et' : IntTy), et'.signed = s.et.signed → ∀ its, enumValues next sgn (EnumItem.implicit :: its) =
        (enumValues (next + 1) et'.signed its).map (next :: ·) := by
      intro et' he its
      simp only [enumValues, hn2, Bool.false_eq_true, ↓reduceIte]
      congr 2
      rw [he, hsg]
      cases hsgn : sgn with
      | true => simp
      | false =>
        have := huns hsgn
        have : inInt next = false := by unfold inInt; simp; omega
        simp [this]
    have hunsv : s.et.signed = false → next > 2 ^ 31 - 1 := fun hf => by
      have := huns (hsg ▸ hf); omega
    by_cases c2 : typehasint s.et s.value s.et.signed = true
    · simp only [c2, Bool.not_true, Bool.false_eq_true, ↓reduceIte, Except.ok.injEq, Prod.mk.injEq] at hs
      obtain ⟨hs1, hs2⟩ := hs
      subst hs1; subst hs2
      have hr := (typehasint_iff h.valid hvl s.et.signed).1 c2
      rw [← hn1] at hr
      exact ⟨next, hspec s.et rfl, hn1, hvl, hr, h.valid, hunsv⟩
    · simp only [c2, Bool.not_false, ↓reduceIte] at hs
      have h8 : typehasint ⟨8, s.et.signed⟩ s.value s.et.signed = true := by
        apply (typehasint_iff (t := ⟨8, s.et.signed⟩) (Or.inr (Or.inr (Or.inr rfl))) hvl s.et.signed).2
        rw [← hn1]; exact h64
      obtain ⟨t, ht1, ht2, ht3, ht4⟩ := find_inttypes s.et.signed (fun t => typehasint t s.value s.et.signed) h8
      simp only [ht1, Except.ok.injEq, Prod.mk.injEq] at hs
      obtain ⟨hs1, hs2⟩ := hs
      subst hs1; subst hs2
      have hr := (typehasint_iff ht2 hvl s.et.signed).1 ht4
      rw [← hn1] at hr
      exact ⟨next, hspec t ht3, by rw [ht3]; exact hn1, hvl, hr, ht2, fun hf => hunsv (ht3 ▸ hf)⟩

def ItemsWf (items : List EnumItem) : Prop := ∀ it ∈ items, ItemWf it

instance (items : List EnumItem) : Decidable (ItemsWf items) := by unfold ItemsWf; infer_instance

theorem enumLoop_nofix : ∀ (items : List EnumItem) (s : EnumSt) (next : Int) (sgn : Bool) (vs : List Int)
    (sf : EnumSt), EJ s next sgn vs → ItemsWf items → enumLoop false s items = .ok sf →
    ∃ vals next' sgn', enumValues next sgn items = some vals ∧ EJ sf next' sgn' (vs ++ vals)
  | [], s, next, sgn, vs, sf, h, _, hl => by
    simp only [enumLoop, Except.ok.injEq] at hl
    subst hl
    exact ⟨[], next, sgn, rfl, by simpa using h⟩
  | it :: its, s, next, sgn, vs, sf, h, hw, hl => by
    simp only [enumLoop, enumStep] at hl
    cases hp : enumPick false s it with
    | error e => simp [hp] at hl
    | ok r =>
      obtain ⟨value, et⟩ := r
      simp only [hp] at hl
      obtain ⟨v, hspec, hv, hvl, hr, het, hsg⟩ := enumPick_nofix h (hw it (by simp)) hp
      have h' := record_ok' h hv hvl hr het hsg
      obtain ⟨vals, n', s', e1, e2⟩ := enumLoop_nofix its _ _ _ _ sf h' (fun x hx => hw x (by simp [hx])) hl
      refine ⟨v :: vals, n', s', ?_, ?_⟩
      · rw [hspec its, e1]; rfl
      · simpa using e2

theorem EJ_init : EJ {} 0 true [] :=
  ⟨by decide, rfl, by decide, by decide, fun h => by simp at h, by simp, Or.inl rfl, by simp, Or.inl rfl,
    by decide, by decide, Or.inr ⟨rfl, rfl⟩⟩

theorem all_represents_iff {t : IntTy} (ht : ValidTy t) {vs : List Int} {M m : Nat}
    (h1 : ∀ v ∈ vs, v ≤ (M : Int)) (h2 : M = 0 ∨ (M : Int) ∈ vs)
    (h3 : ∀ v ∈ vs, -(m : Int) ≤ v) (h4 : m = 0 ∨ -(m : Int) ∈ vs) :
    (vs.all (fun v => decide (Represents t v)) = true) ↔ (Represents t M ∧ Represents t (-(m : Int))) := by
  obtain ⟨b1, b2⟩ := lo_hi_bounds ht
  have hz : Represents t 0 := by
    unfold Represents
    cases hs : t.signed
    · obtain ⟨c1, c2, c3⟩ := b2 hs; omega
    · obtain ⟨c1, c2, c3, c4⟩ := b1 hs; omega
  simp only [List.all_eq_true, decide_eq_true_eq]
  constructor
  · intro hall
    constructor
    · rcases h2 with h | h
      · rw [h]; exact hz
      · exact hall _ h
    · rcases h4 with h | h
      · rw [h]; exact hz
      · exact hall _ h
  · intro ⟨r1, r2⟩ v hv
    have := h1 v hv; have := h3 v hv
    unfold Represents at *
    omega

theorem any_neg_iff {vs : List Int} {m : Nat} (h3 : ∀ v ∈ vs, -(m : Int) ≤ v) (h4 : m = 0 ∨ -(m : Int) ∈ vs) :
    vs.any (fun v => decide (v < 0)) = decide (m > 0) := by
  by_cases hm : m > 0
  · have : -(m : Int) ∈ vs := by rcases h4 with h | h; · omega
                                 · exact h
    simp only [hm, decide_true, List.any_eq_true, decide_eq_true_eq]
    exact ⟨_, this, by omega⟩
  · simp only [hm, decide_false]
    cases h : vs.any (fun v => decide (v < 0))
    · rfl
    · simp only [List.any_eq_true, decide_eq_true_eq] at h
      obtain ⟨x, hx1, hx2⟩ := h
      have := h3 x hx1; omega

theorem val64_neg {m : Nat} (hm : m ≤ 2 ^ 63) : val64 (sub64 0 m) true = -(m : Int) := by
  unfold val64 sub64 u64 M64
  by_cases h0 : m = 0
  · subst h0; simp
  · have : (0 % 18446744073709551616 + (18446744073709551616 - m % 18446744073709551616)) % 18446744073709551616
        = 18446744073709551616 - m := by omega
    rw [this]
    have h2 : 18446744073709551616 - m ≥ 2 ^ 63 := by omega
    simp only [Bool.true_and, h2, decide_true, ↓reduceIte]
    omega

theorem enumUnderlying_nofix {items : List EnumItem} {t : IntTy} (hw : ItemsWf items)
    (h : Layout.enumUnderlying none items = .ok t) : Abi.enumUnderlying none items = some t := by
  simp only [Layout.enumUnderlying] at h
  cases hl : enumLoop false {} items with
  | error e => simp [hl] at h
  | ok sf =>
    simp only [hl] at h
    obtain ⟨vals, n', s', e1, ej⟩ := enumLoop_nofix items {} 0 true [] sf EJ_init hw hl
    simp only [List.nil_append] at ej
    have hM := ej.maxlt; have hm := ej.minle
    have hany := any_neg_iff ej.minlb ej.minat
    have hall : ∀ t', ValidTy t' → (vals.all (fun v => decide (Represents t' v)) = true ↔
        (Represents t' sf.max ∧ Represents t' (-(sf.min : Int)))) :=
      fun t' ht' => all_represents_iff ht' ej.maxub ej.maxat ej.minlb ej.minat
    simp only [Abi.enumUnderlying, e1, hany]
    by_cases hA : (decide (sf.min ≤ 0x80000000) && decide (sf.max ≤ 0x7fffffff)) = true
    · simp only [hA, ↓reduceIte, Except.ok.injEq] at h
      simp only [Bool.and_eq_true, decide_eq_true_eq] at hA
      by_cases hm0 : sf.min = 0
      · simp only [hm0, bne_self_eq_false, Bool.false_eq_true, ↓reduceIte] at h
        subst h
        have : vals.all (fun v => decide (Represents ⟨4, false⟩ v)) = true := by
          apply (hall ⟨4, false⟩ (by decide)).2
          unfold Represents lo hi; simp [hm0]; omega
        simp [hm0, List.find?, this, tUInt]
      · have hne : (sf.min != 0) = true := by simp [hm0]
        simp only [hne, ↓reduceIte] at h
        subst h
        have hpos : sf.min > 0 := by omega
        have : vals.all (fun v => decide (Represents ⟨4, true⟩ v)) = true := by
          apply (hall ⟨4, true⟩ (by decide)).2
          unfold Represents lo hi; simp; omega
        simp [hpos, List.find?, this, tInt]
    · simp only [hA, Bool.false_eq_true, ↓reduceIte] at h
      generalize hsg : decide (sf.min > 0) = sg at h ⊢
      have hp : ∀ t', ValidTy t' → (typehasint t' sf.max false && typehasint t' (sub64 0 sf.min) true) =
          vals.all (fun v => decide (Represents t' v)) := by
        intro t' ht'
        have h1 := typehasint_iff ht' hM false
        have h2 := typehasint_iff (i := sub64 0 sf.min) ht' (by unfold sub64 u64 M64; omega) true
        rw [val64_neg hm] at h2
        have h3 := hall t' ht'
        have hv : val64 sf.max false = sf.max := by simp [val64]
        rw [hv] at h1
        cases ha : vals.all (fun v => decide (Represents t' v)) with
        | true =>
          have := h3.1 ha
          simp [h1.2 this.1, h2.2 this.2]
        | false =>
          cases hb : (typehasint t' sf.max false && typehasint t' (sub64 0 sf.min) true) with
          | false => rfl
          | true =>
            simp only [Bool.and_eq_true] at hb
            have := h3.2 ⟨h1.1 hb.1, h2.1 hb.2⟩
            rw [ha] at this; cases this
      have p4 := hp ⟨4, sg⟩ (Or.inr (Or.inr (Or.inl rfl)))
      have p8 := hp ⟨8, sg⟩ (Or.inr (Or.inr (Or.inr rfl)))
      simp only [inttypes, List.find?] at h ⊢
      rw [p4, p8] at h
      cases h4 : vals.all (fun v => decide (Represents ⟨4, sg⟩ v)) with
      | true => simp only [h4] at h ⊢; simpa using h
      | false =>
        simp only [h4] at h ⊢
        cases h8 : vals.all (fun v => decide (Represents ⟨8, sg⟩ v)) with
        | true => simp only [h8] at h ⊢; simpa using h
        | false => simp [h8] at h

/-- ghost state of the enumerator loop with a fixed underlying type `b` -/
structure FJ (b : IntTy) (s : EnumSt) (next : Int) : Prop where
  value : (s.value : Int) = next % 2 ^ 64
  et : s.et = b
  /-- before the first enumerator is recorded (`enumconsts == NULL`) the counter is 0 -/
  first : s.seen = false → next = 0
  range : s.seen = true → lo b + 1 ≤ next ∧ next ≤ hi b + 1

theorem FJ_init (b : IntTy) : FJ b { et := b } 0 :=
  ⟨by simp, rfl, fun _ => rfl, fun hf => by simp at hf⟩

theorem enumPick_fix {b : IntTy} {s : EnumSt} {next : Int} {it : EnumItem} {value : Nat} {et : IntTy}
    (hb : ValidTy b) (h : FJ b s next) (hw : ItemWf it) (hs : enumPick true s it = .ok (value, et)) :
    ∃ v : Int, et = b ∧ Represents b v ∧ (value : Int) = v % 2 ^ 64 ∧
      ∀ its, enumValuesFixed next (it :: its) = v :: enumValuesFixed (v + 1) its := by
  obtain ⟨b1, b2⟩ := lo_hi_bounds hb
  have hval := h.value; have het := h.et
  cases it with
  | explicit u ty =>
    obtain ⟨hu, hty, hrep⟩ := hw
    have hu64 : u64 u = u := u64_of_lt (by unfold M64; omega)
    have hcv := constValue_eq ty hu
    simp only [enumPick, Bool.not_true, Bool.false_eq_true, ↓reduceIte, hu64, het] at hs
    by_cases hfit : typehasint b u ty.signed = true
    · simp only [hfit, Bool.not_true, Bool.false_eq_true, ↓reduceIte, Except.ok.injEq, Prod.mk.injEq] at hs
      obtain ⟨hs1, hs2⟩ := hs
      subst hs1; subst hs2
      have hr := (typehasint_iff hb hu ty.signed).1 hfit
      rw [← hcv] at hr
      refine ⟨constValue u ty, rfl, hr, ?_, fun its => by simp only [enumValuesFixed]⟩
      rw [hcv]; unfold val64; split <;> omega
    · simp [hfit] at hs
  | implicit =>
    simp only [enumPick, het] at hs
    by_cases c0 : (s.seen && ((s.value == 0 && !b.signed) || (s.value == 9223372036854775808 && b.signed))) = true
    · simp [c0] at hs
    simp only [c0, Bool.false_eq_true, ↓reduceIte] at hs
    have hvl : s.value < 2 ^ 64 := by omega
    by_cases c2 : typehasint b s.value b.signed = true
    · simp only [c2, Bool.not_true, Bool.false_eq_true, ↓reduceIte, Except.ok.injEq, Prod.mk.injEq] at hs
      obtain ⟨hs1, hs2⟩ := hs
      subst hs1; subst hs2
      have hr := (typehasint_iff hb hvl b.signed).1 c2
      have hn : val64 s.value b.signed = next := by
        cases hsn : s.seen with
        | false =>
          -- first enumerator: the counter is 0 and the wrap-around test is not evaluated
          have hn0 := h.first hsn
          have hv0 : s.value = 0 := by omega
          rw [hv0, hn0]; simp [val64]
        | true =>
          obtain ⟨r1, r2⟩ := h.range hsn
          have c1 : ¬ ((s.value == 0 && !b.signed) || (s.value == 9223372036854775808 && b.signed)) = true := by
            simpa [hsn] using c0
          unfold val64
          cases hsig : b.signed with
          | true =>
            obtain ⟨d1, d2, d3, d4⟩ := b1 hsig
            simp only [hsig, Bool.not_true, Bool.and_false, Bool.and_true, Bool.false_or, beq_iff_eq] at c1
            simp only [Bool.true_and, decide_eq_true_eq]
            split <;> omega
          | false =>
            obtain ⟨d1, d2, d3⟩ := b2 hsig
            simp only [hsig, Bool.not_false, Bool.and_true, Bool.and_false, Bool.or_false, beq_iff_eq] at c1
            simp only [Bool.false_and, Bool.false_eq_true, ↓reduceIte]
            omega
      rw [hn] at hr
      exact ⟨next, rfl, hr, hval, fun its => by simp only [enumValuesFixed]⟩
    · simp [c2] at hs

theorem enumLoop_fix {b : IntTy} (hb : ValidTy b) : ∀ (items : List EnumItem) (s : EnumSt) (next : Int)
    (sf : EnumSt), FJ b s next → ItemsWf items → enumLoop true s items = .ok sf →
    (enumValuesFixed next items).all (fun v => decide (Represents b v)) = true
  | [], _, _, _, _, _, _ => by simp [enumValuesFixed]
  | it :: its, s, next, sf, h, hw, hl => by
    simp only [enumLoop, enumStep] at hl
    cases hp : enumPick true s it with
    | error e => simp [hp] at hl
    | ok r =>
      obtain ⟨value, et⟩ := r
      simp only [hp] at hl
      obtain ⟨v, he, hr, hv, hspec⟩ := enumPick_fix hb h (hw it (by simp)) hp
      subst he
      have h' : FJ et (enumRecord s value et) (v + 1) := by
        refine ⟨?_, rfl, fun hf => by simp [enumRecord] at hf, fun _ => ?_⟩
        · simp only [enumRecord, u64, M64]; omega
        · unfold Represents at hr; omega
      have ih := enumLoop_fix hb its _ _ sf h' (fun x hx => hw x (by simp [hx])) hl
      rw [hspec its]
      simp only [List.all_cons, Bool.and_eq_true, decide_eq_true_eq]
      exact ⟨hr, ih⟩

theorem enumUnderlying_fix {b : IntTy} {items : List EnumItem} {t : IntTy} (hb : ValidTy b)
    (hw : ItemsWf items) (h : Layout.enumUnderlying (some b) items = .ok t) :
    Abi.enumUnderlying (some b) items = some t := by
  simp only [Layout.enumUnderlying] at h
  cases hl : enumLoop true { et := b } items with
  | error e => simp [hl] at h
  | ok sf =>
    simp only [hl, Except.ok.injEq] at h
    subst h
    have := enumLoop_fix hb items { et := b } 0 sf (FJ_init b) hw hl
    simp only [Abi.enumUnderlying, this, ↓reduceIte]
/-! ### Acceptance: an enum the spec gives a type to is not rejected -/

theorem enumPick_nofix_complete {s : EnumSt} {next : Int} {sgn : Bool} {vs : List Int} {it : EnumItem}
    {its : List EnumItem} (h : EJ s next sgn vs) (hsp : enumValues next sgn (it :: its) ≠ none) :
    ∃ r, enumPick false s it = .ok r := by
  obtain ⟨b1, b2⟩ := lo_hi_bounds h.valid
  have hval := h.value; have hrange := h.range; have huns := h.uns; have hsg := h.sg
  cases it with
  | explicit u ty => exact ⟨(u64 u, if typehasint tInt (u64 u) ty.signed = true then tInt else ty), by simp only [enumPick, Bool.not_false, ↓reduceIte]⟩
  | implicit =>
    have hvl : s.value < 2 ^ 64 := by omega
    have hc : ¬ ((sgn && decide (next > 2 ^ 63 - 1) || !sgn && decide (next > 2 ^ 64 - 1)) = true) := by
      intro hc; apply hsp; simp only [enumValues, hc, ↓reduceIte]
    have c1 : ((s.value == 0 && !s.et.signed) || (s.value == 9223372036854775808 && s.et.signed)) = false := by
      cases hsig : s.et.signed with
      | true =>
        obtain ⟨d1, d2, d3, d4⟩ := b1 hsig
        rw [hsig] at hsg; subst hsg
        simp only [Bool.true_and, decide_eq_true_eq, Bool.not_true, Bool.false_and, Bool.or_false] at hc
        simp only [Bool.not_true, Bool.and_false, Bool.and_true, Bool.false_or, beq_eq_false_iff_ne, ne_eq]
        omega
      | false =>
        obtain ⟨d1, d2, d3⟩ := b2 hsig
        rw [hsig] at hsg; subst hsg
        simp only [Bool.false_and, Bool.not_false, Bool.true_and, Bool.false_or, decide_eq_true_eq] at hc
        simp only [Bool.not_false, Bool.and_true, Bool.and_false, Bool.or_false, beq_eq_false_iff_ne, ne_eq]
        omega
    simp only [enumPick, c1, Bool.and_false, Bool.false_eq_true, ↓reduceIte]
    by_cases c2 : typehasint s.et s.value s.et.signed = true
    · exact ⟨(s.value, s.et), by simp only [c2, Bool.not_true, Bool.false_eq_true, ↓reduceIte]⟩
    · have h8 : typehasint ⟨8, s.et.signed⟩ s.value s.et.signed = true := by
        apply (typehasint_iff (t := ⟨8, s.et.signed⟩) (Or.inr (Or.inr (Or.inr rfl))) hvl s.et.signed).2
        unfold Represents lo hi val64
        simp only [Bool.or_eq_false_iff, Bool.and_eq_false_iff] at c1
        cases hsig : s.et.signed with
        | true =>
          obtain ⟨d1, d2, d3, d4⟩ := b1 hsig
          simp only [↓reduceIte, Bool.true_and, decide_eq_true_eq]
          split <;> omega
        | false =>
          obtain ⟨d1, d2, d3⟩ := b2 hsig
          simp only [Bool.false_eq_true, ↓reduceIte, Bool.false_and]
          omega
      obtain ⟨t, ht1, _⟩ := find_inttypes s.et.signed (fun t => typehasint t s.value s.et.signed) h8
      exact ⟨(s.value, t), by simp only [c2, Bool.not_false, ↓reduceIte, ht1]⟩

theorem enumLoop_nofix_complete : ∀ (items : List EnumItem) (s : EnumSt) (next : Int) (sgn : Bool)
    (vs : List Int), EJ s next sgn vs → ItemsWf items → enumValues next sgn items ≠ none →
    ∃ sf, enumLoop false s items = .ok sf
  | [], s, _, _, _, _, _, _ => ⟨s, rfl⟩
  | it :: its, s, next, sgn, vs, h, hw, hsp => by
    obtain ⟨⟨value, et⟩, hp⟩ := enumPick_nofix_complete h hsp
    obtain ⟨v, hspec, hv, hvl, hr, het, hsg⟩ := enumPick_nofix h (hw it (by simp)) hp
    have h' := record_ok' h hv hvl hr het hsg
    have hsp' : enumValues (v + 1) et.signed its ≠ none := by
      intro hn; apply hsp; rw [hspec its, hn]; rfl
    obtain ⟨sf, hl⟩ := enumLoop_nofix_complete its _ _ _ _ h' (fun x hx => hw x (by simp [hx])) hsp'
    exact ⟨sf, by simp only [enumLoop, enumStep, hp, hl]⟩

theorem enumUnderlying_nofix_complete {items : List EnumItem} {t : IntTy} (hw : ItemsWf items)
    (h : Abi.enumUnderlying none items = some t) : Layout.enumUnderlying none items = .ok t := by
  have hsp : enumValues 0 true items ≠ none := by
    intro hn; simp [Abi.enumUnderlying, hn] at h
  obtain ⟨sf, hl⟩ := enumLoop_nofix_complete items {} 0 true [] EJ_init hw hsp
  obtain ⟨vals, n', s', e1, ej⟩ := enumLoop_nofix items {} 0 true [] sf EJ_init hw hl
  simp only [List.nil_append] at ej
  -- it suffices that the model does not end in `enumNoFit`: then soundness identifies the type
  suffices hok : ∃ t', Layout.enumUnderlying none items = .ok t' by
    obtain ⟨t', ht'⟩ := hok
    have := enumUnderlying_nofix hw ht'
    rw [h] at this
    cases this
    exact ht'
  have hM := ej.maxlt; have hm := ej.minle
  have hany := any_neg_iff ej.minlb ej.minat
  have hall : ∀ t', ValidTy t' → (vals.all (fun v => decide (Represents t' v)) = true ↔
      (Represents t' sf.max ∧ Represents t' (-(sf.min : Int)))) :=
    fun t' ht' => all_represents_iff ht' ej.maxub ej.maxat ej.minlb ej.minat
  simp only [Layout.enumUnderlying, hl]
  by_cases hA : (decide (sf.min ≤ 0x80000000) && decide (sf.max ≤ 0x7fffffff)) = true
  · exact ⟨_, by simp only [hA, ↓reduceIte] <;> rfl⟩
  · simp only [hA, Bool.false_eq_true, ↓reduceIte]
    simp only [Abi.enumUnderlying, e1, hany] at h
    generalize hsg : decide (sf.min > 0) = sg at h ⊢
    have hp : ∀ t', ValidTy t' → vals.all (fun v => decide (Represents t' v)) = true →
        (typehasint t' sf.max false && typehasint t' (sub64 0 sf.min) true) = true := by
      intro t' ht' ha
      have h1 := typehasint_iff ht' hM false
      have h2 := typehasint_iff (i := sub64 0 sf.min) ht' (by unfold sub64 u64 M64; omega) true
      rw [val64_neg hm] at h2
      have hv : val64 sf.max false = sf.max := by simp [val64]
      rw [hv] at h1
      have := (hall t' ht').1 ha
      simp [h1.2 this.1, h2.2 this.2]
    simp only [List.find?] at h
    simp only [inttypes, List.find?]
    cases h4 : vals.all (fun v => decide (Represents ⟨4, sg⟩ v)) with
    | true =>
      have := hp ⟨4, sg⟩ (Or.inr (Or.inr (Or.inl rfl))) h4
      exact ⟨_, by simp only [this] <;> rfl⟩
    | false =>
      simp only [h4] at h
      cases h8 : vals.all (fun v => decide (Represents ⟨8, sg⟩ v)) with
      | true =>
        have p8 := hp ⟨8, sg⟩ (Or.inr (Or.inr (Or.inr rfl))) h8
        cases p4 : (typehasint ⟨4, sg⟩ sf.max false && typehasint ⟨4, sg⟩ (sub64 0 sf.min) true) with
        | true => exact ⟨_, rfl⟩
        | false => exact ⟨_, by simp only [p8] <;> rfl⟩
      | false => simp [h8] at h

/-- fixed underlying type: the loop does not fail when every value is representable (the
wrap-around test `value == 0 && !issigned` is not evaluated on the first enumerator, commit
bb180d9) -/
theorem enumLoop_fix_complete {b : IntTy} (hb : ValidTy b) : ∀ (items : List EnumItem) (s : EnumSt)
    (next : Int), FJ b s next → ItemsWf items →
    (enumValuesFixed next items).all (fun v => decide (Represents b v)) = true →
    ∃ sf, enumLoop true s items = .ok sf
  | [], s, _, _, _, _ => ⟨s, rfl⟩
  | it :: its, s, next, h, hw, hall => by
    obtain ⟨b1, b2⟩ := lo_hi_bounds hb
    have hval := h.value; have het := h.et
    have hpick : ∃ r, enumPick true s it = .ok r := by
      cases it with
      | explicit u ty =>
        obtain ⟨hu, hty, hrep⟩ := hw (EnumItem.explicit u ty) (by simp)
        have hu64 : u64 u = u := u64_of_lt (by unfold M64; omega)
        simp only [enumValuesFixed, List.all_cons, Bool.and_eq_true, decide_eq_true_eq] at hall
        have hfit : typehasint b u ty.signed = true := by
          apply (typehasint_iff hb hu ty.signed).2
          rw [← constValue_eq ty hu]; exact hall.1
        exact ⟨(u, b), by simp only [enumPick, Bool.not_true, Bool.false_eq_true, ↓reduceIte, hu64, het, hfit]⟩
      | implicit =>
        simp only [enumValuesFixed, List.all_cons, Bool.and_eq_true, decide_eq_true_eq] at hall
        have hr := hall.1
        unfold Represents at hr
        have hvl : s.value < 2 ^ 64 := by omega
        -- first enumerator: counter 0, test not evaluated; later ones: the counter is in range
        have hrange : (s.seen = false ∧ next = 0) ∨ (s.seen = true ∧ lo b + 1 ≤ next ∧ next ≤ hi b + 1) := by
          cases hsn : s.seen with
          | false => exact Or.inl ⟨rfl, h.first hsn⟩
          | true => exact Or.inr ⟨rfl, h.range hsn⟩
        have c1 : (s.seen && ((s.value == 0 && !b.signed) || (s.value == 9223372036854775808 && b.signed))) = false := by
          rcases hrange with ⟨hsn, _⟩ | ⟨hsn, r1, r2⟩
          · simp only [hsn, Bool.false_and]
          · simp only [hsn, Bool.true_and]
            cases hsig : b.signed with
            | true =>
              obtain ⟨d1, d2, d3, d4⟩ := b1 hsig
              simp only [Bool.not_true, Bool.and_false, Bool.and_true, Bool.false_or, beq_eq_false_iff_ne, ne_eq]
              omega
            | false =>
              obtain ⟨d1, d2, d3⟩ := b2 hsig
              simp only [Bool.not_false, Bool.and_true, Bool.and_false, Bool.or_false, beq_eq_false_iff_ne, ne_eq]
              omega
        have hn : val64 s.value b.signed = next := by
          unfold val64
          cases hsig : b.signed with
          | true =>
            obtain ⟨d1, d2, d3, d4⟩ := b1 hsig
            simp only [Bool.true_and, decide_eq_true_eq]
            rcases hrange with ⟨_, h00⟩ | ⟨_, r1, r2⟩ <;> split <;> omega
          | false =>
            obtain ⟨d1, d2, d3⟩ := b2 hsig
            simp only [Bool.false_and, Bool.false_eq_true, ↓reduceIte]
            rcases hrange with ⟨_, h00⟩ | ⟨_, r1, r2⟩ <;> omega
        have c2 : typehasint b s.value b.signed = true := by
          apply (typehasint_iff hb hvl b.signed).2
          rw [hn]; exact hall.1
        exact ⟨(s.value, b), by simp only [enumPick, het, c1, c2, Bool.false_eq_true, Bool.not_true, ↓reduceIte]⟩
    obtain ⟨⟨value, et⟩, hp⟩ := hpick
    obtain ⟨v, he, hr, hv, hspec⟩ := enumPick_fix hb h (hw it (by simp)) hp
    subst he
    have h' : FJ et (enumRecord s value et) (v + 1) := by
      refine ⟨?_, rfl, fun hf => by simp [enumRecord] at hf, fun _ => ?_⟩
      · simp only [enumRecord, u64, M64]; omega
      · unfold Represents at hr; omega
    rw [hspec its] at hall
    simp only [List.all_cons, Bool.and_eq_true] at hall
    obtain ⟨sf, hl⟩ := enumLoop_fix_complete hb its _ _ h' (fun x hx => hw x (by simp [hx])) hall.2
    exact ⟨sf, by simp only [enumLoop, enumStep, hp, hl]⟩

theorem enumUnderlying_fix_complete {b : IntTy} {items : List EnumItem} {t : IntTy} (hb : ValidTy b)
    (hw : ItemsWf items) (h : Abi.enumUnderlying (some b) items = some t) : Layout.enumUnderlying (some b) items = .ok t := by
  simp only [Abi.enumUnderlying] at h
  split at h
  · rename_i hall
    simp only [Option.some.injEq] at h
    subst h
    obtain ⟨sf, hl⟩ := enumLoop_fix_complete hb items { et := b } 0 (FJ_init b) hw hall
    simp only [Layout.enumUnderlying, hl]
  · cases h

end CprocVerif.Layout

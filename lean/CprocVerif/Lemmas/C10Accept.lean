import CprocVerif.Model.Accept
import CprocVerif.Lemmas.Tree

/-! `switchCases` accepts exactly the duplicate-free (after conversion) lists of case constants. -/

namespace CprocVerif.Accept
open CprocVerif.Tree CprocVerif.Tree.T

theorem switchCases_iff (size : Nat) (s : Bool) : ∀ (cs : List Nat) (t : T), Bst t →
    ((switchCases size s t cs).isSome = true ↔
      (cs.map (caseKey size s)).Nodup ∧ ∀ c ∈ cs, caseKey size s c ∉ toList t)
  | [], t, _ => by simp [switchCases]
  | c :: cs, t, hb => by
    have hnew := ins_new (caseKey size s c) t hb
    have hb' : Bst (ins t (caseKey size s c)).1 := ins_bst _ t hb
    have ih := switchCases_iff size s cs (ins t (caseKey size s c)).1 hb'
    simp only [switchCases]
    cases hn : (ins t (caseKey size s c)).2.2 with
    | false =>
      have : caseKey size s c ∈ toList t := by
        apply Classical.byContradiction; intro h
        rw [hnew.2 h] at hn; cases hn
      simp only [Bool.false_eq_true, if_false, Option.isSome_none, false_iff, not_and]
      intro _ h
      exact absurd this (h c List.mem_cons_self)
    | true =>
      have hc : caseKey size s c ∉ toList t := hnew.1 hn
      simp only [if_true, ih, List.map_cons, List.nodup_cons, List.mem_map, List.mem_cons, forall_eq_or_imp]
      constructor
      · rintro ⟨hnd, hall⟩
        refine ⟨⟨?_, hnd⟩, hc, ?_⟩
        · rintro ⟨c', hc', e⟩
          exact (hall c' hc') ((mem_ins _ _ t).2 (Or.inl e))
        · intro c' hc' hm
          exact (hall c' hc') ((mem_ins _ _ t).2 (Or.inr hm))
      · rintro ⟨⟨hn1, hnd⟩, _, hall⟩
        refine ⟨hnd, ?_⟩
        intro c' hc' hm
        rcases (mem_ins _ _ t).1 hm with e | hm
        · exact hn1 ⟨c', hc', e⟩
        · exact hall c' hc' hm

theorem nodup_map_congr {α β γ : Type} (f : α → β) (g : α → γ) (h : ∀ a b, f a = f b ↔ g a = g b) (l : List α) :
    (l.map f).Nodup ↔ (l.map g).Nodup := by
  simp only [List.Nodup, List.pairwise_map]
  constructor
  · intro hp; exact hp.imp (fun hne e => hne ((h _ _).2 e))
  · intro hp; exact hp.imp (fun hne e => hne ((h _ _).1 e))

end CprocVerif.Accept

import CprocVerif.Lemmas.PPObjMain

/-! # Object-like macro sets: an explicit fuel bound

`wt tbl t` is the number of tokens the complete replacement of `t` can go through when only the
macros of `tbl` may still be replaced (each macro at most once along a chain: the table shrinks).
The potential of a state adds this up over the context stack (each frame against the macros that
have no live frame at or below it) and the scanner's tokens.  Every pass through the loop of
`next()` lowers it, so `pot st + 4` units of fuel complete the run. -/

namespace CprocVerif.PP
open CprocVerif.Gen.TokenKinds
open CprocVerif.Spec.MacroRef (MacroDef PTok lookup)
open CprocVerif.Spec

def wt : Nat → List MacroDef → PTok → Nat
  | 0, _, _ => 1
  | d + 1, tbl, t =>
    if t.kind = .TIDENT then
      match lookup tbl (t.lit.getD []) with
      | some m => 1 + (m.body.map (wt d (MacroRef.erase tbl m.name))).sum
      | none => 1
    else 1

theorem wt_pos : ∀ (d : Nat) (tbl : List MacroDef) (t : PTok), 1 ≤ wt d tbl t
  | 0, _, _ => by simp [wt]
  | d + 1, tbl, t => by
    unfold wt
    split
    · split <;> omega
    · omega

/-- the macros without a live frame in `L` -/
def availT (tbl : List MacroDef) (L : List Name) : List MacroDef := tbl.filter fun m => !L.contains m.name

def W (tbl : List MacroDef) (L : List Name) (t : Tok) : Nat := wt (availT tbl L).length (availT tbl L) (toP t)

theorem W_pos (tbl : List MacroDef) (L : List Name) (t : Tok) : 1 ≤ W tbl L t := wt_pos _ _ _

theorem wt_key (d : Nat) (tbl : List MacroDef) (a b : PTok) (hk : a.kind = b.kind) (hl : a.lit = b.lit) :
    wt d tbl a = wt d tbl b := by
  cases d with
  | zero => rfl
  | succ d => unfold wt; rw [hk, hl]

theorem W_key (tbl : List MacroDef) (L : List Name) (t u : Tok) (hk : t.kind = u.kind) (hl : t.lit = u.lit) :
    W tbl L t = W tbl L u := wt_key _ _ _ _ hk hl

theorem lookup_avail {tbl : List MacroDef} {L : List Name} {n : Name} {m : MacroDef}
    (h : lookup tbl n = some m) (hn : L.contains n = false) : lookup (availT tbl L) n = some m := by
  unfold lookup availT at *
  induction tbl with
  | nil => cases h
  | cons a r ih =>
    simp only [List.find?_cons] at h
    by_cases ha : a.name = n
    · simp only [ha, decide_true] at h
      cases h
      have hn' : n ∉ L := by simpa using hn
      simp [List.filter_cons, ha, hn']
    · simp only [ha, decide_false] at h
      simp only [List.filter_cons]
      split
      · simp only [List.find?_cons, ha, decide_false]; exact ih h
      · exact ih h

theorem lookup_avail_none {tbl : List MacroDef} {L : List Name} {n : Name}
    (h : lookup tbl n = none) : lookup (availT tbl L) n = none := by
  unfold lookup availT at *
  rw [List.find?_eq_none] at h ⊢
  intro x hx
  exact h x (List.mem_filter.mp hx).1

theorem erase_avail (tbl : List MacroDef) (L : List Name) (n : Name) :
    MacroRef.erase (availT tbl L) n = availT tbl (n :: L) := by
  unfold MacroRef.erase availT
  rw [List.filter_filter]
  apply List.filter_congr
  intro x _
  by_cases h : x.name = n
  · simp [h]
  · have : (n == x.name) = false := by simp [Ne.symm h]
    simp [h, List.contains_cons, this, Bool.and_comm]

theorem length_erase {tbl : List MacroDef} {n : Name} {m : MacroDef} (hnd : (tbl.map (·.name)).Nodup)
    (h : lookup tbl n = some m) : tbl.length = (MacroRef.erase tbl n).length + 1 := by
  unfold lookup MacroRef.erase at *
  induction tbl with
  | nil => cases h
  | cons a r ih =>
    simp only [List.map_cons, List.nodup_cons] at hnd
    simp only [List.find?_cons] at h
    by_cases ha : a.name = n
    · have : List.filter (fun x => !decide (x.name = n)) r = r := by
        apply List.filter_eq_self.mpr
        intro x hx
        have : x.name ≠ a.name := fun hh => hnd.1 (List.mem_map.mpr ⟨x, hx, hh⟩)
        simp [← ha, this]
      simp [List.filter_cons, ha, this]
    · simp only [ha, decide_false] at h
      simp [List.filter_cons, ha, ih hnd.2 h]

theorem nodup_avail {tbl : List MacroDef} (L : List Name) (h : (tbl.map (·.name)).Nodup) :
    ((availT tbl L).map (·.name)).Nodup := by
  unfold availT
  exact List.Nodup.sublist (List.Sublist.map _ List.filter_sublist) h

/-- **replacing a macro name costs one unit**: its weight is one more than the weights of its
replacement list against the table without it -/
theorem W_expand {tbl : List MacroDef} {L : List Name} {t : Tok} {m : MacroDef}
    (hnd : (tbl.map (·.name)).Nodup) (hk : t.kind = .TIDENT) (hl : lookup tbl (t.lit.getD []) = some m)
    (hname : m.name = t.lit.getD []) (hn : L.contains m.name = false) :
    W tbl L t = 1 + (m.body.map (wt (availT tbl (m.name :: L)).length (availT tbl (m.name :: L)))).sum := by
  unfold W
  have hla : lookup (availT tbl L) (t.lit.getD []) = some m := lookup_avail hl (by rw [← hname]; exact hn)
  have hlen := length_erase (nodup_avail L hnd) hla
  rw [← hname] at hlen
  rw [hlen, wt]
  have : (toP t).kind = .TIDENT := hk
  have h2 : (toP t).lit = t.lit := rfl
  simp only [this, ↓reduceIte, h2, hla, erase_avail]


/-! ## the potential of a state -/

def potCtx (tbl : List MacroDef) : List Frame → Nat
  | [] => 0
  | f :: rest => (f.toks.map (W tbl (liveNames (f :: rest)))).sum + potCtx tbl rest

def pot (st : St) : Nat :=
  potCtx (toTbl st.macros) st.ctx + (st.raw.map (W (toTbl st.macros) [])).sum

theorem potCtx_popDone (tbl : List MacroDef) : ∀ (ctx : List Frame) (ms : List Macro) (d : Nat),
    potCtx tbl (popDone ctx ms d).1 = potCtx tbl ctx
  | [], ms, d => by unfold popDone; rfl
  | f :: rest, ms, d => by
    unfold popDone
    split
    · rename_i hemp
      have : f.toks = [] := by simpa using hemp
      have h2 : potCtx tbl (f :: rest) = potCtx tbl rest := by simp [potCtx, this]
      split
      · rw [potCtx_popDone, h2]
      · rw [potCtx_popDone, h2]
    · rfl

theorem toTbl_names (ms : List Macro) : (toTbl ms).map (·.name) = ms.map (·.name) := by
  simp [toTbl, toDefObj, List.map_map, Function.comp_def]

/-- `rawnext` takes one token off the potential (or the input is at its end) -/
theorem rawnext_pot (st : St) (g : Good st) :
    (rawnextObj st).rt.kind = .TEOF ∨
    (pot st = W (toTbl st.macros) (liveNames (rawnextObj st).ctx) (rawnextObj st).rt + pot (rawnextObj st) ∧
      (rawnextObj st).rt.kind ≠ .TEOF ∧ (rawnextObj st).rt.hide = false) := by
  have htbl := toTbl_popDone st.ctx st.macros st.depth
  have hpc := potCtx_popDone (toTbl st.macros) st.ctx st.macros st.depth
  have hsub := popDone_sub st.ctx st.macros st.depth
  have hne := popDone_top st.ctx st.macros st.depth
  unfold rawnextObj ctxnextObj
  simp only
  cases hctx : (popDone st.ctx st.macros st.depth).1 with
  | nil =>
    simp only [Bool.false_eq_true, ↓reduceIte]
    have hp0 : potCtx (toTbl st.macros) st.ctx = 0 := by rw [← hpc, hctx]; rfl
    cases hraw : st.raw with
    | nil => left; rfl
    | cons t r =>
      right
      have ht := g.plain t (by rw [hraw]; exact List.mem_cons_self ..)
      refine ⟨?_, ht.2.2, g.rawNoHide t (by rw [hraw]; exact List.mem_cons_self ..)⟩
      simp only [pot, htbl, hp0, hraw, List.map_cons, List.sum_cons, potCtx, liveNames, List.filterMap_nil]
      omega
  | cons f rest =>
    have hfne := hne f rest hctx
    simp only
    cases htoks : f.toks with
    | nil => exact absurd htoks hfne
    | cons t more =>
      simp only [↓reduceIte]
      right
      have hfmem : f ∈ st.ctx := hsub f (by rw [hctx]; exact List.mem_cons_self ..)
      have hok := g.ctxOk f hfmem t (by rw [htoks]; exact List.mem_cons_self ..)
      refine ⟨?_, hok.2.1, hok.2.2⟩
      have hp : potCtx (toTbl st.macros) st.ctx = potCtx (toTbl st.macros) (f :: rest) := by rw [← hpc, hctx]
      simp only [pot, htbl, hp, potCtx, htoks, List.map_cons, List.sum_cons, liveNames_settoks]
      omega

theorem sum_W_respace (tbl : List MacroDef) (L : List Name) (l : List Tok) (sp : Bool) :
    ((respace l sp).map (W tbl L)).sum = (l.map (W tbl L)).sum := by
  cases l with
  | nil => rfl
  | cons a r =>
    simp only [respace, List.map_cons, List.sum_cons]
    rw [W_key tbl L { a with space := sp } a rfl rfl]

/-- `expand` either leaves the potential alone (token not replaced) or trades the token's weight for
one unit less (token replaced by its replacement list) -/
theorem expand_pot (s1 : St) (g : Good s1) (t : Tok) (ht : t.hide = false) :
    ((expandObj t s1).rb = false ∧ pot (expandObj t s1) = pot s1) ∨
    ((expandObj t s1).rb = true ∧ pot (expandObj t s1) + 1 = W (toTbl s1.macros) (liveNames s1.ctx) t + pot s1) := by
  rw [expandObj_eq]
  by_cases hk : t.kind ≠ .TIDENT
  · simp only [hk, ne_eq, not_false_eq_true, ↓reduceIte]; left; exact ⟨by first | rfl | trivial, by first | rfl | trivial⟩
  · simp only [hk, ↓reduceIte]
    have hk' : t.kind = .TIDENT := by simpa using hk
    cases hm : macroget s1.macros (t.lit.getD []) with
    | none => left; exact ⟨rfl, rfl⟩
    | some m =>
      have hmem := macroget_mem hm
      by_cases hh : m.hide = true
      · simp only [hh, true_or, ↓reduceIte]; left; exact ⟨by first | rfl | trivial, by first | rfl | trivial⟩
      · have hhf : m.hide = false := by cases h : m.hide <;> simp_all
        simp only [hhf, ht, Bool.false_eq_true, or_self, ↓reduceIte]
        right
        refine ⟨rfl, ?_⟩
        have hnot : (liveNames s1.ctx).contains m.name = false := by
          have := g.inv.hideIff m hmem.1
          cases hc : (liveNames s1.ctx).contains m.name with
          | false => rfl
          | true =>
            have : m.name ∈ liveNames s1.ctx := by simpa using hc
            rw [(g.inv.hideIff m hmem.1).mpr this] at hhf; cases hhf
        have hnd : ((toTbl s1.macros).map (·.name)).Nodup := by rw [toTbl_names]; exact g.inv.names
        have hl : lookup (toTbl s1.macros) (t.lit.getD []) = some (toDefObj m) := by rw [lookup_toTbl, hm]; rfl
        have hw := W_expand (L := liveNames s1.ctx) hnd hk' hl hmem.2 hnot
        rw [hw]
        have hsum : ((toDefObj m).body.map (wt (availT (toTbl s1.macros) (m.name :: liveNames s1.ctx)).length
              (availT (toTbl s1.macros) (m.name :: liveNames s1.ctx)))).sum
            = (m.body.map (W (toTbl s1.macros) (m.name :: liveNames s1.ctx))).sum := by
          simp only [toDefObj, List.map_map]; rfl
        have hnm : (toDefObj m).name = m.name := rfl
        rw [hnm] at hw
        rw [hnm, hsum]
        have hlive : liveNames ((⟨respace m.body t.space, some m.name⟩ : Frame) :: s1.ctx) = m.name :: liveNames s1.ctx :=
          liveNames_cons_some _ _ _ rfl
        simp only [pot, pushed, toTbl_setHide, potCtx, hlive, sum_W_respace]
        omega


theorem expandObj_kind (t : Tok) (s : St) : (expandObj t s).rt.kind = t.kind ∧ ((expandObj t s).rb = true → t.kind = .TIDENT) := by
  rw [expandObj_eq]
  by_cases hk : t.kind ≠ .TIDENT
  · simp only [hk, ne_eq, not_false_eq_true, ↓reduceIte]
    exact ⟨trivial, fun h => by cases h⟩
  · have hk' : t.kind = .TIDENT := by simpa using hk
    simp only [hk, ↓reduceIte]
    cases macroget s.macros (t.lit.getD []) with
    | none => exact ⟨rfl, fun _ => hk'⟩
    | some m =>
      simp only
      split
      · exact ⟨rfl, fun _ => hk'⟩
      · exact ⟨rfl, fun _ => hk'⟩

/-- one pass through the loop of `next()`: the input is at its end, or the potential drops -/
theorem step_pot (st : St) (g : Good st) :
    (stepObj st).rt.kind = .TEOF ∨ pot (stepObj st) + 1 ≤ pot st := by
  obtain ⟨g1, _, _⟩ := rawnext_good st g
  have ht1 : toTbl (rawnextObj st).macros = toTbl st.macros := (rawnext_good st g).2.1
  unfold stepObj
  simp only
  rcases rawnext_pot st g with he | ⟨hp, hne, hh⟩
  · left
    have hk : (rawnextObj st).rt.kind ≠ .TIDENT := by rw [he]; decide
    rw [expandObj_eq]
    simp only [hk, ne_eq, not_false_eq_true, ↓reduceIte]
    exact he
  · right
    have hw := W_pos (toTbl st.macros) (liveNames (rawnextObj st).ctx) (rawnextObj st).rt
    rcases expand_pot (rawnextObj st) g1 (rawnextObj st).rt hh with ⟨_, h2⟩ | ⟨_, h2⟩
    · rw [h2]; omega
    · rw [ht1] at h2; omega

/-- **`next()` completes with `pot st + 3` units of fuel** -/
theorem next_terminates : ∀ (k : Nat) (st : St), Good st → pot st + 3 ≤ k →
    ∃ st', exec k .next st = .ok st' ∧ (st'.rt.kind = .TEOF ∨ pot st' + 1 ≤ pot st) := by
  intro k
  induction k using Nat.strongRecOn with
  | _ k ih =>
    intro st g hk
    match k, hk with
    | j + 3, hk =>
      rw [next_obj j st g.obj g.plain]
      obtain ⟨g2, _, _⟩ := step_sim st g
      by_cases ha : again (stepObj st)
      · rw [if_pos ha]
        rcases step_pot st g with he | hd
        · -- at the end of the input the loop does not go round again
          exfalso
          unfold again at ha
          rcases ha with ha | ha
          · have hkind := expandObj_kind (rawnextObj st).rt (rawnextObj st)
            have h1 : (stepObj st).rt.kind = (rawnextObj st).rt.kind := hkind.1
            have h2 : (rawnextObj st).rt.kind = .TIDENT := hkind.2 ha
            rw [h1, h2] at he; cases he
          · rw [he] at ha; cases ha.1
        · obtain ⟨st', h1, h2⟩ := ih (j + 2) (by omega) (stepObj st) g2 (by omega)
          exact ⟨st', h1, by rcases h2 with h2 | h2; exact .inl h2; exact .inr (by omega)⟩
      · rw [if_neg ha]
        refine ⟨_, rfl, ?_⟩
        exact step_pot st g

/-- **Termination with an explicit bound**: on a good state (object-like macro set, any mutual or
self reference) `pot st + 4` units of fuel complete the whole run. -/
theorem run_terminates : ∀ (n : Nat) (st : St), Good st → pot st + 4 ≤ n → (run n st).2 = none := by
  intro n
  induction n with
  | zero => intro st _ h; omega
  | succ n ih =>
    intro st g hn
    obtain ⟨st1, h1, h2⟩ := next_terminates n st g (by omega)
    have hg := (next_sim n st st1 g h1)
    unfold run
    rw [h1]
    simp only
    by_cases he : st1.tok.kind = .TEOF
    · simp [he]
    · simp only [he, ↓reduceIte]
      have hrt : st1.rt.kind ≠ .TEOF := by
        rw [hg.2.2.1] at he
        exact fun hh => he ((toKeyword_eof _).mpr hh)
      rcases h2 with h2 | h2
      · exact absurd h2 hrt
      · exact ih st1 hg.1 (by omega)

end CprocVerif.PP

import CprocVerif.Lemmas.PPPre3

/-! # Arguments with macro names, part 4: the argument loop of `expandfunc` -/

namespace CprocVerif.PP
open CprocVerif.Gen.TokenKinds
open CprocVerif.Spec.MacroRef (HTok Item PTok MacroDef RErr Flag expandH hsadd union pendItems lookup)
open CprocVerif.Spec

theorem flatG_length {β : Type} (g : List Name → Tok → β) (ms : List Macro) :
    ∀ ctx : List Frame, (flatG g ms ctx).length = (flat ms ctx).length
  | [] => rfl
  | f :: rest => by simp [flatG, flat, flatG_length g ms rest]

theorem flatG_ne_nil {β : Type} (g : List Name → Tok → β) (ms : List Macro) (ctx : List Frame)
    (h : flat ms ctx ≠ []) : flatG g ms ctx ≠ [] := by
  intro hh
  have := flatG_length g ms ctx
  rw [hh] at this
  exact h (List.length_eq_zero_iff.mp this.symm)

theorem absX_nil_ctx (ms0 : List Macro) (st : St) (Y : List Item) (h : st.ctx = []) : absX ms0 st Y = Y := by
  simp [absX, h, flatG]

theorem absX_append (ms0 : List Macro) (st : St) (Y : List Item) : absX ms0 st [] ++ Y = absX ms0 st Y := by
  simp [absX]

theorem absX_congr (ms0 : List Macro) {a b : St} (Y : List Item) (h1 : a.ctx = b.ctx) (h2 : a.macros = b.macros) :
    absX ms0 a Y = absX ms0 b Y := by
  simp [absX, h1, h2]

/-- where the inner loop stands: at invocation level (the token `e.t` was read from the text), or
inside the replacement of a macro named in the argument (`e.t` came from the context stack) -/
def Mode (ms0 : List Macro) (e : EF) (st : St) (Lraw : List Tok) (pend : List Item) : Prop :=
  (st.ctx = [] ∧ pend = [] ∧ (Lraw = e.t :: st.raw ∨ (Lraw = [] ∧ e.t = eofTok ∧ st.raw = []))) ∨
  (liveNames st.ctx ≠ [] ∧ FlatP ms0 e.t ∧ Lraw = st.raw ∧
    pend = .tok (mkHp ms0 (hsOf st.ctx) e.t) :: absX ms0 st [])

theorem modeAfter (ms0 : List Macro) (st' st2 : St) (e' : EF) (hR : RawP ms0 st' st2) (ht : e'.t = st2.rt) :
    Mode ms0 e' st2 st'.raw (absX ms0 st' []) := by
  cases hR with
  | ctx c1 c2 c3 c4 =>
    refine .inr ⟨c4, by rw [ht]; exact c2, c3.symm, ?_⟩
    simp only [absX, c1, List.map_cons, List.append_nil, ht]
    rfl
  | raw c1 c2 c3 =>
    refine .inl ⟨c2, by simp [absX, c3], .inl (by rw [ht]; exact c1)⟩
  | eof c1 c2 c3 c4 c5 =>
    refine .inl ⟨c4, by simp [absX, c5], .inr ⟨c2, by rw [ht]; exact c1, c3⟩⟩

theorem take_consumed {P : Tok → Prop} {t : Tok} {r rest : List Tok}
    (h : ∀ x ∈ (t :: r).take ((t :: r).length - rest.length), P x) (hl : rest.length < r.length) :
    P t ∧ (∀ x ∈ r.take (r.length - rest.length), P x) ∧ (∀ t' r', r = t' :: r' → P t') := by
  have hk : (t :: r).length - rest.length = (r.length - rest.length) + 1 := by simp; omega
  rw [hk, List.take_succ_cons] at h
  refine ⟨h t (List.mem_cons_self ..), fun x hx => h x (List.mem_cons_of_mem _ hx), ?_⟩
  intro t' r' hr
  apply h
  apply List.mem_cons_of_mem
  subst hr
  rw [show (t' :: r').length - rest.length = (r'.length - rest.length) + 1 by simp at hl ⊢; omega]
  exact List.mem_cons_self ..

theorem take_consumed_head {P : Tok → Prop} {L rest : List Tok}
    (h : ∀ x ∈ L.take (L.length - rest.length), P x) (hl : rest.length < L.length) :
    ∀ t' r', L = t' :: r' → P t' := by
  intro t' r' hr
  subst hr
  apply h
  rw [show (t' :: r').length - rest.length = (r'.length - rest.length) + 1 by simp at hl ⊢; omega]
  exact List.mem_cons_self ..


theorem collect_mem_done (ps : List Param) : ∀ (ts : List Tok) (i paren : Nat) (cur : List Tok)
    (done args : List (List Tok)) (rest : List Tok),
    collect ps i paren cur done ts = .ok (args, rest) → ∀ d ∈ done, d ∈ args := by
  intro ts
  induction ts with
  | nil => intro i paren cur done args rest h; simp [collect] at h
  | cons t r ih =>
    intro i paren cur done args rest h d hd
    unfold collect at h
    split at h
    · split at h
      · split at h
        · cases h
        · split at h
          · cases h
          · cases h
            simp only [List.mem_reverse, List.mem_cons]
            exact .inr hd
      · exact ih _ _ _ _ _ _ h d (List.mem_cons_of_mem _ hd)
    · exact ih _ _ _ _ _ _ h d hd

theorem argsOK_head {ms0 : List Macro} {L rest : List Tok} (h : ArgsOK ms0 L rest) (hl : rest.length < L.length) :
    ∀ t r, L = t :: r → t.kind ≠ .TNEWLINE ∧ t.kind ≠ .THASH ∧ t.kind ≠ .TNONE := by
  intro t r hr
  have := take_consumed_head h.raw hl t r hr
  exact ⟨this.1, this.2.1, this.2.2.1⟩

/-- what `expand` does on an invocation in the text (fuel `n`), against one step of the reference:
the statement that the argument loop needs for invocations nested in arguments -/
def CallSpec (ms0 : List Macro) (n : Nat) : Prop :=
  ∀ (s1 s2 : St) (T lp : Tok) (r' : List Tok) (F : Macro) (args : List (List Tok)) (rest : List Tok),
    GoodP ms0 s1 → s1.ctx = [] → s1.raw = lp :: r' → T.kind = .TIDENT → T.hide = false →
    macroget ms0 (T.lit.getD []) = some F → F.func = true → lp.kind = .TLPAREN → lp.hide = false →
    collect F.params 0 0 [] [] r' = .ok (args, rest) → ArgsOK ms0 r' rest → (∀ a ∈ args, a ≠ []) →
    exec n (.expand T) s1 = .ok s2 →
    GoodP ms0 s2 ∧ s2.raw = rest ∧ s2.rb = true ∧ flat s2.macros s2.ctx ≠ [] ∧
    ∃ c, ∀ K, c ≤ K → ∀ X, outE (expandH false (K + 1) (tblF ms0)
        (iP ms0 T :: iP ms0 lp :: ((r'.take (r'.length - rest.length)).map (iP ms0) ++ X))) =
      outE (expandH false K (tblF ms0) (absX ms0 s2 X))

/-- the step of the reference-side invariant of the current argument: after the token `e.t`
(head `H` of the pending source) has been handled by `expand` (`hsim`), the expansion of the raw
tokens read so far delivers what `cur` now holds and continues with what the stack now holds -/
theorem ci_step {ms0 : List Macro} {A : List Item} {O : List HTok} {H : HTok} {st sx : St} {rt : Tok} {cur : List Tok}
    (hO : O = cur.reverse.map (mkHp ms0 []))
    (hci : ∀ Y, LinkE (tblF ms0) (A ++ Y) O (.tok H :: absX ms0 st Y))
    (hsim : ∀ Y,
      ((sx.rb = true ∧ ∀ K, outE (expandH false (K + 1) (tblF ms0) (.tok H :: absX ms0 st Y))
          = outE (expandH false K (tblF ms0) (absX ms0 sx Y))) ∨
       (sx.rb = false ∧ sx.ctx = st.ctx ∧ sx.macros = st.macros ∧ sx.rt = rt ∧
          ∀ K, outE (expandH false (K + 1) (tblF ms0) (.tok H :: absX ms0 st Y))
            = consE (mkHp ms0 [] rt) (outE (expandH false K (tblF ms0) (absX ms0 st Y)))))) :
    ∀ Y, LinkE (tblF ms0) (A ++ Y) ((if sx.rb = true then cur else rt :: cur).reverse.map (mkHp ms0 []))
      (absX ms0 sx Y) := by
  intro Y
  rcases hsim Y with ⟨hrb, hK⟩ | ⟨hrb, hc, hm, _, hK⟩
  · have := (hci Y).trans (LinkE.of_eq 0 (fun K _ => hK K))
    simpa [hrb, hO] using this
  · have := (hci Y).trans (LinkE.of_out _ hK)
    rw [absX_congr ms0 Y hc hm]
    simpa [hrb, hO, eraseHs_mkHp] using this

/-- **The argument loop of `expandfunc`** on the text of an invocation whose arguments may name
object-like macros: if it completes, it has consumed what `collect` cuts out of the text, and
every stored argument is the complete macro replacement of its tokens (`ArgsRel`). -/
theorem efLoopP (ms0 : List Macro) (hTb : TblOKS ms0) (ps : List Param) (name : Name)
    (hnv : ∀ p ∈ ps, p.fvar = false) (hex : ∀ p ∈ ps, ¬ (p.ftok = true ∧ p.fstr = true)) :
    ∀ (n : Nat), (∀ m, m < n → CallSpec ms0 m) →
    ∀ (e : EF) (st sF : St) (Lraw : List Tok) (pend : List Item) (CURraw CURexp : List Tok)
      (DONEraw args : List (List Tok)) (rest : List Tok),
    exec n (.efLoop e) st = .ok sF → e.m.params = ps → e.m.name = name → e.depth = 0 → e.i < ps.length →
    GoodP ms0 st → Mode ms0 e st Lraw pend →
    collect ps e.i e.paren CURraw DONEraw Lraw = .ok (args, rest) →
    ArgsOK ms0 Lraw rest →
    (∀ a ∈ args, a ≠ []) → DONEraw.length = e.i →
    ArgsRel ms0 ps DONEraw.reverse e.done.reverse →
    (e.cur = if (ps.getD e.i default).ftok = true then CURexp else []) →
    ((ps.getD e.i default).ftok = true →
      (∀ Y, LinkE (tblF ms0) (CURraw.reverse.map (iP ms0) ++ Y) (CURexp.reverse.map (mkHp ms0 [])) (pend ++ Y)) ∧
      (CURraw ≠ [] → CURexp ≠ [] ∨ pend ≠ []) ∧ (∀ x ∈ CURexp, FlatP ms0 x)) →
    ((ps.getD e.i default).ftok = false → pend = []) →
    ((ps.getD e.i default).fstr = true → e.str = CURraw.reverse.foldl stringize [c! '"']) →
    ∃ stL ARGS, GoodP ms0 stL ∧ stL.ctx = [] ∧ stL.raw = rest ∧
      sF = { stL with macros := setArgs stL.macros name ARGS } ∧ ArgsRel ms0 ps args ARGS := by
  intro n
  induction n with
  | zero => intro _ e st sF Lraw pend CURraw CURexp DONEraw args rest h; cases h
  | succ k ih0 =>
    intro hcs e st sF Lraw pend CURraw CURexp DONEraw args rest h hps hname hd0 hi g hmode hcol hok hane hdl hdone hcur hci hnf hstr
    have hpmem : ps.getD e.i default ∈ ps := by
      rw [List.getD_eq_getElem?_getD, List.getElem?_eq_getElem hi]; exact List.getElem_mem hi
    have hnostr : (ps.getD e.i default).ftok = true → (ps.getD e.i default).fstr = true → False :=
      fun h1 h2 => hex _ hpmem ⟨h1, h2⟩
    have ih := ih0 (fun m hm => hcs m (by omega))
    change efLoopBody (exec k) e st = .ok sF at h
    have hne : e.t.kind ≠ .TEOF := by
      intro heof
      unfold efLoopBody at h
      simp [heof] at h
    have hfv : (e.m.params.getD e.i default).fvar = false := by rw [hps]; exact getD_novar hnv e.i
    have hrl := collect_rest_lt ps _ _ _ _ _ _ _ hcol
    rcases hmode with ⟨hctx, hpend, hL⟩ | ⟨hlive, hflat, hL, hpend⟩
    · -- at invocation level
      have hL' : Lraw = e.t :: st.raw := by
        rcases hL with hL | ⟨_, he, _⟩
        · exact hL
        · rw [he] at hne; exact absurd rfl hne
      subst hL'
      have hinv := argsOK_cons_inv hok hrl
      have hdep : st.depth = 0 := by rw [g.inv.depth, hctx]; rfl
      have hl : st.depth ≤ e.depth := by omega
      have habs0 : ∀ Y, absX ms0 st Y = Y := fun Y => absX_nil_ctx ms0 st Y hctx
      have hhs : hsOf st.ctx = [] := by rw [hctx]; rfl
      unfold collect at hcol
      by_cases hc : breakCond e
      · have hc' : e.paren = 0 ∧ (e.t.kind = .TRPAREN ∨ (e.t.kind = .TCOMMA ∧ (ps.getD e.i default).fvar = false)) := by
          rw [← hps]; exact hc
        rw [if_pos hc'] at hcol
        -- the relation for the argument that ends here
        have hrel : ∀ a ∈ args, a ≠ [] → CURraw.reverse ∈ args →
            ArgRel ms0 (ps.getD DONEraw.reverse.length default) CURraw.reverse (curArg e) := by
          intro _ _ _ hmem
          rw [List.length_reverse, hdl]
          refine ⟨fun hft => ?_, fun hfs => ?_⟩
          · obtain ⟨h1, h2, h2f⟩ := hci hft
            have hcure : e.cur = CURexp := by rw [hcur, if_pos hft]
            refine ⟨?_, ?_, by simpa [curArg, hcure] using h2f⟩
            · have := h1 []
              simpa [curArg, hcure, hpend] using this
            · have hne' : CURraw ≠ [] := by
                intro hh; exact hane _ hmem (by rw [hh]; rfl)
              rcases h2 hne' with h3 | h3
              · simpa [curArg, hcure] using h3
              · exact absurd hpend h3
          · show (curArg e).str = _
            unfold curArg
            simp only [hps, hfs, ↓reduceIte, hstr hfs, stringizeAll]
        by_cases hf : e.t.kind = .TRPAREN ∨ e.i + 1 = ps.length
        · rw [if_pos hf] at hcol
          have h1 : ¬ e.i + 1 < ps.length := by intro hh; rw [if_pos hh] at hcol; cases hcol
          rw [if_neg h1] at hcol
          have h2 : e.t.kind = .TRPAREN := by
            cases hk : decide (e.t.kind = .TRPAREN) with
            | true => exact of_decide_eq_true hk
            | false =>
              have : e.t.kind ≠ .TRPAREN := of_decide_eq_false hk
              rw [if_pos this] at hcol; cases hcol
          rw [if_neg (by simpa using h2)] at hcol
          simp only [Except.ok.injEq, Prod.mk.injEq] at hcol
          obtain ⟨hargs, hrest⟩ := hcol
          rw [efLoop_finish (exec k) e st hne hl hc (by rw [hps]; exact hf)] at h
          unfold efFinish at h
          simp only [hps, h1, ↓reduceIte, h2, ne_eq, not_true_eq_false] at h
          cases h
          refine ⟨st, (curArg e :: e.done).reverse, g, hctx, hrest, by rw [hname], ?_⟩
          rw [← hargs]
          simp only [List.reverse_cons]
          have hmem : CURraw.reverse ∈ args := by rw [← hargs]; simp
          exact hdone.snoc _ _ (by rw [List.length_reverse, hdl]; exact hi) (hrel _ hmem (hane _ hmem) hmem)
        · rw [if_neg hf] at hcol
          have hi1 : e.i + 1 < ps.length := by
            have : e.i + 1 ≠ ps.length := fun hh => hf (.inr hh)
            omega
          have hrl' := collect_rest_lt ps _ _ _ _ _ _ _ hcol
          have hok' : ArgsOK ms0 st.raw rest := by
            rcases hinv with ⟨_, h'⟩ | ⟨lp, r'', FG, argsG, rest'', _, c1, _⟩
            · exact h'
            · exfalso
              rcases hc.2 with hk | hk
              · rw [c1] at hk; cases hk
              · rw [c1] at hk; cases hk.1
          have hhead := argsOK_head hok' hrl'
          cases ha : exec k (.argLoop false) st with
          | error er =>
            rw [efLoop_nextarg_err (exec k) e st hne hl hc (by rw [hps]; exact hf) er ha] at h
            cases h
          | ok st1 =>
            rw [efLoop_nextarg (exec k) e st hne hl hc (by rw [hps]; exact hf) st1 ha] at h
            unfold efStart at h
            simp only [hps, hi1, ↓reduceIte] at h
            obtain ⟨g1, hR⟩ := argLoopP ms0 k st st1 g hhead ha
            have hm := modeAfter ms0 st st1
              { e with depth := st.depth, done := curArg e :: e.done, i := e.i + 1, t := st1.rt, cur := [],
                       str := [c! '"'] } hR rfl
            have hmem : CURraw.reverse ∈ args := by
              have := collect_mem_done ps _ _ _ _ _ _ _ hcol CURraw.reverse (List.mem_cons_self ..)
              exact this
            have hcolN : collect ps (e.i + 1) e.paren [] (CURraw.reverse :: DONEraw) st.raw = .ok (args, rest) := by
              rw [hc.1]; exact hcol
            refine ih _ st1 sF st.raw (absX ms0 st []) [] [] (CURraw.reverse :: DONEraw) args rest h hps hname hdep
              hi1 g1 hm hcolN hok' hane (by simp [hdl]) ?_ (by simp) ?_ (fun _ => habs0 []) (fun _ => rfl)
            · simp only [List.reverse_cons]
              exact hdone.snoc _ _ (by rw [List.length_reverse, hdl]; exact hi) (hrel _ hmem (hane _ hmem) hmem)
            · intro _
              refine ⟨fun Y => ?_, fun hh => absurd rfl hh, fun x hx => by cases hx⟩
              simp only [List.reverse_nil, List.map_nil, List.nil_append, habs0]
              exact LinkE.refl _ _
      · have hc' : ¬ (e.paren = 0 ∧ (e.t.kind = .TRPAREN ∨ (e.t.kind = .TCOMMA ∧ (ps.getD e.i default).fvar = false))) := by
          rw [← hps]; exact hc
        rw [if_neg hc'] at hcol
        have hcol' : collect ps e.i (nextParen e) (e.t :: CURraw) DONEraw st.raw = .ok (args, rest) := hcol
        have hrl' := collect_rest_lt ps _ _ _ _ _ _ _ hcol'
        by_cases hp : (ps.getD e.i default).ftok = true
        · have hp' : (e.m.params.getD e.i default).ftok = true := by rw [hps]; exact hp
          obtain ⟨hci1, hci2, hci3⟩ := hci hp
          have hcure : e.cur = CURexp := by rw [hcur, if_pos hp]
          rcases hinv with ⟨htok, hok'⟩ | ⟨lp, r'', FG, argsG, rest'', hr, c1, c2, c3, c4, c5, c5', c6, c7, c8, cs, c9⟩
          · have hhead := argsOK_head hok' hrl'
            cases hx : exec k (.expand e.t) st with
            | error er =>
              rw [efLoop_go_err1 (exec k) e st hne (fun hh => hc hh.2) hp' er hx] at h
              cases h
            | ok sx =>
              have hsb := pushEv_fields e st sx
              cases ha : exec k (.argLoop false) (pushEv e st sx) with
              | error er =>
                rw [efLoop_go_err2 (exec k) e st hne (fun hh => hc hh.2) hp' sx er hx ha] at h
                cases h
              | ok st2 =>
                rw [efLoop_go (exec k) e st hne (fun hh => hc hh.2) hp' sx st2 hx ha] at h
                simp only [hl, ↓reduceIte, true_and] at h
                obtain ⟨gx, hrawx, _⟩ := expand_simP ms0 hTb k st sx e.t [] g htok.flatP hx
                have gp : GoodP ms0 (pushEv e st sx) :=
                  goodP_congr gx hsb.2.1 hsb.2.2.1 hsb.2.2.2.1 hsb.2.2.2.2.1 hsb.2.2.2.2.2.1
                have hrawp : (pushEv e st sx).raw = st.raw := by rw [hsb.1, hrawx]
                obtain ⟨g2, hR⟩ := argLoopP ms0 k _ st2 gp (by rw [hrawp]; exact hhead) ha
                have hm := modeAfter ms0 (pushEv e st sx) st2
                  { e with depth := st.depth, paren := nextParen e,
                           str := if (e.m.params.getD e.i default).fstr = true then stringize e.str e.t else e.str,
                           cur := if sx.rb = true then e.cur else sx.rt :: e.cur, t := st2.rt } hR rfl
                rw [hrawp, absX_congr ms0 [] hsb.2.1 hsb.2.2.1] at hm
                have hsim : ∀ Y,
                    ((sx.rb = true ∧ ∀ K, outE (expandH false (K + 1) (tblF ms0) (.tok (mkHp ms0 [] e.t) :: absX ms0 st Y))
                        = outE (expandH false K (tblF ms0) (absX ms0 sx Y))) ∨
                     (sx.rb = false ∧ sx.ctx = st.ctx ∧ sx.macros = st.macros ∧ sx.rt = sx.rt ∧
                        ∀ K, outE (expandH false (K + 1) (tblF ms0) (.tok (mkHp ms0 [] e.t) :: absX ms0 st Y))
                          = consE (mkHp ms0 [] sx.rt) (outE (expandH false K (tblF ms0) (absX ms0 st Y))))) := by
                  intro Y
                  obtain ⟨_, _, hcase⟩ := expand_simP ms0 hTb k st sx e.t Y g htok.flatP hx
                  rw [hhs] at hcase
                  rcases hcase with ⟨a1, _, _, a4⟩ | ⟨a1, a2, a3, _, _, _, a7⟩
                  · exact .inl ⟨a1, a4⟩
                  · exact .inr ⟨a1, a2, a3, rfl, a7⟩
                have hci' := ci_step (ms0 := ms0) (A := (e.t :: CURraw).reverse.map (iP ms0)) (H := mkHp ms0 [] e.t)
                  (st := st) (sx := sx) (rt := sx.rt) (cur := CURexp) rfl
                  (fun Y => by
                    have := hci1 (iP ms0 e.t :: Y)
                    simpa [hpend, habs0, iP] using this) hsim
                refine ih _ st2 sF st.raw (absX ms0 sx []) (e.t :: CURraw) (if sx.rb = true then CURexp else sx.rt :: CURexp)
                  DONEraw args rest h hps hname hdep hi g2 hm hcol' hok' hane hdl hdone ?_ ?_ (fun hh => by rw [hp] at hh; cases hh)
                  (fun hf => (hnostr hp hf).elim)
                · simp only [hp, ↓reduceIte, hcure]
                · intro _
                  refine ⟨fun Y => ?_, fun _ => ?_, ?_⟩
                  · rw [absX_append]; exact hci' Y
                  · obtain ⟨_, _, hcase⟩ := expand_simP ms0 hTb k st sx e.t [] g htok.flatP hx
                    rcases hcase with ⟨a1, _, a3, _⟩ | ⟨a1, _⟩
                    · right
                      simp only [absX, List.append_nil]
                      intro hh
                      exact flatG_ne_nil (annHp ms0) _ _ a3 (List.map_eq_nil_iff.mp hh)
                    · left; simp [a1]
                  · obtain ⟨_, _, hcase⟩ := expand_simP ms0 hTb k st sx e.t [] g htok.flatP hx
                    rcases hcase with ⟨a1, _⟩ | ⟨a1, _, _, _, a5, a6, _⟩
                    · simpa [a1] using hci3
                    · intro x hx'
                      simp only [a1, Bool.false_eq_true, ↓reduceIte, List.mem_cons] at hx'
                      rcases hx' with rfl | hx'
                      · exact flatP_of_kl a5 a6 htok.flatP
                      · exact hci3 x hx'
          · -- an invocation nested in the argument
            have hnp : nextParen e = e.paren := by
              unfold nextParen; rw [c1]; simp
            have hFGsf := hTb.func FG (macroget_mem c3).1 c4
            have hcol2 : collect ps e.i e.paren
                ((r''.take (r''.length - rest''.length)).reverse ++ lp :: e.t :: CURraw) DONEraw rest'' = .ok (args, rest) := by
              rw [hnp, hr, collect] at hcol'
              have hnb : ¬ (e.paren = 0 ∧ (lp.kind = .TRPAREN ∨ (lp.kind = .TCOMMA ∧ (ps.getD e.i default).fvar = false))) := by
                rw [c5]; simp
              rw [if_neg hnb] at hcol'
              simp only [c5, ↓reduceIte] at hcol'
              have := collect_skip FG.params ps hFGsf.novar r'' 0 0 [] [] argsG rest'' c6 e.i e.paren (lp :: e.t :: CURraw) DONEraw
              rw [← this]; exact hcol'
            have hrl2 := collect_rest_lt ps _ _ _ _ _ _ _ hcol2
            cases hx : exec k (.expand e.t) st with
            | error er =>
              rw [efLoop_go_err1 (exec k) e st hne (fun hh => hc hh.2) hp' er hx] at h
              cases h
            | ok sx =>
              have hsb := pushEv_fields e st sx
              cases ha : exec k (.argLoop false) (pushEv e st sx) with
              | error er =>
                rw [efLoop_go_err2 (exec k) e st hne (fun hh => hc hh.2) hp' sx er hx ha] at h
                cases h
              | ok st2 =>
                rw [efLoop_go (exec k) e st hne (fun hh => hc hh.2) hp' sx st2 hx ha] at h
                simp only [hl, ↓reduceIte, true_and] at h
                obtain ⟨gx, hrawx, hrbx, hflx, c, hK⟩ := hcs k (Nat.lt_succ_self k) st sx e.t lp r'' FG argsG rest'' g hctx hr
                  c1 c2 c3 c4 c5 c5' c6 c7 c8 hx
                have gp : GoodP ms0 (pushEv e st sx) :=
                  goodP_congr gx hsb.2.1 hsb.2.2.1 hsb.2.2.2.1 hsb.2.2.2.2.1 hsb.2.2.2.2.2.1
                have hrawp : (pushEv e st sx).raw = rest'' := by rw [hsb.1, hrawx]
                obtain ⟨g2, hR⟩ := argLoopP ms0 k _ st2 gp (by rw [hrawp]; exact argsOK_head c9 hrl2) ha
                have hm := modeAfter ms0 (pushEv e st sx) st2
                  { e with depth := st.depth, paren := nextParen e,
                           str := if (e.m.params.getD e.i default).fstr = true then stringize e.str e.t else e.str,
                           cur := if sx.rb = true then e.cur else sx.rt :: e.cur, t := st2.rt } hR rfl
                rw [hrawp, absX_congr ms0 [] hsb.2.1 hsb.2.2.1] at hm
                have hcol3 : collect ps e.i (nextParen e)
                    ((r''.take (r''.length - rest''.length)).reverse ++ lp :: e.t :: CURraw) DONEraw rest'' = .ok (args, rest) := by
                  rw [hnp]; exact hcol2
                refine ih _ st2 sF rest'' (absX ms0 sx []) ((r''.take (r''.length - rest''.length)).reverse ++ lp :: e.t :: CURraw)
                  CURexp DONEraw args rest h hps hname hdep hi g2 hm hcol3 c9 hane hdl hdone ?_ ?_ (fun hh => by rw [hp] at hh; cases hh)
                  (fun hf => (hnostr hp hf).elim)
                · simp only [hp, ↓reduceIte, hcure, hrbx]
                · intro _
                  refine ⟨fun Y => ?_, fun _ => ?_, hci3⟩
                  · have h1 := hci1 (iP ms0 e.t :: iP ms0 lp :: ((r''.take (r''.length - rest''.length)).map (iP ms0) ++ Y))
                    have h2 : LinkE (tblF ms0) (iP ms0 e.t :: iP ms0 lp :: ((r''.take (r''.length - rest''.length)).map (iP ms0) ++ Y)) []
                        (absX ms0 sx Y) := LinkE.of_eq c (fun K hKc => hK K hKc Y)
                    rw [hpend, List.nil_append] at h1
                    have := h1.trans h2
                    rw [absX_append]
                    simpa [List.reverse_append, List.map_append] using this
                  · right
                    simp only [absX, List.append_nil]
                    intro hh
                    exact flatG_ne_nil (annHp ms0) _ _ hflx (List.map_eq_nil_iff.mp hh)
        · have hpf : (ps.getD e.i default).ftok = false := by cases hh : (ps.getD e.i default).ftok <;> simp_all
          have hp' : (e.m.params.getD e.i default).ftok = false := by rw [hps]; exact hpf
          have hcure : e.cur = [] := by rw [hcur, if_neg hp]
          have hok' : ArgsOK ms0 st.raw rest := by
            rcases hinv with ⟨_, h'⟩ | ⟨lp, r'', FG, argsG, rest'', hr, c1, c2, c3, c4, c5, c5', c6, c7, c8, cs, c9⟩
            · exact h'
            · rw [hr]
              refine .tok lp r'' rest ⟨by rw [c5]; decide, by rw [c5]; decide, by rw [c5]; decide, by rw [c5]; decide, ?_, c5'⟩
                cs.2 (c7.trans c9)
              intro hf; have := hf.1; rw [c5] at this; cases this
          have hhead := argsOK_head hok' hrl'
          cases ha : exec k (.argLoop false) st with
          | error er =>
            rw [efLoop_skip_err (exec k) e st hne hl hc hp' er ha] at h
            cases h
          | ok st2 =>
            rw [efLoop_skip (exec k) e st hne hl hc hp' st2 ha] at h
            obtain ⟨g2, hR⟩ := argLoopP ms0 k st st2 g hhead ha
            have hm := modeAfter ms0 st st2
              { e with depth := st.depth, paren := nextParen e, str := nextStr e, t := st2.rt } hR rfl
            refine ih _ st2 sF st.raw (absX ms0 st []) (e.t :: CURraw) CURexp DONEraw args rest h hps hname hdep hi g2 hm
              hcol' hok' hane hdl hdone ?_ (fun hh => by rw [hpf] at hh; cases hh) (fun _ => habs0 []) ?_
            · show e.cur = _
              rw [hcure, hpf]; rfl
            · intro hf
              show nextStr e = _
              unfold nextStr
              rw [hps, hf, if_pos rfl, hstr hf]
              simp [List.foldl_append]
    · -- inside the replacement of a macro named in the argument
      subst hL
      have hdep : 0 < st.depth := by
        rw [g.inv.depth]
        cases hh : liveNames st.ctx with
        | nil => exact absurd hh hlive
        | cons a r => simp
      have hl : ¬ st.depth ≤ e.depth := by omega
      have hp : (ps.getD e.i default).ftok = true := by
        cases hh : (ps.getD e.i default).ftok with
        | true => rfl
        | false => have := hnf hh; rw [hpend] at this; cases this
      have hp' : (e.m.params.getD e.i default).ftok = true := by rw [hps]; exact hp
      obtain ⟨hci1, hci2, hci3⟩ := hci hp
      have hcure : e.cur = CURexp := by rw [hcur, if_pos hp]
      have hhead := argsOK_head hok hrl
      cases hx : exec k (.expand e.t) st with
      | error er =>
        rw [efLoop_go_err1 (exec k) e st hne (fun hh => hl hh.1) hp' er hx] at h
        cases h
      | ok sx =>
        have hsb := pushEv_fields e st sx
        cases ha : exec k (.argLoop false) (pushEv e st sx) with
        | error er =>
          rw [efLoop_go_err2 (exec k) e st hne (fun hh => hl hh.1) hp' sx er hx ha] at h
          cases h
        | ok st2 =>
          rw [efLoop_go (exec k) e st hne (fun hh => hl hh.1) hp' sx st2 hx ha] at h
          simp only [hl, ↓reduceIte, false_and] at h
          obtain ⟨gx, hrawx, _⟩ := expand_simP ms0 hTb k st sx e.t [] g hflat hx
          have gp : GoodP ms0 (pushEv e st sx) :=
            goodP_congr gx hsb.2.1 hsb.2.2.1 hsb.2.2.2.1 hsb.2.2.2.2.1 hsb.2.2.2.2.2.1
          have hrawp : (pushEv e st sx).raw = st.raw := by rw [hsb.1, hrawx]
          obtain ⟨g2, hR⟩ := argLoopP ms0 k _ st2 gp (by rw [hrawp]; exact hhead) ha
          have hm := modeAfter ms0 (pushEv e st sx) st2
            { e with depth := e.depth, paren := e.paren, str := e.str,
                     cur := if sx.rb = true then e.cur else sx.rt :: e.cur, t := st2.rt } hR rfl
          rw [hrawp, absX_congr ms0 [] hsb.2.1 hsb.2.2.1] at hm
          have hsim : ∀ Y,
              ((sx.rb = true ∧ ∀ K, outE (expandH false (K + 1) (tblF ms0) (.tok (mkHp ms0 (hsOf st.ctx) e.t) :: absX ms0 st Y))
                  = outE (expandH false K (tblF ms0) (absX ms0 sx Y))) ∨
               (sx.rb = false ∧ sx.ctx = st.ctx ∧ sx.macros = st.macros ∧ sx.rt = sx.rt ∧
                  ∀ K, outE (expandH false (K + 1) (tblF ms0) (.tok (mkHp ms0 (hsOf st.ctx) e.t) :: absX ms0 st Y))
                    = consE (mkHp ms0 [] sx.rt) (outE (expandH false K (tblF ms0) (absX ms0 st Y))))) := by
            intro Y
            obtain ⟨_, _, hcase⟩ := expand_simP ms0 hTb k st sx e.t Y g hflat hx
            rcases hcase with ⟨a1, _, _, a4⟩ | ⟨a1, a2, a3, _, _, _, a7⟩
            · exact .inl ⟨a1, a4⟩
            · exact .inr ⟨a1, a2, a3, rfl, a7⟩
          have hci' := ci_step (ms0 := ms0) (A := CURraw.reverse.map (iP ms0)) (H := mkHp ms0 (hsOf st.ctx) e.t)
            (st := st) (sx := sx) (rt := sx.rt) (cur := CURexp) rfl
            (fun Y => by
              have := hci1 Y
              rw [hpend] at this
              simpa [absX_append] using this) hsim
          refine ih _ st2 sF st.raw (absX ms0 sx []) CURraw (if sx.rb = true then CURexp else sx.rt :: CURexp)
            DONEraw args rest h hps hname hd0 hi g2 hm hcol hok hane hdl hdone ?_ ?_ (fun hh => by rw [hp] at hh; cases hh)
            (fun hf => (hnostr hp hf).elim)
          · simp only [hp, ↓reduceIte, hcure]
          · intro _
            refine ⟨fun Y => ?_, fun _ => ?_, ?_⟩
            · rw [absX_append]; exact hci' Y
            · obtain ⟨_, _, hcase⟩ := expand_simP ms0 hTb k st sx e.t [] g hflat hx
              rcases hcase with ⟨a1, _, a3, _⟩ | ⟨a1, _⟩
              · right
                simp only [absX, List.append_nil]
                intro hh
                exact flatG_ne_nil (annHp ms0) _ _ a3 (List.map_eq_nil_iff.mp hh)
              · left; simp [a1]
            · obtain ⟨_, _, hcase⟩ := expand_simP ms0 hTb k st sx e.t [] g hflat hx
              rcases hcase with ⟨a1, _⟩ | ⟨a1, _, _, _, a5, a6, _⟩
              · simpa [a1] using hci3
              · intro x hx'
                simp only [a1, Bool.false_eq_true, ↓reduceIte, List.mem_cons] at hx'
                rcases hx' with rfl | hx'
                · exact flatP_of_kl a5 a6 hflat
                · exact hci3 x hx'

end CprocVerif.PP

import CprocVerif.Lemmas.PPPre8
import CprocVerif.Lemmas.PPObjFuel

/-! # Termination for tables with function-like macros, part 1: the potential of the context
stack, and the calls that always complete -/

namespace CprocVerif.PP
open CprocVerif.Gen.TokenKinds
open CprocVerif.Spec.MacroRef (HTok Item PTok MacroDef lookup)
open CprocVerif.Spec

theorem liftOk {k n : Nat} {c : Call} {st s : St} (h : exec k c st = .ok s) (hn : k ≤ n) : exec n c st = .ok s :=
  lift h (by intro hh; cases hh) n hn

/-- the potential of the context stack: the weights (`W`, against the macros without a live frame at
or below the token) of the tokens it will deliver -/
def potW (ms0 : List Macro) (st : St) : Nat :=
  (flatG (fun L t => W (tblF ms0) L t) st.macros st.ctx).sum

theorem flatG_map {β γ : Type} (g : List Name → Tok → β) (f : β → γ) (ms : List Macro) :
    ∀ ctx : List Frame, (flatG g ms ctx).map f = flatG (fun L t => f (g L t)) ms ctx
  | [] => rfl
  | fr :: rest => by simp [flatG, flatG_map g f ms rest, List.map_map, Function.comp_def]

theorem availT_reverse (tbl : List MacroDef) (L : List Name) : availT tbl L.reverse = availT tbl L := by
  unfold availT
  apply List.filter_congr
  intro x _
  simp

/-- the weight of an annotated token -/
def wH (ms0 : List Macro) (h : HTok) : Nat :=
  wt (availT (tblF ms0) h.hs).length (availT (tblF ms0) h.hs) h.tok

theorem wH_annHp (ms0 : List Macro) (L : List Name) (t : Tok) : wH ms0 (annHp ms0 L t) = W (tblF ms0) L t := by
  unfold wH annHp mkHp W
  simp only [availT_reverse]

theorem potW_eq (ms0 : List Macro) (st : St) : potW ms0 st = ((flatG (annHp ms0) st.macros st.ctx).map (wH ms0)).sum := by
  unfold potW
  rw [flatG_map]
  simp only [wH_annHp]

/-- `rawnext` completes on a good state whose text does not start with a directive or a
scanner diagnostic -/
theorem rawnext_total (ms0 : List Macro) (st : St) (g : GoodP ms0 st)
    (ht : ∀ t r, st.raw = t :: r → t.kind ≠ .TNONE ∧ t.kind ≠ .THASH) : ∃ n s1, exec n .rawnext st = .ok s1 := by
  obtain ⟨sc, hec, hraw, _, _, _, _, hcase⟩ := ctxnext_flatG (fun _ (t : Tok) => t) (ctxSize st.ctx) st (Nat.le_refl _) g.wf
  refine ⟨ctxSize st.ctx + 3, ?_⟩
  have hc2 : exec (ctxSize st.ctx + 2) .ctxnext st = .ok sc := liftOk hec (by omega)
  show ∃ s1, rawnextBody (exec (ctxSize st.ctx + 2)) st = .ok s1
  unfold rawnextBody
  rw [hc2]
  simp only
  by_cases hrb : sc.rb = true
  · simp only [hrb, ↓reduceIte]; exact ⟨_, rfl⟩
  · simp only [hrb, Bool.false_eq_true, ↓reduceIte]
    show ∃ s1, nextintoBody (exec (ctxSize st.ctx + 1)) sc = .ok s1
    unfold nextintoBody scanTok
    cases hr : sc.raw with
    | nil =>
      simp only [eofTok]
      have : ¬ (sc.newline = true ∧ Kind.TEOF = Kind.THASH) := by intro hh; cases hh.2
      simp only [this, ↓reduceIte]
      exact ⟨_, rfl⟩
    | cons t r =>
      have hk := ht t r (by rw [← hraw, hr])
      simp only [hk.1, ↓reduceIte, hk.2, and_false]
      exact ⟨_, rfl⟩

/-- `argnext` completes inside an invocation whose text has no new-line -/
theorem argLoop_total (ms0 : List Macro) (st : St) (g : GoodP ms0 st)
    (hhead : ∀ t r, st.raw = t :: r → t.kind ≠ .TNEWLINE ∧ t.kind ≠ .THASH ∧ t.kind ≠ .TNONE) :
    ∃ n st2, exec n (.argLoop false) st = .ok st2 := by
  obtain ⟨n, s1, hr⟩ := rawnext_total ms0 st g (fun t r hh => ⟨(hhead t r hh).2.2, (hhead t r hh).2.1⟩)
  obtain ⟨g1, hR⟩ := rawnextP ms0 n st s1 g (fun t r hh => ⟨(hhead t r hh).2.2, (hhead t r hh).2.1⟩) hr
  refine ⟨n + 1, ?_⟩
  show ∃ st2, argLoopBody (exec n) false st = .ok st2
  unfold argLoopBody
  rw [hr]
  simp only
  have hsb : SameBut (if s1.raw.length + 1 < st.raw.length then s1.ev .dirInArgs else s1) s1 :=
    ite_sameBut (SameBut.ev _ _) (SameBut.refl _)
  have hnl : s1.rt.kind ≠ .TNEWLINE := by
    cases hR with
    | ctx c1 c2 c3 c4 => exact c2.1
    | raw c1 c2 c3 => exact (hhead _ _ c1).1
    | eof c1 c2 c3 c4 c5 => rw [c1]; decide
  have hnl' : (if s1.raw.length + 1 < st.raw.length then s1.ev .dirInArgs else s1).rt.kind ≠ .TNEWLINE := by
    rw [hsb.2.2.2.2.2.2.2]; exact hnl
  simp only [hnl', ↓reduceIte, Bool.false_eq_true]
  exact ⟨_, rfl⟩

/-- `expand` completes on a token that starts no invocation -/
theorem expand_total (ms0 : List Macro) (st : St) (t : Tok) (g : GoodP ms0 st) (ht : FlatP ms0 t) :
    ∃ sx, exec 1 (.expand t) st = .ok sx := by
  by_cases hk : t.kind = .TIDENT
  · refine ⟨_, expand_nonfun 0 t st ?_⟩
    intro m hm
    obtain ⟨m0, hm0, hs⟩ := macroget_stat_some g.stat hm
    have hse := stat_eq hs
    cases hf : m.func with
    | false => rfl
    | true => exact absurd ⟨hk, m0, hm0, by rw [hse.2.1, hf]⟩ ht.2.2
  · exact ⟨_, expand_nonident 0 t st hk⟩


theorem tblF_names (ms : List Macro) : (tblF ms).map (·.name) = ms.map (·.name) := by
  simp [tblF, toDefF, List.map_map, Function.comp_def]

/-- `expand` on a token that starts no invocation either leaves the potential alone (token
delivered) or trades the token's weight for one unit less (token replaced) -/
theorem expand_potP (ms0 : List Macro) (hT : TblOKS ms0) (n : Nat) (st sx : St) (t : Tok) (g : GoodP ms0 st)
    (ht : FlatP ms0 t) (h : exec n (.expand t) st = .ok sx) :
    (sx.rb = false ∧ potW ms0 sx = potW ms0 st) ∨
    (sx.rb = true ∧ potW ms0 sx + 1 = W (tblF ms0) (liveNames st.ctx) t + potW ms0 st) := by
  cases n with
  | zero => cases h
  | succ k =>
  by_cases hk : t.kind = .TIDENT
  · have hnf : ∀ m, macroget st.macros (t.lit.getD []) = some m → m.func = false := by
      intro m hm
      obtain ⟨m0, hm0, hs⟩ := macroget_stat_some g.stat hm
      have hse := stat_eq hs
      cases hf : m.func with
      | false => rfl
      | true => exact absurd ⟨hk, m0, hm0, by rw [hse.2.1, hf]⟩ ht.2.2
    rw [expand_nonfun k t st hnf] at h
    cases h
    rw [expandObj_eq]
    simp only [hk, ne_eq, not_true_eq_false, ↓reduceIte]
    cases hm : macroget st.macros (t.lit.getD []) with
    | none => left; exact ⟨rfl, rfl⟩
    | some m =>
      obtain ⟨m0, hm0, hs⟩ := macroget_stat_some g.stat hm
      have hse := stat_eq hs
      have hmem := macroget_mem hm
      have hmem0 := macroget_mem hm0
      by_cases hh : m.hide = true ∨ t.hide = true
      · simp only [hh, ↓reduceIte]; left; exact ⟨by first | rfl | trivial, by first | rfl | trivial⟩
      · have hhf : m.hide = false := by cases h : m.hide <;> simp_all
        simp only [hh, ↓reduceIte]
        right
        refine ⟨rfl, ?_⟩
        have hnot : (liveNames st.ctx).contains m0.name = false := by
          rw [hse.1]
          cases hc : (liveNames st.ctx).contains m.name with
          | false => rfl
          | true =>
            have : m.name ∈ liveNames st.ctx := by simpa using hc
            rw [(g.inv.hideIff m hmem.1).mpr this] at hhf; cases hhf
        have hnd : ((tblF ms0).map (·.name)).Nodup := by rw [tblF_names]; exact hT.names
        have hl : lookup (tblF ms0) (t.lit.getD []) = some (toDefF m0) := by rw [lookup_tblF, hm0]; rfl
        have hw := W_expand (L := liveNames st.ctx) hnd hk hl hmem0.2 hnot
        have hmf : m.func = false := hnf m hm
        have hgetn : macroget st.macros m.name = some m := by rw [hmem.2]; exact hm
        have hfr : frameToks (setHide st.macros m.name true) ⟨respace m.body t.space, some m.name⟩ = respace m.body t.space := by
          rw [frameToks_setHide]
          unfold frameToks
          simp only [Option.bind_some, hgetn, hmf, Bool.false_eq_true, ↓reduceIte]
        have hlive : liveNames ((⟨respace m.body t.space, some m.name⟩ : Frame) :: st.ctx) = m.name :: liveNames st.ctx :=
          liveNames_cons_some _ _ _ rfl
        have hsum : ((toDefF m0).body.map (wt (availT (tblF ms0) ((toDefF m0).name :: liveNames st.ctx)).length
              (availT (tblF ms0) ((toDefF m0).name :: liveNames st.ctx)))).sum
            = (m.body.map (W (tblF ms0) (m.name :: liveNames st.ctx))).sum := by
          rw [← hse.2.2.2, ← hse.1]
          simp only [toDefF, List.map_map]; rfl
        rw [hw, hsum]
        have hfr' : frameToks st.macros ⟨respace m.body t.space, some m.name⟩ = respace m.body t.space := by
          rw [← frameToks_setHide st.macros m.name true]; exact hfr
        simp only [potW, pushed, flatG, flatG_setHide, hfr', hlive, List.sum_append]
        have := sum_W_respace (tblF ms0) (m.name :: liveNames st.ctx) m.body t.space
        have e : (List.map (fun t => W (tblF ms0) (m.name :: liveNames st.ctx) t) (respace m.body t.space)) =
            List.map (W (tblF ms0) (m.name :: liveNames st.ctx)) (respace m.body t.space) := rfl
        rw [e]
        omega
  · rw [expand_nonident k t st hk] at h
    cases h
    left; exact ⟨rfl, rfl⟩

end CprocVerif.PP

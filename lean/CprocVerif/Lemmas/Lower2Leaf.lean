/-
  C01, fragment 𝔽₂ — simulation of the statements without sub-statements: `;`, declarations,
  assignment, `++`/`--`, expression statement, `return`, `break`, `continue`.
-/
import CprocVerif.Lemmas.Lower2Ctl

set_option linter.unusedSimpArgs false

namespace CprocVerif.LowerMach2
open CprocVerif.Qbe CprocVerif.Lower CprocVerif.Lower2 CprocVerif.CSem CprocVerif.CSem2 CprocVerif.CInt
open CprocVerif.LowerArith CprocVerif.LowerMach CprocVerif.LowerMem

/-! ## What well-formedness gives -/

theorem wt_noDead (vtys : List CSem.Ty) (ret : CSem.Ty) (st : Stmt) : ∀ (lb lc : Bool) (nd nd' : Nat),
    Stmt.wt vtys ret lb lc nd st = some nd' → noDead st = true ∧ nd' = nd + (declTys st).length := by
  induction st with
  | skip => intro lb lc nd nd' h; simp only [Stmt.wt, Option.some.injEq] at h; simp [noDead, declTys, h]
  | decl i t init =>
    intro lb lc nd nd' h
    simp only [Stmt.wt] at h
    split at h
    · cases h; simp [noDead, declTys]
    · cases h
  | assign i t e =>
    intro lb lc nd nd' h
    simp only [Stmt.wt] at h
    split at h
    · cases h; simp [noDead, declTys]
    · cases h
  | incdec i t inc =>
    intro lb lc nd nd' h
    simp only [Stmt.wt] at h
    split at h
    · cases h; simp [noDead, declTys]
    · cases h
  | expr e =>
    intro lb lc nd nd' h
    simp only [Stmt.wt] at h
    split at h
    · cases h; simp [noDead, declTys]
    · cases h
  | ret e =>
    intro lb lc nd nd' h
    simp only [Stmt.wt] at h
    split at h
    · cases h; simp [noDead, declTys]
    · cases h
  | seq a b iha ihb =>
    intro lb lc nd nd' h
    simp only [Stmt.wt] at h
    split at h
    · cases h
    · rename_i hej
      simp only [Option.bind_eq_some_iff] at h
      obtain ⟨n1, h1, h2⟩ := h
      obtain ⟨ha1, ha2⟩ := iha lb lc nd n1 h1
      obtain ⟨hb1, hb2⟩ := ihb lb lc n1 nd' h2
      have hdis : a.endsJump = false ∨ b.startsLabel = true := by
        cases ha : a.endsJump <;> cases hb : b.startsLabel <;> simp [ha, hb] at hej ⊢
      refine ⟨by simp [noDead, ha1, hb1, hdis], ?_⟩
      simp only [declTys, List.length_append]; omega
  | ite e a iha =>
    intro lb lc nd nd' h
    simp only [Stmt.wt] at h
    split at h
    · obtain ⟨ha1, ha2⟩ := iha lb lc nd nd' h
      exact ⟨by simpa [noDead] using ha1, by simpa [declTys] using ha2⟩
    · cases h
  | itee e a b iha ihb =>
    intro lb lc nd nd' h
    simp only [Stmt.wt] at h
    split at h
    · simp only [Option.bind_eq_some_iff] at h
      obtain ⟨n1, h1, h2⟩ := h
      obtain ⟨ha1, ha2⟩ := iha lb lc nd n1 h1
      obtain ⟨hb1, hb2⟩ := ihb lb lc n1 nd' h2
      refine ⟨by simp [noDead, ha1, hb1], ?_⟩
      simp only [declTys, List.length_append]; omega
    · cases h
  | while_ e b ihb =>
    intro lb lc nd nd' h
    simp only [Stmt.wt] at h
    split at h
    · obtain ⟨hb1, hb2⟩ := ihb true true nd nd' h
      exact ⟨by simpa [noDead] using hb1, by simpa [declTys] using hb2⟩
    · cases h
  | dowhile b e ihb =>
    intro lb lc nd nd' h
    simp only [Stmt.wt] at h
    split at h
    · simp only [Option.bind_eq_some_iff] at h
      obtain ⟨n1, h1, h2⟩ := h
      split at h2
      · cases h2
        obtain ⟨hb1, hb2⟩ := ihb true true nd _ h1
        exact ⟨by simpa [noDead] using hb1, by simpa [declTys] using hb2⟩
      · cases h2
    · cases h
  | for_ e step b ihs ihb =>
    intro lb lc nd nd' h
    simp only [Stmt.wt] at h
    split at h
    · rename_i hc
      simp only [Option.bind_eq_some_iff, Option.some.injEq] at h
      obtain ⟨n1, h1, n2, h2, rfl⟩ := h
      obtain ⟨hb1, hb2⟩ := ihb true true nd n1 h1
      obtain ⟨hs1, hs2⟩ := ihs false false nd n2 h2
      have hsd : declTys step = [] := by
        cases step <;> simp [Stmt.isSimple] at hc <;> rfl
      refine ⟨by simp [noDead, hb1, hc.2.1], ?_⟩
      simp only [declTys, List.length_append, hsd, List.length_nil]; omega
    · cases h
  | break_ =>
    intro lb lc nd nd' h
    simp only [Stmt.wt] at h
    split at h
    · cases h; simp [noDead, declTys]
    · cases h
  | continue_ =>
    intro lb lc nd nd' h
    simp only [Stmt.wt] at h
    split at h
    · cases h; simp [noDead, declTys]
    · cases h
  | switch_ e b ihb =>
    intro lb lc nd nd' h
    simp only [Stmt.wt] at h
    split at h
    · rename_i hc
      obtain ⟨hb1, hb2⟩ := ihb true lc nd nd' h
      exact ⟨by simp [noDead, hb1, hc.2.2.1], by simpa [declTys] using hb2⟩
    · cases h
  | case_ u => intro lb lc nd nd' h; simp only [Stmt.wt, Option.some.injEq] at h; simp [noDead, declTys, h]
  | default_ => intro lb lc nd nd' h; simp only [Stmt.wt, Option.some.injEq] at h; simp [noDead, declTys, h]
  | call dst rt fn args =>
    intro lb lc nd nd' h
    simp only [Stmt.wt] at h
    split at h
    · cases h; simp [noDead, declTys]
    · cases h
  | adecl i t n xb =>
    intro lb lc nd nd' h
    simp only [Stmt.wt] at h
    split at h
    · cases h; simp [noDead, declTys]
    · cases h
  | aload d dt a t n xb x =>
    intro lb lc nd nd' h
    simp only [Stmt.wt] at h
    split at h
    · cases h; simp [noDead, declTys]
    · cases h
  | astore a t n xb x v =>
    intro lb lc nd nd' h
    simp only [Stmt.wt] at h
    split at h
    · cases h; simp [noDead, declTys]
    · cases h
  | ainit a t n xb j v =>
    intro lb lc nd nd' h
    simp only [Stmt.wt] at h
    split at h
    · cases h; simp [noDead, declTys]
    · cases h
  | pload d dt k t w c0 x =>
    intro lb lc nd nd' h
    simp only [Stmt.wt] at h
    split at h
    · cases h; simp [noDead, declTys]
    · cases h
  | callp dst rt fn pargs args =>
    intro lb lc nd nd' h
    simp only [Stmt.wt] at h
    split at h
    · cases h; simp [noDead, declTys]
    · cases h

/-! ## The simulation statement -/

/-- Every call names a function of the program `P` with the declared types (`CSem2.callsOK`, in the form the
    statement lemmas decompose), nothing being required when `P` is empty; and the array statements agree
    with the layout `cnts` (`CSem2.arrsOK`). -/
def frag (P : List CSem2.Func) (cnts : List Nat) (W : List (CSem.Ty × Nat × Nat)) : Stmt → Bool
  | .decl i _ (some e) | .assign i _ e =>
    ((P.isEmpty || e.callsOK P) && e.arrsOK cnts) && decide (W.length ≤ i)
  | .expr e | .ret e => (P.isEmpty || e.callsOK P) && e.arrsOK cnts
  | .decl i _ none | .incdec i _ _ => decide (W.length ≤ i)
  | .skip | .break_ | .continue_ => true
  | .seq a b => frag P cnts W a && frag P cnts W b
  | .ite c a => ((P.isEmpty || c.callsOK P) && c.arrsOK cnts) && frag P cnts W a
  | .itee c a b => ((P.isEmpty || c.callsOK P) && c.arrsOK cnts) && (frag P cnts W a && frag P cnts W b)
  | .while_ c b => ((P.isEmpty || c.callsOK P) && c.arrsOK cnts) && frag P cnts W b
  | .dowhile b c => ((P.isEmpty || c.callsOK P) && c.arrsOK cnts) && frag P cnts W b
  | .for_ none st b => frag P cnts W st && frag P cnts W b
  | .for_ (some c) st b =>
    ((P.isEmpty || c.callsOK P) && c.arrsOK cnts) && (frag P cnts W st && frag P cnts W b)
  | .case_ _ | .default_ => true
  | .switch_ e b => ((P.isEmpty || e.callsOK P) && e.arrsOK cnts) && frag P cnts W b
  | .call dst rt fn args =>
    (P.isEmpty || callsOK P (.call dst rt fn args)) &&
      (match dst with
       | some (i, _) => decide (W.length ≤ i)
       | none => true)
  | .adecl i t n xb => arrsOK cnts (.adecl i t n xb) && decide (W.length ≤ i)
  | .aload d dt a t n xb x =>
    arrsOK cnts (.aload d dt a t n xb x) && (decide (W.length ≤ d) && decide (W.length ≤ a))
  | .astore a t n xb x v =>
    ((decide (1 ≤ n) && decide (cnts[a]? = some n) && decide (xb = xbase cnts a)) &&
      ((P.isEmpty || v.callsOK P) && v.arrsOK cnts)) && decide (W.length ≤ a)
  | .ainit a t n xb j v =>
    ((decide (j < n) && decide (cnts[a]? = some n) && decide (xb = xbase cnts a)) &&
      ((P.isEmpty || v.callsOK P) && v.arrsOK cnts)) && decide (W.length ≤ a)
  | .pload d _ k t w c0 _ => decide (W.length ≤ d) && decide (W[k]? = some (t, w, c0))
  | .callp dst rt fn pargs args =>
    ((P.isEmpty || callsOK P (.callp dst rt fn pargs args)) && arrsOK cnts (.callp dst rt fn pargs args)) &&
      ((match dst with
        | some (i, _) => decide (W.length ≤ i)
        | none => true) && pargs.all fun a => decide (W.length ≤ a.1))

/-- the windows of a function: element type, length, first cell -/
def funcW (f : CSem2.Func) : List (CSem.Ty × Nat × Nat) :=
  (List.range f.pwin.length).map fun j => ((f.pwin.getD j default).1, (f.pwin.getD j default).2, f.wbase j)

theorem funcW_length (f : CSem2.Func) : (funcW f).length = f.pwin.length := by simp [funcW]

theorem funcW_get (f : CSem2.Func) {k : Nat} {t : CSem.Ty} {w c0 : Nat} :
    (funcW f)[k]? = some (t, w, c0) ↔ f.pwin[k]? = some (t, w) ∧ c0 = f.wbase k := by
  unfold funcW
  by_cases hk : k < f.pwin.length
  · simp only [List.getElem?_map, List.getElem?_range hk, Option.map_some, Option.some.injEq, Prod.mk.injEq,
      List.getD, List.getElem?_eq_getElem hk, Option.getD_some]
    constructor
    · rintro ⟨h1, h2, h3⟩; exact ⟨by rw [← h1, ← h2], h3.symm⟩
    · rintro ⟨h1, h2⟩
      have : f.pwin[k] = (t, w) := h1
      rw [this]; exact ⟨rfl, rfl, h2.symm⟩
  · have h1 : (List.map (fun j => ((f.pwin.getD j default).1, (f.pwin.getD j default).2, f.wbase j))
        (List.range f.pwin.length))[k]? = none := by
      rw [List.getElem?_eq_none]; simp; omega
    rw [h1, List.getElem?_eq_none (by omega)]
    simp

theorem frag_of_callsOK (P : List CSem2.Func) (f : CSem2.Func) (st : Stmt) (h : callsOK P st = true)
    (ha : arrsOK f.cnts st = true) (hp : ptrsOK f.pwin f.wbase st = true) :
    frag P f.cnts (funcW f) st = true := by
  induction st with
  | decl i t init => cases init <;> simp_all [frag, callsOK, arrsOK, ptrsOK, funcW_length]
  | for_ c st b ihs ihb => cases c <;> simp_all [frag, callsOK, arrsOK, ptrsOK, funcW_length]
  | call dst rt fn args => cases dst <;> simp_all [frag, callsOK, arrsOK, ptrsOK, funcW_length]
  | callp dst rt fn pargs args =>
    simp only [frag, ptrsOK, funcW_length, Bool.and_eq_true, Bool.or_eq_true] at hp ⊢
    exact ⟨⟨Or.inr h, ha⟩, hp⟩
  | pload d dt k t w c0 x =>
    simp only [ptrsOK, Bool.and_eq_true, decide_eq_true_eq] at hp
    simp only [frag, Bool.and_eq_true, decide_eq_true_eq, funcW_length, funcW_get]
    exact ⟨hp.1.1, hp.1.2, hp.2⟩
  | _ => simp_all [frag, callsOK, arrsOK, ptrsOK, funcW_length]

/-- in a single function (`P = []`) no call is ever executed: nothing is required of it -/
theorem frag_nil (f : CSem2.Func) (st : Stmt) (ha : arrsOK f.cnts st = true)
    (hp : ptrsOK f.pwin f.wbase st = true) : frag [] f.cnts (funcW f) st = true := by
  induction st with
  | decl i t init => cases init <;> simp_all [frag, arrsOK, ptrsOK, funcW_length]
  | for_ c st b ihs ihb => cases c <;> simp_all [frag, arrsOK, ptrsOK, funcW_length]
  | call dst rt fn args => cases dst <;> simp_all [frag, arrsOK, ptrsOK, funcW_length]
  | callp dst rt fn pargs args =>
    simp only [frag, ptrsOK, funcW_length, Bool.and_eq_true, Bool.or_eq_true] at hp ⊢
    exact ⟨⟨Or.inl rfl, ha⟩, hp⟩
  | pload d dt k t w c0 x =>
    simp only [ptrsOK, Bool.and_eq_true, decide_eq_true_eq] at hp
    simp only [frag, Bool.and_eq_true, decide_eq_true_eq, funcW_length, funcW_get]
    exact ⟨hp.1.1, hp.1.2, hp.2⟩
  | _ => simp_all [frag, arrsOK, ptrsOK, funcW_length]

/-- Executions of at most `fuel` are simulated (see `Post`). -/
def SimStmt (T : Stat) (fuel : Nat) : Prop :=
  ∀ (st : Stmt) (s : Store) (out : CSem2.Outcome) (lp : Bool × Bool) (brk cont : String) (c : SCtx)
    (nd nd' : Nat) (pre post : List Item) (env : Env) (M : Mem),
    exec T.S.cs T.P fuel s st = some out →
    frag T.P T.cnts T.W st = true →
    Stmt.wt T.vtys T.ret lp.1 lp.2 nd st = some nd' →
    Pos T c nd pre →
    Ext T (funcstmt T.S.cs brk cont st c).ctx →
    T.S.its = pre ++ (funcstmt T.S.cs brk cont st c).items ++ post →
    ((lp.1 = true → CanJump T.S brk) ∧ (lp.2 = true → CanJump T.S cont)) →
    SInv T.M0 T.S.cs T.cnts T.W T.σ T.vtys s env M →
    Post T lp brk cont (T.at env M pre) (pre ++ (funcstmt T.S.cs brk cont st c).items)
      (funcstmt T.S.cs brk cont st c).ctx out

section Leaves
variable (T : Stat) {s : Store} {out : CSem2.Outcome} {lp : Bool × Bool} {brk cont : String} {c : SCtx}
  {nd nd' : Nat} {pre post : List Item} {env : Env} {M : Mem}

theorem sim_skip (n : Nat) (hex : exec T.S.cs T.P (n + 1) s .skip = some out) (hp : Pos T c nd pre)
    (inv : SInv T.M0 T.S.cs T.cnts T.W T.σ T.vtys s env M) :
    Post T lp brk cont (T.at env M pre) (pre ++ (funcstmt T.S.cs brk cont .skip c).items)
      (funcstmt T.S.cs brk cont .skip c).ctx out := by
  simp only [exec, Option.some.injEq] at hex
  subst hex
  simp only [funcstmt, List.append_nil]
  exact ⟨hp.jump, 0, env, M, rfl, inv⟩

theorem sim_break (n : Nat) (hex : exec T.S.cs T.P (n + 1) s .break_ = some out)
    (hwt : Stmt.wt T.vtys T.ret lp.1 lp.2 nd .break_ = some nd') (hp : Pos T c nd pre)
    (inv : SInv T.M0 T.S.cs T.cnts T.W T.σ T.vtys s env M) :
    Post T lp brk cont (T.at env M pre) (pre ++ (funcstmt T.S.cs brk cont .break_ c).items)
      (funcstmt T.S.cs brk cont .break_ c).ctx out := by
  simp only [exec, Option.some.injEq] at hex
  subst hex
  simp only [Stmt.wt] at hwt
  have hlp : lp.1 = true := by
    cases h : lp.1
    · simp [h] at hwt
    · rfl
  simp only [funcstmt, List.append_nil]
  refine ⟨hlp, 0, env, M, inv, Or.inl ⟨?_, rfl⟩⟩
  simp only [setJump_jump, hp.jump, Option.getD_none]

theorem sim_continue (n : Nat) (hex : exec T.S.cs T.P (n + 1) s .continue_ = some out)
    (hwt : Stmt.wt T.vtys T.ret lp.1 lp.2 nd .continue_ = some nd') (hp : Pos T c nd pre)
    (inv : SInv T.M0 T.S.cs T.cnts T.W T.σ T.vtys s env M) :
    Post T lp brk cont (T.at env M pre) (pre ++ (funcstmt T.S.cs brk cont .continue_ c).items)
      (funcstmt T.S.cs brk cont .continue_ c).ctx out := by
  simp only [exec, Option.some.injEq] at hex
  subst hex
  simp only [Stmt.wt] at hwt
  have hlp : lp.2 = true := by
    cases h : lp.2
    · simp [h] at hwt
    · rfl
  simp only [funcstmt, List.append_nil]
  refine ⟨hlp, 0, env, M, inv, Or.inl ⟨?_, rfl⟩⟩
  simp only [setJump_jump, hp.jump, Option.getD_none]

/-- `case u:` / `default:` reached by falling through from the statement before: the label closes the
    block (no jump is pending there) and execution continues in the new one -/
theorem sim_label (n : Nat) (st : Stmt) (hst : (∃ u, st = .case_ u) ∨ st = .default_)
    (hex : exec T.S.cs T.P (n + 1) s st = some out) (hp : Pos T c nd pre)
    (hits : T.S.its = pre ++ (funcstmt T.S.cs brk cont st c).items ++ post)
    (inv : SInv T.M0 T.S.cs T.cnts T.W T.σ T.vtys s env M) :
    Post T lp brk cont (T.at env M pre) (pre ++ (funcstmt T.S.cs brk cont st c).items)
      (funcstmt T.S.cs brk cont st c).ctx out := by
  rcases hst with ⟨u, rfl⟩ | rfl
  · simp only [exec, Option.some.injEq] at hex
    subst hex
    simp only [funcstmt, labelItem, hp.jump] at hits ⊢
    have hits' : T.S.its = pre ++ .lbl none (lblName "switch_case" (c.blockid + 1)) [] :: post := by
      rw [hits]; simp
    exact ⟨rfl, 1, env, M, Reach.one (step_fall_item T hits' env M), inv⟩
  · simp only [exec, Option.some.injEq] at hex
    subst hex
    simp only [funcstmt, labelItem, hp.jump] at hits ⊢
    have hits' : T.S.its = pre ++ .lbl none (lblName "switch_default" (c.blockid + 1)) [] :: post := by
      rw [hits]; simp
    exact ⟨rfl, 1, env, M, Reach.one (step_fall_item T hits' env M), inv⟩

theorem sim_decl_none (n : Nat) (i : Nat) (t : CSem.Ty)
    (hex : exec T.S.cs T.P (n + 1) s (.decl i t none) = some out) (hp : Pos T c nd pre)
    (inv : SInv T.M0 T.S.cs T.cnts T.W T.σ T.vtys s env M) :
    Post T lp brk cont (T.at env M pre) (pre ++ (funcstmt T.S.cs brk cont (.decl i t none) c).items)
      (funcstmt T.S.cs brk cont (.decl i t none) c).ctx out := by
  simp only [exec, Option.some.injEq] at hex
  subst hex
  simp only [funcstmt, List.append_nil]
  exact ⟨hp.jump, 0, env, M, rfl, inv.forget i⟩

/-- the store after an expression has been evaluated into `oe.val` -/
theorem sim_store (k : Nat) (t : CSem.Ty) (val : Val) (slot : Nat) {pos : List Item}
    (hits : T.S.its = pos ++ storeIns t val slot :: post) (hslot : T.σ.getD k 0 = slot)
    (hkt : T.vtys[k]? = some t) (hWk : T.W.length ≤ k) {v : Int} {r : RVal}
    (hval : readVal T.S.p env val = .ok r)
    (hv : InRange (t.intTy T.S.cs) v) (hr : Rep t v r)
    (inv : SInv T.M0 T.S.cs T.cnts T.W T.σ T.vtys s env M) :
    ∃ M', T.Reach 1 (T.at env M pos) (T.at env M' (pos ++ [storeIns t val slot])) ∧
      SInv T.M0 T.S.cs T.cnts T.W T.σ T.vtys (s.set k (some v)) env M' := by
  obtain ⟨a, M', h1, h2, h3⟩ := inv.store hkt hWk hv (storeVal_of_rep hr)
  rw [hslot] at h1
  exact ⟨M', run_nores T hits (readVals_two hval (readVal_tmp h1)) h2, h3⟩

end Leaves

end CprocVerif.LowerMach2

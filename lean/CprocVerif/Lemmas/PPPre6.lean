import CprocVerif.Lemmas.PPPre5

/-! # Arguments with macro names, part 6: the substituted replacement list, exactly; `expand` on an
invocation against one step of the reference -/

namespace CprocVerif.PP
open CprocVerif.Gen.TokenKinds
open CprocVerif.Spec.MacroRef (HTok Item PTok MacroDef RErr Flag Elem expandH hsadd union inter pendItems lookup
  matchParen splitTop actuals subst elems usedPlain paramIndex)
open CprocVerif.Spec

theorem map_mkHp_respace (ms0 : List Macro) (h : List Name) (l : List Tok) (sp : Bool) :
    (respace l sp).map (mkHp ms0 h) = (MacroRef.respace (l.map (mkHp ms0 h)) sp).1 := by
  cases l <;> simp [respace, MacroRef.respace, mkHp, toP, isMac]

theorem hsadd_mkHp (ms0 : List Macro) (h : List Name) (l : List Tok) :
    hsadd h (l.map (mkHp ms0 [])) = l.map (mkHp ms0 h) := by
  unfold hsadd
  simp only [List.map_map]
  apply List.map_congr_left
  intro t _
  simp [mkHp, union]

/-- lazy substitution against `subst`, exactly, with painted argument tokens -/
theorem substBody_exactP (ms0 : List Macro) (m : Macro) (md : MacroDef) (hf : md.func = true)
    (hidx : ∀ t : Tok, paramIndex md (toP t) = macroparam m.params t)
    (raw full : Nat → List HTok) :
    ∀ (body : List Tok), ((∀ t ∈ body, t.kind ≠ .THASH) ∧ (∀ t ∈ body, t.hide = false) ∧
        (∀ t ∈ body, ∀ i, macroparam m.params t = some i →
          ((m.args.getD i default).toks).map (mkHp ms0 []) = full i ∧ (m.args.getD i default).toks ≠ [])) →
      (substBody m body).map (mkHp ms0 []) = subst raw full (elems md (body.map toP)) false := by
  intro body
  have hone : ∀ (t : Tok), t.hide = false → (∀ i, macroparam m.params t = some i →
          ((m.args.getD i default).toks).map (mkHp ms0 []) = full i ∧ (m.args.getD i default).toks ≠ []) →
      ∀ rest : List Elem, ∀ R : List Tok, R.map (mkHp ms0 []) = subst raw full rest false →
      ((if t.kind = .TIDENT then
          match macroparam m.params t with
          | some i => respace (m.args.getD i default).toks t.space
          | none => [t]
        else [t]) ++ R).map (mkHp ms0 []) =
      subst raw full (MacroRef.elemOf md (toP t) :: rest) false := by
    intro t hth hargs rest R hR
    unfold MacroRef.elemOf
    simp only [hf, ↓reduceIte, hidx]
    have hkey : mkHp ms0 [] t = ⟨{ toP t with space := (toP t).space || false }, [], false⟩ := by
      simp [mkHp, toP, hth]
    by_cases hk : t.kind = .TIDENT
    · simp only [hk, ↓reduceIte]
      cases hp : macroparam m.params t with
      | none =>
        simp only [subst, List.cons_append, List.nil_append, List.map_cons]
        rw [hR, hkey]
      | some i =>
        obtain ⟨h1, h2⟩ := hargs i hp
        have hne : full i ≠ [] := by
          rw [← h1]; intro hh; exact h2 (List.map_eq_nil_iff.mp hh)
        simp only [subst, List.map_append, map_mkHp_respace, h1, Bool.or_false]
        rw [respace_snd_of_ne_nil _ hne, hR]
        rfl
    · have : macroparam m.params t = none := by unfold macroparam; simp [hk]
      simp only [hk, ↓reduceIte, this, subst, List.cons_append, List.nil_append, List.map_cons]
      rw [hR, hkey]
  fun_induction substBody m body
  · intro _; simp [elems, subst]
  case case2 t hk i hp =>
    intro hb
    have := hone t (hb.2.1 t (List.mem_cons_self ..)) (hb.2.2 t (List.mem_cons_self ..)) [] [] (by rfl)
    simp only [hk, ↓reduceIte, hp, List.append_nil] at this
    simpa [elems] using this
  case case3 t hk hp =>
    intro hb
    have := hone t (hb.2.1 t (List.mem_cons_self ..)) (hb.2.2 t (List.mem_cons_self ..)) [] [] (by rfl)
    simp only [hk, ↓reduceIte, hp, List.append_nil] at this
    simpa [elems] using this
  case case4 t hk =>
    intro hb
    have := hone t (hb.2.1 t (List.mem_cons_self ..)) (hb.2.2 t (List.mem_cons_self ..)) [] [] (by rfl)
    simp only [hk, ↓reduceIte, List.append_nil] at this
    simpa [elems] using this
  case case5 t u r hh i hp ih =>
    intro hb
    exact absurd hh (hb.1 t (List.mem_cons_self ..))
  case case6 t u r hh hp ih =>
    intro hb
    exact absurd hh (hb.1 t (List.mem_cons_self ..))
  case case7 t u r hh hk i hp ih =>
    intro hb
    have hr := ih ⟨fun x hx => hb.1 x (List.mem_cons_of_mem _ hx), fun x hx => hb.2.1 x (List.mem_cons_of_mem _ hx),
      fun x hx => hb.2.2 x (List.mem_cons_of_mem _ hx)⟩
    have he : elems md (List.map toP (t :: u :: r)) = MacroRef.elemOf md (toP t) :: elems md (List.map toP (u :: r)) := by
      simp only [List.map_cons]
      rw [elems]
      have : (toP t).kind ≠ .THASH := hh
      simp only [this, and_false, ↓reduceIte]
    rw [he]
    have := hone t (hb.2.1 t (List.mem_cons_self ..)) (hb.2.2 t (List.mem_cons_self ..)) _ _ hr
    simp only [hk, ↓reduceIte, hp] at this
    exact this
  case case8 t u r hh hk hp ih =>
    intro hb
    have hr := ih ⟨fun x hx => hb.1 x (List.mem_cons_of_mem _ hx), fun x hx => hb.2.1 x (List.mem_cons_of_mem _ hx),
      fun x hx => hb.2.2 x (List.mem_cons_of_mem _ hx)⟩
    have he : elems md (List.map toP (t :: u :: r)) = MacroRef.elemOf md (toP t) :: elems md (List.map toP (u :: r)) := by
      simp only [List.map_cons]
      rw [elems]
      have : (toP t).kind ≠ .THASH := hh
      simp only [this, and_false, ↓reduceIte]
    rw [he]
    have := hone t (hb.2.1 t (List.mem_cons_self ..)) (hb.2.2 t (List.mem_cons_self ..)) _ _ hr
    simp only [hk, ↓reduceIte, hp, List.cons_append, List.nil_append] at this
    exact this
  case case9 t u r hh hk ih =>
    intro hb
    have hr := ih ⟨fun x hx => hb.1 x (List.mem_cons_of_mem _ hx), fun x hx => hb.2.1 x (List.mem_cons_of_mem _ hx),
      fun x hx => hb.2.2 x (List.mem_cons_of_mem _ hx)⟩
    have he : elems md (List.map toP (t :: u :: r)) = MacroRef.elemOf md (toP t) :: elems md (List.map toP (u :: r)) := by
      simp only [List.map_cons]
      rw [elems]
      have : (toP t).kind ≠ .THASH := hh
      simp only [this, and_false, ↓reduceIte]
    rw [he]
    have := hone t (hb.2.1 t (List.mem_cons_self ..)) (hb.2.2 t (List.mem_cons_self ..)) _ _ hr
    simp only [hk, ↓reduceIte, List.cons_append, List.nil_append] at this
    exact this

/-- a parameter element of the replacement list comes from a token that names the parameter -/
theorem elems_param_tok (md : MacroDef) : ∀ (body : List Tok) (i : Nat) (sp : Bool),
    Elem.param i sp ∈ elems md (body.map toP) → ∃ t ∈ body, paramIndex md (toP t) = some i
  | [], i, sp, h => by simp [elems] at h
  | [t], i, sp, h => by
    simp only [List.map_cons, List.map_nil, elems, List.mem_singleton] at h
    refine ⟨t, List.mem_cons_self .., ?_⟩
    unfold MacroRef.elemOf at h
    split at h
    · rename_i j hj
      cases h
      split at hj
      · exact hj
      · cases hj
    · cases h
  | t :: p :: r, i, sp, h => by
    simp only [List.map_cons] at h
    rw [elems] at h
    split at h
    · split at h
      · rcases List.mem_cons.mp h with h | h
        · cases h
        · obtain ⟨x, hx, hxi⟩ := elems_param_tok md r i sp h
          exact ⟨x, List.mem_cons_of_mem _ (List.mem_cons_of_mem _ hx), hxi⟩
      · rcases List.mem_cons.mp h with h | h
        · cases h
        · obtain ⟨x, hx, hxi⟩ := elems_param_tok md (p :: r) i sp (by simpa using h)
          exact ⟨x, List.mem_cons_of_mem _ hx, hxi⟩
    · rcases List.mem_cons.mp h with h | h
      · refine ⟨t, List.mem_cons_self .., ?_⟩
        unfold MacroRef.elemOf at h
        split at h
        · rename_i j hj
          cases h
          split at hj
          · exact hj
          · cases hj
        · cases h
      · obtain ⟨x, hx, hxi⟩ := elems_param_tok md (p :: r) i sp (by simpa using h)
        exact ⟨x, List.mem_cons_of_mem _ hx, hxi⟩

/-- finitely many eventual facts hold together eventually -/
theorem eventually_all (P : Nat → Nat → Prop) : ∀ (N : Nat), (∀ i, i < N → ∃ J, ∀ K, J ≤ K → P i K) →
    ∃ c, ∀ K, c ≤ K → ∀ i, i < N → P i K
  | 0, _ => ⟨0, fun _ _ i hi => absurd hi (Nat.not_lt_zero _)⟩
  | N + 1, h => by
    obtain ⟨c, hc⟩ := eventually_all P N (fun i hi => h i (by omega))
    obtain ⟨J, hJ⟩ := h N (by omega)
    refine ⟨max c J, fun K hK i hi => ?_⟩
    by_cases hiN : i = N
    · subst hiN; exact hJ K (by have := Nat.le_max_right c J; omega)
    · exact hc K (by have := Nat.le_max_left c J; omega) i (by omega)


/-- the tokens of the arguments come from the part of the text that `collect` consumes -/
theorem collect_mem_take (ps : List Param) : ∀ (ts : List Tok) (i paren : Nat) (cur : List Tok)
    (done args : List (List Tok)) (rest : List Tok),
    collect ps i paren cur done ts = .ok (args, rest) →
    ∀ a ∈ args, ∀ x ∈ a, x ∈ ts.take (ts.length - rest.length) ∨ x ∈ cur ∨ ∃ d ∈ done, x ∈ d := by
  intro ts
  induction ts with
  | nil => intro i paren cur done args rest h; simp [collect] at h
  | cons t r ih =>
    intro i paren cur done args rest h a ha x hx
    have up : ∀ {i' paren' : Nat} {cur' : List Tok} {done' : List (List Tok)},
        collect ps i' paren' cur' done' r = .ok (args, rest) →
        x ∈ r.take (r.length - rest.length) → x ∈ (t :: r).take ((t :: r).length - rest.length) := by
      intro i' paren' cur' done' hh hm
      have hl := collect_rest_lt ps _ _ _ _ _ _ _ hh
      rw [show (t :: r).length - rest.length = (r.length - rest.length) + 1 by simp; omega, List.take_succ_cons]
      exact List.mem_cons_of_mem _ hm
    have upt : ∀ {i' paren' : Nat} {cur' : List Tok} {done' : List (List Tok)},
        collect ps i' paren' cur' done' r = .ok (args, rest) →
        t ∈ (t :: r).take ((t :: r).length - rest.length) := by
      intro i' paren' cur' done' hh
      have hl := collect_rest_lt ps _ _ _ _ _ _ _ hh
      rw [show (t :: r).length - rest.length = (r.length - rest.length) + 1 by simp; omega, List.take_succ_cons]
      exact List.mem_cons_self ..
    unfold collect at h
    split at h
    · split at h
      · split at h
        · cases h
        · split at h
          · cases h
          · cases h
            simp only [List.mem_reverse, List.mem_cons] at ha
            rcases ha with rfl | ha
            · right; left; simpa using hx
            · right; right; exact ⟨a, ha, hx⟩
      · rcases ih _ _ _ _ args rest h a ha x hx with h1 | h1 | ⟨d, hd, hxd⟩
        · left; exact up h h1
        · cases h1
        · rcases List.mem_cons.mp hd with rfl | hd
          · right; left; simpa using hxd
          · right; right; exact ⟨d, hd, hxd⟩
    · rcases ih _ _ _ _ args rest h a ha x hx with h1 | h1 | h1
      · left; exact up h h1
      · rcases List.mem_cons.mp h1 with rfl | h1
        · left; exact upt h
        · right; left; exact h1
      · right; right; exact h1

theorem substBody_mem' (m : Macro) : ∀ body : List Tok, (∀ t ∈ body, t.kind ≠ .THASH) →
    ∀ x ∈ substBody m body, (∃ b ∈ body, kh x = kh b) ∨
      (∃ i, (∃ b ∈ body, macroparam m.params b = some i) ∧ ∃ a ∈ (m.args.getD i default).toks, kh x = kh a)
  | [], _, x, hx => by simp [substBody] at hx
  | t :: more, h, x, hx => by
    have ht := h t (List.mem_cons_self ..)
    have ih := substBody_mem' m more (fun y hy => h y (List.mem_cons_of_mem _ hy))
    have lift : ∀ y, ((∃ b ∈ more, kh y = kh b) ∨
          (∃ i, (∃ b ∈ more, macroparam m.params b = some i) ∧ ∃ a ∈ (m.args.getD i default).toks, kh y = kh a)) →
        (∃ b ∈ t :: more, kh y = kh b) ∨
          (∃ i, (∃ b ∈ t :: more, macroparam m.params b = some i) ∧ ∃ a ∈ (m.args.getD i default).toks, kh y = kh a) := by
      intro y hy
      rcases hy with ⟨b, hb, hbe⟩ | ⟨i, ⟨b, hb, hbi⟩, hy⟩
      · exact .inl ⟨b, List.mem_cons_of_mem _ hb, hbe⟩
      · exact .inr ⟨i, ⟨b, List.mem_cons_of_mem _ hb, hbi⟩, hy⟩
    by_cases hk : t.kind = .TIDENT
    · cases hp : macroparam m.params t with
      | none =>
        rw [substBody_plain m t more ht (fun _ => hp)] at hx
        rcases List.mem_cons.mp hx with rfl | hx
        · exact .inl ⟨x, List.mem_cons_self .., rfl⟩
        · exact lift x (ih x hx)
      | some i =>
        rw [substBody_param m t more i hk hp] at hx
        rcases List.mem_append.mp hx with hx | hx
        · obtain ⟨a, ha, hae⟩ := mem_respace_kh hx
          exact .inr ⟨i, ⟨t, List.mem_cons_self .., hp⟩, a, ha, hae⟩
        · exact lift x (ih x hx)
    · rw [substBody_plain m t more ht (fun hh => absurd hh hk)] at hx
      rcases List.mem_cons.mp hx with rfl | hx
      · exact .inl ⟨x, List.mem_cons_self .., rfl⟩
      · exact lift x (ih x hx)

theorem mkHp_nonident (ms0 : List Macro) (hs : List Name) (t : Tok) (h : t.kind ≠ .TIDENT) : mkHp ms0 hs t = mkH hs t := by
  simp [mkHp, mkH, isMac, h]

theorem uses_lt (ps : List Param) : ∀ (body : List Tok) (i : Nat) (b : Bool), (i, b) ∈ uses ps body → i < ps.length
  | [], i, b, h => by simp [uses] at h
  | [t], i, b, h => by
    unfold uses at h
    split at h
    · split at h
      · rename_i j hj
        simp only [List.mem_singleton, Prod.mk.injEq] at h
        rw [h.1]; exact macroparam_lt hj
      · cases h
    · cases h
  | t :: u :: r, i, b, h => by
    rw [uses] at h
    split at h
    · split at h
      · rename_i j hj
        rcases List.mem_cons.mp h with h | h
        · simp only [Prod.mk.injEq] at h; rw [h.1]; exact macroparam_lt hj
        · exact uses_lt ps r i b h
      · exact uses_lt ps (u :: r) i b h
    · split at h
      · split at h
        · rename_i j hj
          rcases List.mem_cons.mp h with h | h
          · simp only [Prod.mk.injEq] at h; rw [h.1]; exact macroparam_lt hj
          · exact uses_lt ps (u :: r) i b h
        · exact uses_lt ps (u :: r) i b h
      · exact uses_lt ps (u :: r) i b h

/-- **`expand` on an invocation in the text** whose arguments may name object-like macros and hold
complete invocations, against one step of the reference, for every continuation `X`: the
inductive step (the statement for less fuel is what the argument loop needs for nested invocations) -/
theorem callSpec_step (ms0 : List Macro) (hTb : TblOKS ms0) (n : Nat) (hcs : ∀ m, m < n → CallSpec ms0 m) :
    CallSpec ms0 n := by
  intro s1 s2 T lp r' F args rest g hctx hraw h1 h2 h3 h4 h5 h5' h6 h7ok h8 h
  have h7 : ∀ x ∈ r'.take (r'.length - rest.length), RawOK x := h7ok.raw
  have hmem0 := macroget_mem h3
  have hsf0 := hTb.func F hmem0.1 h4
  obtain ⟨F', hF', hs⟩ := macroget_stat_some g.stat.symm h3
  have hse := stat_eq hs
  have hsf : SimpleFunS F' := simpleFunS_of_stat hs hsf0
  have hbne0 : F.body ≠ [] := hTb.bodyNe F hmem0.1
  have hbne : F'.body ≠ [] := by rw [hse.2.2.2]; exact hbne0
  have hcol : collect F'.params 0 0 [] [] r' = .ok (args, rest) := by rw [hse.2.2.1]; exact h6
  obtain ⟨stL, ARGS, gL, hcL, hrL, hrel, hrb, hraw2, hctx2, hmac2, hdep2, hprag2, hppnl2⟩ :=
    expand_funclikeP ms0 hTb F' T lp r' s1 s2 args rest n hcs g hctx h1 h2 hF' hsf hbne hraw h5 hcol h7ok h8 h
  rw [hse.2.2.1] at hrel
  rw [hse.2.2.2, hse.1] at hctx2
  rw [hse.1] at hmac2
  have hvl : VarLast F.params := fun j _ => getD_novar hsf0.novar j
  obtain ⟨seg, rp, hr, hrp, hmp, hsplit⟩ := collect_specX F.params hvl r' 0 0 [] [] args rest hsf0.nonempty h6
  have hlen := collect_length F.params r' 0 0 [] [] args rest rfl hsf0.nonempty h6
  have hsl : splitsLeft F.params 0 seg = seg.length + 1 := by
    unfold splitsLeft; rw [getD_novar hsf0.novar]; simp
  simp only [List.reverse_nil, List.map_nil, List.nil_append, hsl] at hsplit
  have hA : splitTop (seg.length + 1) 0 (seg.map hT) [] = args.map (·.map hT) := hsplit.symm
  have htake : r'.take (r'.length - rest.length) = seg ++ [rp] := by
    have e1 : r'.length - rest.length = (seg ++ [rp]).length := by rw [hr]; simp; omega
    have e2 : r' = (seg ++ [rp]) ++ rest := by rw [hr]; simp
    rw [e1, e2, List.take_left' rfl]
  have hok : ∀ x ∈ seg ++ [rp], RawOK x := by rw [← htake]; exact h7
  have hargtok : ∀ a ∈ args, ∀ x ∈ a, RawOK x := by
    intro a ha x hx
    rcases collect_mem_take F.params r' 0 0 [] [] args rest h6 a ha x hx with h' | h' | ⟨d, hd, _⟩
    · exact h7 x h'
    · cases h'
    · cases hd
  -- the macro as the final table has it
  obtain ⟨FL, hFL, hsL⟩ := macroget_stat_some gL.stat.symm h3
  have hseL := stat_eq hsL
  have hname : F.name = T.lit.getD [] := hmem0.2
  have hg2 : macroget s2.macros F.name = some { FL with args := ARGS, hide := true } := by
    rw [hmac2, macroget_setHide, macroget_setArgs, hname, hFL]
    simp [hseL.1, hname]
  have hHF : HashFollowed ({ FL with args := ARGS, hide := true } : Macro).params F.body := by
    show HashFollowed FL.params F.body
    rw [hseL.2.2.1]; exact hsf0.hashF
  have huse : uses ({ FL with args := ARGS, hide := true } : Macro).params F.body = uses F.params F.body := by
    show uses FL.params F.body = _
    rw [hseL.2.2.1]
  have hfr : frameToks s2.macros ⟨respace F.body T.space, some F.name⟩ =
      substBody { FL with args := ARGS, hide := true } (respace F.body T.space) := by
    unfold frameToks
    simp only [Option.bind_some, hg2]
    exact if_pos (by rw [hseL.2.1]; exact h4)
  have huse_lt : ∀ (i : Nat) (b : Bool), (i, b) ∈ uses F.params F.body → i < F.params.length := by
    intro i b hi
    exact uses_lt F.params F.body i b hi
  have hargs_i : ∀ i, (i, false) ∈ uses F.params F.body →
      LinkE (tblF ms0) ((args.getD i []).map (iP ms0)) ((ARGS.getD i default).toks.map (mkHp ms0 [])) [] ∧
      (ARGS.getD i default).toks ≠ [] ∧ ∀ x ∈ (ARGS.getD i default).toks, FlatP ms0 x := by
    intro i hi
    have hilt := huse_lt i false hi
    exact (hrel.get i (by omega)).1 (hsf0.ftok i hi)
  have hstr_i : ∀ i, (i, true) ∈ uses F.params F.body →
      (ARGS.getD i default).str = strTok (stringizeAll (args.getD i [])) := by
    intro i hi
    have hilt := huse_lt i true hi
    exact (hrel.get i (by omega)).2 (hsf0.fstr i hi)
  have hspell : ∀ a ∈ args, ∀ x ∈ a, Spellable x := by
    intro a ha x hx
    rcases collect_mem_take F.params r' 0 0 [] [] args rest h6 a ha x hx with h' | h' | ⟨d, hd, _⟩
    · exact h7ok.spell x h'
    · cases h'
    · cases hd
  have hcondP : ∀ i, (i, false) ∈ uses ({ FL with args := ARGS, hide := true } : Macro).params F.body →
      ((({ FL with args := ARGS, hide := true } : Macro).args.getD i default).toks).map (mkHp ms0 []) =
        (fun i => (ARGS.getD i default).toks.map (mkHp ms0 [])) i ∧
      (({ FL with args := ARGS, hide := true } : Macro).args.getD i default).toks ≠ [] := by
    intro i hi
    rw [huse] at hi
    exact ⟨rfl, (hargs_i i hi).2.1⟩
  have hcondS : ∀ i, (i, true) ∈ uses ({ FL with args := ARGS, hide := true } : Macro).params F.body → ∀ sp,
      mkHp ms0 [] { (({ FL with args := ARGS, hide := true } : Macro).args.getD i default).str with space := sp } =
        ⟨{ MacroRef.stringizeRef (((fun i => (splitTop (seg.length + 1) 0 (seg.map hT) []).getD i []) i).map (·.tok))
            with space := sp || false }, [], false⟩ := by
    intro i hi sp
    rw [huse] at hi
    have hilt := huse_lt i true hi
    have hila : i < args.length := by omega
    show mkHp ms0 [] { (ARGS.getD i default).str with space := sp } = _
    rw [hstr_i i hi, hA]
    have hget : (args.map (·.map hT)).getD i [] = (args.getD i []).map hT := by
      simp [List.getD_eq_getElem?_getD, hila]
    have hmemA : args.getD i [] ∈ args := by
      have : args.getD i [] = args[i] := by simp [List.getD_eq_getElem?_getD, hila]
      rw [this]; exact List.getElem_mem hila
    have hseq := stringizeAll_eq (args.getD i []) (hspell _ hmemA)
    simp only [hget, List.map_map]
    have hmp : ((args.getD i []).map ((fun x : HTok => x.tok) ∘ hT)) = (args.getD i []).map toP := by
      apply List.map_congr_left; intro x _; rfl
    rw [hmp]
    unfold MacroRef.stringizeRef at hseq ⊢
    simp only [Option.some.injEq] at hseq
    generalize args.getD i [] = ai at hseq ⊢
    simp [mkHp, strTok, toP, isMac, hseq]
  have hbhide : ∀ t ∈ F.body, t.hide = false := fun t ht => (hTb.bodyOk F hmem0.1 t ht).1.2.2
  have hsub := substBody_exactS ms0 { FL with args := ARGS, hide := true } (toDefF F) h4
    (fun t => by rw [paramIndex_toDefF]; show _ = macroparam FL.params t; rw [hseL.2.2.1])
    (fun i => (splitTop (seg.length + 1) 0 (seg.map hT) []).getD i [])
    (fun i => (ARGS.getD i default).toks.map (mkHp ms0 [])) F.body.length F.body (Nat.le_refl _) hHF hbhide hcondP hcondS
  have hne : substBody { FL with args := ARGS, hide := true } F.body ≠ [] :=
    substBody_ne_nilS _ F.body hbne0 hHF (fun i hi => (hcondP i hi).2)
  have hb : (toDefF F).body = F.body.map toP := rfl
  have hexact : (flat s2.macros s2.ctx).map (mkHp ms0 [F.name]) =
      (MacroRef.respace (hsadd [F.name]
        (subst (fun i => (splitTop (seg.length + 1) 0 (seg.map hT) []).getD i [])
               (fun i => (ARGS.getD i default).toks.map (mkHp ms0 []))
               (elems (toDefF F) (toDefF F).body) false)) T.space).1 := by
    rw [hctx2]
    simp only [flat, hfr, List.append_nil]
    rw [substBody_respace_exactS _ F.body T.space hHF (fun i hi => (hcondP i hi).2), map_mkHp_respace,
      ← hsadd_mkHp, hsub, hb]
  have hsne : subst (fun i => (splitTop (seg.length + 1) 0 (seg.map hT) []).getD i [])
               (fun i => (ARGS.getD i default).toks.map (mkHp ms0 []))
               (elems (toDefF F) (toDefF F).body) false ≠ [] := by
    rw [hb, ← hsub]
    intro hh
    exact hne (List.map_eq_nil_iff.mp hh)
  refine ⟨?_, hraw2, hrb, ?_, ?_⟩
  · -- GoodP s2
    have hmemL := macroget_mem hFL
    have hFLh : FL.hide = false := by
      cases hh : FL.hide with
      | false => rfl
      | true =>
        have := (gL.inv.hideIff FL hmemL.1).mp hh
        rw [hcL] at this; cases this
    refine ⟨?_, ?_, ?_, ?_, ?_, hprag2, hppnl2⟩
    · rw [hmac2, stat_setHide, stat_setArgs]; exact gL.stat
    · rw [hctx2, hmac2, hdep2]
      have hi0 : InvC [] (setArgs stL.macros F.name ARGS) stL.depth :=
        invC_setArgs _ _ (by have := gL.inv; rw [hcL] at this; exact this)
      have hmm : ({ FL with args := ARGS } : Macro) ∈ setArgs stL.macros F.name ARGS := by
        unfold setArgs
        exact List.mem_map.mpr ⟨FL, hmemL.1, by simp [hseL.1]⟩
      have := invC_push (m := { FL with args := ARGS }) (respace F.body T.space) hi0 hmm hFLh
      rw [show ({ FL with args := ARGS } : Macro).name = F.name from hseL.1] at this
      exact this
    · rw [hctx2]
      intro f hf m hb' hfun
      rw [List.mem_singleton] at hf
      subst hf
      simp only [Option.bind_some, hg2, Option.some.injEq] at hb'
      subst hb'
      exact hashFollowed_respace _ hHF
    · intro x hx
      rw [hctx2] at hx
      simp only [flat, List.append_nil, hfr] at hx
      rcases substBody_memS _ _ _ (Nat.le_refl _) (hashFollowed_respace T.space hHF) x hx with
        ⟨b, hb', hkb⟩ | ⟨i, hi, a, ha, hka⟩ | ⟨i, hi, hk1, hk2, hk3⟩
      · obtain ⟨b', hb'', hkb'⟩ := mem_respace_kh hb'
        have hbo := hTb.bodyOk F hmem0.1 b' hb''
        exact flatP_of_kh (hkb.trans hkb') ⟨hbo.1.1, hbo.1.2.1, hbo.2⟩
      · rw [uses_respace, huse] at hi
        exact flatP_of_kh hka ((hargs_i i hi).2.2 a ha)
      · rw [uses_respace, huse] at hi
        have hsk : x.kind = .TSTRINGLIT := by
          rw [hk1]; show (ARGS.getD i default).str.kind = _; rw [hstr_i i hi]; rfl
        exact ⟨by rw [hsk]; decide, by rw [hsk]; decide, fun hf => by have := hf.1; rw [hsk] at this; cases this⟩
    · intro L hL
      rw [hctx2] at hL
      simp only [flatG, List.append_nil, List.mem_map] at hL
      obtain ⟨_, _, rfl⟩ := hL
      simp [liveNames]
  · -- the frame delivers something
    intro hh
    have hm : (flat s2.macros s2.ctx).map (mkHp ms0 [F.name]) = [] := by rw [hh]; rfl
    rw [hexact] at hm
    have hne2 : hsadd [F.name] (subst (fun i => (splitTop (seg.length + 1) 0 (seg.map hT) []).getD i [])
        (fun i => (ARGS.getD i default).toks.map (mkHp ms0 [])) (elems (toDefF F) (toDefF F).body) false) ≠ [] := by
      intro h0
      unfold hsadd at h0
      exact hsne (List.map_eq_nil_iff.mp h0)
    revert hm
    generalize hsadd [F.name] (subst (fun i => (splitTop (seg.length + 1) 0 (seg.map hT) []).getD i [])
        (fun i => (ARGS.getD i default).toks.map (mkHp ms0 [])) (elems (toDefF F) (toDefF F).body) false) = l at hne2
    cases l with
    | nil => exact absurd rfl hne2
    | cons a r => simp [MacroRef.respace]
  · -- the reference
    have hP : ∀ i, i < F.params.length → ∃ J, ∀ K, J ≤ K → (usedPlain (toDefF F) i = true →
        outE (expandH false K (tblF ms0) (((splitTop (seg.length + 1) 0 (seg.map hT) []).getD i []).map Item.tok)) =
          ((ARGS.getD i default).toks.map (mkHp ms0 []), none)) := by
      intro i hi
      by_cases hu : usedPlain (toDefF F) i = true
      · have hu' := hu
        unfold usedPlain at hu'
        rw [List.any_eq_true] at hu'
        obtain ⟨el, hel, hmatch⟩ := hu'
        cases el with
        | tok _ => simp at hmatch
        | str _ _ => simp at hmatch
        | param j sp =>
          have hj : j = i := by simpa using hmatch
          subst hj
          have hju : (j, false) ∈ uses F.params F.body := by
            have := elems_param_uses { FL with args := ARGS, hide := true } (toDefF F) h4
              (fun t => by rw [paramIndex_toDefF]; show _ = macroparam FL.params t; rw [hseL.2.2.1])
              F.body.length F.body (Nat.le_refl _) hHF j sp hel
            rw [huse] at this; exact this
          obtain ⟨J, hJ⟩ := (hargs_i j hju).1.final
          refine ⟨J, fun K hK _ => ?_⟩
          have hila : j < args.length := by omega
          have hAi : ((splitTop (seg.length + 1) 0 (seg.map hT) []).getD j []).map Item.tok = (args.getD j []).map (iP ms0) := by
            rw [hA]
            have : (args.map (·.map hT)).getD j [] = (args.getD j []).map hT := by
              simp [List.getD_eq_getElem?_getD, hila]
            rw [this, List.map_map]
            apply List.map_congr_left
            intro x hx
            have hmemA : args.getD j [] ∈ args := by
              have : args.getD j [] = args[j] := by simp [List.getD_eq_getElem?_getD, hila]
              rw [this]; exact List.getElem_mem hila
            have := (hargtok _ hmemA x hx).2.2.2.2
            simp [iP, hT, mkHp_nohide ms0 [] x this]
          rw [hAi]
          exact hJ K hK
      · exact ⟨0, fun K _ hh => absurd hh hu⟩
    obtain ⟨c, hc⟩ := eventually_all _ F.params.length hP
    refine ⟨max c (seg.length + 1), fun K hK X => ?_⟩
    have hKc : c ≤ K := by have := Nat.le_max_left c (seg.length + 1); omega
    have hl : lookup (tblF ms0) ((mkH [] T).tok.lit.getD []) = some (toDefF F) := by
      rw [lookup_tblF]; show (macroget ms0 (T.lit.getD [])).map toDefF = _; rw [h3]; rfl
    have hseglen : (seg.map hT).length = seg.length := List.length_map ..
    have hkeyl : (seg.map hT).map Item.tok = seg.map iT := by rw [List.map_map]; rfl
    have := expandH_func_stepP (tblF ms0) (toDefF F) (mkH [] T) (mkH [] lp) (hT rp) (seg.map hT) X K
      (fun i => (ARGS.getD i default).toks.map (mkHp ms0 []))
      h1 rfl rfl hl h4 rfl (by simp [toDefF]; exact hsf0.nonempty) h5 rfl
      (by have := hmp X; rw [hkeyl]; exact this)
      (by rw [hseglen, hA]; simp [toDefF, hlen])
      (by
        intro i hi hu
        rw [hseglen]
        exact hc K hKc i (by simpa [toDefF] using hi) hu)
    rw [hseglen, hkeyl] at this
    have hL : (iP ms0 T :: iP ms0 lp :: ((r'.take (r'.length - rest.length)).map (iP ms0) ++ X)) =
        (Item.tok (mkH [] T) :: Item.tok (mkH [] lp) :: (seg.map iT ++ Item.tok (hT rp) :: X)) := by
      rw [htake]
      show (Item.tok (mkHp ms0 [] T) :: Item.tok (mkHp ms0 [] lp) :: ((seg ++ [rp]).map (iP ms0) ++ X)) = _
      rw [List.map_append, List.append_assoc]
      show (Item.tok (mkHp ms0 [] T) :: Item.tok (mkHp ms0 [] lp) :: (seg.map (iP ms0) ++ (iP ms0 rp :: X))) = _
      have e1 : mkHp ms0 [] T = mkH [] T := mkHp_nohide ms0 [] T h2
      have e2 : mkHp ms0 [] lp = mkH [] lp := mkHp_nonident ms0 [] lp (by rw [h5]; decide)
      have e3 : seg.map (iP ms0) = seg.map iT := by
        apply List.map_congr_left
        intro x hx
        have := (hok x (List.mem_append_left _ hx)).2.2.2.2
        simp [iP, iT, hT, mkHp_nohide ms0 [] x this]
      have e4 : iP ms0 rp = Item.tok (hT rp) := by
        have := (hok rp (by simp)).2.2.2.2
        simp [iP, hT, mkHp_nohide ms0 [] rp this]
      rw [e1, e2, e3, e4]
    rw [hL, this]
    have hb2 : (MacroRef.respace (hsadd [(toDefF F).name]
        (subst (fun i => (splitTop (seg.length + 1) 0 (seg.map hT) []).getD i [])
               (fun i => (ARGS.getD i default).toks.map (mkHp ms0 []))
               (elems (toDefF F) (toDefF F).body) false)) (mkH [] T).tok.space).2 = false := by
      apply respace_snd_of_ne_nil
      intro hh
      apply hsne
      unfold hsadd at hh
      exact List.map_eq_nil_iff.mp hh
    rw [hb2, pendItems_false]
    congr 2
    show _ = absX ms0 s2 X
    have hann : annHp ms0 [F.name] = mkHp ms0 [F.name] := by funext x; simp [annHp]
    have hflat : flatG (annHp ms0) s2.macros s2.ctx = (flat s2.macros s2.ctx).map (mkHp ms0 [F.name]) := by
      rw [hctx2]
      simp only [flatG, flat, List.append_nil]
      have : liveNames [⟨respace F.body T.space, some F.name⟩] = [F.name] := rfl
      rw [this, hann]
    simp only [absX, hflat, hexact]
    rfl


/-- **`expand` on an invocation in the text**, against one step of the reference, for any fuel -/
theorem callSpec_all (ms0 : List Macro) (hTb : TblOKS ms0) : ∀ n, CallSpec ms0 n := by
  intro n
  induction n using Nat.strongRecOn with
  | _ n ih => exact callSpec_step ms0 hTb n ih

end CprocVerif.PP

import CprocVerif.Lemmas.DriverStr

/-! C17: the argument loop of the model on rendered items.

`upd` is what one item does to the parser state; `parse_item` shows that the model's loop, run on
the rendering of a well-formed item (attached or detached), performs exactly `upd` and continues
with the remaining arguments; `parse_cmd` lifts this to whole command lines. -/

namespace CprocVerif.DriverLemmas
open CprocVerif.Driver CprocVerif.DriverDoc

def wStage : Tool → Stage
  | .cpp => .preprocess | .cc => .compile | .qbe => .codegen | .as => .assemble | .ld => .link

/-- the effect of one item on the parser state of the model. -/
def upd (s : PState) : Item → Except Refusal PState
  | .input n => addInput s n
  | .c => .ok { s with last := .assemble }
  | .S => .ok { s with last := .codegen }
  | .E => .ok { s with last := .preprocess }
  | .emitQbe => .ok { s with last := .compile }
  | .define v => .ok (s.addTo .preprocess [str "-D", v])
  | .undef v => .ok (s.addTo .preprocess [str "-U", v])
  | .incdir v => .ok (s.addTo .preprocess [str "-I", v])
  | .libdir v => .ok (s.addTo .link [str "-L", v])
  | .lib v => .ok { s with inputs := s.inputs ++ [⟨v, [.link], .obj, true⟩] }
  | .output v => .ok { s with output := some v }
  | .lang l =>
    match langTable.lookup l with
    | some ft => .ok { s with ftype := ft }
    | none => .error (.usage .unknownLang)
  | .inc k v => .ok (s.addTo .preprocess [k.spelling, v])
  | .strip => .ok (s.addTo .link [str "-s"])
  | .verbose => .ok { s with verbose := true }
  | .static_ => .ok (s.addTo .link [str "-static"])
  | .nostdlib => .ok { s with nostdlib := true }
  | .nostdinc => .ok (s.addTo .preprocess [str "-nostdinc"])
  | .pthread => .ok (s.addTo .link [str "-l", str "pthread"])
  | .wtool .cpp args => .ok (s.addTo .preprocess args)
  | .wtool .as args => .ok (s.addTo .assemble args)
  | .wtool .ld args => .ok (s.addTo .link args)
  | .wtool _ _ => .ok s
  | .ineff _ => .ok s
  | .std v => .ok (s.addTo .preprocess [str "-std=" ++ v])
  | .dep .M => .ok { s.addTo .preprocess [str "-M"] with last := .preprocess }
  | .dep .MM => .ok { s.addTo .preprocess [str "-MM"] with last := .preprocess }
  | .dep .MD => .ok (s.addTo .preprocess [str "-MD"])
  | .dep .MMD => .ok (s.addTo .preprocess [str "-MMD"])
  | .depArg t v => .ok (s.addTo .preprocess [if t then str "-MT" else str "-MF", v])
  | .noLineMarkers _ => .ok (s.addTo .preprocess [str "-P"])

def updAll : PState → List Item → Except Refusal PState
  | s, [] => .ok s
  | s, it :: r =>
    match upd s it with
    | .ok s' => updAll s' r
    | .error e => .error e

theorem parse_nil (s : PState) : parse s [] = .ok s := by rw [parse]

theorem parse_refuse {s : PState} {a : Str} {rest : List Str} {r : Refusal}
    (h : step s a rest.head? = .refuse r) : parse s (a :: rest) = .error r := by
  rw [parse, h]

theorem parse_next {s s' : PState} {a : Str} {rest : List Str}
    (h : step s a rest.head? = .next s' false) : parse s (a :: rest) = parse s' rest := by
  rw [parse, h]

theorem parse_consumed {s s' : PState} {a : Str} {rest : List Str}
    (h : step s a rest.head? = .next s' true) : parse s (a :: rest) = parse s' rest.tail := by
  rw [parse, h]

theorem step_opt (s : PState) (arg : Str) (next : Option Str) (r : OptRow)
    (hi : isInputArg arg = false) (hf : firstMatch arg = some r) (hb : r.m.bareViolated arg = false) :
    step s arg next = applyAct s r.act arg next := by
  simp [step, hi, hf, hb]

/-! ### which row the chain selects -/

section fm
variable (v : Str)

theorem fm_D : firstMatch ('-'::'D'::v) = some ⟨.letter 'D' false, .add .preprocess [.lit (str "-D"), .joined]⟩ := by
  simp [firstMatch, optRows, Match.matches, isPfx, List.find?, str]
theorem fm_U : firstMatch ('-'::'U'::v) = some ⟨.letter 'U' false, .add .preprocess [.lit (str "-U"), .joined]⟩ := by
  simp [firstMatch, optRows, Match.matches, isPfx, List.find?, str]
theorem fm_I : firstMatch ('-'::'I'::v) = some ⟨.letter 'I' false, .add .preprocess [.lit (str "-I"), .joined]⟩ := by
  simp [firstMatch, optRows, Match.matches, isPfx, List.find?, str]
theorem fm_L : firstMatch ('-'::'L'::v) = some ⟨.letter 'L' false, .add .link [.lit (str "-L"), .joined]⟩ := by
  simp [firstMatch, optRows, Match.matches, isPfx, List.find?, str]
theorem fm_l : firstMatch ('-'::'l'::v) = some ⟨.letter 'l' false, .lib⟩ := by
  simp [firstMatch, optRows, Match.matches, isPfx, List.find?, str]
theorem fm_o : firstMatch ('-'::'o'::v) = some ⟨.letter 'o' false, .output⟩ := by
  simp [firstMatch, optRows, Match.matches, isPfx, List.find?, str]
theorem fm_x : firstMatch ('-'::'x'::v) = some ⟨.letter 'x' false, .lang⟩ := by
  simp [firstMatch, optRows, Match.matches, isPfx, List.find?, str]
theorem fm_g : firstMatch ('-'::'g'::v) = some ⟨.letter 'g' false, .ignore⟩ := by
  simp [firstMatch, optRows, Match.matches, isPfx, List.find?, str]
theorem fm_O : firstMatch ('-'::'O'::v) = some ⟨.letter 'O' false, .ignore⟩ := by
  simp [firstMatch, optRows, Match.matches, isPfx, List.find?, str]
theorem fm_P : firstMatch ('-'::'P'::v) = some ⟨.letter 'P' false, .add .preprocess [.lit (str "-P")]⟩ := by
  simp [firstMatch, optRows, Match.matches, isPfx, List.find?, str]
theorem fm_W : firstMatch ('-'::'W'::v) = some ⟨.letter 'W' false, .wcomma⟩ := by
  simp [firstMatch, optRows, Match.matches, isPfx, List.find?, str]
theorem fm_std : firstMatch ('-'::'s'::'t'::'d'::'='::v) = some ⟨.pfx (str "-std="), .add .preprocess [.self]⟩ := by
  simp [firstMatch, optRows, Match.matches, isPfx, List.find?, str]

end fm


/-! ### one loop iteration per item -/

theorem nextarg_att (c : Char) (v : Str) (hv : v ≠ []) (next : Option Str) :
    nextarg ('-'::c::v) next = .ok v false := by
  cases v with
  | nil => exact absurd rfl hv
  | cons a b => rfl

theorem nextarg_det (c : Char) (v : Str) : nextarg ['-', c] (some v) = .ok v true := rfl

theorem step_addJoined (s : PState) (c : Char) (st : Stage) (flag arg v : Str) (next : Option Str)
    (consumed : Bool)
    (hf : firstMatch arg = some ⟨.letter c false, .add st [.lit flag, .joined]⟩)
    (hi : isInputArg arg = false) (hn : nextarg arg next = .ok v consumed) :
    step s arg next = .next (s.addTo st [flag, v]) consumed := by
  rw [step_opt s arg next _ hi hf rfl]
  simp [applyAct, applyAdd, hn, evalPieces]

theorem step_with (s : PState) (c : Char) (a : Act) (arg v : Str) (next : Option Str) (consumed : Bool)
    (k : PState → Str → Except Refusal PState)
    (hf : firstMatch arg = some ⟨.letter c false, a⟩)
    (hi : isInputArg arg = false) (hn : nextarg arg next = .ok v consumed)
    (ha : applyAct s a arg next = withNextarg s arg next k) :
    step s arg next = (match k s v with | .ok s' => .next s' consumed | .error r => .refuse r) := by
  rw [step_opt s arg next _ hi hf rfl, ha]
  simp only [withNextarg, hn]
  cases k s v <;> rfl

/-- what `parse` does after an item, as a function of `upd`'s result -/
def cont (r : Except Refusal PState) (rest : List Str) : Except Refusal PState :=
  match r with
  | .ok s' => parse s' rest
  | .error e => .error e

theorem parse_flag (s s' : PState) (arg : Str) (rest : List Str) (r : OptRow)
    (hi : isInputArg arg = false) (hf : firstMatch arg = some r) (hb : r.m.bareViolated arg = false)
    (ha : ∀ next, applyAct s r.act arg next = .next s' false) :
    parse s (arg :: rest) = parse s' rest :=
  parse_next (by rw [step_opt s arg _ r hi hf hb, ha])

theorem parse_joined (s : PState) (c : Char) (st : Stage) (flag v : Str) (d : Bool) (rest : List Str)
    (hflag : flag = ['-', c])
    (hf : ∀ w, firstMatch ('-'::c::w) = some ⟨.letter c false, .add st [.lit flag, .joined]⟩)
    (hwf : (d || v != []) = true) :
    parse s (joinedOrSep flag v d ++ rest) = parse (s.addTo st [flag, v]) rest := by
  subst hflag
  cases d with
  | true =>
    show parse s (['-', c] :: v :: rest) = _
    exact parse_consumed (step_addJoined s c st _ _ v _ true (hf []) rfl (nextarg_det c v))
  | false =>
    have hv : v ≠ [] := by simpa using hwf
    show parse s (('-'::c::v) :: rest) = _
    exact parse_next (step_addJoined s c st _ _ v _ false (hf v) rfl (nextarg_att c v hv _))

theorem parse_with (s : PState) (c : Char) (a : Act) (v : Str) (d : Bool) (rest : List Str)
    (k : PState → Str → Except Refusal PState)
    (hf : ∀ w, firstMatch ('-'::c::w) = some ⟨.letter c false, a⟩)
    (ha : ∀ arg next, applyAct s a arg next = withNextarg s arg next k)
    (hwf : (d || v != []) = true) :
    parse s (joinedOrSep ['-', c] v d ++ rest) = cont (k s v) rest := by
  cases d with
  | true =>
    show parse s (['-', c] :: v :: rest) = _
    have h := step_with s c a ['-', c] v (some v) true k (hf []) rfl (nextarg_det c v) (ha _ _)
    cases hk : k s v with
    | ok s' => rw [hk] at h; exact parse_consumed h
    | error e => rw [hk] at h; exact parse_refuse h
  | false =>
    have hv : v ≠ [] := by simpa using hwf
    show parse s (('-'::c::v) :: rest) = _
    have h := step_with s c a ('-'::c::v) v (rest.head?) false k (hf v) rfl (nextarg_att c v hv _) (ha _ _)
    cases hk : k s v with
    | ok s' => rw [hk] at h; exact parse_next h
    | error e => rw [hk] at h; exact parse_refuse h

theorem parse_sep (s : PState) (arg v : Str) (rest : List Str)
    (hi : isInputArg arg = false)
    (hf : firstMatch arg = some ⟨.exact arg, .add .preprocess [.self, .sep]⟩) :
    parse s (arg :: v :: rest) = parse (s.addTo .preprocess [arg, v]) rest := by
  refine parse_consumed ?_
  rw [step_opt s arg _ _ hi hf rfl]
  simp [applyAct, applyAdd, sepArg, evalPieces]


theorem parse_item (s : PState) (it : Item) (d : Bool) (rest : List Str) (h : Item.WF (it, d) = true) :
    parse s (it.render d ++ rest) = cont (upd s it) rest := by
  cases it with
  | input n =>
    have hi : isInputArg n = true := h
    show parse s (n :: rest) = _
    simp only [upd]
    cases ha : addInput s n with
    | ok s' => exact parse_next (by simp [step, hi, ha])
    | error e => exact parse_refuse (by simp [step, hi, ha])
  | c => exact parse_flag s _ (str "-c") rest ⟨.letter 'c' true, .last .assemble⟩ (by decide) (by decide) (by decide) (fun _ => rfl)
  | S => exact parse_flag s _ (str "-S") rest ⟨.letter 'S' true, .last .codegen⟩ (by decide) (by decide) (by decide) (fun _ => rfl)
  | E => exact parse_flag s _ (str "-E") rest ⟨.letter 'E' true, .last .preprocess⟩ (by decide) (by decide) (by decide) (fun _ => rfl)
  | emitQbe => exact parse_flag s _ (str "-emit-qbe") rest ⟨.exact (str "-emit-qbe"), .last .compile⟩ (by decide) (by decide) (by decide) (fun _ => rfl)
  | define v => exact parse_joined s 'D' .preprocess (str "-D") v d rest rfl fm_D h
  | undef v => exact parse_joined s 'U' .preprocess (str "-U") v d rest rfl fm_U h
  | incdir v => exact parse_joined s 'I' .preprocess (str "-I") v d rest rfl fm_I h
  | libdir v => exact parse_joined s 'L' .link (str "-L") v d rest rfl fm_L h
  | lib v =>
    exact parse_with s 'l' .lib v d rest
      (fun s v => .ok { s with inputs := s.inputs ++ [⟨v, [.link], .obj, true⟩] }) fm_l (fun _ _ => rfl) h
  | output v =>
    exact parse_with s 'o' .output v d rest (fun s v => .ok { s with output := some v }) fm_o (fun _ _ => rfl) h
  | lang l =>
    have := parse_with s 'x' .lang l d rest
      (fun s v => match langTable.lookup v with
        | some ft => .ok { s with ftype := ft }
        | none => .error (.usage .unknownLang)) fm_x (fun _ _ => rfl) h
    rw [show Item.render (.lang l) d = joinedOrSep ['-', 'x'] l d from rfl, this]
    simp only [upd]
  | inc k v =>
    cases k with
    | include_ => exact parse_sep s (str "-include") v rest (by decide) (by decide)
    | idirafter => exact parse_sep s (str "-idirafter") v rest (by decide) (by decide)
    | isystem => exact parse_sep s (str "-isystem") v rest (by decide) (by decide)
    | iquote => exact parse_sep s (str "-iquote") v rest (by decide) (by decide)
  | strip => exact parse_flag s _ (str "-s") rest ⟨.letter 's' true, .add .link [.lit (str "-s")]⟩ (by decide) (by decide) (by decide) (fun _ => rfl)
  | verbose => exact parse_flag s _ (str "-v") rest ⟨.letter 'v' true, .verbose⟩ (by decide) (by decide) (by decide) (fun _ => rfl)
  | static_ => exact parse_flag s _ (str "-static") rest ⟨.exact (str "-static"), .add .link [.self]⟩ (by decide) (by decide) (by decide) (fun _ => rfl)
  | nostdlib => exact parse_flag s _ (str "-nostdlib") rest ⟨.exact (str "-nostdlib"), .nostdlib⟩ (by decide) (by decide) (by decide) (fun _ => rfl)
  | nostdinc => exact parse_flag s _ (str "-nostdinc") rest ⟨.exact (str "-nostdinc"), .add .preprocess [.self]⟩ (by decide) (by decide) (by decide) (fun _ => rfl)
  | pthread => exact parse_flag s _ (str "-pthread") rest ⟨.exact (str "-pthread"), .add .link [.lit (str "-l"), .lit (str "pthread")]⟩ (by decide) (by decide) (by decide) (fun _ => rfl)
  | wtool t args =>
    have hw : ((t == .cpp || t == .as || t == .ld) && args != [] && args.all (fun a => !a.contains ',')) = true := h
    simp only [Bool.and_eq_true, Bool.or_eq_true, beq_iff_eq, bne_iff_ne, ne_eq, List.all_eq_true,
      Bool.not_eq_true', List.contains_eq_mem, decide_eq_false_iff_not] at hw
    obtain ⟨⟨ht, hne⟩, hall⟩ := hw
    have hsplit := splitComma_joinComma args hne hall
    have key : ∀ (c : Char) (st : Stage), wTable.lookup c = some st →
        parse s (('-'::'W'::c::','::joinComma args) :: rest) = parse (s.addTo st args) rest := by
      intro c st hl
      refine parse_next ?_
      rw [step_opt s _ _ _ rfl (fm_W _) rfl]
      simp only [applyAct, List.drop, hl, hsplit]
    rcases ht with (rfl | rfl) | rfl
    · exact key 'p' .preprocess rfl
    · exact key 'a' .assemble rfl
    · exact key 'l' .link rfl
  | ineff i =>
    cases i with
    | g sfx => exact parse_flag s s ('-'::'g'::sfx) rest _ rfl (fm_g sfx) rfl (fun _ => rfl)
    | O sfx => exact parse_flag s s ('-'::'O'::sfx) rest _ rfl (fm_O sfx) rfl (fun _ => rfl)
    | pipe => exact parse_flag s s (str "-pipe") rest ⟨.exact (str "-pipe"), .ignore⟩ (by decide) (by decide) (by decide) (fun _ => rfl)
    | pedantic => exact parse_flag s s (str "-pedantic") rest ⟨.exact (str "-pedantic"), .ignore⟩ (by decide) (by decide) (by decide) (fun _ => rfl)
    | warn sfx =>
      refine parse_flag s s ('-'::'W'::sfx) rest _ rfl (fm_W sfx) rfl (fun _ => ?_)
      cases sfx with
      | nil => rfl
      | cons a t =>
        cases t with
        | nil => rfl
        | cons b r =>
          have hb : b ≠ ',' := by
            intro e; subst e; exact absurd h (by simp [Item.WF])
          simp only [applyAct, List.drop]
          split
          · rename_i heq
            simp only [List.cons.injEq] at heq
            exact absurd heq.2.1 hb
          · rfl
  | std v => exact parse_flag s _ ('-'::'s'::'t'::'d'::'='::v) rest _ rfl (fm_std v) rfl (fun _ => rfl)
  | dep dk =>
    cases dk with
    | M => exact parse_flag s _ (str "-M") rest ⟨.exact (str "-M"), .addLast .preprocess [.self] .preprocess⟩ (by decide) (by decide) (by decide) (fun _ => rfl)
    | MM => exact parse_flag s _ (str "-MM") rest ⟨.exact (str "-MM"), .addLast .preprocess [.self] .preprocess⟩ (by decide) (by decide) (by decide) (fun _ => rfl)
    | MD => exact parse_flag s _ (str "-MD") rest ⟨.exact (str "-MD"), .add .preprocess [.self]⟩ (by decide) (by decide) (by decide) (fun _ => rfl)
    | MMD => exact parse_flag s _ (str "-MMD") rest ⟨.exact (str "-MMD"), .add .preprocess [.self]⟩ (by decide) (by decide) (by decide) (fun _ => rfl)
  | depArg tg v =>
    cases tg with
    | true => exact parse_sep s (str "-MT") v rest (by decide) (by decide)
    | false => exact parse_sep s (str "-MF") v rest (by decide) (by decide)
  | noLineMarkers sfx => exact parse_flag s _ ('-'::'P'::sfx) rest _ rfl (fm_P sfx) rfl (fun _ => rfl)

theorem parse_cmd (s : PState) (c : Cmd) (h : c.WF = true) : parse s c.argv = updAll s c.items := by
  induction c generalizing s with
  | nil => simp [Cmd.argv, Cmd.items, updAll, parse_nil]
  | cons p c ih =>
    obtain ⟨it, d⟩ := p
    have hp : Item.WF (it, d) = true ∧ Cmd.WF c = true := by
      simpa [Cmd.WF, List.all_cons] using h
    show parse s (it.render d ++ Cmd.argv c) = updAll s (it :: Cmd.items c)
    rw [parse_item s it d _ hp.1]
    simp only [updAll]
    cases upd s it with
    | ok s' => exact ih s' hp.2
    | error e => rfl

end CprocVerif.DriverLemmas

import CprocVerif.Model.Linkage
import CprocVerif.Spec.Link

/-!
# C09 — simulation between `Model/Linkage.lean` and `Spec/Link.lean`

Plan: every quantity the spec computes from the whole annotated history `A` is an *aggregate*
(`Agg`, a finite record of `any`/`all`/`head?`/`getLast?` values).  The aggregates of `d :: A` are a
function of `d` and the aggregates of `A` (`aggs_cons`).  The model's per-scope entries (plus a few
ghost bits, `Ghost`) determine the aggregates (`G`); one finite case analysis (`step_sim`,
`decide +kernel` over all entries × ghost bits × forms) shows that a model step keeps that
correspondence, accepts what the spec accepts, rejects what the spec says violates a constraint,
and prints what the spec prescribes.  Induction over the history does the rest.
-/
namespace CprocVerif.Linkage
open CprocVerif.Link

/-! ## `∀` over the finite vocabulary is decidable -/

section Forall
variable {α : Type}

instance decForallKind {p : Kind → Prop} [DecidablePred p] : Decidable (∀ x, p x) :=
  decidable_of_iff (p .obj ∧ p .func)
    ⟨fun h x => by cases x; exact h.1; exact h.2, fun h => ⟨h _, h _⟩⟩

instance decForallScope {p : Scope → Prop} [DecidablePred p] : Decidable (∀ x, p x) :=
  decidable_of_iff (p .file ∧ p .block ∧ p .nested)
    ⟨fun h x => by cases x; exact h.1; exact h.2.1; exact h.2.2, fun h => ⟨h _, h _, h _⟩⟩

instance decForallSC {p : SC → Prop} [DecidablePred p] : Decidable (∀ x, p x) :=
  decidable_of_iff (p .none ∧ p .static ∧ p .extern)
    ⟨fun h x => by cases x; exact h.1; exact h.2.1; exact h.2.2, fun h => ⟨h _, h _, h _⟩⟩

instance decForallLabel {p : Label → Prop} [DecidablePred p] : Decidable (∀ x, p x) :=
  decidable_of_iff (p .a ∧ p .b)
    ⟨fun h x => by cases x; exact h.1; exact h.2, fun h => ⟨h _, h _⟩⟩

instance decForallLink {p : Link → Prop} [DecidablePred p] : Decidable (∀ x, p x) :=
  decidable_of_iff (p .none ∧ p .intern ∧ p .extern)
    ⟨fun h x => by cases x; exact h.1; exact h.2.1; exact h.2.2, fun h => ⟨h _, h _, h _⟩⟩

instance decForallDur {p : Dur → Prop} [DecidablePred p] : Decidable (∀ x, p x) :=
  decidable_of_iff (p .static ∧ p .thread ∧ p .auto)
    ⟨fun h x => by cases x; exact h.1; exact h.2.1; exact h.2.2, fun h => ⟨h _, h _, h _⟩⟩

instance decForallBool' {p : Bool → Prop} [DecidablePred p] : Decidable (∀ x, p x) :=
  decidable_of_iff (p false ∧ p true)
    ⟨fun h x => by cases x; exact h.1; exact h.2, fun h => ⟨h _, h _⟩⟩

instance decForallOption {p : Option α → Prop} [DecidablePred p]
    [Decidable (∀ a, p (some a))] : Decidable (∀ x, p x) :=
  decidable_of_iff (p none ∧ ∀ a, p (some a))
    ⟨fun h x => by cases x; exact h.1; exact h.2 _, fun h => ⟨h _, fun _ => h _⟩⟩

instance decForallPair {β : Type} {p : α × β → Prop} [DecidablePred p]
    [Decidable (∀ a b, p (a, b))] : Decidable (∀ x, p x) :=
  decidable_of_iff (∀ a b, p (a, b)) ⟨fun h x => by cases x; exact h _ _, fun h _ _ => h _⟩

instance decForallForm {p : Form → Prop} [DecidablePred p] : Decidable (∀ x, p x) :=
  decidable_of_iff (∀ k sc fl s hd a, p ⟨k, sc, fl, s, hd, a⟩)
    ⟨fun h x => by cases x; exact h _ _ _ _ _ _, fun h _ _ _ _ _ _ => h _⟩

instance decForallEnt {p : Ent → Prop} [DecidablePred p] : Decidable (∀ x, p x) :=
  decidable_of_iff (∀ k l d t i du a, p ⟨k, l, d, t, i, du, a, ()⟩)
    ⟨fun h x => by cases x; exact h _ _ _ _ _ _ _, fun h _ _ _ _ _ _ _ => h _⟩

end Forall

/-! ## Aggregates of an annotated history -/

/-- what the judgements ask about a list of same-scope declarations -/
structure MAgg where
  isEmpty : Bool
  kindNeObj : Bool
  kindNeFunc : Bool
  anyNone : Bool
  flagNeT : Bool
  flagNeF : Bool
deriving DecidableEq, Repr

def mAgg (M : List Decl) : MAgg :=
  { isEmpty := M.isEmpty,
    kindNeObj := M.any (fun d => d.form.kind ≠ .obj),
    kindNeFunc := M.any (fun d => d.form.kind ≠ .func),
    anyNone := M.any (fun d => d.link = .none),
    flagNeT := M.any (fun d => d.form.kind = .obj ∧ d.form.flag ≠ true),
    flagNeF := M.any (fun d => d.form.kind = .obj ∧ d.form.flag ≠ false) }

def MAgg.kindNe (m : MAgg) : Kind → Bool
  | .obj => m.kindNeObj
  | .func => m.kindNeFunc

def MAgg.flagNe (m : MAgg) : Bool → Bool
  | true => m.flagNeT
  | false => m.flagNeF

theorem mAgg_kindNe (M : List Decl) (k : Kind) :
    (M.any fun d => d.form.kind ≠ k) = (mAgg M).kindNe k := by cases k <;> rfl

theorem mAgg_flagNe (M : List Decl) (b : Bool) :
    (M.any fun d => d.form.kind = .obj ∧ d.form.flag ≠ b) = (mAgg M).flagNe b := by cases b <;> rfl

/-- one more declaration in front of a list of mates -/
def MAgg.cons (d : Decl) (m : MAgg) : MAgg :=
  { isEmpty := false,
    kindNeObj := decide (d.form.kind ≠ .obj) || m.kindNeObj,
    kindNeFunc := decide (d.form.kind ≠ .func) || m.kindNeFunc,
    anyNone := decide (d.link = .none) || m.anyNone,
    flagNeT := decide (d.form.kind = .obj ∧ d.form.flag ≠ true) || m.flagNeT,
    flagNeF := decide (d.form.kind = .obj ∧ d.form.flag ≠ false) || m.flagNeF }

theorem mAgg_cons (d : Decl) (M : List Decl) : mAgg (d :: M) = (mAgg M).cons d := by
  simp [mAgg, MAgg.cons, List.any_cons]

def MAgg.nil : MAgg := mAgg []

/-- Everything `judge`, `judgeEnd`, `symbolsRev` read off the annotated history. -/
@[ext] structure Agg where
  fileM : MAgg
  blockM : MAgg
  /-- linkage of the latest file-scope declaration -/
  fileLink : Option Link
  /-- linkage of the latest declaration -/
  headLink : Option Link
  /-- aggregates of the declarations with linkage -/
  linkedM : MAgg
  linkNeIntern : Bool
  linkNeExtern : Bool
  label : Option Label
  hasDef : Bool
  /-- an inline function declaration with external linkage -/
  inlExt : Bool
  /-- a file-scope object declaration without definition and without `extern` -/
  fTent : Bool
  /-- all file-scope function declarations are `inline` without `extern` -/
  fPure : Bool
  /-- kind and linkage of the latest declaration with linkage -/
  lHead : Option (Kind × Link)
  /-- a thread-local object declaration with linkage -/
  lThread : Bool
  /-- file scope, object, `_Thread_local`, no initialiser, no `extern` -/
  fThreadTent : Bool
deriving DecidableEq, Repr

def aggs (A : List Decl) : Agg :=
  { fileM := mAgg (mates .file A),
    blockM := mAgg (mates .block A),
    fileLink := (A.find? Decl.atFile).map (·.link),
    headLink := A.head?.map (·.link),
    linkedM := mAgg (linkedDecls A),
    linkNeIntern := (linkedDecls A).any (fun d => d.link ≠ .intern),
    linkNeExtern := (linkedDecls A).any (fun d => d.link ≠ .extern),
    label := entityLabel A,
    hasDef := hasDefinition A,
    inlExt := A.any (fun d => d.form.kind = .func ∧ d.link = .extern ∧ d.form.flag),
    fTent := (A.filter Decl.atFile).any (fun d => d.form.kind = .obj ∧ ¬ d.form.hasDef ∧ d.form.sc ≠ .extern),
    fPure := (A.filter Decl.atFile).all (fun d => d.form.kind = .func → d.form.flag ∧ d.form.sc ≠ .extern),
    lHead := (linkedDecls A).head?.map (fun d => (d.form.kind, d.link)),
    lThread := (linkedDecls A).any (fun d => d.form.kind = .obj ∧ d.form.flag),
    fThreadTent := A.any (fun d => d.form.kind = .obj ∧ d.form.scope = .file ∧ d.form.flag ∧
                      ¬ d.form.hasDef ∧ d.form.sc ≠ .extern) }

def Agg.mates (a : Agg) : Scope → MAgg
  | .file => a.fileM
  | .block => a.blockM
  | .nested => MAgg.nil

def Agg.visLink (a : Agg) (f : Form) : Option Link :=
  if f.scope = .file then a.fileLink else a.headLink

def Agg.linkNe (a : Agg) : Link → Bool
  | .none => true   -- never consulted
  | .intern => a.linkNeIntern
  | .extern => a.linkNeExtern

/-- `judge` on aggregates. -/
def judgeA (f : Form) (a : Agg) : Verdict :=
  let l := c11Link f (a.visLink f)
  let M := a.mates f.scope
  let L := a.linkedM
  if f.kind = .func ∧ f.hasDef ∧ f.scope ≠ .file then .violates .syntaxNestedDefinition
  else if f.kind = .func ∧ f.hasDef ∧ f.asm.isSome then .violates .syntaxLabelOnDefinition
  else if f.kind = .func ∧ f.scope ≠ .file ∧ f.sc = .static then .violates .c6_7_1p7_blockFunctionStorage
  else if f.kind = .obj ∧ f.scope ≠ .file ∧ f.flag ∧ f.sc = .none then .violates .c6_7_1p3_blockThreadLocal
  else if M.kindNe f.kind then .violates .c6_7p3_sameScopeKind
  else if (l = .none ∧ ¬ M.isEmpty) ∨ M.anyNone then .violates .c6_7p3_noLinkageRedeclared
  else if l ≠ .none ∧ f.scope ≠ .file ∧ f.kind = .obj ∧ f.hasDef then .violates .c6_7_9p5_blockExternInit
  else if f.kind = .obj ∧ M.flagNe f.flag then .violates .c6_7_1p3_threadMismatchSameScope
  else if l ≠ .none ∧ L.kindNe f.kind then .undefined .c6_2_7p2_kindAcrossScopes
  else if l ≠ .none ∧ a.linkNe l then .undefined .c6_2_2p7_internalAndExternal
  else if f.kind = .obj ∧ l ≠ .none ∧ a.fileM.flagNe f.flag then .violates .c6_7_1p3_threadMismatchFileScope
  else if f.kind = .obj ∧ l ≠ .none ∧ L.flagNe f.flag then .violates .c6_7_1p3_threadMismatchUnseenBlockExtern
  else if f.scope = .file ∧ f.hasDef ∧ a.hasDef then
    (if l = .intern then .violates .c6_9p3_internalRedefined else .undefined .c6_9p5_externalRedefined)
  else if f.asm.isSome ∧ l = .none then .unspecified .asmLabel
  else if f.asm.isSome ∧ L.isEmpty ∧ f.scope ≠ .file then .unspecified .asmLabel
  else if f.asm.isSome ∧ ¬ L.isEmpty ∧ a.label ≠ f.asm then .unspecified .asmLabel
  else .ok

theorem aggs_mates (A : List Decl) (sc : Scope) : (aggs A).mates sc = mAgg (mates sc A) := by
  cases sc <;> rfl

theorem aggs_visLink (A : List Decl) (f : Form) : (aggs A).visLink f = visLink f A := by
  simp only [Agg.visLink, visLink, aggs]

theorem aggs_linkNe (A : List Decl) (l : Link) (h : l ≠ .none) :
    ((linkedDecls A).any fun d => d.link ≠ l) = (aggs A).linkNe l := by
  cases l
  · exact absurd rfl h
  · rfl
  · rfl

theorem judge_eq (f : Form) (A : List Decl) : judge f A = judgeA f (aggs A) := by
  unfold judge judgeA
  simp only [mAgg_kindNe, mAgg_flagNe, aggs_mates, aggs_visLink]
  have h1 : ∀ l, (l ≠ Link.none ∧ ((linkedDecls A).any fun d => decide (d.link ≠ l)) = true) ↔
      (l ≠ .none ∧ (aggs A).linkNe l = true) :=
    fun l => and_congr_right fun h => by rw [aggs_linkNe A l h]
  simp only [h1]
  rfl

/-- aggregates after one more declaration -/
def aggCons (d : Decl) (a : Agg) : Agg :=
  { fileM := if d.atFile then a.fileM.cons d else a.fileM,
    blockM := (match d.form.scope with
      | .file => MAgg.nil
      | .nested => MAgg.nil.cons d
      | .block => a.blockM.cons d),
    fileLink := if d.atFile then some d.link else a.fileLink,
    headLink := some d.link,
    linkedM := if d.linked then a.linkedM.cons d else a.linkedM,
    linkNeIntern := (d.linked && decide (d.link ≠ .intern)) || a.linkNeIntern,
    linkNeExtern := (d.linked && decide (d.link ≠ .extern)) || a.linkNeExtern,
    label := if d.linked then (if a.linkedM.isEmpty then d.form.asm else a.label) else a.label,
    hasDef := (d.atFile && d.form.hasDef) || a.hasDef,
    inlExt := decide (d.form.kind = .func ∧ d.link = .extern ∧ d.form.flag) || a.inlExt,
    fTent := (d.atFile && decide (d.form.kind = .obj ∧ ¬ d.form.hasDef ∧ d.form.sc ≠ .extern)) || a.fTent,
    fPure := if d.atFile then decide (d.form.kind = .func → d.form.flag ∧ d.form.sc ≠ .extern) && a.fPure else a.fPure,
    lHead := if d.linked then some (d.form.kind, d.link) else a.lHead,
    lThread := (d.linked && decide (d.form.kind = .obj ∧ d.form.flag)) || a.lThread,
    fThreadTent := decide (d.form.kind = .obj ∧ d.form.scope = .file ∧ d.form.flag ∧
                      ¬ d.form.hasDef ∧ d.form.sc ≠ .extern) || a.fThreadTent }

theorem entityLabel_cons (d : Decl) (A : List Decl) :
    entityLabel (d :: A) =
      if d.linked then (if (linkedDecls A).isEmpty then d.form.asm else entityLabel A)
      else entityLabel A := by
  unfold entityLabel linkedDecls
  by_cases h : d.linked
  · simp only [List.filter_cons, h, if_true]
    cases hL : List.filter Decl.linked A with
    | nil => simp
    | cons x xs => simp [List.getLast?_cons_cons]
  · simp [h]

theorem mates_block_cons (d : Decl) (A : List Decl) :
    mates .block (d :: A) = (match d.form.scope with
      | .file => []
      | .nested => [d]
      | .block => d :: mates .block A) := by
  show blockMates (d :: A) = _
  unfold blockMates
  cases d.form.scope <;> rfl

theorem aggs_cons (d : Decl) (A : List Decl) : aggs (d :: A) = aggCons d (aggs A) := by
  apply Agg.ext
  · show mAgg (mates .file (d :: A)) = if d.atFile then (mAgg (mates .file A)).cons d else _
    by_cases hf : d.atFile <;> simp [mates, hf, mAgg_cons] <;> rfl
  · show mAgg (mates .block (d :: A)) = _
    rw [mates_block_cons]
    simp only [aggCons]
    cases d.form.scope <;> simp only [mAgg_cons, MAgg.nil] <;> rfl
  · show ((d :: A).find? Decl.atFile).map (·.link) = if d.atFile then some d.link else _
    by_cases hf : d.atFile <;> simp [hf] <;> rfl
  · rfl
  · show mAgg (linkedDecls (d :: A)) = if d.linked then (mAgg (linkedDecls A)).cons d else _
    by_cases hl : d.linked <;> simp [linkedDecls, hl, mAgg_cons] <;> rfl
  · show (linkedDecls (d :: A)).any _ = _
    by_cases hl : d.linked <;> simp [linkedDecls, hl, aggCons, aggs]
  · show (linkedDecls (d :: A)).any _ = _
    by_cases hl : d.linked <;> simp [linkedDecls, hl, aggCons, aggs]
  · show entityLabel (d :: A) = _
    rw [entityLabel_cons]; rfl
  · show hasDefinition (d :: A) = _
    simp [hasDefinition, aggCons, aggs]
  · simp [aggs, aggCons]
  · show ((d :: A).filter Decl.atFile).any _ = _
    by_cases hf : d.atFile <;> simp [hf, aggCons, aggs]
  · show ((d :: A).filter Decl.atFile).all _ = _
    by_cases hf : d.atFile <;> simp [hf, aggCons, aggs]
  · show (linkedDecls (d :: A)).head?.map _ = _
    by_cases hl : d.linked <;> simp [linkedDecls, hl, aggCons, aggs]
  · show (linkedDecls (d :: A)).any _ = _
    by_cases hl : d.linked <;> simp [linkedDecls, hl, aggCons, aggs]
  · simp [aggs, aggCons]

/-! ## From the model's scope entries to the aggregates -/

/-- The aggregates the model keeps no record of (or only a coarser one). -/
structure Ghost where
  fdef : Bool
  ftent : Bool
  fpure : Bool
  linl : Bool
  lent : Option (Kind × Link)
  lthread : Bool
  label : Option Label
deriving DecidableEq, Repr

def ghostOf (a : Agg) : Ghost :=
  { fdef := a.hasDef, ftent := a.fTent, fpure := a.fPure, linl := a.inlExt, lent := a.lHead,
    lthread := a.lThread, label := a.label }

instance decForallGhost {p : Ghost → Prop} [DecidablePred p] : Decidable (∀ x, p x) :=
  decidable_of_iff (∀ a b c d k l lt la, p ⟨a, b, c, d, (k : Option Kind).bind (fun k' => (l : Option Link).map (fun l' => (k', l'))), lt, la⟩ ∧ True)
    ⟨fun h x => by
      rcases x with ⟨a, b, c, d, e, lt, la⟩
      rcases e with _ | ⟨k, l⟩
      · exact (h a b c d none none lt la).1
      · exact (h a b c d (some k) (some l) lt la).1,
     fun h _ _ _ _ _ _ _ _ => ⟨h _, trivial⟩⟩

/-- aggregates of the same-scope declarations summarised by one scope entry -/
def entM : Option Ent → MAgg
  | none => MAgg.nil
  | some e =>
    { isEmpty := false,
      kindNeObj := decide (e.kind ≠ .obj),
      kindNeFunc := decide (e.kind ≠ .func),
      anyNone := decide (e.link = .none),
      flagNeT := decide (e.kind = .obj ∧ e.dur ≠ .thread),
      flagNeF := decide (e.kind = .obj ∧ e.dur = .thread) }

def lentM (g : Ghost) : MAgg :=
  match g.lent with
  | none => MAgg.nil
  | some (k, _) =>
    { isEmpty := false,
      kindNeObj := decide (k ≠ .obj),
      kindNeFunc := decide (k ≠ .func),
      anyNone := false,
      flagNeT := decide (k = .obj ∧ g.lthread = false),
      flagNeF := decide (k = .obj ∧ g.lthread = true) }

/-- The aggregates determined by the file-scope entry, the innermost block's entry and the ghost. -/
def G (file top : Option Ent) (g : Ghost) : Agg :=
  { fileM := entM file,
    blockM := entM top,
    fileLink := file.map (·.link),
    headLink := (match top with | some t => some t.link | none => file.map (·.link)),
    linkedM := lentM g,
    linkNeIntern := (match g.lent with | some (_, l) => decide (l ≠ .intern) | none => false),
    linkNeExtern := (match g.lent with | some (_, l) => decide (l ≠ .extern) | none => false),
    label := g.label,
    hasDef := g.fdef,
    inlExt := g.linl,
    fTent := g.ftent,
    fPure := g.fpure,
    lHead := g.lent,
    lThread := g.lthread,
    fThreadTent := (match file with
      | some e => decide (e.kind = .obj ∧ e.dur = .thread) && g.ftent
      | none => false) }

def validFile (file : Option Ent) (g : Ghost) : Bool :=
  match file with
  | none => !g.fdef && !g.ftent && g.fpure && g.label.isNone
  | some e =>
    decide (e.link ≠ .none) && decide (g.lent = some (e.kind, e.link)) && decide (e.asm = g.label) &&
    (match e.kind with
     | .obj =>
       decide (e.dur ≠ .auto) && decide (g.lthread = decide (e.dur = .thread)) &&
       decide (e.defined = (g.fdef || (decide (e.dur = .thread) && g.ftent))) &&
       (!e.tentative || (g.ftent && decide (e.dur = .static))) &&
       (!(g.ftent && !e.defined && decide (e.dur = .static)) || e.tentative) && !e.inlinedefn && g.fpure
     | .func =>
       decide (e.dur = .static) && !g.lthread && decide (e.defined = g.fdef) && !e.tentative && !g.ftent &&
       decide (e.inlinedefn = (decide (e.link = .extern) && g.fpure)))

def validTop (top : Option Ent) (g : Ghost) : Bool :=
  match top with
  | none => true
  | some t =>
    !t.tentative &&
    (if t.link = .none then
      decide (t.kind = .obj) && t.asm.isNone && t.defined && !t.inlinedefn
     else
      decide (g.lent = some (t.kind, t.link)) && decide (t.asm = g.label) && !t.defined &&
      (match t.kind with
       | .obj => decide (t.dur ≠ .auto) && decide (g.lthread = decide (t.dur = .thread)) && !t.inlinedefn
       | .func => decide (t.dur = .static)))

def validGhost (g : Ghost) : Bool :=
  match g.lent with
  | none => g.label.isNone && !g.linl && !g.lthread
  | some (k, l) => decide (l ≠ .none) && (!g.lthread || decide (k = .obj)) &&
      (!g.linl || (decide (k = .func) && decide (l = .extern)))

def valid (file top : Option Ent) (g : Ghost) : Bool :=
  validGhost g && validFile file g && validTop top g

/-- the three lookups after entering the scope of a form -/
def viewOf (file top : Option Ent) : Scope → View
  | .file => { same := file, parent := none, file := file }
  | .block => (match top with
    | some t => { same := some t, parent := file, file := file }
    | none => { same := none, parent := file, file := file })
  | .nested => (match top with
    | some t => { same := none, parent := some t, file := file }
    | none => { same := none, parent := file, file := file })

/-! ## What the spec expects to have been printed -/

/-- shape of the entity's definition per `mainSyms`: (isFunc, exported, thread, zero) -/
def mainA (a : Agg) : Option (Bool × Bool × Bool × Bool) :=
  match a.lHead with
  | none => none
  | some (k, lk) =>
    match k with
    | .obj =>
      if a.hasDef then some (false, decide (lk = .extern), a.lThread, false)
      else if a.fTent then some (false, decide (lk = .extern), a.lThread, true)
      else none
    | .func =>
      if a.hasDef ∧ ¬ (lk = .extern ∧ a.fPure) then some (true, decide (lk = .extern), false, false)
      else none

/-- a tentative definition of a non-thread-local object is still waiting for the end of the unit -/
def pendingA (a : Agg) : Bool :=
  match a.lHead with
  | some (.obj, _) => !a.hasDef && a.fTent && !a.lThread
  | _ => false

def emittedA (a : Agg) : Option (Bool × Bool × Bool × Bool) :=
  if pendingA a then none else mainA a

def devTStep (f : Form) (a : Agg) : Bool :=
  decide (f.kind = .obj ∧ f.scope = .file ∧ f.flag ∧ f.hasDef) && a.fThreadTent

def devIStep (f : Form) (a : Agg) : Bool :=
  decide (f.kind = .func ∧ f.scope = .file ∧ ¬ pureInline f) && a.hasDef && a.fPure

/-- effects of a step against what the spec expects -/
def outOK (f : Form) (a a' : Agg) (l : Link) (e : Eff) : Bool :=
  decide (e.ent.link = l) &&
  decide (e.global.isNone = (decide (l = .none) && !(decide (f.kind = .obj) && decide (f.sc = .static)))) &&
  (a.linkedM.isEmpty || (decide (a'.lThread = a.lThread) && decide (a'.label = a.label))) &&
  -- block-scope statics / automatic objects
  (if l = .none then
     decide (e.ent.asm = none) &&
     decide (e.emit.isSome = (decide (f.kind = .obj) && decide (f.sc = .static))) &&
     (!e.emit.isSome || (decide (e.emit = some (false, !f.hasDef)) && decide ((e.ent.dur = .thread) = f.flag)
        && e.global.isSome)) &&
     decide (emittedA a' = emittedA a) && decide (a'.label = a.label) && decide (a'.lThread = a.lThread) &&
     decide (a'.linkedM.isEmpty = a.linkedM.isEmpty)
   else
     -- the entity with linkage
     decide (e.ent.asm = a'.label) && decide (e.global = some a'.lThread) && !a'.linkedM.isEmpty &&
     (match e.emit with
      | some (isF, z) =>
        (emittedA a).isNone &&
        decide (emittedA a' = some (isF, decide (e.ent.link = .extern), !isF && decide (e.ent.dur = .thread), z))
      | none => devIStep f a || decide (emittedA a' = emittedA a)))

def isError {α} : Except Err α → Bool
  | .error _ => true
  | .ok _ => false

/-- The finite heart of the simulation: one declaration, from any valid abstract state. -/
def stepCheck (file top : Option Ent) (g : Ghost) (f : Form) : Bool :=
  let a := G file top g
  let l := c11Link f (a.visLink f)
  let a' := aggCons ⟨f, l⟩ a
  let fs : Bool := f.scope = .file
  match judgeA f a with
  | .ok =>
    if devTStep f a then isError (declare (viewOf file top f.scope) f)
    else match declare (viewOf file top f.scope) f with
      | .error _ => false
      | .ok e =>
        let file' := if fs then some e.ent else file
        let top' := if fs then none else some e.ent
        valid file' top' (ghostOf a') && decide (G file' top' (ghostOf a') = a') && outOK f a a' l e
  | .violates c =>
    decide (c = .c6_7_1p3_threadMismatchUnseenBlockExtern) || isError (declare (viewOf file top f.scope) f)
  | .undefined c =>
    -- the model also rejects a second external definition (6.9p5), although C11 does not require it
    decide (c ≠ .c6_9p5_externalRedefined) || isError (declare (viewOf file top f.scope) f)
  | _ => true

/-- End of unit: `emittentativedefns` prints exactly the pending tentative definition. -/
def finishCheck (file top : Option Ent) (g : Ghost) : Bool :=
  let a := G file top g
  match file with
  | none => !pendingA a
  | some d =>
    decide ((d.tentative && !d.defined) = pendingA a) &&
    (!pendingA a || (decide (mainA a = some (false, decide (d.link = .extern), decide (d.dur = .thread), true)) &&
      decide (d.asm = a.label) && decide (d.link ≠ .none) && (emittedA a).isNone)) &&
    (pendingA a || decide (emittedA a = mainA a))

/-! ## Enumerating the abstract states -/

def allBool : List Bool := [false, true]
def allKind : List Kind := [.obj, .func]
def allLink : List Link := [.none, .intern, .extern]
def allDur : List Dur := [.static, .thread, .auto]
def allLabel : List (Option Label) := [none, some .a, some .b]
def allSC : List SC := [.none, .static, .extern]
def allScope : List Scope := [.file, .block, .nested]
def allEnt : List (Option Ent) := none ::
  allKind.flatMap fun k => allLink.flatMap fun l => allBool.flatMap fun d => allBool.flatMap fun t =>
  allBool.flatMap fun i => allDur.flatMap fun du => allLabel.map fun a => some ⟨k, l, d, t, i, du, a, ()⟩
def allForm : List Form :=
  allKind.flatMap fun k => allSC.flatMap fun sc => allBool.flatMap fun fl => allScope.flatMap fun s =>
  allBool.flatMap fun hd => allLabel.map fun a => ⟨k, sc, fl, s, hd, a⟩
def allLent : List (Option (Kind × Link)) :=
  none :: (allKind.flatMap fun k => allLink.map fun l => some (k, l))

theorem mem_allBool (b : Bool) : b ∈ allBool := by cases b <;> simp [allBool]
theorem mem_allKind (b : Kind) : b ∈ allKind := by cases b <;> simp [allKind]
theorem mem_allLink (b : Link) : b ∈ allLink := by cases b <;> simp [allLink]
theorem mem_allDur (b : Dur) : b ∈ allDur := by cases b <;> simp [allDur]
theorem mem_allSC (b : SC) : b ∈ allSC := by cases b <;> simp [allSC]
theorem mem_allScope (b : Scope) : b ∈ allScope := by cases b <;> simp [allScope]
theorem mem_allLabel (b : Option Label) : b ∈ allLabel := by
  rcases b with _ | b
  · simp [allLabel]
  · cases b <;> simp [allLabel]

theorem mem_allEnt (e : Option Ent) : e ∈ allEnt := by
  rcases e with _ | ⟨k, l, d, t, i, du, a, ⟨⟩⟩
  · simp [allEnt]
  · simp only [allEnt, List.mem_cons, List.mem_flatMap, List.mem_map]
    exact Or.inr ⟨k, mem_allKind k, l, mem_allLink l, d, mem_allBool d, t, mem_allBool t, i, mem_allBool i,
      du, mem_allDur du, a, mem_allLabel a, rfl⟩

theorem mem_allForm (f : Form) : f ∈ allForm := by
  rcases f with ⟨k, sc, fl, s, hd, a⟩
  simp only [allForm, List.mem_flatMap, List.mem_map]
  exact ⟨k, mem_allKind k, sc, mem_allSC sc, fl, mem_allBool fl, s, mem_allScope s, hd, mem_allBool hd,
    a, mem_allLabel a, rfl⟩

theorem mem_allLent (e : Option (Kind × Link)) : e ∈ allLent := by
  rcases e with _ | ⟨k, l⟩
  · simp [allLent]
  · simp only [allLent, List.mem_cons, List.mem_flatMap, List.mem_map]
    exact Or.inr ⟨k, mem_allKind k, l, mem_allLink l, rfl⟩

/-- the forms rejected whatever came before (first four clauses of `judge`) -/
def localViol (f : Form) : Bool :=
  decide (f.kind = .func ∧ f.hasDef ∧ f.scope ≠ .file) || decide (f.kind = .func ∧ f.hasDef ∧ f.asm.isSome) ||
  decide (f.kind = .func ∧ f.scope ≠ .file ∧ f.sc = .static) ||
  decide (f.kind = .obj ∧ f.scope ≠ .file ∧ f.flag ∧ f.sc = .none)

/-- candidates for the file-scope entry, given the ghost -/
def filesFor (g : Ghost) : List (Option Ent) :=
  (none :: (match g.lent with
    | none => []
    | some (k, l) => allBool.flatMap fun df => allBool.flatMap fun t => allDur.map fun du =>
        some ⟨k, l, df, t, decide (k = .func) && decide (l = .extern) && g.fpure, du, g.label, ()⟩)).filter
    (validFile · g)

/-- candidates for the innermost block's entry, given the ghost -/
def topsFor (g : Ghost) : List (Option Ent) :=
  ((none :: allDur.map fun du => some ⟨.obj, .none, true, false, false, du, none, ()⟩) ++
    (match g.lent with
     | none => []
     | some (k, l) => allBool.flatMap fun i => allDur.map fun du =>
        some ⟨k, l, false, false, i, du, g.label, ()⟩)).filter (validTop · g)

theorem mem_filesFor {file : Option Ent} {g : Ghost} (h : validFile file g = true) :
    file ∈ filesFor g := by
  refine List.mem_filter.2 ⟨?_, h⟩
  rcases file with _ | ⟨k, l, df, t, i, du, a, ⟨⟩⟩
  · simp
  · rcases g with ⟨g1, g2, g3, g4, lent, lt, la⟩
    cases k <;> simp only [validFile, Bool.and_eq_true, decide_eq_true_eq, Bool.not_eq_true',
      Bool.or_eq_true] at h
    · obtain ⟨⟨⟨_, rfl⟩, rfl⟩, ⟨⟨⟨⟨⟨⟨_, _⟩, _⟩, _⟩, _⟩, hi⟩, _⟩⟩ := h
      subst hi
      simp [List.mem_flatMap, mem_allBool, mem_allDur]
    · obtain ⟨⟨⟨_, rfl⟩, rfl⟩, ⟨⟨⟨⟨⟨_, _⟩, _⟩, _⟩, _⟩, hi⟩⟩ := h
      simp [hi, List.mem_flatMap, mem_allBool, mem_allDur]

theorem mem_topsFor {top : Option Ent} {g : Ghost} (h : validTop top g = true) :
    top ∈ topsFor g := by
  refine List.mem_filter.2 ⟨?_, h⟩
  rcases top with _ | ⟨k, l, df, t, i, du, a, ⟨⟩⟩
  · simp
  · rcases g with ⟨g1, g2, g3, g4, lent, lt, la⟩
    simp only [validTop, Bool.and_eq_true, Bool.not_eq_true'] at h
    obtain ⟨rfl, h⟩ := h
    by_cases hl : l = .none
    · subst hl
      simp only [if_true, Bool.and_eq_true, decide_eq_true_eq, Option.isNone_iff_eq_none,
        Bool.not_eq_true'] at h
      obtain ⟨⟨⟨rfl, rfl⟩, rfl⟩, rfl⟩ := h
      simp [mem_allDur]
    · simp only [hl, if_false, Bool.and_eq_true, decide_eq_true_eq, Bool.not_eq_true'] at h
      obtain ⟨⟨⟨rfl, rfl⟩, rfl⟩, _⟩ := h
      simp [List.mem_flatMap, mem_allBool, mem_allDur]

/-- `stepCheck` on every valid abstract state whose ghost has the given `lent`, `lthread`, `fdef`,
and every form that is not rejected outright. -/
def simAll (lent : Option (Kind × Link)) (lt fdef : Bool) : Bool :=
  allBool.all fun ftent => allBool.all fun fpure => allBool.all fun linl => allLabel.all fun la =>
    let g : Ghost := ⟨fdef, ftent, fpure, linl, lent, lt, la⟩
    !validGhost g || (filesFor g).all fun file => (topsFor g).all fun top =>
      (allForm.filter (fun f => !localViol f)).all fun f => stepCheck file top g f

def finAll : Bool :=
  allLent.all fun lent => allBool.all fun lt => allBool.all fun fdef =>
  allBool.all fun ftent => allBool.all fun fpure => allBool.all fun linl => allLabel.all fun la =>
    let g : Ghost := ⟨fdef, ftent, fpure, linl, lent, lt, la⟩
    !validGhost g || (filesFor g).all fun file => (topsFor g).all fun top => finishCheck file top g

theorem finAll_spec (h : finAll = true) (g : Ghost) (file top : Option Ent)
    (hv : valid file top g = true) : finishCheck file top g = true := by
  rcases g with ⟨fdef, ftent, fpure, linl, lent, lt, la⟩
  simp only [valid, Bool.and_eq_true] at hv
  simp only [finAll, List.all_eq_true, Bool.or_eq_true, Bool.not_eq_true'] at h
  rcases h lent (mem_allLent _) lt (mem_allBool _) fdef (mem_allBool _) ftent (mem_allBool _)
    fpure (mem_allBool _) linl (mem_allBool _) la (mem_allLabel _) with h1 | h1
  · simp [hv.1.1] at h1
  · exact h1 file (mem_filesFor hv.1.2) top (mem_topsFor hv.2)

theorem simAll_spec {lent : Option (Kind × Link)} {lt fdef : Bool} (h : simAll lent lt fdef = true)
    (ftent fpure linl : Bool) (la : Option Label) (file top : Option Ent) (f : Form)
    (hv : valid file top ⟨fdef, ftent, fpure, linl, lent, lt, la⟩ = true) (hf : localViol f = false) :
    stepCheck file top ⟨fdef, ftent, fpure, linl, lent, lt, la⟩ f = true := by
  simp only [valid, Bool.and_eq_true] at hv
  simp only [simAll, List.all_eq_true, Bool.or_eq_true, Bool.not_eq_true'] at h
  rcases h ftent (mem_allBool _) fpure (mem_allBool _) linl (mem_allBool _) la (mem_allLabel _) with h1 | h1
  · simp [hv.1.1] at h1
  · exact h1 file (mem_filesFor hv.1.2) top (mem_topsFor hv.2) f
      (List.mem_filter.2 ⟨mem_allForm _, by simp [hf]⟩)

end CprocVerif.Linkage

/-
  C01 — the value-representation invariant `Rep` and the per-operator lemmas: each instruction
  chosen by `funcexpr`, executed on representations of the operand values, does not trap and yields
  a representation of the value C11 prescribes (`Spec/CInt.bin`, `un`, `conv`).
-/
import CprocVerif.Lemmas.LowerArith

set_option linter.unusedSimpArgs false

namespace CprocVerif.LowerArith
open CprocVerif.Qbe CprocVerif.CSem CprocVerif.CInt CprocVerif.Lower

/-! ## The invariant

A value `v` of a C type of size 8 sits in a temporary usable at class `l` whose 64 bits are
`v mod 2^64`.  A value of a type of size `s ≤ 4` sits in a temporary usable at class `w`
(kind `w`, or `l` after a narrowing cast — `convert` emits nothing for those — or an integer
literal) whose low `8·s` bits are `v mod 2^(8s)`; the bits above are NOT specified (after
`(char)x` the temporary still holds all of `x`).  -/

def WRep (n : Nat) (v : Int) (r : RVal) : Prop :=
  ∃ x, r.asW = .ok x ∧ (x.toNat : Int) % 2 ^ n = v % 2 ^ n

def LRep (v : Int) (r : RVal) : Prop :=
  ∃ x, r.asL = .ok x ∧ (x.toNat : Int) = v % 2 ^ 64

def Rep (t : CSem.Ty) (v : Int) (r : RVal) : Prop :=
  if t.size = 8 then LRep v r else WRep (8 * t.size) v r

/-! ## Ranges -/

theorem inRange32s (a : Int) : InRange ⟨32, true⟩ a ↔ -2 ^ 31 ≤ a ∧ a ≤ 2 ^ 31 - 1 := by
  simp [InRange, minVal, maxVal]
theorem inRange32u (a : Int) : InRange ⟨32, false⟩ a ↔ 0 ≤ a ∧ a ≤ 2 ^ 32 - 1 := by
  simp [InRange, minVal, maxVal]
theorem inRange64s (a : Int) : InRange ⟨64, true⟩ a ↔ -2 ^ 63 ≤ a ∧ a ≤ 2 ^ 63 - 1 := by
  simp [InRange, minVal, maxVal]
theorem inRange64u (a : Int) : InRange ⟨64, false⟩ a ↔ 0 ≤ a ∧ a ≤ 2 ^ 64 - 1 := by
  simp [InRange, minVal, maxVal]

theorem arith32s (z v : Int) :
    arith ⟨32, true⟩ z = some v ↔ (-2 ^ 31 ≤ z ∧ z ≤ 2 ^ 31 - 1) ∧ v = z := by
  simp [arith, inRange32s]; intro _ _; exact eq_comm
theorem arith32u (z v : Int) : arith ⟨32, false⟩ z = some v ↔ v = z % 2 ^ 32 := by
  simp [arith, wrap]; exact eq_comm
theorem arith64s (z v : Int) :
    arith ⟨64, true⟩ z = some v ↔ (-2 ^ 63 ≤ z ∧ z ≤ 2 ^ 63 - 1) ∧ v = z := by
  simp [arith, inRange64s]; intro _ _; exact eq_comm
theorem arith64u (z v : Int) : arith ⟨64, false⟩ z = some v ↔ v = z % 2 ^ 64 := by
  simp [arith, wrap]; exact eq_comm

theorem arith_mod32 (sg : Bool) {z v : Int} (h : arith ⟨32, sg⟩ z = some v) :
    v % 2 ^ 32 = z % 2 ^ 32 := by
  cases sg
  · rw [arith32u] at h; omega
  · rw [arith32s] at h; omega

theorem arith_mod64 (sg : Bool) {z v : Int} (h : arith ⟨64, sg⟩ z = some v) :
    v % 2 ^ 64 = z % 2 ^ 64 := by
  cases sg
  · rw [arith64u] at h; omega
  · rw [arith64s] at h; omega

theorem wrap_mod32 (sg : Bool) (z : Int) : wrap ⟨32, sg⟩ z % 2 ^ 32 = z % 2 ^ 32 := by
  cases sg <;> simp [wrap] <;> omega
theorem wrap_mod64 (sg : Bool) (z : Int) : wrap ⟨64, sg⟩ z % 2 ^ 64 = z % 2 ^ 64 := by
  cases sg <;> simp [wrap] <;> omega
theorem wrap_mod16 (sg : Bool) (z : Int) : wrap ⟨16, sg⟩ z % 2 ^ 16 = z % 2 ^ 16 := by
  cases sg <;> simp [wrap] <;> omega
theorem wrap_mod8 (sg : Bool) (z : Int) : wrap ⟨8, sg⟩ z % 2 ^ 8 = z % 2 ^ 8 := by
  cases sg <;> simp [wrap] <;> omega

theorem mul_emod32 (x y a b : Int) (hx : x % 2 ^ 32 = a % 2 ^ 32) (hy : y % 2 ^ 32 = b % 2 ^ 32) :
    (x * y) % 2 ^ 32 = (a * b) % 2 ^ 32 := by
  rw [Int.mul_emod, hx, hy, ← Int.mul_emod]

theorem mul_emod64 (x y a b : Int) (hx : x % 2 ^ 64 = a % 2 ^ 64) (hy : y % 2 ^ 64 = b % 2 ^ 64) :
    (x * y) % 2 ^ 64 = (a * b) % 2 ^ 64 := by
  rw [Int.mul_emod, hx, hy, ← Int.mul_emod]

/-! ## The C value behind a word -/

theorem w_val_u {a : Int} {x : UInt64} (hx : x.toNat < 2 ^ 32)
    (h : (x.toNat : Int) % 2 ^ 32 = a % 2 ^ 32) (ha : InRange ⟨32, false⟩ a) :
    (x.toNat : Int) = a := by
  rw [inRange32u] at ha; omega

theorem w_val_s {a : Int} {x : UInt64}
    (h : (x.toNat : Int) % 2 ^ 32 = a % 2 ^ 32) (ha : InRange ⟨32, true⟩ a) :
    x.toUInt32.toInt32.toInt = a := by
  rw [inRange32s] at ha
  rw [u32_toInt, bmod32, UInt64.toNat_toUInt32]
  split <;> omega

theorem l_val_u {a : Int} {x : UInt64} (h : (x.toNat : Int) = a % 2 ^ 64)
    (ha : InRange ⟨64, false⟩ a) : (x.toNat : Int) = a := by
  rw [inRange64u] at ha; omega

theorem l_val_s {a : Int} {x : UInt64} (h : (x.toNat : Int) = a % 2 ^ 64)
    (ha : InRange ⟨64, true⟩ a) : x.toInt64.toInt = a := by
  rw [inRange64s] at ha
  rw [u64_toInt, bmod64]
  have := x.toNat_lt
  split <;> omega

theorem u32_ne_zero {y : UInt64} (h : y.toNat % 2 ^ 32 ≠ 0) : (y.toUInt32 == 0) = false := by
  rw [beq_eq_false_iff_ne]
  intro h0
  have : y.toUInt32.toNat = (0 : UInt32).toNat := by rw [h0]
  rw [UInt64.toNat_toUInt32] at this
  exact h this

theorem u32_ne' {y : UInt64} (c : UInt32) (n : Nat) (hc : c.toNat = n)
    (h : y.toNat % 2 ^ 32 ≠ n) : (y.toUInt32 == c) = false := by
  rw [beq_eq_false_iff_ne]
  intro h0
  have : y.toUInt32.toNat = c.toNat := by rw [h0]
  rw [UInt64.toNat_toUInt32, hc] at this
  exact h this

theorem u64_ne_zero {y : UInt64} (h : y.toNat ≠ 0) : (y == 0) = false := by
  rw [beq_eq_false_iff_ne]
  intro h0
  subst h0
  exact h rfl

/-! ## `* / % + - & | ^` on `int`-sized operands -/

theorem finish_w {o : Op} (ho : IsArith o) {ra rb : RVal} {x y z : UInt64} {v : Int} (M : Mem)
    (va : Option ByteArray) (hx : ra.asW = .ok x) (hy : rb.asW = .ok y)
    (hz : arith2 o .w x y = .ok z) (hzv : (z.toNat : Int) % 2 ^ 32 = v % 2 ^ 32) :
    ∃ r, execOp o (some .w) [ra, rb] M va = .ok (r, M) ∧ WRep 32 v r :=
  ⟨_, exec_arith ho M va (k := .w) hx hy hz, _, rfl, by
    show ((z &&& mask32).toNat : Int) % 2 ^ 32 = _
    rw [toNat_and_mask32]; omega⟩

theorem finish_l {o : Op} (ho : IsArith o) {ra rb : RVal} {x y z : UInt64} {v : Int} (M : Mem)
    (va : Option ByteArray) (hx : ra.asL = .ok x) (hy : rb.asL = .ok y)
    (hz : arith2 o .l x y = .ok z) (hzv : (z.toNat : Int) = v % 2 ^ 64) :
    ∃ r, execOp o (some .l) [ra, rb] M va = .ok (r, M) ∧ LRep v r :=
  ⟨_, exec_arith ho M va (k := .l) hx hy hz, _, rfl, hzv⟩

theorem bits_w (sg : Bool) (f : Nat → Nat → Nat) {a b : Int} {x y : UInt64} {n : Nat}
    (hxl : x.toNat < 2 ^ 32) (hyl : y.toNat < 2 ^ 32)
    (hxa : (x.toNat : Int) % 2 ^ 32 = a % 2 ^ 32) (hyb : (y.toNat : Int) % 2 ^ 32 = b % 2 ^ 32)
    (hn : n = f x.toNat y.toNat) :
    (n : Int) % 2 ^ 32 =
      ofBits ⟨32, sg⟩ (f (toBits ⟨32, sg⟩ a) (toBits ⟨32, sg⟩ b)) % 2 ^ 32 := by
  have h1 : toBits ⟨32, sg⟩ a = x.toNat := by
    simp only [toBits]; omega
  have h2 : toBits ⟨32, sg⟩ b = y.toNat := by
    simp only [toBits]; omega
  rw [h1, h2, ofBits, wrap_mod32, hn]

theorem bits_l (sg : Bool) (f : Nat → Nat → Nat) {a b : Int} {x y : UInt64} {n : Nat}
    (hxa : (x.toNat : Int) = a % 2 ^ 64) (hyb : (y.toNat : Int) = b % 2 ^ 64)
    (hn : n = f x.toNat y.toNat) (hlt : n < 2 ^ 64) :
    (n : Int) = ofBits ⟨64, sg⟩ (f (toBits ⟨64, sg⟩ a) (toBits ⟨64, sg⟩ b)) % 2 ^ 64 := by
  have h1 : toBits ⟨64, sg⟩ a = x.toNat := by
    simp only [toBits]; omega
  have h2 : toBits ⟨64, sg⟩ b = y.toNat := by
    simp only [toBits]; omega
  rw [h1, h2, ofBits, wrap_mod64, hn]
  omega

theorem bin_w (sg : Bool) (op : BinOp) (hop : op.isCmp = false ∧ op.isShift = false)
    {a b v : Int} {ra rb : RVal} (M : Mem) (va : Option ByteArray)
    (ha : InRange ⟨32, sg⟩ a) (hb : InRange ⟨32, sg⟩ b)
    (hra : WRep 32 a ra) (hrb : WRep 32 b rb) (hv : bin op ⟨32, sg⟩ a b = some v) :
    ∃ r, execOp (binOpSel sg true op) (some .w) [ra, rb] M va = .ok (r, M) ∧ WRep 32 v r := by
  obtain ⟨x, hx, hxa⟩ := hra
  obtain ⟨y, hy, hyb⟩ := hrb
  have hxl := asW_lt hx
  have hyl := asW_lt hy
  cases op <;> simp only [BinOp.isCmp, BinOp.isShift, and_self, Bool.true_eq_false, and_false,
    Bool.false_eq_true, false_and] at hop
  case mul =>
    have hv' := arith_mod32 sg hv
    refine finish_w (by simp [IsArith, binOpSel]) M va hx hy rfl ?_
    simp only [UInt32.toNat_toUInt64, UInt32.toNat_mul, UInt64.toNat_toUInt32]
    rw [hv', ← mul_emod32 _ _ _ _ hxa hyb, Nat.mod_eq_of_lt hxl, Nat.mod_eq_of_lt hyl]
    omega
  case add =>
    have hv' := arith_mod32 sg hv
    refine finish_w (by simp [IsArith, binOpSel]) M va hx hy rfl ?_
    simp only [UInt32.toNat_toUInt64, UInt32.toNat_add, UInt64.toNat_toUInt32]
    omega
  case sub =>
    have hv' := arith_mod32 sg hv
    refine finish_w (by simp [IsArith, binOpSel]) M va hx hy rfl ?_
    simp only [UInt32.toNat_toUInt64, UInt32.toNat_sub, UInt64.toNat_toUInt32]
    omega
  case band =>
    simp only [bin, Option.some.injEq] at hv
    subst hv
    refine finish_w (by simp [IsArith, binOpSel]) M va hx hy rfl ?_
    exact bits_w sg (· &&& ·) hxl hyl hxa hyb (by
      simp only [UInt32.toNat_toUInt64, UInt32.toNat_and, UInt64.toNat_toUInt32,
        Nat.mod_eq_of_lt hxl, Nat.mod_eq_of_lt hyl])
  case bor =>
    simp only [bin, Option.some.injEq] at hv
    subst hv
    refine finish_w (by simp [IsArith, binOpSel]) M va hx hy rfl ?_
    exact bits_w sg (· ||| ·) hxl hyl hxa hyb (by
      simp only [UInt32.toNat_toUInt64, UInt32.toNat_or, UInt64.toNat_toUInt32,
        Nat.mod_eq_of_lt hxl, Nat.mod_eq_of_lt hyl])
  case bxor =>
    simp only [bin, Option.some.injEq] at hv
    subst hv
    refine finish_w (by simp [IsArith, binOpSel]) M va hx hy rfl ?_
    exact bits_w sg (· ^^^ ·) hxl hyl hxa hyb (by
      simp only [UInt32.toNat_toUInt64, UInt32.toNat_xor, UInt64.toNat_toUInt32,
        Nat.mod_eq_of_lt hxl, Nat.mod_eq_of_lt hyl])
  case div =>
    simp only [bin] at hv
    split at hv
    · cases hv
    rename_i hb0
    cases sg
    · -- unsigned
      have hxv := w_val_u hxl hxa ha
      have hyv := w_val_u hyl hyb hb
      rw [arith32u] at hv
      have hy0 : (y.toUInt32 == 0) = false := u32_ne_zero (by omega)
      refine finish_w (o := .udiv) (by simp [IsArith, binOpSel]) M va hx hy
        (by simp only [arith2, hy0]; rfl) ?_
      simp only [UInt32.toNat_toUInt64, UInt32.toNat_div, UInt64.toNat_toUInt32,
        Nat.mod_eq_of_lt hxl, Nat.mod_eq_of_lt hyl]
      rw [hv, ← hxv, ← hyv, Int.tdiv_eq_ediv_of_nonneg (by omega), Int.natCast_ediv]
      omega
    · -- signed
      have hxv := w_val_s hxa ha
      have hyv := w_val_s hyb hb
      rw [arith32s] at hv
      obtain ⟨hr, rfl⟩ := hv
      rw [inRange32s] at ha hb
      have hy0 : (y.toUInt32 == 0) = false := u32_ne_zero (by omega)
      have hov : (y.toUInt32 == 0xffffffff) = false ∨ (x.toUInt32 == 0x80000000) = false := by
        by_cases hb1 : b = -1
        · right
          refine u32_ne' _ 2147483648 (by decide) ?_
          intro hxx
          have : a = -2 ^ 31 := by omega
          subst this; subst hb1
          revert hr; decide
        · left
          exact u32_ne' _ 4294967295 (by decide) (by omega)
      refine finish_w (o := .div) (by simp [IsArith, binOpSel]) M va hx hy
        (z := (x.toUInt32.toInt32 / y.toUInt32.toInt32).toUInt32.toUInt64) ?_ ?_
      · simp only [arith2, hy0]
        rcases hov with h | h <;> simp [h]
      · rw [UInt32.toNat_toUInt64, i32_back, Int32.toInt_div, hxv, hyv, bmod32]
        split <;> omega
  case mod =>
    simp only [bin] at hv
    split at hv
    · cases hv
    rename_i hb0
    cases sg
    · -- unsigned
      have hxv := w_val_u hxl hxa ha
      have hyv := w_val_u hyl hyb hb
      simp only [Bool.false_eq_true, false_and, if_false, Option.some.injEq] at hv
      have hy0 : (y.toUInt32 == 0) = false := u32_ne_zero (by omega)
      refine finish_w (o := .urem) (by simp [IsArith, binOpSel]) M va hx hy
        (by simp only [arith2, hy0]; rfl) ?_
      simp only [UInt32.toNat_toUInt64, UInt32.toNat_mod, UInt64.toNat_toUInt32,
        Nat.mod_eq_of_lt hxl, Nat.mod_eq_of_lt hyl]
      rw [← hv, ← hxv, ← hyv, Int.tmod_eq_emod_of_nonneg (by omega), Int.natCast_emod]
    · -- signed
      have hxv := w_val_s hxa ha
      have hyv := w_val_s hyb hb
      simp only [true_and] at hv
      split at hv
      · cases hv
      rename_i hr
      simp only [Option.some.injEq] at hv
      subst hv
      simp only [Decidable.not_not] at hr
      rw [inRange32s] at ha hb hr
      have hy0 : (y.toUInt32 == 0) = false := u32_ne_zero (by omega)
      have hov : (y.toUInt32 == 0xffffffff) = false ∨ (x.toUInt32 == 0x80000000) = false := by
        by_cases hb1 : b = -1
        · right
          refine u32_ne' _ 2147483648 (by decide) ?_
          intro hxx
          have : a = -2 ^ 31 := by omega
          subst this; subst hb1
          revert hr; decide
        · left
          exact u32_ne' _ 4294967295 (by decide) (by omega)
      refine finish_w (o := .rem) (by simp [IsArith, binOpSel]) M va hx hy
        (z := (x.toUInt32.toInt32 % y.toUInt32.toInt32).toUInt32.toUInt64) ?_ ?_
      · simp only [arith2, hy0]
        rcases hov with h | h <;> simp [h]
      · rw [UInt32.toNat_toUInt64, i32_back, Int32.toInt_mod, hxv, hyv]
        omega

theorem u64_ne' {y : UInt64} (c : UInt64) (n : Nat) (hc : c.toNat = n)
    (h : y.toNat ≠ n) : (y == c) = false := by
  rw [beq_eq_false_iff_ne]
  intro h0
  subst h0
  exact h hc

theorem bin_l (sg : Bool) (op : BinOp) (hop : op.isCmp = false ∧ op.isShift = false)
    {a b v : Int} {ra rb : RVal} (M : Mem) (va : Option ByteArray)
    (ha : InRange ⟨64, sg⟩ a) (hb : InRange ⟨64, sg⟩ b)
    (hra : LRep a ra) (hrb : LRep b rb) (hv : bin op ⟨64, sg⟩ a b = some v) :
    ∃ r, execOp (binOpSel sg false op) (some .l) [ra, rb] M va = .ok (r, M) ∧ LRep v r := by
  obtain ⟨x, hx, hxa⟩ := hra
  obtain ⟨y, hy, hyb⟩ := hrb
  have hxl := x.toNat_lt
  have hyl := y.toNat_lt
  cases op <;> simp only [BinOp.isCmp, BinOp.isShift, and_self, Bool.true_eq_false, and_false,
    Bool.false_eq_true, false_and] at hop
  case mul =>
    have hv' := arith_mod64 sg hv
    refine finish_l (by simp [IsArith, binOpSel]) M va hx hy rfl ?_
    simp only [UInt64.toNat_mul]
    rw [hv', ← mul_emod64 x.toNat y.toNat a b (by omega) (by omega)]
    omega
  case add =>
    have hv' := arith_mod64 sg hv
    refine finish_l (by simp [IsArith, binOpSel]) M va hx hy rfl ?_
    simp only [UInt64.toNat_add]
    omega
  case sub =>
    have hv' := arith_mod64 sg hv
    refine finish_l (by simp [IsArith, binOpSel]) M va hx hy rfl ?_
    simp only [UInt64.toNat_sub]
    omega
  case band =>
    simp only [bin, Option.some.injEq] at hv
    subst hv
    refine finish_l (by simp [IsArith, binOpSel]) M va hx hy rfl ?_
    exact bits_l sg (· &&& ·) hxa hyb (by simp only [UInt64.toNat_and])
      (Nat.and_lt_two_pow _ hyl)
  case bor =>
    simp only [bin, Option.some.injEq] at hv
    subst hv
    refine finish_l (by simp [IsArith, binOpSel]) M va hx hy rfl ?_
    exact bits_l sg (· ||| ·) hxa hyb (by simp only [UInt64.toNat_or])
      (Nat.or_lt_two_pow hxl hyl)
  case bxor =>
    simp only [bin, Option.some.injEq] at hv
    subst hv
    refine finish_l (by simp [IsArith, binOpSel]) M va hx hy rfl ?_
    exact bits_l sg (· ^^^ ·) hxa hyb (by simp only [UInt64.toNat_xor])
      (Nat.xor_lt_two_pow hxl hyl)
  case div =>
    simp only [bin] at hv
    split at hv
    · cases hv
    rename_i hb0
    cases sg
    · -- unsigned
      have hxv := l_val_u hxa ha
      have hyv := l_val_u hyb hb
      rw [arith64u] at hv
      have hy0 : (y == 0) = false := u64_ne_zero (by omega)
      refine finish_l (o := .udiv) (by simp [IsArith, binOpSel]) M va hx hy
        (by simp only [arith2, hy0]; rfl) ?_
      simp only [UInt64.toNat_div]
      rw [hv, ← hxv, ← hyv, Int.tdiv_eq_ediv_of_nonneg (by omega), ← Int.natCast_ediv]
      have h2 : x.toNat / y.toNat ≤ x.toNat := Nat.div_le_self _ _
      generalize x.toNat / y.toNat = q at *
      omega
    · -- signed
      have hxv := l_val_s hxa ha
      have hyv := l_val_s hyb hb
      rw [arith64s] at hv
      obtain ⟨hr, rfl⟩ := hv
      rw [inRange64s] at ha hb
      have hy0 : (y == 0) = false := u64_ne_zero (by omega)
      have hov : (y == 0xffffffffffffffff) = false ∨ (x == 0x8000000000000000) = false := by
        by_cases hb1 : b = -1
        · right
          refine u64_ne' _ 9223372036854775808 (by decide) ?_
          intro hxx
          have : a = -2 ^ 63 := by omega
          subst this; subst hb1
          revert hr; decide
        · left
          exact u64_ne' _ 18446744073709551615 (by decide) (by omega)
      refine finish_l (o := .div) (by simp [IsArith, binOpSel]) M va hx hy
        (z := (x.toInt64 / y.toInt64).toUInt64) ?_ ?_
      · simp only [arith2, hy0]
        rcases hov with h | h <;> simp [h]
      · rw [i64_back, Int64.toInt_div, hxv, hyv, bmod64]
        split <;> omega
  case mod =>
    simp only [bin] at hv
    split at hv
    · cases hv
    rename_i hb0
    cases sg
    · -- unsigned
      have hxv := l_val_u hxa ha
      have hyv := l_val_u hyb hb
      simp only [Bool.false_eq_true, false_and, if_false, Option.some.injEq] at hv
      have hy0 : (y == 0) = false := u64_ne_zero (by omega)
      refine finish_l (o := .urem) (by simp [IsArith, binOpSel]) M va hx hy
        (by simp only [arith2, hy0]; rfl) ?_
      simp only [UInt64.toNat_mod]
      rw [← hv, ← hxv, ← hyv, Int.tmod_eq_emod_of_nonneg (by omega), ← Int.natCast_emod]
      have h2 : x.toNat % y.toNat < y.toNat := Nat.mod_lt _ (by omega)
      omega
    · -- signed
      have hxv := l_val_s hxa ha
      have hyv := l_val_s hyb hb
      simp only [true_and] at hv
      split at hv
      · cases hv
      rename_i hr
      simp only [Option.some.injEq] at hv
      subst hv
      simp only [Decidable.not_not] at hr
      rw [inRange64s] at ha hb hr
      have hy0 : (y == 0) = false := u64_ne_zero (by omega)
      have hov : (y == 0xffffffffffffffff) = false ∨ (x == 0x8000000000000000) = false := by
        by_cases hb1 : b = -1
        · right
          refine u64_ne' _ 9223372036854775808 (by decide) ?_
          intro hxx
          have : a = -2 ^ 63 := by omega
          subst this; subst hb1
          revert hr; decide
        · left
          exact u64_ne' _ 18446744073709551615 (by decide) (by omega)
      refine finish_l (o := .rem) (by simp [IsArith, binOpSel]) M va hx hy
        (z := (x.toInt64 % y.toInt64).toUInt64) ?_ ?_
      · simp only [arith2, hy0]
        rcases hov with h | h <;> simp [h]
      · rw [i64_back, Int64.toInt_mod, hxv, hyv]

end CprocVerif.LowerArith

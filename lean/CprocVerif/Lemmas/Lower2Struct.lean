/-
  C01, fragment 𝔽₂ — structural facts about `Lower2.funcexpr2` (the expression lowering with a slot map):
  the statements of `Lemmas/LowerStruct.lean` for `Lower.funcexpr`, which do not depend on where a
  variable is loaded from.
-/
import CprocVerif.Lemmas.LowerStruct
import CprocVerif.Model.Lower2

namespace CprocVerif.LowerMach2
open CprocVerif.Qbe CprocVerif.Lower CprocVerif.Lower2 CprocVerif.CSem CprocVerif.CInt
open CprocVerif.LowerMach

/-! ## Equations of `funcexpr2` with named parts -/

theorem funcexpr2_logic (cs : Bool) (σ : List Nat) (op : BinOp) (hop : isLogic op = true) (t : CSem.Ty) (l r : Expr)
    (c : Ctx) :
    ∃ ol oj or ov : Out,
      ol = funcexpr2 cs σ l c ∧
      oj = jnzArg cs ⟨ol.ctx.lastid, ol.ctx.blockid + 2, ol.ctx.cur⟩ l.ty ol.val ∧
      or = funcexpr2 cs σ r ⟨oj.ctx.lastid, oj.ctx.blockid, lblName "logic_right" (ol.ctx.blockid + 1)⟩ ∧
      ov = convert cs or.ctx .bool r.ty or.val ∧
      funcexpr2 cs σ (.bin op t l r) c =
        ⟨ol.items ++ oj.items ++
          [.lbl (some (if (op == .lor) = true
              then Jump.jnz oj.val (lblName "logic_join" (ol.ctx.blockid + 2))
                (lblName "logic_right" (ol.ctx.blockid + 1))
              else Jump.jnz oj.val (lblName "logic_right" (ol.ctx.blockid + 1))
                (lblName "logic_join" (ol.ctx.blockid + 2))))
            (lblName "logic_right" (ol.ctx.blockid + 1)) []] ++ or.items ++ ov.items ++
          [.lbl none (lblName "logic_join" (ol.ctx.blockid + 2))
            [⟨tmpName (ov.ctx.lastid + 1), .w,
              [(oj.ctx.cur, .int (if (op == .lor) = true then 1 else 0)), (ov.ctx.cur, ov.val)]⟩]],
         .tmp (tmpName (ov.ctx.lastid + 1)),
         ⟨ov.ctx.lastid + 1, ov.ctx.blockid, lblName "logic_join" (ol.ctx.blockid + 2)⟩⟩ := by
  refine ⟨_, _, _, _, rfl, rfl, rfl, rfl, ?_⟩
  simp only [funcexpr2, hop, if_true]

theorem funcexpr2_arith (cs : Bool) (σ : List Nat) (op : BinOp) (hop : isLogic op = false) (t : CSem.Ty) (l r : Expr)
    (c : Ctx) :
    funcexpr2 cs σ (.bin op t l r) c =
      ((funcexpr2 cs σ l c).seq (funcexpr2 cs σ r (funcexpr2 cs σ l c).ctx)).seq
        (funcinst (funcexpr2 cs σ r (funcexpr2 cs σ l c).ctx).ctx (binOpOf cs op l.ty) (cls t)
          [(funcexpr2 cs σ l c).val, (funcexpr2 cs σ r (funcexpr2 cs σ l c).ctx).val]) := by
  simp only [funcexpr2, hop, Bool.false_eq_true, if_false]

theorem funcexpr2_cond (cs : Bool) (σ : List Nat) (t : CSem.Ty) (e a b : Expr) (c : Ctx) :
    ∃ oc oj oa ob : Out,
      oc = funcexpr2 cs σ e ⟨c.lastid, c.blockid + 3, c.cur⟩ ∧
      oj = jnzArg cs oc.ctx e.ty oc.val ∧
      oa = funcexpr2 cs σ a ⟨oj.ctx.lastid, oj.ctx.blockid, lblName "cond_true" (c.blockid + 1)⟩ ∧
      ob = funcexpr2 cs σ b ⟨oa.ctx.lastid, oa.ctx.blockid, lblName "cond_false" (c.blockid + 2)⟩ ∧
      funcexpr2 cs σ (.cond t e a b) c =
        ⟨oc.items ++ oj.items ++
          [.lbl (some (.jnz oj.val (lblName "cond_true" (c.blockid + 1))
            (lblName "cond_false" (c.blockid + 2)))) (lblName "cond_true" (c.blockid + 1)) []] ++
          oa.items ++
          [.lbl (some (.jmp (lblName "cond_join" (c.blockid + 3))))
            (lblName "cond_false" (c.blockid + 2)) []] ++ ob.items ++
          [.lbl none (lblName "cond_join" (c.blockid + 3))
            [⟨tmpName (ob.ctx.lastid + 1), cls t, [(oa.ctx.cur, oa.val), (ob.ctx.cur, ob.val)]⟩]],
         .tmp (tmpName (ob.ctx.lastid + 1)),
         ⟨ob.ctx.lastid + 1, ob.ctx.blockid, lblName "cond_join" (c.blockid + 3)⟩⟩ := by
  exact ⟨_, _, _, _, rfl, rfl, rfl, rfl, rfl⟩

theorem funcexpr2_good (cs : Bool) (σ : List Nat) (e : Expr) : ∀ c : Ctx, Good c (funcexpr2 cs σ e c) := by
  induction e with
  | const t u => intro c; exact (Straight.refl c _).good (Or.inl ⟨_, rfl⟩)
  | param t i => intro c; exact (funcinst_straight _ _ _ _).good (funcinst_val _ _ _ _)
  | cast t e ih =>
    intro c
    exact (ih c).seq_straight (convert_straight _ _ _ _ _) (convert_val _ _ _ _ _ (ih c).val)
  | neg t e ih =>
    intro c
    exact (ih c).seq_straight (funcinst_straight _ _ _ _) (funcinst_val _ _ _ _)
  | bin op t l r ihl ihr =>
    intro c
    cases hop : isLogic op
    · rw [funcexpr2_arith cs σ op hop]
      exact ((ihl c).seq (ihr _)).seq_straight (funcinst_straight _ _ _ _) (funcinst_val _ _ _ _)
    · -- `&&`, `||`
      obtain ⟨ol, oj, or, ov, hol, hoj, hor, hov, heq⟩ := funcexpr2_logic cs σ op hop t l r c
      rw [heq]
      have gl : Good c ol := hol ▸ ihl c
      have sj : Straight _ oj := hoj ▸ jnzArg_straight _ _ _ _
      have gr : Good _ or := hor ▸ ihr _
      have sv : Straight _ ov := hov ▸ convert_straight _ _ _ _ _
      have b1 := gl.blockid; have b2 := sj.blockid; have b3 := gr.blockid; have b4 := sv.blockid
      have l1 := gl.lastid; have l2 := sj.lastid; have l3 := gr.lastid; have l4 := sv.lastid
      simp only at b2 b3 l2 l3
      refine ⟨by simp only; omega, by simp only; omega, Or.inr ⟨_, Nat.le_refl _, rfl⟩, ?_, ?_, ?_⟩
      · simp only [itemLabels_append, itemLabels, itemLabels_allIns _ sj.allIns,
          itemLabels_allIns _ sv.allIns, List.append_nil]
        refine ((((gl.labels.append (LabelsIn.single "logic_right" _ rfl) ?_).append gr.labels ?_).append
          (LabelsIn.single "logic_join" _ rfl) ?_)).weaken ?_
        · intro j h1 h2; omega
        · intro j h1 h2; simp only at h2; omega
        · intro j h1 h2; simp only at h1; omega
        · intro j h; simp only at h ⊢; omega
      · intro ol' pre hp
        simp only [← List.append_assoc]
        exact curOf_lbl _ _ _ _ _
      · intro name j hj
        exact ⟨"logic_join", _, rfl, Or.inr (by simp only; omega)⟩
  | cond t e a b ihe iha ihb =>
    intro c
    obtain ⟨oc, oj, oa, ob, hoc, hoj, hoa, hob, heq⟩ := funcexpr2_cond cs σ t e a b c
    rw [heq]
    have ge : Good _ oc := hoc ▸ ihe _
    have sj : Straight _ oj := hoj ▸ jnzArg_straight _ _ _ _
    have ga : Good _ oa := hoa ▸ iha _
    have gb : Good _ ob := hob ▸ ihb _
    have b1 := ge.blockid; have b2 := sj.blockid; have b3 := ga.blockid; have b4 := gb.blockid
    have l1 := ge.lastid; have l2 := sj.lastid; have l3 := ga.lastid; have l4 := gb.lastid
    simp only at b1 b3 b4 l1 l3 l4
    refine ⟨by simp only; omega, by simp only; omega, Or.inr ⟨_, Nat.le_refl _, rfl⟩, ?_, ?_, ?_⟩
    · simp only [itemLabels_append, itemLabels, itemLabels_allIns _ sj.allIns, List.append_nil]
      refine ((((((ge.labels.append (LabelsIn.single "cond_true" _ rfl) ?_).append ga.labels ?_).append
        (LabelsIn.single "cond_false" _ rfl) ?_).append gb.labels ?_).append
        (LabelsIn.single "cond_join" _ rfl) ?_)).weaken ?_
      · intro j h1 h2; simp only at h1; omega
      · intro j h1 h2; simp only at h1 h2; omega
      · intro j h1 h2; simp only at h1; omega
      · intro j h1 h2; simp only at h1 h2; omega
      · intro j h1 h2; simp only at h1; omega
      · intro j h; simp only at h ⊢; omega
    · intro ol' pre hp
      simp only [← List.append_assoc]
      exact curOf_lbl _ _ _ _ _
    · intro name j hj
      exact ⟨"cond_join", _, rfl, Or.inr (by simp only; omega)⟩

end CprocVerif.LowerMach2

/-
  C01, stages D/E inside expressions — the leaves of `Lemmas/Lower2Expr3a.lean` in an activation: an array read
  (address, load) and a call (arguments, `call`, the callee by `FuncSim`, the return into this frame), and with
  them `funcexpr` on an expression of a statement (`sim_exprOut3`).
-/
import CprocVerif.Lemmas.Lower2Arr

set_option linter.unusedSimpArgs false

namespace CprocVerif.LowerMach2
open CprocVerif.Qbe CprocVerif.Lower CprocVerif.Lower2 CprocVerif.CSem CprocVerif.CSem2 CprocVerif.CInt
open CprocVerif.LowerArith CprocVerif.LowerMach CprocVerif.LowerMem

/-- what the simulation of the calls of an execution with fuel `n + 1` may use: the activations of executions
    with fuel `n` — or nothing, in a single function, where no call has a meaning -/
def CallOK (T : Stat) (n : Nat) : Prop := T.P = [] ∨ (0 < T.d ∧ FuncSim T n)

/-- the static conditions on the calls and array reads of an expression (`frag` for expressions) -/
def efrag (T : Stat) (e : Expr3) : Prop := ((T.P.isEmpty || e.callsOK T.P) && e.arrsOK T.cnts) = true

theorem efrag_cast (T : Stat) (t : CSem.Ty) (e : Expr3) (h : efrag T (.cast t e)) : efrag T e := by
  simpa [efrag, Expr3.callsOK, Expr3.arrsOK] using h

theorem efrag_neg (T : Stat) (t : CSem.Ty) (e : Expr3) (h : efrag T (.neg t e)) : efrag T e := by
  simpa [efrag, Expr3.callsOK, Expr3.arrsOK] using h

theorem efrag_bin (T : Stat) (op : BinOp) (t : CSem.Ty) (l r : Expr3) (h : efrag T (.bin op t l r)) :
    efrag T l ∧ efrag T r := by
  simp only [efrag, Expr3.callsOK, Expr3.arrsOK, Bool.and_eq_true, Bool.or_eq_true] at h ⊢
  obtain ⟨h1, h2, h3⟩ := h
  rcases h1 with h1 | ⟨h1, h1'⟩
  · exact ⟨⟨Or.inl h1, h2⟩, ⟨Or.inl h1, h3⟩⟩
  · exact ⟨⟨Or.inr h1, h2⟩, ⟨Or.inr h1', h3⟩⟩

theorem efrag_comma (T : Stat) (t : CSem.Ty) (l r : Expr3) (h : efrag T (.comma t l r)) :
    efrag T l ∧ efrag T r := by
  simp only [efrag, Expr3.callsOK, Expr3.arrsOK, Bool.and_eq_true, Bool.or_eq_true] at h ⊢
  obtain ⟨h1, h2, h3⟩ := h
  rcases h1 with h1 | ⟨h1, h1'⟩
  · exact ⟨⟨Or.inl h1, h2⟩, ⟨Or.inl h1, h3⟩⟩
  · exact ⟨⟨Or.inr h1, h2⟩, ⟨Or.inr h1', h3⟩⟩

theorem efrag_cond (T : Stat) (t : CSem.Ty) (c a b : Expr3) (h : efrag T (.cond t c a b)) :
    efrag T c ∧ efrag T a ∧ efrag T b := by
  simp only [efrag, Expr3.callsOK, Expr3.arrsOK, Bool.and_eq_true, Bool.or_eq_true] at h ⊢
  obtain ⟨h1, ⟨h2, h3⟩, h4⟩ := h
  rcases h1 with h1 | ⟨⟨h1, h1'⟩, h1''⟩
  · exact ⟨⟨Or.inl h1, h2⟩, ⟨Or.inl h1, h3⟩, ⟨Or.inl h1, h4⟩⟩
  · exact ⟨⟨Or.inr h1, h2⟩, ⟨Or.inr h1', h3⟩, ⟨Or.inr h1'', h4⟩⟩

section
variable (T : Stat) {s : Store} {c : SCtx} {nd : Nat} {M : Mem}

/-- an array read inside an expression -/
theorem sim_idxleaf (env0 : Env) (inv0 : SInv T.M0 T.S.cs T.cnts T.W T.σ T.vtys s env0 M)
    (hpre : ∀ i, i < nd → T.σ.getD i 0 = c.slots.getD i 0)
    (callf : String → List Int → Option Int)
    (t : CSem.Ty) (arr n xb : Nat) (i : Expr) (k : Ctx) (pre post : List Item) (env : Env) (v : Int)
    (hok : efrag T (.idx t arr n xb i)) (hwt : (Expr3.idx t arr n xb i).wt (T.vtys.take nd) = true)
    (hev : evalE3 T.S.cs callf s (.idx t arr n xb i) = some v)
    (hits : (setM T.S M).its = pre ++ (funcexpr3 T.S.cs c.slots (.idx t arr n xb i) k).items ++ post)
    (hcur : curOf T.S.o0 pre = k.cur) (hcok : CurOK k)
    (hn : ∀ (i : Nat) (t : CSem.Ty), (T.vtys.take nd)[i]? = some t → c.slots.getD i 0 ≤ k.lastid)
    (hinv : VarsIn (setM T.S M) c.slots (T.vtys.take nd) s env ∧
      ∀ j t', (T.vtys.take nd)[j]? = some t' →
        env[tmpName (c.slots.getD j 0)]? = env0[tmpName (c.slots.getD j 0)]?) :
    RunsTo2 (setM T.S M) k.lastid (funcexpr3 T.S.cs c.slots (.idx t arr n xb i) k).ctx.lastid env pre
      (funcexpr3 T.S.cs c.slots (.idx t arr n xb i) k).items (funcexpr3 T.S.cs c.slots (.idx t arr n xb i) k).val
      (fun r => Rep t v r ∧ InRange (t.intTy T.S.cs) v) := by
  simp only [Expr3.wt, Bool.and_eq_true, beq_iff_eq] at hwt
  obtain ⟨hkt0, hwi⟩ := hwt
  obtain ⟨hkt, harr⟩ := take_sub hkt0
  simp only [efrag, Expr3.callsOK, Expr3.arrsOK, Bool.and_eq_true, decide_eq_true_eq, Bool.or_true,
    Bool.true_and] at hok
  obtain ⟨⟨hc1, hcn⟩, hxb⟩ := hok
  subst hxb
  simp only [evalE3, Option.bind_eq_some_iff] at hev
  obtain ⟨iv, hevi, hev⟩ := hev
  split at hev
  · rename_i hiv
    have hcd : T.cnts.getD arr 1 = n := by simp [List.getD, hcn]
    have he : iv.toNat < T.cnts.getD arr 1 := by rw [hcd]; omega
    have hvv : s[ecell arr (xbase T.cnts arr) iv.toNat]? = some (some v) := by
      cases h : s[ecell arr (xbase T.cnts arr) iv.toNat]? with
      | none => rw [h] at hev; cases hev
      | some o =>
        rw [h] at hev
        simp only [Option.join, Option.bind_some, id] at hev
        rw [hev]
    have hrgv : InRange (t.intTy T.S.cs) v := inv0.xrange arr iv.toNat t v hkt he hvv
    obtain ⟨a, ha1, habound, hload⟩ := inv0.a.loadAt T.S.cs (lt_of_get hkt) hkt he hvv
    have hslot : env[tmpName (c.slots.getD arr 0)]? = some ⟨.l, a⟩ := by
      rw [hinv.2 arr t hkt0, ← hpre arr harr]; exact ha1
    have hrange : ∀ (i : Nat) (t' : CSem.Ty) (v' : Int), (T.vtys.take nd)[i]? = some t' →
        s[i]? = some (some v') → InRange (t'.intTy T.S.cs) v' :=
      fun i t' v' ht hv' => inv0.range i t' v' (take_sub ht).1 hv'
    simp only [funcexpr3, Out.seq] at hits ⊢
    have hits1 : T.S.its = pre ++ (lowerAddr T.S.cs c.slots k (c.slots.getD arr 0) t i).items ++
        ((funcinst (lowerAddr T.S.cs c.slots k (c.slots.getD arr 0) t i).ctx (.load (loadOf T.S.cs t)) (cls t)
          [(lowerAddr T.S.cs c.slots k (c.slots.getD arr 0) t i).val]).items ++ post) := by
      rw [← setM_its T.S M, hits]; simp only [List.append_assoc]
    obtain ⟨n1, env1, ra, hreach1, hfr1, hval1, hra⟩ := sim_addr T c.slots (T.vtys.take nd) s M hrange k
      (c.slots.getD arr 0) t i iv a hwi hevi hiv.1 habound hits1 hcur hcok hn hinv.1 hslot
      (hn arr t hkt0)
    obtain ⟨r, hxl, hrep⟩ := hload ra hra
    have hl1 := (lowerAddr_good T.S.cs c.slots k (c.slots.getD arr 0) t i).1
    refine RunsTo2.seq (P := fun r => r = ⟨.l, ra⟩) ⟨n1, env1, hreach1, hfr1, _, hval1, rfl⟩ hl1
      (Nat.le_succ _) ?_
    intro env2 r2 _ hv2 hr2
    subst hr2
    have hits2 : (setM T.S M).its = (pre ++ (lowerAddr T.S.cs c.slots k (c.slots.getD arr 0) t i).items) ++
        (funcinst (lowerAddr T.S.cs c.slots k (c.slots.getD arr 0) t i).ctx (.load (loadOf T.S.cs t)) (cls t)
          [(lowerAddr T.S.cs c.slots k (c.slots.getD arr 0) t i).val]).items ++ post := by
      rw [hits]; simp only [List.append_assoc]
    exact run_funcinst2 (setM T.S M) _ _ _ _ hits2 (readVals_one hv2) hxl ⟨hrep, hrgv⟩
  · cases hev

/-- a call inside an expression -/
theorem sim_callleaf (n : Nat) (hc : CallOK T n) (env0 : Env)
    (inv0 : SInv T.M0 T.S.cs T.cnts T.W T.σ T.vtys s env0 M)
    (rt : CSem.Ty) (fn : String) (args : List Expr) (k : Ctx) (pre post : List Item) (env : Env) (v : Int)
    (hok : efrag T (.call rt fn args)) (hwt : (Expr3.call rt fn args).wt (T.vtys.take nd) = true)
    (hev : evalE3 T.S.cs (callOf T.P fun s' st' => exec T.S.cs T.P n s' st') s (.call rt fn args) = some v)
    (hits : (setM T.S M).its = pre ++ (funcexpr3 T.S.cs c.slots (.call rt fn args) k).items ++ post)
    (hcur : curOf T.S.o0 pre = k.cur) (hcok : CurOK k)
    (hn : ∀ (i : Nat) (t : CSem.Ty), (T.vtys.take nd)[i]? = some t → c.slots.getD i 0 ≤ k.lastid)
    (hvars : VarsIn (setM T.S M) c.slots (T.vtys.take nd) s env) :
    RunsTo2 (setM T.S M) k.lastid (funcexpr3 T.S.cs c.slots (.call rt fn args) k).ctx.lastid env pre
      (funcexpr3 T.S.cs c.slots (.call rt fn args) k).items (funcexpr3 T.S.cs c.slots (.call rt fn args) k).val
      (fun r => Rep rt v r ∧ InRange (rt.intTy T.S.cs) v) := by
  simp only [evalE3, Option.bind_eq_some_iff] at hev
  obtain ⟨vs, hvs, hcall⟩ := hev
  simp only [callOf] at hcall
  cases hlk : lookup T.P fn with
  | none => simp only [hlk] at hcall; cases hcall
  | some g =>
    simp only [hlk] at hcall
    have hne : T.P.isEmpty = false := by
      cases hP : T.P with
      | nil => rw [hP] at hlk; simp [lookup] at hlk
      | cons _ _ => rfl
    have hPne : T.P ≠ [] := by
      intro h; rw [h] at hne; simp at hne
    obtain ⟨hd, hf⟩ : 0 < T.d ∧ FuncSim T n := by
      rcases hc with h | h
      · exact absurd h hPne
      · exact h
    simp only [efrag, hne, Bool.false_or, Expr3.callsOK, hlk, Expr3.arrsOK, Bool.and_true,
      Bool.and_eq_true, beq_iff_eq, List.isEmpty_iff] at hok
    obtain ⟨⟨hret, hpar⟩, hpw⟩ := hok
    simp only [Expr3.wt] at hwt
    cases hbody : exec T.S.cs T.P n (initStore g vs) g.body with
    | none => simp only [hbody] at hcall; cases hcall
    | some ob =>
      simp only [hbody] at hcall
      cases ob with
      | normal _ => cases hcall
      | brk _ => cases hcall
      | cont _ => cases hcall
      | ret v' =>
        simp only [Option.some.injEq] at hcall
        have hvv : v = v' := hcall.symm
        subst hvv
        have hrange : ∀ (i : Nat) (t' : CSem.Ty) (w : Int), (T.vtys.take nd)[i]? = some t' →
            s[i]? = some (some w) → InRange (t'.intTy T.S.cs) w :=
          fun i t' w ht hw => inv0.range i t' w (take_sub ht).1 hw
        simp only [funcexpr3] at hits ⊢
        generalize hla : lowerArgs T.S.cs c.slots args k = la at hits ⊢
        have hits1 : T.S.its = pre ++ (lowerArgs T.S.cs c.slots args k).1 ++
            (.ins (.call (some (tmpName (la.2.2.lastid + 1), .base (cls rt))) (.glob fn false) la.2.1 none) ::
              post) := by
          rw [hla, ← setM_its T.S M, hits]; simp only [List.append_assoc, List.singleton_append]
        obtain ⟨n1, env1, rs, hreach1, hfr1, hrd1, hreps1, htys1⟩ := sim_args T c.slots (T.vtys.take nd) s M
          hrange args k pre _ env vs hwt hvs hits1 hcur hcok hn hvars
        rw [hla] at hreach1 hfr1 hrd1 htys1 hits1
        have hl1 : k.lastid ≤ la.2.2.lastid := by
          have := (lowerArgs_good T.S.cs c.slots args k).1
          rw [hla] at this; exact this
        obtain ⟨sid, hfi⟩ := T.hfuncs fn g hlk
        have henvOK : EnvOK T.S.cs g.params vs := by
          rw [← hpar]; exact evalArgs_envOK T.S.cs _ s hrange args vs hwt hvs
        rw [hpar] at hreps1
        have htys : la.2.1.map (·.1) = g.params.map (fun t => Qbe.Ty.base (cls t)) := by
          rw [htys1, ← hpar, List.map_map]; rfl
        have hroomM := T.room_at inv0
        obtain ⟨envc, henter, hargs0⟩ := enter_rep T.S.p T.S.cs sid g M la.2.1 vs rs htys hreps1
          (hroomM.sp_enter hd)
        have hstep1 := step_call_item T hits1 hrd1 hfi henter
        have hsptop : M.sp ≤ stackTop := Nat.le_trans inv0.a.sp_hi inv0.a.top
        obtain ⟨kk, st, r, hreachc, hstepc, hrr, hrg⟩ := hf.plain fn g sid vs v M
          (mkFr T.S.x env1 (posOf T.S.o0 (pre ++ la.1)).1 (posOf T.S.o0 (pre ++ la.1)).2 :: T.S.x.rest)
          T.S.x.tr envc hlk hpw henvOK inv0.a.mem hroomM hsptop hargs0 hbody
        rw [hret] at hrr hrg
        obtain ⟨r', hco, hrep'⟩ := rep_coerce hrr.1
        have hstep2 := retCont_call_item T (env := env1) (M := M) hits1 hco
        rw [← hstepc] at hstep2
        refine ⟨n1 + 1 + kk + 1, env1.insert (tmpName (la.2.2.lastid + 1)) r', ?_, ?_, r',
          readVal_insert_self _ _ _ _, hrep', hrg⟩
        · have := ((hreach1.trans (Reach.one hstep1)).trans hreachc).trans (Reach.one hstep2)
          simp only [List.append_assoc] at this ⊢
          exact this
        · exact Frame.trans hfr1 (Frame.insert env1 r' (Nat.lt_succ_self _) (Nat.le_refl _)) (Nat.le_refl _) hl1
            (Nat.le_succ _) (Nat.le_refl _)

/-- `funcexpr` on an expression of a statement (array reads and calls inside), placed after `pre`. -/
theorem sim_exprOut3 (n : Nat) (hc : CallOK T n) {pre post : List Item} (hp : Pos T c nd pre)
    (e : Expr3) (hext : Ext T (c.upd (exprOut3 T.S.cs c e).ctx))
    (hwt : e.wt (T.vtys.take nd) = true) (hok : efrag T e) {v : Int}
    (hev : evalE3 T.S.cs (callOf T.P fun s' st' => exec T.S.cs T.P n s' st') s e = some v)
    (hits : T.S.its = pre ++ (exprOut3 T.S.cs c e).items ++ post) {env : Env}
    (inv : SInv T.M0 T.S.cs T.cnts T.W T.σ T.vtys s env M) :
    ∃ m env' r, T.Reach m (T.at env M pre) (T.at env' M (pre ++ (exprOut3 T.S.cs c e).items)) ∧
      SInv T.M0 T.S.cs T.cnts T.W T.σ T.vtys s env' M ∧ Frame c.lastid (exprOut3 T.S.cs c e).ctx.lastid env env' ∧
      readVal T.S.p env' (exprOut3 T.S.cs c e).val = .ok r ∧ Rep e.ty v r ∧
      InRange (e.ty.intTy T.S.cs) v := by
  have hpre : ∀ i, i < nd → T.σ.getD i 0 = c.slots.getD i 0 := fun i hi => hext.1 i (by
    show i < c.slots.length; rw [hp.nslots]; exact hi)
  have hvars : VarsIn (setM T.S M) c.slots (T.vtys.take nd) s env := by
    intro i t v' ht hv'
    obtain ⟨ht', hi⟩ := take_sub ht
    obtain ⟨a, r, h1, h2, h3⟩ := inv.varsIn i t v' ht' hv'
    exact ⟨a, r, by rw [← hpre i hi]; exact h1, h2, h3⟩
  have hrange : ∀ (i : Nat) (t : CSem.Ty) (v' : Int), (T.vtys.take nd)[i]? = some t →
      s[i]? = some (some v') → InRange (t.intTy (setM T.S M).cs) v' :=
    fun i t v' ht hv' => inv.range i t v' (take_sub ht).1 hv'
  have hX : ∀ (lo : Nat) (env1 env2 : Env),
      (∀ j t', (T.vtys.take nd)[j]? = some t' →
        env1[tmpName (c.slots.getD j 0)]? = env[tmpName (c.slots.getD j 0)]?) →
      Agree lo env1 env2 →
      (∀ (i : Nat) (t : CSem.Ty), (T.vtys.take nd)[i]? = some t → c.slots.getD i 0 ≤ lo) →
      ∀ j t', (T.vtys.take nd)[j]? = some t' →
        env2[tmpName (c.slots.getD j 0)]? = env[tmpName (c.slots.getD j 0)]? := by
    intro lo env1 env2 h1 hag hle j t' ht
    rw [hag _ (hle j t' ht)]; exact h1 j t' ht
  obtain ⟨m, env', hreach, hfr, r, hval, hrep, hrg⟩ := sim_expr3 (setM T.S M) c.slots (T.vtys.take nd) s hrange
    (callOf T.P fun s' st' => exec T.S.cs T.P n s' st')
    (fun env1 => ∀ j t', (T.vtys.take nd)[j]? = some t' →
      env1[tmpName (c.slots.getD j 0)]? = env[tmpName (c.slots.getD j 0)]?)
    hX (efrag T) (efrag_cast T) (efrag_neg T) (efrag_bin T) (efrag_cond T) (efrag_comma T)
    (fun t arr cnt xb i k pre' post' env1 v' h1 h2 h3 h4 h5 h6 h7 h8 =>
      sim_idxleaf T env inv hpre _ t arr cnt xb i k pre' post' env1 v' h1 h2 h3 h4 h5 h6 h7 h8)
    (fun rt fn args k pre' post' env1 v' h1 h2 h3 h4 h5 h6 h7 h8 =>
      sim_callleaf T n hc env inv rt fn args k pre' post' env1 v' h1 h2 h3 h4 h5 h6 h7 h8.1)
    e c.ctx pre post env v hok hwt hev hits hp.cur hp.curOK
    (fun i t ht => hp.le i (take_sub ht).2) ⟨hvars, fun j _ _ => rfl⟩
  refine ⟨m, env', r, hreach, ?_, hfr, hval, hrep, hrg⟩
  refine inv.env (slots_kept hp hpre ?_ hfr)
  intro k hk hkv
  exact hext.2 k (by show c.slots.length ≤ k; rw [hp.nslots]; exact hk) hkv

/-- The controlling expression of `if` / a loop: `funcexpr`, the conversion of `funcjnz`, and the value
    branched on. -/
theorem sim_condOut3 (n : Nat) (hc : CallOK T n) {pre post : List Item} (hp : Pos T c nd pre)
    (e : Expr3) (k : Nat)
    (hext : Ext T (((c.upd (exprOut3 T.S.cs c e).ctx).addBlocks k).upd
      (jnzOut T.S.cs ((c.upd (exprOut3 T.S.cs c e).ctx).addBlocks k) e.ty (exprOut3 T.S.cs c e).val).ctx))
    (hwt : e.wt (T.vtys.take nd) = true) (hok : efrag T e) {v : Int}
    (hev : evalE3 T.S.cs (callOf T.P fun s' st' => exec T.S.cs T.P n s' st') s e = some v)
    (hits : T.S.its = pre ++ (exprOut3 T.S.cs c e).items ++
      (jnzOut T.S.cs ((c.upd (exprOut3 T.S.cs c e).ctx).addBlocks k) e.ty (exprOut3 T.S.cs c e).val).items ++ post)
    {env : Env} (inv : SInv T.M0 T.S.cs T.cnts T.W T.σ T.vtys s env M) :
    ∃ n env' r w, T.Reach n (T.at env M pre) (T.at env' M (pre ++ (exprOut3 T.S.cs c e).items ++
        (jnzOut T.S.cs ((c.upd (exprOut3 T.S.cs c e).ctx).addBlocks k) e.ty (exprOut3 T.S.cs c e).val).items)) ∧
      SInv T.M0 T.S.cs T.cnts T.W T.σ T.vtys s env' M ∧
      readVal T.S.p env' (jnzOut T.S.cs ((c.upd (exprOut3 T.S.cs c e).ctx).addBlocks k) e.ty
        (exprOut3 T.S.cs c e).val).val = .ok r ∧ r.asW = .ok w ∧ (w ≠ 0 ↔ v ≠ 0) := by
  have sj := jnzArg_straight T.S.cs ((c.upd (exprOut3 T.S.cs c e).ctx).addBlocks k).ctx e.ty
    (exprOut3 T.S.cs c e).val
  change Straight _ (jnzOut T.S.cs ((c.upd (exprOut3 T.S.cs c e).ctx).addBlocks k) e.ty
    (exprOut3 T.S.cs c e).val) at sj
  have ge := exprOut3_good T.S.cs c e
  have hext1 : Ext T (c.upd (exprOut3 T.S.cs c e).ctx) := by
    refine Ext.before (new := []) hext (by simp) (by simp) ?_
    have := sj.lastid
    exact this
  have hits1 : T.S.its = pre ++ (exprOut3 T.S.cs c e).items ++
      ((jnzOut T.S.cs ((c.upd (exprOut3 T.S.cs c e).ctx).addBlocks k) e.ty (exprOut3 T.S.cs c e).val).items ++
        post) := by rw [hits]; simp only [List.append_assoc]
  obtain ⟨n1, env1, r1, hreach1, inv1, hfr1, hval1, hrep1, hra⟩ := sim_exprOut3 T n hc hp e hext1 hwt hok hev hits1 inv
  obtain ⟨n2, env2, hreach2, hfr2, r2, hval2, w, hw, hwv⟩ := sim_jnzArg2 (setM T.S M)
    ((c.upd (exprOut3 T.S.cs c e).ctx).addBlocks k).ctx e.ty (exprOut3 T.S.cs c e).val
    (pre ++ (exprOut3 T.S.cs c e).items) post env1 v r1 hits hval1 hrep1 hra
  refine ⟨n1 + n2, env2, r2, w, hreach1.trans hreach2, ?_, hval2, hw, hwv⟩
  have hpre : ∀ i, i < nd → T.σ.getD i 0 = c.slots.getD i 0 := fun i hi => hext.1 i (by
    show i < c.slots.length; rw [hp.nslots]; exact hi)
  have hl1 := ge.lastid
  refine inv1.env (slots_kept (c := c) (hi := (jnzOut T.S.cs ((c.upd (exprOut3 T.S.cs c e).ctx).addBlocks k) e.ty
    (exprOut3 T.S.cs c e).val).ctx.lastid) hp hpre ?_ ?_)
  · intro j hj hjv
    exact hext.2 j (by show c.slots.length ≤ j; rw [hp.nslots]; exact hj) hjv
  · exact Frame.mono hfr2 hl1 (Nat.le_refl _)

end

end CprocVerif.LowerMach2

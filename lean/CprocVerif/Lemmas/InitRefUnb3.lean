import CprocVerif.Lemmas.InitRefUnb2

/-!
# Simulation for the items of the outermost list of an array of unknown size
-/

namespace CprocVerif.InitSim
open CprocVerif.Init CprocVerif.Image CprocVerif.InitRef

/-! ## arithmetic of the growing size -/

theorem top_focus (es : Nat) : es = max 0 ((0 + 1) * es) ∧ ∃ q', es = q' * es ∧ 0 < q' := by
  refine ⟨by simp, 1, by simp, by omega⟩

theorem top_adv {es q p : Nat} (hes : 0 < es) (hp : p < q) :
    (if (p + 1) * es = q * es then q * es + es else q * es) = max (q * es) ((p + 1 + 1) * es) ∧
      ∃ q', (if (p + 1) * es = q * es then q * es + es else q * es) = q' * es ∧ p + 1 < q' := by
  by_cases h : p + 1 = q
  · subst h
    rw [if_pos rfl]
    have e1 : (p + 1) * es + es = (p + 1 + 1) * es := by rw [Nat.add_mul (p + 1) 1 es, Nat.one_mul]
    refine ⟨?_, p + 1 + 1, e1, by omega⟩
    rw [e1]
    exact (Nat.max_eq_right (Nat.mul_le_mul_right _ (by omega))).symm
  · have hne : (p + 1) * es ≠ q * es := fun h' => h (Nat.eq_of_mul_eq_mul_right hes h')
    rw [if_neg hne]
    refine ⟨?_, q, rfl, by omega⟩
    exact (Nat.max_eq_left (Nat.mul_le_mul_right _ (by omega))).symm

theorem top_desig {es q k : Nat} (hes : 0 < es) :
    (if k * es ≥ q * es then k * es + es else q * es) = max (q * es) ((k + 1) * es) ∧
      ∃ q', (if k * es ≥ q * es then k * es + es else q * es) = q' * es ∧ k < q' := by
  have e1 : k * es + es = (k + 1) * es := by rw [Nat.add_mul, Nat.one_mul]
  by_cases h : q ≤ k
  · have : k * es ≥ q * es := Nat.mul_le_mul_right _ h
    rw [if_pos this, e1]
    refine ⟨?_, k + 1, rfl, by omega⟩
    exact (Nat.max_eq_right (Nat.mul_le_mul_right _ (by omega))).symm
  · have hlt : k * es < q * es := Nat.mul_lt_mul_of_pos_right (by omega) hes
    rw [if_neg (by omega)]
    refine ⟨?_, q, rfl, by omega⟩
    exact (Nat.max_eq_left (Nat.mul_le_mul_right _ (by omega))).symm

theorem grow_top_unb {rst : RSt} {pl : Place} {n : Nat} {el : Ty} (h : PlWfU pl n el) (pos : Nat) :
    (grow (enter rst pl pos) pl pos).top = max rst.top ((pos + 1) * el.size) := by
  unfold grow
  rw [h.ty]
  simp only [h.unb, if_true]
  rw [enter_top]

theorem braceClear_tinc {st : St} (h : st.tinc st.sub = true) : braceClear st = st := by
  unfold braceClear
  simp [h]

/-- all cells of the image are zero -/
def ZeroAll (l : List Init) : Prop := ∀ j, cellFold l j (.byte 0) = .byte 0

theorem ZeroAll.reg {l : List Init} (h : ZeroAll l) (off size : Nat) : ZeroReg l off size := fun j _ _ => h j

theorem imgEq_zlog_zeroAll {l : List Init} (h : ZeroAll l) (off size : Nat) : ImgEq (zlog l off size) l :=
  imgEq_zlog_noop (h.reg 0 (off + size)) (Nat.zero_le _) (by omega)

/-- the machine after an item of the outermost list -/
structure AfterU (st3 : St) (pl : Place) (el : Ty) (pos : Nat) (rest1 : Items) (rst1 : RSt) (stf : St) : Prop where
  run : Run st3 rest1 stf
  sub : 0 < st3.sub
  lvl : Lvl st3 0 pl pos (chU pl el pos)
  exh : HeadPlain rest1 → ∀ j, 0 < j → j < st3.sub → Exh st3 j
  curok : CurOK st3
  cur : st3.cur = some 0
  inc : st3.inc = true
  top : st3.top = rst1.top
  mult : ∃ q, st3.top = q * el.size ∧ pos < q
  log : LogEq st3 rst1

def PLoopU (f : Nat) : Prop :=
  ∀ pl n el pos its rst rst', loopB f pl pos its rst = .ok rst' → rst'.nswitch = rst.nswitch → PlWfU pl n el →
  ∀ st stf, st.cur = some 0 → st.inc = true → CurOK st → (st.obj 0).ty = pl.ty → (st.obj 0).offset = pl.off →
    st.top = rst.top →
    (pos = 0 → st.sub = 0 ∧ ZeroAll rst.log ∧ rst.top = 0) →
    (∀ p, pos = p + 1 → 0 < st.sub ∧ (∃ ch, Lvl st 0 pl p ch) ∧
      (HeadPlain its → ∀ j, 0 < j → j < st.sub → Exh st j) ∧ ∃ q, st.top = q * el.size ∧ p < q) →
    LogEq st rst → Run st its stf →
  LogEq stf rst' ∧ stf.top = rst'.top

/-- one item for element `pos`, the machine standing at it (slot 1) -/
theorem child_itemU {f : Nat} {pl : Place} {n : Nat} {el : Ty} (h : PlWfU pl n el) {i : Ini} {rest rest1 : Items}
    {rst rst1 : RSt} {pos : Nat}
    (hi : initOne f (chU pl el pos) i rest (grow (enter rst pl pos) pl pos) = .ok (rest1, rst1))
    (e1 : (enter rst pl pos).nswitch = rst.nswitch) (e2 : rst1.nswitch = (grow (enter rst pl pos) pl pos).nswitch)
    {st stp sta stf : St} {pf : Nat} (hco : CurOK st) (hcur : st.cur = some 0) (hinc : st.inc = true)
    (hsub : stp.sub = 1) (hl : Lvl stp 0 pl pos (chU pl el pos)) (hsp : SP stp 1 (chU pl el pos)) (hf : FrameU st stp)
    (hic' : (stp.obj 1).iscur = false) (htop : stp.top = (grow (enter rst pl pos) pl pos).top)
    (hmult : ∃ q, stp.top = q * el.size ∧ pos < q) (hle : LogEq st rst) (hb : BodyRun pf stp i sta)
    (hrun : Run sta rest stf) : ∃ st3, AfterU st3 pl el pos rest1 rst1 stf := by
  have hicc : (st.obj 0).iscur = true := by unfold CurOK at hco; rw [hcur] at hco; exact hco.2.1
  have hcop : CurOK stp := by
    unfold CurOK
    rw [hf.cur, hcur]
    exact ⟨by omega, by rw [hf.iscur]; exact hicc, fun j h1 h2 => by omega⟩
  obtain ⟨st3, hrun3, haf3, hle3⟩ := (pAll f).1 (chU pl el pos) i rest _ rest1 rst1 hi e2 (chU_wf h pos) stp sta stf pf 0
    (by rw [hf.cur]; exact hcur) (by omega) hcop (by rw [hsub]; exact hic') (by rw [hsub]; exact hsp)
    (by unfold LogEq; rw [hf.log, grow_log, enter_log e1]; exact hle) hb hrun
  rw [hsub] at haf3
  have htop1 := (top_all f).1 _ _ _ _ _ hi (by rfl : (chU pl el pos).unb = false)
  refine ⟨st3, hrun3, by have := haf3.le; omega, hl.frame haf3.frame (by omega),
    fun hh j h1 h2 => haf3.exh hh j (by omega) h2, haf3.curok, by rw [haf3.frame.cur, hf.cur]; exact hcur,
    by rw [haf3.frame.inc, hf.inc]; exact hinc, ?_, ?_, hle3⟩
  · rw [haf3.frame.top, htop, htop1]
  · rw [haf3.frame.top]; exact hmult

theorem pLoopU (f : Nat) : PLoopU f := by
  induction f with
  | zero => intro pl n el pos its rst rst' hr; rw [loopB.eq_1] at hr; cases hr
  | succ f ih =>
  intro pl n el pos its rst rst' hr hn h st stf hcur hinc hco hty hoff htop h0 hpos hle hrun
  cases its with
  | nil =>
    rw [loopB.eq_2] at hr; cases hr
    rw [run_nil hrun]
    exact ⟨hle, htop⟩
  | cons ds i rest =>
    have hicc : (st.obj 0).iscur = true := by unfold CurOK at hco; rw [hcur] at hco; exact hco.2.1
    have hes := h.elpos
    -- the size so far is a multiple of the element size
    have hq : ∃ q, st.top = q * el.size ∧ ∀ p, pos = p + 1 → p < q := by
      cases pos with
      | zero => exact ⟨0, by rw [htop, (h0 rfl).2.2]; simp, fun p hp => by cases hp⟩
      | succ p =>
        obtain ⟨_, _, _, q, hq1, hq2⟩ := hpos p rfl
        refine ⟨q, hq1, ?_⟩
        intro p' hp'
        have hpp : p' = p := by omega
        rw [hpp]; exact hq2
    obtain ⟨q, hq1, hq2⟩ := hq
    have finish : ∀ (pos' : Nat) (rest1 : Items) (rst1 : RSt) (st3 : St),
        loopB f pl (pos' + 1) rest1 rst1 = .ok rst' → rst'.nswitch = rst1.nswitch →
        AfterU st3 pl el pos' rest1 rst1 stf → LogEq stf rst' ∧ stf.top = rst'.top := by
      intro pos' rest1 rst1 st3 hr e3 ha
      exact ih pl n el (pos' + 1) rest1 rst1 rst' hr e3 h st3 stf ha.cur ha.inc ha.curok ha.lvl.ty ha.lvl.off ha.top
        (by intro h'; omega)
        (by intro p' hp'; have : p' = pos' := by omega
            subst this; exact ⟨ha.sub, ⟨_, ha.lvl⟩, ha.exh, ha.mult⟩) ha.log ha.run
    cases ds with
    | cons d ds =>
      rw [loopB.eq_4] at hr
      cases hres : resolve pl.ty d with
      | error er => rw [hres] at hr; cases hr
      | ok path =>
      rw [hres] at hr
      cases path with
      | nil => cases hr
      | cons p ps =>
      simp only [] at hr
      rw [childAt_unb h] at hr
      simp only [] at hr
      cases hi : desigPath f (chU pl el p) ps ds i rest (grow (enter rst pl p) pl p) with
      | error er => rw [hi] at hr; cases hr
      | ok x =>
      obtain ⟨rest1, rst1⟩ := x
      rw [hi] at hr
      simp only [] at hr
      have n1 := enter_nswitch_le rst pl p
      have n2 := (nsw_all f).2.2.2.2 _ _ _ _ _ _ _ hi
      have n3 := (nsw_all f).2.2.2.1 _ _ _ _ _ hr
      rw [grow_nswitch] at n2
      simp only [] at n2
      have e1 : (enter rst pl p).nswitch = rst.nswitch := by omega
      have e2 : rst1.nswitch = (grow (enter rst pl p) pl p).nswitch := by rw [grow_nswitch]; omega
      have e3 : rst'.nswitch = rst1.nswitch := by omega
      obtain ⟨stp, sta, hpre, hbody, hrun2⟩ := run_cons hrun
      have hpre' : designator st (d :: ds) = .ok stp := by
        unfold preStep at hpre
        rw [hcur] at hpre
        simpa using hpre
      unfold designator at hpre'
      have hg : st.cur.getD 0 = 0 := by rw [hcur]; rfl
      rw [hg, List.foldlM_cons] at hpre'
      cases hd1 : desigStep { st with il := st.il.reset, sub := 0 } d with
      | error er => rw [hd1] at hpre'; cases hpre'
      | ok st1 =>
      rw [hd1] at hpre'
      have hfold : ds.foldlM desigStep st1 = .ok stp := hpre'
      obtain ⟨k, hdk, a1, a2, a3, a4, a5, a6⟩ := desigStepU (st := { st with il := st.il.reset, sub := 0 }) h rfl hinc hty hoff hd1
      subst hdk
      have hpk : p = k ∧ ps = [] := by
        rw [h.ty] at hres
        simp only [resolve] at hres
        cases hres
        exact ⟨rfl, rfl⟩
      obtain ⟨rfl, rfl⟩ := hpk
      obtain ⟨r1, r2, r3, r5, r6, r7, r8, r9, _⟩ := desig_fold ds st1 stp (chU pl el p) (by rw [a1]; exact a3.ty)
        (by rw [a1]; exact a3.off) (fun _ => by rw [a1]; exact a3) (chU_wf h p) (flat_pos st1 (by omega)) hfold
      rw [a1] at r1 r2 r5 r6 r7 r8 r9
      have hcop : CurOK stp := by
        unfold CurOK
        rw [r2.cur, a4.cur]
        show (match st.cur with
          | some c => c ≤ stp.sub ∧ (stp.obj c).iscur = true ∧ ∀ j, c < j → j < stp.sub → (stp.obj j).iscur = false
          | none => ∀ j, j < stp.sub → (stp.obj j).iscur = false)
        rw [hcur]
        refine ⟨by omega, ?_, ?_⟩
        · rw [r2.low 0 (by omega), a4.iscur]; exact hicc
        · intro j h1 h2
          by_cases hj : j = 1
          · rw [hj, r8]; exact a5
          · exact r9 j (by omega) (by omega)
      have hicp : (stp.obj stp.sub).iscur = false := by
        by_cases hs1 : stp.sub = 1
        · rw [hs1, r8]; exact a5
        · exact r9 _ (by omega) (Nat.le_refl _)
      have hcurp : stp.cur = some 0 := by rw [r2.cur, a4.cur]; exact hcur
      obtain ⟨st3, hrun3, haf3, hle3⟩ := (pAll f).2.2.2.2 (chU pl el p) [] ds i rest _ rest1 rst1 hi e2 (chU_wf h p)
        stp sta stf 1 0 r1 hcurp (by omega) hcop hicp
        (by unfold LogEq; rw [r3, a4.log, grow_log, enter_log e1]; exact hle) (bodyRun_of_itemBody hbody) hrun2
      have htop1 := (top_all f).2.2.2.2 _ _ _ _ _ _ _ hi (by rfl : (chU pl el p).unb = false)
      have hst1top : st1.top = if p * el.size ≥ q * el.size then p * el.size + el.size else q * el.size := by
        rw [a6]; show (if p * el.size ≥ st.top then _ else st.top) = _; rw [hq1]
      obtain ⟨t1, q', t2, t3⟩ := top_desig (q := q) (k := p) hes
      refine finish p rest1 rst1 st3 hr e3 ⟨hrun3, by have := haf3.le; omega, a2.frame (r2.trans haf3.frame (Nat.le_refl _)) (by omega),
        fun hh j h1 h2 => haf3.exh hh j (by omega) h2, haf3.curok, by rw [haf3.frame.cur]; exact hcurp,
        by rw [haf3.frame.inc, r2.inc, a4.inc]; exact hinc, ?_, ⟨q', ?_, t3⟩, hle3⟩
      · rw [haf3.frame.top, r2.top, hst1top, t1, htop1, grow_top_unb h, ← htop, hq1]
      · rw [haf3.frame.top, r2.top, hst1top, t2]
    | nil =>
    rw [loopB.eq_3, childAt_unb h] at hr
    simp only [] at hr
    cases hi : initOne f (chU pl el pos) i rest (grow (enter rst pl pos) pl pos) with
    | error er => rw [hi] at hr; cases hr
    | ok x =>
    obtain ⟨rest1, rst1⟩ := x
    rw [hi] at hr
    simp only [] at hr
    have n1 := enter_nswitch_le rst pl pos
    have n2 := (nsw_all f).1 _ _ _ _ _ hi
    have n3 := (nsw_all f).2.2.2.1 _ _ _ _ _ hr
    rw [grow_nswitch] at n2
    simp only [] at n2
    have e1 : (enter rst pl pos).nswitch = rst.nswitch := by omega
    have e2 : rst1.nswitch = (grow (enter rst pl pos) pl pos).nswitch := by rw [grow_nswitch]; omega
    have e3 : rst'.nswitch = rst1.nswitch := by omega
    obtain ⟨stp, sta, hpre, hbody, hrun2⟩ := run_cons hrun
    have hwc : PlWf (chU pl el pos) := chU_wf h pos
    have key : ∃ st3, AfterU st3 pl el pos rest1 rst1 stf := by
      cases pos with
      | succ p =>
        obtain ⟨hcs, ⟨chp, hlp⟩, hexp, _⟩ := hpos p rfl
        rw [preStep_nil_adv hcur (by omega)] at hpre
        obtain ⟨f1, st1, e1', hs1, hf1, hl1⟩ := advance_pops (st.sub - 1) (k := 0) (by omega) (hexp ⟨i, rest, rfl⟩) hpre
        cases f1 with
        | zero => rw [advance] at e1'; cases e1'
        | succ f1 =>
        obtain ⟨b1, b2, b3, b4, b5, b6⟩ := advanceU h hs1 (by rw [hf1.inc]; exact hinc) (hlp.frame hf1 (by omega)) e1'
        obtain ⟨t1, q', t2, t3⟩ := top_adv (q := q) (p := p) hes (hq2 p rfl)
        have hstptop : stp.top = if (p + 1) * el.size = q * el.size then q * el.size + el.size else q * el.size := by
          rw [b6, hf1.top, hq1]
        have hfu : FrameU st stp :=
          ⟨b4.cur.trans hf1.cur, b4.inc.trans hf1.inc, b4.log.trans hl1, by rw [b4.ty, hf1.low 0 (by omega)],
            by rw [b4.off, hf1.low 0 (by omega)], by rw [b4.iscur, hf1.low 0 (by omega)]⟩
        exact child_itemU h hi e1 e2 hco hcur hinc b1 b2 b3 hfu b5
          (by rw [hstptop, t1, grow_top_unb h, ← htop, hq1]) ⟨q', by rw [hstptop, t2], t3⟩ hle
          (bodyRun_of_itemBody hbody) hrun2
      | zero =>
        obtain ⟨hs0, hz, hrt0⟩ := h0 rfl
        have hq0 : st.top = 0 := by rw [htop, hrt0]
        rw [preStep_nil_array hcur hs0 (hty.trans h.ty)] at hpre
        cases hpre
        obtain ⟨t1, q', t2, t3⟩ := top_focus el.size
        -- after `focus` the machine stands at element 0
        have fin : ∀ (st2 sta' : St) (pf : Nat), focus st = .ok st2 → BodyRun pf st2 i sta' → Run sta' rest stf →
            ∃ st3, AfterU st3 pl el 0 rest1 rst1 stf := by
          intro st2 sta' pf hfo hb hr2
          obtain ⟨b1, b2, b3, b4, b5, b6⟩ := focusU h hs0 hinc hty hoff hfo
          exact child_itemU h hi e1 e2 hco hcur hinc b1 b2 b3 b4 b5
            (by rw [b6, grow_top_unb h, hrt0]; exact t1) ⟨q', by rw [b6]; exact t2, t3⟩ hle hb hr2
        have hti : st.tinc st.sub = true := tinc_zero hs0 hinc
        cases i with
        | expr e =>
          have hb : exprBody 34 st e = .ok sta := hbody
          rcases expr_cases (.array n el) e with ⟨s, k, h'⟩ | ⟨n', es, cls, sg, w, scls, cs, h', rfl⟩ |
              ⟨u, t, s, m, h', _⟩ | he
          · cases h'
          · cases h'
            exfalso
            have hcty : (chU pl (.scalar es (.int cls sg)) 0).ty = .scalar es (.int cls sg) := rfl
            cases f with
            | zero => rw [initOne.eq_1] at hi; cases hi
            | succ f0 =>
              rw [initOne.eq_3 _ _ _ _ _ _ _ hcty] at hi
              simp [convScalar] at hi
          · cases h'
          · rw [exprBody_down 33 (hit_elide (by rw [hs0, hty, h.ty]; exact he))] at hb
            cases hfo : focus st with
            | error er => rw [hfo] at hb; cases hb
            | ok st2 =>
              rw [hfo] at hb
              exact fin st2 sta 33 hfo hb hrun2
        | list its' =>
          cases its' with
          | nil =>
            have hb : (match enteredE (braceClear st) with
                | .error er => (.error er : Except Err St)
                | .ok st2 =>
                  if st2.tinc st2.sub then .error (.diag "array of unknown size has empty initializer")
                  else .ok st2) = .ok sta := hbody
            rw [braceClear_tinc hti] at hb
            have hent : enteredE st = focus st := by
              unfold enteredE
              rw [hcur, hs0, if_pos rfl, hty, h.ty]
            rw [hent] at hb
            cases hfo : focus st with
            | error er => rw [hfo] at hb; cases hb
            | ok st2 =>
              rw [hfo] at hb
              simp only [] at hb
              obtain ⟨b1, b2, b3, b4, b5, b6⟩ := focusU h hs0 hinc hty hoff hfo
              rw [(flat_pos st2 (by omega : 0 < st2.sub)).tinc] at hb
              cases hb
              cases f with
              | zero => rw [initOne.eq_1] at hi; cases hi
              | succ f0 =>
              rw [initOne.eq_2] at hi
              cases hbr : braced f0 (chU pl el 0) .nil (grow (enter rst pl 0) pl 0) with
              | error er => rw [hbr] at hi; cases hi
              | ok rb =>
              rw [hbr] at hi
              cases hi
              have hrb := braced_nil hbr
              refine ⟨sta, hrun2, by omega, b2, fun _ j h1 h2 => by omega, ?_, by rw [b4.cur]; exact hcur,
                by rw [b4.inc]; exact hinc, ?_, ⟨q', by rw [b6]; exact t2, t3⟩, ?_⟩
              · unfold CurOK
                rw [b4.cur, hcur]
                exact ⟨by omega, by rw [b4.iscur]; exact hicc, fun j h1 h2 => by omega⟩
              · rw [b6, hrb]
                split
                · rw [grow_top_unb h, hrt0]; exact t1
                · rw [zeroed_top, grow_top_unb h, hrt0]; exact t1
              · unfold LogEq
                rw [b4.log, hrb]
                split
                · rw [grow_log, enter_log e1]; exact hle
                · rw [zeroed_log, grow_log, enter_log e1]
                  exact hle.trans (imgEq_zlog_zeroAll hz _ _).symm
          | cons ds1 i1 r1 =>
            have hb : (match entered (braceClear st) with
                | .error er => (.error er : Except Err St)
                | .ok st2 => listBody st2 (.cons ds1 i1 r1)) = .ok sta := hbody
            rw [braceClear_tinc hti] at hb
            have hent : entered st = focus st := by
              unfold entered
              rw [hcur, hs0, if_pos rfl, hty, h.ty]
            rw [hent] at hb
            cases hfo : focus st with
            | error er => rw [hfo] at hb; cases hb
            | ok st2 =>
              rw [hfo] at hb
              simp only [] at hb
              obtain ⟨b1, b2, b3, b4, b5, b6⟩ := focusU h hs0 hinc hty hoff hfo
              have hco2 : CurOK st2 := by
                unfold CurOK
                rw [b4.cur, hcur]
                exact ⟨by omega, by rw [b4.iscur]; exact hicc, fun j h1 h2 => by omega⟩
              cases f with
              | zero => rw [initOne.eq_1] at hi; cases hi
              | succ f0 =>
              rw [initOne.eq_2] at hi
              cases hbr : braced f0 (chU pl el 0) (.cons ds1 i1 r1) (grow (enter rst pl 0) pl 0) with
              | error er => rw [hbr] at hi; cases hi
              | ok rb =>
              rw [hbr] at hi
              cases hi
              have hlogeq : ImgEq (st2.log.map evWrite)
                  (if isScalarTy (chU pl el 0).ty then (grow (enter rst pl 0) pl 0).log
                    else (zeroed (grow (enter rst pl 0) pl 0) (chU pl el 0)).log) := by
                rw [b4.log]
                split
                · rw [grow_log, enter_log e1]; exact hle
                · rw [zeroed_log, grow_log, enter_log e1]
                  exact hle.trans (imgEq_zlog_zeroAll hz _ _).symm
              obtain ⟨r1', r2, r3, r5, r6⟩ := (pAll f0).2.2.1 (chU pl el 0) _ _ rst1 hbr e2 hwc
                (by intro h'; cases h') st2 sta
                (fun c' hc' => by rw [b4.cur, hcur] at hc'; cases hc'; omega) (flat_pos st2 (by omega)) hco2
                (by rw [b1]; exact b5) (by rw [b1]; exact b3) hlogeq hb
              rw [b1] at r2 r3
              have htop1 := (top_all f0).2.2.1 _ _ _ _ hbr (by rfl : (chU pl el 0).unb = false)
              refine ⟨sta, hrun2, by omega, b2.frame r2 (by omega), fun _ j h1 h2 => by omega, ?_,
                by rw [r2.cur, b4.cur]; exact hcur, by rw [r2.inc, b4.inc]; exact hinc, ?_,
                ⟨q', by rw [r2.top, b6]; exact t2, t3⟩, r1'⟩
              · unfold CurOK
                rw [r2.cur, b4.cur, hcur]
                exact ⟨by omega, by rw [r2.low 0 (by omega), b4.iscur]; exact hicc, fun j h1 h2 => by omega⟩
              · rw [r2.top, b6, htop1, grow_top_unb h, hrt0]; exact t1
    obtain ⟨st3, ha⟩ := key
    exact finish pos rest1 rst1 st3 hr e3 ha

end CprocVerif.InitSim

import CprocVerif.Lemmas.InitRefSim6

/-!
# `parseinit` refines `InitRef.ref` (objects of known size, no union member switch)
-/

namespace CprocVerif.InitSim
open CprocVerif.Init CprocVerif.Image CprocVerif.InitRef

/-- the state `parseinit` starts from -/
def st0 (t : Ty) : St := { obj := fun _ => { ty := t }, top := t.size, inc := false }

theorem parseinit_false {t : Ty} {i : Ini} {st : St} (h : parseinit t false i = .ok st) :
    parseItem (st0 t) [] i = .ok st := by
  unfold parseinit at h
  split at h
  · split at h
    · cases h
    · exact h
  · cases h
  · exact h

theorem ref_false {t : Ty} {i : Ini} {r : Result} (h : ref t false i = .ok r) :
    ∃ rst, initOne 1000000 { ty := t, unb := false } i .nil {} = .ok (.nil, rst) ∧ r.size = t.size ∧
      r.writes = rst.log ∧ r.nswitch = rst.nswitch := by
  unfold ref at h
  split at h
  · cases h
  · cases h
  · rename_i rst hi
    simp only [Bool.false_and, Bool.false_eq_true, if_false] at h
    cases h
    exact ⟨rst, hi, rfl, rfl, rfl⟩

theorem st0_plain (t : Ty) : Flat (st0 t) (st0 t).sub := ⟨rfl, rfl⟩
theorem st0_curOK (t : Ty) : CurOK (st0 t) := by
  unfold CurOK
  show ∀ j, j < 0 → _
  intro j hj; omega

theorem pl0_wf {t : Ty} (h : tyWf t = true) : PlWf { ty := t, unb := false } := ⟨h, rfl, fun _ => ⟨rfl, rfl⟩⟩

theorem st0_sp (t : Ty) : SP (st0 t) (st0 t).sub { ty := t, unb := false } := ⟨rfl, rfl, rfl⟩

theorem preStep_nocur {st : St} (h : st.cur = none) (ds : List Desig) : preStep st ds = .ok st := by
  unfold preStep; rw [h]

/-- **Refinement, core form.**  Image equality cell by cell, and the size. -/
theorem refines_core {t : Ty} {i : Ini} {st : St} {r : Result} (hm : parseinit t false i = .ok st)
    (hr : ref t false i = .ok r) (hsw : r.nswitch = 0) (hwf : tyWf t = true)
    (htop : topOK t i = true) : st.top = r.size ∧ ImgEq (st.log.map evWrite) r.writes := by
  obtain ⟨rst, hi, hsz, hwr, hns⟩ := ref_false hr
  have hm' := parseinit_false hm
  rw [parseItem_eq, preStep_nocur (by rfl)] at hm'
  simp only [] at hm'
  rw [hsz, hwr]
  have hn0 : rst.nswitch = ({} : RSt).nswitch := by rw [← hns, hsw]
  have hw := pl0_wf hwf
  generalize 1000000 = fuel at hi
  cases fuel with
  | zero => rw [initOne.eq_1] at hi; cases hi
  | succ f =>
  cases i with
  | list its =>
    rw [initOne.eq_2] at hi
    cases hbr : braced f { ty := t, unb := false } its {} with
    | error er => rw [hbr] at hi; cases hi
    | ok rb =>
    rw [hbr] at hi
    cases hi
    have hz : ImgEq [] (if isScalarTy ({ ty := t, unb := false } : Place).ty then ({} : RSt).log
        else (zeroed {} { ty := t, unb := false }).log) := by
      split
      · exact ImgEq.refl _
      · rw [zeroed_log]; exact ImgEq.refl _
    cases its with
    | nil =>
      have hb : (match enteredE (braceClear (st0 t)) with
          | .error er => (.error er : Except Err St)
          | .ok st2 =>
            if st2.tinc st2.sub then .error (.diag "array of unknown size has empty initializer") else .ok st2)
          = .ok st := hm'
      rw [braceClear_nocur (by rfl)] at hb
      have hent : enteredE (st0 t) = .ok (st0 t) := by
        unfold enteredE
        rw [if_neg (by intro h; cases h)]
      rw [hent] at hb
      simp only [] at hb
      rw [(st0_plain t).tinc] at hb
      cases hb
      refine ⟨rfl, ?_⟩
      rw [braced_nil hbr]
      show ImgEq [] _
      split
      · rename_i hs; rw [hs] at hz; exact hz
      · rename_i hs
        have hs' : isScalarTy ({ ty := t, unb := false } : Place).ty = false := by simpa using hs
        rw [hs'] at hz; exact hz
    | cons ds1 i1 r1 =>
      have hb : (match entered (braceClear (st0 t)) with
          | .error er => (.error er : Except Err St)
          | .ok st2 => listBody st2 (.cons ds1 i1 r1)) = .ok st := hm'
      rw [braceClear_nocur (by rfl)] at hb
      have hent : entered (st0 t) = .ok (st0 t) := by
        unfold entered
        rw [if_neg (by intro h; cases h)]
      rw [hent] at hb
      simp only [] at hb
      obtain ⟨r1', r2, r3, r5, r6⟩ := (pAll f).2.2.1 _ _ _ _ hbr hn0 hw (by intro h; cases h)
        (st0 t) st (fun c hc => by cases hc) (st0_plain t) (st0_curOK t) rfl (st0_sp t) hz hb
      exact ⟨r2.top, r1'⟩
  | expr e =>
    have hb : exprBody 34 (st0 t) e = .ok st := hm'
    have hne : elides t e = false := by simpa [topOK] using htop
    have hle0 : LogEq (st0 t) {} := ImgEq.refl _
    rcases expr_cases t e with ⟨size, k, hty⟩ | ⟨n, es, cls, sg, w, scls, cs, hty, rfl⟩ |
        ⟨isU, tag, size, ms, hty, rfl⟩ | he
    · -- scalar
      rw [initOne.eq_3 _ _ _ _ _ _ _ (show ({ ty := t, unb := false } : Place).ty = _ from hty)] at hi
      cases hcv : convScalar size k e with
      | none => rw [hcv] at hi; cases hi
      | some v =>
        rw [hcv] at hi; cases hi
        have hty' : ((st0 t).obj (st0 t).sub).ty = .scalar size k := hty
        have hh : hit (st0 t) e = .ok (.add v, st0 t) := by rw [hit_scalar hty', hcv]
        obtain ⟨h1, h2⟩ := leaf_add (rest := .nil) (sz := size) hh (st0_sp t) (st0_plain t) (st0_curOK t)
          (by rw [hty']; first | rfl | skip) hle0 hb
        exact ⟨h1.frame.top, h2⟩
    · -- string
      rw [initOne.eq_4 _ _ _ _ _ _ _ _ _ _ _ (show ({ ty := t, unb := false } : Place).ty = _ from hty)] at hi
      have hty' : ((st0 t).obj (st0 t).sub).ty = .array n (.scalar es (.int cls sg)) := hty
      split at hi
      · cases hi
      · rename_i hbad
        simp only [Bool.false_eq_true, if_false] at hi
        cases hi
        have hh : hit (st0 t) (.str w scls cs) = .ok (.add (.str w cs), st0 t) := by
          rw [hit_str hty' (st0_plain t).tinc, if_neg hbad]
        obtain ⟨h1, h2⟩ := leaf_add (rest := .nil) (sz := n * es) hh (st0_sp t) (st0_plain t) (st0_curOK t)
          (by rw [hty']; first | rfl | skip) hle0 hb
        exact ⟨h1.frame.top, h2⟩
    · -- struct/union value
      rw [initOne.eq_5 _ _ _ _ _ _ _ _ _ (show ({ ty := t, unb := false } : Place).ty = _ from hty), if_pos rfl] at hi
      cases hi
      have hty' : ((st0 t).obj (st0 t).sub).ty = .agg isU tag size ms := hty
      obtain ⟨h1, h2⟩ := leaf_add (rest := .nil) (sz := size) (hit_aggeq hty') (st0_sp t) (st0_plain t) (st0_curOK t)
        (by rw [hty']; first | rfl | skip) hle0 hb
      exact ⟨h1.frame.top, h2⟩
    · rw [he] at hne; cases hne

end CprocVerif.InitSim

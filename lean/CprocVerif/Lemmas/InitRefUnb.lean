import CprocVerif.Lemmas.InitRefSim6

/-!
# Arrays of unknown size: the outermost slot while its size is being determined

`t->size` grows with every element the cursor reaches (`focus`, `advance`, `designator` on slot 0
while `t->incomplete`); the reference records the largest index (`grow`).  Everything below
slot 0 is as for objects of known size.
-/

namespace CprocVerif.InitSim
open CprocVerif.Init CprocVerif.Image CprocVerif.InitRef

/-! ## the reference: `top` changes only at the array of unknown size itself -/

theorem childAt_unb_false {pl ch : Place} {pos : Nat} {p : Bool} (h : childAt pl pos p = some ch) : ch.unb = false := by
  unfold childAt at h
  split at h
  · cases h
  · split at h
    · cases h; rfl
    · cases h
  · split at h
    · cases h
    · split at h
      · cases h; rfl
      · cases h

theorem grow_top_of_not_unb {st : RSt} {pl : Place} (h : pl.unb = false) (pos : Nat) : (grow st pl pos).top = st.top := by
  unfold grow
  split
  · rw [h]; rfl
  · rfl

theorem top_all (fuel : Nat) :
    (∀ pl ini rest st r, initOne fuel pl ini rest st = .ok r → pl.unb = false → r.2.top = st.top) ∧
    (∀ pl pos its st r, contAgg fuel pl pos its st = .ok r → pl.unb = false → r.2.top = st.top) ∧
    (∀ pl its st r, braced fuel pl its st = .ok r → pl.unb = false → r.top = st.top) ∧
    (∀ pl pos its st r, loopB fuel pl pos its st = .ok r → pl.unb = false → r.top = st.top) ∧
    (∀ pl ps ds i rest st r, desigPath fuel pl ps ds i rest st = .ok r → pl.unb = false → r.2.top = st.top) := by
  induction fuel with
  | zero =>
    refine ⟨?_, ?_, ?_, ?_, ?_⟩
    · intro pl ini rest st r h; simp [initOne] at h
    · intro pl pos its st r h; simp [contAgg] at h
    · intro pl its st r h; simp [braced] at h
    · intro pl pos its st r h; simp [loopB] at h
    · intro pl ps ds i rest st r h; simp [desigPath] at h
  | succ fuel ih =>
    obtain ⟨ih1, ih2, ih3, ih4, ih5⟩ := ih
    have h1 : ∀ pl ini rest st r, initOne (fuel + 1) pl ini rest st = .ok r → pl.unb = false → r.2.top = st.top := by
      intro pl ini rest st r h hu
      cases ini with
      | list its =>
        rw [initOne.eq_2] at h
        split at h
        · rename_i st' hb; cases h; exact ih3 _ _ _ _ hb hu
        · cases h
      | expr e =>
        rcases expr_cases pl.ty e with ⟨size, k, hty⟩ | ⟨n, es, cls, sg, w, scls, cs, hty, rfl⟩ |
            ⟨isU, tag, size, ms, hty, rfl⟩ | he
        · rw [initOne.eq_3 _ _ _ _ _ _ _ hty] at h
          split at h
          · cases h; rfl
          · cases h
        · rw [initOne.eq_4 _ _ _ _ _ _ _ _ _ _ _ hty] at h
          split at h
          · cases h
          · simp only [hu, Bool.false_eq_true, if_false] at h
            cases h; rfl
        · rw [initOne.eq_5 _ _ _ _ _ _ _ _ _ hty, if_pos rfl] at h
          cases h; rfl
        · rw [initOne_elide he] at h
          exact ih2 _ _ _ _ _ h hu
    refine ⟨h1, ?_, ?_, ?_, ?_⟩
    · intro pl pos its st r h hu
      cases its with
      | nil => rw [contAgg.eq_2] at h; cases h; rfl
      | cons ds i rest =>
        cases ds with
        | cons d ds => rw [contAgg.eq_3] at h; cases h; rfl
        | nil =>
          rw [contAgg.eq_4] at h
          split at h
          · cases h; rfl
          · rename_i ch hc
            split at h
            · rename_i rest' st' hi
              rw [ih2 _ _ _ _ _ h hu, ih1 _ _ _ _ _ hi (childAt_unb_false hc), grow_top_of_not_unb hu, enter_top]
            · cases h
    · intro pl its st r h hu
      rcases scalar_or_not pl.ty with ⟨size, k, hty⟩ | hty
      · rcases braced_scalar_ok hty h with ⟨_, rfl⟩ | ⟨e, v, _, _, rfl⟩ <;> rfl
      · by_cases hs : isStrInit pl.ty its
        · obtain ⟨n, es, cls, sg, w, scls, cs, hty', rfl⟩ := hs
          rw [braced_str hty'] at h
          cases hi : initOne fuel pl (.expr (.str w scls cs)) .nil (zeroed st pl) with
          | error e => rw [hi] at h; cases h
          | ok x =>
            rw [hi] at h; cases h
            have := ih1 _ _ _ _ _ hi hu
            rw [zeroed_top] at this
            exact this
        · rw [braced_loop hty hs] at h
          have := ih4 _ _ _ _ _ h hu
          rw [zeroed_top] at this
          exact this
    · intro pl pos its st r h hu
      cases its with
      | nil => rw [loopB.eq_2] at h; cases h; rfl
      | cons ds i rest =>
        cases ds with
        | nil =>
          rw [loopB.eq_3] at h
          split at h
          · cases h
          · rename_i ch hc
            split at h
            · rename_i rest' st' hi
              rw [ih4 _ _ _ _ _ h hu, ih1 _ _ _ _ _ hi (childAt_unb_false hc), grow_top_of_not_unb hu, enter_top]
            · cases h
        | cons d ds =>
          rw [loopB.eq_4] at h
          split at h
          · cases h
          · cases h
          · split at h
            · cases h
            · rename_i ch hc
              split at h
              · rename_i rest' st' hi
                rw [ih4 _ _ _ _ _ h hu, ih5 _ _ _ _ _ _ _ hi (childAt_unb_false hc), grow_top_of_not_unb hu, enter_top]
              · cases h
    · intro pl ps ds i rest st r h hu
      cases ps with
      | nil =>
        cases ds with
        | nil => rw [desigPath.eq_2] at h; exact ih1 _ _ _ _ _ h hu
        | cons d ds =>
          rw [desigPath.eq_3] at h
          split at h
          · cases h
          · split at h
            · cases h
            · exact ih5 _ _ _ _ _ _ _ h hu
      | cons p ps =>
        rw [desigPath.eq_4] at h
        split at h
        · cases h
        · rename_i ch hc
          split at h
          · rename_i rest' st' hi
            rw [ih2 _ _ _ _ _ h hu, ih5 _ _ _ _ _ _ _ hi (childAt_unb_false hc), enter_top]
          · cases h

end CprocVerif.InitSim

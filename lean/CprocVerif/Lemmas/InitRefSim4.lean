import CprocVerif.Lemmas.InitRefSim3

/-!
# Simulation, part 2: the items that follow (`contAgg`, `loopB`) and a braced list (`braced`)
-/

namespace CprocVerif.InitSim
open CprocVerif.Init CprocVerif.Image CprocVerif.InitRef

/-- `advance` from a finished sub-object to the next sub-object of slot `k` -/
theorem advance_to_next {st stp : St} {k f : Nat} {pl ch ch' : Place} {pos : Nat}
    (hk : k < st.sub) (hp : Flat st k) (hw : PlWf pl) (hl : Lvl st k pl pos ch)
    (hex : ∀ j, k < j → j < st.sub → Exh st j) (hc : childAt pl (pos + 1) true = some ch')
    (e : advance f st = .ok stp) :
    stp.sub = k + 1 ∧ Lvl stp k pl (pos + 1) ch' ∧ SP stp (k + 1) ch' ∧ Frame k st stp ∧ stp.log = st.log ∧
      (stp.obj k).iscur = (st.obj k).iscur ∧ (stp.obj (k + 1)).iscur = false := by
  obtain ⟨f1, st1, e1, hs1, hf1, hl1⟩ := advance_pops (st.sub - (k + 1)) (k := k) (by omega) hex e
  have hp1 : Flat st1 k := hp.frame (hf1.mono (Nat.le_succ _)) (by rw [hf1.low k (Nat.lt_succ_self _)])
  cases f1 with
  | zero => rw [advance] at e1; cases e1
  | succ f1 =>
    obtain ⟨h1, h2, h3, h4, h5, h6, h7⟩ := advance_step hs1 hp1 hw (hl.frame hf1 (Nat.lt_succ_self _)) hc e1
    have hfr : Frame k st stp := (hf1.mono (Nat.le_succ _)).trans h4 (Nat.le_refl _)
    exact ⟨h1, h2, h3, hfr, by rw [h5, hl1], by rw [h6, hf1.low k (Nat.lt_succ_self _)], h7⟩

theorem bodyRun_of_itemBody {st sta : St} {i : Ini} (h : itemBody st i = .ok sta) : BodyRun 34 st i sta := by
  cases i <;> exact h

theorem preStep_nil_adv {st : St} {c : Nat} (hc : st.cur = some c) (hs : st.sub ≠ c) :
    preStep st [] = advance 33 st := by
  unfold preStep
  rw [hc]
  simp [hs]

theorem preStep_nil_agg {st : St} {c : Nat} {u : Bool} {tag size : Nat} {ms : Members} (hc : st.cur = some c)
    (hs : st.sub = c) (hty : (st.obj c).ty = .agg u tag size ms) : preStep st [] = focus st := by
  unfold preStep
  rw [hc]
  simp [hs, hty]

theorem preStep_nil_array {st : St} {c : Nat} {n : Nat} {e : Ty} (hc : st.cur = some c)
    (hs : st.sub = c) (hty : (st.obj c).ty = .array n e) : preStep st [] = .ok st := by
  unfold preStep
  rw [hc]
  simp [hs, hty]

theorem preStep_nil_scalar {st : St} {c : Nat} {n : Nat} {k : SK} (hc : st.cur = some c)
    (hs : st.sub = c) (hty : (st.obj c).ty = .scalar n k) : preStep st [] = .ok st := by
  unfold preStep
  rw [hc]
  simp [hs, hty]

/-- one undesignated item for the sub-object `pos` of slot `k`, the machine standing at it -/
theorem child_item {f : Nat} (ihI : PInit f) {pl ch : Place} {i : Ini} {rest rest1 : Items} {rst rst1 : RSt} {pos : Nat}
    (hi : initOne f ch i rest (grow (enter rst pl pos) pl pos) = .ok (rest1, rst1))
    (e1 : (enter rst pl pos).nswitch = rst.nswitch) (e2 : rst1.nswitch = (grow (enter rst pl pos) pl pos).nswitch)
    (hw : PlWf pl)
    {st stp sta stf : St} {c k pf : Nat} (hcur : st.cur = some c) (hck : c ≤ k) (hco : CurOK st) (hk : k ≤ st.sub)
    (hfresh : c < k → (st.obj k).iscur = false) (hsub : stp.sub = k + 1) (hl : Lvl stp k pl pos ch)
    (hsp : SP stp (k + 1) ch) (hf : Frame k st stp) (hlog : stp.log = st.log)
    (hic : (stp.obj k).iscur = (st.obj k).iscur) (hic' : (stp.obj (k + 1)).iscur = false)
    (hle : LogEq st rst) (hb : BodyRun pf stp i sta) (hrun : Run sta rest stf) :
    ∃ st3, Run st3 rest1 stf ∧ After (k + 1) stp st3 rest1 ∧ LogEq st3 rst1 ∧ Lvl st3 k pl pos ch ∧ Frame k st st3 := by
  have hwc : PlWf ch := childAt_wf hw hl.child
  have hcop : CurOK stp := curOK_step hco hcur hck hk hf hic hsub hfresh
  obtain ⟨st3, hrun3, haf3, hle3⟩ := ihI ch i rest _ rest1 rst1 hi e2 hwc stp sta stf pf c
    (by rw [hf.cur]; exact hcur) (by rw [hsub]; omega) hcop (by rw [hsub]; exact hic')
    (by rw [hsub]; exact hsp) (by unfold LogEq; rw [hlog, grow_log, enter_log e1]; exact hle) hb hrun
  rw [hsub] at haf3
  exact ⟨st3, hrun3, haf3, hle3, hl.frame haf3.frame (Nat.lt_succ_self _),
    hf.trans (haf3.frame.mono (Nat.le_succ _)) (Nat.le_refl _)⟩

theorem pCont_step (f : Nat) (ih : ∀ f', f' < f → PAll f') : PCont f := by
  intro pl pos its rst rest' rst' hr hn hw st stf k c ch hcur hck hks hco hl hex hle hrun
  cases f with
  | zero => rw [contAgg.eq_1] at hr; cases hr
  | succ f =>
  cases its with
  | nil =>
    rw [contAgg.eq_2] at hr; cases hr
    exact ⟨st, hrun, ⟨Frame.refl _ _, Nat.le_of_lt hks, hco, rfl, rfl, fun hh => absurd hh headPlain_nil⟩, hks, hle⟩
  | cons ds i rest =>
    cases ds with
    | cons d ds =>
      rw [contAgg.eq_3] at hr; cases hr
      exact ⟨st, hrun, ⟨Frame.refl _ _, Nat.le_of_lt hks, hco, rfl, rfl,
        fun hh => by obtain ⟨_, _, h⟩ := hh; cases h⟩, hks, hle⟩
    | nil =>
    rw [contAgg.eq_4] at hr
    cases hc : childAt pl (pos + 1) true with
    | none =>
      rw [hc] at hr; cases hr
      refine ⟨st, hrun, ⟨Frame.refl _ _, Nat.le_of_lt hks, hco, rfl, rfl, ?_⟩, hks, hle⟩
      intro hh j h1 h2
      by_cases hjk : j = k
      · subst hjk; exact ⟨pl, pos, ch, hw, hl, hc⟩
      · exact hex hh j (by omega) h2
    | some ch' =>
      rw [hc] at hr
      simp only [] at hr
      cases hi : initOne f ch' i rest (grow (enter rst pl (pos + 1)) pl (pos + 1)) with
      | error er => rw [hi] at hr; cases hr
      | ok x =>
      obtain ⟨rest1, rst1⟩ := x
      rw [hi] at hr
      simp only [] at hr
      have n1 := enter_nswitch_le rst pl (pos + 1)
      have n2 := (nsw_all f).1 _ _ _ _ _ hi
      have n3 := (nsw_all f).2.1 _ _ _ _ _ hr
      rw [grow_nswitch] at n2
      simp only [] at n2 n3
      have e1 : (enter rst pl (pos + 1)).nswitch = rst.nswitch := by omega
      have e2 : rst1.nswitch = (grow (enter rst pl (pos + 1)) pl (pos + 1)).nswitch := by rw [grow_nswitch]; omega
      have e3 : rst'.nswitch = rst1.nswitch := by omega
      obtain ⟨stp, sta, hpre, hbody, hrun2⟩ := run_cons hrun
      rw [preStep_nil_adv hcur (by omega)] at hpre
      obtain ⟨h1, h2, h3, h4, h5, h6, h7⟩ :=
        advance_to_next hks (flat_pos st (by omega)) hw hl (hex ⟨i, rest, rfl⟩) hc hpre
      have hick : (st.obj k).iscur = false := by
        unfold CurOK at hco; rw [hcur] at hco; exact hco.2.2 k hck hks
      obtain ⟨st3, hrun3, haf3, hle3, hl3, hf3⟩ := child_item (ih f (Nat.lt_succ_self _)).1 hi e1 e2 hw
        hcur (Nat.le_of_lt hck) hco (Nat.le_of_lt hks) (fun _ => hick) h1 h2 h3 h4 h5 h6 h7 hle
        (bodyRun_of_itemBody hbody) hrun2
      obtain ⟨st', hrun', haf', hlt', hle'⟩ := (ih f (Nat.lt_succ_self _)).2.1 pl (pos + 1) rest1 rst1 rest' rst' hr e3 hw
        st3 stf k c ch' (by rw [hf3.cur]; exact hcur) hck (by have := haf3.le; omega)
        haf3.curok hl3 (fun hh j h1 h2 => haf3.exh hh j (by omega) h2) hle3 hrun3
      refine ⟨st', hrun', ⟨hf3.trans haf'.frame (Nat.le_refl _), haf'.le, haf'.curok, ?_, ?_, haf'.exh⟩, hlt', hle'⟩
      · rw [haf'.ty, hl3.ty, hl.ty]
      · rw [haf'.off, hl3.off, hl.off]

end CprocVerif.InitSim

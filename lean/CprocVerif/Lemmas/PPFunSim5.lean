import CprocVerif.Lemmas.PPFunSim4
import CprocVerif.Lemmas.PPObjMain

/-! # Whole-stream simulation, part 5: `next()` and the whole stream, for tables with
function-like macros -/

namespace CprocVerif.PP
open CprocVerif.Gen.TokenKinds
open CprocVerif.Spec.MacroRef (HTok Item PTok MacroDef RErr Flag expandH)
open CprocVerif.Spec

theorem textOK_cons_inv {ms0 : List Macro} {t : Tok} {r : List Tok} (h : TextOK ms0 (t :: r)) :
    (¬ IsFunName ms0 t ∧ t.kind ≠ .TEOF ∧ t.hide = false ∧ TextOK ms0 r) ∨
    (∃ lp r' F args rest, r = lp :: r' ∧ t.kind = .TIDENT ∧ t.hide = false ∧ macroget ms0 (t.lit.getD []) = some F ∧
      F.func = true ∧ lp.kind = .TLPAREN ∧ collect F.params 0 0 [] [] r' = .ok (args, rest) ∧
      PlainFor ms0 r' (collect F.params 0 0 [] [] r') ∧ (∀ a ∈ args, a ≠ []) ∧ TextOK ms0 rest) ∨
    (t.kind = .TEOF ∧ r = []) := by
  cases h with
  | plain _ _ h1 h2 h3 h4 h5 h6 => exact .inl ⟨h1, h4, h5, h6⟩
  | call _ lp r' F args rest h1 h2 h3 h4 h5 h6 h7 h8 h9 =>
    exact .inr (.inl ⟨lp, r', F, args, rest, rfl, h1, h2, h3, h4, h5, h6, h7, h8, h9⟩)
  | eof _ h => exact .inr (.inr ⟨h, rfl⟩)

theorem expand_nonident (n : Nat) (t : Tok) (st : St) (hk : t.kind ≠ .TIDENT) :
    exec (n + 1) (.expand t) st = .ok { st with rb := false, rt := t } := by
  show expandBody (exec n) t st = _
  unfold expandBody
  simp only [hk, ne_eq, not_false_eq_true, ↓reduceIte]

/-- one `rawnext(); expand()` round of `next()` on a good state, in terms of the reference -/
inductive StepF (ms0 : List Macro) (st s2 : St) : Prop where
  | again (h1 : s2.rb = true ∨ (s2.rt.kind = .TNEWLINE ∧ s2.ppnl = false))
      (h2 : Link (tblF ms0) (absF st) [] (absF s2))
  | out (h1 : s2.rb = false) (h2 : s2.rt.kind ≠ .TNEWLINE) (h3 : s2.rt.kind ≠ .TEOF)
      (h4 : Link (tblF ms0) (absF st) [(s2.rt.kind, s2.rt.lit)] (absF s2))
  | eof (h1 : s2.rb = false) (h2 : s2.rt.kind = .TEOF) (h3 : absF st = [])

theorem stepF (ms0 : List Macro) (hTb : TblOK ms0) (k : Nat) (st s1 s2 : St) (g : GoodF ms0 st)
    (ht : TextOK ms0 st.raw) (hr : exec k .rawnext st = .ok s1) (he : exec k (.expand s1.rt) s1 = .ok s2) :
    GoodF ms0 s2 ∧ TextOK ms0 s2.raw ∧ StepF ms0 st s2 := by
  obtain ⟨g1, hR⟩ := rawnextF ms0 k st s1 g ht hr
  -- the common part: a token that starts no invocation
  have common : ∀ (habs : absF st = .tok (mkH (hsOf s1.ctx) s1.rt) :: absF s1) (hf : FlatOK ms0 s1.rt)
      (htx : TextOK ms0 s1.raw), GoodF ms0 s2 ∧ TextOK ms0 s2.raw ∧ StepF ms0 st s2 := by
    intro habs hf htx
    obtain ⟨g2, hraw2, hcase⟩ := expand_simF ms0 hTb k s1 s2 s1.rt g1 hf he
    refine ⟨g2, by rw [hraw2]; exact htx, ?_⟩
    rcases hcase with ⟨hrb, hK⟩ | ⟨hrb, hkind, hlit, hab, hK⟩
    · exact .again (.inl hrb) (Link.of_eq 0 (fun K _ => by rw [habs]; exact hK K))
    · refine .out hrb (by rw [hkind]; exact hf.1) (by rw [hkind]; exact hf.2.1) ?_
      rw [hkind, hlit, hab]
      exact Link.of_out _ (fun K => by rw [habs]; exact hK K)
  cases hR with
  | ctx h1 h2 h3 => exact common h1 h2 (by rw [h3]; exact ht)
  | raw h1 h2 h3 =>
    have ht' : TextOK ms0 (s1.rt :: s1.raw) := by rw [← h1]; exact ht
    have habsst : absF st = (absRawF (s1.rt :: s1.raw)).map Item.tok := by
      simp only [absF, h3, h1, List.nil_append]
    have habss1 : absF s1 = (absRawF s1.raw).map Item.tok := by
      simp only [absF, h2, flatG, List.nil_append]
    rcases textOK_cons_inv ht' with ⟨hnf, heof, hhide, htr⟩ | ⟨lp, r', F, args, rest, hraw, c1, c2, c3, c4, c5, c6, c7, c8, c9⟩ | ⟨hkeof, hrnil⟩
    · by_cases hnl : s1.rt.kind = .TNEWLINE
      · cases k with
        | zero => cases he
        | succ k' =>
          rw [expand_nonident k' _ _ (by rw [hnl]; decide)] at he
          cases he
          have e : Link (tblF ms0) (absF st) [] (absF s1) := by
            rw [habsst, habss1, absRawF_cons_nl _ _ hnl]; exact Link.refl _ _
          exact ⟨goodF_setrt g1 _ _, htr, .again (.inr ⟨hnl, g1.ppnl⟩) e⟩
      · refine common ?_ ⟨hnl, heof, hnf, fun hh => by rw [hhide] at hh; cases hh⟩ htr
        rw [habsst, habss1, absRawF_cons_visible _ _ hnl heof, h2]
        rfl
    · obtain ⟨g2, hraw2, hrb, c, hK⟩ := expand_callF ms0 hTb k s1 s2 s1.rt lp r' F args rest g1 h2 hraw c1 c2 c3 c4 c5 c6 c7 c8 he
      refine ⟨g2, by rw [hraw2]; exact c9, .again (.inl hrb) (Link.of_eq c ?_)⟩
      intro K hKc
      rw [habsst, absRawF_cons_visible _ _ (by rw [c1]; decide) (by rw [c1]; decide), List.map_cons, ← habss1]
      exact hK K hKc
    · cases k with
      | zero => cases he
      | succ k' =>
        rw [expand_nonident k' _ _ (by rw [hkeof]; decide)] at he
        cases he
        refine ⟨goodF_setrt g1 _ _, by show TextOK ms0 s1.raw; rw [hrnil]; exact .nil, .eof rfl hkeof ?_⟩
        rw [habsst, absRawF_eof _ _ hkeof]; rfl
  | eof h1 h2 h3 h4 h5 =>
    cases k with
    | zero => cases he
    | succ k' =>
      rw [expand_nonident k' _ _ (by rw [h1]; decide)] at he
      cases he
      refine ⟨goodF_setrt g1 _ _, by show TextOK ms0 s1.raw; rw [h3]; exact .nil, .eof rfl (by show s1.rt.kind = _; rw [h1]; rfl) ?_⟩
      simp [absF, h5, h2, absRawF_nil]

/-- **One call of `next()`** on a good state: if it completes, the reference delivers the same
token first (or, at the end of the input, nothing more) -/
theorem next_simF (ms0 : List Macro) (hTb : TblOK ms0) : ∀ (n : Nat) (st st' : St), GoodF ms0 st → TextOK ms0 st.raw →
    exec n .next st = .ok st' →
    GoodF ms0 st' ∧ TextOK ms0 st'.raw ∧ st'.tok = toKeyword st'.rt ∧
    ((st'.rt.kind = .TEOF ∧ Link (tblF ms0) (absF st) [] []) ∨
     (st'.rt.kind ≠ .TEOF ∧ Link (tblF ms0) (absF st) [(st'.rt.kind, st'.rt.lit)] (absF st'))) := by
  intro n
  induction n with
  | zero => intro st st' _ _ h; cases h
  | succ k ih =>
    intro st st' g ht h
    change nextBody (exec k) st = .ok st' at h
    unfold nextBody at h
    cases hr : exec k .rawnext st with
    | error e => rw [hr] at h; cases h
    | ok s1 =>
      rw [hr] at h
      simp only at h
      cases he : exec k (.expand s1.rt) s1 with
      | error e => rw [he] at h; cases h
      | ok s2 =>
        rw [he] at h
        simp only at h
        obtain ⟨g2, ht2, hs⟩ := stepF ms0 hTb k st s1 s2 g ht hr he
        cases hs with
        | again h1 h2 =>
          rw [if_pos h1] at h
          obtain ⟨g', ht', htok, hcase⟩ := ih s2 st' g2 ht2 h
          refine ⟨g', ht', htok, ?_⟩
          rcases hcase with ⟨he', hl⟩ | ⟨he', hl⟩
          · exact .inl ⟨he', h2.trans hl⟩
          · exact .inr ⟨he', h2.trans hl⟩
        | out h1 h2 h3 h4 =>
          have hn : ¬ (s2.rb = true ∨ (s2.rt.kind = .TNEWLINE ∧ s2.ppnl = false)) := by
            rw [h1]; intro hh; rcases hh with hh | hh
            · cases hh
            · exact h2 hh.1
          rw [if_neg hn] at h
          cases h
          exact ⟨⟨g2.stat, g2.inv, g2.wf, g2.flatOk, g2.prag, g2.ppnl⟩, ht2, rfl, .inr ⟨h3, h4⟩⟩
        | eof h1 h2 h3 =>
          have hn : ¬ (s2.rb = true ∨ (s2.rt.kind = .TNEWLINE ∧ s2.ppnl = false)) := by
            rw [h1, h2]; intro hh; rcases hh with hh | hh
            · cases hh
            · cases hh.1
          rw [if_neg hn] at h
          cases h
          refine ⟨⟨g2.stat, g2.inv, g2.wf, g2.flatOk, g2.prag, g2.ppnl⟩, ht2, rfl, .inl ⟨h2, ?_⟩⟩
          rw [h3]; exact Link.refl _ _


theorem runKeys_cons (t : Tok) (l : List Tok) (h : l ≠ []) : runKeys (t :: l) = (t.kind, t.lit) :: runKeys l := by
  unfold runKeys
  rw [List.dropLast_cons_of_ne_nil h, List.map_cons]

/-- **The whole stream**: a completed run of the model on a good state delivers, modulo
`keyword()`, the tokens `L` the reference delivers from the abstraction of that state before
it comes to the end of the source -/
theorem run_simF (ms0 : List Macro) (hTb : TblOK ms0) : ∀ (n : Nat) (st : St), GoodF ms0 st → TextOK ms0 st.raw →
    (run n st).2 = none →
    ∃ L, L.map kwKey = runKeys (run n st).1 ∧ Link (tblF ms0) (absF st) L [] := by
  intro n
  induction n with
  | zero => intro st _ _ h; cases h
  | succ n ih =>
    intro st g ht h
    unfold run at h ⊢
    cases hx : exec n .next st with
    | error e => rw [hx] at h; cases h
    | ok st1 =>
      rw [hx] at h
      simp only at h ⊢
      obtain ⟨g1, ht1, htok, hcase⟩ := next_simF ms0 hTb n st st1 g ht hx
      by_cases he : st1.tok.kind = .TEOF
      · simp only [he, ↓reduceIte]
        have hrt : st1.rt.kind = .TEOF := by rw [htok] at he; exact (toKeyword_eof _).mp he
        rcases hcase with ⟨_, hl⟩ | ⟨hne, _⟩
        · exact ⟨[], rfl, hl⟩
        · exact absurd hrt hne
      · simp only [he, ↓reduceIte] at h ⊢
        have hrt : st1.rt.kind ≠ .TEOF := by rw [htok] at he; exact fun hh => he ((toKeyword_eof _).mpr hh)
        rcases hcase with ⟨heq, _⟩ | ⟨_, hl⟩
        · exact absurd heq hrt
        · obtain ⟨L, hL, hlink⟩ := ih st1 g1 ht1 h
          refine ⟨(st1.rt.kind, st1.rt.lit) :: L, ?_, hl.trans hlink⟩
          rw [runKeys_cons _ _ (run_ne_nil n st1 h), List.map_cons, hL, htok, toKeyword_key]

/-- what `Link … L []` says outright: with enough fuel the reference completes without diagnostic
and delivers exactly `L` -/
theorem Link.final {tbl : List MacroDef} {a : List Item} {L : List (Kind × Option Name)} (h : Link tbl a L []) :
    ∃ J, ∀ K, J ≤ K → outKeys (expandH false K tbl a) = (L, none) := by
  obtain ⟨J, c, H⟩ := h
  refine ⟨c + 1 + J, ?_⟩
  intro K hK
  have := H (K - J) (by omega)
  rw [show K - J + J = K by omega] at this
  rw [this]
  have h1 : K - J = (K - J - 1) + 1 := by omega
  rw [h1, expandH]
  simp [outKeys]

/-- the initial state of a unit whose macro table is `ms0` and whose remaining text is `raw` -/
theorem goodF_init (ms0 : List Macro) (raw : List Tok) (hTb : TblOK ms0) (hhide : ∀ m ∈ ms0, m.hide = false) :
    GoodF ms0 { raw := raw, macros := ms0 } :=
  ⟨rfl, ⟨hTb.names, List.nodup_nil, (by intro m hm; simp [liveNames, hhide m hm]), rfl⟩,
   (by intro f hf; cases hf), (by intro t ht; cases ht), rfl, rfl⟩

end CprocVerif.PP

import CprocVerif.Lemmas.AbiDesc

/-!
# Lemmas for C08, part 2: algebra of `shift`/`rep`, and the placement facts of struct members that
QBE's natural layout needs (`Tight`: no member starts a whole alignment unit after the cursor)
-/

namespace CprocVerif.AbiDesc
open CprocVerif.Layout CprocVerif.Abi CprocVerif.QbeLayout

/-! ## `shift`, `rep` -/

theorem shift_zero (fs : List Fld) : shift 0 fs = fs := by
  unfold shift
  conv => rhs; rw [← List.map_id fs]
  apply List.map_congr_left
  intro f _
  cases f; rfl

theorem shift_nil (d : Nat) : shift d [] = [] := rfl

theorem shift_append (d : Nat) (a b : List Fld) : shift d (a ++ b) = shift d a ++ shift d b := by
  unfold shift; rw [List.map_append]

theorem shift_shift (a b : Nat) (fs : List Fld) : shift a (shift b fs) = shift (b + a) fs := by
  unfold shift
  rw [List.map_map]
  apply List.map_congr_left
  intro f _
  simp only [Function.comp, Nat.add_assoc]

theorem shift_cons (d : Nat) (f : Fld) (fs : List Fld) :
    shift d (f :: fs) = ⟨f.off + d, f.size, f.kind⟩ :: shift d fs := rfl

theorem rep_zero (s : Nat) (F : List Fld) : rep 0 s F = [] := rfl

theorem rep_succ (n s : Nat) (F : List Fld) : rep (n + 1) s F = F ++ shift s (rep n s F) := rfl

theorem rep_one (s : Nat) (F : List Fld) : rep 1 s F = F := by
  rw [rep_succ, rep_zero, shift_nil, List.append_nil]

theorem shift_rep (d : Nat) : ∀ (n s : Nat) (F : List Fld), shift d (rep n s F) = rep n s (shift d F)
  | 0, _, _ => rfl
  | n + 1, s, F => by
    rw [rep_succ, rep_succ, shift_append, shift_shift, ← shift_rep d n s F, shift_shift, Nat.add_comm]

theorem rep_add : ∀ (a b s : Nat) (F : List Fld),
    rep (a + b) s F = rep a s F ++ shift (a * s) (rep b s F)
  | 0, b, s, F => by rw [Nat.zero_add, Nat.zero_mul, shift_zero, rep_zero, List.nil_append]
  | a + 1, b, s, F => by
    have e : a + 1 + b = (a + b) + 1 := by omega
    rw [e, rep_succ, rep_add a b s F, rep_succ, shift_append, shift_shift, List.append_assoc]
    congr 3
    rw [Nat.add_mul, Nat.one_mul]

theorem rep_mul : ∀ (n k s : Nat) (F : List Fld), rep (n * k) s F = rep n (k * s) (rep k s F)
  | 0, k, s, F => by rw [Nat.zero_mul]; rfl
  | n + 1, k, s, F => by
    have e : (n + 1) * k = k + n * k := by rw [Nat.add_mul, Nat.one_mul, Nat.add_comm]
    rw [e, rep_add, rep_mul n k s F, rep_succ]

/-! ## Struct members: one per declaration, tightly placed -/

inductive All2 {α β : Type} (R : α → β → Prop) : List α → List β → Prop
  | nil : All2 R [] []
  | cons {a b as bs} : R a b → All2 R as bs → All2 R (a :: as) (b :: bs)


/-- the members follow the bit cursor without a gap of a whole alignment unit -/
def Tight : Nat → List Member → Prop
  | _, [] => True
  | c, m :: rest => c ≤ m.bitStart ∧ 8 * m.offset < c + 8 * m.talign ∧ Tight m.bitEnd rest

/-- what a member inherits from its declaration -/
structure DeclMem (d : Decl) (m : Member) : Prop where
  tsize : m.tsize = d.ty.size
  talign : m.talign = d.ty.align
  width : m.width = d.width
  aligned : m.talign ∣ m.offset
  pow : Pow2 m.talign
  bf : m.width.isSome → m.tsize = m.talign
  pos : 0 < m.talign

theorem placeStruct_tight {c : Nat} {d : Decl} (hwf : WfDecl false false d) (hok : declOk d = true) :
    ∃ m, placeStruct false c d = (m.bitEnd, some m) ∧ DeclMem d m ∧ c ≤ m.bitStart ∧
      8 * m.offset < c + 8 * m.talign ∧ (m.width = none → m.bitStart = 8 * m.offset ∧ m.bitEnd = 8 * (m.offset + m.tsize)) ∧
      (∀ w, m.width = some w → 8 * m.offset ≤ m.bitStart ∧ m.bitEnd ≤ 8 * (m.offset + m.tsize)) := by
  obtain ⟨hpa, _, _, hw⟩ := hwf
  simp only [declOk, Bool.and_eq_true, Bool.or_eq_true, decide_eq_true_eq] at hok
  obtain ⟨hnm, hal⟩ := hok
  cases hwd : d.width with
  | none =>
    have ea : effAlign false d = d.ty.align := by
      simp only [effAlign, Bool.false_eq_true, ↓reduceIte]; omega
    have hp := hpa.pos
    have h1 := le_roundUp c (a := 8 * d.ty.align) (by omega)
    have h2 : 8 * d.ty.align ∣ roundUp c (8 * d.ty.align) := roundUp_dvd _ _
    have h4 := roundUp_lt c (a := 8 * d.ty.align) (by omega)
    obtain ⟨k, hk⟩ := h2
    have h3 : roundUp c (8 * d.ty.align) / 8 = d.ty.align * k := by
      rw [hk, Nat.mul_assoc, Nat.mul_div_cancel_left _ (by decide)]
    have h5 : 8 * (d.ty.align * k) = roundUp c (8 * d.ty.align) := by rw [hk, Nat.mul_assoc]
    refine ⟨⟨roundUp c (8 * d.ty.align) / 8, 0, 0, d.ty.size, d.ty.align, none⟩, ?_, ?_, ?_, ?_, ?_, ?_⟩
    · simp only [placeStruct, hwd, ea, Member.bitEnd, Member.bitStart, Member.bitLen, h3, h5, Nat.add_zero]
    · exact ⟨rfl, rfl, hwd.symm, by simp only [h3]; exact Nat.dvd_mul_right _ _, hpa, by intro h; simp at h, hp⟩
    · simp only [Member.bitStart, h3, h5]; omega
    · simp only [h3, h5]; omega
    · intro _
      simp only [Member.bitEnd, Member.bitStart, Member.bitLen, Nat.add_zero, Nat.mul_add]
      exact ⟨trivial, trivial⟩
    · intro w h; simp at h
  | some w =>
    rw [hwd] at hw
    obtain ⟨_, _, _, hw0n, hww, hza, hz8⟩ := hw
    have hnamed : d.named = true := by
      rcases hnm with h | h
      · exact h
      · simp [hwd] at h
    have hw0 : w ≠ 0 := by
      intro h0
      have := hw0n h0
      rw [hnamed] at this; cases this
    have hz0 : 0 < d.ty.size := by rw [hza]; exact hpa.pos
    have hU : 0 < 8 * d.ty.size := by omega
    cases w with
    | zero => exact absurd rfl hw0
    | succ n =>
    have h1 := le_bfPos c (8 * d.ty.size) (n + 1) hU
    have hF := Fits_of_bfPos (c := c) hU (by omega : 0 < n + 1) hww
    have hlt : bfPos c (8 * d.ty.size) (n + 1) / (8 * d.ty.size) * (8 * d.ty.size) < c + 8 * d.ty.size := by
      unfold bfPos
      split
      · have := Nat.div_mul_le_self c (8 * d.ty.size); omega
      · rename_i hnf
        have e : (c / (8 * d.ty.size) + 1) * (8 * d.ty.size) / (8 * d.ty.size) = c / (8 * d.ty.size) + 1 :=
          Nat.mul_div_cancel _ hU
        rw [e, Nat.add_mul, Nat.one_mul]
        have h6 := Nat.div_mul_le_self c (8 * d.ty.size)
        -- `c` is not a multiple of the unit: otherwise the field would fit at `c`
        have hne : c / (8 * d.ty.size) * (8 * d.ty.size) ≠ c := by
          intro heq
          apply hnf
          unfold Fits
          symm
          apply Nat.div_eq_of_lt_le
          · omega
          · rw [Nat.add_mul, Nat.one_mul]; omega
        omega
    have hps : placeStruct false c d = (bfPos c (8 * d.ty.size) (n + 1) + (n + 1),
        some ⟨bfPos c (8 * d.ty.size) (n + 1) / (8 * d.ty.size) * d.ty.size, bfPos c (8 * d.ty.size) (n + 1) % (8 * d.ty.size),
          8 * d.ty.size - bfPos c (8 * d.ty.size) (n + 1) % (8 * d.ty.size) - (n + 1), d.ty.size, d.ty.align, some (n + 1)⟩) := by
      simp only [placeStruct, hwd, hnamed, ↓reduceIte]
    generalize bfPos c (8 * d.ty.size) (n + 1) = p at *
    have h2 := Nat.div_add_mod p (8 * d.ty.size)
    have h3 := Nat.mod_lt p hU
    have h4 : 8 * (p / (8 * d.ty.size) * d.ty.size) = 8 * d.ty.size * (p / (8 * d.ty.size)) := by
      rw [Nat.mul_comm (p / (8 * d.ty.size)) d.ty.size, Nat.mul_assoc]
    have h4' : p / (8 * d.ty.size) * (8 * d.ty.size) = 8 * d.ty.size * (p / (8 * d.ty.size)) := Nat.mul_comm _ _
    have h5 : p % (8 * d.ty.size) + (n + 1) ≤ 8 * d.ty.size := by
      unfold Fits at hF
      have := (div_eq_iff (m := p + (n + 1) - 1) (k := p / (8 * d.ty.size)) hU).1 hF.symm
      rw [Nat.add_mul, Nat.one_mul, Nat.mul_comm (p / (8 * d.ty.size)) (8 * d.ty.size)] at this
      omega
    refine ⟨⟨p / (8 * d.ty.size) * d.ty.size, p % (8 * d.ty.size), 8 * d.ty.size - p % (8 * d.ty.size) - (n + 1),
      d.ty.size, d.ty.align, some (n + 1)⟩, ?_, ?_, ?_, ?_, ?_, ?_⟩
    · rw [hps]
      simp only [Member.bitEnd, Member.bitStart, Member.bitLen, h4]
      congr 1; omega
    · exact ⟨rfl, rfl, hwd.symm, by simp only [← hza]; exact Nat.dvd_mul_left _ _, hpa, fun _ => hza, hpa.pos⟩
    · simp only [Member.bitStart, h4]; omega
    · simp only [h4, ← hza]; rw [h4'] at hlt; omega
    · intro h; simp at h
    · intro w' _
      simp only [Member.bitStart, Member.bitEnd, Member.bitLen, h4, Nat.mul_add]
      omega

theorem structGo_tight : ∀ (ds : List Decl) (c : Nat), WfDecls false false ds → ds.all declOk = true →
    All2 DeclMem ds (structGo false c ds).2 ∧ Tight c (structGo false c ds).2 ∧
    (∀ m ∈ (structGo false c ds).2, (m.width = none → m.bitStart = 8 * m.offset ∧ m.bitEnd = 8 * (m.offset + m.tsize)) ∧
      (∀ w, m.width = some w → 8 * m.offset ≤ m.bitStart ∧ m.bitEnd ≤ 8 * (m.offset + m.tsize)))
  | [], _, _, _ => ⟨All2.nil, trivial, by simp [structGo]⟩
  | d :: ds, c, hwf, hok => by
    simp only [List.all_cons, Bool.and_eq_true] at hok
    obtain ⟨m, e, dm, t1, t2, t3, t4⟩ := placeStruct_tight (c := c) hwf.1 hok.1
    obtain ⟨i1, i2, i3⟩ := structGo_tight ds m.bitEnd hwf.2.2 hok.2
    simp only [structGo, e, Option.toList, List.singleton_append]
    refine ⟨All2.cons dm i1, ⟨t1, t2, i2⟩, ?_⟩
    intro x hx
    rcases List.mem_cons.1 hx with rfl | hx
    · exact ⟨t3, t4⟩
    · exact i3 x hx

end CprocVerif.AbiDesc

/-
  C01, fragment 𝔽₂ — `for` (stmt.c `case TFOR`; the first clause is a preceding statement): `for_cond`,
  the optional controlling expression with `funcjnz` to `for_body`/`for_join`, the body with
  `break` → `for_join`, `continue` → `for_cont`, the third clause, `jmp` back to `for_cond`.
-/
import CprocVerif.Lemmas.Lower2Do

set_option linter.unusedSimpArgs false

namespace CprocVerif.LowerMach2
open CprocVerif.Qbe CprocVerif.Lower CprocVerif.Lower2 CprocVerif.CSem CprocVerif.CSem2 CprocVerif.CInt
open CprocVerif.LowerArith CprocVerif.LowerMach CprocVerif.LowerMem

/-- an expression statement stays well-formed when more variables are in scope -/
theorem wt_simple_mono {vtys : List CSem.Ty} {ret : CSem.Ty} {st : Stmt} (hs : st.isSimple = true)
    {lb lc lb' lc' : Bool} {nd nd2 n' : Nat} (h : Stmt.wt vtys ret lb lc nd st = some n') (hle : nd ≤ nd2) :
    Stmt.wt vtys ret lb' lc' nd2 st = some nd2 := by
  cases st <;> simp only [Stmt.isSimple, Bool.false_eq_true] at hs
  · rfl
  · rename_i i t e
    simp only [Stmt.wt] at h ⊢
    split at h
    · rename_i hw
      rw [if_pos ⟨by omega, hw.2.1, hw.2.2.1, take_mono_wt3 hle e hw.2.2.2⟩]
    · cases h
  · rename_i i t inc
    simp only [Stmt.wt] at h ⊢
    split at h
    · rename_i hw
      rw [if_pos ⟨by omega, hw.2⟩]
    · cases h
  · rename_i e
    simp only [Stmt.wt] at h ⊢
    split at h
    · rename_i hw
      rw [if_pos (take_mono_wt3 hle e hw)]
    · cases h

section
variable (T : Stat) {s : Store} {out : CSem2.Outcome} {lp : Bool × Bool} {brk cont : String} {c : SCtx}
  {nd nd' : Nat} {pre post : List Item} {env : Env} {M : Mem}

/-- `for` after its head `hd` (condition and branch, or the bare label `for_body`), whose behaviour is
    given by `hhead`. -/
theorem sim_for_core (n : Nat) (ih : ∀ m, m ≤ n → SimStmt T m) (e : Option Expr3) (step b : Stmt)
    (hd : List Item × SCtx)
    (hex : exec T.S.cs T.P (n + 1) s (.for_ e step b) = some out) (hfs : frag T.P T.cnts T.W step = true) (hfb : frag T.P T.cnts T.W b = true)
    (hsimple : step.isSimple = true) {n2 : Nat}
    (hwb : Stmt.wt T.vtys T.ret true true nd b = some nd') (hws : Stmt.wt T.vtys T.ret false false nd step = some n2)
    (hp : Pos T c nd pre)
    (hph : Pos T hd.2 nd (pre ++ [.lbl none (lblName "for_cond" (c.blockid + 1)) []] ++ hd.1))
    (hbk : c.blockid + 4 ≤ hd.2.blockid)
    (hext : Ext T (funcstmt T.S.cs brk cont step ((funcstmt T.S.cs (lblName "for_join" (c.blockid + 4))
      (lblName "for_cont" (c.blockid + 3)) b hd.2).ctx.atLabel (lblName "for_cont" (c.blockid + 3)))).ctx)
    (hits : T.S.its = pre ++ ([labelItem c (lblName "for_cond" (c.blockid + 1))] ++ hd.1 ++
      (funcstmt T.S.cs (lblName "for_join" (c.blockid + 4)) (lblName "for_cont" (c.blockid + 3)) b hd.2).items ++
      [labelItem (funcstmt T.S.cs (lblName "for_join" (c.blockid + 4)) (lblName "for_cont" (c.blockid + 3)) b
        hd.2).ctx (lblName "for_cont" (c.blockid + 3))] ++
      (funcstmt T.S.cs brk cont step ((funcstmt T.S.cs (lblName "for_join" (c.blockid + 4))
        (lblName "for_cont" (c.blockid + 3)) b hd.2).ctx.atLabel (lblName "for_cont" (c.blockid + 3)))).items ++
      [labelItem ((funcstmt T.S.cs brk cont step ((funcstmt T.S.cs (lblName "for_join" (c.blockid + 4))
        (lblName "for_cont" (c.blockid + 3)) b hd.2).ctx.atLabel
        (lblName "for_cont" (c.blockid + 3)))).ctx.setJump (.jmp (lblName "for_cond" (c.blockid + 1))))
        (lblName "for_join" (c.blockid + 4))]) ++ post)
    (hhead : Ext T hd.2 → CanJump T.S (lblName "for_join" (c.blockid + 4)) →
      ∀ (m : Nat), m ≤ n → ∀ (s : Store) (env : Env) (M : Mem) (v : Int),
      (match e with
        | some e => evalE3 T.S.cs (callOf T.P fun s' st' => exec T.S.cs T.P m s' st') s e
        | none => some 1) = some v → SInv T.M0 T.S.cs T.cnts T.W T.σ T.vtys s env M →
      ∃ k env' st, T.Reach k (T.at env M (pre ++ [.lbl none (lblName "for_cond" (c.blockid + 1)) []])) st ∧
        SInv T.M0 T.S.cs T.cnts T.W T.σ T.vtys s env' M ∧
        (if v ≠ 0 then st = T.at env' M (pre ++ [.lbl none (lblName "for_cond" (c.blockid + 1)) []] ++ hd.1)
         else AtLabel T.S (lblName "for_join" (c.blockid + 4)) env' M st))
    (inv : SInv T.M0 T.S.cs T.cnts T.W T.σ T.vtys s env M) :
    Post T lp brk cont (T.at env M pre)
      (pre ++ ([labelItem c (lblName "for_cond" (c.blockid + 1))] ++ hd.1 ++
      (funcstmt T.S.cs (lblName "for_join" (c.blockid + 4)) (lblName "for_cont" (c.blockid + 3)) b hd.2).items ++
      [labelItem (funcstmt T.S.cs (lblName "for_join" (c.blockid + 4)) (lblName "for_cont" (c.blockid + 3)) b
        hd.2).ctx (lblName "for_cont" (c.blockid + 3))] ++
      (funcstmt T.S.cs brk cont step ((funcstmt T.S.cs (lblName "for_join" (c.blockid + 4))
        (lblName "for_cont" (c.blockid + 3)) b hd.2).ctx.atLabel (lblName "for_cont" (c.blockid + 3)))).items ++
      [labelItem ((funcstmt T.S.cs brk cont step ((funcstmt T.S.cs (lblName "for_join" (c.blockid + 4))
        (lblName "for_cont" (c.blockid + 3)) b hd.2).ctx.atLabel
        (lblName "for_cont" (c.blockid + 3)))).ctx.setJump (.jmp (lblName "for_cond" (c.blockid + 1))))
        (lblName "for_join" (c.blockid + 4))]))
      ((funcstmt T.S.cs brk cont step ((funcstmt T.S.cs (lblName "for_join" (c.blockid + 4))
        (lblName "for_cont" (c.blockid + 3)) b hd.2).ctx.atLabel
        (lblName "for_cont" (c.blockid + 3)))).ctx.atLabel (lblName "for_join" (c.blockid + 4))) out := by
  obtain ⟨hnb, hcb⟩ := wt_noDead _ _ b _ _ _ _ hwb
  have hns : noDead step = true := by
    cases step <;> simp only [Stmt.isSimple, Bool.false_eq_true] at hsimple <;> rfl
  have gb := funcstmt_good T.S.cs b (lblName "for_join" (c.blockid + 4)) (lblName "for_cont" (c.blockid + 3))
    hd.2 hph.jump hnb
  generalize hob : funcstmt T.S.cs (lblName "for_join" (c.blockid + 4)) (lblName "for_cont" (c.blockid + 3)) b
    hd.2 = ob at *
  have gs := funcstmt_good T.S.cs step brk cont (ob.ctx.atLabel (lblName "for_cont" (c.blockid + 3))) rfl hns
  generalize hos : funcstmt T.S.cs brk cont step (ob.ctx.atLabel (lblName "for_cont" (c.blockid + 3))) = os
    at *
  have hextb : Ext T ob.ctx := (hext.first gs).congr rfl rfl
  have b3 := gb.blockid
  -- the items
  have hits1 := hits
  simp only [List.append_assoc, List.singleton_append, List.cons_append, List.nil_append, labelItem,
    hp.jump, setJump_jump] at hits1
  have hits0 : T.S.its = pre ++ .lbl none (lblName "for_cond" (c.blockid + 1)) [] ::
      (hd.1 ++ (ob.items ++ .lbl ob.ctx.jump (lblName "for_cont" (c.blockid + 3)) [] ::
        (os.items ++ .lbl (some (os.ctx.jump.getD (.jmp (lblName "for_cond" (c.blockid + 1)))))
          (lblName "for_join" (c.blockid + 4)) [] :: post))) := hits1
  have hitsC : T.S.its = (pre ++ [.lbl none (lblName "for_cond" (c.blockid + 1)) []] ++ hd.1 ++ ob.items) ++
      .lbl ob.ctx.jump (lblName "for_cont" (c.blockid + 3)) [] ::
        (os.items ++ .lbl (some (os.ctx.jump.getD (.jmp (lblName "for_cond" (c.blockid + 1)))))
          (lblName "for_join" (c.blockid + 4)) [] :: post) := by
    rw [hits0]; simp only [List.append_assoc, List.singleton_append, List.cons_append, List.nil_append]
  have hitsJ : T.S.its = ((pre ++ [.lbl none (lblName "for_cond" (c.blockid + 1)) []] ++ hd.1 ++ ob.items) ++
      [.lbl ob.ctx.jump (lblName "for_cont" (c.blockid + 3)) []] ++ os.items) ++
      .lbl (some (os.ctx.jump.getD (.jmp (lblName "for_cond" (c.blockid + 1)))))
          (lblName "for_join" (c.blockid + 4)) [] :: post := by
    rw [hits0]; simp only [List.append_assoc, List.singleton_append, List.cons_append, List.nil_append]
  have hcc : CanJump T.S (lblName "for_cond" (c.blockid + 1)) := canJump_item T.S hits0
  have hct : CanJump T.S (lblName "for_cont" (c.blockid + 3)) := canJump_item T.S hitsC
  have hcj : CanJump T.S (lblName "for_join" (c.blockid + 4)) := canJump_item T.S hitsJ
  obtain ⟨hsl1, hsl2⟩ := slots_after hph gb hcb
  have hps : Pos T (ob.ctx.atLabel (lblName "for_cont" (c.blockid + 3))) nd'
      ((pre ++ [.lbl none (lblName "for_cond" (c.blockid + 1)) []] ++ hd.1 ++ ob.items) ++
        [.lbl ob.ctx.jump (lblName "for_cont" (c.blockid + 3)) []]) := by
    refine ⟨rfl, curOf_lbl _ _ _ _ _, ?_, hsl1, hsl2⟩
    unf
    exact curOK_label "for_cont" _ _ _ (by omega)
  have hws' : Stmt.wt T.vtys T.ret false false nd' step = some nd' := wt_simple_mono hsimple hws (by omega)
  have hhead := hhead (hextb.first gb) hcj
  have hitsbody : T.S.its = (pre ++ [.lbl none (lblName "for_cond" (c.blockid + 1)) []] ++ hd.1) ++ ob.items ++
      (.lbl ob.ctx.jump (lblName "for_cont" (c.blockid + 3)) [] ::
        (os.items ++ .lbl (some (os.ctx.jump.getD (.jmp (lblName "for_cond" (c.blockid + 1)))))
          (lblName "for_join" (c.blockid + 4)) [] :: post)) := by
    rw [hitsC]
  have hitsstep : T.S.its = ((pre ++ [.lbl none (lblName "for_cond" (c.blockid + 1)) []] ++ hd.1 ++ ob.items) ++
      [.lbl ob.ctx.jump (lblName "for_cont" (c.blockid + 3)) []]) ++ os.items ++
      (.lbl (some (os.ctx.jump.getD (.jmp (lblName "for_cond" (c.blockid + 1)))))
          (lblName "for_join" (c.blockid + 4)) [] :: post) := by
    rw [hitsJ]
  -- iterations, entered at `for_cond`
  have hQ : ∀ k, k ≤ n → ∀ (s : Store) (env : Env) (M : Mem) (out : CSem2.Outcome),
      exec T.S.cs T.P (k + 1) s (.for_ e step b) = some out → SInv T.M0 T.S.cs T.cnts T.W T.σ T.vtys s env M →
      Done T lp brk cont (T.at env M (pre ++ [.lbl none (lblName "for_cond" (c.blockid + 1)) []]))
        (((pre ++ [.lbl none (lblName "for_cond" (c.blockid + 1)) []] ++ hd.1 ++ ob.items) ++
          [.lbl ob.ctx.jump (lblName "for_cont" (c.blockid + 3)) []] ++ os.items) ++
          [.lbl (some (os.ctx.jump.getD (.jmp (lblName "for_cond" (c.blockid + 1)))))
            (lblName "for_join" (c.blockid + 4)) []]) out := by
    intro k
    induction k with
    | zero =>
      intro _ s env M out hex inv
      simp only [exec, Option.bind_eq_some_iff] at hex
      obtain ⟨v, hev, hex⟩ := hex
      obtain ⟨k1, env1, st, hreach, inv1, hat⟩ := hhead 0 (Nat.zero_le _) s env M v hev inv
      by_cases hv0 : v = 0
      · rw [if_pos hv0] at hex
        simp only [Option.some.injEq] at hex
        subst hex
        rw [if_neg (by simpa using hv0)] at hat
        have hst := atLabel_item T hitsJ hat
        subst hst
        exact ⟨k1, env1, M, hreach, inv1⟩
      · rw [if_neg hv0] at hex
        first | cases hex | (simp only [exec] at hex; cases hex)
    | succ k ihk =>
      intro hk s env M out hex inv
      simp only [exec, Option.bind_eq_some_iff] at hex
      obtain ⟨v, hev, hex⟩ := hex
      obtain ⟨k1, env1, st, hreach, inv1, hat⟩ := hhead (k + 1) hk s env M v hev inv
      by_cases hv0 : v = 0
      · rw [if_pos hv0] at hex
        simp only [Option.some.injEq] at hex
        subst hex
        rw [if_neg (by simpa using hv0)] at hat
        have hst := atLabel_item T hitsJ hat
        subst hst
        exact ⟨k1, env1, M, hreach, inv1⟩
      · rw [if_neg hv0] at hex
        rw [if_pos hv0] at hat
        subst hat
        -- the third clause and the jump back, entered at `for_cont`
        have hstep : ∀ (s' : Store) (env' : Env) (M' : Mem),
            (match exec T.S.cs T.P (k + 1) s' step with
              | some (.normal s'') => exec T.S.cs T.P (k + 1) s'' (.for_ e step b)
              | _ => none) = some out →
            SInv T.M0 T.S.cs T.cnts T.W T.σ T.vtys s' env' M' →
            Done T lp brk cont (T.at env' M' ((pre ++ [.lbl none (lblName "for_cond" (c.blockid + 1)) []] ++
              hd.1 ++ ob.items) ++ [.lbl ob.ctx.jump (lblName "for_cont" (c.blockid + 3)) []]))
              (((pre ++ [.lbl none (lblName "for_cond" (c.blockid + 1)) []] ++ hd.1 ++ ob.items) ++
                [.lbl ob.ctx.jump (lblName "for_cont" (c.blockid + 3)) []] ++ os.items) ++
                [.lbl (some (os.ctx.jump.getD (.jmp (lblName "for_cond" (c.blockid + 1)))))
                  (lblName "for_join" (c.blockid + 4)) []]) out := by
          intro s' env' M' hc inv'
          cases hes : exec T.S.cs T.P (k + 1) s' step with
          | none => rw [hes] at hc; cases hc
          | some os' =>
            rw [hes] at hc
            cases os' with
            | normal s'' =>
              simp only at hc
              have ps := ih (k + 1) hk step s' (.normal s'') (false, false) brk cont _ nd' nd' _ _ env' M' hes hfs hws'
                hps (by rw [hos]; exact hext) (by rw [hos]; exact hitsstep) ⟨(by intro h; cases h), (by intro h; cases h)⟩ inv'
              rw [hos] at ps
              obtain ⟨hjs, k2, env2, M2, hr2, inv2⟩ := ps
              have hitsJ' := hitsJ
              rw [hjs] at hitsJ'
              obtain ⟨st3, hs3, hat3⟩ := step_jmp_item T hitsJ' hcc env2 M2
              have hst := atLabel_item T hits0 hat3
              subst hst
              exact (ihk (by omega) s'' env2 M2 out hc inv2).prepend (hr2.trans (Reach.one hs3))
            | brk _ => cases hc
            | cont _ => cases hc
            | ret _ => cases hc
        cases heb : exec T.S.cs T.P (k + 1) s b with
        | none => rw [heb] at hex; cases hex
        | some ob' =>
          rw [heb] at hex
          have pb := ih (k + 1) hk b s ob' (true, true) (lblName "for_join" (c.blockid + 4))
            (lblName "for_cont" (c.blockid + 3)) _ nd nd' _ _ env1 M heb hfb hwb hph
            (by rw [hob]; exact hextb) (by rw [hob]; exact hitsbody) ⟨fun _ => hcj, fun _ => hct⟩ inv1
          rw [hob] at pb
          have dn := pb.close hitsC ⟨fun _ => hcj, fun _ => hct⟩
          cases ob' with
          | normal s' =>
            simp only at hex
            obtain ⟨k2, env', M', hr2, inv'⟩ := dn
            exact (hstep s' env' M' hex inv').prepend (hreach.trans hr2)
          | cont s' =>
            simp only at hex
            obtain ⟨_, k2, env', M', st', inv', hr2, hat'⟩ := dn
            have hst := atLabel_item T hitsC hat'
            subst hst
            exact (hstep s' env' M' hex inv').prepend (hreach.trans hr2)
          | brk s' =>
            simp only [Option.some.injEq] at hex
            subst hex
            obtain ⟨_, k2, env', M', st', inv', hr2, hat'⟩ := dn
            have hst := atLabel_item T hitsJ hat'
            subst hst
            exact ⟨k1 + k2, env', M', hreach.trans hr2, inv'⟩
          | ret w =>
            simp only [Option.some.injEq] at hex
            subst hex
            obtain ⟨hrg, k2, st', r, hr2, hs2, hrr⟩ := dn
            exact ⟨hrg, k1 + k2, st', r, hreach.trans hr2, hs2, hrr⟩
  -- entering the loop
  have hstep0 := step_fall_item T hits0 env M
  have dn := (hQ n (Nat.le_refl _) s env M out hex inv).prepend (Reach.one hstep0)
  have := dn.post (o := os.ctx.atLabel (lblName "for_join" (c.blockid + 4))) rfl
  simp only [List.append_assoc, List.singleton_append, List.cons_append, List.nil_append, labelItem,
    hp.jump, setJump_jump] at this ⊢
  exact this

theorem sim_for (n : Nat) (hc : ∀ m, m ≤ n → CallOK T m) (ih : ∀ m, m ≤ n → SimStmt T m) (e : Option Expr3)
    (step b : Stmt)
    (hex : exec T.S.cs T.P (n + 1) s (.for_ e step b) = some out) (hfr : frag T.P T.cnts T.W (.for_ e step b) = true)
    (hwt : Stmt.wt T.vtys T.ret lp.1 lp.2 nd (.for_ e step b) = some nd') (hp : Pos T c nd pre)
    (hext : Ext T (funcstmt T.S.cs brk cont (.for_ e step b) c).ctx)
    (hits : T.S.its = pre ++ (funcstmt T.S.cs brk cont (.for_ e step b) c).items ++ post)
    (inv : SInv T.M0 T.S.cs T.cnts T.W T.σ T.vtys s env M) :
    Post T lp brk cont (T.at env M pre) (pre ++ (funcstmt T.S.cs brk cont (.for_ e step b) c).items)
      (funcstmt T.S.cs brk cont (.for_ e step b) c).ctx out := by
  simp only [Stmt.wt] at hwt
  split at hwt
  · rename_i hcw
    obtain ⟨hwe, hsimple, _⟩ := hcw
    simp only [Option.bind_eq_some_iff, Option.some.injEq] at hwt
    obtain ⟨n1, hwb, n2, hws, rfl⟩ := hwt
    cases e with
    | none =>
      simp only [frag, Bool.and_eq_true] at hfr
      simp only [funcstmt] at hext hits ⊢
      refine sim_for_core T n ih none step b
        ([Item.lbl none (lblName "for_body" (c.blockid + 2)) []],
          ((c.addBlocks 4).atLabel (lblName "for_cond" (c.blockid + 1))).atLabel
            (lblName "for_body" (c.blockid + 2)))
        hex hfr.1 hfr.2 hsimple hwb hws hp ?_ (Nat.le_refl _) (hext.congr rfl rfl) hits ?_ inv
      · refine ⟨rfl, curOf_lbl _ _ _ _ _, ?_, hp.nslots, hp.le⟩
        unf
        exact curOK_label "for_body" _ _ _ (by omega)
      · intro _ _ m _ s env M v hv inv
        simp only [Option.some.injEq] at hv
        subst hv
        obtain ⟨rest, hrest0⟩ : ∃ rest, T.S.its = pre ++ .lbl none (lblName "for_cond" (c.blockid + 1)) [] ::
            .lbl none (lblName "for_body" (c.blockid + 2)) [] :: rest := by
          have h' := hits
          simp only [List.append_assoc, List.singleton_append, List.cons_append, List.nil_append, labelItem,
            hp.jump] at h'
          exact ⟨_, h'⟩
        have hrest : T.S.its = (pre ++ [.lbl none (lblName "for_cond" (c.blockid + 1)) []]) ++
            .lbl none (lblName "for_body" (c.blockid + 2)) [] :: rest := by
          rw [hrest0]; simp only [List.append_assoc, List.singleton_append]
        refine ⟨1, env, _, Reach.one (step_fall_item T hrest env M), inv, ?_⟩
        rw [if_pos (by decide)]
    | some e =>
      simp only [optWtC] at hwe
      simp only [frag, Bool.and_eq_true] at hfr
      have hfe : efrag T e := by simp only [efrag, Bool.and_eq_true]; exact hfr.1
      have hfr := hfr.2
      have hj1 : ((c.addBlocks 4).atLabel (lblName "for_cond" (c.blockid + 1))).jump = none := rfl
      have hj2 : (((c.addBlocks 4).atLabel (lblName "for_cond" (c.blockid + 1))).upd
        (exprOut3 T.S.cs ((c.addBlocks 4).atLabel (lblName "for_cond" (c.blockid + 1))) e).ctx).jump = none := rfl
      simp only [funcstmt, lowerE3_eq T.S.cs hj1, lowerJnz_eq T.S.cs hj2] at hext hits ⊢
      have ge := exprOut3_good T.S.cs ((c.addBlocks 4).atLabel (lblName "for_cond" (c.blockid + 1))) e
      have sj := jnzArg_straight T.S.cs (((c.addBlocks 4).atLabel (lblName "for_cond" (c.blockid + 1))).upd
        (exprOut3 T.S.cs ((c.addBlocks 4).atLabel (lblName "for_cond" (c.blockid + 1))) e).ctx).ctx e.ty
        (exprOut3 T.S.cs ((c.addBlocks 4).atLabel (lblName "for_cond" (c.blockid + 1))) e).val
      change Straight _ (jnzOut T.S.cs (((c.addBlocks 4).atLabel (lblName "for_cond" (c.blockid + 1))).upd
        (exprOut3 T.S.cs ((c.addBlocks 4).atLabel (lblName "for_cond" (c.blockid + 1))) e).ctx) e.ty
        (exprOut3 T.S.cs ((c.addBlocks 4).atLabel (lblName "for_cond" (c.blockid + 1))) e).val) at sj
      have l1 := ge.lastid; have l2 := sj.lastid; have b1 := ge.blockid; have b2 := sj.blockid
      unf at l1 l2 b1 b2
      have hpc : Pos T ((c.addBlocks 4).atLabel (lblName "for_cond" (c.blockid + 1))) nd
          (pre ++ [.lbl none (lblName "for_cond" (c.blockid + 1)) []]) := by
        refine ⟨rfl, curOf_lbl _ _ _ _ _, ?_, hp.nslots, hp.le⟩
        unf
        exact curOK_label "for_cond" _ _ _ (by omega)
      refine sim_for_core T n ih (some e) step b
        ((exprOut3 T.S.cs ((c.addBlocks 4).atLabel (lblName "for_cond" (c.blockid + 1))) e).items ++
          (jnzOut T.S.cs (((c.addBlocks 4).atLabel (lblName "for_cond" (c.blockid + 1))).upd
            (exprOut3 T.S.cs ((c.addBlocks 4).atLabel (lblName "for_cond" (c.blockid + 1))) e).ctx) e.ty
            (exprOut3 T.S.cs ((c.addBlocks 4).atLabel (lblName "for_cond" (c.blockid + 1))) e).val).items ++
          [Item.lbl (some (.jnz (jnzOut T.S.cs (((c.addBlocks 4).atLabel
            (lblName "for_cond" (c.blockid + 1))).upd
            (exprOut3 T.S.cs ((c.addBlocks 4).atLabel (lblName "for_cond" (c.blockid + 1))) e).ctx) e.ty
            (exprOut3 T.S.cs ((c.addBlocks 4).atLabel (lblName "for_cond" (c.blockid + 1))) e).val).val
            (lblName "for_body" (c.blockid + 2)) (lblName "for_join" (c.blockid + 4))))
            (lblName "for_body" (c.blockid + 2)) []],
         ((((c.addBlocks 4).atLabel (lblName "for_cond" (c.blockid + 1))).upd
            (exprOut3 T.S.cs ((c.addBlocks 4).atLabel (lblName "for_cond" (c.blockid + 1))) e).ctx).upd
            (jnzOut T.S.cs (((c.addBlocks 4).atLabel (lblName "for_cond" (c.blockid + 1))).upd
            (exprOut3 T.S.cs ((c.addBlocks 4).atLabel (lblName "for_cond" (c.blockid + 1))) e).ctx) e.ty
            (exprOut3 T.S.cs ((c.addBlocks 4).atLabel (lblName "for_cond" (c.blockid + 1))) e).val).ctx).atLabel
            (lblName "for_body" (c.blockid + 2)))
        hex hfr.1 hfr.2 hsimple hwb hws hp ?_ ?_ (hext.congr rfl rfl) hits ?_ inv
      · refine ⟨rfl, ?_, ?_, hp.nslots, ?_⟩
        · simp only [← List.append_assoc]
          exact curOf_lbl _ _ _ _ _
        · unf
          exact curOK_label "for_body" _ _ _ (by omega)
        · intro i hi
          have := hp.le i hi
          unf
          omega
      · unf
        omega
      · intro hexth hcj m hm s env M v hv inv
        obtain ⟨rest, hrest⟩ : ∃ rest, T.S.its = (pre ++ [.lbl none (lblName "for_cond" (c.blockid + 1)) []]) ++
            (exprOut3 T.S.cs ((c.addBlocks 4).atLabel (lblName "for_cond" (c.blockid + 1))) e).items ++
            (jnzOut T.S.cs (((c.addBlocks 4).atLabel (lblName "for_cond" (c.blockid + 1))).upd
              (exprOut3 T.S.cs ((c.addBlocks 4).atLabel (lblName "for_cond" (c.blockid + 1))) e).ctx) e.ty
              (exprOut3 T.S.cs ((c.addBlocks 4).atLabel (lblName "for_cond" (c.blockid + 1))) e).val).items ++
            .lbl (some (.jnz (jnzOut T.S.cs (((c.addBlocks 4).atLabel
              (lblName "for_cond" (c.blockid + 1))).upd
              (exprOut3 T.S.cs ((c.addBlocks 4).atLabel (lblName "for_cond" (c.blockid + 1))) e).ctx) e.ty
              (exprOut3 T.S.cs ((c.addBlocks 4).atLabel (lblName "for_cond" (c.blockid + 1))) e).val).val
              (lblName "for_body" (c.blockid + 2)) (lblName "for_join" (c.blockid + 4))))
              (lblName "for_body" (c.blockid + 2)) [] :: rest := by
          have h' := hits
          simp only [List.append_assoc, List.singleton_append, List.cons_append, List.nil_append, labelItem,
            hp.jump] at h'
          obtain ⟨rest, hr⟩ : ∃ rest, T.S.its = pre ++ .lbl none (lblName "for_cond" (c.blockid + 1)) [] ::
              ((exprOut3 T.S.cs ((c.addBlocks 4).atLabel (lblName "for_cond" (c.blockid + 1))) e).items ++
              ((jnzOut T.S.cs (((c.addBlocks 4).atLabel (lblName "for_cond" (c.blockid + 1))).upd
                (exprOut3 T.S.cs ((c.addBlocks 4).atLabel (lblName "for_cond" (c.blockid + 1))) e).ctx) e.ty
                (exprOut3 T.S.cs ((c.addBlocks 4).atLabel (lblName "for_cond" (c.blockid + 1))) e).val).items ++
              .lbl (some (.jnz (jnzOut T.S.cs (((c.addBlocks 4).atLabel
                (lblName "for_cond" (c.blockid + 1))).upd
                (exprOut3 T.S.cs ((c.addBlocks 4).atLabel (lblName "for_cond" (c.blockid + 1))) e).ctx) e.ty
                (exprOut3 T.S.cs ((c.addBlocks 4).atLabel (lblName "for_cond" (c.blockid + 1))) e).val).val
                (lblName "for_body" (c.blockid + 2)) (lblName "for_join" (c.blockid + 4))))
                (lblName "for_body" (c.blockid + 2)) [] :: rest)) := ⟨_, h'⟩
          refine ⟨rest, ?_⟩
          rw [hr]; simp only [List.append_assoc, List.singleton_append, List.cons_append, List.nil_append]
        have hcb : CanJump T.S (lblName "for_body" (c.blockid + 2)) := canJump_item T.S hrest
        obtain ⟨k1, env1, st, hreach, inv1, hat⟩ := sim_branch T m (hc m hm) hpc e 0
          (by rw [addBlocks_zero]; exact hexth.congr rfl rfl) hwe hfe hv
          (by rw [addBlocks_zero]; exact hrest) hcb hcj inv
        refine ⟨k1, env1, st, hreach, inv1, ?_⟩
        by_cases hv0 : v ≠ 0
        · rw [if_pos hv0] at hat ⊢
          have hst := atLabel_item T hrest hat
          rw [hst]
          simp only [List.append_assoc]
        · rw [if_neg hv0] at hat ⊢
          exact hat
  · cases hwt

end

end CprocVerif.LowerMach2

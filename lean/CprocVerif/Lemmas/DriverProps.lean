import CprocVerif.Lemmas.DriverMain

/-! C17: consequences of `plan_eq_docPlan` used by the property theorems. -/

namespace CprocVerif.DriverLemmas
open CprocVerif.Driver CprocVerif.DriverDoc

/-- the user-option part of a tool's command as the code builds it (`-pthread` kept among the
linker options). -/
def implBase (cfg : Config) (arch : Str × Str) (c : Cmd) (st : Stage) : List Str :=
  configured cfg st ++ targetFlag arch st ++ c.items.flatMap (toolArgsP false (toolOf st))

/-- the plan of `docPlan .asImplemented`, spelled out. -/
def implPlan (cfg : Config) (arch : Str × Str) (c : Cmd) : Plan :=
  let base := implBase cfg arch c
  let nostdlib := c.items.contains .nostdlib
  { pipelines := docPipelines Opts.asImplemented base (docMode c) (docOutput c) 0 (docInputs c)
    link :=
      if docMode c = .link then
        some ((base .link).map .lit ++ [.lit (str "-o"), .lit ((docOutput c).getD (str "a.out"))] ++
          (if nostdlib then [] else cfg.startfiles.map .lit) ++
          docLinkWords Opts.asImplemented (docMode c) 0 (docInputs c) ++
          (if nostdlib then [] else cfg.endfiles.map .lit))
      else none
    unlinks := if docMode c = .link then docUnlinks Opts.asImplemented 0 (docInputs c) else []
    verbose := c.items.contains .verbose }

theorem docPlan_impl (cfg : Config) (c : Cmd) :
    docPlan .asImplemented cfg c =
      match docArch cfg.target with
      | none => .fatalTarget
      | some arch => if docRefuses c then .refused else .run (implPlan cfg arch c) := by
  unfold docPlan
  cases docArch cfg.target <;> rfl

theorem plan_run {cfg : Config} {c : Cmd} (h : c.WF = true) {p : Plan} (hp : plan cfg c.argv = .run p) :
    ∃ arch, docArch cfg.target = some arch ∧ docRefuses c = false ∧ p = implPlan cfg arch c := by
  have := plan_eq_docPlan cfg c h
  rw [hp, docPlan_impl] at this
  cases ha : docArch cfg.target with
  | none => simp [ha, toDoc] at this
  | some arch =>
    simp only [ha, toDoc] at this
    by_cases hr : docRefuses c = true
    · simp [hr] at this
    · have hr' : docRefuses c = false := by simpa using hr
      simp only [hr', Bool.false_eq_true, if_false, DocOutcome.run.injEq] at this
      exact ⟨arch, rfl, hr', this⟩

theorem plan_refused_iff {cfg : Config} {c : Cmd} (h : c.WF = true) {arch : Str × Str}
    (ha : docArch cfg.target = some arch) :
    (∃ w, plan cfg c.argv = .refused (.usage w)) ↔ docRefuses c = true := by
  have := plan_eq_docPlan cfg c h
  rw [docPlan_impl, ha] at this
  constructor
  · rintro ⟨w, hw⟩
    rw [hw] at this
    by_cases hr : docRefuses c = true
    · exact hr
    · simp [hr, toDoc] at this
  · intro hr
    simp only [hr, if_true] at this
    cases hp : plan cfg c.argv with
    | fatalTarget => simp [hp, toDoc] at this
    | run p => simp [hp, toDoc] at this
    | refused r => cases r with | usage w => exact ⟨w, rfl⟩

/-! ### structure of the pipelines -/

theorem mem_docPipelines {o : Opts} {base : Stage → List Str} {mode : Stage} {out : Option Str}
    {ins : List DocInput} : ∀ {i : Nat} {pl : Pipeline}, pl ∈ docPipelines o base mode out i ins →
    ∃ k d sts, ins[k]? = some d ∧ pl.input = i + k ∧ d.ftype ≠ .obj ∧ runStages mode d.ftype = some sts ∧
      pl.invs = docInvs base (if d.name = ['-'] then none else some d.name)
        (docOutName o.manualEmitQbe mode out (i + k) d.name) sts := by
  induction ins with
  | nil => intro i pl h; simp [docPipelines] at h
  | cons d r ih =>
    intro i pl h
    have lift : pl ∈ docPipelines o base mode out (i + 1) r →
        ∃ k d' sts, (d :: r)[k]? = some d' ∧ pl.input = i + k ∧ d'.ftype ≠ .obj ∧
          runStages mode d'.ftype = some sts ∧
          pl.invs = docInvs base (if d'.name = ['-'] then none else some d'.name)
            (docOutName o.manualEmitQbe mode out (i + k) d'.name) sts := fun h' => by
      obtain ⟨k, d', sts, h1, h2, h3, h4, h5⟩ := ih h'
      refine ⟨k + 1, d', sts, by simpa using h1, by omega, h3, h4, ?_⟩
      rw [h5]; congr 2; omega
    unfold docPipelines at h
    by_cases ho : d.ftype = .obj
    · simp only [ho, if_true] at h
      exact lift h
    · simp only [ho, if_false] at h
      cases hr : runStages mode d.ftype with
      | none => simp only [hr] at h; exact lift h
      | some sts =>
        simp only [hr, List.mem_cons] at h
        rcases h with rfl | h
        · exact ⟨0, d, sts, rfl, rfl, ho, hr, rfl⟩
        · exact lift h

theorem docInvs_base {base : Stage → List Str} {name : Option Str} {out : Option Word} {sts : List Stage}
    {inv : Inv} (h : inv ∈ docInvs base name out sts) : inv.base = base inv.stage ∧ inv.stage ∈ sts := by
  simp only [docInvs, List.mem_map] at h
  obtain ⟨st, hst, rfl⟩ := h
  exact ⟨rfl, hst⟩

theorem docInvs_stages (base : Stage → List Str) (name : Option Str) (out : Option Word) (sts : List Stage) :
    (docInvs base name out sts).map (·.stage) = sts := by
  simp [docInvs, Function.comp_def]

theorem runStages_no_link {mode : Stage} {t : FileType} {sts : List Stage} (h : runStages mode t = some sts) :
    ∀ st ∈ sts, st ≠ .link := by
  unfold runStages at h
  split at h
  · simp only [Option.some.injEq] at h
    subst h
    intro st hst
    simp only [List.mem_filter, Bool.and_eq_true, bne_iff_ne, ne_eq] at hst
    exact hst.2.2
  · simp at h

theorem flatMap_congr' {α β} {f g : α → List β} {l : List α} (h : ∀ a ∈ l, f a = g a) :
    l.flatMap f = l.flatMap g := by
  induction l with
  | nil => rfl
  | cons a r ih =>
    simp only [List.flatMap_cons]
    rw [h a (by simp), ih (fun x hx => h x (by simp [hx]))]

theorem toolArgsP_eq (t : Tool) (it : Item) (h : t ≠ .ld ∨ it ≠ .pthread) : toolArgsP false t it = toolArgs t it := by
  unfold toolArgsP
  split
  · rcases h with h | h <;> exact absurd rfl h
  · rfl

theorem implBase_eq_docBase (cfg : Config) (arch : Str × Str) (c : Cmd) (st : Stage) (h : st ≠ .link) :
    implBase cfg arch c st = docBase cfg arch c st := by
  unfold implBase docBase docArgs
  congr 1
  apply flatMap_congr'
  intro it _
  apply toolArgsP_eq
  left
  cases st <;> first | exact absurd rfl h | (simp [toolOf])

theorem implBase_link_noPthread (cfg : Config) (arch : Str × Str) (c : Cmd) (h : Item.pthread ∉ c.items) :
    implBase cfg arch c .link = docBase cfg arch c .link := by
  unfold implBase docBase docArgs
  congr 1
  apply flatMap_congr'
  intro it hit
  apply toolArgsP_eq
  right
  intro e; exact h (e ▸ hit)

/-- stage lists implied by a file type are in pipeline order -/
theorem docStages_sorted (t : FileType) : (docStages t).Pairwise (fun a b => a.idx < b.idx) := by
  cases t <;> decide

theorem runStages_sorted {mode : Stage} {t : FileType} {sts : List Stage} (h : runStages mode t = some sts) :
    sts.Pairwise (fun a b => a.idx < b.idx) := by
  unfold runStages at h
  split at h
  · simp only [Option.some.injEq] at h
    subst h
    exact (docStages_sorted t).filter _
  · simp at h


/-! ### the manual taken literally vs the code's reading -/

theorem expandPthread_id (c : Cmd) (h : Item.pthread ∉ c.items) : expandPthread c = c := by
  induction c with
  | nil => rfl
  | cons p r ih =>
    have hp : p.1 ≠ .pthread := by intro e; exact h (by simp [Cmd.items, e])
    have hr : Item.pthread ∉ Cmd.items r := by
      intro e; exact h (by simp only [Cmd.items, List.map_cons, List.mem_cons]; exact Or.inr e)
    have e : expandItem p = p := by
      obtain ⟨it, d⟩ := p
      cases it <;> first | rfl | exact absurd rfl hp
    show expandItem p :: expandPthread r = p :: r
    rw [e, ih hr]

theorem docLinkWords_opts (o o' : Opts) (mode : Stage) (ins : List DocInput) :
    ∀ i, docLinkWords o mode i ins = docLinkWords o' mode i ins := by
  induction ins with
  | nil => intro i; rfl
  | cons d r ih => intro i; simp only [docLinkWords, ih]

theorem docUnlinks_opts (o o' : Opts) (ins : List DocInput) :
    ∀ i, docUnlinks o i ins = docUnlinks o' i ins := by
  induction ins with
  | nil => intro i; rfl
  | cons d r ih => intro i; simp only [docUnlinks, ih]

theorem docOutName_opts (mode : Stage) (out : Option Str) (i : Nat) (n : Str)
    (h : ¬(mode = .compile ∧ out = none)) : docOutName true mode out i n = docOutName false mode out i n := by
  unfold docOutName
  cases mode <;> cases out <;> simp_all

theorem docPipelines_opts (o o' : Opts) (base : Stage → List Str) (mode : Stage) (out : Option Str)
    (ins : List DocInput)
    (h : ¬(mode = .compile ∧ out = none ∧
      ins.any (fun i => (runStages .compile i.ftype).isSome && i.ftype != .obj) = true)) :
    ∀ i, docPipelines o base mode out i ins = docPipelines o' base mode out i ins := by
  induction ins with
  | nil => intro i; rfl
  | cons d r ih =>
    intro i
    have hr : ¬(mode = .compile ∧ out = none ∧
        r.any (fun i => (runStages .compile i.ftype).isSome && i.ftype != .obj) = true) := by
      rintro ⟨a, b, c⟩; exact h ⟨a, b, by simp [List.any_cons, c]⟩
    simp only [docPipelines, ih hr]
    by_cases ho : d.ftype = .obj
    · simp [ho]
    · simp only [ho, if_false]
      cases hs : runStages mode d.ftype with
      | none => rfl
      | some sts =>
        have hne : ¬(mode = .compile ∧ out = none) := by
          rintro ⟨a, b⟩
          refine h ⟨a, b, ?_⟩
          subst a
          have : (d.ftype != FileType.obj) = true := by simpa using ho
          simp [List.any_cons, hs, this]
        have e : ∀ b b' : Bool, docOutName b mode out i d.name = docOutName b' mode out i d.name := by
          intro b b'
          cases b <;> cases b'
          · rfl
          · exact (docOutName_opts mode out i d.name hne).symm
          · exact docOutName_opts mode out i d.name hne
          · rfl
        simp only [e o.manualEmitQbe o'.manualEmitQbe]

theorem deviations_nil {c : Cmd} (h : deviations c = []) :
    Item.pthread ∉ c.items ∧
    ¬(docMode c = .compile ∧ docOutput c = none ∧
      (docInputs c).any (fun i => (runStages .compile i.ftype).isSome && i.ftype != .obj) = true) := by
  unfold deviations at h
  simp only [List.append_eq_nil_iff] at h
  obtain ⟨h1, h2⟩ := h
  constructor
  · intro hm
    have : c.items.contains Item.pthread = true := by simpa using hm
    simp [this] at h1
    exact h1 hm
  · intro hd
    simp [hd] at h2

theorem docPlan_manual_eq (cfg : Config) (c : Cmd) (h : deviations c = []) :
    docPlan .manual cfg c = docPlan .asImplemented cfg c := by
  obtain ⟨hp, he⟩ := deviations_nil h
  unfold docPlan
  cases docArch cfg.target with
  | none => rfl
  | some arch =>
    simp only [Opts.manual, Opts.asImplemented, if_true, Bool.false_eq_true, if_false, expandPthread_id c hp]
    by_cases hr : docRefuses c = true
    · simp [hr]
    · simp only [hr, if_false]
      have hb : ∀ t, c.items.flatMap (toolArgsP true t) = c.items.flatMap (toolArgsP false t) := by
        intro t
        apply flatMap_congr'
        intro it hit
        rw [toolArgsP_eq _ _ (Or.inr (fun e => hp (e ▸ hit)))]
        rfl
      simp only [hb]
      rw [docPipelines_opts _ ⟨false, false⟩ _ _ _ _ he, docLinkWords_opts _ ⟨false, false⟩,
        docUnlinks_opts _ ⟨false, false⟩]

/-! ### command lines outside the grammar -/

theorem parse_cmd_append (c : Cmd) (h : c.WF = true) (tail : List Str) : ∀ s : PState,
    parse s (c.argv ++ tail) = cont (updAll s c.items) tail := by
  induction c with
  | nil => intro s; simp [Cmd.argv, Cmd.items, updAll, cont]
  | cons p c ih =>
    intro s
    obtain ⟨it, d⟩ := p
    have hp : Item.WF (it, d) = true ∧ Cmd.WF c = true := by
      simpa [Cmd.WF, List.all_cons] using h
    show parse s ((it.render d ++ Cmd.argv c) ++ tail) = cont (updAll s (it :: Cmd.items c)) tail
    rw [List.append_assoc, parse_item s it d _ hp.1]
    simp only [updAll]
    cases upd s it with
    | ok s' => exact ih hp.2 s'
    | error e => rfl

def knownSecond : List Char :=
  ['n', 's', 'e', 'i', 'p', 'c', 'D', 'E', 'g', 'I', 'L', 'l', 'M', 'O', 'o', 'P', 'S', 'U', 'v', 'W', 'x']

theorem step_unknown (s : PState) (ch : Char) (rest : Str) (next : Option Str) (h : ch ∉ knownSecond) :
    step s ('-'::ch::rest) next = .refuse (.usage .unknownOpt) := by
  have e : ∀ x, x ∈ knownSecond → (ch == x) = false :=
    fun x hx => beq_eq_false_iff_ne.2 (fun e : ch = x => h (e ▸ hx))
  have e2 : ('s' == ch) = false := beq_eq_false_iff_ne.2 (fun e : 's' = ch => h (e ▸ by decide))
  have : firstMatch ('-'::ch::rest) = none := by
    simp [firstMatch, optRows, Match.matches, isPfx, List.find?, str, e2,
      e 'n' (by decide), e 's' (by decide), e 'e' (by decide), e 'i' (by decide), e 'p' (by decide),
      e 'c' (by decide), e 'D' (by decide), e 'E' (by decide), e 'g' (by decide), e 'I' (by decide),
      e 'L' (by decide), e 'l' (by decide), e 'M' (by decide), e 'O' (by decide), e 'o' (by decide),
      e 'P' (by decide), e 'S' (by decide), e 'U' (by decide), e 'v' (by decide), e 'W' (by decide),
      e 'x' (by decide)]
  simp [step, isInputArg, this]


def danglingFlags : List Str :=
  [str "-D", str "-U", str "-I", str "-L", str "-l", str "-o", str "-x", str "-include", str "-idirafter",
   str "-isystem", str "-iquote", str "-MT", str "-MF"]

theorem step_dangling (s : PState) (flag : Str) (h : flag ∈ danglingFlags) :
    step s flag none = .refuse (.usage .plain) := by
  simp only [danglingFlags, List.mem_cons, List.not_mem_nil, or_false] at h
  rcases h with rfl | rfl | rfl | rfl | rfl | rfl | rfl | rfl | rfl | rfl | rfl | rfl | rfl <;> rfl

/-! ### declarative views of the plan -/

def dstOf : Option Word → Dst
  | some w => .path w
  | none => .stdout

theorem docInvs_wiring {base : Stage → List Str} {name : Option Str} {out : Option Word} {sts : List Stage}
    {inv : Inv} (h : inv ∈ docInvs base name out sts) :
    (inv.src = .prev ↔ sts.head? ≠ some inv.stage) ∧ (inv.dst = .pipe ↔ sts.getLast? ≠ some inv.stage) ∧
    (inv.dst ≠ .pipe → inv.dst = dstOf out) := by
  simp only [docInvs, List.mem_map] at h
  obtain ⟨st, _, rfl⟩ := h
  refine ⟨?_, ?_, ?_⟩
  · by_cases hf : sts.head? = some st
    · cases name <;> simp [hf]
    · simp [hf]
  · by_cases hl : sts.getLast? = some st
    · cases out <;> simp [hl]
    · simp [hl]
  · by_cases hl : sts.getLast? = some st
    · cases out <;> simp [hl, dstOf]
    · simp [hl]

/-- what one input contributes to the link command -/
def linkWordsOfInput (p : DocInput × Nat) : List Word :=
  if p.1.lib then [.lit (str "-l"), .lit p.1.name]
  else if p.1.ftype = .obj then [.lit p.1.name]
  else if (docStages p.1.ftype).contains .link then [.tmp p.2]
  else []

theorem docLinkWords_zipIdx (o : Opts) (mode : Stage) (ins : List DocInput) :
    ∀ i, docLinkWords o mode i ins = (ins.zipIdx i).flatMap linkWordsOfInput := by
  induction ins with
  | nil => intro i; rfl
  | cons d r ih =>
    intro i
    simp only [docLinkWords, ih, List.zipIdx_cons, List.flatMap_cons, linkWordsOfInput]
    by_cases hl : d.lib = true
    · simp [hl]
    · by_cases ho : d.ftype = .obj
      · simp [hl, ho]
      · by_cases hp : (docStages d.ftype).contains .link = true
        · simp only [hl, ho, hp, if_false, if_true, Bool.false_eq_true]; rfl
        · simp only [hl, ho, hp, if_false, Bool.false_eq_true]; rfl

/-- the stages one input runs (none: it has no pipeline) -/
def stagesOfInput (mode : Stage) (p : DocInput × Nat) : Option (Nat × List Stage) :=
  if p.1.ftype = .obj then none else (runStages mode p.1.ftype).map fun sts => (p.2, sts)

theorem docPipelines_stages (o : Opts) (base : Stage → List Str) (mode : Stage) (out : Option Str)
    (ins : List DocInput) : ∀ i,
    (docPipelines o base mode out i ins).map (fun pl => (pl.input, pl.invs.map (·.stage))) =
      (ins.zipIdx i).filterMap (stagesOfInput mode) := by
  induction ins with
  | nil => intro i; rfl
  | cons d r ih =>
    intro i
    simp only [docPipelines, List.zipIdx_cons, List.filterMap_cons, stagesOfInput]
    by_cases ho : d.ftype = .obj
    · simp only [ho, if_true]; exact ih (i + 1)
    · simp only [ho, if_false]
      cases hs : runStages mode d.ftype with
      | none => simp only [Option.map]; exact ih (i + 1)
      | some sts =>
        simp only [Option.map, List.map_cons, docInvs_stages, ih (i + 1)]

end CprocVerif.DriverLemmas

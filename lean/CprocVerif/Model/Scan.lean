import CprocVerif.Model.Bytes
import CprocVerif.Gen.TokenKinds
import CprocVerif.Gen.Keywords

/-!
# Model of `/repo/scan.c` (and `pp.c:keyword`)

A pure, total transliteration of the scanner on a byte list.

## The reader

`nextchar` of scan.c reads the file one character at a time, removes backslash-newline pairs in
a single left-to-right pass (a backslash followed by anything else is pushed back with `ungetc`)
and keeps `s->loc`:  `'\n'` ⇒ `line+1, col 0`;  a removed pair ⇒ `line+1, col 0`;  anything else,
EOF included ⇒ `col+1`.  `readRaw` below is that loop, literally, on the remaining raw bytes.

The scanner state does not keep raw bytes but the same information pre-parsed (`group`): each
pending character together with the number of backslash-newline pairs that `nextchar` will
remove in front of it, plus the number of pairs in front of EOF (`trail`).  The head of `inp` is
the *current* character `s->chr` (already read, already accounted for in `loc`); `inp = []` is
`s->chr == EOF`.  `Lemmas/Scan.lean: readRaw_group` proves that popping `inp` and the literal
loop agree.  This representation makes "what the scanner sees" (`stream`) a plain `List.map`,
makes every loop terminate by the length of `inp`, and lets the one push-back of the scanner
(`..x`) be a `cons`.

`pos` is a ghost field (never inspected): the number of raw bytes consumed so far, the current
character included.  C11 uses it to name the byte offset where a token starts.

## Loops

C loops are recursion on a fuel argument that is initialised from `inp.length` (every iteration
consumes a character).  Running out of fuel is the distinguished error `ErrKind.fuel`, or returns
the state unchanged where the loop cannot fail; `Props/C13.lean: tokens_no_fuel` /
`scan_progress` prove it never happens.
-/

namespace CprocVerif.Scan
open CprocVerif.Gen.TokenKinds

/-- `struct location` without the file name (one scanner = one file; C11 adds the name). -/
structure Loc where
  line : Nat
  col : Nat
  deriving DecidableEq, Repr, Inhabited

/-- The `error(&s->loc, …)` exits of scan.c, plus `fuel` (model artefact, proved unreachable). -/
inductive ErrKind where
  | hexEscape      -- "invalid hexadecimal escape sequence"
  | escape         -- "invalid escape sequence"
  | nlChar         -- "newline in character constant"
  | nulChar        -- "null byte in character constant"
  | eofChar        -- "EOF in character constant"
  | nlStr          -- "newline in string literal"
  | nulStr         -- "null byte in string literal"
  | eofStr         -- "EOF in string literal"
  | eofComment     -- "EOF in comment"
  | fuel
  deriving DecidableEq, Repr, Inhabited

structure Err where
  loc : Loc
  kind : ErrKind
  deriving DecidableEq, Repr, Inhabited

/-! ## Reader -/

/-- The `for (;;)` loop of `nextchar`, literally, on the remaining raw bytes of the file:
returns the new `s->chr` (`none` = EOF), the remaining bytes and the new `s->loc`. -/
def readRaw : List UInt8 → Loc → Option UInt8 × List UInt8 × Loc
  | [], loc => (none, [], ⟨loc.line, loc.col + 1⟩)
  | [c], loc =>
    if c = c! '\n' then (some c, [], ⟨loc.line + 1, 0⟩)
    else (some c, [], ⟨loc.line, loc.col + 1⟩)      -- a final backslash: `ungetc(EOF)` is a no-op
  | c :: d :: r, loc =>
    if c = c! '\n' then (some c, d :: r, ⟨loc.line + 1, 0⟩)
    else if c = c! '\\' ∧ d = c! '\n' then readRaw r ⟨loc.line + 1, 0⟩
    else (some c, d :: r, ⟨loc.line, loc.col + 1⟩)   -- incl. backslash + other: `ungetc(d)`

/-- Pre-parse of the raw bytes: `(k, c)` = character `c` preceded by `k` backslash-newline pairs;
second component = number of pairs directly in front of EOF.  `k` is the accumulator. -/
def group : List UInt8 → Nat → List (Nat × UInt8) × Nat
  | [], k => ([], k)
  | [c], k => ([(k, c)], 0)
  | c :: d :: r, k =>
    if c = c! '\\' ∧ d = c! '\n' then group r (k + 1)
    else ((k, c) :: (group (d :: r) 0).1, (group (d :: r) 0).2)

/-- Translation phase 2 on its own: delete each backslash-newline pair, one left-to-right pass. -/
def unsplice : List UInt8 → List UInt8
  | [] => []
  | [c] => [c]
  | c :: d :: r => if c = c! '\\' ∧ d = c! '\n' then unsplice r else c :: unsplice (d :: r)

/-- `struct scanner` (one file). -/
structure S where
  /-- head = `s->chr` (already read), tail = what `getc` will deliver, each with the number of
  backslash-newline pairs removed in front of it; `[]` = `s->chr == EOF` -/
  inp : List (Nat × UInt8)
  /-- backslash-newline pairs in front of EOF, not yet read -/
  trail : Nat
  loc : Loc
  /-- `s->skipped`: line breaks passed by look-ahead that was pushed back -/
  skipped : Nat
  /-- ghost: raw bytes consumed so far (incl. the current character) -/
  pos : Nat
  buf : List UInt8
  usebuf : Bool
  sawspace : Bool
  deriving Repr, Inhabited

/-- `s->chr`; `none` is EOF. -/
def S.chr (s : S) : Option UInt8 := s.inp.head?.map (·.2)

/-- what the scanner will see from here on (current character first), after phase 2 -/
def S.stream (s : S) : List UInt8 := s.inp.map (·.2)

/-- `k` removed pairs: `line += k, col = 0` (nothing when `k = 0`). -/
def advSplice (loc : Loc) (k : Nat) : Loc := if k = 0 then loc else ⟨loc.line + k, 0⟩

def advChar (loc : Loc) (c : UInt8) : Loc :=
  if c = c! '\n' then ⟨loc.line + 1, 0⟩ else ⟨loc.line, loc.col + 1⟩

/-- account for the head of `inp` having just been read by `getc` (or EOF having been hit):
`if (s->skipped) { s->loc.line += s->skipped; s->loc.col = 0; s->skipped = 0; }` then the loop -/
def S.readHead (s : S) : S :=
  let l0 := advSplice s.loc s.skipped
  match s.inp with
  | [] =>
    let l := advSplice l0 s.trail
    { s with loc := ⟨l.line, l.col + 1⟩, skipped := 0, trail := 0, pos := s.pos + 2 * s.trail }
  | (k, c) :: _ =>
    { s with loc := advChar (advSplice l0 k) c, skipped := 0, pos := s.pos + 2 * k + 1 }

/-- `nextchar(s)`: `if (s->usebuf) bufadd(&s->buf, s->chr);` then read the next character.
(`bufadd` of `EOF` would store `(unsigned char)-1`; no caller does that.) -/
def S.nextchar (s : S) : S :=
  let s := if s.usebuf then { s with buf := s.buf ++ [s.chr.getD 0xff] } else s
  S.readHead { s with inp := s.inp.tail }

/-- `scanfrom(name, file)`: `loc = {1, 0}`, then `nextchar`. -/
def S.init (text : List UInt8) : S :=
  S.readHead { inp := (group text 0).1, trail := (group text 0).2, loc := ⟨1, 0⟩, skipped := 0, pos := 0,
               buf := [], usebuf := false, sawspace := false }

/-! ## `<ctype.h>` in the "C" locale, on `int` values `EOF, 0..255` -/

def isdigit (c : UInt8) : Bool := c! '0' ≤ c && c ≤ c! '9'
def isalpha (c : UInt8) : Bool := (c! 'a' ≤ c && c ≤ c! 'z') || (c! 'A' ≤ c && c ≤ c! 'Z')
def isalnum (c : UInt8) : Bool := isalpha c || isdigit c
def isxdigit (c : UInt8) : Bool :=
  isdigit c || (c! 'a' ≤ c && c ≤ c! 'f') || (c! 'A' ≤ c && c ≤ c! 'F')
/-- scan.c: `(unsigned)c - '0' < 8` -/
def isodigit (c : UInt8) : Bool := c! '0' ≤ c && c ≤ c! '7'

/-- lift a character class to `s->chr` (false at EOF) -/
def onChr (p : UInt8 → Bool) : Option UInt8 → Bool
  | none => false
  | some c => p c

/-- `isalnum(c) || c == '_'` -/
def isidchar (c : UInt8) : Bool := isalnum c || c = c! '_'

/-! ## Operators -/

def op2 (s : S) (t1 t2 : Kind) : Kind × S :=
  let s := s.nextchar
  if s.chr ≠ some (c! '=') then (t1, s) else (t2, s.nextchar)

def op3 (s : S) (t1 t2 t3 : Kind) : Kind × S :=
  let c := s.chr
  let s := s.nextchar
  if s.chr = some (c! '=') then (t2, s.nextchar)
  else if s.chr ≠ c then (t1, s)
  else (t3, s.nextchar)

def op4 (s : S) (t1 t2 t3 t4 : Kind) : Kind × S :=
  let c := s.chr
  let s := s.nextchar
  if s.chr = some (c! '=') then (t2, s.nextchar)
  else if s.chr ≠ c then (t1, s)
  else
    let s := s.nextchar
    if s.chr ≠ some (c! '=') then (t3, s) else (t4, s.nextchar)

/-! ## Identifiers and preprocessing numbers -/

/-- `while (isalnum(s->chr) || s->chr == '_') nextchar(s);` -/
def identLoop : Nat → S → S
  | 0, s => s
  | n + 1, s => if onChr isidchar s.chr then identLoop n s.nextchar else s

def ident (s : S) : Kind × S :=
  (.TIDENT, identLoop s.inp.length { s with usebuf := true })

/-- the `for (;;) { nextchar(s); switch (s->chr) … }` of `number`; the flag is `allowsign` -/
def numberLoop : Nat → Bool → S → S
  | 0, _, s => s
  | n + 1, allowsign, s =>
    let s := s.nextchar
    match s.chr with
    | none => s
    | some c =>
      if c = c! 'e' ∨ c = c! 'E' ∨ c = c! 'p' ∨ c = c! 'P' then numberLoop n true s
      else if c = c! '+' ∨ c = c! '-' then
        (if !allowsign then s else numberLoop n false s)
      else if c = c! '_' ∨ c = c! '.' then numberLoop n false s
      else if !isalnum c then s
      else numberLoop n false s

def number (s : S) : Kind × S :=
  (.TNUMBER, numberLoop s.inp.length false { s with usebuf := true })

/-! ## Character constants and string literals -/

/-- `do nextchar(s); while (isxdigit(s->chr));` -/
def hexLoop : Nat → S → S
  | 0, s => s
  | n + 1, s =>
    let s := s.nextchar
    if onChr isxdigit s.chr then hexLoop n s else s

/-- `strchr("'\"?\\abfnrtv", c)` for `c ≠ 0` -/
def issimpleesc (c : UInt8) : Bool :=
  c = c! '\'' || c = c! '"' || c = c! '?' || c = c! '\\' || c = c! 'a' || c = c! 'b' ||
  c = c! 'f' || c = c! 'n' || c = c! 'r' || c = c! 't' || c = c! 'v'

def escape (s : S) : Except Err S :=
  let s := s.nextchar
  if s.chr = some (c! 'x') then
    let s := s.nextchar
    if !onChr isxdigit s.chr then .error ⟨s.loc, .hexEscape⟩
    else .ok (hexLoop s.inp.length s)
  else if onChr isodigit s.chr then
    let s := s.nextchar
    if onChr isodigit s.chr then
      let s := s.nextchar
      if onChr isodigit s.chr then .ok s.nextchar else .ok s
    else .ok s
  else if onChr issimpleesc s.chr then .ok s.nextchar
  else .error ⟨s.loc, .escape⟩

/-- the `for (;;) switch (s->chr)` shared by `charconst` (`str = false`) and `stringlit` -/
def litLoop (str : Bool) : Nat → S → Except Err (Kind × S)
  | 0, s => .error ⟨s.loc, .fuel⟩
  | n + 1, s =>
    match s.chr with
    | none => .error ⟨s.loc, if str then .eofStr else .eofChar⟩
    | some c =>
      if c = c! '\\' then
        match escape s with
        | .error e => .error e
        | .ok s => litLoop str n s
      else if c = (if str then c! '"' else c! '\'') then
        .ok (if str then .TSTRINGLIT else .TCHARCONST, s.nextchar)
      else if c = c! '\n' then .error ⟨s.loc, if str then .nlStr else .nlChar⟩
      else if c = 0 then .error ⟨s.loc, if str then .nulStr else .nulChar⟩
      else litLoop str n s.nextchar

def charconst (s : S) : Except Err (Kind × S) :=
  let s := { s with usebuf := true }.nextchar
  litLoop false (s.inp.length + 1) s

def stringlit (s : S) : Except Err (Kind × S) :=
  let s := { s with usebuf := true }.nextchar
  litLoop true (s.inp.length + 1) s

/-! ## Comments -/

/-- `do nextchar(s); while (s->chr != '\n' && s->chr != EOF);` -/
def lineLoop : Nat → S → S
  | 0, s => s
  | n + 1, s =>
    let s := s.nextchar
    if s.chr ≠ some (c! '\n') ∧ s.chr ≠ none then lineLoop n s else s

/-- `do { last = s->chr; nextchar(s); if (s->chr == EOF) error(…); } while (last != '*' || s->chr != '/');` -/
def blockLoop : Nat → S → Except Err S
  | 0, s => .error ⟨s.loc, .fuel⟩
  | n + 1, s =>
    let last := s.chr
    let s := s.nextchar
    if s.chr = none then .error ⟨s.loc, .eofComment⟩
    else if last ≠ some (c! '*') ∨ s.chr ≠ some (c! '/') then blockLoop n s
    else .ok s

/-- `comment(s)`: `some s'` = a comment was skipped (`true`), `none` = `false` -/
def comment (s : S) : Except Err (Option S) :=
  if s.chr = some (c! '/') then
    .ok (some { lineLoop s.inp.length s with sawspace := true })
  else if s.chr = some (c! '*') then
    let s := s.nextchar
    match blockLoop (s.inp.length + 1) s with
    | .error e => .error e
    | .ok s => .ok (some { s.nextchar with sawspace := true })
  else .ok none

/-! ## `scankind` -/

/-- the `..x` exit of the `'.'` case:
`ungetc(s->chr, s->file); s->skipped = s->loc.line - oldloc.line - (s->chr == '\n');
s->loc = oldloc; s->chr = '.';`
(`s` is the state after the third `nextchar`; the pairs that were removed in front of the
pushed-back character are gone from the file, their line breaks are remembered in `skipped`) -/
def pushbackDot (s : S) (oldloc : Loc) : S :=
  match s.inp with
  | [] =>                                                              -- `ungetc(EOF)`: no-op
    { s with inp := [(0, c! '.')], skipped := s.loc.line - oldloc.line, loc := oldloc }
  | (_, x) :: r =>
    { s with inp := (0, c! '.') :: (0, x) :: r,
             skipped := s.loc.line - oldloc.line - (if x = c! '\n' then 1 else 0),
             loc := oldloc, pos := s.pos - 1 }

/-- `scankind(s, &loc)`: kind, the location captured at `again:`, the ghost byte count captured
at the same moment, and the new scanner state. -/
def scankind : Nat → S → Except Err (Kind × Loc × Nat × S)
  | 0, s => .error ⟨s.loc, .fuel⟩
  | fuel + 1, s =>
    let loc := s.loc
    let at_ := s.pos
    let ret (r : Kind × S) : Except Err (Kind × Loc × Nat × S) := .ok (r.1, loc, at_, r.2)
    let lift (r : Except Err (Kind × S)) : Except Err (Kind × Loc × Nat × S) :=
      match r with
      | .error e => .error e
      | .ok r => .ok (r.1, loc, at_, r.2)
    match s.chr with
    | none => .ok (.TEOF, loc, at_, s)
    | some c =>
      if c = c! ' ' ∨ c = c! '\t' ∨ c = 0x0c ∨ c = 0x0b then
        scankind fuel { s with sawspace := true }.nextchar
      else if c = c! '!' then ret (op2 s .TLNOT .TNEQ)
      else if c = c! '"' then lift (stringlit s)
      else if c = c! '#' then
        let s := s.nextchar
        if s.chr ≠ some (c! '#') then ret (.THASH, s) else ret (.THASHHASH, s.nextchar)
      else if c = c! '%' then ret (op2 s .TMOD .TMODASSIGN)
      else if c = c! '&' then ret (op3 s .TBAND .TBANDASSIGN .TLAND)
      else if c = c! '\'' then lift (charconst s)
      else if c = c! '*' then ret (op2 s .TMUL .TMULASSIGN)
      else if c = c! '+' then ret (op3 s .TADD .TADDASSIGN .TINC)
      else if c = c! '-' then
        let r := op3 s .TSUB .TSUBASSIGN .TDEC
        if r.1 ≠ .TSUB ∨ r.2.chr ≠ some (c! '>') then ret r else ret (.TARROW, r.2.nextchar)
      else if c = c! '/' then
        let r := op2 s .TDIV .TDIVASSIGN
        if r.1 = .TDIV then
          match comment r.2 with
          | .error e => .error e
          | .ok (some s) => scankind fuel s
          | .ok none => ret r
        else ret r
      else if c = c! '<' then ret (op4 s .TLESS .TLEQ .TSHL .TSHLASSIGN)
      else if c = c! '=' then ret (op2 s .TASSIGN .TEQL)
      else if c = c! '>' then ret (op4 s .TGREATER .TGEQ .TSHR .TSHRASSIGN)
      else if c = c! '^' then ret (op2 s .TXOR .TXORASSIGN)
      else if c = c! '|' then ret (op3 s .TBOR .TBORASSIGN .TLOR)
      else if c = c! '\n' then ret (.TNEWLINE, s.nextchar)
      else if c = c! '[' then ret (.TLBRACK, s.nextchar)
      else if c = c! ']' then ret (.TRBRACK, s.nextchar)
      else if c = c! '(' then ret (.TLPAREN, s.nextchar)
      else if c = c! ')' then ret (.TRPAREN, s.nextchar)
      else if c = c! '{' then ret (.TLBRACE, s.nextchar)
      else if c = c! '}' then ret (.TRBRACE, s.nextchar)
      else if c = c! '.' then
        let s := s.nextchar
        if onChr isdigit s.chr then ret (number { s with buf := s.buf ++ [c! '.'] })
        else if s.chr ≠ some (c! '.') then ret (.TPERIOD, s)
        else
          let oldloc := s.loc
          let s := s.nextchar
          if s.chr ≠ some (c! '.') then ret (.TPERIOD, pushbackDot s oldloc)
          else ret (.TELLIPSIS, s.nextchar)
      else if c = c! '~' then ret (.TBNOT, s.nextchar)
      else if c = c! '?' then ret (.TQUESTION, s.nextchar)
      else if c = c! ':' then
        let s := s.nextchar
        if s.chr ≠ some (c! ':') then ret (.TCOLON, s) else ret (.TCOLONCOLON, s.nextchar)
      else if c = c! ';' then ret (.TSEMICOLON, s.nextchar)
      else if c = c! ',' then ret (.TCOMMA, s.nextchar)
      else if c = c! 'L' ∨ c = c! 'U' ∨ c = c! 'u' then
        let s := { s with usebuf := true }.nextchar
        let s := if s.buf.head? = some (c! 'u') ∧ s.chr = some (c! '8') then s.nextchar else s
        if s.chr = some (c! '\'') then lift (charconst s)
        else if s.chr = some (c! '"') then lift (stringlit s)
        else ret (ident s)
      else if isdigit c then ret (number s)
      else if isalpha c ∨ c = c! '_' then ret (ident s)
      else ret (.TOTHER, { s with usebuf := true }.nextchar)

/-! ## `scan` and the token stream -/

/-- `struct token` (`hide` is always false here); `start` is a ghost: the raw byte offset of the
token's first character (for `TEOF`: the number of bytes consumed). -/
structure Token where
  kind : Kind
  /-- `t->lit` (`none` = `NULL`) -/
  lit : Option (List UInt8)
  loc : Loc
  space : Bool
  start : Nat
  deriving DecidableEq, Repr, Inhabited

/-- `scan(&t)` for a single file (`scanner->next == NULL`). -/
def scan (s : S) : Except Err (Token × S) :=
  match scankind (s.inp.length + 2) { s with sawspace := false } with
  | .error e => .error e
  | .ok (k, loc, at_, s) =>
    let start := if k = .TEOF then at_ else at_ - 1
    if s.usebuf then
      .ok (⟨k, some s.buf, loc, s.sawspace, start⟩, { s with buf := [], usebuf := false })
    else
      .ok (⟨k, none, loc, s.sawspace, start⟩, s)

/-- repeated `scan` until `TEOF` (which is included) or an error; the tokens delivered before an
error are kept, as the K-A harness prints them.  Out of fuel = no `TEOF` at the end and no error. -/
def tokensLoop : Nat → S → List Token × Option Err
  | 0, _ => ([], some ⟨⟨0, 0⟩, .fuel⟩)
  | n + 1, s =>
    match scan s with
    | .error e => ([], some e)
    | .ok (t, s) =>
      if t.kind = .TEOF then ([t], none)
      else ((t :: (tokensLoop n s).1), (tokensLoop n s).2)

/-- tokens printed before the end (or the diagnostic), and the diagnostic if any -/
def tokensP (text : List UInt8) : List Token × Option Err :=
  tokensLoop ((S.init text).inp.length + 1) (S.init text)

/-- The raw token stream of a source text. -/
def tokens (text : List UInt8) : Except Err (List Token) :=
  match tokensP text with
  | (ts, none) => .ok ts
  | (_, some e) => .error e

/-! ## `pp.c: keyword` -/

/-- `strcmp` on NUL-free byte strings (compares as `unsigned char`). -/
def strcmp : List UInt8 → List UInt8 → Ordering
  | [], [] => .eq
  | [], _ :: _ => .lt
  | _ :: _, [] => .gt
  | a :: as, b :: bs => if a < b then .lt else if b < a then .gt else strcmp as bs

/-- the `while (low < high)` bisection of `keyword`, on any table -/
def bsearch (tbl : List (List UInt8 × Kind)) (lit : List UInt8) : Nat → Nat → Nat → Option Kind
  | 0, _, _ => none
  | n + 1, low, high =>
    if low < high then
      let mid := (low + high) / 2
      match tbl[mid]? with
      | none => none                       -- (out of bounds cannot happen: mid < high ≤ length)
      | some e =>
        match strcmp lit e.1 with
        | .eq => some e.2
        | .lt => bsearch tbl lit n low mid
        | .gt => bsearch tbl lit n (mid + 1) high
    else none

/-- `keyword(tok)`: `some k` = the identifier becomes keyword `k`. -/
def keyword (lit : List UInt8) : Option Kind :=
  bsearch Gen.Keywords.table lit (Gen.Keywords.table.length + 1) 0 Gen.Keywords.table.length

/-- what `next()` does to a token that is not subject to macro expansion -/
def Token.toKeyword (t : Token) : Token :=
  if t.kind = .TIDENT then
    match t.lit.bind keyword with
    | some k => { t with kind := k, lit := none }
    | none => t
  else t

/-- `tokstr[k]` -/
def tokstr (k : Kind) : Option (List UInt8) := (Gen.TokenKinds.tokstr.find? (·.1 = k)).map (·.2)

/-- the source spelling of a token (what `tokenprint` writes, except that `tokenprint` has no
spelling for `TOTHER`) -/
def Token.spelling (t : Token) : List UInt8 :=
  match t.kind with
  | .TIDENT | .TNUMBER | .TCHARCONST | .TSTRINGLIT => t.lit.getD []
  | .TNEWLINE => [c! '\n']
  | .TEOF => []
  | .TOTHER => t.lit.getD []
  | k => (tokstr k).getD []

end CprocVerif.Scan

import CprocVerif.Model.Scan

/-!
# Model of the location bookkeeping of `/repo/pp.c` + `scan.c` (property C11)

`Model/Scan.lean` carries `struct location` (line, column) exactly as `nextchar` does.  This file
adds what the preprocessor does with locations, for source texts WITHOUT macro definitions:

* `scanP`      — `scan(&t)` with the file name of the scanner attached to the token;
* `directive`  — `pp.c: directive()`: the null directive, `# n ["file"] flags…` (gcc line markers),
                 `#line n ["file"]`, `#pragma`, the directives that are diagnosed, and the *time* at
                 which `scansetloc` runs: after the directive's `TNEWLINE` has been scanned, i.e.
                 after the scanner has read the first character of the next line (and every line
                 splice in front of it);
* `nextinto`   — `pp.c: nextinto()` with its `static bool newline`;
* `next`       — `pp.c: next()` for an empty macro table (`expand` is the identity there);
* `run`        — what `harness/scan_h.c` prints: `ppinit()`, then `next()` until `TEOF`.

Out of the modelled domain (distinct result `PErrKind.unmodelled`): `#define`, `#undef` (macro
expansion is property C12) and `#pragma` directly followed by `#` (pp.c re-enters `directive()`
from inside the pragma loop there).

Ghost data (never inspected by the model, used by the theorems and printed by the driver):
`PTok.off` = byte offset of the token's first character in the source text (for `TEOF`: the
length of the text); `PS.dirs` = log of the line directives that took effect:
(offset just behind the directive's new-line, line number, file name if one was given).

`Scan.Token.start` is `pos - 1` of the scanner at the token's first character; for the second `.`
of `..x` (after the push-back) the `k` line splices between that `.` and `x` have already been
consumed, `s.skipped = k` says so, and the offset of the `.` is `start - 2 * skipped`.
-/

namespace CprocVerif.PPLine
open CprocVerif.Scan CprocVerif.Gen.TokenKinds

/-- a token as the preprocessor delivers it: `struct token` with the full `struct location` -/
structure PTok where
  kind : Kind
  lit : Option (List UInt8)
  file : List UInt8
  line : Nat
  col : Nat
  space : Bool
  /-- ghost: byte offset of the first character -/
  off : Nat
  deriving DecidableEq, Repr, Inhabited

/-- the `msg` argument of the three `tokencheck` calls of `directive()` -/
inductive Ctx where
  | afterHash       -- "newline, or number after '#'"
  | afterLine       -- "after #line"
  | afterDirective  -- "after preprocessing directive"
  deriving DecidableEq, Repr, Inhabited

inductive PErrKind where
  /-- an `error(&s->loc, …)` of scan.c -/
  | scan (k : ErrKind)
  /-- `tokencheck`: "expected <want> <ctx>, saw …" -/
  | expected (want : Kind) (ctx : Ctx)
  /-- "#<name> directive is not implemented" -/
  | notImplemented (name : List UInt8)
  /-- "invalid preprocessor directive #<name>" -/
  | invalidDirective (name : List UInt8)
  /-- outside the modelled domain (`#define`, `#undef`, `#pragma #`) -/
  | unmodelled
  /-- model artefact (proved unreachable) -/
  | fuel
  deriving DecidableEq, Repr, Inhabited

/-- a diagnostic: the location `error()` prints, what it says, and (ghost) the token whose
location was passed to `error()` — `none` for diagnostics of scan.c, which pass `&s->loc` — and
the line directives that had taken effect when it was raised -/
structure PErr where
  file : List UInt8
  line : Nat
  col : Nat
  kind : PErrKind
  tok : Option PTok
  dirs : List (Nat × Nat × Option (List UInt8))
  deriving DecidableEq, Repr, Inhabited

/-- scanner + preprocessor state -/
structure PS where
  s : S
  /-- `scanner->loc.file` -/
  file : List UInt8
  /-- `static bool newline` of `nextinto` -/
  newline : Bool
  /-- ghost: line directives that took effect so far, in text order -/
  dirs : List (Nat × Nat × Option (List UInt8))
  deriving Repr, Inhabited

/-- `scanfrom(name, file)` -/
def PS.init (name : List UInt8) (text : List UInt8) : PS :=
  { s := S.init text, file := name, newline := true, dirs := [] }

def errTok (p : PS) (t : PTok) (k : PErrKind) : PErr := ⟨t.file, t.line, t.col, k, some t, p.dirs⟩

/-- `scan(&t)`: the token gets the scanner's current file name -/
def scanP (p : PS) : Except PErr (PTok × PS) :=
  match scan p.s with
  | .error e => .error ⟨p.file, e.loc.line, e.loc.col, .scan e.kind, none, p.dirs⟩
  | .ok (t, s') =>
    .ok (⟨t.kind, t.lit, p.file, t.loc.line, t.loc.col, t.space, t.start - 2 * p.s.skipped⟩,
         { p with s := s' })

/-! ## `directive()` -/

def isdigitB (c : UInt8) : Bool := c! '0' ≤ c && c ≤ c! '9'

/-- value of the leading decimal digits (accumulator first) -/
def digitsVal : List UInt8 → Nat → Nat
  | [], acc => acc
  | c :: r, acc => if isdigitB c then digitsVal r (10 * acc + (c.toNat - 48)) else acc

/-- `strtoull(lit, NULL, 10)` on the spelling of a preprocessing number (which starts with a digit
or with `.`): the leading digits in base 10, `ULLONG_MAX` when that does not fit -/
def lineValue (lit : List UInt8) : Nat := min (digitsVal lit 0) (2 ^ 64 - 1)

/-- `newloc.file = strchr(tok.lit, '"') + 1; *strchr(newloc.file, '"') = '\0';` — the bytes
between the first two double quotes of the spelling (no escape processing: `XXX` in pp.c) -/
def fileOf (lit : List UInt8) : List UInt8 :=
  ((lit.dropWhile (· ≠ c! '"')).drop 1).takeWhile (· ≠ c! '"')

/-- `while (tok.kind == TNUMBER) scan(&tok);` -/
def skipNumbers : Nat → PTok → PS → Except PErr (PTok × PS)
  | 0, t, p => .error (errTok p t .fuel)
  | n + 1, t, p =>
    if t.kind = .TNUMBER then
      match scanP p with
      | .error e => .error e
      | .ok (t', p') => skipNumbers n t' p'
    else .ok (t, p)

/-- `scansetloc(newloc, line)`:
`loc.line += scanner->loc.line - line; loc.col = scanner->loc.col; scanner->loc = loc;` -/
def setloc (p : PS) (n : Nat) (file : List UInt8) (line : Nat) : PS :=
  { p with s := { p.s with loc := ⟨n + (p.s.loc.line - line), p.s.loc.col⟩ }, file := file }

/-- the end of `directive()` for a line directive, from `while (tok.kind == TNUMBER) scan(&tok);`
on: `n` is the line number, `f` the file name if one was given, `file1` the current file name
(`tok.loc.file`), `t2` the current token -/
def lineDirEnd (n : Nat) (f : Option (List UInt8)) (file1 : List UInt8) (t2 : PTok) (p2 : PS) :
    Except PErr PS :=
  match skipNumbers (p2.s.inp.length + 2) t2 p2 with
  | .error e => .error e
  | .ok (t, p3) =>
    -- `scansetloc(newloc, tok.loc.line)`
    let p4 := setloc p3 n (f.getD file1) t.line
    -- `tokencheck(&tok, TNEWLINE, "after preprocessing directive")`
    if t.kind ≠ .TNEWLINE then .error (errTok p3 t (.expected .TNEWLINE .afterDirective))
    else .ok { p4 with dirs := p4.dirs ++ [(t.off + 1, n, f)] }

/-- the code from the label `line:` to the end of `directive()`; `num` is the `TNUMBER` token -/
def lineDir (num : PTok) (p : PS) : Except PErr PS :=
  let n := lineValue (num.lit.getD [])
  match scanP p with
  | .error e => .error e
  | .ok (t1, p1) =>
    -- `newloc.file = tok.loc.file; if (tok.kind == TSTRINGLIT) { …; scan(&tok); }`
    if t1.kind = .TSTRINGLIT then
      match scanP p1 with
      | .error e => .error e
      | .ok (t2, p2) => lineDirEnd n (some (fileOf (t1.lit.getD []))) t1.file t2 p2
    else lineDirEnd n none t1.file t1 p1

/-- the directives that `directive()` answers with "#… directive is not implemented" -/
def notImplemented : List (List UInt8) :=
  [b!"if", b!"ifdef", b!"ifndef", b!"elif", b!"endif", b!"include", b!"error"]

/-- `while (tok.kind != TNEWLINE && tok.kind != TEOF) next();` inside `directive()`, where
`PPNEWLINE` is set and no macro is defined: `next()` is `nextinto()` (+ `keyword`, which does not
touch locations).  `nextinto` still looks for `#` while its `newline` flag is set, which it is
for the first token after `pragma`: unmodelled. -/
def pragmaLoop : Nat → PTok → PS → Except PErr (PTok × PS)
  | 0, t, p => .error (errTok p t .fuel)
  | n + 1, t, p =>
    if t.kind = .TNEWLINE ∨ t.kind = .TEOF then .ok (t, p)
    else
      match scanP p with
      | .error e => .error e
      | .ok (t', p') =>
        if p'.newline = true ∧ t'.kind = .THASH then .error (errTok p' t' .unmodelled)
        else pragmaLoop n t' { p' with newline := decide (t'.kind = .TNEWLINE) }

/-- `directive()`; the `#` has been scanned.  Returns the state after the directive's new-line. -/
def directive (p : PS) : Except PErr PS :=
  match scanP p with
  | .error e => .error e
  | .ok (t, p1) =>
    if t.kind = .TNEWLINE then .ok p1                        -- empty directive
    else if t.kind = .TNUMBER then lineDir t p1              -- gcc line marker
    else if t.kind ≠ .TIDENT then .error (errTok p1 t (.expected .TIDENT .afterHash))
    else
      let name := t.lit.getD []
      if name ∈ notImplemented then .error (errTok p1 t (.notImplemented name))
      else if name = b!"define" ∨ name = b!"undef" then .error (errTok p1 t .unmodelled)
      else if name = b!"line" then
        match scanP p1 with
        | .error e => .error e
        | .ok (t2, p2) =>
          if t2.kind ≠ .TNUMBER then .error (errTok p2 t2 (.expected .TNUMBER .afterLine))
          else lineDir t2 p2
      else if name = b!"pragma" then
        match pragmaLoop (p1.s.inp.length + 2) t p1 with
        | .error e => .error e
        | .ok (t2, p2) =>
          if t2.kind ≠ .TNEWLINE then .error (errTok p2 t2 (.expected .TNEWLINE .afterDirective))
          else .ok p2
      else .error (errTok p1 t (.invalidDirective name))

/-! ## `nextinto`, `next`, the delivered stream -/

/-- `nextinto(t)`:
`for (;;) { scan(t); if (newline && t->kind == THASH) directive(); else { newline = t->kind == TNEWLINE; break; } }` -/
def nextinto : Nat → PS → Except PErr (PTok × PS)
  | 0, p => .error ⟨p.file, 0, 0, .fuel, none, p.dirs⟩
  | n + 1, p =>
    match scanP p with
    | .error e => .error e
    | .ok (t, p1) =>
      if p1.newline = true ∧ t.kind = .THASH then
        match directive p1 with
        | .error e => .error e
        | .ok p2 => nextinto n p2
      else .ok (t, { p1 with newline := decide (t.kind = .TNEWLINE) })

/-- `keyword(&tok)` on a delivered token -/
def PTok.toKeyword (t : PTok) : PTok :=
  if t.kind = .TIDENT then
    match t.lit.bind keyword with
    | some k => { t with kind := k, lit := none }
    | none => t
  else t

/-- `next()` with an empty macro table; `nl` = `ppflags & PPNEWLINE`:
`do rawnext(&t); while (expand(&t) || t.kind == TNEWLINE && !(ppflags & PPNEWLINE));` -/
def next (nl : Bool) : Nat → PS → Except PErr (PTok × PS)
  | 0, p => .error ⟨p.file, 0, 0, .fuel, none, p.dirs⟩
  | n + 1, p =>
    match nextinto (p.s.inp.length + 2) p with
    | .error e => .error e
    | .ok (t, p1) =>
      if t.kind = .TNEWLINE ∧ nl = false then next nl n p1
      else .ok (t.toKeyword, p1)

/-- result of a run: tokens delivered before the end (`TEOF` included) or the diagnostic, the
diagnostic if any, and the line directives that had taken effect at the end (when `TEOF` was
delivered, or when the diagnostic was raised) -/
structure Run where
  toks : List PTok
  err : Option PErr
  dirs : List (Nat × Nat × Option (List UInt8))
  deriving Repr, Inhabited

def runLoop (nl : Bool) : Nat → PS → Run
  | 0, p => ⟨[], some ⟨p.file, 0, 0, .fuel, none, p.dirs⟩, p.dirs⟩
  | n + 1, p =>
    match next nl (p.s.inp.length + 2) p with
    | .error e => ⟨[], some e, e.dirs⟩
    | .ok (t, p1) =>
      if t.kind = .TEOF then ⟨[t], none, p1.dirs⟩
      else
        let r := runLoop nl n p1
        ⟨t :: r.toks, r.err, r.dirs⟩

/-- `ppinit(); for (;;) { dump(tok); if (tok.kind == TEOF) break; next(); }` on `name`/`text` -/
def run (nl : Bool) (name : List UInt8) (text : List UInt8) : Run :=
  runLoop nl ((S.init text).inp.length + 2) (PS.init name text)

end CprocVerif.PPLine

/-!
# Executable model of `/repo/map.c`

Open addressing with linear probing, power-of-two capacity, growth (doubling and rehashing every
entry) when `cap / 2 < len` at the start of `mapput`.  There is no delete.

* A key is `(hash, bytes)`.  The hash is a FREE field: nothing in this file (or in the theorems
  about it) assumes that it is FNV-1a of the bytes, or even a function of the bytes.
  `keyequal` of map.c (equal hash, equal length, equal bytes) is structural equality of `Key`.
* Values are `Nat`, `0` = `NULL`.  `mapget` cannot distinguish "absent" from "stored NULL".
* The two C arrays `keys[]`/`vals[]` are one array of `Option (Key × Nat)`;
  `keys[i].str == NULL` is `slots[i] = none`.
* `i & (cap - 1)` is modelled as `i % cap`; `Lemmas/Map.lean` proves both agree for `cap = 2^k`
  (`mask_eq_mod`), and that the `&&&` version of the loop (`keyindexMask`) equals `keyindex`.
* The `while` loop of `keyindex` gets fuel `cap`; `none` means "did not stop within `cap` steps"
  (for the C code: never stops, since the probe sequence is periodic with period `cap`).
-/
namespace CprocVerif.Map

/-- `struct mapkey`: the hash is an independent field. -/
structure Key where
  hash : Nat
  bytes : List Nat
deriving DecidableEq, Repr, Inhabited

/-- One slot: `none` = `keys[i].str == NULL`; `some (k, v)` = key `k` with `vals[i] = v`. -/
abbrev Slot := Option (Key × Nat)

/-- `struct map`. -/
structure Map where
  cap : Nat
  len : Nat
  slots : Array Slot
deriving Repr, Inhabited

/-- `mapinit(h, cap)` (the C code asserts `!(cap & cap - 1)`; that is a caller obligation here). -/
def init (cap : Nat) : Map := { cap := cap, len := 0, slots := Array.replicate cap none }

/-- A `struct map` on which `mapinit` has not been called; only `len = 0` is meaningful
    (scope.c sets `len = 0` in `mkscope` and tests it before every use). -/
def uninit : Map := { cap := 0, len := 0, slots := #[] }

/-- The `while` loop of `keyindex`: first argument is the fuel, second the current index `i`. -/
def keyindexFrom (slots : Array Slot) (cap : Nat) (k : Key) : Nat → Nat → Option Nat
  | 0, _ => none
  | f+1, i =>
    match slots[i]? with
    | some (some (k', _)) => if k' = k then some i else keyindexFrom slots cap k f ((i + 1) % cap)
    | _ => some i

/-- `keyindex` on a raw slot array. -/
def keyindexS (slots : Array Slot) (cap : Nat) (k : Key) : Option Nat :=
  keyindexFrom slots cap k cap (k.hash % cap)

/-- `keyindex(h, k)`; `none` = the loop does not terminate. -/
def keyindex (m : Map) (k : Key) : Option Nat := keyindexS m.slots m.cap k

/-- The same loop written with `&` as in the C source (used only for the bridging lemma). -/
def keyindexFromMask (slots : Array Slot) (cap : Nat) (k : Key) : Nat → Nat → Option Nat
  | 0, _ => none
  | f+1, i =>
    match slots[i]? with
    | some (some (k', _)) =>
      if k' = k then some i else keyindexFromMask slots cap k f ((i + 1) &&& (cap - 1))
    | _ => some i

def keyindexMask (m : Map) (k : Key) : Option Nat :=
  keyindexFromMask m.slots m.cap k m.cap (k.hash &&& (m.cap - 1))

/-- Body of the rehash loop: `j = keyindex(h, &oldkeys[i]); keys[j] = oldkeys[i]; vals[j] = oldvals[i]`. -/
def reinsert (slots : Array Slot) (cap : Nat) (k : Key) (v : Nat) : Array Slot :=
  match keyindexS slots cap k with
  | some j => slots.setIfInBounds j (some (k, v))
  | none => slots

/-- The rehash loop over the old arrays, in index order. -/
def rehash (old : Array Slot) (cap : Nat) : Array Slot :=
  old.foldl (fun acc s =>
    match s with
    | some (k, v) => reinsert acc cap k v
    | none => acc) (Array.replicate cap none)

/-- The growth branch of `mapput`: `cap *= 2`, fresh arrays, rehash. `len` is unchanged. -/
def grow (m : Map) : Map :=
  { cap := m.cap * 2, len := m.len, slots := rehash m.slots (m.cap * 2) }

/-- The growth branch at the start of `mapput`: `if (h->cap / 2 < h->len) { … }`. -/
def maybeGrow (m : Map) : Map := if m.cap / 2 < m.len then grow m else m

/-- The rest of `mapput` after the growth branch:
    `i = keyindex(h, k); if (!h->keys[i].str) { keys[i] = *k; vals[i] = NULL; ++len; } return &vals[i];` -/
def mapputTail (m : Map) (k : Key) : Map × Nat :=
  match keyindex m k with
  | none => (m, 0)   -- unreachable under the invariant (`keyindex_terminates`)
  | some i =>
    match m.slots[i]? with
    | some (some _) => (m, i)
    | _ => ({ cap := m.cap, len := m.len + 1, slots := m.slots.setIfInBounds i (some (k, 0)) }, i)

/-- `mapput(h, k)`: returns the table and the index of the value slot (`&h->vals[i]`).
    A new key gets value `NULL`. -/
def mapput (m : Map) (k : Key) : Map × Nat := mapputTail (maybeGrow m) k

/-- `*p` for a pointer returned by `mapput`. -/
def valAt (m : Map) (i : Nat) : Nat :=
  match m.slots[i]? with
  | some (some (_, v)) => v
  | _ => 0

/-- `*p = v` for a pointer returned by `mapput` (the key in the slot is untouched). -/
def setVal (m : Map) (i : Nat) (v : Nat) : Map :=
  match m.slots[i]? with
  | some (some (k, _)) => { cap := m.cap, len := m.len, slots := m.slots.setIfInBounds i (some (k, v)) }
  | _ => m

/-- `*mapput(h, k) = v` (`v` may be `NULL`, e.g. `#undef`). -/
def put (m : Map) (k : Key) (v : Nat) : Map :=
  let r := mapput m k
  setVal r.1 r.2 v

/-- `entry = mapput(h, k); if (*entry) reuse *entry; else *entry = v;`
    (decl.c `stringdecl`, qbe.c `funcgoto`).  Returns the table and the value in the slot afterwards. -/
def putKeep (m : Map) (k : Key) (v : Nat) : Map × Nat :=
  let r := mapput m k
  let old := valAt r.1 r.2
  if old ≠ 0 then (r.1, old) else (setVal r.1 r.2 v, v)

/-- `mapget(h, k)`. -/
def get (m : Map) (k : Key) : Nat :=
  match keyindex m k with
  | none => 0   -- unreachable under the invariant (`keyindex_terminates`)
  | some i => valAt m i

end CprocVerif.Map

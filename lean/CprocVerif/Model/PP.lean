import CprocVerif.Model.Scan

/-!
# Model of the macro machinery of `/repo/pp.c`

A pure, total transliteration of `define`, `undef`, `macroequal`, `macroparam`, the context
stack (`ctxpush`, `ctxnext`, `macrodone`), `expand`, `expandfunc`, `argnext`, `stringize`,
`peekparen`, `nextinto`, `rawnext`, `directive`, `next` on a list of raw tokens.

## Input
The scanner is another property (C13): the model takes the raw `scan()` stream of the whole file
as a list of tokens (`TNEWLINE` tokens included, `TEOF` last).  After the list is exhausted the
scanner keeps delivering `TEOF` (as `scan()` does at the end of the last file).  A token of kind
`TNONE` (which `scan()` never delivers) stands for "the scanner diagnosed the text here".

## Tokens have value semantics
`rawnext` of the current tree copies the context token (`*t = *c`), so painting (`t->hide`) never
reaches the shared storage.  The writes that *do* go to shared storage are `t[0].space = space`
in `ctxpush`; every such cell is rewritten by the `ctxpush` that precedes its next read, so a
frame that carries its own copy of the tokens (first token re-spaced) is equivalent.
This is a stated difference: in the C code the *stored* replacement list (`m->token[0].space`) and
the stored argument (`arg->token[0].space`) no longer carry their original spacing once the macro
has been expanded, in the model they do.  The only other reader of a stored replacement list is
`macroequal`, which does not look at `space` (known finding `macroequal-ignores-space`) — a
`macroequal` that did would reject the byte-identical redefinition of a macro that has been used
without white space in front of its name.  The K-A comparison covers this with the stream
`redefine-after-use` of `checks/c12.py` (definitions, uses with and without white space before the
name, the same definitions again, uses again).

## Control
The C functions call each other recursively (`next → expand → expandfunc → expand …`,
`peekparen → nextinto → directive → next` for `#pragma`).  Every C function or loop is one
constructor of `Call`; its body is an ordinary definition that receives the recursive entry
`rec : Call → St → Res`; `exec (n+1) c = body c (exec n)`; `exec 0 = error fuel`.  A loop
iteration is a call, so fuel bounds the number of steps, and running out of it is the distinct
result `Err.fuel`.  Out-parameters (`struct token *t`) and return values travel in the registers
`St.rt` / `St.rb`.

`events` is a ghost field (only ever appended to): places where the code is known to deviate from
C11 (see known_findings.json); the check uses it to classify disagreements with the reference.
-/

namespace CprocVerif.PP
open CprocVerif.Gen.TokenKinds

abbrev Name := List UInt8

/-- `struct token` without the location -/
structure Tok where
  kind : Kind
  lit : Option Name := none
  space : Bool := false
  hide : Bool := false
  deriving DecidableEq, Repr, Inhabited

/-- `struct macroparam` (`flags` as three bits) -/
structure Param where
  name : Name
  ftok : Bool := false     -- PARAMTOK
  fstr : Bool := false     -- PARAMSTR
  fvar : Bool := false     -- PARAMVAR
  deriving DecidableEq, Repr, Inhabited

/-- `struct macroarg` -/
structure Arg where
  toks : List Tok
  str : Tok
  deriving DecidableEq, Repr, Inhabited

/-- `struct macro` -/
structure Macro where
  func : Bool              -- kind == MACROFUNC
  name : Name
  hide : Bool := false
  params : List Param := []
  args : List Arg := []
  body : List Tok := []
  deriving DecidableEq, Repr, Inhabited

/-- `struct frame`; `mac` is the name of `f->macro` (looked up in the table when needed) -/
structure Frame where
  toks : List Tok
  mac : Option Name
  deriving DecidableEq, Repr, Inhabited

inductive Err where
  | fuel
  | scan                 -- the scanner's own diagnostic
  | defineName           -- tokencheck "after #define"
  | paramAfterEllipsis   -- tokencheck "after '...'"
  | paramComma           -- tokencheck "or ')' after macro parameter"
  | paramName            -- tokencheck "of macro parameter name or '...'"
  | dupParam             -- "duplicate macro parameter '%s'"
  | hashhash             -- "'##' operator is not yet implemented"
  | vaArgs               -- "__VA_ARGS__ can only be used in variadic function-like macros"
  | hashIdent            -- tokencheck "after '#' operator"
  | hashNotParam         -- "'%s' is not a macro parameter name"
  | redefinition         -- "redefinition of macro '%s'"
  | undefName            -- tokencheck "after #undef"
  | dirName              -- tokencheck "newline, or number after '#'"
  | dirUnimpl (d : Name) -- "#%s directive is not implemented"
  | dirInvalid           -- "invalid preprocessor directive #%s"
  | lineNumber           -- tokencheck "after #line"
  | dirTrailing          -- tokencheck "after preprocessing directive"
  | eofInArgs            -- "EOF when reading macro parameters"
  | notEnoughArgs        -- "not enough arguments for macro '%s'"
  | tooManyArgs          -- "too many arguments for macro '%s'"
  | assertFail           -- the `assert`s of `ctxnext` (and impossible shapes)
  deriving DecidableEq, Repr, Inhabited

/-- ghost: known deviations from C11 met on the way -/
inductive Event where
  | strNested    -- a nested invocation swallowed tokens of a stringized argument
  | emptySpace   -- white space in front of an empty expansion was dropped
  | pragmaPeek   -- function-like macro name examined while reading a #pragma line
  | dirInPeek    -- a directive was executed while looking for '(' after a macro name
  | dirInArgs    -- a directive was executed inside a macro argument list (undefined, 6.10.3p11)
  | depthConf    -- the depth count no longer separates invocation level from nested level
  deriving DecidableEq, Repr, Inhabited

structure St where
  raw : List Tok                 -- what `scan()` will still deliver
  newline : Bool := true         -- `nextinto`'s static flag
  ctx : List Frame := []         -- head = top of the stack
  macros : List Macro := []      -- the table (association list; at most one entry per name)
  depth : Nat := 0               -- macrodepth
  ppnl : Bool := false           -- ppflags & PPNEWLINE
  tok : Tok := ⟨.TNONE, none, false, false⟩   -- the global `tok`
  rt : Tok := ⟨.TNONE, none, false, false⟩    -- register: token out-parameter / result
  rb : Bool := false             -- register: boolean result
  prag : Bool := false           -- ghost: inside the `while` of `#pragma`
  events : List Event := []
  deriving Repr, Inhabited

abbrev Res := Except Err St

def eofTok : Tok := ⟨.TEOF, none, false, false⟩

/-- `scan(&t)` -/
def scanTok (st : St) : Except Err (Tok × St) :=
  match st.raw with
  | [] => .ok (eofTok, st)
  | t :: r => if t.kind = .TNONE then .error .scan else .ok (t, { st with raw := r })

def St.ev (st : St) (e : Event) : St := { st with events := e :: st.events }

/-! ## The macro table -/

def macroget (ms : List Macro) (n : Name) : Option Macro := ms.find? (·.name = n)

def macrodel (ms : List Macro) (n : Name) : List Macro := ms.filter (·.name ≠ n)

/-- `*mapput(&macros, name) = m` -/
def macroset (ms : List Macro) (m : Macro) : List Macro := m :: macrodel ms m.name

def setHide (ms : List Macro) (n : Name) (b : Bool) : List Macro :=
  ms.map fun m => if m.name = n then { m with hide := b } else m

def setArgs (ms : List Macro) (n : Name) (a : List Arg) : List Macro :=
  ms.map fun m => if m.name = n then { m with args := a } else m

/-- `macroparam(m, t)`: index of the first parameter named like the identifier `t` -/
def macroparam (ps : List Param) (t : Tok) : Option Nat :=
  if t.kind = .TIDENT then
    let i := ps.findIdx (fun p => some p.name = t.lit)
    if i < ps.length then some i else none
  else none

/-- `macrovarargs(m)` -/
def macrovarargs (func : Bool) (ps : List Param) : Bool :=
  func && (match ps.getLast? with | some p => p.fvar | none => false)

/-- the token comparison loop of `macroequal` (same length checked by the caller) -/
def tokensEqual : List Tok → List Tok → Bool
  | [], [] => true
  | a :: as, b :: bs =>
    if a.kind ≠ b.kind then false
    else if a.lit.isSome && a.lit ≠ b.lit then false
    else tokensEqual as bs
  | _, _ => false

def paramsEqual : List Param → List Param → Bool
  | [], [] => true
  | p :: ps, q :: qs =>
    if p.name ≠ q.name || p.ftok ≠ q.ftok || p.fstr ≠ q.fstr || p.fvar ≠ q.fvar then false
    else paramsEqual ps qs
  | _, _ => false

/-- `macroequal(m1, m2)` -/
def macroequal (m1 m2 : Macro) : Bool :=
  if m1.func ≠ m2.func then false
  else if m1.func && !(m1.params.length = m2.params.length && paramsEqual m1.params m2.params) then false
  else if m1.body.length ≠ m2.body.length then false
  else tokensEqual m1.body m2.body

/-! ## `define` -/

def vaName : Name := b!"__VA_ARGS__"

/-- one parameter: `...`, or an identifier that is not yet a parameter (`ps` = those before it) -/
def mkParam (ps : List Param) (t : Tok) : Except Err Param :=
  if t.kind = .TELLIPSIS then .ok ⟨vaName, false, false, true⟩
  else if t.kind = .TIDENT then
    if ps.any (fun q => q.name = t.lit.getD []) then .error .dupParam
    else .ok ⟨t.lit.getD [], false, false, false⟩
  else .error .paramName

/-- the `while (scan(&tok), tok.kind != TRPAREN)` loop of `define`; parameters accumulate in
reverse; returns them in order together with what the scanner still holds -/
def paramLoop : List Param → List Tok → Except Err (List Param × List Tok)
  | [], [] => .error .paramName            -- TEOF
  | p :: _, [] => if p.fvar then .error .paramAfterEllipsis else .error .paramComma
  | ps, t :: r =>
    if t.kind = .TNONE then .error .scan
    else if t.kind = .TRPAREN then .ok (ps.reverse, r)
    else match ps with
      | [] =>
        match mkParam [] t with
        | .error e => .error e
        | .ok p => paramLoop [p] r
      | p :: _ =>
        if p.fvar then .error .paramAfterEllipsis
        else if t.kind ≠ .TCOMMA then .error .paramComma
        else match r with
          | [] => .error .paramName
          | t2 :: r2 =>
            if t2.kind = .TNONE then .error .scan
            else match mkParam ps t2 with
              | .error e => .error e
              | .ok p' => paramLoop (p' :: ps) r2

def setFtok (ps : List Param) (i : Nat) : List Param := ps.modify i fun p => { p with ftok := true }
def setFstr (ps : List Param) (i : Nat) : List Param := ps.modify i fun p => { p with fstr := true }

/-- what one pass through the body loop of `define` does after `scan(t)` delivered `t`
(`prev` = kind of the token before it, `i` = parameter index of that token) -/
def bodyStep (func : Bool) (ps : List Param) (i : Option Nat) (prev : Kind) (t : Tok) :
    Except Err (List Param × Option Nat) :=
  if ¬ func then .ok (ps, i)
  else
    let ps1 := match i with | some k => setFtok ps k | none => ps
    let i' := macroparam ps1 t
    if prev = .THASH then
      if t.kind ≠ .TIDENT then .error .hashIdent
      else match i' with
        | none => .error .hashNotParam
        | some k => .ok (setFstr ps1 k, none)
    else .ok (ps1, i')

/-- the `while (t->kind != TNEWLINE && t->kind != TEOF)` loop of `define`: `t` is the token under
examination, `acc` the replacement list so far (reversed); result: parameters with their flags,
replacement list, the terminating token, what the scanner still holds -/
def bodyLoop (func va : Bool) :
    List Param → Option Nat → Tok → List Tok → List Tok → Except Err (List Param × List Tok × Tok × List Tok)
  | ps, i, t, acc, raw =>
    if t.kind = .TNEWLINE ∨ t.kind = .TEOF then .ok (ps, acc.reverse, t, raw)
    else if t.kind = .THASHHASH then .error .hashhash
    else if t.kind = .TIDENT ∧ t.lit = some vaName ∧ ¬ va then .error .vaArgs
    else match raw with
      | [] =>
        match bodyStep func ps i t.kind eofTok with
        | .error e => .error e
        | .ok r => .ok (r.1, (t :: acc).reverse, eofTok, [])
      | t' :: r =>
        if t'.kind = .TNONE then .error .scan
        else match bodyStep func ps i t.kind t' with
          | .error e => .error e
          | .ok x => bodyLoop func va x.1 x.2 t' (t :: acc) r

/-- `define()`; on entry `st.tok` is the token after `define` -/
def define (st : St) : Except Err St :=
  if st.tok.kind ≠ .TIDENT then .error .defineName
  else
    let name := st.tok.lit.getD []
    match scanTok st with
    | .error e => .error e
    | .ok (t, st1) =>
      let hd : Except Err (Bool × List Param × Tok × St) :=
        if t.kind = .TLPAREN ∧ t.space = false then
          match paramLoop [] st1.raw with
          | .error e => .error e
          | .ok (ps, raw) =>
            match scanTok { st1 with raw := raw } with
            | .error e => .error e
            | .ok (t1, st2) => .ok (true, ps, t1, st2)
        else .ok (false, [], t, st1)
      match hd with
      | .error e => .error e
      | .ok (func, ps, t1, st2) =>
        match bodyLoop func (macrovarargs func ps) ps (macroparam ps t1) t1 [] st2.raw with
        | .error e => .error e
        | .ok (ps', body, endt, raw) =>
          let m : Macro := { func := func, name := name, hide := false, params := ps', args := [], body := body }
          let st3 := { st2 with raw := raw, tok := endt }
          match macroget st3.macros name with
          | some old =>
            if macroequal m old then .ok { st3 with macros := macroset st3.macros m }
            else .error .redefinition
          | none => .ok { st3 with macros := macroset st3.macros m }

/-- `undef()`; on entry `st.tok` is the token after `undef` -/
def undef (st : St) : Except Err St :=
  if st.tok.kind ≠ .TIDENT then .error .undefName
  else
    let st1 := { st with macros := macrodel st.macros (st.tok.lit.getD []) }
    match scanTok st1 with
    | .error e => .error e
    | .ok (t, st2) => .ok { st2 with tok := t }

/-- `while (tok.kind == TNUMBER) scan(&tok);` -/
def skipNumbers : Tok → List Tok → Except Err (Tok × List Tok)
  | t, raw =>
    if t.kind ≠ .TNUMBER then .ok (t, raw)
    else match raw with
      | [] => .ok (eofTok, [])
      | t' :: r => if t'.kind = .TNONE then .error .scan else skipNumbers t' r

/-- the `line:` part of `directive`; on entry `st.tok` is the line number -/
def lineDir (st : St) : Except Err St :=
  match scanTok st with
  | .error e => .error e
  | .ok (t, st1) =>
    let r : Except Err (Tok × St) :=
      if t.kind = .TSTRINGLIT then scanTok st1 else .ok (t, st1)
    match r with
    | .error e => .error e
    | .ok (t1, st2) =>
      match skipNumbers t1 st2.raw with
      | .error e => .error e
      | .ok (t2, raw) => .ok { st2 with raw := raw, tok := t2 }

/-! ## `stringize` -/

/-- `t->lit ? t->lit : tokstr[t->kind]` (nothing when both are null) -/
def spell (t : Tok) : List UInt8 :=
  match t.lit with
  | some l => l
  | none => (Scan.tokstr t.kind).getD []

/-- a backslash in front of every `\` and `"` -/
def escLit : List UInt8 → List UInt8
  | [] => []
  | c :: r => if c = c! '\\' ∨ c = c! '"' then c! '\\' :: c :: escLit r else c :: escLit r

/-- `stringize(buf, t)` -/
def stringize (buf : List UInt8) (t : Tok) : List UInt8 :=
  let buf1 :=
    if (t.space || t.kind = .TNEWLINE) && decide (buf.length > 1) && buf.getLast? != some (c! ' ')
    then buf ++ [c! ' '] else buf
  if t.kind = .TSTRINGLIT ∨ t.kind = .TCHARCONST then buf1 ++ escLit (spell t) else buf1 ++ spell t

/-! ## Calls -/

/-- the locals of `expandfunc` -/
structure EF where
  m : Macro
  i : Nat
  depth : Nat
  paren : Nat
  t : Tok
  done : List Arg        -- finished arguments, last first
  cur : List Tok         -- tokens of the argument under collection, last first
  str : List UInt8       -- its string under construction
  deriving Repr, Inhabited

inductive Call where
  | next                         -- `next()`
  | rawnext                      -- `rawnext(&rt)`
  | ctxnext                      -- `rb = (rt = ctxnext()) != NULL`
  | nextinto                     -- `nextinto(&rt)`
  | directive                    -- `directive()`
  | pragmaLoop                   -- the `while` of `#pragma`
  | peekparen                    -- `rb = peekparen()`
  | peekLoop (pending : List Tok)   -- its `do … while`, look-ahead so far (last first)
  | expand (t : Tok)             -- `rb = expand(&t); rt = t`
  | argLoop (space : Bool)       -- `argnext(&rt)` (`argLoop false`)
  | expandfunc (m : Macro)       -- `expandfunc(m)`
  | efLoop (e : EF)              -- its inner `for (;;)`
  deriving Repr, Inhabited

/-- the `for (…; ctx.len; …)` loop at the head of `ctxnext`, `macrodone` included -/
def popDone : List Frame → List Macro → Nat → List Frame × List Macro × Nat
  | [], ms, d => ([], ms, d)
  | f :: rest, ms, d =>
    if f.toks.isEmpty then
      match f.mac with
      | some n => popDone rest (setHide ms n false) (d - 1)
      | none => popDone rest ms d
    else (f :: rest, ms, d)

/-- `ctxpush(t, n, m, space)` as a value: the tokens with `t[0].space = space` -/
def respace (ts : List Tok) (space : Bool) : List Tok :=
  match ts with
  | [] => []
  | t :: r => { t with space := space } :: r

def strTok (s : List UInt8) : Tok := ⟨.TSTRINGLIT, some s, false, false⟩

/-- one pass through `ctxnext` from the label `again:`; `again st'` = the `goto again` of an
empty argument -/
inductive CtxStep where
  | done (r : Res)
  | again (st : St)

def ctxnextStep (st0 : St) : CtxStep :=
  let p := popDone st0.ctx st0.macros st0.depth
  let st : St := { st0 with ctx := p.1, macros := p.2.1, depth := p.2.2 }
  match st.ctx with
  | [] => .done (.ok { st with rb := false })
  | f :: rest =>
    match f.toks with
    | [] => .done (.error .assertFail)
    | t :: more =>
      let plain : CtxStep := .done (.ok { st with ctx := { f with toks := more } :: rest, rb := true, rt := t })
      match f.mac.bind (macroget st.macros) with
      | none => plain
      | some m =>
        if ¬ m.func then plain
        else if t.kind = .THASH then
          match more with
          | [] => .done (.error .assertFail)
          | t2 :: more2 =>
            match macroparam m.params t2 with
            | none => .done (.error .assertFail)
            | some i =>
              .done (.ok { st with ctx := ⟨[], none⟩ :: { f with toks := more2 } :: rest, rb := true,
                                   rt := { (m.args.getD i default).str with space := t.space } })
        else if t.kind = .TIDENT then
          match macroparam m.params t with
          | none => plain
          | some i =>
            match (m.args.getD i default).toks with
            | [] =>
              let st1 : St := { st with ctx := { f with toks := more } :: rest }
              .again (if t.space then st1.ev .emptySpace else st1)
            | a :: as =>
              .done (.ok { st with ctx := ⟨as, none⟩ :: { f with toks := more } :: rest, rb := true,
                                   rt := { a with space := t.space } })
        else plain

section bodies
variable (rec : Call → St → Res)

def ctxnextBody (st0 : St) : Res :=
  match ctxnextStep st0 with
  | .done r => r
  | .again st1 => rec .ctxnext st1

def rawnextBody (st : St) : Res :=
  match rec .ctxnext st with
  | .error e => .error e
  | .ok st1 => if st1.rb then .ok st1 else rec .nextinto st1

def nextintoBody (st : St) : Res :=
  match scanTok st with
  | .error e => .error e
  | .ok (t, st1) =>
    if st1.newline ∧ t.kind = .THASH then
      match rec .directive st1 with
      | .error e => .error e
      | .ok st2 => rec .nextinto st2
    else .ok { st1 with newline := decide (t.kind = .TNEWLINE), rt := t }

def argLoopBody (space : Bool) (st : St) : Res :=
  match rec .rawnext st with
  | .error e => .error e
  | .ok st1 =>
    -- ghost: more than one raw token gone for one delivered = a directive ran in between
    let st1 := if st1.raw.length + 1 < st.raw.length then st1.ev .dirInArgs else st1
    if st1.rt.kind = .TNEWLINE then rec (.argLoop true) st1
    else if space then .ok { st1 with rt := { st1.rt with space := true } }
    else .ok st1

def peekparenBody (st0 : St) : Res :=
  let st := if st0.prag then st0.ev .pragmaPeek else st0
  match rec .ctxnext st with
  | .error e => .error e
  | .ok st1 =>
    if st1.rb then
      if st1.rt.kind = .TLPAREN then .ok { st1 with rb := true }
      else match st1.ctx with
        | [] => .error .assertFail
        | f :: rest => .ok { st1 with ctx := { f with toks := st1.rt :: f.toks } :: rest, rb := false }
    else rec (.peekLoop []) st1

def peekLoopBody (pending : List Tok) (st : St) : Res :=
  let raw0 := st.raw
  match rec .nextinto st with
  | .error e => .error e
  | .ok st1 =>
    let t := st1.rt
    -- ghost: more than one raw token gone for one delivered = a directive ran in between
    let st1 := if st1.raw.length + 1 < raw0.length then st1.ev .dirInPeek else st1
    if t.kind = .TNEWLINE then rec (.peekLoop (t :: pending)) st1
    else if t.kind = .TLPAREN then .ok { st1 with rb := true }
    else
      .ok { st1 with ctx := ⟨(t :: pending).reverse, none⟩ :: st1.ctx, rb := false }

def pushMacro (m : Macro) (t1 : Tok) (space : Bool) (st : St) : Res :=
  let st1 : St := if m.body.isEmpty ∧ space then st.ev .emptySpace else st
  .ok { st1 with ctx := ⟨respace m.body space, some m.name⟩ :: st1.ctx,
                 macros := setHide st1.macros m.name true, depth := st1.depth + 1,
                 rb := true, rt := t1 }

def expandBody (t : Tok) (st : St) : Res :=
  if t.kind ≠ .TIDENT then .ok { st with rb := false, rt := t }
  else
    match macroget st.macros (t.lit.getD []) with
    | none => .ok { st with rb := false, rt := { t with hide := true } }
    | some m =>
      let t1 : Tok := if m.hide then { t with hide := true } else t
      if t1.hide then .ok { st with rb := false, rt := t1 }
      else if m.func then
        match rec .peekparen st with
        | .error e => .error e
        | .ok st1 =>
          if ¬ st1.rb then .ok { st1 with rb := false, rt := t1 }
          else match rec (.expandfunc m) st1 with
            | .error e => .error e
            | .ok st2 => pushMacro m t1 t.space st2
      else pushMacro m t1 t.space st

/-- after the argument loops of `expandfunc`: the two count checks, `m->arg = arg` -/
def efFinish (e : EF) (st : St) : Res :=
  if e.i + 1 < e.m.params.length then .error .notEnoughArgs
  else if e.t.kind ≠ .TRPAREN then .error .tooManyArgs
  else .ok { st with macros := setArgs st.macros e.m.name e.done.reverse }

/-- head of the outer `for (i …; i < m->nparam; …)` -/
def efStart (e : EF) (st : St) : Res :=
  if e.i < e.m.params.length then rec (.efLoop { e with cur := [], str := [c! '"'] }) st
  else efFinish e st

def expandfuncBody (m : Macro) (st : St) : Res :=
  match rec (.argLoop false) st with
  | .error e => .error e
  | .ok st1 =>
    efStart rec { m := m, i := 0, depth := st.depth, paren := 0, t := st1.rt, done := [], cur := [],
                  str := [c! '"'] } st1

def efLoopBody (e : EF) (st : St) : Res :=
  let p := e.m.params.getD e.i default
  let t := e.t
  if t.kind = .TEOF then .error .eofInArgs
  else
    let lvl : Bool := decide (st.depth ≤ e.depth)
    let depth := if lvl then st.depth else e.depth
    if lvl ∧ e.paren = 0 ∧ (t.kind = .TRPAREN ∨ (t.kind = .TCOMMA ∧ p.fvar = false)) then
      let arg : Arg := ⟨e.cur.reverse, if p.fstr then strTok (e.str ++ [c! '"']) else default⟩
      let e1 : EF := { e with depth := depth, done := arg :: e.done }
      -- a comma that ends the argument for the last parameter begins one argument too many
      if t.kind = .TRPAREN ∨ e.i + 1 = e.m.params.length then efFinish e1 st
      else match rec (.argLoop false) st with
        | .error er => .error er
        | .ok st1 => efStart rec { e1 with i := e.i + 1, t := st1.rt } st1
    else
      let paren :=
        if lvl then
          (if t.kind = .TLPAREN then e.paren + 1 else if t.kind = .TRPAREN then e.paren - 1 else e.paren)
        else e.paren
      let str := if lvl ∧ p.fstr then stringize e.str t else e.str
      if p.ftok then
        match rec (.expand t) st with
        | .error er => .error er
        | .ok st1 =>
          let cur := if st1.rb then e.cur else st1.rt :: e.cur
          let st1 := if st1.rb ∧ st1.depth ≤ depth then st1.ev .depthConf else st1
          -- ghost: a macro was replaced inside an argument that is also stringized; an invocation in its
          -- replacement may take its parentheses from the argument, and those never reach `stringize`
          let st1 := if st1.rb ∧ p.fstr then st1.ev .strNested else st1
          match rec (.argLoop false) st1 with
          | .error er => .error er
          | .ok st2 => rec (.efLoop { e with depth := depth, paren := paren, str := str, cur := cur, t := st2.rt }) st2
      else
        match rec (.argLoop false) st with
        | .error er => .error er
        | .ok st2 => rec (.efLoop { e with depth := depth, paren := paren, str := str, t := st2.rt }) st2

def dirIs (t : Tok) (s : Name) : Bool := t.lit == some s

def directiveBody (st : St) : Res :=
  match scanTok st with
  | .error e => .error e
  | .ok (t, st0) =>
    let st1 : St := { st0 with tok := t }
    if t.kind = .TNEWLINE then .ok st1
    else
      let old := st1.ppnl
      let st1 : St := { st1 with ppnl := true }
      let fin (r : Except Err St) : Res :=
        match r with
        | .error e => .error e
        | .ok s => if s.tok.kind = .TNEWLINE then .ok { s with ppnl := old } else .error .dirTrailing
      let scanInto (s : St) (k : St → Except Err St) : Except Err St :=
        match scanTok s with
        | .error e => .error e
        | .ok (t', s') => k { s' with tok := t' }
      if t.kind = .TNUMBER then fin (lineDir st1)
      else if t.kind ≠ .TIDENT then .error .dirName
      else if dirIs t b!"if" ∨ dirIs t b!"ifdef" ∨ dirIs t b!"ifndef" ∨ dirIs t b!"elif" ∨ dirIs t b!"endif"
              ∨ dirIs t b!"include" then .error (.dirUnimpl (t.lit.getD []))
      else if dirIs t b!"define" then fin (scanInto st1 define)
      else if dirIs t b!"undef" then fin (scanInto st1 undef)
      else if dirIs t b!"line" then
        fin (scanInto st1 fun s => if s.tok.kind ≠ .TNUMBER then .error .lineNumber else lineDir s)
      else if dirIs t b!"error" then .error (.dirUnimpl (t.lit.getD []))
      else if dirIs t b!"pragma" then
        fin (match rec .pragmaLoop { st1 with prag := true } with
             | .error e => .error e
             | .ok s => .ok { s with prag := st.prag })
      else .error .dirInvalid

def pragmaLoopBody (st : St) : Res :=
  if st.tok.kind ≠ .TNEWLINE ∧ st.tok.kind ≠ .TEOF then
    match rec .next st with
    | .error e => .error e
    | .ok st1 => rec .pragmaLoop st1
  else .ok st

/-- `keyword(&tok)` -/
def toKeyword (t : Tok) : Tok :=
  if t.kind = .TIDENT then
    match t.lit.bind Scan.keyword with
    | some k => { t with kind := k, lit := none }
    | none => t
  else t

def nextBody (st : St) : Res :=
  match rec .rawnext st with
  | .error e => .error e
  | .ok st1 =>
    match rec (.expand st1.rt) st1 with
    | .error e => .error e
    | .ok st2 =>
      if st2.rb ∨ (st2.rt.kind = .TNEWLINE ∧ st2.ppnl = false) then rec .next st2
      else .ok { st2 with tok := toKeyword st2.rt }

def body (c : Call) (st : St) : Res :=
  match c with
  | .next => nextBody rec st
  | .rawnext => rawnextBody rec st
  | .ctxnext => ctxnextBody rec st
  | .nextinto => nextintoBody rec st
  | .directive => directiveBody rec st
  | .pragmaLoop => pragmaLoopBody rec st
  | .peekparen => peekparenBody rec st
  | .peekLoop p => peekLoopBody rec p st
  | .expand t => expandBody rec t st
  | .argLoop s => argLoopBody rec s st
  | .expandfunc m => expandfuncBody rec m st
  | .efLoop e => efLoopBody rec e st

end bodies

/-- the C functions, `fuel` steps deep -/
def exec : Nat → Call → St → Res
  | 0, _, _ => .error .fuel
  | n + 1, c, st => body (exec n) c st

/-- `ppinit(); for (;;) { dump(tok); if (tok.kind == TEOF) break; next(); }`: the tokens delivered
before the end (TEOF included) or before the diagnostic, and the diagnostic -/
def run : Nat → St → List Tok × Option Err
  | 0, _ => ([], some .fuel)
  | n + 1, st =>
    match exec n .next st with
    | .error e => ([], some e)
    | .ok st1 =>
      if st1.tok.kind = .TEOF then ([st1.tok], none)
      else (st1.tok :: (run n st1).1, (run n st1).2)

def St.init (raw : List Tok) (ppnl : Bool) : St := { raw := raw, ppnl := ppnl }

end CprocVerif.PP

/-!
# Model of `/repo/tree.c` (AVL tree with stored heights) and of the `casesearch` ladder

`treeinsert` walks down from the root remembering the address of every child slot it follows
(`a[MAXH]`), hangs the new node in the last slot and then walks the remembered slots back up
calling `balance` on each one *until `balance` returns 0* (height of that subtree unchanged).
Ancestors above that point are not touched: their stored `height` field is not recomputed.

The model is the recursive presentation of exactly that loop: `ins` returns the new subtree, a
flag "the loop is still running" (`balance` returned non-zero on the way up so far) and the `new`
flag of the node that `treeinsert` returns.  Keys are `Nat` (`unsigned long long` in C; the model
does not need the bound).  Heights are the STORED `height` fields.

`search` is the run-time meaning of the comparison ladder that `qbe.c:casesearch` emits from the
tree: `ceq`/`cult` of class `w` look at the low 32 bits of both operands only, class `l` at the
low 64 bits.
-/

namespace CprocVerif.Tree

/-- `struct treenode`: key, stored height, `child[0]`, `child[1]`.  `nil` is the null pointer. -/
inductive T where
  | nil
  | node (key : Nat) (h : Nat) (l r : T)
deriving Repr, DecidableEq, Inhabited

open T

/-- `height(n)`: the stored height, 0 for the null pointer. -/
def ht : T → Nat
  | nil => 0
  | node _ h _ _ => h

/-- `n->child[d]` (`false` = 0 = left, `true` = 1 = right). -/
def child (t : T) (d : Bool) : T :=
  match t, d with
  | nil, _ => nil
  | node _ _ l _, false => l
  | node _ _ _ r, true => r

/-- A node whose `child[d]` is `c` and whose `child[!d]` is `other`. -/
def mk (key h : Nat) (d : Bool) (c other : T) : T :=
  if d then node key h other c else node key h c other

/-- `rot(p, x, dir)`: the new subtree root stored to `*p`.  `y = x->child[dir]`,
`z = y->child[!dir]`.  The heights written are the ones the C code writes (computed from the
stored height of `z` only).  Where the C code would dereference a null pointer (never happens
from `balance` on an AVL tree) the model returns `x` unchanged. -/
def rot (x : T) (dir : Bool) : T :=
  match x with
  | nil => nil
  | node kx _ _ _ =>
    let a := child x (!dir)
    match child x dir with
    | nil => x
    | y@(node ky _ _ _) =>
      let z := child y (!dir)
      let d := child y dir
      let hz := ht z
      if hz > ht d then
        match z with
        | nil => x
        | node kz _ _ _ =>
          let b := child z (!dir)
          let c := child z dir
          -- x->child[dir] = z->child[!dir]; y->child[!dir] = z->child[dir];
          -- z->child[!dir] = x; z->child[dir] = y;
          let x' := mk kx hz dir b a
          let y' := mk ky hz dir d c
          mk kz (hz + 1) dir y' x'
      else
        -- x->child[dir] = z; y->child[!dir] = x;
        let x' := mk kx (hz + 1) dir z a
        mk ky (hz + 2) dir d x'

/-- `balance(p)`: new subtree at `*p` and "return value ≠ 0" (stored height of `*p` changed).
`h0 - h1 + 1u < 3u` is `-1 ≤ h0 - h1 ≤ 1`. -/
def balance (n : T) : T × Bool :=
  match n with
  | nil => (nil, false)
  | node k h l r =>
    let h0 := ht l
    let h1 := ht r
    if h0 ≤ h1 + 1 ∧ h1 ≤ h0 + 1 then
      let h' := (if h0 < h1 then h1 else h0) + 1
      (node k h' l r, h' != h)
    else
      let z := rot n (decide (h0 < h1))
      (z, ht z != h)

/-- One iteration of `while (i && balance(a[--i]))` at an ancestor `n'` (child slot already
updated): if the loop is still running call `balance`, otherwise leave the node alone. -/
def up (n' : T) (grow new : Bool) : T × Bool × Bool :=
  if grow then ((balance n').1, (balance n').2, new) else (n', false, new)

/-- `treeinsert`: (new subtree, rebalancing loop still running, `new` flag of the result). -/
def ins (t : T) (key : Nat) : T × Bool × Bool :=
  match t with
  | nil => (node key 1 nil nil, true, true)
  | node k h l r =>
    if key = k then (t, false, false)
    else if key > k then
      up (node k h l (ins r key).1) (ins r key).2.1 (ins r key).2.2
    else
      up (node k h (ins l key).1 r) (ins l key).2.1 (ins l key).2.2

/-- The tree after `treeinsert(&root, key, sz)`. -/
def insert (t : T) (key : Nat) : T := (ins t key).1

/-- In-order key list. -/
def toList : T → List Nat
  | nil => []
  | node k _ l r => toList l ++ k :: toList r

/-- Number of nodes. -/
def size : T → Nat
  | nil => 0
  | node _ _ l r => size l + size r + 1

/-- Real height (independent of the stored fields). -/
def rh : T → Nat
  | nil => 0
  | node _ _ l r => max (rh l) (rh r) + 1

/-- Executable AVL check: stored height = real height and balance at every node. -/
def checkAvl : T → Bool
  | nil => true
  | node _ h l r =>
    checkAvl l && checkAvl r && (h == max (rh l) (rh r) + 1) &&
      decide (rh l ≤ rh r + 1) && decide (rh r ≤ rh l + 1)

/-- Executable strict search-tree check. -/
def checkBst : T → Bool
  | nil => true
  | node k _ l r =>
    checkBst l && checkBst r && (toList l).all (· < k) && (toList r).all (k < ·)

/-- Modulus of the bits a comparison of class `w` (`true`) / `l` (`false`) looks at. -/
def modulus (w : Bool) : Nat := if w then 2 ^ 32 else 2 ^ 64

/-- What the ladder emitted by `casesearch` does at run time for controlling value `v`:
`ceq v, key` → jump to the case body; else `cult v, key` → left ladder, else right ladder;
empty tree → default label (`none`). -/
def search (w : Bool) (t : T) (v : Nat) : Option Nat :=
  match t with
  | nil => none
  | node k _ l r =>
    if v % modulus w = k % modulus w then some k
    else if v % modulus w < k % modulus w then search w l v
    else search w r v

/-- The conversion `qbe.c:switchcase` applies to a case constant `i` (an `unsigned long long`)
before `treeinsert`: for a promoted controlling type narrower than 8 bytes, mask to the type's
width and, if the type is signed, sign-extend with `(i ^ m) - m` (`m` = sign bit) in 64-bit
wrap-around arithmetic; for 8-byte types the constant is used as is.  `size` is
`cases->type->size` (4 or 8 after promotion). -/
def caseKey (size : Nat) (signed : Bool) (i : Nat) : Nat :=
  if size < 8 then
    let low := i % 2 ^ (size * 8)
    if signed && decide (2 ^ (size * 8 - 1) ≤ low) then low + (2 ^ 64 - 2 ^ (size * 8)) else low
  else i % 2 ^ 64

/-- Preorder dump `(<key> <storedheight> <left> <right>)`, `-` for the empty tree, prepended to
`acc` (right-to-left so that only cheap prepends to the accumulator happen). -/
def dumpAcc : T → List String → List String
  | nil, acc => "-" :: acc
  | node k h l r, acc =>
    "(" :: toString k :: " " :: toString h :: " " :: dumpAcc l (" " :: dumpAcc r (")" :: acc))

def dump (t : T) : String := String.join (dumpAcc t [])

end CprocVerif.Tree

/-!
# Executable model of linkage / definition bookkeeping in `/repo/decl.c` (+ naming in `/repo/qbe.c`)

One identifier, a *history* of its declarations (`List Form`).  The model follows
`decl.c:decl` (object and function branches), `declcommon`, `getlinkage`, `defineobj`,
`emittentativedefns`, the scope lookups of `scope.c` and `qbe.c:mkglobal/emitname/emitdata/emitfunc`
as far as they decide *which symbols are defined, exported, thread-local, and how they are named*.

How a history is laid out as a translation unit (the renderer in `checks/c09.py` does the same):
* `Scope.file`   – close every open block, declare at file scope;
* `Scope.block`  – declare in the innermost open block; when no function body is open, open
                   `void u_k(void){`;
* `Scope.nested` – open a new `{` (after opening a function body when none is open) and declare
                   in it.
So consecutive block-level forms share a function body, `nested` adds a level (shadowing), and a
file-scope form ends the body.

What is *not* modelled: types (every object is `int`, every function `int(void)`; the field
`compat` is the placeholder for `typecompatible`/`typecomposite`), alignment, the parser.
-/
namespace CprocVerif.Linkage

/-! ## Vocabulary shared with `Spec/Link.lean` -/

inductive Scope | file | block | nested
deriving DecidableEq, Repr, Inhabited

inductive Kind | obj | func
deriving DecidableEq, Repr, Inhabited

/-- `static` / `extern` / neither (the storage-class keyword besides `_Thread_local`). -/
inductive SC | none | static | extern
deriving DecidableEq, Repr, Inhabited

/-- Assembler labels: two distinct label strings (`<id>_a`, `<id>_b`) are enough to express every
label conflict. -/
inductive Label | a | b
deriving DecidableEq, Repr, Inhabited

/-- One declaration of the identifier.  The nine storage forms of the property are
`sc × flag`: for objects `flag` = `_Thread_local` present, for functions `flag` = `inline` present
(`none/static/extern/_Thread_local/static _Thread_local/extern _Thread_local` and
`none/static/extern/inline/static inline/extern inline`). -/
structure Form where
  kind : Kind
  sc : SC
  flag : Bool
  scope : Scope
  /-- initialiser (`= 1`) / function body -/
  hasDef : Bool
  asm : Option Label
deriving DecidableEq, Repr, Inhabited

/-- `enum linkage` of cc.h (also used by the spec for C11 6.2.2 linkage). -/
inductive Link | none | intern | extern
deriving DecidableEq, Repr, Inhabited

/-- How an emitted symbol is spelled: `$x`, `$"label"`, `$.Lx.N`. -/
inductive SymName | plain | asm (l : Label) | loc (n : Nat)
deriving DecidableEq, Repr, Inhabited

/-- One emitted definition (`[thread] [export] data $n = {…}` / `[export] function $n`). -/
structure Sym where
  name : SymName
  isFunc : Bool
  exported : Bool
  thread : Bool
  /-- data only: emitted without initialiser (`{ z 4 }`) -/
  zero : Bool
deriving DecidableEq, Repr, Inhabited

/-- A reference operand: `$n` or `thread $n`. -/
structure Ref where
  name : SymName
  thread : Bool
deriving DecidableEq, Repr, Inhabited

/-- What the unit does with the identifier. -/
structure SymTab where
  /-- definitions named by the identifier itself or its assembler label, with linkage -/
  main : List Sym
  /-- definitions of no-linkage statics (`$.Lx.N`, or a verbatim label) in emission order -/
  locals : List Sym
  /-- what uses of the declared-with-linkage identifier refer to when nothing defines it -/
  undef : List Ref
deriving DecidableEq, Repr, Inhabited

def SymName.isLoc : SymName → Bool
  | .loc _ => true
  | _ => false

/-- remove later duplicates, keep first occurrences -/
def dedup {α} [DecidableEq α] : List α → List α
  | [] => []
  | x :: xs => x :: (dedup xs).filter (fun y => y ≠ x)

/-! ## The model proper -/

/-- `enum storageduration` -/
inductive Dur | static | thread | auto
deriving DecidableEq, Repr, Inhabited

/-- `struct decl` as far as it matters here (the `value` pointer is an effect, see `Eff`). -/
structure Ent where
  kind : Kind
  link : Link
  defined : Bool
  tentative : Bool
  inlinedefn : Bool
  /-- `u.obj.storage` (objects) -/
  dur : Dur
  asm : Option Label
  /-- placeholder for the type (`typecompatible` always holds between equal kinds here) -/
  compat : Unit := ()
deriving DecidableEq, Repr, Inhabited

inductive Err
  | differentKind | noLinkageRedeclared | differentLinkage | differentAsm
  | blockThreadLocal | storageDuration | blockInitLinkage | redefined
  | blockFuncStorage | funcDefNotAllowed
deriving DecidableEq, Repr, Inhabited

/-- The three scope lookups `decl`/`declcommon` perform for the identifier. -/
structure View where
  /-- `scopegetdecl(s, name, false)` -/
  same : Option Ent
  /-- `scopegetdecl(s->parent, name, true)` (block scopes; `none` at file scope) -/
  parent : Option Ent
  /-- `scopegetdecl(&filescope, name, false)` -/
  file : Option Ent
deriving DecidableEq, Repr, Inhabited

/-- What processing one declaration does: the `struct decl` it leaves in its scope and the calls
of `mkglobal`, `emitdata`/`emitfunc` it makes. -/
structure Eff where
  ent : Ent
  /-- `d->value = mkglobal(d)` was executed (always, except for automatic objects);
  the payload is `VALUE_THREAD` -/
  global : Option Bool
  /-- `emitdata`/`emitfunc` now: `(isFunc, zero)` -/
  emit : Option (Bool × Bool)
deriving DecidableEq, Repr, Inhabited

/-- `getlinkage` -/
def getlinkage (k : Kind) (sc : SC) (prior : Option Ent) (filescope : Bool) : Link :=
  if sc = .static then (if filescope then .intern else .none)
  else if sc = .extern ∨ k = .func then
    match prior with
    | some p => if p.link ≠ .none then p.link else .extern
    | none => .extern
  else if filescope then .extern else .none

def mkEnt (k : Kind) (l : Link) (a : Option Label) : Ent :=
  { kind := k, link := l, defined := false, tentative := false, inlinedefn := false,
    dur := .static, asm := a }

/-- `declcommon`: the declaration's `struct decl` (the prior one, or a fresh one). -/
def declcommon (v : View) (f : Form) : Except Err Ent :=
  let fs : Bool := f.scope = .file
  match v.same with
  | some p =>
    if p.link = .none then .error .noLinkageRedeclared
    else if p.link ≠ getlinkage f.kind f.sc (some p) fs then .error .differentLinkage
    else if f.asm.isSome ∧ p.asm ≠ f.asm then .error .differentAsm
    else .ok p
  | none =>
    let l := getlinkage f.kind f.sc (if fs then none else v.parent) fs
    if l ≠ .none ∧ ¬ fs then
      -- `prior = scopegetdecl(&filescope, name, false)`
      match v.file with
      | some p =>
        if p.link ≠ .none then
          if p.kind ≠ f.kind then .error .differentKind
          else if p.link ≠ l then .error .differentLinkage
          else if f.kind = .obj ∧ (p.dur = .thread) ≠ f.flag then .error .storageDuration
          else if f.asm.isSome ∧ p.asm ≠ f.asm then .error .differentAsm
          else .ok (mkEnt f.kind l (if f.asm.isSome then f.asm else p.asm))
        else .ok (mkEnt f.kind l f.asm)
      | none => .ok (mkEnt f.kind l f.asm)
    else .ok (mkEnt f.kind l f.asm)

/-- object branch of `decl` -/
def declObj (v : View) (f : Form) : Except Err Eff :=
  let fs : Bool := f.scope = .file
  if ¬ fs ∧ f.sc = .none ∧ f.flag then .error .blockThreadLocal
  else if v.same.any (·.kind ≠ .obj) then .error .differentKind
  else
  match declcommon v f with
  | .error e => .error e
  | .ok d0 =>
    if d0.link = .none ∧ f.sc ≠ .static then
      -- automatic object: `funcinit`, nothing global
      if f.hasDef ∧ d0.defined then .error .redefined
      else .ok { ent := { d0 with dur := .auto, defined := true }, global := none, emit := none }
    else if v.same.any (fun p => (p.dur = .thread) ≠ f.flag) then .error .storageDuration
    else
    let d1 := { d0 with dur := if f.flag then .thread else .static }
    if f.hasDef then
      if ¬ fs ∧ d1.link ≠ .none then .error .blockInitLinkage
      else if d1.defined then .error .redefined
      else .ok { ent := { d1 with defined := true }, global := some f.flag, emit := some (false, false) }
    else if f.sc = .extern then .ok { ent := d1, global := some f.flag, emit := none }
    else if d1.link ≠ .none ∧ d1.dur = .static then
      .ok { ent := if ¬ d1.defined ∧ ¬ d1.tentative then { d1 with tentative := true } else d1,
            global := some f.flag, emit := none }
    else if d1.defined then .ok { ent := d1, global := some f.flag, emit := none }
    else .ok { ent := { d1 with defined := true }, global := some f.flag, emit := some (false, true) }

/-- function branch of `decl` -/
def declFunc (v : View) (f : Form) : Except Err Eff :=
  let fs : Bool := f.scope = .file
  if v.same.any (·.kind ≠ .func) then .error .differentKind
  else if ¬ fs ∧ f.sc = .static then .error .blockFuncStorage
  else
  match declcommon v f with
  | .error e => .error e
  | .ok d0 =>
    let inl : Bool := d0.link = .extern && f.flag && f.sc != .extern && v.same.all (·.inlinedefn)
    let d1 := { d0 with inlinedefn := inl }
    if f.hasDef then
      if ¬ fs ∨ f.asm.isSome then .error .funcDefNotAllowed
      else if d1.defined then .error .redefined
      else .ok { ent := { d1 with defined := true }, global := some false,
                 emit := if inl then none else some (true, false) }
    else .ok { ent := d1, global := some false, emit := none }

/-- `decl` for one declarator. -/
def declare (v : View) (f : Form) : Except Err Eff :=
  match f.kind with
  | .obj => declObj v f
  | .func => declFunc v f

/-! ### Scopes, symbol naming, output -/

structure State where
  /-- the identifier's entry in `filescope` -/
  file : Option Ent
  /-- its entry in each open block scope, innermost first -/
  blocks : List (Option Ent)
  /-- definitions printed so far -/
  out : List Sym
  /-- operand that a use right after each declaration with static storage / linkage denotes -/
  refs : List Ref
  /-- `static unsigned id` of `mkglobal` (counting only this identifier's symbols) -/
  nextId : Nat
deriving Repr, Inhabited

def init : State := { file := none, blocks := [], out := [], refs := [], nextId := 0 }

/-- Scope bookkeeping of the layout described in the header. -/
def enter (s : State) : Scope → State
  | .file => { s with blocks := [] }
  | .block => if s.blocks.isEmpty then { s with blocks := [none] } else s
  | .nested => if s.blocks.isEmpty then { s with blocks := [none, none] }
               else { s with blocks := none :: s.blocks }

/-- The lookups, in the scope the form is declared in (`fs`: file scope). -/
def view (s : State) (fs : Bool) : View :=
  if fs then { same := s.file, parent := none, file := s.file }
  else { same := s.blocks.head?.join,
         parent := (match s.blocks.tail.findSome? id with | some e => some e | none => s.file),
         file := s.file }

/-- `mkglobal` + `emitname`: `$"label"`, `$.Lx.<++id>` for no linkage, `$x` otherwise. -/
def mkglobal (nextId : Nat) (d : Ent) : SymName × Nat :=
  match d.asm with
  | some l => (.asm l, nextId)
  | none => if d.link = .none then (.loc (nextId + 1), nextId + 1) else (.plain, nextId)

/-- `scopeputdecl` / mutation of the prior `struct decl` in place -/
def store (s : State) (fs : Bool) (d : Ent) : State :=
  if fs then { s with file := some d }
  else { s with blocks := some d :: s.blocks.tail }

def mkSym (n : SymName) (d : Ent) (isFunc zero : Bool) : Sym :=
  { name := n, isFunc := isFunc, exported := d.link = .extern,
    thread := !isFunc && d.dur = .thread, zero := zero }

/-- Carry out the effects of a declaration on the unit's state. -/
def apply (s : State) (fs : Bool) (e : Eff) : State :=
  match e.global with
  | none => store s fs e.ent
  | some th =>
    let (n, nid) := mkglobal s.nextId e.ent
    let s1 := { s with nextId := nid, refs := s.refs ++ [⟨n, th⟩] }
    match e.emit with
    | none => store s1 fs e.ent
    | some (isFunc, zero) => store { s1 with out := s1.out ++ [mkSym n e.ent isFunc zero] } fs e.ent

/-- One declaration. -/
def step (s : State) (f : Form) : Except Err State :=
  let fs : Bool := f.scope = .file
  let s' := enter s f.scope
  match declare (view s' fs) f with
  | .ok e => .ok (apply s' fs e)
  | .error e => .error e

/-- `emittentativedefns` (the list holds at most this identifier's file-scope entry). -/
def finish (s : State) : State :=
  match s.file with
  | some d =>
    if d.tentative ∧ ¬ d.defined then
      { s with out := s.out ++ [mkSym (mkglobal s.nextId d).1 d false true] }
    else s
  | none => s

def steps : State → List Form → Except Err State
  | s, [] => .ok s
  | s, f :: fs => match step s f with
    | .ok s' => steps s' fs
    | .error e => .error e

/-- Whole unit: all declarations, then the end-of-unit flush. -/
def run (h : List Form) : Except Err State :=
  match steps init h with
  | .ok s => .ok (finish s)
  | .error e => .error e

/-- The observable symbol table: definitions spelled `$x` / `$"label"`, definitions spelled
`$.Lx.N`, and the operands that nothing in the unit defines. -/
def symbols (s : State) : SymTab :=
  { main := s.out.filter (fun y => ¬ y.name.isLoc),
    locals := s.out.filter (fun y => y.name.isLoc),
    undef := dedup (s.refs.filter (fun r => ¬ s.out.any (fun y => y.name = r.name))) }

end CprocVerif.Linkage

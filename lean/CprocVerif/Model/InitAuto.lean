import CprocVerif.Model.Init

/-!
# Model of `/repo/qbe.c:funcinit` and `zero` (automatic objects)

`funcinit(func, d, init, hasinit)` walks the list that `parseinit` built: the gap in front of
every initialiser is zero-filled (`zero`), a string literal is stored element by element, any other
value with `funcstore` (a bit-field by load / and / or / store, after zero-filling the rest of the
storage unit when the unit is reached for the first time); `offset` is the end of the last
initialiser, `max` the largest end seen; at the end `[max, size)` is zero-filled.

The memory of the object is one `Cell` per byte; what the emitted stores do is modelled at the
level of these bytes (the store widths `zero` chooses from the alignment, and the order of the
element stores of a string, do not matter for them).  A store of an integer replaces the bits
`[lo, hi)` of the storage unit — for a bit-field `(old & ~mask) | (v << before & mask)`, for a
whole integer all bits — and keeps the others.
-/

namespace CprocVerif.InitAuto
open CprocVerif.Init

/-- the bytes of the automatic object -/
abbrev Mem := List Cell

/-- `zero(func, addr, align, offset, end)`: the bytes `[a, b)` become 0 -/
def zero (m : Mem) (a b : Nat) : Mem := m.mapIdx fun j c => if a ≤ j ∧ j < b then Cell.byte 0 else c

def cval : Cell → Nat
  | .byte n => n
  | .rel _ _ _ => 0

/-- the number whose bit `k` (`k < n`) is `f k` -/
def bitsToNat : Nat → (Nat → Bool) → Nat
  | 0, _ => 0
  | n + 1, f => (if f 0 then 1 else 0) + 2 * bitsToNat n (fun k => f (k + 1))

/-- byte `j` after the store of the integer `u` into the bits `[lo, hi)` (bit 0 of `u` at `lo`):
`(old & ~mask) | (u << before & mask)`; a byte of the storage unit without a bit of the field is
stored back as it was loaded -/
def rmwCell (lo hi u j : Nat) (old : Cell) : Cell :=
  if lo < 8 * j + 8 ∧ 8 * j < hi then
    .byte (bitsToNat 8 fun k => if lo ≤ 8 * j + k ∧ 8 * j + k < hi then u.testBit (8 * j + k - lo) else (cval old).testBit k)
  else old

/-- byte `k` of a value stored whole -/
def valByte (v : Val) (k : Nat) : Cell :=
  match v with
  | .int _ u => .byte (u / 2 ^ (8 * k) % 256)
  | .flt _ b => .byte (b / 2 ^ (8 * k) % 256)
  | .addr s o => .rel s o k
  | .str w cs => .byte (cs.getD (k / w) 0 / 2 ^ (8 * (k % w)) % 256)
  | .other => .byte 0

/-- `funcstore(func, type, QUALNONE, dst, src)` for a scalar initialiser -/
def store (m : Mem) (i : Init) : Mem :=
  match i.val with
  | .int _ u => m.mapIdx fun j c => if i.start ≤ j ∧ j < i.stop then rmwCell i.lo i.hi u j c else c
  | v => m.mapIdx fun j c => if i.start ≤ j ∧ j < i.stop then valByte v (j - i.start) else c

/-- the element stores of a string literal: `n` elements of `w` bytes from `i.start` -/
def storeStr (m : Mem) (i : Init) (n w : Nat) : Mem :=
  m.mapIdx fun j c => if i.start ≤ j ∧ j < i.start + n * w then valByte i.val (j - i.start) else c

structure ASt where
  mem : Mem
  offset : Nat := 0
  max : Nat := 0

/-- one iteration of `for (; init; init = init->next)` -/
def step (s : ASt) (i : Init) : ASt :=
  let m1 := zero s.mem s.offset i.start
  match i.val with
  | .str w cs =>
    -- `for (i = 0; i < string.size && i * w < end - start; ++i)`
    let n := min cs.length ((i.stop - i.start + w - 1) / w)
    let off := i.start + n * w
    { mem := storeStr m1 i n w, offset := off, max := Max.max s.max off }
  | _ =>
    let m2 := if s.offset < i.stop ∧ (i.before ≠ 0 ∨ i.after ≠ 0) then zero m1 s.offset i.stop else m1
    { mem := store m2 i, offset := i.stop, max := Max.max s.max i.stop }

/-- `funcinit` for an object of `size` bytes whose memory holds `garb` before -/
def funcinit (size : Nat) (garb : Mem) (l : List Init) : Mem :=
  let s := l.foldl step { mem := garb }
  zero s.mem s.max size

end CprocVerif.InitAuto

/-
  C01, fragment 𝔽₂ — function bodies with statements over integer parameters and block-scope integer
  locals: declarations with and without initialiser, simple / compound assignment, `++`/`--`,
  expression statements, compound statements, `if`/`else`, `while`, `do`, `for`, `break`, `continue`,
  `return`.

  As in `Model/CSem.lean` the syntax is cproc's TYPED tree after parsing.  Expressions are the pure
  expressions of 𝔽₁ (`CSem.Expr`); `Expr.param t k` now names VARIABLE `k`: the parameters are the
  variables `0 … n-1`, the block-scope objects are numbered `n, n+1, …` in the order in which their
  declarations appear in the text (every declaration is a different variable, whatever its name and
  scope — the parser has resolved the names).

  How the statement forms of C map to `Stmt` (this is what `stmt.c`/`decl.c`/`expr.c` do, not a choice):
    * `T x;`, `T x = e;`          `decl k T none`, `decl k T (some e')`, `e'` = `e` converted to `T`
                                   (`parseinit`: `exprassign`), evaluated with `x` already in scope;
    * `x = e;`                    `assign k T e'` (`mkassignexpr`: `exprconvert(e, T)`);
    * `x op= e;`                  `assign k T ((T)(x' op e''))` — `assignexpr` builds
                                   `tmp = &x, *tmp = *tmp op e`, and for an identifier `&x`/`*tmp` lower to
                                   the slot of `x` itself, which is exactly the lowering of `x = x op e`;
    * `x++; ++x; x--; --x;`       `incdec k T inc` (`EXPRINCDEC`; value unused, so pre = post);
    * `e;`                        `expr e`;
    * `{ s₁ … sₙ }`               `seq s₁ (seq s₂ … sₙ)`, `{}` and `;` are `skip`;
    * `for (init; c; step) body`  `seq init (for_ c step body)` (`init` is lowered before the blocks
                                   of the loop are created).

  The semantics `exec` is C11's (6.8) as a fuel-indexed big-step evaluator; `none` = undefined behaviour
  (of an expression, or the read of an uninitialised object: 6.3.2.1p2 / 6.2.4p6) or fuel exhausted.
-/
import CprocVerif.Model.CSem
import CprocVerif.Model.Tree

namespace CprocVerif.CSem2
open CprocVerif.CSem CprocVerif.CInt

/-- Values of the variables; `none` = indeterminate (declared without initialiser, not yet assigned). -/
abbrev Store := List (Option Int)

/-- `CSem.evalC` over a store with possibly indeterminate objects. -/
def evalE (cs : Bool) (s : Store) : Expr → Option Int
  | .const t u => some (wrap (t.intTy cs) (u : Int))
  | .param _ i => (s[i]?).join
  | .cast t e => (evalE cs s e).map (conv (e.ty.intTy cs) (t.intTy cs))
  | .neg t e => (evalE cs s e).bind (un .neg (t.intTy cs))
  | .bin op _ l r =>
    match op with
    | .lor => (evalE cs s l).bind fun a => lorSC a (evalE cs s r)
    | .land => (evalE cs s l).bind fun a => landSC a (evalE cs s r)
    | op => (evalE cs s l).bind fun a => (evalE cs s r).bind fun b => bin op (l.ty.intTy cs) a b
  | .cond _ c a b =>
    (evalE cs s c).bind fun v => if v ≠ 0 then evalE cs s a else evalE cs s b

/-- The arguments of a call (pure expressions, already converted to the parameter types). -/
def evalArgs (cs : Bool) (s : Store) : List Expr → Option (List Int)
  | [] => some []
  | e :: es => (evalE cs s e).bind fun v => (evalArgs cs s es).map fun vs => v :: vs

/-- cell of element `e` of the array variable `arr` -/
def ecell (arr xb e : Nat) : Nat := if e = 0 then arr else xb + (e - 1)

/-- Expressions that may read an array element or call a function (stage D/E inside expressions).  The
    index of `a[i]` and the arguments of a call are pure expressions of 𝔽₁ (no nested calls or subscripts
    there); everything else nests freely.  The arguments have been converted to the parameter types, `rt`
    is the return type of the callee; `n`, `xb`: as in `Stmt.aload`. -/
inductive Expr3 where
  | pure (e : Expr)
  | idx (t : Ty) (arr n xb : Nat) (i : Expr)
  | call (rt : Ty) (fn : String) (args : List Expr)
  | cast (t : Ty) (e : Expr3)
  | neg (t : Ty) (e : Expr3)
  | bin (op : BinOp) (t : Ty) (l r : Expr3)
  | cond (t : Ty) (c a b : Expr3)
  /-- `(a, b)` (6.5.17): `a` is evaluated — it must have a value — and discarded; type and value of `b` -/
  | comma (t : Ty) (a b : Expr3)
  deriving Repr, Inhabited

/-- constants and variables as `Expr3` (so that the trees of 𝔽₁ can be written as before) -/
def Expr3.const (t : Ty) (u : Nat) : Expr3 := .pure (.const t u)
def Expr3.param (t : Ty) (i : Nat) : Expr3 := .pure (.param t i)

def Expr3.ty : Expr3 → Ty
  | .pure e => e.ty
  | .idx t _ _ _ _ | .call t _ _ | .cast t _ | .neg t _ | .bin _ t _ _ | .cond t _ _ _ | .comma t _ _ => t

/-- `evalE` with array reads and calls; `callf fn vs` is what the call `fn(vs)` returns (`none`: undefined,
    or not within the fuel).  A callee cannot touch the objects of its caller and the arguments are passed by
    value, so evaluation has no effect on the store and the order of the operands does not matter. -/
def evalE3 (cs : Bool) (callf : String → List Int → Option Int) (s : Store) : Expr3 → Option Int
  | .pure e => evalE cs s e
  | .idx _ arr n xb i =>
    (evalE cs s i).bind fun iv =>
      if 0 ≤ iv ∧ iv < (n : Int) then (s[ecell arr xb iv.toNat]?).join else none
  | .call _ fn args => (evalArgs cs s args).bind fun vs => callf fn vs
  | .cast t e => (evalE3 cs callf s e).map (conv (e.ty.intTy cs) (t.intTy cs))
  | .neg t e => (evalE3 cs callf s e).bind (un .neg (t.intTy cs))
  | .bin op _ l r =>
    match op with
    | .lor => (evalE3 cs callf s l).bind fun a => lorSC a (evalE3 cs callf s r)
    | .land => (evalE3 cs callf s l).bind fun a => landSC a (evalE3 cs callf s r)
    | op => (evalE3 cs callf s l).bind fun a => (evalE3 cs callf s r).bind fun b => bin op (l.ty.intTy cs) a b
  | .cond _ c a b =>
    (evalE3 cs callf s c).bind fun v => if v ≠ 0 then evalE3 cs callf s a else evalE3 cs callf s b
  | .comma _ a b => (evalE3 cs callf s a).bind fun _ => evalE3 cs callf s b

inductive Stmt where
  | skip
  | decl (i : Nat) (t : Ty) (init : Option Expr3)
  | assign (i : Nat) (t : Ty) (e : Expr3)
  | incdec (i : Nat) (t : Ty) (inc : Bool)
  | expr (e : Expr3)
  | ret (e : Expr3)
  | seq (a b : Stmt)
  | ite (c : Expr3) (a : Stmt)
  | itee (c : Expr3) (a b : Stmt)
  | while_ (c : Expr3) (b : Stmt)
  | dowhile (b : Stmt) (c : Expr3)
  | for_ (c : Option Expr3) (step b : Stmt)
  | break_
  | continue_
  /-- `switch (e) body`; `e` already promoted (`exprpromote`) -/
  | switch_ (e : Expr3) (b : Stmt)
  /-- `case u:` — a label; `u` is the value of the constant expression as `intconstexpr` returns it
      (an unsigned 64-bit number, negative values sign-extended) -/
  | case_ (u : Nat)
  /-- `default:` -/
  | default_
  /-- `[x =] f(args);` — a direct call as a statement (`EXPRCALL`, under `EXPRASSIGN` and a cast to the type
      of `x` when the result is used): `rt` the return type of `f`, `args` already converted to the
      parameter types.  It has a meaning only in a program (`exec` with the list of its functions); for a
      single function (`runC`: the empty program) it has none. -/
  | call (dst : Option (Nat × Ty)) (rt : Ty) (fn : String) (args : List Expr)
  /-- `T a[n];` — variable `i` is an array of `n ≥ 1` elements of type `t`, not initialised.  Element 0 is the
      cell `i` itself (so that the variable read or assigned as a scalar is `a[0]`, in C `*a`); the elements
      `1 … n-1` are the cells `xb, xb+1, …`, which lie after the cells of all variables (`xbase`). -/
  | adecl (i : Nat) (t : Ty) (n xb : Nat)
  /-- `x = a[idx];` — `x` (variable `dst`) has type `dt`; the parser has inserted the conversion when
      `dt ≠ t` -/
  | aload (dst : Nat) (dt : Ty) (arr : Nat) (t : Ty) (n xb : Nat) (idx : Expr)
  /-- `a[idx] = e;` — `e` already converted to the element type `t` -/
  | astore (arr : Nat) (t : Ty) (n xb : Nat) (idx : Expr) (e : Expr3)
  /-- element `j` of the array `arr` is initialised with `e`: `T a[n] = {e₀, …};` is the declaration `adecl`
      followed by one `ainit` per element in increasing order — `{[j] = e}` designators included; an element
      without initialiser gets the constant `0` (6.7.9p21). -/
  | ainit (arr : Nat) (t : Ty) (n xb : Nat) (j : Nat) (e : Expr3)
  /-- `x = p[idx];` — `p` (variable `k`) is a read-only array parameter `const t p[w]`, i.e. a pointer; `c0` is
      the first of the `w` cells through which the callee sees the elements of the caller's array. -/
  | pload (dst : Nat) (dt : Ty) (k : Nat) (t : Ty) (w c0 : Nat) (idx : Expr)
  /-- `[x =] f(a₁, …, aₘ, args);` — a call whose first arguments are local arrays (`pargs`: variable, element
      type, number of elements, cell of element 1), passed to read-only array parameters. -/
  | callp (dst : Option (Nat × Ty)) (rt : Ty) (fn : String) (pargs : List (Nat × Ty × Nat × Nat))
      (args : List Expr)
  deriving Repr, Inhabited

inductive Outcome where
  | normal (s : Store)
  | brk (s : Store)
  | cont (s : Store)
  | ret (v : Int)
  deriving Repr, DecidableEq, Inhabited

/-- The type in which `x++` computes `x + 1` (6.5.2.4p2, 6.5.16.2: usual arithmetic conversions of
    `T` and `int`). -/
def incTy (t : Ty) : Ty := if t.size < 4 then .int else t

/-- New value of an object of type `t` holding `v` after `++` / `--` (6.5.2.4, 6.5.3.1): `(T)(v ± 1)`,
    undefined on signed overflow in the promoted type. -/
def incdecVal (cs : Bool) (t : Ty) (inc : Bool) (v : Int) : Option Int :=
  (bin (if inc then .add else .sub) ((incTy t).intTy cs) v 1).map
    (conv ((incTy t).intTy cs) (t.intTy cs))

/-- The statement that follows the first label satisfying `p` on the spine of a `switch` body (the
    statements reachable through `;`-sequencing and compound statements; the sub-statements of `if`,
    loops and nested `switch`es are not searched). -/
def after (p : Stmt → Bool) : Stmt → Option Stmt
  | .seq a b =>
    match after p a with
    | some a' => some (.seq a' b)
    | none => after p b
  | st => if p st then some .skip else none

/-- `case u:` matches the controlling value `v` of (promoted) type `t`: the constant converted to `t`
    equals `v` (6.8.4.2p5). -/
def isCase (cs : Bool) (t : Ty) (v : Int) : Stmt → Bool
  | .case_ u => wrap (t.intTy cs) (u : Int) == v
  | _ => false

def isDefault : Stmt → Bool
  | .default_ => true
  | _ => false

/-- Where `switch` continues: after the matching `case`, else after `default`, else nowhere. -/
def pick (cs : Bool) (t : Ty) (v : Int) (b : Stmt) : Option Stmt :=
  match after (isCase cs t v) b with
  | some x => some x
  | none => after isDefault b

/-- The variables declared in a statement (at any depth). -/
def declIdx : Stmt → List Nat
  | .decl i _ _ => [i]
  | .seq a b => declIdx a ++ declIdx b
  | .ite _ a => declIdx a
  | .itee _ a b => declIdx a ++ declIdx b
  | .while_ _ b => declIdx b
  | .dowhile b _ => declIdx b
  | .for_ _ st b => declIdx st ++ declIdx b
  | .switch_ _ b => declIdx b
  | .adecl i _ n xb => i :: (List.range (n - 1)).map (xb + ·)
  | _ => []

/-- The objects whose lifetime starts with the statement become indeterminate (6.2.4p6) — a jump to a
    `case` label may bypass their declarations. -/
def clear (s : Store) (l : List Nat) : Store := l.foldl (fun s i => s.set i none) s

/-- A function of the fragment.  `locals` are the types of the block-scope objects in the order of
    their declarations. -/
structure Func where
  name : String
  ret : Ty
  params : List Ty
  locals : List Ty
  body : Stmt
  /-- number of elements of the locals that are arrays (`lcnts[j]` for local `j`; missing entries and
      scalars: 1) -/
  lcnts : List Nat := []
  /-- read-only array parameters `const t p[w]`: they are the FIRST parameters (of type `unsigned long` in
      `params`: pointers), `pwin[j] = (t, w)` for parameter `j` -/
  pwin : List (Ty × Nat) := []
  deriving Repr, Inhabited

def Func.vtys (f : Func) : List Ty := f.params ++ f.locals

/-- number of elements of every variable (1 for a scalar) -/
def Func.cnts (f : Func) : List Nat :=
  f.params.map (fun _ => 1) ++ (List.range f.locals.length).map fun j => f.lcnts.getD j 1

/-- the cells of the elements `1 …` of the arrays among the first `k` variables -/
def xcount (cnts : List Nat) (k : Nat) : Nat := ((cnts.take k).map (· - 1)).sum

/-- cell of element 1 of the array variable `k`: after the cells of all variables and of the earlier arrays -/
def xbase (cnts : List Nat) (k : Nat) : Nat := cnts.length + xcount cnts k

/-- number of cells beyond one per variable -/
def Func.extra (f : Func) : Nat := xcount f.cnts f.cnts.length

/-- the cells through which the elements behind the array parameters are seen come after all others -/
def Func.wtotal (f : Func) : Nat := (f.pwin.map (·.2)).sum

/-- first window cell of array parameter `j` -/
def Func.wbase (f : Func) (j : Nat) : Nat :=
  f.vtys.length + f.extra + ((f.pwin.take j).map (·.2)).sum

/-- The store on entry: the arguments (an array parameter itself has no integer value), every local (and every
    array element) indeterminate, then the elements `ws` seen through the array parameters. -/
def initStore (f : Func) (ρ : List Int) (ws : List (Option Int) := []) : Store :=
  List.replicate f.pwin.length none ++ (ρ.drop f.pwin.length).map some ++
    List.replicate (f.locals.length + f.extra) none ++ ws

/-- The function a call names: the first function of the program with that name. -/
def lookup (P : List Func) (fn : String) : Option Func := P.find? fun g => g.name == fn

/-- the elements the callee sees through its array parameters `pw`: copies of the cells of the argument
    arrays (exact, since the callee only reads them and the caller is suspended meanwhile) -/
def windows (s : Store) : List (Ty × Nat) → List (Nat × Ty × Nat × Nat) → List (Option Int)
  | (_, w) :: pw, (arr, _, _, xb) :: pa =>
    (List.range w).map (fun e => (s[ecell arr xb e]?).join) ++ windows s pw pa
  | _, _ => []

/-- what the call `fn(vs)` returns when the bodies are executed by `run` -/
def callOf (P : List Func) (run : Store → Stmt → Option Outcome) (fn : String) (vs : List Int) :
    Option Int :=
  match lookup P fn with
  | none => none
  | some g =>
    match run (initStore g vs) g.body with
    | some (.ret v) => some v
    | _ => none

/-- Big-step execution with fuel (one unit per nesting level / loop iteration / call) in the program `P`
    (the functions a call may name; `[]` for a single function: a call then has no meaning).  A call
    evaluates the arguments in the caller's store, executes the callee's body on a fresh store with
    fuel one less and, if a variable receives the result, converts the returned value to its type
    (6.5.16.1p2); flowing off the end of the callee without `return` is undefined here. -/
def exec (cs : Bool) (P : List Func) : Nat → Store → Stmt → Option Outcome
  | 0, _, _ => none
  | _ + 1, s, .skip => some (.normal s)
  | _ + 1, s, .decl i _ none => some (.normal (s.set i none))
  | n + 1, s, .decl i _ (some e) =>
    (evalE3 cs (callOf P fun s' st' => exec cs P n s' st') (s.set i none) e).map fun v =>
      .normal (s.set i (some v))
  | n + 1, s, .assign i _ e =>
    (evalE3 cs (callOf P fun s' st' => exec cs P n s' st') s e).map fun v => .normal (s.set i (some v))
  | _ + 1, s, .incdec i t inc =>
    ((s[i]?).join.bind (incdecVal cs t inc)).map fun v => .normal (s.set i (some v))
  | n + 1, s, .expr e => (evalE3 cs (callOf P fun s' st' => exec cs P n s' st') s e).map fun _ => .normal s
  | n + 1, s, .ret e => (evalE3 cs (callOf P fun s' st' => exec cs P n s' st') s e).map .ret
  | n + 1, s, .seq a b =>
    match exec cs P n s a with
    | some (.normal s') => exec cs P n s' b
    | o => o
  | n + 1, s, .ite c a =>
    (evalE3 cs (callOf P fun s' st' => exec cs P n s' st') s c).bind fun v => if v ≠ 0 then exec cs P n s a else some (.normal s)
  | n + 1, s, .itee c a b =>
    (evalE3 cs (callOf P fun s' st' => exec cs P n s' st') s c).bind fun v => if v ≠ 0 then exec cs P n s a else exec cs P n s b
  | n + 1, s, .while_ c b =>
    (evalE3 cs (callOf P fun s' st' => exec cs P n s' st') s c).bind fun v =>
      if v = 0 then some (.normal s) else
      match exec cs P n s b with
      | some (.normal s') => exec cs P n s' (.while_ c b)
      | some (.cont s') => exec cs P n s' (.while_ c b)
      | some (.brk s') => some (.normal s')
      | o => o
  | n + 1, s, .dowhile b c =>
    match exec cs P n s b with
    | some (.normal s') =>
      (evalE3 cs (callOf P fun s' st' => exec cs P n s' st') s' c).bind fun v =>
        if v ≠ 0 then exec cs P n s' (.dowhile b c) else some (.normal s')
    | some (.cont s') =>
      (evalE3 cs (callOf P fun s' st' => exec cs P n s' st') s' c).bind fun v =>
        if v ≠ 0 then exec cs P n s' (.dowhile b c) else some (.normal s')
    | some (.brk s') => some (.normal s')
    | o => o
  | n + 1, s, .for_ c step b =>
    ((match c with
      | some e => evalE3 cs (callOf P fun s' st' => exec cs P n s' st') s e
      | none => some 1) : Option Int).bind fun v =>
      if v = 0 then some (.normal s) else
      match exec cs P n s b with
      | some (.normal s') =>
        (match exec cs P n s' step with
         | some (.normal s'') => exec cs P n s'' (.for_ c step b)
         | _ => none)
      | some (.cont s') =>
        (match exec cs P n s' step with
         | some (.normal s'') => exec cs P n s'' (.for_ c step b)
         | _ => none)
      | some (.brk s') => some (.normal s')
      | o => o
  | _ + 1, s, .break_ => some (.brk s)
  | _ + 1, s, .continue_ => some (.cont s)
  | _ + 1, s, .case_ _ => some (.normal s)
  | _ + 1, s, .default_ => some (.normal s)
  | n + 1, s, .call dst rt fn args =>
    match lookup P fn with
    | none => none
    | some g =>
      (evalArgs cs s args).bind fun vs =>
        match exec cs P n (initStore g vs) g.body with
        | some (.ret v) =>
          (match dst with
           | none => some (.normal s)
           | some (i, t) => some (.normal (s.set i (some (conv (rt.intTy cs) (t.intTy cs) v)))))
        | _ => none
  | n + 1, s, .switch_ e b =>
    (evalE3 cs (callOf P fun s' st' => exec cs P n s' st') s e).bind fun v =>
      match pick cs e.ty v b with
      | none => some (.normal (clear s (declIdx b)))
      | some b' =>
        match exec cs P n (clear s (declIdx b)) b' with
        | some (.brk s') => some (.normal s')
        | o => o
  | _ + 1, s, .adecl i _ n xb => some (.normal (clear s (i :: (List.range (n - 1)).map (xb + ·))))
  | _ + 1, s, .aload dst dt arr t n xb idx =>
    -- 6.5.2.1, 6.5.6p8: the element must exist; 6.3.2.1p2: and hold a value
    (evalE cs s idx).bind fun iv =>
      if 0 ≤ iv ∧ iv < (n : Int) then
        ((s[ecell arr xb iv.toNat]?).join).map fun v =>
          .normal (s.set dst (some (conv (t.intTy cs) (dt.intTy cs) v)))
      else none
  | m + 1, s, .astore arr _ n xb idx e =>
    (evalE3 cs (callOf P fun s' st' => exec cs P m s' st') s e).bind fun v => (evalE cs s idx).bind fun iv =>
      if 0 ≤ iv ∧ iv < (n : Int) then some (.normal (s.set (ecell arr xb iv.toNat) (some v)))
      else none
  | m + 1, s, .ainit arr _ n xb j e =>
    if j < n then
      (evalE3 cs (callOf P fun s' st' => exec cs P m s' st') s e).map fun v =>
        .normal (s.set (ecell arr xb j) (some v))
    else none
  | _ + 1, s, .pload dst dt _ t w c0 idx =>
    (evalE cs s idx).bind fun iv =>
      if 0 ≤ iv ∧ iv < (w : Int) then
        ((s[c0 + iv.toNat]?).join).map fun v =>
          .normal (s.set dst (some (conv (t.intTy cs) (dt.intTy cs) v)))
      else none
  | n + 1, s, .callp dst rt fn pargs args =>
    match lookup P fn with
    | none => none
    | some g =>
      (evalArgs cs s args).bind fun vs =>
        match exec cs P n (initStore g (List.replicate g.pwin.length 0 ++ vs) (windows s g.pwin pargs))
            g.body with
        | some (.ret v) =>
          (match dst with
           | none => some (.normal s)
           | some (i, t) => some (.normal (s.set i (some (conv (rt.intTy cs) (t.intTy cs) v)))))
        | _ => none

/-- The value the call returns: `some v` if the body executes a `return` with value `v` within
    `fuel`; flowing off the end of the function without `return` counts as undefined here (its
    value must not be used, 6.9.1p12). -/
def runC (cs : Bool) (fuel : Nat) (f : Func) (ρ : List Int) : Option Int :=
  match exec cs [] fuel (initStore f ρ) f.body with
  | some (.ret v) => some v
  | _ => none

/-! ## What the parser guarantees about the tree -/

/-- The lowering of the statement ends with the jump of the current block set (`return`, `break`,
    `continue` as the last statement). -/
def Stmt.endsJump : Stmt → Bool
  | .ret _ | .break_ | .continue_ => true
  | .seq _ b => b.endsJump
  | _ => false

/-- What may stand as the third clause of `for`. -/
def Stmt.isSimple : Stmt → Bool
  | .skip | .assign .. | .incdec .. | .expr _ => true
  | _ => false

/-- No `case`/`default` label outside a nested `switch`. -/
def Stmt.labelFree : Stmt → Bool
  | .case_ _ | .default_ => false
  | .seq a b => a.labelFree && b.labelFree
  | .ite _ a => a.labelFree
  | .itee _ a b => a.labelFree && b.labelFree
  | .while_ _ b => b.labelFree
  | .dowhile b _ => b.labelFree
  | .for_ _ st b => st.labelFree && b.labelFree
  | _ => true

/-- The statement begins with a `case`/`default` label (a `switch` body must: code before the first
    label is unreachable). -/
def Stmt.startsLabel : Stmt → Bool
  | .case_ _ | .default_ => true
  | .seq a _ => a.startsLabel
  | _ => false

/-- The constants of the `case` labels on the spine of a `switch` body, in order. -/
def caseVals : Stmt → List Nat
  | .case_ u => [u]
  | .seq a b => caseVals a ++ caseVals b
  | _ => []

def countDefault : Stmt → Nat
  | .default_ => 1
  | .seq a b => countDefault a + countDefault b
  | _ => 0

/-- the variable a call result is assigned to is declared, with the given type -/
def dstOK (vtys : List Ty) (nd : Nat) : Option (Nat × Ty) → Bool
  | none => true
  | some (i, t) => decide (i < nd) && (vtys[i]? == some t)

/-- Well-formedness of a statement in a function with variable types `vtys` and return type `ret`
    when `nd` variables have been declared so far; result: the number declared afterwards.
    * variables are used after their declaration and with their declared type (`Expr.wt` against
      the first `nd` types); declarations are numbered in textual order;
    * both sides of an assignment have the variable's type, the operand of `return` the return type
      (`exprassign` inserted the casts);
    * `break` only inside a loop or `switch`, `continue` only inside a loop (the two flags); `case`/`default`
      only on the spine of a `switch` body (`labelFree` for the sub-statements of `if` and loops and for
      the function body); that body begins with a label; the `case` constants of one `switch` are pairwise
      different after `switchcase`'s conversion to the controlling type (`Tree.caseKey`), at most one
      `default`; the controlling expression has a promoted type (`exprpromote`);
    * no statement other than a `case`/`default` label follows a `return`/`break`/`continue` in the same block
      (no unreachable code: there
      `funcinst` opens a block `dead.N`, which this model places differently). -/
def optWt (vtys : List Ty) (t : Option Ty) : Option Expr → Bool
  | none => true
  | some e => (match t with
    | none => true
    | some t => e.ty == t) && e.wt vtys

/-- no array read (`condexpr` folds its first operand with `eval`, which would rewrite the address of an
    array element there: such conditions are outside the fragment) -/
def Expr3.noIdx : Expr3 → Bool
  | .pure _ | .call .. => true
  | .idx .. => false
  | .cast _ e | .neg _ e => e.noIdx
  | .bin _ _ l r => l.noIdx && r.noIdx
  | .cond _ c a b => c.noIdx && a.noIdx && b.noIdx
  | .comma _ a b => a.noIdx && b.noIdx

/-- `Expr.wt` for expressions with array reads and calls: the array is a declared variable of the element
    type; index and arguments are well-typed (that the callee has these parameter types and this return
    type is `callsOK`, that the array has `n` elements `arrsOK`). -/
def Expr3.wt (vtys : List Ty) : Expr3 → Bool
  | .pure e => e.wt vtys
  | .idx t arr _ _ i => vtys[arr]? == some t && i.wt vtys
  | .call _ _ args => args.all fun a => a.wt vtys
  | .cast _ e => e.wt vtys
  | .neg t e => e.ty == t && t.promoted && e.wt vtys
  | .bin op t l r =>
    l.wt vtys && r.wt vtys &&
    (if isLogic op then t == .int
     else if op.isShift then l.ty == t && t.promoted && r.ty.promoted
     else if op.isCmp then l.ty == r.ty && l.ty.promoted && t == .int
     else l.ty == t && r.ty == t && t.promoted)
  | .cond t c a b => c.wt vtys && a.wt vtys && b.wt vtys && a.ty == t && b.ty == t && c.noIdx
  | .comma t a b => a.wt vtys && b.wt vtys && b.ty == t

/-- the second clause of `for`, if present -/
def optWtC (vtys : List Ty) : Option Expr3 → Bool
  | none => true
  | some e => e.wt vtys

def optWt3 (vtys : List Ty) (t : Ty) : Option Expr3 → Bool
  | none => true
  | some e => e.ty == t && e.wt vtys

def Stmt.wt (vtys : List Ty) (ret : Ty) : Bool → Bool → Nat → Stmt → Option Nat
  | _, _, nd, .skip => some nd
  | _, _, nd, .decl i t init =>
    if i = nd ∧ vtys[i]? = some t ∧ optWt3 (vtys.take (nd + 1)) t init = true then some (nd + 1)
    else none
  | _, _, nd, .assign i t e =>
    if i < nd ∧ vtys[i]? = some t ∧ e.ty = t ∧ e.wt (vtys.take nd) = true then some nd else none
  | _, _, nd, .incdec i t _ =>
    if i < nd ∧ vtys[i]? = some t then some nd else none
  | _, _, nd, .expr e => if e.wt (vtys.take nd) = true then some nd else none
  | _, _, nd, .ret e => if e.ty = ret ∧ e.wt (vtys.take nd) = true then some nd else none
  | lb, lc, nd, .seq a b =>
    if a.endsJump && !b.startsLabel then none
    else (Stmt.wt vtys ret lb lc nd a).bind fun n1 => Stmt.wt vtys ret lb lc n1 b
  | lb, lc, nd, .ite c a =>
    if c.wt (vtys.take nd) = true ∧ a.labelFree = true then Stmt.wt vtys ret lb lc nd a else none
  | lb, lc, nd, .itee c a b =>
    if c.wt (vtys.take nd) = true ∧ a.labelFree = true ∧ b.labelFree = true then
      (Stmt.wt vtys ret lb lc nd a).bind fun n1 => Stmt.wt vtys ret lb lc n1 b
    else none
  | _, _, nd, .while_ c b =>
    if c.wt (vtys.take nd) = true ∧ b.labelFree = true then Stmt.wt vtys ret true true nd b else none
  | _, _, nd, .dowhile b c =>
    if b.labelFree = true then
      (Stmt.wt vtys ret true true nd b).bind fun n1 =>
        if c.wt (vtys.take nd) = true then some n1 else none
    else none
  | _, _, nd, .for_ c step b =>
    if optWtC (vtys.take nd) c = true ∧ step.isSimple = true ∧ b.labelFree = true then
      (Stmt.wt vtys ret true true nd b).bind fun n1 =>
        (Stmt.wt vtys ret false false nd step).bind fun _ => some n1
    else none
  | lb, _, nd, .break_ => if lb then some nd else none
  | _, lc, nd, .continue_ => if lc then some nd else none
  | _, lc, nd, .switch_ e b =>
    if e.wt (vtys.take nd) = true ∧ e.ty.promoted = true ∧ b.startsLabel = true ∧
        ((caseVals b).map (Tree.caseKey e.ty.size (e.ty.signed true))).Nodup ∧
        (caseVals b).all (· < 2 ^ 64) = true ∧ countDefault b ≤ 1 then
      Stmt.wt vtys ret true lc nd b
    else none
  | _, _, nd, .case_ _ => some nd
  | _, _, nd, .default_ => some nd
  | _, _, nd, .call dst _ _ args =>
    if args.all (fun e => e.wt (vtys.take nd)) = true ∧ dstOK vtys nd dst = true then some nd else none
  | _, _, nd, .adecl i t _ _ => if i = nd ∧ vtys[i]? = some t then some (nd + 1) else none
  | _, _, nd, .aload dst dt arr t _ _ idx =>
    if dst < nd ∧ vtys[dst]? = some dt ∧ arr < nd ∧ vtys[arr]? = some t ∧ idx.wt (vtys.take nd) = true
    then some nd else none
  | _, _, nd, .astore arr t _ _ idx e =>
    if arr < nd ∧ vtys[arr]? = some t ∧ idx.wt (vtys.take nd) = true ∧ e.ty = t ∧
        e.wt (vtys.take nd) = true
    then some nd else none
  | _, _, nd, .ainit arr t _ _ _ e =>
    if arr < nd ∧ vtys[arr]? = some t ∧ e.ty = t ∧ e.wt (vtys.take nd) = true then some nd else none
  | _, _, nd, .pload dst dt k _ _ _ idx =>
    if dst < nd ∧ vtys[dst]? = some dt ∧ k < nd ∧ vtys[k]? = some .ulong ∧ idx.wt (vtys.take nd) = true
    then some nd else none
  | _, _, nd, .callp dst _ _ pargs args =>
    if args.all (fun e => e.wt (vtys.take nd)) = true ∧ dstOK vtys nd dst = true ∧
        pargs.all (fun a => decide (a.1 < nd) && (vtys[a.1]? == some a.2.1)) = true
    then some nd else none

def Expr3.callsOK (P : List Func) : Expr3 → Bool
  | .pure _ | .idx .. => true
  | .call rt fn args =>
    match lookup P fn with
    | some g => g.ret == rt && args.map (·.ty) == g.params && g.pwin.isEmpty
    | none => false
  | .cast _ e | .neg _ e => e.callsOK P
  | .bin _ _ l r => l.callsOK P && r.callsOK P
  | .cond _ c a b => c.callsOK P && a.callsOK P && b.callsOK P
  | .comma _ a b => a.callsOK P && b.callsOK P

def Expr3.arrsOK (cnts : List Nat) : Expr3 → Bool
  | .pure _ | .call .. => true
  | .idx _ arr n xb _ => decide (1 ≤ n) && decide (cnts[arr]? = some n) && decide (xb = xbase cnts arr)
  | .cast _ e | .neg _ e => e.arrsOK cnts
  | .bin _ _ l r => l.arrsOK cnts && r.arrsOK cnts
  | .cond _ c a b => c.arrsOK cnts && a.arrsOK cnts && b.arrsOK cnts
  | .comma _ a b => a.arrsOK cnts && b.arrsOK cnts

/-- every call names a function of the program, with arguments of the parameter types and the
    declared return type -/
def callsOK (P : List Func) : Stmt → Bool
  | .decl _ _ (some e) | .assign _ _ e | .expr e | .ret e => e.callsOK P
  | .skip | .decl _ _ none | .incdec .. | .break_ | .continue_ => true
  | .seq a b => callsOK P a && callsOK P b
  | .ite c a => c.callsOK P && callsOK P a
  | .itee c a b => c.callsOK P && callsOK P a && callsOK P b
  | .while_ c b => c.callsOK P && callsOK P b
  | .dowhile b c => c.callsOK P && callsOK P b
  | .for_ none st b => callsOK P st && callsOK P b
  | .for_ (some c) st b => c.callsOK P && callsOK P st && callsOK P b
  | .case_ _ | .default_ | .adecl .. | .aload .. | .pload .. => true
  | .callp _ rt fn pargs args =>
    match lookup P fn with
    | some g =>
      g.ret == rt && g.params == List.replicate pargs.length Ty.ulong ++ args.map (·.ty) &&
        g.pwin.length == pargs.length &&
        (List.zipWith (fun (pw : Ty × Nat) (pa : Nat × Ty × Nat × Nat) =>
          pw.1 == pa.2.1 && decide (pw.2 ≤ pa.2.2.1)) g.pwin pargs).all id
    | none => false
  | .astore _ _ _ _ _ e | .ainit _ _ _ _ _ e => e.callsOK P
  | .switch_ e b => e.callsOK P && callsOK P b
  | .call _ rt fn args =>
    match lookup P fn with
    | some g => g.ret == rt && args.map (·.ty) == g.params && g.pwin.isEmpty
    | none => false

/-- the array statements agree with the layout: the declared count of the variable, at least one element,
    the cells of its further elements -/
def arrsOK (cnts : List Nat) : Stmt → Bool
  | .decl _ _ (some e) | .assign _ _ e | .expr e | .ret e => e.arrsOK cnts
  | .skip | .decl _ _ none | .incdec .. | .break_ | .continue_ => true
  | .seq a b => arrsOK cnts a && arrsOK cnts b
  | .ite c a => c.arrsOK cnts && arrsOK cnts a
  | .itee c a b => c.arrsOK cnts && arrsOK cnts a && arrsOK cnts b
  | .while_ c b => c.arrsOK cnts && arrsOK cnts b
  | .dowhile b c => c.arrsOK cnts && arrsOK cnts b
  | .for_ none st b => arrsOK cnts st && arrsOK cnts b
  | .for_ (some c) st b => c.arrsOK cnts && arrsOK cnts st && arrsOK cnts b
  | .case_ _ | .default_ | .call .. | .pload .. => true
  | .callp _ _ _ pargs _ =>
    pargs.all fun a => decide (1 ≤ a.2.2.1) && decide (cnts[a.1]? = some a.2.2.1) &&
      decide (a.2.2.2 = xbase cnts a.1)
  | .switch_ e b => e.arrsOK cnts && arrsOK cnts b
  | .adecl i _ n xb => decide (1 ≤ n) && decide (cnts[i]? = some n) && decide (xb = xbase cnts i)
  | .aload _ _ arr _ n xb _ => decide (1 ≤ n) && decide (cnts[arr]? = some n) && decide (xb = xbase cnts arr)
  | .astore arr _ n xb _ e =>
    decide (1 ≤ n) && decide (cnts[arr]? = some n) && decide (xb = xbase cnts arr) && e.arrsOK cnts
  | .ainit arr _ n xb j e =>
    decide (j < n) && decide (cnts[arr]? = some n) && decide (xb = xbase cnts arr) && e.arrsOK cnts

/-- a variable declared as a scalar has one element -/
def declsOK (cnts : List Nat) : Stmt → Bool
  | .decl i _ _ => decide (cnts[i]? = some 1)
  | .seq a b => declsOK cnts a && declsOK cnts b
  | .ite _ a => declsOK cnts a
  | .itee _ a b => declsOK cnts a && declsOK cnts b
  | .while_ _ b => declsOK cnts b
  | .dowhile b _ => declsOK cnts b
  | .for_ _ st b => declsOK cnts st && declsOK cnts b
  | .switch_ _ b => declsOK cnts b
  | _ => true

/-- the array parameters are used consistently: `p[i]` names a parameter with its declared element type,
    length and window cells; nothing is assigned to an array parameter (it is a pointer: the statements
    here treat variables as integers) and it is not passed on -/
def ptrsOK (pw : List (Ty × Nat)) (wb : Nat → Nat) : Stmt → Bool
  | .decl i _ _ | .assign i _ _ | .incdec i _ _ | .adecl i _ _ _ | .astore i _ _ _ _ _
  | .ainit i _ _ _ _ _ => decide (pw.length ≤ i)
  | .aload dst _ arr _ _ _ _ => decide (pw.length ≤ dst) && decide (pw.length ≤ arr)
  | .call dst _ _ _ =>
    (match dst with
     | some (i, _) => decide (pw.length ≤ i)
     | none => true)
  | .callp dst _ _ pargs _ =>
    (match dst with
     | some (i, _) => decide (pw.length ≤ i)
     | none => true) && pargs.all fun a => decide (pw.length ≤ a.1)
  | .pload dst _ k t w c0 _ =>
    decide (pw.length ≤ dst) && decide (pw[k]? = some (t, w)) && decide (c0 = wb k)
  | .seq a b => ptrsOK pw wb a && ptrsOK pw wb b
  | .ite _ a => ptrsOK pw wb a
  | .itee _ a b => ptrsOK pw wb a && ptrsOK pw wb b
  | .while_ _ b => ptrsOK pw wb b
  | .dowhile b _ => ptrsOK pw wb b
  | .for_ _ st b => ptrsOK pw wb st && ptrsOK pw wb b
  | .switch_ _ b => ptrsOK pw wb b
  | _ => true

def Func.wt (f : Func) : Bool :=
  f.body.labelFree && Stmt.wt f.vtys f.ret false false f.params.length f.body == some f.vtys.length &&
    arrsOK f.cnts f.body && declsOK f.cnts f.body && decide (f.extra ≤ 1000000) &&
    ptrsOK f.pwin f.wbase f.body && (f.params.take f.pwin.length == List.replicate f.pwin.length Ty.ulong) &&
    decide (f.pwin.length ≤ f.params.length) && f.pwin.all (fun q => decide (1 ≤ q.2)) &&
    decide (f.wtotal ≤ 1000000)

def WT (f : Func) : Prop := f.wt = true

instance (f : Func) : Decidable (WT f) := by unfold WT; exact inferInstance

end CprocVerif.CSem2

/-!
# Diagnostic-site tables of C10: keys, codes, and the linear checkers the coverage theorems use

`Gen/ErrorSites.lean` lists every `error`/`fatal`/`usage`/`tokencheck`/`expect` call of the current
`/repo` sources as (file, function, format); `Gen/C10Catalogue.lean` lists the keys of
`catalogue/c10.json` with their class.  Kernel evaluation of `String` operations is very slow in
Lean 4.33, so both generated files also carry the keys as natural numbers (`keyCode`), sorted
ascending; the checkers below are linear merges over such lists.
-/

namespace CprocVerif.Sites

abbrev Key := String × String × String

/-- the UTF-8 bytes of `file ␟ function ␟ format` behind a leading `0x01` byte, read as a big-endian
base-256 numeral (injective on keys without `U+001F`) -/
def keyCode (k : Key) : Nat :=
  (k.1 ++ "\x1f" ++ k.2.1 ++ "\x1f" ++ k.2.2).toUTF8.foldl (fun a b => a * 256 + b.toNat) 1

/-- strictly ascending -/
def strictAsc : List Nat → Bool
  | [] => true
  | [_] => true
  | a :: b :: r => decide (a < b) && strictAsc (b :: r)

/-- linear subset test for lists generated in the same order: every element of the first list is
found, in order, in the second -/
def sub : List Nat → List Nat → Bool
  | [], _ => true
  | _ :: _, [] => false
  | x :: xs, y :: ys => if x = y then sub xs ys else sub (x :: xs) ys

/-- elements of the first (ascending) list that are absent from the second (ascending) list -/
def missing : List Nat → List Nat → List Nat
  | [], _ => []
  | xs, [] => xs
  | x :: xs, y :: ys =>
    if x = y then missing xs ys
    else if x < y then x :: missing xs (y :: ys)
    else missing (x :: xs) ys

/-- number of entries of class `c` -/
def countClass (c : Nat) (es : List (Nat × Nat)) : Nat := (es.filter (·.2 == c)).length

/-- string keys of the first table without an equal key in the second (native code only) -/
def missingKeys (a b : List Key) : List Key := a.filter (fun k => !b.contains k)

end CprocVerif.Sites

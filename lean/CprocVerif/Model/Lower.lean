/-
  C01, fragment 𝔽₁ — model of cproc's lowering of a function `T f(params) { return e; }` to QBE IL.

  A transliteration of `/repo/qbe.c` (`mkfunc`, `funcalloc`, `funcstore`, `funcload`, `qbetype`,
  `convert`, `funcjnz`, `funcexpr`, `funcret`, `emitfunc`) restricted to the expressions of
  `Model/CSem.lean`.

  cproc builds a linked list of blocks and appends instructions to the last one (`f->end`).  Here
  the same sequence of effects is recorded as a flat list of `Item`s in emission order:
  `ins i` = `funcinst` appended `i` to `f->end`; `lbl j l φ` = the current block was closed with
  jump `j` (`funcjnz`/`funcjmp`, or nothing: fall-through) and `funclabel` made the block labelled
  `l` (whose phi is `φ`) the new `f->end`.  `assemble` cuts the list into blocks.

  The two counters of cproc are explicit: `lastid` (`f->lastid`, temporaries, reset per function)
  and `blockid` (the `static unsigned id` of `mkblock`, global to the translation unit — hence the
  `startid` parameter of `emitFunc`).
-/
import CprocVerif.Spec.Qbe
import CprocVerif.Spec.QbeParse
import CprocVerif.Model.CSem

namespace CprocVerif.Lower
open CprocVerif.Qbe CprocVerif.CSem CprocVerif.CInt

inductive Item where
  | ins (i : Ins)
  | lbl (term : Option Jump) (label : String) (phis : List Phi)
  deriving Inhabited

/-- `emitname` of a temporary: `u.name == NULL`, so just `.` and the id. -/
def tmpName (id : Nat) : String := "." ++ toString id

/-- `emitname` of a label: name, `.`, id. -/
def lblName (name : String) (id : Nat) : String := name ++ "." ++ toString id

structure Ctx where
  /-- `f->lastid` -/
  lastid : Nat
  /-- `mkblock`'s static counter -/
  blockid : Nat
  /-- label of `f->end` -/
  cur : String
  deriving Repr, Inhabited

/-- Result of a lowering step: what was emitted, the resulting `struct value *`, the counters. -/
structure Out where
  items : List Item
  val : Val
  ctx : Ctx
  deriving Inhabited

/-- `qbetype(t).base` for the integer types. -/
def cls (t : CSem.Ty) : Cls := if t.size = 8 then .l else .w

/-- `qbetype(t).load` -/
def loadOf (cs : Bool) (t : CSem.Ty) : LoadTy :=
  match t.size with
  | 1 => if t.signed cs then .sb else .ub
  | 2 => if t.signed cs then .sh else .uh
  | 4 => .w
  | _ => .l

/-- `qbetype(t).store` -/
def storeOf (t : CSem.Ty) : StoreTy :=
  match t.size with
  | 1 => .b
  | 2 => .h
  | 4 => .w
  | _ => .l

/-- `funcinst(f, op, class, a0, a1)` with `class != 0`: a new temporary receives the result. -/
def funcinst (c : Ctx) (op : Op) (k : Cls) (args : List Val) : Out :=
  ⟨[.ins (.op (some (tmpName (c.lastid + 1), k)) op args)], .tmp (tmpName (c.lastid + 1)),
   ⟨c.lastid + 1, c.blockid, c.cur⟩⟩

/-- Emit `b` after `a`. -/
def Out.seq (a : Out) (b : Out) : Out := ⟨a.items ++ b.items, b.val, b.ctx⟩

/-- `convert(f, dst, src, l)` for integer types. -/
def convert (cs : Bool) (c : Ctx) (dst src : CSem.Ty) (l : Val) : Out :=
  if dst = .bool then
    match src.size with
    | 1 =>
      let o := funcinst c .extub .w [l]
      o.seq (funcinst o.ctx (.cmpw .ne) .w [o.val, .int 0])
    | 2 =>
      let o := funcinst c .extuh .w [l]
      o.seq (funcinst o.ctx (.cmpw .ne) .w [o.val, .int 0])
    | 4 => funcinst c (.cmpw .ne) .w [l, .int 0]
    | _ => funcinst c (.cmpl .ne) .w [l, .int 0]
  else if dst.size ≤ src.size then ⟨[], l, c⟩
  else
    match src.size with
    | 4 => funcinst c (if src.signed cs then .extsw else .extuw) (cls dst) [l]
    | 2 => funcinst c (if src.signed cs then .extsh else .extuh) (cls dst) [l]
    | _ => funcinst c (if src.signed cs then .extsb else .extub) (cls dst) [l]

/-- The value `funcjnz(f, v, t, …)` branches on: sub-`int` types are converted to `int`,
    8-byte types to `_Bool`, `int`-sized values are used as they are. -/
def jnzArg (cs : Bool) (c : Ctx) (t : CSem.Ty) (v : Val) : Out :=
  if t.size < 4 then convert cs c .int t v
  else if t.size > 4 then convert cs c .bool t v
  else ⟨[], v, c⟩

/-- Comparison opcode: signed or unsigned predicate, `w` or `l` operands. -/
def cmpSel (sg small : Bool) (s u : ICmp) : Op :=
  if small then .cmpw (if sg then s else u) else .cmpl (if sg then s else u)

/-- The instruction chosen by `funcexpr`, `case EXPRBINARY`, for an operator whose LEFT operand's type
    is signed (`sg`, `t->u.basic.issigned`) and at most 4 bytes wide (`small`, `t->size <= 4`). -/
def binOpSel (sg small : Bool) : BinOp → Op
  | .mul => .mul
  | .div => if sg then .div else .udiv
  | .mod => if sg then .rem else .urem
  | .add => .add
  | .sub => .sub
  | .shl => .shl
  | .shr => if sg then .sar else .shr
  | .bor => .or
  | .band => .and
  | .bxor => .xor
  | .lt => cmpSel sg small .slt .ult
  | .gt => cmpSel sg small .sgt .ugt
  | .le => cmpSel sg small .sle .ule
  | .ge => cmpSel sg small .sge .uge
  | .eq => cmpSel sg small .eq .eq
  | .ne => cmpSel sg small .ne .ne
  | .lor | .land => .copy   -- not reached

def binOpOf (cs : Bool) (op : BinOp) (t : CSem.Ty) : Op :=
  binOpSel (t.signed cs) (decide (t.size ≤ 4)) op

/-- `funcexpr(f, e)` -/
def funcexpr (cs : Bool) : Expr → Ctx → Out
  | .const _ u, c => ⟨[], .int (UInt64.ofNat u), c⟩                     -- mkintconst(e->u.constant.u)
  | .param t i, c =>                                                     -- funcload(f, t, d->value)
    funcinst c (.load (loadOf cs t)) (cls t) [.tmp (tmpName (2 * i + 2))]
  | .cast t e, c =>
    let o := funcexpr cs e c
    o.seq (convert cs o.ctx t e.ty o.val)
  | .neg t e, c =>
    let o := funcexpr cs e c
    o.seq (funcinst o.ctx .neg (cls t) [o.val])
  | .bin op t l r, c =>
    let ol := funcexpr cs l c
    if isLogic op then
      -- b[0] = mkblock("logic_right"); b[1] = mkblock("logic_join");
      let right := lblName "logic_right" (ol.ctx.blockid + 1)
      let join := lblName "logic_join" (ol.ctx.blockid + 2)
      let c1 : Ctx := ⟨ol.ctx.lastid, ol.ctx.blockid + 2, ol.ctx.cur⟩
      -- funcjnz(f, l, t, …); phi.val[0] = mkintconst(op == TLOR); phi.blk[0] = f->end
      let oj := jnzArg cs c1 l.ty ol.val
      let isOr := op == .lor
      let jump := if isOr then Jump.jnz oj.val join right else Jump.jnz oj.val right join
      let src0 : String × Val := (oj.ctx.cur, .int (if isOr then 1 else 0))
      -- funclabel(f, b[0]); r = funcexpr(f, e->u.binary.r)
      let or := funcexpr cs r ⟨oj.ctx.lastid, oj.ctx.blockid, right⟩
      -- phi.val[1] = convert(f, &typebool, rtype, r); phi.blk[1] = f->end
      let ov := convert cs or.ctx .bool r.ty or.val
      let src1 : String × Val := (ov.ctx.cur, ov.val)
      -- funclabel(f, b[1]); functemp(f, &b[1]->phi.res); phi.class = 'w'
      let res := tmpName (ov.ctx.lastid + 1)
      ⟨ol.items ++ oj.items ++ [.lbl (some jump) right []] ++ or.items ++ ov.items ++
         [.lbl none join [⟨res, .w, [src0, src1]⟩]],
       .tmp res,
       ⟨ov.ctx.lastid + 1, ov.ctx.blockid, join⟩⟩
    else
      let or := funcexpr cs r ol.ctx
      (ol.seq or).seq (funcinst or.ctx (binOpOf cs op l.ty) (cls t) [ol.val, or.val])
  | .cond t e a b, c =>
    -- b[0..2] = mkblock("cond_true"), mkblock("cond_false"), mkblock("cond_join")
    let ltrue := lblName "cond_true" (c.blockid + 1)
    let lfalse := lblName "cond_false" (c.blockid + 2)
    let ljoin := lblName "cond_join" (c.blockid + 3)
    -- v = funcexpr(f, e->base); funcjnz(f, v, e->base->type, b[0], b[1])
    let oc := funcexpr cs e ⟨c.lastid, c.blockid + 3, c.cur⟩
    let oj := jnzArg cs oc.ctx e.ty oc.val
    -- funclabel(f, b[0]); phi.val[0] = funcexpr(f, e->u.cond.t); phi.blk[0] = f->end; funcjmp(f, b[2])
    let oa := funcexpr cs a ⟨oj.ctx.lastid, oj.ctx.blockid, ltrue⟩
    -- funclabel(f, b[1]); phi.val[1] = funcexpr(f, e->u.cond.f); phi.blk[1] = f->end
    let ob := funcexpr cs b ⟨oa.ctx.lastid, oa.ctx.blockid, lfalse⟩
    -- funclabel(f, b[2]); functemp(f, &b[2]->phi.res); phi.class = qbetype(e->type).base
    let res := tmpName (ob.ctx.lastid + 1)
    ⟨oc.items ++ oj.items ++ [.lbl (some (.jnz oj.val ltrue lfalse)) ltrue []] ++ oa.items ++
       [.lbl (some (.jmp ljoin)) lfalse []] ++ ob.items ++
       [.lbl none ljoin [⟨res, cls t, [(oa.ctx.cur, oa.val), (ob.ctx.cur, ob.val)]⟩]],
     .tmp res,
     ⟨ob.ctx.lastid + 1, ob.ctx.blockid, ljoin⟩⟩

/-- `mkfunc`'s loop over the parameters: the `i`-th one (0-based) gets the temporary `2i+1`
    (`functemp`), a stack slot `2i+2` (`funcalloc`: `alloc4` for alignment ≤ 4, `alloc8` for 8)
    and is stored there (`funcstore`). -/
def spill (t : CSem.Ty) (i : Nat) : List Item :=
  [.ins (.op (some (tmpName (2 * i + 2), .l)) (.alloc (if t.size = 8 then 8 else 4))
      [.int (UInt64.ofNat t.size)]),
   .ins (.op none (.store (storeOf t)) [.tmp (tmpName (2 * i + 1)), .tmp (tmpName (2 * i + 2))])]

def spills : List CSem.Ty → Nat → List Item
  | [], _ => []
  | t :: ts, i => spill t i ++ spills ts (i + 1)

/-- An open block while assembling. -/
structure Open where
  label : String
  phis : List Phi
  ins : Array Ins

/-- Cut an item list into blocks; the last block ends with `final`. -/
def assemble (final : Jump) : Open → List Item → List Block
  | o, [] => [⟨o.label, o.phis, o.ins, some final⟩]
  | o, .ins i :: r => assemble final ⟨o.label, o.phis, o.ins.push i⟩ r
  | o, .lbl t l ph :: r => ⟨o.label, o.phis, o.ins, t⟩ :: assemble final ⟨l, ph, #[]⟩ r

/-- Label of the entry block when `mkblock`'s counter stands at `startid`. -/
def startLabel (startid : Nat) : String := lblName "start" (startid + 1)
def bodyLabel (startid : Nat) : String := lblName "body" (startid + 2)

/-- State after `mkfunc`: `2n` temporaries, blocks `start` and `body` exist. -/
def bodyCtx (startid : Nat) (f : CSem.Func) : Ctx :=
  { lastid := 2 * f.params.length, blockid := startid + 2, cur := bodyLabel startid }

/-- Lowering of the `return` operand. -/
def bodyOut (cs : Bool) (startid : Nat) (f : CSem.Func) : Out :=
  funcexpr cs f.body (bodyCtx startid f)

/-- Everything emitted for the function, in order. -/
def funcItems (cs : Bool) (startid : Nat) (f : CSem.Func) : List Item :=
  spills f.params 0 ++ [.lbl none (bodyLabel startid) []] ++ (bodyOut cs startid f).items

def paramSig : List CSem.Ty → Nat → List (Qbe.Ty × String)
  | [], _ => []
  | t :: ts, i => (.base (cls t), tmpName (2 * i + 1)) :: paramSig ts (i + 1)

/-- The function as `emitfunc` prints it (external linkage). -/
def emitFunc (cs : Bool) (startid : Nat) (f : CSem.Func) : Qbe.Func :=
  { «export» := true
    ret := some (.base (cls f.ret))
    name := f.name
    params := paramSig f.params 0
    variadic := false
    blocks := (assemble (.ret (some (bodyOut cs startid f).val)) ⟨startLabel startid, [], #[]⟩
                (funcItems cs startid f)).toArray }

/-- Value of `mkblock`'s counter after the function. -/
def nextBlockId (cs : Bool) (startid : Nat) (f : CSem.Func) : Nat := (bodyOut cs startid f).ctx.blockid

def moduleOf (f : Qbe.Func) : Module := ⟨#[.func f]⟩

/-- How the value `v` of a parameter of type `t` is passed: `w` parameters as the low 32 bits of the
    (sign- or zero-extended) value, `l` ones as its 64 bits. -/
def argOf (t : CSem.Ty) (v : Int) : Qbe.Ty × RVal :=
  if t.size = 8 then (.base .l, ⟨.l, UInt64.ofNat (v % 2 ^ 64).toNat⟩)
  else (.base .w, ⟨.w, UInt64.ofNat (v % 2 ^ 32).toNat⟩)

def argsOf : List CSem.Ty → List Int → List (Qbe.Ty × RVal)
  | t :: ts, v :: vs => argOf t v :: argsOf ts vs
  | _, _ => []

/-! ## Text, as `emitfunc` prints it -/

def renderVal : Val → String
  | .tmp n => "%" ++ n
  | .glob n th => (if th then "thread $" else "$") ++ n
  | .int n => toString n.toNat
  | .fs b => "s_" ++ toString b.toNat
  | .fd b => "d_" ++ toString b.toNat

def renderArgs : List Val → String
  | [] => ""
  | [a] => renderVal a
  | a :: r => renderVal a ++ ", " ++ renderArgs r

def renderIns : Ins → String
  | .op res o args =>
    "\t" ++ (match res with
      | some (x, k) => "%" ++ x ++ " =" ++ k.name ++ " "
      | none => "") ++ o.name ++ " " ++ renderArgs args ++ "\n"
  | .call .. => "\tcall ?\n"

def renderPhiSrcs : List (String × Val) → String
  | [] => ""
  | [(l, v)] => "@" ++ l ++ " " ++ renderVal v
  | (l, v) :: r => "@" ++ l ++ " " ++ renderVal v ++ ", " ++ renderPhiSrcs r

def renderPhi (p : Phi) : String :=
  "\t%" ++ p.res ++ " =" ++ p.k.name ++ " phi " ++ renderPhiSrcs p.srcs ++ "\n"

def renderJump : Option Jump → String
  | none => ""
  | some (.jmp l) => "\tjmp @" ++ l ++ "\n"
  | some (.jnz v a b) => "\tjnz " ++ renderVal v ++ ", @" ++ a ++ ", @" ++ b ++ "\n"
  | some (.ret none) => "\tret\n"
  | some (.ret (some v)) => "\tret " ++ renderVal v ++ "\n"
  | some .hlt => "\thlt\n"

def renderBlock (b : Block) : String :=
  "@" ++ b.label ++ "\n" ++ String.join (b.phis.map renderPhi) ++
    String.join (b.ins.toList.map renderIns) ++ renderJump b.term

def renderParams : List (Qbe.Ty × String) → String
  | [] => ""
  | [(t, x)] => t.name ++ " %" ++ x
  | (t, x) :: r => t.name ++ " %" ++ x ++ ", " ++ renderParams r

def render (f : Qbe.Func) : String :=
  (if f.export then "export\n" else "") ++ "function " ++
    (match f.ret with | some t => t.name ++ " " | none => "") ++ "$" ++ f.name ++ "(" ++
    renderParams f.params ++ ") {\n" ++ String.join (f.blocks.toList.map renderBlock) ++ "}\n"

end CprocVerif.Lower

/-!
# Model of `/repo/util.c:arrayadd` and `/repo/scan.c:bufadd` (growable buffers)

`struct array { void *val; size_t len, cap; }`.  `size_t` is modelled as `Nat`; the C code's
wrap-around at 2^64 bytes is unreachable before `realloc` fails and is not modelled (stated in
DESIGN.md, trusted base).
-/
namespace CprocVerif.Util

/-- The `do a->cap = a->cap ? a->cap * 2 : 256; while (a->cap - a->len < n);` loop of `arrayadd`
(C unsigned subtraction `cap - len` never wraps because `len ≤ cap` is an invariant). -/
def growCap (cap len n : Nat) : Nat :=
  let c := if cap = 0 then 256 else cap * 2
  if _h : c - len < n then growCap c len n else c
termination_by n + len - cap
decreasing_by
  simp_wf
  simp only [c] at _h
  split at _h <;> split <;> omega

structure Arr where
  len : Nat
  cap : Nat
deriving Repr, DecidableEq

/-- Invariant of `struct array` / `struct buffer`. -/
def Arr.Inv (a : Arr) : Prop := a.len ≤ a.cap

/-- `arrayadd(a, n)`: returns the new array state and the offset of the `n` fresh bytes. -/
def arrayadd (a : Arr) (n : Nat) : Arr × Nat :=
  let cap := if a.cap - a.len < n then growCap a.cap a.len n else a.cap
  ({ len := a.len + n, cap := cap }, a.len)

/-- `bufadd(b, c)` of scan.c: `if (len >= cap) cap = cap ? cap * 2 : 256; str[len++] = c`. -/
def bufadd (b : Arr) : Arr × Nat :=
  let cap := if b.len ≥ b.cap then (if b.cap = 0 then 256 else b.cap * 2) else b.cap
  ({ len := b.len + 1, cap := cap }, b.len)

end CprocVerif.Util

/-!
# Model of `/repo/driver.c` (the `cproc` driver): argument loop, stage selection, output naming,
pipeline and link command construction.

Strings are `List Char` (`Str`).  The model is a transliteration:

* `main`'s `if/strcmp` chain and `switch (arg[1])` are the table `optRows` *in source order*,
  interpreted by first match (`strcmp` = `Match.exact`, `strncmp` = `Match.pfx`,
  `case 'x':` = `Match.letter`; the pre-switch test `arg[2] != '\0' && strchr("cESsv", arg[1])`
  is the `bare` flag of a letter row).  `Gen/DriverTables.lean` is the same table extracted from
  the C source; `Props/C17` proves them equal by `decide`.
* `nextarg` (attached or following argument, `usage` when there is none) and the
  `if (!argv[1]) usage(NULL); … *++argv` form of `-include`, `-idirafter`, `-isystem`, `-iquote`,
  `-MT`, `-MF` are `nextarg` / `sepArg`.
* `buildobj` = `buildObj` (temporary object `Word.tmp i` for input number `i`), `spawnphase` =
  `mkInvs`, `buildexe` = `linkArgv`; `Plan.unlinks` = what the `atexit(cleanup)` handler removes
  (every temporary object recorded in `tmpfiles`).
-/

namespace CprocVerif.Driver

abbrev Str := List Char
abbrev str (x : String) : Str := x.toList

inductive FileType | none | asm | asmpp | c | chdr | cppout | obj | qbe
  deriving DecidableEq, Repr, Inhabited

inductive Stage | preprocess | compile | codegen | assemble | link
  deriving DecidableEq, Repr, Inhabited

def Stage.idx : Stage → Nat
  | .preprocess => 0 | .compile => 1 | .codegen => 2 | .assemble => 3 | .link => 4

def Stage.all : List Stage := [.preprocess, .compile, .codegen, .assemble, .link]

def Stage.name : Stage → String
  | .preprocess => "preprocess" | .compile => "compile" | .codegen => "codegen"
  | .assemble => "assemble" | .link => "link"

/-! ## Tables (each also extracted from the source into `Gen/DriverTables.lean`) -/

/-- `detectfiletype`: text after the last `.` → type; anything else is an object. -/
def suffixTable : List (Str × FileType) :=
  [(str "c", .c), (str "h", .chdr), (str "i", .cppout), (str "qbe", .qbe), (str "s", .asm), (str "S", .asmpp)]

/-- `switch (input->filetype)` in `main`: the stages an input of each type goes through.
`NONE` has no row (`default: usage("reading from standard input requires -x")`). -/
def maskTable : List (FileType × List Stage) :=
  [(.asm,    [.assemble, .link]),
   (.asmpp,  [.preprocess, .assemble, .link]),
   (.c,      [.preprocess, .compile, .codegen, .assemble, .link]),
   (.chdr,   [.preprocess]),
   (.cppout, [.compile, .codegen, .assemble, .link]),
   (.qbe,    [.codegen, .assemble, .link]),
   (.obj,    [.link])]

/-- `-x` languages. -/
def langTable : List (Str × FileType) :=
  [(str "none", .none), (str "c", .c), (str "c-header", .chdr), (str "cpp-output", .cppout),
   (str "qbe", .qbe), (str "assembler", .asm), (str "assembler-with-cpp", .asmpp)]

/-- `hasprefix(target, …)` chain: prefixes → (`-t` for cproc-qbe, `-t` for qbe). -/
def archTable : List (List Str × Str × Str) :=
  [([str "x86_64-", str "amd64-"], str "x86_64-sysv", str "amd64_sysv"),
   ([str "aarch64-"], str "aarch64", str "arm64"),
   ([str "riscv64-"], str "riscv64", str "rv64")]

/-- `-W<c>,…`: which command the comma list is appended to. -/
def wTable : List (Char × Stage) := [('p', .preprocess), ('a', .assemble), ('l', .link)]

inductive Match
  | exact (s : Str)                 -- strcmp(arg, s) == 0
  | pfx (s : Str)                   -- strncmp(arg, s, strlen s) == 0
  | letter (c : Char) (bare : Bool) -- case c: of switch (arg[1]); bare: usage unless arg[2] == 0
  deriving DecidableEq, Repr

inductive Piece
  | lit (s : Str)   -- a string literal
  | self            -- `arg`
  | joined          -- `nextarg(&argv)`: rest of this argument, or the next argument
  | sep             -- `*++argv` after `if (!argv[1]) usage(NULL)`
  deriving DecidableEq, Repr

inductive Act
  | add (st : Stage) (ps : List Piece)               -- arrayaddptr(&stages[st].cmd, …) …
  | last (s : Stage)                                  -- last = s
  | addLast (st : Stage) (ps : List Piece) (s : Stage)
  | nostdlib | verbose | ignore | usage
  | lib        -- input { name = nextarg, lib = true, filetype = OBJ, stages = 1<<LINK }
  | output     -- output = nextarg
  | lang       -- -x
  | wcomma     -- -W: `-W<c>,a,b` forwarded by `wTable`, everything else ignored
  deriving DecidableEq, Repr

structure OptRow where
  m : Match
  act : Act
  deriving DecidableEq, Repr

/-- The option chain of `main`, in source order (first match wins). -/
def optRows : List OptRow :=
  [⟨.exact (str "-nostdlib"), .nostdlib⟩,
   ⟨.exact (str "-nostdinc"), .add .preprocess [.self]⟩,
   ⟨.exact (str "-static"), .add .link [.self]⟩,
   ⟨.exact (str "-emit-qbe"), .last .compile⟩,
   ⟨.exact (str "-include"), .add .preprocess [.self, .sep]⟩,
   ⟨.exact (str "-idirafter"), .add .preprocess [.self, .sep]⟩,
   ⟨.exact (str "-isystem"), .add .preprocess [.self, .sep]⟩,
   ⟨.exact (str "-iquote"), .add .preprocess [.self, .sep]⟩,
   ⟨.exact (str "-pipe"), .ignore⟩,
   ⟨.pfx (str "-std="), .add .preprocess [.self]⟩,
   ⟨.exact (str "-pedantic"), .ignore⟩,
   ⟨.exact (str "-pthread"), .add .link [.lit (str "-l"), .lit (str "pthread")]⟩,
   ⟨.letter 'c' true, .last .assemble⟩,
   ⟨.letter 'D' false, .add .preprocess [.lit (str "-D"), .joined]⟩,
   ⟨.letter 'E' true, .last .preprocess⟩,
   ⟨.letter 'g' false, .ignore⟩,
   ⟨.letter 'I' false, .add .preprocess [.lit (str "-I"), .joined]⟩,
   ⟨.letter 'L' false, .add .link [.lit (str "-L"), .joined]⟩,
   ⟨.letter 'l' false, .lib⟩,
   ⟨.exact (str "-M"), .addLast .preprocess [.self] .preprocess⟩,
   ⟨.exact (str "-MM"), .addLast .preprocess [.self] .preprocess⟩,
   ⟨.exact (str "-MD"), .add .preprocess [.self]⟩,
   ⟨.exact (str "-MMD"), .add .preprocess [.self]⟩,
   ⟨.exact (str "-MT"), .add .preprocess [.self, .sep]⟩,
   ⟨.exact (str "-MF"), .add .preprocess [.self, .sep]⟩,
   ⟨.letter 'M' false, .usage⟩,
   ⟨.letter 'O' false, .ignore⟩,
   ⟨.letter 'o' false, .output⟩,
   ⟨.letter 'P' false, .add .preprocess [.lit (str "-P")]⟩,
   ⟨.letter 'S' true, .last .codegen⟩,
   ⟨.letter 's' true, .add .link [.lit (str "-s")]⟩,
   ⟨.letter 'U' false, .add .preprocess [.lit (str "-U"), .joined]⟩,
   ⟨.letter 'v' true, .verbose⟩,
   ⟨.letter 'W' false, .wcomma⟩,
   ⟨.letter 'x' false, .lang⟩]

/-! ## String helpers -/

/-- `strncmp(a, p, strlen p) == 0`. -/
def isPfx : Str → Str → Bool
  | [], _ => true
  | _ :: _, [] => false
  | p :: ps, a :: as => p == a && isPfx ps as

/-- text after the last `.` (`strrchr(name, '.') + 1`), if there is a dot. -/
def lastDotSuffix (n : Str) : Option Str :=
  let r := n.reverse
  let suf := r.takeWhile (· != '.')
  if suf.length < r.length then some suf.reverse else none

def detectFileType (name : Str) : FileType :=
  match lastDotSuffix name with
  | some suf => (suffixTable.lookup suf).getD .obj
  | none => .obj

/-- `strrchr(name, '/')`: the part after the last slash (the whole name if there is none). -/
def afterLastSlash (n : Str) : Str := (n.reverse.takeWhile (· != '/')).reverse

/-- `changeext`: directory dropped, text from the last `.` replaced by `.ext`. -/
def changeext (n ext : Str) : Str :=
  let b := afterLastSlash n
  let r := b.reverse
  let suf := r.takeWhile (· != '.')
  let base := if suf.length < r.length then (r.drop (suf.length + 1)).reverse else b
  base ++ '.' :: ext

/-- the `strchr(arg, ',')` loop of `-W<c>,…` (always at least one piece, empty pieces kept). -/
def splitComma : Str → List Str
  | [] => [[]]
  | c :: cs =>
    if c = ',' then [] :: splitComma cs
    else match splitComma cs with
      | h :: t => (c :: h) :: t
      | [] => [[c]]

/-! ## The argument loop -/

structure Input where
  name : Str
  stages : List Stage
  ftype : FileType
  lib : Bool
  deriving DecidableEq, Repr

inductive UsageWhy | plain | stdinNeedsX | unknownLang | unknownOpt | objToStdout | oMulti
  deriving DecidableEq, Repr

inductive Refusal
  | usage (why : UsageWhy)   -- `usage(...)`: message, exit 2
  deriving DecidableEq, Repr

structure PState where
  last : Stage := .link
  ftype : FileType := .none
  output : Option Str := none
  inputs : List Input := []
  cpp : List Str := []    -- appended to stages[PREPROCESS].cmd after the configured command
  cc : List Str := []
  qbe : List Str := []
  as : List Str := []
  ld : List Str := []
  nostdlib : Bool := false
  verbose : Bool := false
  deriving DecidableEq, Repr

def PState.addTo (s : PState) : Stage → List Str → PState
  | .preprocess, ws => { s with cpp := s.cpp ++ ws }
  | .compile, ws => { s with cc := s.cc ++ ws }
  | .codegen, ws => { s with qbe := s.qbe ++ ws }
  | .assemble, ws => { s with as := s.as ++ ws }
  | .link, ws => { s with ld := s.ld ++ ws }

def PState.user (s : PState) : Stage → List Str
  | .preprocess => s.cpp | .compile => s.cc | .codegen => s.qbe | .assemble => s.as | .link => s.ld

inductive StepR
  | next (s : PState) (consumed : Bool)   -- continue; `consumed`: the following argument was used
  | refuse (r : Refusal)
  deriving Repr

inductive ArgR | ok (v : Str) (consumed : Bool) | usage

/-- `nextarg(&argv)`. -/
def nextarg (arg : Str) (next : Option Str) : ArgR :=
  match arg.drop 2 with
  | [] => match next with
    | some n => .ok n true
    | none => .usage
  | v => .ok v false

/-- `if (!argv[1]) usage(NULL); … *++argv`. -/
def sepArg (next : Option Str) : ArgR :=
  match next with
  | some n => .ok n true
  | none => .usage

def evalPieces (ps : List Piece) (arg v : Str) : List Str :=
  ps.map fun
    | .lit s => s
    | .self => arg
    | .joined => v
    | .sep => v

def Match.matches : Match → Str → Bool
  | .exact s, a => a == s
  | .pfx p, a => isPfx p a
  | .letter c _, a => (a.drop 1).head? == some c

def Match.bareViolated : Match → Str → Bool
  | .letter _ true, a => a.length > 2
  | _, _ => false

def maskOf (ft : FileType) : Option (List Stage) := maskTable.lookup ft

/-- a non-option argument: `input = arrayadd(&inputs, …)`. -/
def addInput (s : PState) (arg : Str) : Except Refusal PState :=
  let ft := if s.ftype == .none && arg != ['-'] then detectFileType arg else s.ftype
  match maskOf ft with
  | none => .error (.usage .stdinNeedsX)
  | some m => .ok { s with inputs := s.inputs ++ [{ name := arg, stages := m, ftype := ft, lib := false }] }

def applyAdd (s : PState) (st : Stage) (ps : List Piece) (arg : Str) (next : Option Str)
    (k : PState → PState) : StepR :=
  if ps.contains .joined then
    match nextarg arg next with
    | .ok v c => .next (k (s.addTo st (evalPieces ps arg v))) c
    | .usage => .refuse (.usage .plain)
  else if ps.contains .sep then
    match sepArg next with
    | .ok v c => .next (k (s.addTo st (evalPieces ps arg v))) c
    | .usage => .refuse (.usage .plain)
  else .next (k (s.addTo st (evalPieces ps arg []))) false

def withNextarg (s : PState) (arg : Str) (next : Option Str) (k : PState → Str → Except Refusal PState) : StepR :=
  match nextarg arg next with
  | .ok v c =>
    match k s v with
    | .ok s' => .next s' c
    | .error r => .refuse r
  | .usage => .refuse (.usage .plain)

def applyAct (s : PState) (a : Act) (arg : Str) (next : Option Str) : StepR :=
  match a with
  | .add st ps => applyAdd s st ps arg next id
  | .last l => .next { s with last := l } false
  | .addLast st ps l => applyAdd s st ps arg next (fun s => { s with last := l })
  | .nostdlib => .next { s with nostdlib := true } false
  | .verbose => .next { s with verbose := true } false
  | .ignore => .next s false
  | .usage => .refuse (.usage .plain)
  | .lib => withNextarg s arg next fun s v =>
      .ok { s with inputs := s.inputs ++ [{ name := v, stages := [.link], ftype := .obj, lib := true }] }
  | .output => withNextarg s arg next fun s v => .ok { s with output := some v }
  | .lang => withNextarg s arg next fun s v =>
      match langTable.lookup v with
      | some ft => .ok { s with ftype := ft }
      | none => .error (.usage .unknownLang)
  | .wcomma =>
    match arg.drop 2 with
    | t :: ',' :: rest =>
      match wTable.lookup t with
      | some st => .next (s.addTo st (splitComma rest)) false
      | none => .refuse (.usage .plain)
    | _ => .next s false

/-- `arg[0] != '-' || arg[1] == '\0'`. -/
def isInputArg : Str → Bool
  | '-' :: _ :: _ => false
  | _ => true

def firstMatch (arg : Str) : Option OptRow := optRows.find? (·.m.matches arg)

/-- One iteration of the `for (;;)` loop of `main`. -/
def step (s : PState) (arg : Str) (next : Option Str) : StepR :=
  if isInputArg arg then
    match addInput s arg with
    | .ok s' => .next s' false
    | .error r => .refuse r
  else
    match firstMatch arg with
    | none => .refuse (.usage .unknownOpt)
    | some r =>
      if r.m.bareViolated arg then .refuse (.usage .plain)
      else applyAct s r.act arg next

def parse (s : PState) : List Str → Except Refusal PState
  | [] => .ok s
  | a :: rest =>
    match step s a rest.head? with
    | .refuse r => .error r
    | .next s' false => parse s' rest
    | .next s' true => parse s' rest.tail
  termination_by l => l.length
  decreasing_by all_goals simp_wf <;> (try simp [List.length_tail]) <;> omega

/-- the checks between the loop and the first `buildobj`. -/
def check (s : PState) : Except Refusal Unit :=
  if s.inputs.isEmpty then .error (.usage .plain)
  else match s.output with
    | none => .ok ()
    | some o =>
      if o = ['-'] then
        (if s.last.idx ≥ Stage.assemble.idx then .error (.usage .objToStdout) else .ok ())
      else if s.last ≠ .link ∧ s.inputs.length > 1 then .error (.usage .oMulti)
      else .ok ()

/-! ## Plans -/

inductive Word
  | lit (s : Str)
  | tmp (i : Nat)     -- the `/tmp/cproc-XXXXXX` object made for input number `i`
  deriving DecidableEq, Repr

inductive Src | file | inherit | prev deriving DecidableEq, Repr
inductive Dst | pipe | path (w : Word) | stdout deriving DecidableEq, Repr

structure Inv where
  stage : Stage
  base : List Str      -- stages[i].cmd[0 .. cmdbase)
  io : List Word       -- `-o output` (last stage) and the input name (first stage)
  src : Src
  dst : Dst
  deriving DecidableEq, Repr

def Inv.argv (i : Inv) : List Word := i.base.map .lit ++ i.io

structure Pipeline where
  input : Nat
  invs : List Inv
  deriving DecidableEq, Repr

structure LinkItem where
  word : Word
  lib : Bool
  ftype : FileType
  deriving DecidableEq, Repr

structure Plan where
  pipelines : List Pipeline
  link : Option (List Word)    -- argv of the link step
  unlinks : List Word          -- removed after the link step
  verbose : Bool
  deriving DecidableEq, Repr

inductive Outcome
  | fatalTarget
  | refused (r : Refusal)
  | run (p : Plan)
  deriving DecidableEq, Repr

structure Config where
  target : Str
  startfiles : List Str
  endfiles : List Str
  preprocesscmd : List Str
  compilecmd : List Str     -- [readlink("/proc/self/exe") ++ "-qbe"]
  codegencmd : List Str
  assemblecmd : List Str
  linkcmd : List Str
  deriving Repr

def archOf (target : Str) : Option (Str × Str) :=
  (archTable.find? fun r => r.1.any fun p => isPfx p target).map (·.2)

/-- `stages[st].cmd[0 .. cmdbase)` after the argument loop. -/
def baseCmd (cfg : Config) (arch : Str × Str) (s : PState) : Stage → List Str
  | .preprocess => cfg.preprocesscmd ++ s.cpp
  | .compile => cfg.compilecmd ++ [str "-t", arch.1] ++ s.cc
  | .codegen => cfg.codegencmd ++ [str "-t", arch.2] ++ s.qbe
  | .assemble => cfg.assemblecmd ++ s.as
  | .link => cfg.linkcmd ++ s.ld

/-- the spawn loop of `buildobj` (`spawnphase`). -/
def mkInvs (base : Stage → List Str) (name : Option Str) (out : Option Word) : Bool → List Stage → List Inv
  | _, [] => []
  | first, st :: rest =>
    let lastp := rest.isEmpty
    { stage := st
      base := base st
      io := (if lastp then (match out with | some w => [.lit (str "-o"), w] | none => []) else []) ++
            (if first then (match name with | some n => [.lit n] | none => []) else [])
      src := if first then (if name.isSome then .file else .inherit) else .prev
      dst := if lastp then (match out with | some w => .path w | none => .stdout) else .pipe } ::
      mkInvs base name out false rest

/-- output naming of `buildobj`; `sts` = stages already cut at `last`. -/
def objOutput (idx : Nat) (name : Str) (sts : List Stage) (output : Option Str) : Option Word :=
  if sts.contains .link then some (.tmp idx)
  else match output with
    | some o => if o = ['-'] then none else some (.lit o)
    | none =>
      if sts.contains .assemble then some (.lit (changeext name (str "o")))
      else if sts.contains .codegen then some (.lit (changeext name (str "s")))
      else if sts.contains .compile then some (.lit (changeext name (str "qbe")))
      else none

/-- the body of the `arrayforeach (&inputs, input)` loop: skip, or `buildobj`. -/
def buildObj (base : Stage → List Str) (last : Stage) (output : Option Str) (idx : Nat) (inp : Input) :
    Option Pipeline × Option LinkItem :=
  let keep : LinkItem := { word := .lit inp.name, lib := inp.lib, ftype := inp.ftype }
  if !inp.stages.contains last then (none, none)          -- `input->name = NULL; continue;`
  else if inp.ftype == .obj then (none, some keep)
  else
    let sts := inp.stages.filter (·.idx ≤ last.idx)
    let out := objOutput idx inp.name sts output
    let name := if inp.name = ['-'] then none else some inp.name
    (some { input := idx, invs := mkInvs base name out true (sts.filter (· != .link)) },
     out.map fun w => { keep with word := w })

def buildAll (base : Stage → List Str) (last : Stage) (output : Option Str) : Nat → List Input →
    List (Option Pipeline × Option LinkItem)
  | _, [] => []
  | i, inp :: rest => buildObj base last output i inp :: buildAll base last output (i + 1) rest

/-- `buildexe`'s command. -/
def linkArgv (cfg : Config) (base : List Str) (nostdlib : Bool) (output : Option Str) (items : List LinkItem) :
    List Word :=
  base.map .lit ++ [.lit (str "-o"), .lit (output.getD (str "a.out"))] ++
    (if nostdlib then [] else cfg.startfiles.map .lit) ++
    items.flatMap (fun it => (if it.lib then [Word.lit (str "-l")] else []) ++ [it.word]) ++
    (if nostdlib then [] else cfg.endfiles.map .lit)

def build (cfg : Config) (arch : Str × Str) (s : PState) : Plan :=
  let base := baseCmd cfg arch s
  let rs := buildAll base s.last s.output 0 s.inputs
  let items := rs.filterMap (·.2)
  { pipelines := rs.filterMap (·.1)
    link := if s.last = .link then some (linkArgv cfg (base .link) s.nostdlib s.output items) else none
    unlinks := (items.filter fun it => match it.word with | .tmp _ => true | .lit _ => false).map (·.word)
    verbose := s.verbose }

/-- `main`. -/
def plan (cfg : Config) (argv : List Str) : Outcome :=
  match archOf cfg.target with
  | none => .fatalTarget
  | some arch =>
    match parse {} argv with
    | .error r => .refused r
    | .ok s =>
      match check s with
      | .error r => .refused r
      | .ok () => .run (build cfg arch s)

end CprocVerif.Driver

import CprocVerif.Spec.Unicode

/-!
# Model of cproc's character-constant / string-literal handling

Transliteration of `/repo/utf.c` (`utf8enc`, `utf8dec`, `utf16enc`), `/repo/expr.c` (`isodigit`,
`decodechar`, `encodechar8/16/32`, `stringconcat`, `primaryexpr` case `TCHARCONST`), the literal
part of `/repo/scan.c` (`escape`, `charconst`, `stringlit`, the prefix case of `scankind`) and the
`typewchar` / `signedchar` columns of `/repo/targ.c:alltargs`.

Conventions: bytes and code units are `Nat`s; `uint_least32_t` arithmetic is modelled with an
explicit `% 2^32`, stores into `unsigned char` / `uint_least16_t` with `% 256` / `% 65536`.
`error()` (exit status 1 + diagnostic) and `assert()` failures are the `Err` constructors.  Only the
*names* of the C types (`Unicode.CType`) and the shape of a target record are shared with the spec;
sizes, signedness and the target table are the model's own (`tsize`, `tsigned`, `alltargs`).
-/

namespace CprocVerif.CharLit
open CprocVerif.Unicode (CType Target)

/-! ## utf.c -/

/-- `a - b` on `uint_least32_t`. -/
def sub32 (a b : Nat) : Nat := (a % 2 ^ 32 + 2 ^ 32 - b % 2 ^ 32) % 2 ^ 32

/-- `utf8enc`: the bytes written (the return value is their number); `none` = `assert(0)`. -/
def utf8enc (c : Nat) : Option (List Nat) :=
  if c < 0x80 then some [c % 256]
  else if c < 0x800 then
    some [(0xc0 ||| (c >>> 6)) % 256, (0x80 ||| (c &&& 0x3f)) % 256]
  else if c < 0xd800 || sub32 c 0xe000 < 0x2000 then
    some [(0xe0 ||| (c >>> 12)) % 256, (0x80 ||| ((c >>> 6) &&& 0x3f)) % 256,
      (0x80 ||| (c &&& 0x3f)) % 256]
  else if sub32 c 0x10000 < 0x100000 then
    some [(0xf0 ||| (c >>> 18)) % 256, (0x80 ||| ((c >>> 12) &&& 0x3f)) % 256,
      (0x80 ||| ((c >>> 6) &&& 0x3f)) % 256, (0x80 ||| (c &&& 0x3f)) % 256]
  else none

/-- `s[i]` as `unsigned char`; the text is NUL-terminated, so the byte after the list is 0. -/
def rd (bs : List Nat) (i : Nat) : Nat := bs.getD i 0 % 256

/-- The continuation loop `for (i = 1; i < l; ++i)` of `utf8dec`: `k` iterations left, `bs` starts
at `s[i]`, `r` bytes read so far.  Returns the accumulated value (or `none` for `return -1`) and
the number of bytes read. -/
def contLoop : Nat → List Nat → Nat → Nat → Option Nat × Nat
  | 0, _, x, r => (some x, r)
  | k + 1, bs, x, r =>
    if rd bs 0 &&& 0xc0 ≠ 0x80 then (none, r + 1)
    else contLoop k bs.tail ((x <<< 6 ||| (rd bs 0 &&& 0x3f)) % 2 ^ 32) (r + 1)

/-- Lead-byte classification of `utf8dec`: initial `x` and length `l`. -/
def lead (b : Nat) : Option (Nat × Nat) :=
  if b &&& 0xe0 = 0xc0 then some (b &&& 0x1f, 2)
  else if b &&& 0xf0 = 0xe0 then some (b &&& 0x0f, 3)
  else if b &&& 0xf8 = 0xf0 then some (b &&& 0x07, 4)
  else none

/-- `utf8dec(&c, s, n)` instrumented: `.1` = `some (c, l)` or `none` for `(size_t)-1`;
`.2` = the number of bytes of `s` that were read (`s[0] .. s[.2 - 1]`). -/
def utf8decR (bs : List Nat) (n : Nat) : Option (Nat × Nat) × Nat :=
  if rd bs 0 < 0x80 then (some (rd bs 0, 1), 1)
  else
    match lead (rd bs 0) with
    | none => (none, 1)
    | some xl =>
      if n < xl.2 then (none, 1)
      else
        match contLoop (xl.2 - 1) bs.tail xl.1 1 with
        | (none, r) => (none, r)
        | (some x, r) =>
          if x ≥ 0x110000 || sub32 x 0xd800 < 0x0800 then (none, r)
          else if x < (if xl.2 = 2 then 0x80 else if xl.2 = 3 then 0x800 else 0x10000) then (none, r)
          else (some (x, xl.2), r)

def utf8dec (bs : List Nat) (n : Nat) : Option (Nat × Nat) := (utf8decR bs n).1

/-- `utf16enc`: the units written; `none` = `assert(0)`. -/
def utf16enc (c : Nat) : Option (List Nat) :=
  if c < 0xd800 || sub32 c 0xe000 < 0x2000 then some [c % 65536]
  else
    if sub32 c 0x10000 < 0x100000 then
      some [(0xd800 ||| ((sub32 c 0x10000 >>> 10) &&& 0x3ff)) % 65536,
        (0xdc00 ||| (sub32 c 0x10000 &&& 0x3ff)) % 65536]
    else none

/-! ## Outcomes -/

inductive Err
  /-- `error(loc, "%s contains invalid UTF-8")` -/
  | invalidUtf8
  /-- `error("adjacent string literals have differing prefixes")` -/
  | prefixMismatch
  /-- `error("character constant contains more than one character")` -/
  | multiChar
  /-- scan.c: `invalid escape sequence` -/
  | badEscape
  /-- scan.c: `invalid hexadecimal escape sequence` -/
  | badHex
  /-- scan.c: `newline in …` -/
  | newline
  /-- scan.c: `null byte in …` -/
  | nul
  /-- scan.c: `EOF in …` -/
  | eof
  /-- not a literal token at all -/
  | notLiteral
  /-- an `assert` fails (abort, not a diagnostic) -/
  | assertion
  /-- the decode loop would run past the end of the token text (memory error) -/
  | overrun
  deriving DecidableEq, Repr

/-- The outcomes that are a regular diagnostic + exit status 1. -/
def Err.isDiagnostic : Err → Bool
  | .assertion | .overrun => false
  | _ => true

/-! ## ctype.h in the C locale, expr.c helpers -/

def isodigit (b : Nat) : Bool := 0x30 ≤ b && b ≤ 0x37
def isxdigit (b : Nat) : Bool :=
  (0x30 ≤ b && b ≤ 0x39) || (0x41 ≤ b && b ≤ 0x46) || (0x61 ≤ b && b ≤ 0x66)
def tolower (b : Nat) : Nat := if 0x41 ≤ b && b ≤ 0x5a then b + 32 else b

/-- `*s > '9' ? 10 + tolower(*s) - 'a' : *s - '0'` -/
def hexval (b : Nat) : Nat := if b > 0x39 then 10 + tolower b - 0x61 else b - 0x30

/-- `do c = c * 16 + …; while (isxdigit(*++s));` entered at the first digit: value (mod 2^32) and
number of digits consumed. -/
def hexRun : List Nat → Nat → Nat × Nat
  | [], c => (c, 0)
  | b :: bs, c =>
    if isxdigit b then ((hexRun bs ((c * 16 + hexval b) % 2 ^ 32)).1,
      (hexRun bs ((c * 16 + hexval b) % 2 ^ 32)).2 + 1)
    else (c, 0)

/-- `do c = c * 8 + (*s++ - '0'); while (++i < 3 && isodigit(*s));` with `k` digits still allowed. -/
def octRun : Nat → List Nat → Nat → Nat × Nat
  | 0, _, c => (c, 0)
  | _ + 1, [], c => (c, 0)
  | k + 1, b :: bs, c =>
    if isodigit b then ((octRun k bs (c * 8 + (b - 0x30))).1, (octRun k bs (c * 8 + (b - 0x30))).2 + 1)
    else (c, 0)

/-- The eleven simple escapes of `decodechar`'s `switch`. -/
def simpleEsc (b : Nat) : Option Nat :=
  if b = 0x27 || b = 0x22 || b = 0x3f || b = 0x5c then some b
  else if b = 0x61 then some 7
  else if b = 0x62 then some 8
  else if b = 0x66 then some 12
  else if b = 0x6e then some 10
  else if b = 0x72 then some 13
  else if b = 0x74 then some 9
  else if b = 0x76 then some 11
  else none

/-- `decodechar(src, &chr, &hexoct, …)`: `(chr, hexoct, number of bytes consumed)`. -/
def decodechar (src : List Nat) : Except Err (Nat × Bool × Nat) :=
  if src.headD 0 = 0x5c then
    let s := src.tail
    match simpleEsc (s.headD 0) with
    | some c => .ok (c, false, 2)
    | none =>
      if s.headD 0 = 0x78 then
        if isxdigit (s.tail.headD 0) then
          .ok ((hexRun s.tail 0).1, true, 2 + (hexRun s.tail 0).2)
        else .error .assertion
      else if isodigit (s.headD 0) then
        .ok ((octRun 3 s 0).1, true, 1 + (octRun 3 s 0).2)
      else .error .assertion
  else
    match utf8dec src 4 with
    | some cn => .ok (cn.1, false, cn.2)
    | none => .error .invalidUtf8

/-- `encodechar8`: the bytes written. -/
def encodechar8 (chr : Nat) (hexoct : Bool) : Except Err (List Nat) :=
  if !hexoct then
    match utf8enc chr with
    | some bs => .ok bs
    | none => .error .assertion
  else .ok [chr % 256]

/-- `encodechar16`: the `uint_least16_t` units written. -/
def encodechar16 (chr : Nat) (hexoct : Bool) : Except Err (List Nat) :=
  if !hexoct then
    match utf16enc chr with
    | some us => .ok us
    | none => .error .assertion
  else .ok [chr % 65536]

/-- `encodechar32`: the `uint_least32_t` unit written. -/
def encodechar32 (chr : Nat) (_hexoct : Bool) : Except Err (List Nat) := .ok [chr % 2 ^ 32]

/-! ## type.c / targ.c -/

/-- `size` of `typechar`, `typeuchar`, `typeushort`, `typeint`, `typeuint` (type.c). -/
def tsize : CType → Nat
  | .char => 1 | .uchar => 1 | .ushort => 2 | .int => 4 | .uint => 4

/-- `u.basic.issigned` after `targinit` (`typechar.u.basic.issigned = targ->signedchar`). -/
def tsigned (t : Target) : CType → Bool
  | .char => t.charSigned | .uchar => false | .ushort => false | .int => true | .uint => false

/-- `alltargs[]` of targ.c: name, `signedchar`, `typewchar`. -/
def alltargs : List Target :=
  [⟨"x86_64-sysv", true, .int⟩, ⟨"aarch64", false, .uint⟩, ⟨"riscv64", false, .int⟩]

/-! ## stringconcat -/

/-- The prefix `switch` at the top of `stringconcat`'s loop: `(newkind, src)` where `src` points at
the opening quote.  Kinds are the C character codes `0`, `'8'`, `'u'`, `'U'`, `'L'`. -/
def litPrefix (lit : List Nat) : Except Err (Nat × List Nat) :=
  if lit.headD 0 = 0x75 then
    if lit.tail.headD 0 = 0x38 then .ok (0x38, lit.tail.tail) else .ok (0x75, lit.tail)
  else if lit.headD 0 = 0x4c then .ok (0x4c, lit.tail)
  else if lit.headD 0 = 0x55 then .ok (0x55, lit.tail)
  else if lit.headD 0 = 0x22 then .ok (0, lit)
  else .error .assertion

def strlen (s : List Nat) : Nat := (s.takeWhile (· ≠ 0)).length

/-- First loop of `stringconcat`: `(kind, parts (= p->str), len)`. -/
def collect : List (List Nat) → Nat → Except Err (Nat × List (List Nat) × Nat)
  | [], kind => .ok (kind, [], 0)
  | lit :: lits, kind =>
    match litPrefix lit with
    | .error e => .error e
    | .ok (newkind, src) =>
      if kind ≠ newkind && kind ≠ 0 && newkind ≠ 0 then .error .prefixMismatch
      else
        match collect lits (if newkind ≠ 0 then newkind else kind) with
        | .error e => .error e
        | .ok (k, parts, len) => .ok (k, src.tail :: parts, len + (strlen src - 2))

/-- `switch (kind)`: element type. -/
def kindType (t : Target) (kind : Nat) : Except Err CType :=
  if kind = 0 then .ok .char
  else if kind = 0x38 then .ok .uchar
  else if kind = 0x75 then .ok .ushort
  else if kind = 0x55 then .ok .uint
  else if kind = 0x4c then .ok t.wchar
  else .error .assertion

/-- `switch (t->size)`: the encoder. -/
def encoder (size : Nat) : Option (Nat → Bool → Except Err (List Nat)) :=
  if size = 1 then some encodechar8 else if size = 2 then some encodechar16
  else if size = 4 then some encodechar32 else none

/-- `while (*src != '"') { src += decodechar(…); dst += encodechar(…); }` for one part. -/
def decodeLoop (enc : Nat → Bool → Except Err (List Nat)) : Nat → List Nat → Except Err (List Nat)
  | 0, _ => .error .overrun
  | _ + 1, [] => .error .overrun
  | f + 1, b :: src =>
    if b = 0x22 then .ok []
    else
      match decodechar (b :: src) with
      | .error e => .error e
      | .ok r =>
        match enc r.1 r.2.1 with
        | .error e => .error e
        | .ok us =>
          match decodeLoop enc f ((b :: src).drop r.2.2) with
          | .error e => .error e
          | .ok rest => .ok (us ++ rest)

def decodeParts (enc : Nat → Bool → Except Err (List Nat)) : List (List Nat) → Except Err (List Nat)
  | [] => .ok []
  | p :: ps =>
    match decodeLoop enc (p.length + 1) p with
    | .error e => .error e
    | .ok us =>
      match decodeParts enc ps with
      | .error e => .error e
      | .ok rest => .ok (us ++ rest)

structure StrLit where
  /-- element type returned by `stringconcat` -/
  ty : CType
  /-- the elements written to `str->data`, including the terminator; `str->size` is their number -/
  units : List Nat
  /-- number of elements allocated (`len`) -/
  alloc : Nat
  deriving DecidableEq, Repr

/-- `stringconcat(str, forceutf8)` on the sequence of adjacent `TSTRINGLIT` token texts. -/
def stringconcat (t : Target) (forceutf8 : Bool) (lits : List (List Nat)) : Except Err StrLit :=
  match collect lits 0 with
  | .error e => .error e
  | .ok (kind0, parts, len0) =>
    match kindType t (if forceutf8 then 0x38 else kind0) with
    | .error e => .error e
    | .ok ty =>
      match encoder (tsize ty) with
      | none => .error .assertion
      | some enc =>
        match decodeParts enc parts with
        | .error e => .error e
        | .ok us =>
          match enc 0 false with
          | .error e => .error e
          | .ok z => .ok ⟨ty, us ++ z, len0 + 1⟩

/-! ## primaryexpr, case TCHARCONST -/

/-- `i = chr; if (c->u.basic.issigned && i >> c->size * 8 - 1 == 1) i |= -1ull << c->size * 8;` -/
def charValue (t : Target) (c : CType) (chr : Nat) : Nat :=
  if tsigned t c && chr >>> (tsize c * 8 - 1) == 1 then
    chr ||| ((2 ^ 64 - 1) <<< (tsize c * 8)) % 2 ^ 64
  else chr

/-- After the prefix `switch`: `t` = type of the constant, `c` = character type. -/
def charconstBody (t : Target) (ty c : CType) (src : List Nat) : Except Err (CType × Nat) :=
  if src.headD 0 = 0x27 then
    match decodechar src.tail with
    | .error e => .error e
    | .ok r =>
      if (src.tail.drop r.2.2).headD 0 ≠ 0x27 then .error .multiChar
      else .ok (ty, charValue t c r.1)
  else .error .assertion

/-- `primaryexpr`, case `TCHARCONST`: type and `u.constant.u` of the constant expression. -/
def charconst (t : Target) (lit : List Nat) : Except Err (CType × Nat) :=
  if lit.headD 0 = 0x4c then charconstBody t t.wchar t.wchar lit.tail
  else if lit.headD 0 = 0x75 then
    if lit.tail.headD 0 = 0x38 then charconstBody t .uchar .uchar lit.tail.tail
    else charconstBody t .ushort .ushort lit.tail
  else if lit.headD 0 = 0x55 then charconstBody t .uint .uint lit.tail
  else charconstBody t .int .char lit

/-! ## scan.c: lexing a literal token -/

/-- `s->chr && strchr(…, s->chr)` with the string of the eleven simple-escape characters. -/
def scanSimple (b : Nat) : Bool :=
  [0x27, 0x22, 0x3f, 0x5c, 0x61, 0x62, 0x66, 0x6e, 0x72, 0x74, 0x76].contains b

/-- `escape()`: `bs` starts at the character after the backslash; number of characters consumed
after the backslash.  (`[]` = EOF.) -/
def scanEscape (bs : List Nat) : Except Err Nat :=
  match bs with
  | [] => .error .badEscape
  | b :: r =>
    if b = 0x78 then
      if isxdigit (r.headD 0) then .ok (1 + (r.takeWhile isxdigit).length)
      else .error .badHex
    else if isodigit b then
      if isodigit (r.headD 0) then (if isodigit (r.tail.headD 0) then .ok 3 else .ok 2) else .ok 1
    else if b ≠ 0 && scanSimple b then .ok 1
    else .error .badEscape

/-- The `for (;;) switch (s->chr)` loop of `charconst()` / `stringlit()` with closing quote `q`,
entered after the opening quote: number of bytes up to and including the closing quote. -/
def scanBody (q : Nat) : Nat → List Nat → Except Err Nat
  | 0, _ => .error .eof
  | _ + 1, [] => .error .eof
  | f + 1, b :: r =>
    if b = 0x5c then
      match scanEscape r with
      | .error e => .error e
      | .ok n =>
        match scanBody q f (r.drop n) with
        | .error e => .error e
        | .ok m => .ok (1 + n + m)
    else if b = q then .ok 1
    else if b = 0x0a then .error .newline
    else if b = 0 then .error .nul
    else
      match scanBody q f r with
      | .error e => .error e
      | .ok m => .ok (1 + m)

/-- The `case 'L': case 'U': case 'u':` arm of `scankind`: number of prefix characters consumed
before the quote is looked at. -/
def prefixLen (bs : List Nat) : Nat :=
  if bs.headD 0 = 0x75 then (if bs.tail.headD 0 = 0x38 then 2 else 1)
  else if bs.headD 0 = 0x4c || bs.headD 0 = 0x55 then 1
  else 0

/-- `charconst()` / `stringlit()` entered at the quote after `plen` prefix characters.
Returns `(isString, token text, remaining input)`. -/
def scanQuoted (bs : List Nat) (plen : Nat) : Except Err (Bool × List Nat × List Nat) :=
  match bs.drop plen with
  | q :: r =>
    if q = 0x22 || q = 0x27 then
      match scanBody q (r.length + 1) r with
      | .error e => .error e
      | .ok n => .ok (q == 0x22, bs.take (plen + 1 + n), bs.drop (plen + 1 + n))
    else .error .notLiteral
  | [] => .error .notLiteral

/-- `scankind` for a literal: optional prefix (`L`, `U`, `u`, `u8`), then `charconst`/`stringlit`. -/
def scanLiteral (bs : List Nat) : Except Err (Bool × List Nat × List Nat) :=
  scanQuoted bs (prefixLen bs)

/-- Scan one token that must span the whole input. -/
def scanWhole (bs : List Nat) : Except Err (Bool × List Nat) :=
  match scanLiteral bs with
  | .error e => .error e
  | .ok r => if r.2.2 = [] then .ok (r.1, r.2.1) else .error .notLiteral

/-- Source texts of adjacent string literal tokens → `stringconcat`. -/
def stringLiteral (t : Target) (srcs : List (List Nat)) : Except Err StrLit :=
  match srcs.mapM scanWhole with
  | .error e => .error e
  | .ok toks =>
    if toks.all (·.1) && toks ≠ [] then stringconcat t false (toks.map (·.2)) else .error .notLiteral

/-- Source text of a character constant token → its type and value. -/
def charLiteral (t : Target) (src : List Nat) : Except Err (CType × Nat) :=
  match scanWhole src with
  | .error e => .error e
  | .ok tok => if tok.1 then .error .notLiteral else charconst t tok.2

end CprocVerif.CharLit

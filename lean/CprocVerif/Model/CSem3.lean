/-
  C01, stage D — programs: a list of 𝔽₂ functions that may call each other (`Stmt.call`: direct calls as
  statements, `[x =] f(args);`, integer arguments and results, recursion allowed).

  `CSem2.exec` takes the function table: a call evaluates the arguments in the caller's store
  (they are pure; cproc has converted them to the parameter types, 6.5.2.2p7), executes the callee's body on
  a fresh store with fuel one less, and — if a variable receives the result — converts the returned value
  to its type (6.5.16.1p2).  Flowing off the end of the callee without `return` is undefined here (every
  function of the fragment returns an integer).
-/
import CprocVerif.Model.CSem2

namespace CprocVerif.CSem3
open CprocVerif.CSem CprocVerif.CSem2 CprocVerif.CInt

abbrev Prog := List CSem2.Func

abbrev lookup (P : Prog) (fn : String) : Option CSem2.Func := CSem2.lookup P fn

/-- `CSem2.exec` in the program `P` -/
abbrev execP (cs : Bool) (P : Prog) : Nat → Store → Stmt → Option Outcome := CSem2.exec cs P

/-- The value the call `entry(ρ)` returns in the program `P`. -/
def runP (cs : Bool) (fuel : Nat) (P : Prog) (entry : String) (ρ : List Int) : Option Int :=
  match lookup P entry with
  | none => none
  | some f =>
    match execP cs P fuel (initStore f ρ) f.body with
    | some (.ret v) => some v
    | _ => none

abbrev callsOK (P : Prog) : Stmt → Bool := CSem2.callsOK P

def wtP (P : Prog) : Bool := P.all fun f => f.wt && callsOK P f.body

end CprocVerif.CSem3

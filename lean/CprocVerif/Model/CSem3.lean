/-
  C01, stage D — programs: a list of 𝔽₂ functions that may call each other (`Stmt.call`: direct calls as
  statements, `[x =] f(args);`, integer arguments and results, recursion allowed).

  `execP` is `CSem2.exec` with the function table: a call evaluates the arguments in the caller's store
  (they are pure; cproc has converted them to the parameter types, 6.5.2.2p7), executes the callee's body on
  a fresh store with fuel one less, and — if a variable receives the result — converts the returned value
  to its type (6.5.16.1p2).  Flowing off the end of the callee without `return` is undefined here (every
  function of the fragment returns an integer).
-/
import CprocVerif.Model.CSem2

namespace CprocVerif.CSem3
open CprocVerif.CSem CprocVerif.CSem2 CprocVerif.CInt

abbrev Prog := List CSem2.Func

def lookup (P : Prog) (fn : String) : Option CSem2.Func := P.find? fun g => g.name == fn

def evalArgs (cs : Bool) (s : Store) : List Expr → Option (List Int)
  | [] => some []
  | e :: es => (evalE cs s e).bind fun v => (evalArgs cs s es).map fun vs => v :: vs

def execP (cs : Bool) (P : Prog) : Nat → Store → Stmt → Option Outcome
  | 0, _, _ => none
  | _ + 1, s, .skip => some (.normal s)
  | _ + 1, s, .decl i _ none => some (.normal (s.set i none))
  | _ + 1, s, .decl i _ (some e) =>
    (evalE cs (s.set i none) e).map fun v => .normal (s.set i (some v))
  | _ + 1, s, .assign i _ e => (evalE cs s e).map fun v => .normal (s.set i (some v))
  | _ + 1, s, .incdec i t inc =>
    ((s[i]?).join.bind (incdecVal cs t inc)).map fun v => .normal (s.set i (some v))
  | _ + 1, s, .expr e => (evalE cs s e).map fun _ => .normal s
  | _ + 1, s, .ret e => (evalE cs s e).map .ret
  | n + 1, s, .seq a b =>
    match execP cs P n s a with
    | some (.normal s') => execP cs P n s' b
    | o => o
  | n + 1, s, .ite c a =>
    (evalE cs s c).bind fun v => if v ≠ 0 then execP cs P n s a else some (.normal s)
  | n + 1, s, .itee c a b =>
    (evalE cs s c).bind fun v => if v ≠ 0 then execP cs P n s a else execP cs P n s b
  | n + 1, s, .while_ c b =>
    (evalE cs s c).bind fun v =>
      if v = 0 then some (.normal s) else
      match execP cs P n s b with
      | some (.normal s') => execP cs P n s' (.while_ c b)
      | some (.cont s') => execP cs P n s' (.while_ c b)
      | some (.brk s') => some (.normal s')
      | o => o
  | n + 1, s, .dowhile b c =>
    match execP cs P n s b with
    | some (.normal s') =>
      (evalE cs s' c).bind fun v => if v ≠ 0 then execP cs P n s' (.dowhile b c) else some (.normal s')
    | some (.cont s') =>
      (evalE cs s' c).bind fun v => if v ≠ 0 then execP cs P n s' (.dowhile b c) else some (.normal s')
    | some (.brk s') => some (.normal s')
    | o => o
  | n + 1, s, .for_ c step b =>
    ((match c with
      | some e => evalE cs s e
      | none => some 1) : Option Int).bind fun v =>
      if v = 0 then some (.normal s) else
      match execP cs P n s b with
      | some (.normal s') =>
        (match execP cs P n s' step with
         | some (.normal s'') => execP cs P n s'' (.for_ c step b)
         | _ => none)
      | some (.cont s') =>
        (match execP cs P n s' step with
         | some (.normal s'') => execP cs P n s'' (.for_ c step b)
         | _ => none)
      | some (.brk s') => some (.normal s')
      | o => o
  | _ + 1, s, .break_ => some (.brk s)
  | _ + 1, s, .continue_ => some (.cont s)
  | _ + 1, s, .case_ _ => some (.normal s)
  | _ + 1, s, .default_ => some (.normal s)
  | n + 1, s, .switch_ e b =>
    (evalE cs s e).bind fun v =>
      match pick cs e.ty v b with
      | none => some (.normal (clear s (declIdx b)))
      | some b' =>
        match execP cs P n (clear s (declIdx b)) b' with
        | some (.brk s') => some (.normal s')
        | o => o
  | n + 1, s, .call dst rt fn args =>
    match lookup P fn with
    | none => none
    | some g =>
      (evalArgs cs s args).bind fun vs =>
        match execP cs P n (initStore g vs) g.body with
        | some (.ret v) =>
          (match dst with
           | none => some (.normal s)
           | some (i, t) => some (.normal (s.set i (some (conv (rt.intTy cs) (t.intTy cs) v)))))
        | _ => none

/-- The value the call `entry(ρ)` returns in the program `P`. -/
def runP (cs : Bool) (fuel : Nat) (P : Prog) (entry : String) (ρ : List Int) : Option Int :=
  match lookup P entry with
  | none => none
  | some f =>
    match execP cs P fuel (initStore f ρ) f.body with
    | some (.ret v) => some v
    | _ => none

/-- every call names a function of the program, with arguments of the parameter types and the
    declared return type -/
def callsOK (P : Prog) : Stmt → Bool
  | .call _ rt fn args =>
    match lookup P fn with
    | some g => g.ret == rt && args.map (·.ty) == g.params
    | none => false
  | .seq a b => callsOK P a && callsOK P b
  | .ite _ a => callsOK P a
  | .itee _ a b => callsOK P a && callsOK P b
  | .while_ _ b => callsOK P b
  | .dowhile b _ => callsOK P b
  | .for_ _ st b => callsOK P st && callsOK P b
  | .switch_ _ b => callsOK P b
  | _ => true

def wtP (P : Prog) : Bool := P.all fun f => f.wt && callsOK P f.body

end CprocVerif.CSem3

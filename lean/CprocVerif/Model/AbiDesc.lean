import CprocVerif.Model.Layout
import CprocVerif.Model.Types
import CprocVerif.Gen.Targets

/-!
# Model of what cproc tells the backend about types and calls (`/repo/qbe.c`: `qbetype`,
`emitclass`, `emittype`, `mkfunc`/`emitfunc`, `funcexpr(EXPRCALL)`, `emitinst(ICALL)`,
`IVASTART`/`IVAARG`; `/repo/type.c`: `typeadjust`; `/repo/decl.c`: `parameter`;
`/repo/expr.c`: `postfixexpr` (call), `exprpromote`; `/repo/targ.c`: `alltargs`)

A transliteration of the code as it is *now* (after `68737d2`).  The member offsets `emittype`
reads (`m->offset`, `m->type->size`) are the ones `addmember` computed: `Model/Layout.lean`.

* `AType` is the C06 member language (`Layout.CType`) with scalar leaves that remember what
  `qbetype` looks at (`PROPFLOAT`, size) — `erase : AType → CType` forgets it again;
* `QTy` is a `type` definition with the nested definitions it names resolved (a tree): what
  the emitted text denotes once `:name` is looked up;
* `exit(1)` via `fatal("long double is not yet supported")` is `none`.
-/

namespace CprocVerif.AbiDesc
open CprocVerif.Layout CprocVerif.Types

/-! ## Types -/

/-- scalar types (`PROPSCALAR`) -/
inductive Sc
  | arith (a : ATy)
  | ptr
deriving DecidableEq, Repr, Inhabited

def Sc.size : Sc → Nat
  | .arith a => a.size
  | .ptr => 8

/-- `prop & PROPINT` -/
def Sc.isInt : Sc → Bool
  | .arith a => a.isInt
  | .ptr => false

/-- `prop & PROPFLOAT` -/
def Sc.isFloat : Sc → Bool
  | .arith a => a.isFloat
  | .ptr => false

mutual
  inductive AType where
    | sc (s : Sc)
    /-- `len = none`: incomplete array `T[]` -/
    | array (elem : AType) (len : Option Nat)
    | su (isUnion pack : Bool) (fields : AFields)
    /-- a struct type object of `targ.c` (no member list, size and alignment given);
    `dark` ↔ it is `targ->typevalist` itself -/
    | blob (size align : Nat) (dark : Bool)
  inductive AFields where
    | nil
    | cons (name : Option String) (ty : AType) (align : Nat) (width : Option Nat) (rest : AFields)
end

mutual
  /-- the C06 view of a type (what `addmember` reads) -/
  def erase : AType → CType
    | .sc s => .scalar s.size s.size s.isInt
    | .array e n => .array (erase e) n
    | .su u p fs => .su u p (eraseF fs)
    | .blob s a _ => .scalar s a false
  def eraseF : AFields → Fields
    | .nil => .nil
    | .cons n ty al w rest => .cons n (erase ty) al w (eraseF rest)
end

/-- `for (sub = m->type; sub->kind == TYPEARRAY; sub = sub->base) ;` -/
def stripArr : AType → AType
  | .array e _ => stripArr e
  | t => t

/-! ## `type` definitions -/

inductive Base
  | b | h | w | l | s | d
deriving DecidableEq, Repr, Inhabited

def Base.toString : Base → String
  | .b => "b" | .h => "h" | .w => "w" | .l => "l" | .s => "s" | .d => "d"

mutual
  /-- a (resolved) member type of a `type` definition -/
  inductive QTy where
    | base (c : Base)
    /-- `type :t = { item n, … }` -/
    | struct (fs : QFields)
    /-- `type :t = { { item n } { item n } … }` -/
    | union (alts : QAlts)
    /-- `type :t = align A { size }` -/
    | opaque (align size : Nat)
  inductive QFields where
    | nil
    | cons (t : QTy) (count : Nat) (rest : QFields)
  inductive QAlts where
    | nil
    | cons (fs : QFields) (rest : QAlts)
end

instance : Inhabited QTy := ⟨.base .w⟩

/-! ## `qbetype` -/

/-- `qbetype(t)` for a scalar type: `(base, data)`; `none` = `fatal("long double is not yet
supported")` (size 16) / `assert(0)` -/
def qbetype (s : Sc) : Option (Base × Base) :=
  if s.size = 1 then some (.w, .b)
  else if s.size = 2 then some (.w, .h)
  else if s.size = 4 then (if s.isFloat then some (.s, .s) else some (.w, .w))
  else if s.size = 8 then (if s.isFloat then some (.d, .d) else some (.l, .l))
  else none

/-! ## `emittype` -/

/-- what `emittype` reads from one `struct member` -/
structure DM where
  /-- `m->offset` -/
  offset : Nat
  /-- `m->type->size` -/
  size : Nat
  /-- `emitclass(qbetype(sub).data, sub->value)` -/
  item : QTy
  /-- `sub->size` -/
  subSize : Nat

instance : Inhabited DM := ⟨⟨0, 0, default, 0⟩⟩

/-- `if (m->type->size > sub->size) printf(" %llu", m->type->size / sub->size);` (no number = 1) -/
def DM.count (m : DM) : Nat := if m.size > m.subSize then m.size / m.subSize else 1

/-- the inner loop
```
for (other = m->next; other; other = other->next) {
	if (other->offset >= ALIGNUP(m->offset + 1, 8)) break;
	if (other->offset <= m->offset) m = other;
}
```
returns the final `m` and the list `m->next …` -/
def scan (m : DM) (after : List DM) : List DM → DM × List DM
  | [] => (m, after)
  | o :: os =>
    if o.offset ≥ alignUp (u64 (m.offset + 1)) 8 then (m, after)
    else if o.offset ≤ m.offset then scan o os os
    else scan m after os

/-- `do m = m->next; while (m && m->offset < off);` applied to the list `m->next …` -/
def skip (off : Nat) : List DM → List DM
  | [] => []
  | o :: os => if o.offset < off then skip off os else o :: os

/-- the struct branch of the member loop of `emittype` (fuel = number of members) -/
def emitStructF : Nat → List DM → QFields
  | 0, _ => .nil
  | _, [] => .nil
  | f + 1, m :: rest =>
    let r := scan m rest rest
    .cons r.1.item r.1.count (emitStructF f (skip (u64 (r.1.offset + r.1.size)) r.2))

def emitStruct (ms : List DM) : QFields := emitStructF ms.length ms

/-- the union branch: `{ item n } ` per member -/
def emitUnion : List DM → QAlts
  | [] => .nil
  | m :: rest => .cons (.cons m.item m.count .nil) (emitUnion rest)

/-- the data of one member-producing field -/
structure It where
  item : QTy
  subSize : Nat
  size : Nat

def mkDMs : List Member → List It → List DM
  | m :: ms, i :: is => ⟨m.offset, i.size, i.item, i.subSize⟩ :: mkDMs ms is
  | _, _ => []

mutual
  /-- `emittype(t)` followed by `emitclass(qbetype(sub).data, sub->value)`: the member type as
  the definition describes it (arrays: the element; scalars: the data class) -/
  def emittype : AType → Option QTy
    | .sc s => (qbetype s).map fun q => .base q.2
    | .array e _ => emittype e
    | .blob s a dark => some (if dark then .opaque a s else .struct .nil)
    | .su u p fs =>
      match Layout.decls (eraseF fs), its fs with
      | .ok ds, some is =>
        match Layout.layout u p ds with
        | .ok L =>
          some (if u then .union (emitUnion (mkDMs L.members is))
                else .struct (emitStruct (mkDMs L.members is)))
        | .error _ => none
      | _, _ => none
  /-- one entry per field that has a `struct member` (`name || width == -1`) -/
  def its : AFields → Option (List It)
    | .nil => some []
    | .cons name ty _ w rest =>
      match its rest with
      | none => none
      | some r =>
        if producesMember name w then
          match emittype ty, Layout.tinfo (erase ty), Layout.tinfo (erase (stripArr ty)) with
          | some q, .ok t, .ok st => some (⟨q, st.size, t.size⟩ :: r)
          | _, _, _ => none
        else some r
end

/-! ## Signatures and call sites -/

/-- what `emitclass(class, value)` prints -/
inductive Cls
  | base (c : Base)
  | agg (t : QTy)

/-- `emitclass(qbetype(t).base, t->value)`; `none`: `fatal` -/
def classOf : AType → Option Cls
  | .sc s => (qbetype s).map fun q => .base q.1
  | .array _ _ => some (.base .l)
  | t => (emittype t).map .agg

/-- `typeadjust` (C11 6.7.6.3p7; function types are not in `AType`) -/
def typeadjust : AType → AType
  | .array _ _ => .sc .ptr
  | t => t

structure FuncTy where
  /-- `none`: `void` -/
  ret : Option AType
  /-- the parameter types as declared -/
  params : List AType
  variadic : Bool

/-- `decl.c:parameter`: every declared parameter type is adjusted -/
def FuncTy.adjusted (f : FuncTy) : List AType := f.params.map typeadjust

def optMapM {α β : Type} (g : α → Option β) : List α → Option (List β)
  | [] => some []
  | a :: as =>
    match g a, optMapM g as with
    | some b, some bs => some (b :: bs)
    | _, _ => none

structure Sig where
  ret : Option Cls
  params : List Cls
  variadic : Bool

/-- `emitfunc`: `function [class] $f(class %p, …[, ...])` -/
def emitfunc (f : FuncTy) : Option Sig :=
  match optMapM classOf f.adjusted with
  | none => none
  | some ps =>
    match f.ret with
    | none => some ⟨none, ps, f.variadic⟩
    | some r => (classOf r).map fun c => ⟨some c, ps, f.variadic⟩

/-- an argument expression after lvalue conversion: arrays have decayed -/
def decay : AType → AType
  | .array _ _ => .sc .ptr
  | t => t

/-- `exprpromote` of a call argument (not a bit-field: `width = -1`) -/
def promoteArg (sc : Bool) : AType → AType
  | .sc (.arith a) => .sc (.arith (typepromote sc a none))
  | t => t

/-- `postfixexpr`, call: `exprassign(arg, p->type)` for a named parameter, `exprpromote(arg)`
after them; the list of argument types (`none`: "too many"/"not enough arguments") -/
def argTypes (sc : Bool) : List AType → Bool → List AType → Option (List AType)
  | [], _, [] => some []
  | [], true, a :: as => (argTypes sc [] true as).map (promoteArg sc (decay a) :: ·)
  | [], false, _ :: _ => none
  | _ :: _, _, [] => none
  | p :: ps, v, _ :: as => (argTypes sc ps v as).map (p :: ·)

/-- the `IARG`/`IVARARG` instructions after an `ICALL` (`none` = `IVARARG`, printed `...`):
```
for (arg = args, i = 0; arg; arg = arg->next, ++i) {
	if (isvararg && i == nparam) funcinst(f, IVARARG, …);
	funcinst(f, IARG, qbetype(t).base, argvals[i], t->value);
}
if (isvararg && i == nparam) funcinst(f, IVARARG, …);
``` -/
def callInsts (isvararg : Bool) (nparam : Nat) : Nat → List Cls → List (Option Cls)
  | i, [] => if isvararg && i == nparam then [none] else []
  | i, c :: cs =>
    (if isvararg && i == nparam then [none] else []) ++ some c :: callInsts isvararg nparam (i + 1) cs

structure CallSite where
  ret : Option Cls
  args : List (Option Cls)

/-- `funcexpr(EXPRCALL)` + `emitinst(ICALL)`: `[%r =class] call $g(class v, …, ..., class v)` -/
def emitcall (sc : Bool) (f : FuncTy) (args : List AType) : Option CallSite :=
  match argTypes sc f.adjusted f.variadic args with
  | none => none
  | some ts =>
    match optMapM classOf ts with
    | none => none
    | some cs =>
      let insts := callInsts f.variadic f.params.length 0 cs
      match f.ret with
      | none => some ⟨none, insts⟩
      | some r => (classOf r).map fun c => ⟨some c, insts⟩

/-- `BUILTINVAARG`: `funcinst(f, IVAARG, qbetype(e->type).base, …)`; `none`: "va_arg with
non-scalar type is not yet supported" (or `fatal`) -/
def vaargClass : AType → Option Base
  | .sc s => (qbetype s).map (·.1)
  | _ => none

/-! ## `va_list` (`targ.c`) -/

/-- `targ->typevalist` as a type, from the row of `alltargs[]` (`Gen/Targets.lean` is regenerated
from `targ.c` on every run) -/
def valistOf (r : Gen.Targets.Row) : Option AType :=
  if r.valistKind = "TYPEARRAY" then some (.array (.blob r.valistSize r.valistAlign false) (some 1))
  else if r.valistKind = "TYPESTRUCT" then some (.blob r.valistSize r.valistAlign true)
  else if r.valistKind = "TYPEPOINTER" then some (.sc .ptr)
  else none

def valist (target : String) : Option AType :=
  match Gen.Targets.table.find? (·.name == target) with
  | some r => valistOf r
  | none => none

end CprocVerif.AbiDesc

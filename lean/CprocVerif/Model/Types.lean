/-!
# Model of cproc's type system (`/repo/type.c`, `targ.c`, the typing half of `expr.c`, `decl.c:tagspec`)

A transliteration of the C code as it is in `/repo` now (after the `fix:` commits, in particular
`d72f7d0` "usual arithmetic conversions for ?: operands of the same type", `3c7c8ce` "integer
promotion of an enum operand yields the promoted type", `8619181` "only an unqualified (void *)0
is a null pointer constant", `6d47956` "usual arithmetic conversions with an enum whose underlying
type is long or long long", `3bfdead` "keep the element qualifiers when dereferencing a decayed
array").

Conventions
* The 15 global `struct type` objects of `type.c` are the constructors of `Basic`; an enumerated
  type (`mktype(TYPEENUM)` with `->base`) is `ATy.enum id base`, where `id` stands for the *address*
  of the type object (the C code compares pointers).  `ATy` = the arithmetic types.
* `sc : Bool` is `targ->signedchar` (`targinit` stores it into `typechar.u.basic.issigned`).
* `unsigned width` with the convention `-1` = "not a bit-field" is `Option Nat`;
  `wU w` is the 32-bit value the C code sees.
* `error()`/`fatal()`/a failing `assert` is `none`.
* Pointer equality of type objects is modelled by equality of the AST (`Ty`): for the global
  objects and for struct/union/enum identities this is exact; for derived types built by
  `mkpointertype`… two equal ASTs may be distinct objects, but then the C code falls through to
  the structural comparison, which (theorem `compat_refl`, lemma `condType_same`) gives the
  same answer as the shortcut.
-/

namespace CprocVerif.Types

/-! ## Basic types (`type.c`) -/

inductive Basic
  | bool | char | schar | uchar | short | ushort | int | uint | long | ulong | llong | ullong
  | float | double | ldouble
  deriving DecidableEq, Repr, Inhabited

/-- `enum typekind` restricted to the arithmetic kinds -/
inductive Kind
  | bool | char | short | int | enum | long | llong | float | double | ldouble
  deriving DecidableEq, Repr

namespace Basic

def all : List Basic :=
  [bool, char, schar, uchar, short, ushort, int, uint, long, ulong, llong, ullong, float, double, ldouble]

def ints : List Basic :=
  [bool, char, schar, uchar, short, ushort, int, uint, long, ulong, llong, ullong]

/-- name of the C object -/
def var : Basic → String
  | bool => "typebool" | char => "typechar" | schar => "typeschar" | uchar => "typeuchar"
  | short => "typeshort" | ushort => "typeushort" | int => "typeint" | uint => "typeuint"
  | long => "typelong" | ulong => "typeulong" | llong => "typellong" | ullong => "typeullong"
  | float => "typefloat" | double => "typedouble" | ldouble => "typeldouble"

def kind : Basic → Kind
  | bool => .bool | char => .char | schar => .char | uchar => .char
  | short => .short | ushort => .short | int => .int | uint => .int
  | long => .long | ulong => .long | llong => .llong | ullong => .llong
  | float => .float | double => .double | ldouble => .ldouble

/-- `.size` (= `.align`) of the initialisers -/
def size : Basic → Nat
  | bool => 1 | char => 1 | schar => 1 | uchar => 1 | short => 2 | ushort => 2
  | int => 4 | uint => 4 | long => 8 | ulong => 8 | llong => 8 | ullong => 8
  | float => 4 | double => 8 | ldouble => 16

/-- `PROPINT` -/
def isInt : Basic → Bool
  | float => false | double => false | ldouble => false | _ => true

/-- `.u.basic.issigned` as written in the initialiser (`typechar` is overwritten by `targinit`) -/
def issignedInit : Basic → Bool
  | char => true | schar => true | short => true | int => true | long => true | llong => true
  | _ => false

/-- `.u.basic.issigned` after `targinit` -/
def issigned (sc : Bool) : Basic → Bool
  | char => sc
  | b => b.issignedInit

end Basic

/-- the `switch` of `typerank` (0 = `fatal("unhandled integer type")`, unreachable for integer types) -/
def Kind.rank : Kind → Nat
  | .bool => 1 | .char => 2 | .short => 3 | .int => 4 | .long => 5 | .llong => 6 | _ => 0

/-- arithmetic type objects -/
inductive ATy
  | basic (b : Basic)
  | enum (id : Nat) (base : Basic)
  deriving DecidableEq, Repr, Inhabited

namespace ATy

def kind : ATy → Kind
  | basic b => b.kind
  | enum _ _ => .enum

/-- `tagspec` copies `size`/`align`/`issigned` of the base type into the enum type -/
def size : ATy → Nat
  | basic b => b.size
  | enum _ b => b.size

def issigned (sc : Bool) : ATy → Bool
  | basic b => b.issigned sc
  | enum _ b => b.issigned sc

def isInt : ATy → Bool
  | basic b => b.isInt
  | enum _ _ => true

def isFloat : ATy → Bool
  | basic b => !b.isInt
  | enum _ _ => false

def isEnum : ATy → Bool
  | enum _ _ => true
  | _ => false

/-- `typerank`: an enum type has the rank of its base -/
def rank : ATy → Nat
  | basic b => b.kind.rank
  | enum _ b => b.kind.rank

/-- `t->kind == TYPEENUM ? t->base : t` -/
def stripEnum : ATy → ATy
  | enum _ b => basic b
  | t => t

/-- well-formed: the base of an enum is an integer type -/
def wf : ATy → Bool
  | basic _ => true
  | enum _ b => b.isInt

end ATy

abbrev tInt : ATy := .basic .int
abbrev tUInt : ATy := .basic .uint
abbrev tLong : ATy := .basic .long
abbrev tULong : ATy := .basic .ulong
abbrev tLLong : ATy := .basic .llong
abbrev tULLong : ATy := .basic .ullong

/-! ## `typepromote`, `typecommonreal`, `typehasint` -/

/-- the `unsigned width` argument: `(unsigned)-1` when the operand is not a bit-field -/
def wU (w : Option Nat) : Nat :=
  match w with
  | none => 2 ^ 32 - 1
  | some n => n % 2 ^ 32

def b2n (b : Bool) : Nat := if b then 1 else 0

/--
```c
if (t == &typefloat) return &typedouble;
if (t->prop & PROPINT && (typerank(t) <= typerank(&typeint) || width <= typeint.size * 8)) {
	if (width == -1) width = t->size * 8;
	return width - t->u.basic.issigned < typeint.size * 8 ? &typeint : &typeuint;
}
return t;
```
`width - issigned` is computed in `unsigned` (wraps modulo 2^32). -/
def typepromote (sc : Bool) (t : ATy) (w : Option Nat) : ATy :=
  if t = .basic .float then .basic .double
  else if t.isInt && (decide (t.rank ≤ 4) || decide (wU w ≤ 32)) then
    let width := if wU w = 2 ^ 32 - 1 then t.size * 8 else wU w
    if (width + 2 ^ 32 - b2n (t.issigned sc)) % 2 ^ 32 < 32 then tInt else tUInt
  else t

/-- the literals `4` and `32` above are `typerank(&typeint)` and `typeint.size * 8` -/
theorem typepromote_consts : tInt.rank = 4 ∧ Basic.int.size * 8 = 32 := ⟨rfl, rfl⟩

/-- `typecommonreal` (`none` = `fatal("could not find common real type")`) -/
def typecommonreal (sc : Bool) (t1 : ATy) (w1 : Option Nat) (t2 : ATy) (w2 : Option Nat) : Option ATy :=
  if t1 = .basic .ldouble ∨ t2 = .basic .ldouble then some (.basic .ldouble)
  else if t1 = .basic .double ∨ t2 = .basic .double then some (.basic .double)
  else if t1 = .basic .float ∨ t2 = .basic .float then some (.basic .float)
  else
    let p1 := typepromote sc t1 w1
    let p2 := typepromote sc t2 w2
    if p1 = p2 then some p1
    else
      -- `if (t1->kind == TYPEENUM) t1 = t1->base;` (same for t2; fix 6d47956)
      let p1 := p1.stripEnum
      let p2 := p2.stripEnum
      if p1.issigned sc = p2.issigned sc then
        some (if p1.rank > p2.rank then p1 else p2)
      else
        -- make `u` the unsigned and `s` the signed one
        let u := if p1.issigned sc then p2 else p1
        let s := if p1.issigned sc then p1 else p2
        if u.rank ≥ s.rank then some u
        else if u.size < s.size then some s
        else if s = tLong then some tULong
        else if s = tLLong then some tULLong
        else none

/-- `a << n` on `unsigned long long` -/
def shl64 (a n : Nat) : Nat := (a * 2 ^ n) % 2 ^ 64
/-- `a >> n` on `unsigned long long` -/
def shr64 (a n : Nat) : Nat := a / 2 ^ n

def allOnes64 : Nat := 2 ^ 64 - 1

/--
```c
if (sign && i >= -1ull << 63)
	return t->u.basic.issigned && i >= -1ull << (t->size << 3) - 1;
return i <= 0xffffffffffffffffull >> (8 - t->size << 3) + t->u.basic.issigned;
```
(`<<`/`>>` bind weaker than `+`/`-`.)  Precondition `t->prop & PROPINT` (so `size ≤ 8`).  `ATy.stripEnum` is
defined further up; an enumerated type is replaced by its underlying type first. -/
def typehasint (sc : Bool) (t : ATy) (i : Nat) (sign : Bool) : Bool :=
  -- `if (t->kind == TYPEENUM && t->base) t = t->base; if (t->kind == TYPEBOOL) return i <= 1;` (fix 08f8fa4:
  -- `_Bool` holds only 0 and 1 although it occupies a byte)
  if t.stripEnum = .basic .bool then decide (i ≤ 1) else
  if sign && decide (i ≥ shl64 allOnes64 63) then
    t.issigned sc && decide (i ≥ shl64 allOnes64 ((t.size * 2 ^ 3) - 1))
  else
    decide (i ≤ shr64 allOnes64 (((8 - t.size) * 2 ^ 3) + b2n (t.issigned sc)))

/-! ## `inttype` (integer literal typing, `expr.c`) -/

/-- `limits[]` of `inttype` (checked against `Gen.IntLimits.limits` in `Props/C05.lean`) -/
def limits : List (Basic × String × Option String) :=
  [(.int, "", none), (.uint, "u", none), (.long, "l", none), (.ulong, "ul", some "lu"),
   (.llong, "ll", none), (.ullong, "ull", some "llu")]

inductive LitResult
  | ty (b : Basic)
  | badSuffix          -- error "invalid integer constant suffix"
  | noType             -- error "no suitable type for constant"
  deriving DecidableEq, Repr

/-- first loop of `inttype`: index of the first row whose `end1` or `end2` equals the (lower-cased)
suffix; strings are compared as character lists (`strcmp`) -/
def suffixIndexFrom (sfx : List Char) : List (Basic × String × Option String) → Nat → Option Nat
  | [], _ => none
  | (_, e1, e2) :: rest, i =>
    if sfx = e1.toList then some i
    else if e2.map String.toList = some sfx then some i
    else suffixIndexFrom sfx rest (i + 1)

/-- `for (i = 0; end[i]; ++i) end[i] = tolower(end[i]);` then the table search -/
def suffixIndex (sfx : String) : Option Nat :=
  suffixIndexFrom (sfx.toList.map Char.toLower) limits 0

/-- second loop: `for (; i < LEN(limits); i += step) if (typehasint(limits[i].type, val, false)) return …` -/
def scanLimits (sc : Bool) (val : Nat) (step : Nat) : Nat → Nat → LitResult
  | 0, _ => .noType
  | fuel + 1, i =>
    match limits[i]? with
    | none => .noType
    | some (b, _, _) =>
      if typehasint sc (.basic b) val false then .ty b
      else scanLimits sc val step fuel (i + step)

/-- `inttype(val, decimal, end)` -/
def inttype (sc : Bool) (val : Nat) (decimal : Bool) (sfx : String) : LitResult :=
  match suffixIndex sfx with
  | none => .badSuffix
  | some i =>
    let step := if i % 2 ≠ 0 || decimal then 2 else 1
    scanLimits sc val step limits.length i

/-- floating constants: no suffix `double`, `f` `float`, `l` `long double` (case-insensitive) -/
def flttype (sfx : String) : Option Basic :=
  match sfx.toList.map Char.toLower with
  | [] => some .double
  | ['f'] => some .float
  | ['l'] => some .ldouble
  | _ => none

/-! ## Targets (`targ.c`) -/

structure Target where
  name : String
  wchar : Basic
  signedchar : Bool
  deriving Repr, DecidableEq

def targets : List Target :=
  [⟨"x86_64-sysv", .int, true⟩, ⟨"aarch64", .uint, false⟩, ⟨"riscv64", .int, false⟩]

def findTarget (name : String) : Option Target := targets.find? (·.name == name)

inductive CharPrefix | none | L | u | U | u8
  deriving DecidableEq, Repr

/-- type of a character constant (`primaryexpr`, `TCHARCONST`) -/
def charConstType (tg : Target) : CharPrefix → Basic
  | .none => .int
  | .L => tg.wchar
  | .u => .ushort
  | .U => .uint
  | .u8 => .uchar

/-- element type of a string literal (`stringconcat`) -/
def stringElemType (tg : Target) : CharPrefix → Basic
  | .none => .char
  | .L => tg.wchar
  | .u => .ushort
  | .U => .uint
  | .u8 => .uchar

/-! ## The type AST -/

/-- `enum typequal` without `QUALATOMIC` ("_Atomic is not yet supported") -/
structure Qual where
  c : Bool := false
  r : Bool := false
  v : Bool := false
  deriving DecidableEq, Repr, Inhabited

namespace Qual
def none : Qual := {}
/-- `q1 | q2` -/
def union (a b : Qual) : Qual := ⟨a.c || b.c, a.r || b.r, a.v || b.v⟩
/-- `(a & b) == a` -/
def subset (a b : Qual) : Bool := (!a.c || b.c) && (!a.r || b.r) && (!a.v || b.v)
def toNat (q : Qual) : Nat := b2n q.c + 2 * b2n q.r + 4 * b2n q.v
def ofNat (n : Nat) : Qual := ⟨n % 2 == 1, n / 2 % 2 == 1, n / 4 % 2 == 1⟩
end Qual

/-- `u.array.length`: absent (`incomplete`), an integer constant, or anything else (VLA, `[*]`) -/
inductive ArrLen
  | incomplete
  | const (n : Nat)
  | vla
  deriving DecidableEq, Repr

/--
`struct type` as a tree.  `q` of a derived type = "qualifiers of the base type" (`t->qual`).
`struct`/`union` carry the identity of the type object. -/
inductive Ty
  | void
  | arith (a : ATy)
  | nullptr
  | ptr (q : Qual) (base : Ty)
  | arr (q : Qual) (len : ArrLen) (ptrqual : Qual) (base : Ty)
  | func (q : Qual) (ret : Ty) (params : List Ty) (vararg : Bool)
  | struct (id : Nat)
  | union (id : Nat)
  deriving Repr, Inhabited

namespace Ty

mutual
def beq : Ty → Ty → Bool
  | .void, .void => true
  | .nullptr, .nullptr => true
  | .arith a, .arith b => a == b
  | .struct i, .struct j => i == j
  | .union i, .union j => i == j
  | .ptr q1 b1, .ptr q2 b2 => q1 == q2 && beq b1 b2
  | .arr q1 l1 p1 b1, .arr q2 l2 p2 b2 => q1 == q2 && l1 == l2 && p1 == p2 && beq b1 b2
  | .func q1 r1 p1 v1, .func q2 r2 p2 v2 => q1 == q2 && beq r1 r2 && beqL p1 p2 && v1 == v2
  | _, _ => false
def beqL : List Ty → List Ty → Bool
  | [], [] => true
  | a :: as, b :: bs => beq a b && beqL as bs
  | _, _ => false
end

mutual
theorem beq_eq : ∀ a b : Ty, beq a b = true → a = b
  | .void, b => by cases b <;> simp [beq]
  | .nullptr, b => by cases b <;> simp [beq]
  | .arith a, b => by cases b <;> simp [beq]
  | .struct a, b => by cases b <;> simp [beq]
  | .union a, b => by cases b <;> simp [beq]
  | .ptr q a, b => by
    cases b <;> simp [beq]
    intro h1 h2; exact ⟨h1, beq_eq _ _ h2⟩
  | .arr q l p a, b => by
    cases b <;> simp [beq]
    intro h1 h2 h3 h4; exact ⟨h1, h2, h3, beq_eq _ _ h4⟩
  | .func q r p v, b => by
    cases b <;> simp [beq]
    intro h1 h2 h3 h4; exact ⟨h1, beq_eq _ _ h2, beqL_eq _ _ h3, h4⟩
theorem beqL_eq : ∀ a b : List Ty, beqL a b = true → a = b
  | [], b => by cases b <;> simp [beqL]
  | a :: as, b => by
    cases b <;> simp [beqL]
    intro h1 h2; exact ⟨beq_eq _ _ h1, beqL_eq _ _ h2⟩
end

mutual
theorem beq_refl : ∀ a : Ty, beq a a = true
  | .void => by simp [beq]
  | .nullptr => by simp [beq]
  | .arith a => by simp [beq]
  | .struct a => by simp [beq]
  | .union a => by simp [beq]
  | .ptr q a => by simp [beq, beq_refl a]
  | .arr q l p a => by simp [beq, beq_refl a]
  | .func q r p v => by simp [beq, beq_refl r, beqL_refl p]
theorem beqL_refl : ∀ a : List Ty, beqL a a = true
  | [] => by simp [beqL]
  | a :: as => by simp [beqL, beq_refl a, beqL_refl as]
end

instance : DecidableEq Ty := fun a b =>
  if h : beq a b = true then isTrue (beq_eq a b h)
  else isFalse (fun e => h (e ▸ beq_refl a))

def isPtr : Ty → Bool | .ptr _ _ => true | _ => false
def isArith : Ty → Bool | .arith _ => true | _ => false
/-- `PROPINT` -/
def isInt : Ty → Bool | .arith a => a.isInt | _ => false
/-- `PROPSCALAR` -/
def isScalar : Ty → Bool | .arith _ => true | .ptr _ _ => true | .nullptr => true | _ => false
def isFunc : Ty → Bool | .func _ _ _ _ => true | _ => false
def isVoid : Ty → Bool | .void => true | _ => false
/-- `kind == TYPEPOINTER && base == &typevoid && qual == QUALNONE`, as tested by `nullpointer`
(fix 8619181: only the unqualified `void *`) -/
def isVoidPtr : Ty → Bool | .ptr q .void => q == {} | _ => false
def isStructUnion : Ty → Bool | .struct _ => true | .union _ => true | _ => false
def isEnum : Ty → Bool | .arith a => a.isEnum | _ => false
/-- `t->incomplete` (struct/union types of the model are complete) -/
def incomplete : Ty → Bool | .void => true | .arr _ .incomplete _ _ => true | _ => false

def int : Ty := .arith tInt
def ulong : Ty := .arith tULong
def long : Ty := .arith tLong

end Ty

/-! ## `typecompatible` -/

/-- `t1->kind == TYPEENUM && t2 == t1->base` -/
def ATy.enumOver : ATy → ATy → Bool
  | .enum _ b, .basic b' => b == b'
  | _, _ => false

/-- `typecompatible` on arithmetic type objects: identical object, or (kinds differ and) one is an
enum whose base is the other; same kind but different objects (`int`/`unsigned`, `char`/`signed
char`, two enums) fall to `return false`. -/
def ATy.compat (a b : ATy) : Bool :=
  a == b || (a.kind != b.kind && (a.enumOver b || b.enumOver a))

/-- the array case: both complete with integer-constant lengths that differ ⇒ incompatible -/
def ArrLen.ok : ArrLen → ArrLen → Bool
  | .const a, .const b => a == b
  | _, _ => true

mutual
/-- `typecompatible(t1, t2)`.  The `t1 == t2` shortcut is the first disjunct of `ATy.compat`
and the identity tests of `struct`/`union`; for derived types it is subsumed (`compat_refl`). -/
def typecompatible : Ty → Ty → Bool
  | .void, .void => true
  | .nullptr, .nullptr => true
  | .arith a, .arith b => a.compat b
  | .struct i, .struct j => i == j
  | .union i, .union j => i == j
  | .ptr q1 b1, .ptr q2 b2 => q1 == q2 && typecompatible b1 b2
  | .arr q1 l1 _ b1, .arr q2 l2 _ b2 => l1.ok l2 && (q1 == q2 && typecompatible b1 b2)
  | .func q1 r1 p1 v1, .func q2 r2 p2 v2 =>
    v1 == v2 && paramscompatible p1 p2 && (q1 == q2 && typecompatible r1 r2)
  | _, _ => false
def paramscompatible : List Ty → List Ty → Bool
  | [], [] => true
  | a :: as, b :: bs => typecompatible a b && paramscompatible as bs
  | _, _ => false
end

/-- `typecomposite`: `return t1;` (XXX in the C code) -/
def typecomposite (t1 _t2 : Ty) : Ty := t1

/-- `typeadjust(t, &tq)`: parameter type adjustment; returns the new type and the new `tq`
(`none` = the `assert(*tq == QUALNONE)` of the function case fails) -/
def typeadjust (t : Ty) (tq : Qual) : Option (Ty × Qual) :=
  match t with
  | .arr q _ ptrqual base => some (.ptr (tq.union q) base, ptrqual)
  | .func .. => if tq = Qual.none then some (.ptr Qual.none t, tq) else none
  | _ => some (t, tq)

/-! ## Expression typing (`expr.c`) -/

/-- what the typing code looks at in a `struct expr` -/
structure Operand where
  ty : Ty
  /-- `e->qual` (meaningful for lvalues) -/
  qual : Qual := {}
  lvalue : Bool := false
  /-- `bitfieldwidth(e)`: `some w` iff `e->kind == EXPRBITFIELD` -/
  width : Option Nat := none
  /-- `nullpointer(eval(e))` -/
  nullconst : Bool := false
  /-- `e->decayed`: the type and qualifiers of `e->base` (the array or function designator) -/
  decayedFrom : Option (Ty × Qual) := none
  /-- `eval(e)->kind == EXPRCONST && prop & PROPINT`, with the truth value (for `?:`) -/
  constval : Option Bool := none
  deriving Repr, Inhabited

def rvalue (t : Ty) : Operand := { ty := t }

/-- `decay(e)`: array → pointer to element with qualifiers `t->qual | tq`; function → pointer -/
def decay (e : Operand) : Operand :=
  match e.ty with
  | .arr q _ _ base => { ty := .ptr (q.union e.qual) base, decayedFrom := some (e.ty, e.qual) }
  | .func .. => { ty := .ptr e.qual e.ty, decayedFrom := some (e.ty, e.qual) }
  | _ => e

/-- the type `exprconvert(e, t)` ends up with: the cast is skipped when the types are compatible
and both or neither are enumerated types -/
def convertTy (et t : Ty) : Ty :=
  if typecompatible et t && (et.isEnum == t.isEnum) then et else t

/-- `exprconvert(e, t)` -/
def exprconvert (e : Operand) (t : Ty) : Operand :=
  if typecompatible e.ty t && (e.ty.isEnum == t.isEnum) then e
  else { ty := t, nullconst := e.nullconst && (t.isInt || t.isVoidPtr), constval := if t.isInt then e.constval else none }

/-- `exprpromote(e)` (caller guarantees an arithmetic operand) -/
def exprpromote (sc : Bool) (e : Operand) : Option Operand :=
  match e.ty with
  | .arith a => some (exprconvert e (.arith (typepromote sc a e.width)))
  | _ => none

/-- `commonreal(&e1, &e2)`: the common type and the two converted operands -/
def commonreal (sc : Bool) (l r : Operand) : Option (Ty × Operand × Operand) :=
  match l.ty, r.ty with
  | .arith a, .arith b =>
    match typecommonreal sc a l.width b r.width with
    | some t => some (.arith t, exprconvert l (.arith t), exprconvert r (.arith t))
    | none => none
  | _, _ => none

inductive BinOp
  | lor | land | eql | neq | less | greater | leq | geq | bor | xor | band
  | add | sub | mod | mul | div | shl | shr
  deriving DecidableEq, Repr

def ptrBase : Ty → Option (Qual × Ty)
  | .ptr q b => some (q, b)
  | _ => none

/-- pointer/pointer case of `==`/`!=` after the null-pointer-constant tests:
```c
if (l->type->base->kind == TYPEVOID) e = l, l = r, r = e;
if (r->type->base->kind == TYPEVOID && l->type->base->kind != TYPEFUNC) r = exprconvert(r, l->type);
else if (!typecompatible(l->type->base, r->type->base)) error(...);
``` -/
def ptrEqOk (lb rb : Ty) : Bool :=
  let lb' := if lb.isVoid then rb else lb
  let rb' := if lb.isVoid then lb else rb
  if rb'.isVoid && !lb'.isFunc then true else typecompatible lb' rb'

/-- result type of `mkbinaryexpr(loc, op, l, r)`; `none` = diagnosed (`error`) or aborted (`assert`) -/
def binopType (sc : Bool) (op : BinOp) (l r : Operand) : Option Ty :=
  match op with
  | .lor | .land =>
    if l.ty.isScalar && r.ty.isScalar then some Ty.int else none
  | .eql | .neq =>
    if l.ty.isArith && r.ty.isArith then (commonreal sc l r).map (fun _ => Ty.int)
    else
      -- if (l->type->kind != TYPEPOINTER) e = l, l = r, r = e;
      let l' := if l.ty.isPtr then l else r
      let r' := if l.ty.isPtr then r else l
      match l'.ty with
      | .ptr _ lb =>
        if r'.nullconst then some Ty.int
        else match r'.ty with
          -- `if (r->type->kind != TYPEPOINTER) error(...)` comes before the `nullpointer(eval(l))`
          -- shortcut (fix 826c347)
          | .ptr _ rb => if l'.nullconst then some Ty.int else if ptrEqOk lb rb then some Ty.int else none
          | _ => none
      | _ => none
  | .less | .greater | .leq | .geq =>
    if l.ty.isArith && r.ty.isArith then (commonreal sc l r).map (fun _ => Ty.int)
    else match l.ty, r.ty with
      | .ptr _ lb, .ptr _ rb => if typecompatible lb rb && !lb.isFunc then some Ty.int else none
      | _, _ => none
  | .bor | .xor | .band =>
    -- `if (!(lp & PROPINT) || !(rp & PROPINT)) error(...)` (fix 6e57e5d)
    if l.ty.isInt && r.ty.isInt then (commonreal sc l r).map (·.1) else none
  | .add =>
    if l.ty.isArith && r.ty.isArith then (commonreal sc l r).map (·.1)
    else
      -- if (r->type->kind == TYPEPOINTER) e = l, l = r, r = e, rp = lp;
      let l' := if r.ty.isPtr then r else l
      let r' := if r.ty.isPtr then l else r
      match l'.ty with
      | .ptr _ b =>
        if !r'.ty.isInt then none
        else if b.incomplete || b.isFunc then none
        else some l'.ty
      | _ => none
  | .sub =>
    if l.ty.isArith && r.ty.isArith then (commonreal sc l r).map (·.1)
    else match l.ty with
      | .ptr _ lb =>
        if !r.ty.isInt && !r.ty.isPtr then none
        else if lb.incomplete || lb.isFunc then none
        else if r.ty.isInt then some l.ty
        else match r.ty with
          -- `if (r->type->base->incomplete) error(...)` after the compatibility test (fix ac293b9)
          | .ptr _ rb => if typecompatible lb rb then (if rb.incomplete then none else some Ty.long) else none
          | _ => none
      | _ => none
  | .mod =>
    if l.ty.isInt && r.ty.isInt then (commonreal sc l r).map (·.1) else none
  | .mul | .div =>
    if l.ty.isArith && r.ty.isArith then (commonreal sc l r).map (·.1) else none
  | .shl | .shr =>
    if l.ty.isInt && r.ty.isInt then (exprpromote sc l).map (·.ty) else none

/-- `condexpr`: the result type `t` of `c ? l : r` and the two (possibly converted) operands;
`none` = diagnosed -/
def condRes (sc : Bool) (l r : Operand) : Option (Ty × Operand × Operand) :=
  if l.ty.isArith && r.ty.isArith then commonreal sc l r
  else if l.ty = r.ty then some (l.ty, l, r)
  else if l.ty = .void ∧ r.ty = .void then some (.void, l, r)
  else if l.nullconst && r.ty.isPtr then some (r.ty, l, r)
  else if r.nullconst && l.ty.isPtr then some (l.ty, l, r)
  else match l.ty, r.ty with
    | .ptr lq lb, .ptr rq rb =>
      let tq := lq.union rq
      if lb = .void ∨ rb = .void then some (.ptr tq .void, l, r)
      else if typecompatible lb rb then some (.ptr tq (typecomposite lb rb), l, r)
      else none
    | _, _ => none

/-- `condexpr`: type of `c ? l : r`.  `cond` is the controlling operand (only its `constval`
matters: the constant-condition shortcut returns `exprconvert(c ? l : r, t)`). -/
def condType (sc : Bool) (cond l r : Operand) : Option Ty :=
  -- `if (!(e->type->prop & PROPSCALAR)) error(...)` (fix 98b06a1)
  if !cond.ty.isScalar then none else
  match condRes sc l r with
  | none => none
  | some (t, l', r') =>
    match cond.constval with
    | some c =>
      -- the shortcut is taken only when the selected operand is neither an lvalue nor a bit-field
      -- (fix f22c49c); otherwise the ordinary `EXPRCOND` node of type `t` is built
      let sel := exprconvert (if c then l' else r') t
      some (if !sel.lvalue && sel.width.isNone then sel.ty else t)
    | none => some t

/-- the expression `condexpr` returns: an `EXPRCOND` node of type `t`, or — constant condition —
the selected operand itself after `exprconvert` when that is neither an lvalue nor a bit-field
(fix f22c49c: `(1 ? x : y) = 3` used to be accepted) -/
def condOperand (sc : Bool) (cond l r : Operand) : Option Operand :=
  if !cond.ty.isScalar then none else
  match condRes sc l r with
  | none => none
  | some (t, l', r') =>
    match cond.constval with
    | some c =>
      let sel := exprconvert (if c then l' else r') t
      some (if !sel.lvalue && sel.width.isNone then sel else rvalue t)
    | none => some (rvalue t)

theorem condOperand_ty (sc : Bool) (cond l r : Operand) :
    (condOperand sc cond l r).map (·.ty) = condType sc cond l r := by
  unfold condOperand condType
  cases cond.ty.isScalar
  · rfl
  · cases condRes sc l r with
    | none => rfl
    | some x =>
      cases cond.constval with
      | none => rfl
      | some c =>
        obtain ⟨t, l', r'⟩ := x
        simp only [Bool.not_true, Bool.false_eq_true, if_false, Option.map_some]
        cases (!(exprconvert (if c = true then l' else r') t).lvalue &&
          (exprconvert (if c = true then l' else r') t).width.isNone) <;> rfl

inductive UnOp
  | addr | deref | plus | minus | bnot | lnot | sizeofE | alignofE | preinc | predec | postinc | postdec
  deriving DecidableEq, Repr

/-- `unaryexpr` / `mkunaryexpr` / `mkincdecexpr` / the postfix `++ --`: resulting operand -/
def unaryOp (sc : Bool) (op : UnOp) (e : Operand) : Option Operand :=
  match op with
  | .addr =>
    -- `if (base->decayed) base = base->base;`
    let (t, q, lv, bf) := match e.decayedFrom with
      | some (t, q) => (t, q, true, false)
      | none => (e.ty, e.qual, e.lvalue, e.width.isSome)
    -- `unaryexpr`: the operand of a user-level `&` that is not a decayed designator must be an
    -- lvalue or a function designator (fix fcded40) …
    if e.decayedFrom.isNone && !e.lvalue && !e.ty.isFunc then none
    -- … `mkunaryexpr` itself exempts struct/union operands (it also serves member access)
    else if !lv && !t.isFunc && !t.isStructUnion then none
    else if bf then none
    else some (rvalue (.ptr q t))
  | .deref =>
    match e.ty with
    | .ptr q b =>
      -- the `&`-elimination shortcut reuses the designator with `expr->qual = base->type->qual`
      -- (fix 3bfdead), so both paths give the referenced type's qualifiers
      some (decay { ty := b, qual := q, lvalue := true })
    | _ => none
  | .plus =>
    if !e.ty.isArith then none
    else if e.ty.isInt then exprpromote sc e else some e
  | .minus =>
    if !e.ty.isArith then none
    else if e.ty.isInt then (exprpromote sc e).map (fun p => rvalue p.ty) else some (rvalue e.ty)
  | .bnot =>
    if !e.ty.isInt then none
    else match exprpromote sc e with
      | some p => (binopType sc .xor p { ty := p.ty }).map rvalue
      | none => none
  | .lnot =>
    if !e.ty.isScalar then none
    else (binopType sc .eql e { ty := Ty.int, nullconst := true, constval := some false }).map rvalue
  | .sizeofE | .alignofE =>
    let (t, bf) := match e.decayedFrom with
      | some (t, _) => (t, false)
      | none => (e.ty, e.width.isSome)
    if bf then none
    else if t.incomplete then none
    else if t.isFunc then none
    else some (rvalue Ty.ulong)
  | .preinc | .predec | .postinc | .postdec =>
    if !e.lvalue then none
    else if e.qual.c then none
    -- pointer to an incomplete or function type (fix df57034)
    else if (match e.ty with | .ptr _ b => b.incomplete || b.isFunc | _ => false) then none
    else some (rvalue e.ty)

/-- `sizeof (type-name)` / `_Alignof (type-name)` -/
def sizeofType (t : Ty) : Option Ty :=
  if t.incomplete then none else if t.isFunc then none else some Ty.ulong

/-- `castexpr`: `(t) e` -/
def castType (t : Ty) (e : Operand) : Option Operand :=
  if t != .void && !t.isScalar then none
  else if t != .void && !e.ty.isScalar then none
  else some { ty := t, nullconst := e.nullconst && (t.isInt || t.isVoidPtr),
              constval := if t.isInt then e.constval else none }

/-- pointer-assignment check of `exprassign` (`case TYPEPOINTER`) -/
def ptrAssignOk (t : Ty) (e : Operand) : Bool :=
  match t with
  | .ptr tq tb =>
    if e.nullconst then true
    else match e.ty with
      | .ptr eq eb =>
        (tb == .void || eb == .void || typecompatible tb eb) && eq.subset tq
      | _ => false
  | _ => false

/-- `exprassign(e, t)`: may a value `e` be assigned to / initialise / be passed or returned as an object
of type `t`?  (`false` = one of its `error`s, or the `assert(t->prop & PROPARITH)` of the default
case.)  `nullpointer(e)` is tested on the expression as parsed; for the constants the model
describes this is `e.nullconst`. -/
def exprassignOk (t : Ty) (e : Operand) : Bool :=
  match t with
  | .arith (.basic .bool) => e.ty.isArith || e.ty.isPtr || e.ty == .nullptr
  | .arith _ => e.ty.isArith
  | .ptr .. => ptrAssignOk t e
  | .nullptr => e.nullconst
  | .struct _ | .union _ => typecompatible t e.ty
  | _ => false

/-- `assignexpr`, simple assignment: `l` must be an lvalue and `mkassignexpr(l, exprassign(r, l->type))`
(fix 7e9d66c: the operator applies the constraints of 6.5.16.1 like initialisation does);
type of the left operand -/
def assignType (l r : Operand) : Option Operand :=
  if l.lvalue then (if exprassignOk l.ty r then some (rvalue l.ty) else none) else none

/-- `E1 op= E2`: the rewritten `T = &E1, *T = *T op E2`; the comma expression has `l->type` -/
def compoundAssignType (sc : Bool) (op : BinOp) (l r : Operand) : Option Operand :=
  if !l.lvalue then none
  else match binopType sc op { l with decayedFrom := none } r with
    | some _ => some (rvalue l.ty)
    | none => none

/-- `expr`: the comma operator has the type of its last operand (an `EXPRCOMMA` node: not an
lvalue, not a bit-field, not a constant for `nullpointer`) -/
def commaType (_l r : Operand) : Operand := { ty := r.ty, decayedFrom := r.decayedFrom }

/-- function call: `r` must have type pointer to function; arity is checked; the result has the
return type (`decay` is applied, which cannot fire for a valid return type) -/
def callType (f : Operand) (nargs : Nat) : Option Operand :=
  match f.ty with
  | .ptr _ (.func _ ret params vararg) =>
    -- "not enough arguments": every named parameter needs an argument, variadic or not (fix 49541f0)
    if nargs < params.length then none
    else if nargs > params.length && !vararg then none
    else some (decay (rvalue ret))
  | _ => none

/-- `m->bits.before || m->bits.after`: a bit-field that fills its whole storage unit is *not*
compiled as `EXPRBITFIELD` -/
def memberWidth (mty : Ty) (bits : Option Nat) : Option Nat :=
  match mty, bits with
  | .arith a, some w => if w = a.size * 8 then none else some w
  | _, _ => none

/-- member access `e.m` (`arrow = false`) / `e->m`: the member is given by its declared type,
qualifiers and declared bit-field width (`typemember` lookup is not modelled).
Qualifiers: `tq | m->qual`. -/
def memberType (arrow : Bool) (e : Operand) (mty : Ty) (mq : Qual) (bits : Option Nat) : Option Operand :=
  let base : Option (Qual × Ty × Bool) :=
    if arrow then
      match e.ty with
      | .ptr q b => some (q, b, true)
      | _ => none
    else
      -- `r = mkunaryexpr(TBAND, r)`: struct/union operands need not be lvalues
      if e.ty.isStructUnion then some (e.qual, e.ty, e.lvalue) else none
  match base with
  | some (tq, t, lv) =>
    if !t.isStructUnion then none
    else
      let r := decay { ty := mty, qual := tq.union mq, lvalue := true }
      -- `(r->decayed ? r->base : r)->lvalue = lvalue;` — a member of array (or function) type has decayed
      -- to a pointer, which is not an lvalue (fix 71be578)
      some { r with lvalue := if r.decayedFrom.isSome then false else lv, width := memberWidth mty bits }
  | none => none

/-- `_Generic`: index of the selected association (`none` = error: several match, or no match and
no `default`); `assocs` = (type, qualifiers of the type name) -/
def genericSelect (want : Ty) (assocs : List (Ty × Qual)) (hasDefault : Bool) : Option (Option Nat) :=
  let hits := (assocs.zipIdx.filter (fun p => typecompatible p.1.1 want && p.1.2 == Qual.none)).map (·.2)
  match hits with
  | [i] => some (some i)
  | [] => if hasDefault then some none else none
  | _ => none

/-- redeclaration check of `declcommon` -/
def redeclOk (t : Ty) (tq : Qual) (prior : Ty) (priorq : Qual) : Bool :=
  typecompatible t prior && tq == priorq

/-! ## Expressions -/

inductive Expr
  /-- identifier of an object (`lvalue`) or function with declared type and qualifiers -/
  | var (t : Ty) (q : Qual)
  /-- enumeration constant / other rvalue leaf of a given arithmetic type -/
  | rv (t : Ty)
  | intlit (val : Nat) (decimal : Bool) (sfx : String)
  | fltlit (sfx : String)
  | charlit (p : CharPrefix)
  | un (op : UnOp) (e : Expr)
  | bin (op : BinOp) (l r : Expr)
  | cond (c l r : Expr)
  | cast (t : Ty) (e : Expr)
  | sizeofT (t : Ty)
  | assign (l r : Expr)
  | opassign (op : BinOp) (l r : Expr)
  | comma (l r : Expr)
  | call (f : Expr) (args : List Expr)
  | member (arrow : Bool) (e : Expr) (mty : Ty) (mq : Qual) (bits : Option Nat)
  | index (a i : Expr)
  deriving Repr, Inhabited

/-- the operand `primaryexpr`…`assignexpr` build for `e` -/
def typeOf (tg : Target) : Expr → Option Operand
  | .var t q => some (decay { ty := t, qual := q, lvalue := !t.isFunc })
  | .rv t => some (rvalue t)
  | .intlit v d s =>
    match inttype tg.signedchar v d s with
    | .ty b => some { ty := .arith (.basic b), nullconst := v == 0, constval := some (v != 0) }
    | _ => none
  | .fltlit s => (flttype s).map (fun b => rvalue (.arith (.basic b)))
  | .charlit p => some { ty := .arith (.basic (charConstType tg p)), constval := none }
  | .un op e => (typeOf tg e).bind (unaryOp tg.signedchar op)
  | .bin op l r =>
    match typeOf tg l, typeOf tg r with
    | some a, some b => (binopType tg.signedchar op a b).map rvalue
    | _, _ => none
  | .cond c l r =>
    match typeOf tg c, typeOf tg l, typeOf tg r with
    | some c, some a, some b => condOperand tg.signedchar c a b
    | _, _, _ => none
  | .cast t e => (typeOf tg e).bind (castType t)
  | .sizeofT t => (sizeofType t).map rvalue
  | .assign l r =>
    match typeOf tg l, typeOf tg r with
    | some a, some b => assignType a b
    | _, _ => none
  | .opassign op l r =>
    match typeOf tg l, typeOf tg r with
    | some a, some b => compoundAssignType tg.signedchar op a b
    | _, _ => none
  | .comma l r =>
    match typeOf tg l, typeOf tg r with
    | some a, some b => some (commaType a b)
    | _, _ => none
  | .call f args => (typeOf tg f).bind (fun o => callType o args.length)
  | .member arrow e mty mq bits => (typeOf tg e).bind (fun o => memberType arrow o mty mq bits)
  | .index a i =>
    match typeOf tg a, typeOf tg i with
    | some x, some y =>
      -- `mkunaryexpr(TMUL, mkbinaryexpr(TADD, arr, idx))`
      let x' := if x.ty.isPtr then x else y
      let y' := if x.ty.isPtr then y else x
      match x'.ty with
      | .ptr _ b =>
        if b.incomplete then none else if !y'.ty.isInt then none
        else (binopType tg.signedchar .add x' y').bind (fun t => unaryOp tg.signedchar .deref (rvalue t))
      | _ => none
    | _, _ => none

/-! ## Enumerations (`decl.c:tagspec`) -/

/-- `inttypes[][2]` (checked against `Gen.IntLimits.enumTypes`): (unsigned, signed) -/
def enumTypes : List (Basic × Basic) := [(.uint, .int), (.ulong, .long), (.ullong, .llong)]

/-- the choice of the underlying type at the closing brace when no type was fixed: `min` is the
magnitude of the most negative enumerator (0 if none), `max` the largest non-negative one
(both as `unsigned long long`); `none` = "no integer type can represent all enumerator values" -/
def enumBase (sc : Bool) (min max : Nat) : Option Basic :=
  if min ≤ 0x80000000 ∧ max ≤ 0x7fffffff then
    some (if min ≠ 0 then .int else .uint)
  else
    let sign := decide (min > 0)
    (enumTypes.map (fun p => if sign then p.2 else p.1)).find?
      (fun et => typehasint sc (.basic et) max false && typehasint sc (.basic et) ((2 ^ 64 - min) % 2 ^ 64) true)

/-- in that first branch every enumerator keeps type `int`; otherwise all get the enum type -/
def enumConstIsInt (min max : Nat) : Bool := decide (min ≤ 0x80000000 ∧ max ≤ 0x7fffffff)

end CprocVerif.Types

import CprocVerif.Model.Map
/-!
# Executable model of the scope chain of `/repo/scope.c`

A `struct scope` holds two maps (`decls`, `tags`) that are created lazily: `mkscope` only sets
`len = 0`, `scopeputdecl`/`scopeputtag` call `mapinit(…, 32)` when `len == 0`, and the getters test
`len` before calling `mapget`.  A chain of scopes linked through `parent` is a `List`, innermost
first; the last element is `filescope`.  Names are `Map.Key`s (scope.c computes them with `mapkey`;
the hash is a free field here).  Values are `Nat` with `0 = NULL` (`struct decl *`, `struct type *`).
The fields `breaklabel`, `continuelabel`, `switchcases` are not part of this model.
-/
namespace CprocVerif.Scope
open CprocVerif.Map

structure Scope where
  decls : Map
  tags : Map
deriving Repr, Inhabited

/-- Innermost scope first; the last element is the file scope. -/
abbrev Chain := List Scope

/-- The freshly allocated scope of `mkscope`: `decls.len = 0`, `tags.len = 0`. -/
def Scope.fresh : Scope := { decls := Map.uninit, tags := Map.uninit }

/-- `filescope` before `scopeinit`. -/
def fileChain : Chain := [Scope.fresh]

/-- `mkscope(parent)`. -/
def mkscope (c : Chain) : Chain := Scope.fresh :: c

/-- `delscope(s)`: frees the maps and returns `s->parent` (`NULL` = `[]` for the file scope). -/
def delscope : Chain → Chain
  | [] => []
  | _ :: parent => parent

/-- `if (!s->decls.len) mapinit(&s->decls, 32); *mapput(&s->decls, &k) = d;` -/
def Scope.putDecl (s : Scope) (k : Key) (v : Nat) : Scope :=
  let d := if s.decls.len = 0 then Map.init 32 else s.decls
  { decls := Map.put d k v, tags := s.tags }

/-- `if (!s->tags.len) mapinit(&s->tags, 32); *mapput(&s->tags, &k) = t;` -/
def Scope.putTag (s : Scope) (k : Key) (v : Nat) : Scope :=
  let t := if s.tags.len = 0 then Map.init 32 else s.tags
  { decls := s.decls, tags := Map.put t k v }

/-- `s->decls.len ? mapget(&s->decls, &k) : NULL` -/
def Scope.declOf (s : Scope) (k : Key) : Nat :=
  if s.decls.len = 0 then 0 else Map.get s.decls k

/-- `s->tags.len ? mapget(&s->tags, &k) : NULL` -/
def Scope.tagOf (s : Scope) (k : Key) : Nat :=
  if s.tags.len = 0 then 0 else Map.get s.tags k

/-- `scopeputdecl(s, d)` on the innermost scope (`[]` = NULL scope pointer: not a valid call). -/
def putDecl : Chain → Key → Nat → Chain
  | [], _, _ => []
  | s :: rest, k, v => s.putDecl k v :: rest

/-- `scopeputtag(s, name, t)` on the innermost scope. -/
def putTag : Chain → Key → Nat → Chain
  | [], _, _ => []
  | s :: rest, k, v => s.putTag k v :: rest

/-- `scopegetdecl(s, name, recurse)`:
    `do { d = …; s = s->parent; } while (!d && s && recurse); return d;` -/
def getDecl : Chain → Key → Bool → Nat
  | [], _, _ => 0
  | s :: parent, k, recurse =>
    let d := s.declOf k
    if d = 0 && !parent.isEmpty && recurse then getDecl parent k recurse else d

/-- `scopegettag(s, name, recurse)`. -/
def getTag : Chain → Key → Bool → Nat
  | [], _, _ => 0
  | s :: parent, k, recurse =>
    let t := s.tagOf k
    if t = 0 && !parent.isEmpty && recurse then getTag parent k recurse else t

end CprocVerif.Scope

/-
  C01, fragment 𝔽₁ — pure scalar integer expressions.

  The source language is a TYPED abstract syntax that mirrors cproc's `struct expr` AFTER parsing
  (`/repo/expr.c`): integer promotions, usual arithmetic conversions and the conversion of the
  `return` operand are explicit `cast` nodes (`EXPRCAST`, inserted by `exprconvert` only where the
  types are not compatible), and the operators that `unaryexpr` rewrites do not exist any more:

      ~e   ↦  e' ^ (T)-1          (`mkconstexpr(e'->type, -1)`, e' the promoted operand)
      !e   ↦  e == 0              (`mkbinaryexpr(TEQL, e, mkconstexpr(&typeint, 0))`, then the
                                   usual arithmetic conversions on both sides)
      +e   ↦  e'                  (promotion only)
      -e   ↦  EXPRUNARY TSUB e'   (kept: node `neg`)

  Every node carries its type (`e->type`).  The semantics `evalC` is C11's (6.3.1.2, 6.3.1.3,
  6.5.x) on mathematical integers, `none` = undefined behaviour; the operator semantics is
  the shared `Spec/CInt.lean`.
-/
import CprocVerif.Spec.CInt

namespace CprocVerif.CSem
open CprocVerif.CInt

/-- The integer types of the fragment.  `char`, `signed char`, `unsigned char` are three distinct
    types, so are `long` and `long long` (same representation, not compatible: cproc inserts a
    cast between them, which lowers to nothing). -/
inductive Ty where
  | bool | char | schar | uchar | short | ushort | int | uint | long | ulong | llong | ullong
  deriving DecidableEq, Repr, Inhabited

/-- `sizeof` on the three LP64 targets. -/
def Ty.size : Ty → Nat
  | .bool | .char | .schar | .uchar => 1
  | .short | .ushort => 2
  | .int | .uint => 4
  | .long | .ulong | .llong | .ullong => 8

/-- `t->u.basic.issigned`; `cs` is the target's signedness of plain `char`
    (x86_64: true, aarch64/riscv64: false). -/
def Ty.signed (cs : Bool) : Ty → Bool
  | .bool | .uchar | .ushort | .uint | .ulong | .ullong => false
  | .char => cs
  | .schar | .short | .int | .long | .llong => true

/-- The type as `(bits, signed)` of `Spec/CInt`. -/
def Ty.intTy (cs : Bool) (t : Ty) : IntTy :=
  ⟨if t = .bool then 1 else 8 * t.size, t.signed cs⟩

/-- The types an operand has after the integer promotions (rank ≥ `int`). -/
def Ty.promoted : Ty → Bool
  | .int | .uint | .long | .ulong | .llong | .ullong => true
  | _ => false

def Ty.name : Ty → String
  | .bool => "_Bool" | .char => "char" | .schar => "signed char" | .uchar => "unsigned char"
  | .short => "short" | .ushort => "unsigned short" | .int => "int" | .uint => "unsigned"
  | .long => "long" | .ulong => "unsigned long" | .llong => "long long"
  | .ullong => "unsigned long long"

/-- Typed expressions (`struct expr` after parsing). -/
inductive Expr where
  /-- `EXPRCONST`: `u` is the raw `u.constant.u` (an unsigned 64-bit number: negative values of
      signed types are stored sign-extended; `mkconstexpr(t, -1)` stores `2^64-1` whatever `t`). -/
  | const (t : Ty) (u : Nat)
  /-- `EXPRIDENT` naming the `i`-th parameter (0-based). -/
  | param (t : Ty) (i : Nat)
  /-- `EXPRCAST` to `t`. -/
  | cast (t : Ty) (e : Expr)
  /-- `EXPRUNARY` with `op = TSUB`. -/
  | neg (t : Ty) (e : Expr)
  /-- `EXPRBINARY` (including `TLOR`, `TLAND`). -/
  | bin (op : BinOp) (t : Ty) (l r : Expr)
  /-- `EXPRCOND`. -/
  | cond (t : Ty) (c a b : Expr)
  deriving Repr, Inhabited

/-- `e->type` -/
def Expr.ty : Expr → Ty
  | .const t _ | .param t _ | .cast t _ | .neg t _ | .bin _ t _ _ | .cond t _ _ _ => t

/-- A function of the fragment: `ret name(params) { return body; }`. -/
structure Func where
  name : String
  ret : Ty
  params : List Ty
  body : Expr
  deriving Repr, Inhabited

/-! ## C11 semantics -/

def isLogic : BinOp → Bool
  | .lor | .land => true
  | _ => false

/-- Value of an expression; `ρ` holds the parameter values; `none` is undefined behaviour
    (signed overflow, division by zero or `MIN / -1`, bad shift count, `<<` of a negative or
    overflowing signed value) — or an ill-formed tree (parameter index out of range). -/
def evalC (cs : Bool) (ρ : List Int) : Expr → Option Int
  | .const t u => some (wrap (t.intTy cs) (u : Int))
  | .param _ i => ρ[i]?
  | .cast t e => (evalC cs ρ e).map (conv (e.ty.intTy cs) (t.intTy cs))
  | .neg t e => (evalC cs ρ e).bind (un .neg (t.intTy cs))
  | .bin op _ l r =>
    match op with
    | .lor => (evalC cs ρ l).bind fun a => lorSC a (evalC cs ρ r)      -- 6.5.14p4
    | .land => (evalC cs ρ l).bind fun a => landSC a (evalC cs ρ r)    -- 6.5.13p4
    | op => (evalC cs ρ l).bind fun a => (evalC cs ρ r).bind fun b => bin op (l.ty.intTy cs) a b
  | .cond _ c a b =>
    (evalC cs ρ c).bind fun v => if v ≠ 0 then evalC cs ρ a else evalC cs ρ b   -- 6.5.15p4

/-! ## What the parser guarantees about the tree -/

/-- Well-typedness of a tree as `expr.c` builds it:
    * `mkbinaryexpr`: the operands of `* / % + - & | ^` and of the comparisons have been brought to
      their common real type (`commonreal`), which is the result type for the former and `int` for
      the latter; the operands of the shifts are promoted separately, the result has the type of
      the left one; `&&`, `||` take any scalars and yield `int`;
    * unary minus works on the promoted operand;
    * both arms of `?:` have the type of the whole;
    * identifiers name parameters with their declared type;
    * a `_Bool` constant is 0 or 1. -/
def Expr.wt (ptys : List Ty) : Expr → Bool
  | .const t u => decide (u < 2 ^ 64) && (t != .bool || decide (u ≤ 1))
  | .param t i => ptys[i]? == some t
  | .cast _ e => e.wt ptys
  | .neg t e => e.ty == t && t.promoted && e.wt ptys
  | .bin op t l r =>
    l.wt ptys && r.wt ptys &&
    (if isLogic op then t == .int
     else if op.isShift then l.ty == t && t.promoted && r.ty.promoted
     else if op.isCmp then l.ty == r.ty && l.ty.promoted && t == .int
     else l.ty == t && r.ty == t && t.promoted)
  | .cond t c a b => c.wt ptys && a.wt ptys && b.wt ptys && a.ty == t && b.ty == t

/-- `return e;` converts `e` to the return type (`exprassign`), so the body has that type. -/
def Func.wt (f : Func) : Bool := f.body.ty == f.ret && f.body.wt f.params

def WT (f : Func) : Prop := f.wt = true

instance (f : Func) : Decidable (WT f) := by unfold WT; exact inferInstance

/-- The arguments are values of the parameter types. -/
def EnvOK (cs : Bool) (ptys : List Ty) (ρ : List Int) : Prop :=
  ρ.length = ptys.length ∧
  ∀ (i : Nat) (t : Ty) (v : Int), ptys[i]? = some t → ρ[i]? = some v → InRange (t.intTy cs) v

def envOKb (cs : Bool) : List Ty → List Int → Bool
  | [], [] => true
  | t :: ts, v :: vs => decide (InRange (t.intTy cs) v) && envOKb cs ts vs
  | _, _ => false

end CprocVerif.CSem

/-!
# Model of the failure handling of `/repo/driver.c` (`buildobj`, `buildexe`, `cleanup`)

The driver is deterministic; everything it cannot control is an input (`Script`):

* whether `posix_spawn` of each stage succeeds (`spawnOk`),
* the order in which `wait()` hands back terminated children and with which status (`reaps`) —
  the environment may let ANY live child terminate with ANY status at any time, so every list of
  reaps is a possible behaviour; a reap naming a stage that is not a live child of the current
  pipeline is the "unknown process" branch of the code,
* whether the tool that owns the output created it (`created`),
* the same for the link step.

`reapLoop` consumes one reap per iteration of `while (npids > 0)`; running out of reaps while
children are outstanding is a hang (`wait()` never returns).  Whether `wait()` does return is the
environment's business; `Props/C18.lean` proves that after a failure every outstanding child has
been sent `SIGTERM` (so "a signalled child terminates eventually" is the only assumption needed),
and that with a fair schedule the run never hangs.

Files: temporary objects are numbered by pipeline; `Files.temps` are those that exist,
`Files.outputs` the non-temporary outputs (by pipeline; the executable is numbered after the last
pipeline).  `exit()` runs the `atexit` handler `cleanup`, which unlinks every recorded temporary.

The second part models the file descriptors of `spawnphase` (pipe ends, `FD_CLOEXEC`, `dup2`
into the child, `close` of the handed-over read end and of the write end in the driver).
-/

namespace CprocVerif.DriverFail

inductive Status | ok | fail
  deriving DecidableEq, Repr

structure Reap where
  stage : Nat
  status : Status
  deriving DecidableEq, Repr

structure PipeScript where
  n : Nat                  -- stages of this pipeline (in pipeline order 0 … n-1)
  spawnOk : List Bool      -- result of posix_spawn per stage (missing entries: success)
  reaps : List Reap        -- what successive wait() calls return
  created : Bool           -- the output file exists when the pipeline is over (non-link mode)
  deriving DecidableEq, Repr

structure Script where
  link : Bool              -- last == LINK: outputs are temporaries, buildexe follows
  pipes : List PipeScript
  linkSpawnOk : Bool
  linkStatus : Status
  linkCreated : Bool
  deriving DecidableEq, Repr

/-- bookkeeping of `buildobj` for one pipeline -/
structure PState where
  live : List Nat          -- the stages i with stages[i].pid != 0
  npids : Nat
  success : Bool
  signalled : List Nat     -- stages sent SIGTERM, most recent first
  finished : List Nat      -- stages reaped with status ok, most recent first
  deriving DecidableEq, Repr

def PipeScript.ok (ps : PipeScript) (i : Nat) : Bool := ps.spawnOk.getD i true

/-- the `kill:` block: `if (success && npids > 0) for (i …) if (stages[i].pid) kill(stages[i].pid, SIGTERM);`
then `success = false` -/
def killBlock (s : PState) : PState :=
  { s with
    signalled := (if s.success && s.npids > 0 then s.live.reverse else []) ++ s.signalled
    success := false }

/-- the spawn loop: stages `i, i+1, …` of `n`; a failing spawn jumps to `kill:` and the
remaining stages are never started -/
def spawnLoop (ps : PipeScript) : Nat → Nat → PState → PState
  | 0, _, s => s
  | fuel + 1, i, s =>
    if ps.ok i then
      spawnLoop ps fuel (i + 1) { s with live := s.live ++ [i], npids := s.npids + 1 }
    else killBlock s

/-- the body of `while (npids > 0)` for one value returned by `wait()` -/
def stepReap (r : Reap) (s : PState) : PState :=
  if r.stage ∈ s.live then
    let s1 := { s with npids := s.npids - 1, live := s.live.erase r.stage }   -- --npids; stages[i].pid = 0
    match r.status with
    | .ok => { s1 with finished := r.stage :: s1.finished }
    | .fail => killBlock s1
  else s        -- unknown process

/-- `while (npids > 0) { pid = wait(&status); … }`; `none` = wait() never returns -/
def reapLoop : List Reap → PState → Option PState
  | [], s => if s.npids = 0 then some s else none
  | r :: rest, s => if s.npids = 0 then some s else reapLoop rest (stepReap r s)

def initP : PState := { live := [], npids := 0, success := true, signalled := [], finished := [] }

/-- `buildobj` up to its last `if (!success)` -/
def runPipe (ps : PipeScript) : Option PState := reapLoop ps.reaps (spawnLoop ps ps.n 0 initP)

structure Files where
  temps : List Nat
  outputs : List Nat
  deriving DecidableEq, Repr

structure Outcome where
  exit : Option Nat                 -- none: the driver hangs in wait()
  linkSpawned : Bool
  files : Files                     -- at exit (or when it hangs)
  live : List (Nat × Nat)           -- (pipeline, stage) children never reaped
  signalled : List (Nat × Nat)      -- sent SIGTERM
  started : List (Nat × Nat)        -- successfully spawned
  finished : List (Nat × Nat)       -- reaped with exit status 0
  deriving DecidableEq, Repr

def tag (p : Nat) (l : List Nat) : List (Nat × Nat) := l.map fun s => (p, s)

def startedOf (ps : PipeScript) : List Nat :=
  (List.range ps.n).takeWhile ps.ok

/-- `atexit(cleanup)`: every recorded temporary is unlinked -/
def cleanup (f : Files) : Files := { f with temps := [] }

/-- `buildexe` -/
def runLink (sc : Script) (p : Nat) (f : Files) (o : Outcome) : Outcome :=
  if sc.linkSpawnOk then
    let f1 := if sc.linkCreated then { f with outputs := f.outputs ++ [p] } else f
    { o with exit := some (if sc.linkStatus = .ok then 0 else 1), linkSpawned := true, files := cleanup f1 }
  else
    { o with exit := some 1, files := cleanup f }    -- fatal("link: spawn …")

/-- the `arrayforeach (&inputs, input) buildobj(…)` loop followed by `buildexe` / `return 0` -/
def runFrom (sc : Script) : Nat → List PipeScript → Files → Outcome → Outcome
  | p, [], f, o =>
    if sc.link then runLink sc p f o
    else { o with exit := some 0, files := cleanup f }
  | p, ps :: rest, f, o =>
    -- output: mkstemp creates the temporary at once; other outputs are created by the tool
    let f0 : Files := if sc.link then { f with temps := f.temps ++ [p] } else f
    let o0 := { o with started := o.started ++ tag p (startedOf ps) }
    match runPipe ps with
    | none =>
      let sp := spawnLoop ps ps.n 0 initP
      { o0 with exit := none, files := (if !sc.link && ps.created then { f0 with outputs := f0.outputs ++ [p] } else f0)
                live := o0.live ++ tag p (startedOf ps), signalled := o0.signalled ++ tag p sp.signalled.reverse }
    | some s =>
      let o1 := { o0 with signalled := o0.signalled ++ tag p s.signalled.reverse
                          finished := o0.finished ++ tag p s.finished.reverse
                          live := o0.live ++ tag p s.live }
      if s.success then
        let f1 : Files := if !sc.link && ps.created then { f0 with outputs := f0.outputs ++ [p] } else f0
        runFrom sc (p + 1) rest f1 o1
      else
        -- if (output) unlink(output); exit(1);
        let f1 : Files := { temps := f0.temps.filter (· != p), outputs := f0.outputs.filter (· != p) }
        { o1 with exit := some 1, files := cleanup f1 }

def emptyOutcome : Outcome :=
  { exit := none, linkSpawned := false, files := ⟨[], []⟩, live := [], signalled := [], started := [], finished := [] }

def run (sc : Script) : Outcome := runFrom sc 0 sc.pipes ⟨[], []⟩ emptyOutcome

/-! ## File descriptors of `spawnphase` -/

inductive End | rd | wr
  deriving DecidableEq, Repr

structure Fd where
  pipe : Nat
  side : End
  cloexec : Bool
  deriving DecidableEq, Repr

structure FdState where
  driver : List Fd            -- open in the driver
  cur : Option Nat            -- `*fd`: the pipe whose read end feeds the next stage
  children : List (List (Nat × End))   -- per spawned stage: the pipe ends it holds after exec
  deriving DecidableEq, Repr

/-- what a child holds: everything of the driver that is not close-on-exec, plus the two `dup2`s
(which clear the flag on the copy) -/
def childFds (driver : List Fd) (stdin : Option Nat) (stdout : Option Nat) : List (Nat × End) :=
  (driver.filter (!·.cloexec)).map (fun f => (f.pipe, f.side)) ++
  (match stdin with | some p => [(p, End.rd)] | none => []) ++
  (match stdout with | some p => [(p, End.wr)] | none => [])

/-- `if (*fd != -1) close(*fd);` after a successful spawn: the stage has its own copy -/
def closeCur (cur : Option Nat) (d : List Fd) : List Fd :=
  match cur with
  | some p => d.filter fun f => !(f.pipe == p && f.side == .rd)
  | none => d

/-- one `spawnphase(&stages[k], &fd, …, last)`; `cloexec` = the two `fcntl(F_SETFD, FD_CLOEXEC)` -/
def spawnphaseFd (cloexec : Bool) (k : Nat) (last : Bool) (s : FdState) : FdState :=
  if last then
    { s with driver := closeCur s.cur s.driver
             children := s.children ++ [childFds s.driver s.cur none] }
  else
    let d1 := s.driver ++ [⟨k, .rd, cloexec⟩, ⟨k, .wr, cloexec⟩]        -- pipe(pipefd) + fcntl
    let child := childFds d1 s.cur (some k)                              -- adddup2(*fd, 0), adddup2(pipefd[1], 1)
    { driver := (closeCur s.cur d1).filter (fun f => !(f.pipe == k && f.side == .wr))   -- close(*fd); close(pipefd[1])
      cur := some k                                                      -- *fd = pipefd[0]
      children := s.children ++ [child] }

def spawnAllFd (cloexec : Bool) (n : Nat) : Nat → Nat → FdState → FdState
  | 0, _, s => s
  | fuel + 1, k, s => spawnAllFd cloexec n fuel (k + 1) (spawnphaseFd cloexec k (k + 1 == n) s)

/-- the descriptors after the first `m` stages of an `n`-stage pipeline were spawned -/
def fdsAfter (cloexec : Bool) (n m : Nat) : FdState :=
  spawnAllFd cloexec n m 0 { driver := [], cur := none, children := [] }

end CprocVerif.DriverFail

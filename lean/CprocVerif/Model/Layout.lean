/-!
# Model of cproc's object layout (`/repo/decl.c`: `addmember`, `structdecl`, `tagspec`;
`/repo/type.c`: `typehasint`, `typemember`; `/repo/expr.c`: `designator`, `offsetof`)

A transliteration.  `unsigned long long` / `size_t` arithmetic is modelled on `Nat` with an
explicit wrap `u64` at every operation where the C code computes in a 64-bit unsigned type;
`ALIGNUP`/`ALIGNDOWN` are the bit-mask macros of `util.h`; `error(...)` becomes `Except`.
-/

namespace CprocVerif.Layout

/-- 2^64 -/
abbrev M64 : Nat := 18446744073709551616

/-- value of an `unsigned long long` expression -/
def u64 (x : Nat) : Nat := x % M64

/-- `a - b` in `unsigned long long` -/
def sub64 (a b : Nat) : Nat := u64 (u64 a + (M64 - u64 b))

/-- `#define ALIGNDOWN(x, n) ((x) & -(n))` (64-bit) -/
def alignDown (x n : Nat) : Nat := u64 x &&& sub64 0 n

/-- `#define ALIGNUP(x, n) ALIGNDOWN((x) + (n) - 1, n)` -/
def alignUp (x n : Nat) : Nat := alignDown (sub64 (u64 (x + n)) 1) n

/-- conversion of an `unsigned long long` value to the `short` fields `bits.before/after`
(bit pattern; `before_width_after` shows the values are `≤ 64`, so nothing is lost) -/
def s16 (x : Nat) : Nat := x % 65536

/-- What `addmember` reads from `mt.type`. -/
structure MTy where
  size : Nat
  align : Nat
  isInt : Bool := false       -- `prop & PROPINT`
  incomplete : Bool := false
  isArray : Bool := false     -- `kind == TYPEARRAY`
  flexible : Bool := false
deriving DecidableEq, Repr, Inhabited

/-- One call `addmember(b, mt, name, align, width)`. -/
structure Decl where
  ty : MTy
  named : Bool               -- `name != NULL`
  align : Nat := 0           -- the `align` argument (`_Alignas`; 0 = none)
  width : Option Nat := none -- `none` ↔ `width == -1` (not a bit-field)
deriving DecidableEq, Repr, Inhabited

inductive Err where
  | afterFlexible | incompleteType | containsFlexible | lessStrict
  | bfType | bfAlign | bfPacked | bfZeroNamed | bfWidth | noMembers
  | arrayIncomplete | arrayTooLarge | variablyModified
  | enumNoType | enumInvalid | enumNoFit | assertFail
  | noSuchMember | notStruct | notArray
deriving DecidableEq, Repr, Inhabited

def Err.toString : Err → String
  | .afterFlexible => "after-flexible" | .incompleteType => "incomplete"
  | .containsFlexible => "contains-flexible" | .lessStrict => "less-strict"
  | .bfType => "bf-type" | .bfAlign => "bf-align" | .bfPacked => "bf-packed"
  | .bfZeroNamed => "bf-zero-named" | .bfWidth => "bf-width" | .noMembers => "no-members"
  | .arrayIncomplete => "array-incomplete" | .arrayTooLarge => "array-too-large"
  | .variablyModified => "variably-modified"
  | .enumNoType => "enum-no-type" | .enumInvalid => "enum-invalid" | .enumNoFit => "enum-no-fit"
  | .assertFail => "assert" | .noSuchMember => "no-such-member" | .notStruct => "not-struct"
  | .notArray => "not-array"

/-- `struct member` (`offset`, `bits.before`, `bits.after`) plus ghost fields used only by the
theorems: the size of the member's type, the `align` variable at the end of `addmember`, and
the bit-field width. -/
structure Member where
  offset : Nat
  before : Nat
  after : Nat
  tsize : Nat
  talign : Nat
  width : Option Nat
deriving DecidableEq, Repr, Inhabited

/-- `struct structbuilder` + the fields of `b->type` that `addmember` updates. -/
structure St where
  size : Nat := 0
  align : Nat := 0
  flexible : Bool := false
  bits : Nat := 0
deriving DecidableEq, Repr, Inhabited

/-- `if (m && t->align < align) t->align = align;` -/
def updAlign (hasM : Bool) (talign align : Nat) : Nat :=
  if hasM && talign < align then align else talign

/-- result of the struct branch of the bit-field case of `addmember` -/
structure BfResult where
  off : Nat
  before : Nat
  after : Nat
  size : Nat
  bits : Nat
deriving DecidableEq, Repr, Inhabited

/-- The struct branch of the bit-field case of `addmember` (`t->size = size`, `b->bits = bits`,
`mt.type->size = tsize`):
```
end = ALIGNUP(t->size, mt.type->size);
if (!width || width > (end - t->size) * 8 + b->bits) { t->size = end; b->bits = 0; }
m->offset = ALIGNDOWN(t->size - !!b->bits, mt.type->size);
m->bits.before = (t->size - m->offset) * 8 - b->bits;
m->bits.after = mt.type->size * 8 - width - m->bits.before;
t->size += (width - b->bits + 7) / 8;
b->bits = (b->bits - width) % 8;
```
(`off/before/after` are stored only `if (m)`.) -/
def bfStruct (size bits tsize width : Nat) : BfResult :=
  -- end of the storage unit for this bit-field
  let end_ := alignUp size tsize
  let noroom := width == 0 || width > u64 (u64 (sub64 end_ size * 8) + bits)
  let size1 := if noroom then end_ else size
  let bits1 := if noroom then 0 else bits
  let off := alignDown (sub64 size1 (if bits1 != 0 then 1 else 0)) tsize
  let before := s16 (sub64 (u64 (sub64 size1 off * 8)) bits1)
  let after := s16 (sub64 (sub64 (u64 (tsize * 8)) width) before)
  ⟨off, before, after, u64 (size1 + u64 (sub64 width bits1 + 7) / 8), sub64 bits1 width % 8⟩

/-- `addmember`, one call.  Returns the new builder state and the member appended (if any). -/
def addmember (isUnion pack : Bool) (st : St) (d : Decl) : Except Err (St × Option Member) :=
  if !isUnion && st.flexible then .error .afterFlexible else
  if d.ty.incomplete && !d.ty.isArray then .error .incompleteType else
  let flex1 := st.flexible || d.ty.incomplete
  if d.ty.flexible && !isUnion then .error .containsFlexible else
  let flex := flex1 || d.ty.flexible
  match d.width with
  | none =>
    -- `m` exists (name || width == -1)
    if d.align < d.ty.align && d.align != 0 then .error .lessStrict else
    let align := if d.align < d.ty.align then (if pack then 1 else d.ty.align) else d.align
    if !isUnion then
      let off := alignUp st.size align
      let m : Member := ⟨off, 0, 0, d.ty.size, align, none⟩
      .ok (⟨u64 (off + d.ty.size), updAlign true st.align align, flex, 0⟩, some m)
    else
      let m : Member := ⟨0, 0, 0, d.ty.size, align, none⟩
      .ok (⟨if st.size < d.ty.size then d.ty.size else st.size, updAlign true st.align align, flex, 0⟩,
           some m)
  | some width =>
    if !d.ty.isInt then .error .bfType else
    if d.align != 0 then .error .bfAlign else
    if pack then .error .bfPacked else
    if width == 0 && d.named then .error .bfZeroNamed else
    if width > u64 (d.ty.size * 8) then .error .bfWidth else
    let align := d.ty.align
    let hasM := d.named
    if !isUnion then
      let r := bfStruct st.size st.bits d.ty.size width
      let m : Member := ⟨r.off, r.before, r.after, d.ty.size, align, some width⟩
      .ok (⟨r.size, updAlign hasM st.align align, flex, r.bits⟩, if hasM then some m else none)
    else if hasM then
      let m : Member := ⟨0, 0, s16 (sub64 (u64 (d.ty.size * 8)) width), d.ty.size, align, some width⟩
      .ok (⟨if st.size < d.ty.size then d.ty.size else st.size, updAlign true st.align align, flex,
            st.bits⟩, some m)
    else
      -- `else if (t->size < (width + 7) / 8) t->size = (width + 7) / 8;`: an unnamed bit-field
      -- occupies storage in a union as well (no `struct member`, no alignment)
      let bytes := u64 (width + 7) / 8
      .ok (⟨if st.size < bytes then bytes else st.size, st.align, flex, st.bits⟩, none)

/-- the `do structdecl(s, &b); while (tok.kind != TRBRACE);` loop, as a fold over the calls of
`addmember` in source order -/
def run (isUnion pack : Bool) (st : St) : List Decl → Except Err (St × List Member)
  | [] => .ok (st, [])
  | d :: ds =>
    match addmember isUnion pack st d with
    | .error e => .error e
    | .ok (st1, m) =>
      match run isUnion pack st1 ds with
      | .error e => .error e
      | .ok (st2, ms) => .ok (st2, m.toList ++ ms)

structure Layout where
  size : Nat
  align : Nat
  flexible : Bool
  members : List Member
deriving DecidableEq, Repr, Inhabited

/-- `tagspec`, struct/union branch: run the member declarations, require a member, and
`t->size = ALIGNUP(t->size, t->align)`. -/
def layout (isUnion pack : Bool) (ds : List Decl) : Except Err Layout :=
  match run isUnion pack {} ds with
  | .error e => .error e
  | .ok (st, ms) =>
    if ms.isEmpty then .error .noMembers
    else .ok ⟨alignUp st.size st.align, st.align, st.flexible, ms⟩

/-! ## Types: arrays and nested struct/union (size/align computed recursively) -/

mutual
  inductive CType where
    | scalar (size align : Nat) (isInt : Bool)
    /-- `len = none`: incomplete array `T[]` -/
    | array (elem : CType) (len : Option Nat)
    | su (isUnion pack : Bool) (fields : Fields)
  inductive Fields where
    | nil
    /-- `name = none` with `width = none`: anonymous struct/union member;
        `name = none` with `width = some w`: unnamed bit-field -/
    | cons (name : Option String) (ty : CType) (align : Nat) (width : Option Nat) (rest : Fields)
end

mutual
  /-- the `struct type` fields of a type: `declarator` (arrays: `t->size = base->size * len`
  guarded by `len > ULLONG_MAX / base->size`), `tagspec` (struct/union) -/
  def tinfo : CType → Except Err MTy
    | .scalar s a i => .ok { size := s, align := a, isInt := i }
    | .array e len =>
      match tinfo e with
      | .error err => .error err
      | .ok b =>
        if b.incomplete then .error .arrayIncomplete else
        match len with
        | none => .ok { size := 0, align := b.align, incomplete := true, isArray := true }
        | some n =>
          -- `if (e->kind == EXPRCONST && base.type->size)` else the type becomes variably modified
          if b.size == 0 then .error .variablyModified else
          if n > (M64 - 1) / b.size then .error .arrayTooLarge else
          .ok { size := u64 (b.size * n), align := b.align, isArray := true }
    | .su u p fs =>
      match decls fs with
      | .error err => .error err
      | .ok ds =>
        match layout u p ds with
        | .error err => .error err
        | .ok l => .ok { size := l.size, align := l.align, flexible := l.flexible }
  def decls : Fields → Except Err (List Decl)
    | .nil => .ok []
    | .cons name ty al w rest =>
      match tinfo ty with
      | .error err => .error err
      | .ok t =>
        match decls rest with
        | .error err => .error err
        | .ok ds => .ok ({ ty := t, named := name.isSome, align := al, width := w } :: ds)
end

/-- does this field produce a `struct member`? (`name || width == -1`) -/
def producesMember (name : Option String) (width : Option Nat) : Bool :=
  name.isSome || width.isNone

mutual
  /-- `typemember(t, name, &offset)`: the member and the offset added (anonymous members are
  searched recursively, their offsets accumulate) -/
  def typemember : CType → String → Option (Nat × Member × CType)
    | .su u p fs, name =>
      match decls fs with
      | .error _ => none
      | .ok ds =>
        match layout u p ds with
        | .error _ => none
        | .ok l => findMember fs l.members name
    | _, _ => none
  def findMember : Fields → List Member → String → Option (Nat × Member × CType)
    | .nil, _, _ => none
    | .cons fname ty _ w rest, ms, name =>
      if producesMember fname w then
        match ms with
        | [] => none
        | m :: ms' =>
          match fname with
          | some n =>
            if n == name then some (m.offset, m, ty) else findMember rest ms' name
          | none =>
            match typemember ty name with
            | some (off, sub, sty) => some (off + m.offset, sub, sty)
            | none => findMember rest ms' name
      else findMember rest ms name
end

inductive Desig where
  | field (name : String)
  | index (i : Nat)
deriving Repr

def elemType : CType → Option CType
  | .array e _ => some e
  | _ => none

/-- `designator(s, m->type, &offset)` -/
def designator : CType → Nat → Member → List Desig → Except Err (Nat × Member)
  | _, off, m, [] => .ok (off, m)
  | t, off, m, .index i :: rest =>
    match t with
    | .array e _ =>
      match tinfo e with
      | .error err => .error err
      | .ok b => designator e (u64 (off + u64 (i * b.size))) { m with width := none, before := 0, after := 0, tsize := b.size } rest
    | _ => .error .notArray
  | t, off, _, .field n :: rest =>
    match t with
    | .su .. =>
      match typemember t n with
      | none => .error .noSuchMember
      | some (o, m', ty') => designator ty' (u64 (off + o)) m' rest
    | _ => .error .notStruct

/-- `__builtin_offsetof(T, name designators…)`; also returns the member reached (for the
bit-field data of a named bit-field) -/
def offsetof (t : CType) (name : String) (path : List Desig) : Except Err (Nat × Member) :=
  match t with
  | .su .. =>
    match typemember t name with
    | none => .error .noSuchMember
    | some (o, m, ty) => designator ty o m path
  | _ => .error .notStruct

/-! ## Enumerations (`tagspec`, `TYPEENUM` branch) -/

/-- an integer type as `typehasint` sees it -/
structure IntTy where
  size : Nat
  signed : Bool
deriving DecidableEq, Repr, Inhabited

def tInt : IntTy := ⟨4, true⟩
def tUInt : IntTy := ⟨4, false⟩
def tLong : IntTy := ⟨8, true⟩
def tULong : IntTy := ⟨8, false⟩

/-- `typehasint(t, i, sign)` -/
def typehasint (t : IntTy) (i : Nat) (sign : Bool) : Bool :=
  if sign && i ≥ u64 ((M64 - 1) <<< 63) then
    t.signed && i ≥ u64 ((M64 - 1) <<< (t.size * 8 - 1))
  else
    i ≤ (M64 - 1) >>> ((8 - t.size) * 8 + (if t.signed then 1 else 0))

/-- one enumerator: `implicit` (no `=`), or `= e` with `e->u.constant.u` and `e->type` -/
inductive EnumItem where
  | implicit
  | explicit (u : Nat) (ty : IntTy)
deriving DecidableEq, Repr, Inhabited

/-- `static struct type *const inttypes[][2]`, indexed `[i][sign]` -/
def inttypes (sign : Bool) : List IntTy :=
  [⟨4, sign⟩, ⟨8, sign⟩, ⟨8, sign⟩]

structure EnumSt where
  value : Nat := 0     -- the loop variable `value` at the start of the iteration
  et : IntTy := tInt
  max : Nat := 0
  min : Nat := 0
  seen : Bool := false -- `enumconsts != NULL`: an enumerator has already been recorded
deriving DecidableEq, Repr, Inhabited

/-- first half of the body of `for (value = 0; tok.kind == TIDENT; ++value)`: the enumerator's
value and type `et` (`fixed` ↔ `t->base != NULL`) -/
def enumPick (fixed : Bool) (s : EnumSt) (it : EnumItem) : Except Err (Nat × IntTy) :=
  match it with
  | .explicit u ty =>
    let value := u64 u
    if !fixed then
      .ok (value, if typehasint tInt value ty.signed then tInt else ty)
    else if !typehasint s.et value ty.signed then .error .enumInvalid
    else .ok (value, s.et)
  | .implicit =>
    let value := s.value
    -- `enumconsts && (value == 0 && !issigned || value == 1ull << 63 && issigned)`: `++value` wrapped
    if s.seen && ((value == 0 && !s.et.signed) || (value == 9223372036854775808 && s.et.signed)) then
      .error .enumNoType
    else if !typehasint s.et value s.et.signed then
      if fixed then .error .enumInvalid else
      match (inttypes s.et.signed).find? (fun t => typehasint t value s.et.signed) with
      | some t => .ok (value, t)
      | none => .error .assertFail
    else .ok (value, s.et)

/-- second half: `enumconsts = d`, `min`/`max` bookkeeping, and `++value` for the next iteration -/
def enumRecord (s : EnumSt) (value : Nat) (et : IntTy) : EnumSt :=
  let neg := et.signed && value ≥ 9223372036854775808
  let min := if neg && sub64 0 value > s.min then sub64 0 value else s.min
  let max := if !neg && value > s.max then value else s.max
  ⟨u64 (value + 1), et, max, min, true⟩

def enumStep (fixed : Bool) (s : EnumSt) (it : EnumItem) : Except Err EnumSt :=
  match enumPick fixed s it with
  | .error e => .error e
  | .ok (value, et) => .ok (enumRecord s value et)

def enumLoop (fixed : Bool) : EnumSt → List EnumItem → Except Err EnumSt
  | s, [] => .ok s
  | s, it :: its =>
    match enumStep fixed s it with
    | .error e => .error e
    | .ok s' => enumLoop fixed s' its

/-- the underlying type `t->base` chosen by `tagspec` (`fixed = some T` for `enum E : T`) -/
def enumUnderlying (fixed : Option IntTy) (items : List EnumItem) : Except Err IntTy :=
  match fixed with
  | some b =>
    match enumLoop true { et := b } items with
    | .error e => .error e
    | .ok _ => .ok b
  | none =>
    match enumLoop false {} items with
    | .error e => .error e
    | .ok s =>
      if s.min ≤ 0x80000000 && s.max ≤ 0x7fffffff then
        .ok (if s.min != 0 then tInt else tUInt)
      else
        let sign := decide (s.min > 0)
        match (inttypes sign).find? (fun t => typehasint t s.max false && typehasint t (sub64 0 s.min) true) with
        | some t => .ok t
        | none => .error .enumNoFit

end CprocVerif.Layout

/-! Byte-literal notation shared by the lexer model and spec (C13, C11).

`c!'x'` is the `UInt8` numeral of an ASCII character and `b!"abc"` the `List UInt8` of a string,
both expanded at elaboration time to plain numerals, so that `decide`/`simp` see literals. -/

namespace CprocVerif

open Lean in
macro:max "c!" c:char : term => do
  let n := c.getChar.toNat
  if n ≥ 128 then Macro.throwError "c!: not ASCII"
  `(($(Syntax.mkNumLit (toString n)) : UInt8))

open Lean in
macro:max "b!" s:str : term => do
  let bytes := s.getString.toUTF8.toList
  let elems ← bytes.mapM fun b => `(($(Syntax.mkNumLit (toString b.toNat)) : UInt8))
  `(([$elems.toArray,*] : List UInt8))

end CprocVerif

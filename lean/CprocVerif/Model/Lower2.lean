/-
  C01, fragment 𝔽₂ — model of cproc's lowering of a function whose body consists of the statements of
  `Model/CSem2.lean`.

  Transliteration of `/repo/stmt.c` (`stmt`: compound, expression statement, `if`, `while`, `do`, `for`,
  `break`, `continue`, `return`), `/repo/decl.c` (`decl` → `defineobj` → `funcinit` for objects with
  automatic storage) and `/repo/qbe.c` (`funcalloc`, `funcinit`, `funcstore`, `funcload`, `funclval`,
  `funcexpr` cases `EXPRIDENT`, `EXPRASSIGN`, `EXPRINCDEC`, `funclabel`, `funcjmp`, `funcjnz`,
  `funcret`, `funcopen`, `emitfunc`), on top of the expression lowering of `Model/Lower.lean`.

  What is new with respect to 𝔽₁:
  * every variable lives in a stack slot; `funcalloc` numbers the slot's temporary in sequence
    (`++f->lastid`) but appends the `alloc` to the START block (`f->end = f->start`), so the allocations of
    all locals are executed before the body.  `SOut.allocs` collects them in order;
  * `SCtx.slots` is the map variable ↦ slot temporary (`d->value`); `funcexpr2` is `Lower.funcexpr`
    with the load of `EXPRIDENT` going to that slot;
  * `SCtx.jump` is `f->end->jump` when already set: `funcjmp`/`funcret` do nothing then, `funclabel`
    closes the block with it, and `funcinst`/`funcjnz` first open a block `dead.N` (`funcopen`).
    LIMIT OF THE MODEL: `funcopen` acts when the first instruction of a statement is emitted; here it
    acts when the statement begins.  The two differ only for code that follows `return`/`break`/
    `continue` in the same block, which `CSem2.Stmt.wt` excludes.
-/
import CprocVerif.Model.Lower
import CprocVerif.Model.CSem2
import CprocVerif.Model.Tree

namespace CprocVerif.Lower2
open CprocVerif.Qbe CprocVerif.CSem CprocVerif.CSem2 CprocVerif.CInt CprocVerif.Lower

/-- `funcexpr(f, e)` when variable `i` lives in the slot `%.σ[i]`. -/
def funcexpr2 (cs : Bool) (σ : List Nat) : Expr → Ctx → Out
  | .const _ u, c => ⟨[], .int (UInt64.ofNat u), c⟩
  | .param t i, c =>
    funcinst c (.load (loadOf cs t)) (cls t) [.tmp (tmpName (σ.getD i 0))]
  | .cast t e, c =>
    let o := funcexpr2 cs σ e c
    o.seq (convert cs o.ctx t e.ty o.val)
  | .neg t e, c =>
    let o := funcexpr2 cs σ e c
    o.seq (funcinst o.ctx .neg (cls t) [o.val])
  | .bin op t l r, c =>
    let ol := funcexpr2 cs σ l c
    if isLogic op then
      let right := lblName "logic_right" (ol.ctx.blockid + 1)
      let join := lblName "logic_join" (ol.ctx.blockid + 2)
      let c1 : Ctx := ⟨ol.ctx.lastid, ol.ctx.blockid + 2, ol.ctx.cur⟩
      let oj := jnzArg cs c1 l.ty ol.val
      let isOr := op == .lor
      let jump := if isOr then Jump.jnz oj.val join right else Jump.jnz oj.val right join
      let src0 : String × Val := (oj.ctx.cur, .int (if isOr then 1 else 0))
      let or := funcexpr2 cs σ r ⟨oj.ctx.lastid, oj.ctx.blockid, right⟩
      let ov := convert cs or.ctx .bool r.ty or.val
      let src1 : String × Val := (ov.ctx.cur, ov.val)
      let res := tmpName (ov.ctx.lastid + 1)
      ⟨ol.items ++ oj.items ++ [.lbl (some jump) right []] ++ or.items ++ ov.items ++
         [.lbl none join [⟨res, .w, [src0, src1]⟩]],
       .tmp res,
       ⟨ov.ctx.lastid + 1, ov.ctx.blockid, join⟩⟩
    else
      let or := funcexpr2 cs σ r ol.ctx
      (ol.seq or).seq (funcinst or.ctx (binOpOf cs op l.ty) (cls t) [ol.val, or.val])
  | .cond t e a b, c =>
    let ltrue := lblName "cond_true" (c.blockid + 1)
    let lfalse := lblName "cond_false" (c.blockid + 2)
    let ljoin := lblName "cond_join" (c.blockid + 3)
    let oc := funcexpr2 cs σ e ⟨c.lastid, c.blockid + 3, c.cur⟩
    let oj := jnzArg cs oc.ctx e.ty oc.val
    let oa := funcexpr2 cs σ a ⟨oj.ctx.lastid, oj.ctx.blockid, ltrue⟩
    let ob := funcexpr2 cs σ b ⟨oa.ctx.lastid, oa.ctx.blockid, lfalse⟩
    let res := tmpName (ob.ctx.lastid + 1)
    ⟨oc.items ++ oj.items ++ [.lbl (some (.jnz oj.val ltrue lfalse)) ltrue []] ++ oa.items ++
       [.lbl (some (.jmp ljoin)) lfalse []] ++ ob.items ++
       [.lbl none ljoin [⟨res, cls t, [(oa.ctx.cur, oa.val), (ob.ctx.cur, ob.val)]⟩]],
     .tmp res,
     ⟨ob.ctx.lastid + 1, ob.ctx.blockid, ljoin⟩⟩

/-- State of the lowering between statements. -/
structure SCtx where
  /-- `f->lastid` -/
  lastid : Nat
  /-- `mkblock`'s static counter -/
  blockid : Nat
  /-- label of `f->end` -/
  cur : String
  /-- `f->end->jump`, if already set -/
  jump : Option Jump
  /-- slot temporaries of the variables declared so far (`d->value`) -/
  slots : List Nat
  deriving Inhabited

def SCtx.ctx (c : SCtx) : Ctx := ⟨c.lastid, c.blockid, c.cur⟩

/-- continue after an expression was lowered -/
def SCtx.upd (c : SCtx) (x : Ctx) : SCtx := ⟨x.lastid, x.blockid, x.cur, c.jump, c.slots⟩

/-- What a statement emits: `items` into the current blocks, `allocs` into the start block. -/
structure SOut where
  items : List Item
  allocs : List Item
  ctx : SCtx
  /-- `case` labels registered with the enclosing `switch` (`switchcase`): constant and block label -/
  cases : List (Nat × String)
  /-- `s->switchcases->defaultlabel` if the statement set it -/
  dflt : Option String
  deriving Inhabited

/-- An expression lowered between statements. -/
structure EOut where
  items : List Item
  val : Val
  ctx : SCtx
  deriving Inhabited

/-- `funcopen`: "start an unreachable block if the current one already ends in a jump". -/
def funcopen (c : SCtx) : List Item × SCtx :=
  match c.jump with
  | none => ([], c)
  | some j =>
    ([.lbl (some j) (lblName "dead" (c.blockid + 1)) []],
     ⟨c.lastid, c.blockid + 1, lblName "dead" (c.blockid + 1), none, c.slots⟩)

/-- `funcexpr(f, e)` at statement level. -/
def lowerE (cs : Bool) (c : SCtx) (e : Expr) : EOut :=
  let o := funcexpr2 cs (funcopen c).2.slots e (funcopen c).2.ctx
  ⟨(funcopen c).1 ++ o.items, o.val, (funcopen c).2.upd o.ctx⟩

/-- `funcstore(f, t, QUALNONE, (struct lvalue){slot}, v)` for a scalar without bit-field. -/
def storeIns (t : CSem.Ty) (v : Val) (slot : Nat) : Item :=
  .ins (.op none (.store (storeOf t)) [v, .tmp (tmpName slot)])

/-- `funcalloc(f, d)` for an object of integer type `d.1` or an array of `d.2` such elements (alignment =
    size of the element). -/
def allocIns (d : CSem.Ty × Nat) (slot : Nat) : Item :=
  .ins (.op (some (tmpName slot, .l)) (.alloc (if d.1.size = 8 then 8 else 4))
    [.int (UInt64.ofNat (d.1.size * d.2))])

/-- The byte offset of `a[idx]` as the parser builds it (`mkbinaryexpr`, `TADD` on a pointer:
    `(unsigned long)idx * sizeof *a`; `exprconvert` inserts no cast between equal types; nothing is
    folded). -/
def offOf (t : CSem.Ty) (idx : Expr) : Expr :=
  .bin .mul .ulong (if idx.ty = .ulong then idx else .cast .ulong idx) (.const .ulong t.size)

/-- The address of `a[idx]` (`a` in the slot `%.slot`): `&a` itself emits nothing, then the offset, then
    `add`. -/
def lowerAddr (cs : Bool) (σ : List Nat) (c : Ctx) (slot : Nat) (t : CSem.Ty) (idx : Expr) : Out :=
  let o := funcexpr2 cs σ (offOf t idx) c
  o.seq (funcinst o.ctx .add .l [.tmp (tmpName slot), o.val])

/-- `funcinit`: the address of element `j` of the object in the slot `%.slot` — the slot itself for offset 0
    ("QBE's memopt does not eliminate the store for ptr + 0"), else `add %.slot, offset`. -/
def initAddr (c : Ctx) (slot : Nat) (t : CSem.Ty) (j : Nat) : Out :=
  if j = 0 then ⟨[], .tmp (tmpName slot), c⟩
  else funcinst c .add .l [.tmp (tmpName slot), .int (UInt64.ofNat (j * t.size))]

/-- `funclabel(f, b)`: the current block ends with the jump set so far (or falls through). -/
def labelItem (c : SCtx) (l : String) : Item := .lbl c.jump l []

def SCtx.atLabel (c : SCtx) (l : String) : SCtx := ⟨c.lastid, c.blockid, l, none, c.slots⟩

/-- `funcjmp(f, l)` / `funcret(f, v)`: only if no jump is set yet. -/
def SCtx.setJump (c : SCtx) (j : Jump) : SCtx :=
  ⟨c.lastid, c.blockid, c.cur, some (c.jump.getD j), c.slots⟩

def SCtx.addBlocks (c : SCtx) (n : Nat) : SCtx := ⟨c.lastid, c.blockid + n, c.cur, c.jump, c.slots⟩

/-- The controlling expression of `if`/`while`/`do`/`for` and `funcjnz` on it; `c` is the context after
    `funcexpr`, the blocks have been created in between. -/
def lowerJnz (cs : Bool) (c : SCtx) (t : CSem.Ty) (v : Val) : EOut :=
  let o := jnzArg cs (funcopen c).2.ctx t v
  ⟨(funcopen c).1 ++ o.items, o.val, (funcopen c).2.upd o.ctx⟩

/-- `switchcase`: the tree of the converted `case` constants, in the order of the labels. -/
def switchTree (t : CSem.Ty) (cases : List (Nat × String)) : Tree.T :=
  (cases.map fun c => Tree.caseKey t.size (t.signed true) c.1).foldl Tree.insert .nil

/-- `c->body` of the tree node with key `k`. -/
def caseLabel (t : CSem.Ty) (cases : List (Nat × String)) (dl : String) (k : Nat) : String :=
  ((cases.find? fun c => Tree.caseKey t.size (t.signed true) c.1 == k).map (·.2)).getD dl

/-- `casesearch(f, class, v, c, defaultlabel)`: the comparison ladder for the tree `c`; `w`: class `w`.
    Every leaf ends with `funcjmp(defaultlabel)`, which stays pending until the next `funclabel`. -/
def ladder (w : Bool) (v : Val) (lab : Nat → String) (dl : String) : Tree.T → Ctx → List Item × Ctx
  | .nil, c => ([], c)
  | .node k _ l r, c =>
    let ne := lblName "switch_ne" (c.blockid + 1)
    let lt := lblName "switch_lt" (c.blockid + 2)
    let gt := lblName "switch_gt" (c.blockid + 3)
    let L := ladder w v lab dl l ⟨c.lastid + 2, c.blockid + 3, lt⟩
    let R := ladder w v lab dl r ⟨L.2.lastid, L.2.blockid, gt⟩
    ([.ins (.op (some (tmpName (c.lastid + 1), .w)) (if w then .cmpw .eq else .cmpl .eq)
          [v, .int (UInt64.ofNat k)]),
      .lbl (some (.jnz (.tmp (tmpName (c.lastid + 1))) (lab k) ne)) ne [],
      .ins (.op (some (tmpName (c.lastid + 2), .w)) (if w then .cmpw .ult else .cmpl .ult)
          [v, .int (UInt64.ofNat k)]),
      .lbl (some (.jnz (.tmp (tmpName (c.lastid + 2))) lt gt)) lt []] ++ L.1 ++
      [.lbl (some (.jmp dl)) gt []] ++ R.1, R.2)

/-- the arguments of a call: `argvals[i] = funcexpr(f, arg)` in order, with their classes -/
def lowerArgs (cs : Bool) (σ : List Nat) : List Expr → Ctx → List Item × List (Qbe.Ty × Val) × Ctx
  | [], c => ([], [], c)
  | e :: es, c =>
    let o := funcexpr2 cs σ e c
    let r := lowerArgs cs σ es o.ctx
    (o.items ++ r.1, (.base (cls e.ty), o.val) :: r.2.1, r.2.2)

/-- `funcexpr(f, e)` with array reads (`EXPRUNARY *`: the address, then `funcload`) and calls (`EXPRCALL`: the
    arguments in order, then `call` into a new temporary of the class of the return type). -/
def funcexpr3 (cs : Bool) (σ : List Nat) : Expr3 → Ctx → Out
  | .pure e, c => funcexpr2 cs σ e c
  | .idx t arr _ _ i, c =>
    let oa := lowerAddr cs σ c (σ.getD arr 0) t i
    oa.seq (funcinst oa.ctx (.load (loadOf cs t)) (cls t) [oa.val])
  | .call rt fn args, c =>
    let la := lowerArgs cs σ args c
    ⟨la.1 ++ [.ins (.call (some (tmpName (la.2.2.lastid + 1), .base (cls rt))) (.glob fn false) la.2.1 none)],
      .tmp (tmpName (la.2.2.lastid + 1)), ⟨la.2.2.lastid + 1, la.2.2.blockid, la.2.2.cur⟩⟩
  | .cast t e, c =>
    let o := funcexpr3 cs σ e c
    o.seq (convert cs o.ctx t e.ty o.val)
  | .neg t e, c =>
    let o := funcexpr3 cs σ e c
    o.seq (funcinst o.ctx .neg (cls t) [o.val])
  | .bin op t l r, c =>
    let ol := funcexpr3 cs σ l c
    if isLogic op then
      let right := lblName "logic_right" (ol.ctx.blockid + 1)
      let join := lblName "logic_join" (ol.ctx.blockid + 2)
      let c1 : Ctx := ⟨ol.ctx.lastid, ol.ctx.blockid + 2, ol.ctx.cur⟩
      let oj := jnzArg cs c1 l.ty ol.val
      let isOr := op == .lor
      let jump := if isOr then Jump.jnz oj.val join right else Jump.jnz oj.val right join
      let src0 : String × Val := (oj.ctx.cur, .int (if isOr then 1 else 0))
      let or := funcexpr3 cs σ r ⟨oj.ctx.lastid, oj.ctx.blockid, right⟩
      let ov := convert cs or.ctx .bool r.ty or.val
      let src1 : String × Val := (ov.ctx.cur, ov.val)
      let res := tmpName (ov.ctx.lastid + 1)
      ⟨ol.items ++ oj.items ++ [.lbl (some jump) right []] ++ or.items ++ ov.items ++
         [.lbl none join [⟨res, .w, [src0, src1]⟩]],
       .tmp res,
       ⟨ov.ctx.lastid + 1, ov.ctx.blockid, join⟩⟩
    else
      let or := funcexpr3 cs σ r ol.ctx
      (ol.seq or).seq (funcinst or.ctx (binOpOf cs op l.ty) (cls t) [ol.val, or.val])
  | .comma _ a b, c =>
    -- EXPRCOMMA: every operand in order, the value of the last
    let oa := funcexpr3 cs σ a c
    oa.seq (funcexpr3 cs σ b oa.ctx)
  | .cond t e a b, c =>
    let ltrue := lblName "cond_true" (c.blockid + 1)
    let lfalse := lblName "cond_false" (c.blockid + 2)
    let ljoin := lblName "cond_join" (c.blockid + 3)
    let oc := funcexpr3 cs σ e ⟨c.lastid, c.blockid + 3, c.cur⟩
    let oj := jnzArg cs oc.ctx e.ty oc.val
    let oa := funcexpr3 cs σ a ⟨oj.ctx.lastid, oj.ctx.blockid, ltrue⟩
    let ob := funcexpr3 cs σ b ⟨oa.ctx.lastid, oa.ctx.blockid, lfalse⟩
    let res := tmpName (ob.ctx.lastid + 1)
    ⟨oc.items ++ oj.items ++ [.lbl (some (.jnz oj.val ltrue lfalse)) ltrue []] ++ oa.items ++
       [.lbl (some (.jmp ljoin)) lfalse []] ++ ob.items ++
       [.lbl none ljoin [⟨res, cls t, [(oa.ctx.cur, oa.val), (ob.ctx.cur, ob.val)]⟩]],
     .tmp res,
     ⟨ob.ctx.lastid + 1, ob.ctx.blockid, ljoin⟩⟩

/-- `funcexpr(f, e)` at statement level. -/
def lowerE3 (cs : Bool) (c : SCtx) (e : Expr3) : EOut :=
  let o := funcexpr3 cs (funcopen c).2.slots e (funcopen c).2.ctx
  ⟨(funcopen c).1 ++ o.items, o.val, (funcopen c).2.upd o.ctx⟩

/-- `stmt(f, s)`; `brk`, `cont` = `s->breaklabel`, `s->continuelabel`. -/
def funcstmt (cs : Bool) : (brk cont : String) → Stmt → SCtx → SOut
  | _, _, .skip, c => ⟨[], [], c, [], none⟩
  | _, _, .decl _ t init, c =>
    -- decl.c: the initialiser is parsed, then `funcinit`: `funcalloc`, then `funcexpr`, `funcstore`
    let c1 : SCtx := ⟨c.lastid + 1, c.blockid, c.cur, c.jump, c.slots ++ [c.lastid + 1]⟩
    match init with
    | none => ⟨[], [allocIns (t, 1) (c.lastid + 1)], c1, [], none⟩
    | some e =>
      let oe := lowerE3 cs c1 e
      ⟨oe.items ++ [storeIns t oe.val (c.lastid + 1)], [allocIns (t, 1) (c.lastid + 1)], oe.ctx, [], none⟩
  | _, _, .assign i t e, c =>
    -- EXPRASSIGN: r = funcexpr(r); funclval(l) emits nothing for an identifier; funcstore
    let oe := lowerE3 cs c e
    ⟨oe.items ++ [storeIns t oe.val (c.slots.getD i 0)], [], oe.ctx, [], none⟩
  | _, _, .incdec i t inc, c =>
    -- EXPRINCDEC: funcload; add/sub 1 at the class of the type; (convert for _Bool); funcstore
    let c0 := (funcopen c).2
    let ol := funcinst c0.ctx (.load (loadOf cs t)) (cls t) [.tmp (tmpName (c.slots.getD i 0))]
    let oa := funcinst ol.ctx (if inc then .add else .sub) (cls t) [ol.val, .int 1]
    let ov := if t = .bool then convert cs oa.ctx .bool .int oa.val else ⟨[], oa.val, oa.ctx⟩
    ⟨(funcopen c).1 ++ ol.items ++ oa.items ++ ov.items ++ [storeIns t ov.val (c.slots.getD i 0)], [],
      c0.upd ov.ctx, [], none⟩
  | _, _, .expr e, c =>
    let oe := lowerE3 cs c e
    ⟨oe.items, [], oe.ctx, [], none⟩
  | _, _, .ret e, c =>
    let oe := lowerE3 cs c e
    ⟨oe.items, [], oe.ctx.setJump (.ret (some oe.val)), [], none⟩
  | brk, cont, .seq a b, c =>
    let oa := funcstmt cs brk cont a c
    let ob := funcstmt cs brk cont b oa.ctx
    ⟨oa.items ++ ob.items, oa.allocs ++ ob.allocs, ob.ctx, oa.cases ++ ob.cases,
      match oa.dflt with
      | some d => some d
      | none => ob.dflt⟩
  | brk, cont, .ite e a, c =>
    let oe := lowerE3 cs c e
    let ltrue := lblName "if_true" (oe.ctx.blockid + 1)
    let lfalse := lblName "if_false" (oe.ctx.blockid + 2)
    let oj := lowerJnz cs (oe.ctx.addBlocks 2) e.ty oe.val
    let oa := funcstmt cs brk cont a (oj.ctx.atLabel ltrue)
    ⟨oe.items ++ oj.items ++ [.lbl (some (.jnz oj.val ltrue lfalse)) ltrue []] ++ oa.items ++
       [labelItem oa.ctx lfalse],
     oa.allocs, oa.ctx.atLabel lfalse, [], none⟩
  | brk, cont, .itee e a b, c =>
    let oe := lowerE3 cs c e
    let ltrue := lblName "if_true" (oe.ctx.blockid + 1)
    let lfalse := lblName "if_false" (oe.ctx.blockid + 2)
    let oj := lowerJnz cs (oe.ctx.addBlocks 2) e.ty oe.val
    let oa := funcstmt cs brk cont a (oj.ctx.atLabel ltrue)
    let ljoin := lblName "if_join" (oa.ctx.blockid + 1)
    let c4 := (oa.ctx.addBlocks 1).setJump (.jmp ljoin)
    let ob := funcstmt cs brk cont b (c4.atLabel lfalse)
    ⟨oe.items ++ oj.items ++ [.lbl (some (.jnz oj.val ltrue lfalse)) ltrue []] ++ oa.items ++
       [labelItem c4 lfalse] ++ ob.items ++ [labelItem ob.ctx ljoin],
     oa.allocs ++ ob.allocs, ob.ctx.atLabel ljoin, [], none⟩
  | _, _, .while_ e b, c =>
    let lcond := lblName "while_cond" (c.blockid + 1)
    let lbody := lblName "while_body" (c.blockid + 2)
    let ljoin := lblName "while_join" (c.blockid + 3)
    let oe := lowerE3 cs ((c.addBlocks 3).atLabel lcond) e
    let oj := lowerJnz cs oe.ctx e.ty oe.val
    let ob := funcstmt cs ljoin lcond b (oj.ctx.atLabel lbody)
    ⟨[labelItem c lcond] ++ oe.items ++ oj.items ++ [.lbl (some (.jnz oj.val lbody ljoin)) lbody []] ++
       ob.items ++ [labelItem (ob.ctx.setJump (.jmp lcond)) ljoin],
     ob.allocs, ob.ctx.atLabel ljoin, [], none⟩
  | _, _, .dowhile b e, c =>
    let lbody := lblName "do_body" (c.blockid + 1)
    let lcond := lblName "do_cond" (c.blockid + 2)
    let ljoin := lblName "do_join" (c.blockid + 3)
    let ob := funcstmt cs ljoin lcond b ((c.addBlocks 3).atLabel lbody)
    let oe := lowerE3 cs (ob.ctx.atLabel lcond) e
    let oj := lowerJnz cs oe.ctx e.ty oe.val
    ⟨[labelItem c lbody] ++ ob.items ++ [labelItem ob.ctx lcond] ++ oe.items ++ oj.items ++
       [.lbl (some (.jnz oj.val lbody ljoin)) ljoin []],
     ob.allocs, oj.ctx.atLabel ljoin, [], none⟩
  | brk, cont, .for_ e step b, c =>
    let lcond := lblName "for_cond" (c.blockid + 1)
    let lbody := lblName "for_body" (c.blockid + 2)
    let lcont := lblName "for_cont" (c.blockid + 3)
    let ljoin := lblName "for_join" (c.blockid + 4)
    let c1 := (c.addBlocks 4).atLabel lcond
    let hd : List Item × SCtx :=
      match e with
      | none => ([.lbl none lbody []], c1.atLabel lbody)
      | some e =>
        let oe := lowerE3 cs c1 e
        let oj := lowerJnz cs oe.ctx e.ty oe.val
        (oe.items ++ oj.items ++ [.lbl (some (.jnz oj.val lbody ljoin)) lbody []], oj.ctx.atLabel lbody)
    let ob := funcstmt cs ljoin lcont b hd.2
    let os := funcstmt cs brk cont step (ob.ctx.atLabel lcont)
    ⟨[labelItem c lcond] ++ hd.1 ++ ob.items ++ [labelItem ob.ctx lcont] ++ os.items ++
       [labelItem (os.ctx.setJump (.jmp lcond)) ljoin],
     ob.allocs ++ os.allocs, os.ctx.atLabel ljoin, [], none⟩
  | brk, _, .break_, c => ⟨[], [], c.setJump (.jmp brk), [], none⟩
  | _, cont, .continue_, c => ⟨[], [], c.setJump (.jmp cont), [], none⟩
  | _, _, .case_ u, c =>
    -- label(): b = mkblock("switch_case"); funclabel(f, b); switchcase(s->switchcases, i, b)
    ⟨[labelItem c (lblName "switch_case" (c.blockid + 1))], [],
      (c.addBlocks 1).atLabel (lblName "switch_case" (c.blockid + 1)),
      [(u, lblName "switch_case" (c.blockid + 1))], none⟩
  | _, _, .default_, c =>
    ⟨[labelItem c (lblName "switch_default" (c.blockid + 1))], [],
      (c.addBlocks 1).atLabel (lblName "switch_default" (c.blockid + 1)),
      [], some (lblName "switch_default" (c.blockid + 1))⟩
  | _, _, .call dst rt fn args, c =>
    -- EXPRCALL: the arguments in order (funcexpr), then ICALL (new temporary of the result class; the
    -- callee `$fn` is a global: no instruction), the IARGs follow without temporaries; EXPRCAST to the type
    -- of the assigned variable, funcstore
    let c0 := (funcopen c).2
    let la := lowerArgs cs c0.slots args c0.ctx
    let res := tmpName (la.2.2.lastid + 1)
    let callIns : Item := .ins (.call (some (res, .base (cls rt))) (.glob fn false) la.2.1 none)
    let c1 : Ctx := ⟨la.2.2.lastid + 1, la.2.2.blockid, la.2.2.cur⟩
    match dst with
    | none => ⟨(funcopen c).1 ++ la.1 ++ [callIns], [], c0.upd c1, [], none⟩
    | some (i, t) =>
      -- mkassignexpr: exprconvert inserts the cast only between different types
      let ov : Out := if t = rt then ⟨[], .tmp res, c1⟩ else convert cs c1 t rt (.tmp res)
      ⟨(funcopen c).1 ++ la.1 ++ [callIns] ++ ov.items ++ [storeIns t ov.val (c.slots.getD i 0)], [],
        c0.upd ov.ctx, [], none⟩
  | _, _, .adecl _ t n _, c =>
    ⟨[], [allocIns (t, n) (c.lastid + 1)],
      ⟨c.lastid + 1, c.blockid, c.cur, c.jump, c.slots ++ [c.lastid + 1]⟩, [], none⟩
  | _, _, .aload dst dt arr t _ _ idx, c =>
    -- EXPRASSIGN: r = funcexpr(cast?(*(off + &a))): the address, funcload, convert; then funcstore to `x`
    let c0 := (funcopen c).2
    let oa := lowerAddr cs c0.slots c0.ctx (c.slots.getD arr 0) t idx
    let ol := funcinst oa.ctx (.load (loadOf cs t)) (cls t) [oa.val]
    let ov : Out := if dt = t then ⟨[], ol.val, ol.ctx⟩ else convert cs ol.ctx dt t ol.val
    ⟨(funcopen c).1 ++ oa.items ++ ol.items ++ ov.items ++ [storeIns dt ov.val (c.slots.getD dst 0)], [],
      c0.upd ov.ctx, [], none⟩
  | _, _, .ainit arr t _ _ j e, c =>
    -- funcinit: the address of the element (`add` only for a non-zero offset), then the value, then `funcstore`
    let c0 := (funcopen c).2
    let oa := initAddr c0.ctx (c.slots.getD arr 0) t j
    let oe := funcexpr3 cs c0.slots e oa.ctx
    ⟨(funcopen c).1 ++ oa.items ++ oe.items ++ [.ins (.op none (.store (storeOf t)) [oe.val, oa.val])], [],
      c0.upd oe.ctx, [], none⟩
  | _, _, .astore arr t _ _ idx e, c =>
    -- EXPRASSIGN: r = funcexpr(e); funclval(*(off + &a)) = funcexpr of the pointer; funcstore
    let oe := lowerE3 cs c e
    let oa := lowerAddr cs oe.ctx.slots oe.ctx.ctx (c.slots.getD arr 0) t idx
    ⟨oe.items ++ oa.items ++ [.ins (.op none (.store (storeOf t)) [oe.val, oa.val])], [],
      oe.ctx.upd oa.ctx, [], none⟩
  | _, _, .pload dst dt k t _ _ idx, c =>
    -- `p` is an identifier of pointer type: its value is loaded (`funcload`), then the offset, `add`, the
    -- element is loaded, converted and stored to `x`
    let c0 := (funcopen c).2
    let op := funcinst c0.ctx (.load .l) .l [.tmp (tmpName (c.slots.getD k 0))]
    let oo := funcexpr2 cs c0.slots (offOf t idx) op.ctx
    let oa := funcinst oo.ctx .add .l [op.val, oo.val]
    let ol := funcinst oa.ctx (.load (loadOf cs t)) (cls t) [oa.val]
    let ov : Out := if dt = t then ⟨[], ol.val, ol.ctx⟩ else convert cs ol.ctx dt t ol.val
    ⟨(funcopen c).1 ++ op.items ++ oo.items ++ oa.items ++ ol.items ++ ov.items ++
        [storeIns dt ov.val (c.slots.getD dst 0)], [], c0.upd ov.ctx, [], none⟩
  | _, _, .callp dst rt fn pargs args, c =>
    -- as `call`; an array argument decays to the address of its slot: no instruction, class `l`
    let c0 := (funcopen c).2
    let la := lowerArgs cs c0.slots args c0.ctx
    let res := tmpName (la.2.2.lastid + 1)
    let pa : List (Qbe.Ty × Val) := pargs.map fun a => (.base .l, .tmp (tmpName (c.slots.getD a.1 0)))
    let callIns : Item := .ins (.call (some (res, .base (cls rt))) (.glob fn false) (pa ++ la.2.1) none)
    let c1 : Ctx := ⟨la.2.2.lastid + 1, la.2.2.blockid, la.2.2.cur⟩
    match dst with
    | none => ⟨(funcopen c).1 ++ la.1 ++ [callIns], [], c0.upd c1, [], none⟩
    | some (i, t) =>
      let ov : Out := if t = rt then ⟨[], .tmp res, c1⟩ else convert cs c1 t rt (.tmp res)
      ⟨(funcopen c).1 ++ la.1 ++ [callIns] ++ ov.items ++ [storeIns t ov.val (c.slots.getD i 0)], [],
        c0.upd ov.ctx, [], none⟩
  | _, cont, .switch_ e b, c =>
    -- b[0] = mkblock("switch_cond"); b[1] = mkblock("switch_join"); v = funcexpr(f, e); funcjmp(f, b[0]);
    -- body with breaklabel = b[1]; funcjmp(f, b[1]); funclabel(f, b[0]); funcswitch; funclabel(f, b[1])
    let lcond := lblName "switch_cond" (c.blockid + 1)
    let ljoin := lblName "switch_join" (c.blockid + 2)
    let oe := lowerE3 cs (c.addBlocks 2) e
    let ob := funcstmt cs ljoin cont b (oe.ctx.setJump (.jmp lcond))
    let c2 := ob.ctx.setJump (.jmp ljoin)
    let dl := ob.dflt.getD ljoin
    let tree := switchTree e.ty ob.cases
    let lad := ladder (decide (e.ty.size ≤ 4)) oe.val (caseLabel e.ty ob.cases dl) dl tree (c2.atLabel lcond).ctx
    ⟨oe.items ++ ob.items ++ [labelItem c2 lcond] ++ lad.1 ++ [.lbl (some (.jmp dl)) ljoin []],
     ob.allocs, ((c2.atLabel lcond).upd lad.2).atLabel ljoin, [], none⟩

/-- Slots of the parameters after `mkfunc`: parameter `i` is in `%.(2i+2)`. -/
def paramSlots (n : Nat) : List Nat := (List.range n).map fun i => 2 * i + 2

/-- State after `mkfunc`. -/
def bodyCtx (startid : Nat) (f : CSem2.Func) : SCtx :=
  { lastid := 2 * f.params.length, blockid := startid + 2, cur := bodyLabel startid, jump := none,
    slots := paramSlots f.params.length }

def bodyOut (cs : Bool) (startid : Nat) (f : CSem2.Func) : SOut :=
  funcstmt cs "" "" f.body (bodyCtx startid f)

/-- Everything emitted for the function, in the order of the blocks. -/
def funcItems (cs : Bool) (startid : Nat) (f : CSem2.Func) : List Item :=
  spills f.params 0 ++ (bodyOut cs startid f).allocs ++ [.lbl none (bodyLabel startid) []] ++
    (bodyOut cs startid f).items

/-- `emitfunc`: "if (f->end->jump.kind == JUMP_NONE) funcret(f, NULL)" (the function is not `main`). -/
def finalJump (cs : Bool) (startid : Nat) (f : CSem2.Func) : Jump :=
  (bodyOut cs startid f).ctx.jump.getD (.ret none)

/-- The function as `emitfunc` prints it (external linkage). -/
def emitFunc (cs : Bool) (startid : Nat) (f : CSem2.Func) : Qbe.Func :=
  { «export» := true
    ret := some (.base (cls f.ret))
    name := f.name
    params := paramSig f.params 0
    variadic := false
    blocks := (assemble (finalJump cs startid f) ⟨startLabel startid, [], #[]⟩
                (funcItems cs startid f)).toArray }

/-- Value of `mkblock`'s counter after the function. -/
def nextBlockId (cs : Bool) (startid : Nat) (f : CSem2.Func) : Nat :=
  (bodyOut cs startid f).ctx.blockid

/-- the functions of a program, emitted one after the other (`mkblock`'s counter runs on) -/
def emitProg (cs : Bool) : Nat → List CSem2.Func → List Qbe.Func
  | _, [] => []
  | startid, f :: fs => emitFunc cs startid f :: emitProg cs (nextBlockId cs startid f) fs

/-! ## Text with calls (`emitinst`, `case ICALL`) -/

def renderCallArgs : List (Qbe.Ty × Val) → String
  | [] => ""
  | [(t, v)] => t.name ++ " " ++ renderVal v
  | (t, v) :: r => t.name ++ " " ++ renderVal v ++ ", " ++ renderCallArgs r

def renderIns2 : Ins → String
  | .call res callee args _ =>
    "\t" ++ (match res with
      | some (x, t) => "%" ++ x ++ " =" ++ t.name ++ " "
      | none => "") ++ "call " ++ renderVal callee ++ "(" ++ renderCallArgs args ++ ")\n"
  | i => renderIns i

def renderBlock2 (b : Block) : String :=
  "@" ++ b.label ++ "\n" ++ String.join (b.phis.map renderPhi) ++
    String.join (b.ins.toList.map renderIns2) ++ renderJump b.term

def render2 (f : Qbe.Func) : String :=
  (if f.export then "export\n" else "") ++ "function " ++
    (match f.ret with | some t => t.name ++ " " | none => "") ++ "$" ++ f.name ++ "(" ++
    renderParams f.params ++ ") {\n" ++ String.join (f.blocks.toList.map renderBlock2) ++ "}\n"

end CprocVerif.Lower2
